/-
Lemmas/RecordWriterPaged.lean — writeToVersion2 executed on the page buffer (placeholders, back-patching through
`WriteAt`, CRC over `scan`) leaves the buffer's previous content followed by exactly the bytes of the flat writer
model `writeV2` (which `Lemmas/RecordWriter` proves to be the Spec encoding).
-/
import KafkaVerif.Model.RecordWriterPaged
import KafkaVerif.Lemmas.PageBuffer
import KafkaVerif.Lemmas.RecordWriter

namespace KV.Model.RecordWriter
open KV KV.RW KV.Model.PageBuffer

theorem writeAll_spec (P : Nat) (hP : 0 < P) : ∀ (bs : List Bytes) (pb : PB), Contig P pb.pages →
    flat (writeAll P pb bs) = flat pb ++ bs.flatten ∧ Contig P (writeAll P pb bs).pages ∧ (writeAll P pb bs).base = pb.base
  | [], pb, hc => by simp [writeAll, hc]
  | b :: bs, pb, hc => by
    have h1 := write_spec P hP pb b hc
    have h2 := writeAll_spec P hP bs (write P pb b) h1.2.1
    simp only [writeAll]
    refine ⟨by rw [h2.1, h1.1]; simp, h2.2.1, by rw [h2.2.2, h1.2.2]⟩

theorem recordChunks_flatten (now first : Int) : ∀ (i : Nat) (rs : List PRec),
    (recordChunks now first i rs).flatten = recordsV2 now first i rs
  | _, [] => rfl
  | i, r :: rs => by simp [recordChunks, recordsV2, recordChunks_flatten now first (i + 1) rs]

theorem patch_length (F : Bytes) (o : Nat) (b : Bytes) (h : o + b.length ≤ F.length) : (patch F o b).length = F.length := by
  simp only [patch, List.length_append, List.length_take, List.length_drop]; omega

/-- offset of field `k` in a list of fields -/
def offsetOf : List Bytes → Nat → Nat
  | [], _ => 0
  | _ :: _, 0 => 0
  | f :: fs, k + 1 => f.length + offsetOf fs k

def setAt : List Bytes → Nat → Bytes → List Bytes
  | [], _, _ => []
  | _ :: fs, 0, b => b :: fs
  | f :: fs, k + 1, b => f :: setAt fs k b

def fieldLen : List Bytes → Nat → Nat
  | [], _ => 0
  | f :: _, 0 => f.length
  | _ :: fs, k + 1 => fieldLen fs k

theorem patch_skip (A X : Bytes) (o : Nat) (b : Bytes) : patch (A ++ X) (A.length + o) b = A ++ patch X o b := by
  simp only [patch, List.take_append, List.drop_append, Nat.add_sub_cancel_left, Nat.add_assoc,
    List.take_of_length_le (Nat.le_add_right A.length o), List.drop_of_length_le (Nat.le_add_right A.length (o + b.length)),
    List.nil_append, List.append_assoc]

theorem patch_head (old X new : Bytes) (h : old.length = new.length) : patch (old ++ X) 0 new = new ++ X := by
  simp only [patch, List.take_zero, List.nil_append, Nat.zero_add, ← h, List.drop_append, Nat.sub_self, List.drop_zero,
    List.drop_of_length_le (Nat.le_refl old.length)]

/-- overwriting exactly field `k` of a field sequence -/
theorem patch_field (R : Bytes) : ∀ (fs : List Bytes) (k : Nat) (new : Bytes), k < fs.length → fieldLen fs k = new.length →
    patch (fs.flatten ++ R) (offsetOf fs k) new = (setAt fs k new).flatten ++ R
  | [], _, _, hk, _ => by simp at hk
  | f :: fs, 0, new, _, hl => by
    simp only [List.flatten_cons, List.append_assoc, offsetOf, setAt]
    exact patch_head f _ new hl
  | f :: fs, k + 1, new, hk, hl => by
    simp only [List.flatten_cons, List.append_assoc, offsetOf, setAt]
    rw [patch_skip, patch_field R fs k new (by simpa using hk) hl]

theorem seg_mid (A B : Bytes) : seg (A ++ B) A.length (A.length + B.length) = B := by
  simp only [seg, ← List.length_append, List.take_length, List.drop_append, Nat.sub_self, List.drop_zero,
    List.drop_of_length_le (Nat.le_refl A.length), List.nil_append]

theorem patch_field' (R : Bytes) (fs : List Bytes) (k : Nat) (new : Bytes) (o : Nat) (hk : k < fs.length)
    (hl : fieldLen fs k = new.length) (ho : o = offsetOf fs k) :
    patch (fs.flatten ++ R) o new = (setAt fs k new).flatten ++ R := by
  rw [ho]; exact patch_field R fs k new hk hl

/-- the header with placeholders, then the six patches, at the level of flat bytes -/
theorem header_patches (F R : Bytes) (attrs lod first mx n len : Int) (c : Nat) :
    patch (patch (patch (patch (patch (patch
      ([F, i64 0, i32 0, i32 (-1), i8 2, i32 0, i16 attrs, i32 0, i64 0, i64 0, i64 (-1), i16 (-1), i32 (-1), i32 0].flatten ++ R)
      (F.length + 23) (i32 lod)) (F.length + 27) (i64 first)) (F.length + 35) (i64 mx)) (F.length + 57) (i32 n))
      (F.length + 8) (i32 len)) (F.length + 17) (u32 c)
    = [F, i64 0, i32 len, i32 (-1), i8 2, u32 c, i16 attrs, i32 lod, i64 first, i64 mx, i64 (-1), i16 (-1), i32 (-1),
        i32 n].flatten ++ R := by
  rw [patch_field' R _ 7 (i32 lod) _ (by simp) (by simp [fieldLen]) (by simp [offsetOf])]
  rw [patch_field' R _ 8 (i64 first) _ (by simp [setAt]) (by simp [fieldLen, setAt]) (by simp [offsetOf, setAt])]
  rw [patch_field' R _ 9 (i64 mx) _ (by simp [setAt]) (by simp [fieldLen, setAt]) (by simp [offsetOf, setAt])]
  rw [patch_field' R _ 13 (i32 n) _ (by simp [setAt]) (by simp [fieldLen, setAt]) (by simp [offsetOf, setAt])]
  rw [patch_field' R _ 2 (i32 len) _ (by simp [setAt]) (by simp [fieldLen, setAt]) (by simp [offsetOf, setAt])]
  rw [patch_field' R _ 5 (u32 c) _ (by simp [setAt]) (by simp [fieldLen, setAt]) (by simp [offsetOf, setAt])]
  rfl

/-- after the first four patches the CRC region `[offset+21, end)` is attributes … records -/
theorem crc_region (F R : Bytes) (attrs lod first mx n : Int) :
    seg (patch (patch (patch (patch
      ([F, i64 0, i32 0, i32 (-1), i8 2, i32 0, i16 attrs, i32 0, i64 0, i64 0, i64 (-1), i16 (-1), i32 (-1), i32 0].flatten ++ R)
      (F.length + 23) (i32 lod)) (F.length + 27) (i64 first)) (F.length + 35) (i64 mx)) (F.length + 57) (i32 n))
      (F.length + 21) (F.length + (61 + R.length))
    = i16 attrs ++ (i32 lod ++ (i64 first ++ (i64 mx ++ (i64 (-1) ++ (i16 (-1) ++ (i32 (-1) ++ (i32 n ++ R))))))) := by
  rw [patch_field' R _ 7 (i32 lod) _ (by simp) (by simp [fieldLen]) (by simp [offsetOf])]
  rw [patch_field' R _ 8 (i64 first) _ (by simp [setAt]) (by simp [fieldLen, setAt]) (by simp [offsetOf, setAt])]
  rw [patch_field' R _ 9 (i64 mx) _ (by simp [setAt]) (by simp [fieldLen, setAt]) (by simp [offsetOf, setAt])]
  rw [patch_field' R _ 13 (i32 n) _ (by simp [setAt]) (by simp [fieldLen, setAt]) (by simp [offsetOf, setAt])]
  have e : (setAt (setAt (setAt (setAt [F, i64 0, i32 0, i32 (-1), i8 2, i32 0, i16 attrs, i32 0, i64 0, i64 0, i64 (-1),
      i16 (-1), i32 (-1), i32 0] 7 (i32 lod)) 8 (i64 first)) 9 (i64 mx)) 13 (i32 n)).flatten ++ R =
      (F ++ (i64 0 ++ (i32 0 ++ (i32 (-1) ++ (i8 2 ++ i32 0))))) ++
        (i16 attrs ++ (i32 lod ++ (i64 first ++ (i64 mx ++ (i64 (-1) ++ (i16 (-1) ++ (i32 (-1) ++ (i32 n ++ R)))))))) := by
    simp only [setAt, List.flatten_cons, List.flatten_nil, List.append_nil, List.append_assoc]
  rw [e]
  have h1 : F.length + 21 = (F ++ (i64 0 ++ (i32 0 ++ (i32 (-1) ++ (i8 2 ++ i32 0))))).length := by simp
  have h2 : 61 + R.length = 21 + (i16 attrs ++ (i32 lod ++ (i64 first ++ (i64 mx ++ (i64 (-1) ++ (i16 (-1) ++
      (i32 (-1) ++ (i32 n ++ R)))))))).length := by simp; omega
  rw [h2, ← Nat.add_assoc, h1]
  exact seg_mid _ _
/-- one back-patch inside the batch: flat content patched, contiguity and base kept, length kept -/
theorem writeAt_step (P : Nat) (hP : 0 < P) (pb : PB) (b : Bytes) (off : Nat) (hc : Contig P pb.pages) (hb : pb.base = 0)
    (hfit : off + b.length ≤ (flat pb).length) :
    flat (writeAt P pb b off) = patch (flat pb) off b ∧ Contig P (writeAt P pb b off).pages ∧ (writeAt P pb b off).base = 0 ∧
      (flat (writeAt P pb b off)).length = (flat pb).length := by
  have h := writeAt_spec P hP pb b off hc (by omega) (by omega)
  rw [hb] at h
  refine ⟨h.1, h.2, hb, ?_⟩
  rw [h.1]; exact patch_length _ _ _ hfit

/-- the body of writeToVersion2 on the page buffer, for any payload chunks -/
theorem writeV2PagedWith_spec (P : Nat) (hP : 0 < P) (crc : Bytes → Nat) (attrs first mx : Int) (n : Nat)
    (chunks : List Bytes) (pb : PB) (hc : Contig P pb.pages) (hb : pb.base = 0) :
    flat (writeV2PagedWith P crc attrs first mx n chunks pb) = flat pb ++ frameBytes crc attrs first mx n chunks.flatten ∧
      Contig P (writeV2PagedWith P crc attrs first mx n chunks pb).pages ∧
      (writeV2PagedWith P crc attrs first mx n chunks pb).base = 0 := by
  simp only [writeV2PagedWith, frameBytes, hb, Nat.zero_add]
  generalize hR : chunks.flatten = R
  generalize hF : flat pb = F
  -- the header and the payload
  have h1 := writeAll_spec P hP [i64 0, i32 0, i32 (-1), i8 2, i32 0, i16 attrs, i32 0, i64 0, i64 0, i64 (-1), i16 (-1),
    i32 (-1), i32 0] pb hc
  generalize writeAll P pb [i64 0, i32 0, i32 (-1), i8 2, i32 0, i16 attrs, i32 0, i64 0, i64 0, i64 (-1), i16 (-1),
    i32 (-1), i32 0] = pb1 at h1 ⊢
  have h2 := writeAll_spec P hP chunks pb1 h1.2.1
  generalize writeAll P pb1 chunks = pb2 at h2 ⊢
  rw [hR, h1.1, hF] at h2
  have hb2 : pb2.base = 0 := by rw [h2.2.2, h1.2.2, hb]
  have hf2 : flat pb2 = [F, i64 0, i32 0, i32 (-1), i8 2, i32 0, i16 attrs, i32 0, i64 0, i64 0, i64 (-1), i16 (-1), i32 (-1),
      i32 0].flatten ++ R := by
    rw [h2.1]; simp only [List.flatten_cons, List.flatten_nil, List.append_nil, List.append_assoc]
  have hl2 : (flat pb2).length = F.length + (61 + R.length) := by
    rw [hf2]
    simp only [List.flatten_cons, List.flatten_nil, List.append_nil, List.length_append, i64_length, i32_length,
      i16_length, i8_length]
    omega
  -- four back-patches
  have h3 := writeAt_step P hP pb2 (i32 ((n : Int) - 1)) (F.length + 23) h2.2.1 hb2 (by simp; omega)
  generalize writeAt P pb2 (i32 ((n : Int) - 1)) (F.length + 23) = pb3 at h3 ⊢
  have h4 := writeAt_step P hP pb3 (i64 first) (F.length + 27) h3.2.1 h3.2.2.1 (by simp; omega)
  generalize writeAt P pb3 (i64 first) (F.length + 27) = pb4 at h4 ⊢
  have h5 := writeAt_step P hP pb4 (i64 mx) (F.length + 35) h4.2.1 h4.2.2.1 (by simp; omega)
  generalize writeAt P pb4 (i64 mx) (F.length + 35) = pb5 at h5 ⊢
  have h6 := writeAt_step P hP pb5 (i32 (n : Int)) (F.length + 57) h5.2.1 h5.2.2.1 (by simp; omega)
  generalize writeAt P pb5 (i32 (n : Int)) (F.length + 57) = pb6 at h6 ⊢
  have hl6 : (flat pb6).length = F.length + (61 + R.length) := by omega
  have ht : pb6.base + (flat pb6).length - F.length = 61 + R.length := by rw [h6.2.2.1, hl6]; omega
  rw [ht]
  -- the checksum region
  have hs : scan P pb6 (F.length + 21) (F.length + (61 + R.length)) =
      i16 attrs ++ (i32 ((n : Int) - 1) ++ (i64 first ++ (i64 mx ++
        (i64 (-1) ++ (i16 (-1) ++ (i32 (-1) ++ (i32 (n : Int) ++ R))))))) := by
    rw [scan_eq P hP pb6 h6.2.1 _ _ (by omega), h6.2.2.1, Nat.sub_zero, Nat.sub_zero, h6.1, h5.1, h4.1, h3.1, hf2]
    exact crc_region F R attrs _ _ _ _
  rw [hs]
  generalize hC : crc (i16 attrs ++ (i32 ((n : Int) - 1) ++ (i64 first ++
    (i64 mx ++ (i64 (-1) ++ (i16 (-1) ++ (i32 (-1) ++ (i32 (n : Int) ++ R)))))))) = c
  -- two more back-patches
  have h7 := writeAt_step P hP pb6 (i32 ((61 + R.length - 12 : Nat) : Int)) (F.length + 8) h6.2.1 h6.2.2.1 (by simp; omega)
  generalize writeAt P pb6 (i32 ((61 + R.length - 12 : Nat) : Int)) (F.length + 8) = pb7 at h7 ⊢
  have h8 := writeAt_step P hP pb7 (u32 c) (F.length + 17) h7.2.1 h7.2.2.1 (by simp; omega)
  generalize writeAt P pb7 (u32 c) (F.length + 17) = pb8 at h8 ⊢
  refine ⟨?_, h8.2.1, h8.2.2.1⟩
  rw [h8.1, h7.1, h6.1, h5.1, h4.1, h3.1, hf2, header_patches]
  have hlen : 21 + (i16 attrs ++ (i32 ((n : Int) - 1) ++ (i64 first ++
    (i64 mx ++ (i64 (-1) ++ (i16 (-1) ++ (i32 (-1) ++ (i32 (n : Int) ++ R)))))))).length
      = 61 + R.length := by simp; omega
  rw [hlen]
  simp only [List.flatten_cons, List.flatten_nil, List.append_nil, List.append_assoc]

theorem writeV2_frameBytes (crc : Bytes → Nat) (attrs now : Int) (r0 : PRec) (rs : List PRec) :
    writeV2 crc attrs now (r0 :: rs) = some (frameBytes crc attrs (effTime now r0) (maxTime now 0 (r0 :: rs)) (r0 :: rs).length
      (recordsV2 now (effTime now r0) 0 (r0 :: rs))) := rfl

theorem writeV2C_frameBytes (crc : Bytes → Nat) (comp : Bytes → Bytes) (attrs now : Int) (r0 : PRec) (rs : List PRec) :
    writeV2C crc comp attrs now (r0 :: rs) = some (frameBytes crc attrs (effTime now r0) (maxTime now 0 (r0 :: rs)) (r0 :: rs).length
      (comp (recordsV2 now (effTime now r0) 0 (r0 :: rs)))) := rfl

/-- **writeToVersion2 through the page buffer = the flat writer.** -/
theorem writeV2Paged_spec (P : Nat) (hP : 0 < P) (crc : Bytes → Nat) (attrs now : Int) (recs : List PRec) (pb : PB)
    (hc : Contig P pb.pages) (hb : pb.base = 0) (hne : recs ≠ []) :
    ∃ pb' bytes, writeV2Paged P crc attrs now recs pb = some pb' ∧ writeV2 crc attrs now recs = some bytes ∧
      flat pb' = flat pb ++ bytes ∧ Contig P pb'.pages ∧ pb'.base = 0 := by
  cases recs with
  | nil => exact absurd rfl hne
  | cons r0 rs =>
    have h := writeV2PagedWith_spec P hP crc attrs (effTime now r0) (maxTime now 0 (r0 :: rs)) (r0 :: rs).length
      (recordChunks now (effTime now r0) 0 (r0 :: rs)) pb hc hb
    rw [recordChunks_flatten] at h
    exact ⟨_, _, rfl, writeV2_frameBytes crc attrs now r0 rs, h.1, h.2.1, h.2.2⟩

/-- **the compressed writer through the page buffer**: whatever chunks the compressor writes into the buffer, if they
add up to `comp records` the buffer ends with the flat compressed writer's bytes -/
theorem writeV2PagedC_spec (P : Nat) (hP : 0 < P) (crc : Bytes → Nat) (comp : Bytes → Bytes) (chunks : List Bytes)
    (attrs now : Int) (recs : List PRec) (pb : PB) (hc : Contig P pb.pages) (hb : pb.base = 0) (hne : recs ≠ [])
    (hch : chunks.flatten = comp (recordsV2 now (firstTime now recs) 0 recs)) :
    ∃ pb' bytes, writeV2PagedC P crc chunks attrs now recs pb = some pb' ∧ writeV2C crc comp attrs now recs = some bytes ∧
      flat pb' = flat pb ++ bytes ∧ Contig P pb'.pages ∧ pb'.base = 0 := by
  cases recs with
  | nil => exact absurd rfl hne
  | cons r0 rs =>
    have h := writeV2PagedWith_spec P hP crc attrs (effTime now r0) (maxTime now 0 (r0 :: rs)) (r0 :: rs).length
      chunks pb hc hb
    rw [show chunks.flatten = comp (recordsV2 now (effTime now r0) 0 (r0 :: rs)) from hch] at h
    exact ⟨_, _, rfl, writeV2C_frameBytes crc comp attrs now r0 rs, h.1, h.2.1, h.2.2⟩

/-- **`RecordSet.WriteTo` on the page buffer**, for any batch writer that appends `bytes`: old content, the size, the batch. -/
theorem writeSetPagedWith_spec (P : Nat) (hP : 0 < P) (inner : PB → Option PB) (pb : PB)
    (hc : Contig P pb.pages) (hb : pb.base = 0) (pb2 : PB) (bytes : Bytes)
    (g1 : inner (write P pb (u32 0)) = some pb2) (g3 : flat pb2 = flat (write P pb (u32 0)) ++ bytes)
    (g4 : Contig P pb2.pages) (g5 : pb2.base = 0) :
    ∃ pb', writeSetPagedWith P inner pb = some pb' ∧
      flat pb' = flat pb ++ (u32 bytes.length ++ bytes) ∧ Contig P pb'.pages ∧ pb'.base = 0 := by
  have h1 := write_spec P hP pb (u32 0) hc
  simp only [writeSetPagedWith, g1, hb, Nat.zero_add, g5]
  rw [h1.1] at g3
  have hl : (flat pb2).length - (flat pb).length = 4 + bytes.length := by
    rw [g3]; simp only [List.length_append, u32_length]; omega
  rw [hl, if_neg (by omega), Nat.add_sub_cancel_left]
  have h3 := writeAt_step P hP pb2 (u32 bytes.length) (flat pb).length g4 g5 (by
    rw [g3]; simp only [List.length_append, u32_length]; omega)
  refine ⟨_, rfl, ?_, h3.2.1, h3.2.2.1⟩
  rw [h3.1, g3]
  have e : flat pb ++ u32 0 ++ bytes = [flat pb, u32 0].flatten ++ bytes := by
    simp only [List.flatten_cons, List.flatten_nil, List.append_nil, List.append_assoc]
  rw [e, patch_field' bytes _ 1 (u32 bytes.length) _ (by simp) (by simp [fieldLen]) (by simp [offsetOf])]
  simp only [setAt, List.flatten_cons, List.flatten_nil, List.append_nil, List.append_assoc]

theorem writeSetV2Paged_spec (P : Nat) (hP : 0 < P) (crc : Bytes → Nat) (attrs now : Int) (recs : List PRec) (pb : PB)
    (hc : Contig P pb.pages) (hb : pb.base = 0) (hne : recs ≠ []) :
    ∃ pb' bytes, writeSetV2Paged P crc attrs now recs pb = some pb' ∧ writeV2 crc attrs now recs = some bytes ∧
      flat pb' = flat pb ++ (u32 bytes.length ++ bytes) ∧ Contig P pb'.pages ∧ pb'.base = 0 := by
  have h1 := write_spec P hP pb (u32 0) hc
  obtain ⟨pb2, bytes, g1, g2, g3, g4, g5⟩ := writeV2Paged_spec P hP crc attrs now recs (write P pb (u32 0)) h1.2.1
    (by rw [h1.2.2, hb]) hne
  obtain ⟨pb', k1, k2, k3, k4⟩ := writeSetPagedWith_spec P hP _ pb hc hb pb2 bytes g1 g3 g4 g5
  exact ⟨pb', bytes, k1, g2, k2, k3, k4⟩

theorem writeSetV2PagedC_spec (P : Nat) (hP : 0 < P) (crc : Bytes → Nat) (comp : Bytes → Bytes) (chunks : List Bytes)
    (attrs now : Int) (recs : List PRec) (pb : PB) (hc : Contig P pb.pages) (hb : pb.base = 0) (hne : recs ≠ [])
    (hch : chunks.flatten = comp (recordsV2 now (firstTime now recs) 0 recs)) :
    ∃ pb' bytes, writeSetV2PagedC P crc chunks attrs now recs pb = some pb' ∧ writeV2C crc comp attrs now recs = some bytes ∧
      flat pb' = flat pb ++ (u32 bytes.length ++ bytes) ∧ Contig P pb'.pages ∧ pb'.base = 0 := by
  have h1 := write_spec P hP pb (u32 0) hc
  obtain ⟨pb2, bytes, g1, g2, g3, g4, g5⟩ := writeV2PagedC_spec P hP crc comp chunks attrs now recs (write P pb (u32 0)) h1.2.1
    (by rw [h1.2.2, hb]) hne hch
  obtain ⟨pb', k1, k2, k3, k4⟩ := writeSetPagedWith_spec P hP _ pb hc hb pb2 bytes g1 g3 g4 g5
  exact ⟨pb', bytes, k1, g2, k2, k3, k4⟩

/-! ### writeToVersion1 on the page buffer -/

theorem messageV1Paged_spec (P : Nat) (hP : 0 < P) (crc : Bytes → Nat) (attrs now : Int) (i : Nat) (r : PRec) (pb : PB)
    (hc : Contig P pb.pages) (hb : pb.base = 0) :
    flat (messageV1Paged P crc attrs now i r pb) = flat pb ++ messageV1 crc attrs now i r ∧
      Contig P (messageV1Paged P crc attrs now i r pb).pages ∧ (messageV1Paged P crc attrs now i r pb).base = 0 := by
  simp only [messageV1Paged, messageV1, hb, Nat.zero_add]
  generalize hF : flat pb = F
  generalize hk : writeNullBytes r.key = K
  generalize hv : writeNullBytes r.value = V
  have h1 := writeAll_spec P hP [i64 (i : Int), i32 0, i32 0, i8 1, i8 attrs, i64 (effTime now r), K, V] pb hc
  generalize writeAll P pb [i64 (i : Int), i32 0, i32 0, i8 1, i8 attrs, i64 (effTime now r), K, V] = pb1 at h1 ⊢
  rw [hF] at h1
  have hb1 : pb1.base = 0 := by rw [h1.2.2, hb]
  have hf1 : flat pb1 = [F, i64 (i : Int), i32 0, i32 0, i8 1, i8 attrs, i64 (effTime now r), K, V].flatten ++ [] := by
    rw [h1.1]; simp only [List.flatten_cons, List.flatten_nil, List.append_nil, List.append_assoc]
  have hl1 : (flat pb1).length = F.length + (26 + K.length + V.length) := by
    rw [hf1]
    simp only [List.flatten_cons, List.flatten_nil, List.append_nil, List.length_append, i64_length, i32_length, i8_length]
    omega
  have hsz : pb1.base + (flat pb1).length - (F.length + 12) = 4 + (i8 1 ++ (i8 attrs ++ (i64 (effTime now r) ++ (K ++ V)))).length := by
    rw [hb1, hl1]; simp only [List.length_append, i64_length, i8_length]; omega
  rw [hsz]
  generalize hC : crc (i8 1 ++ (i8 attrs ++ (i64 (effTime now r) ++ (K ++ V)))) = c
  generalize hS : ((4 + (i8 1 ++ (i8 attrs ++ (i64 (effTime now r) ++ (K ++ V)))).length : Nat) : Int) = sz
  have h2 := writeAt_step P hP pb1 (i32 sz) (F.length + 8) h1.2.1 hb1 (by simp; omega)
  generalize writeAt P pb1 (i32 sz) (F.length + 8) = pb2 at h2 ⊢
  have h3 := writeAt_step P hP pb2 (u32 c) (F.length + 12) h2.2.1 h2.2.2.1 (by simp; omega)
  generalize writeAt P pb2 (u32 c) (F.length + 12) = pb3 at h3 ⊢
  refine ⟨?_, h3.2.1, h3.2.2.1⟩
  rw [h3.1, h2.1, hf1]
  rw [patch_field' [] _ 2 (i32 sz) _ (by simp) (by simp [fieldLen]) (by simp [offsetOf])]
  rw [patch_field' [] _ 3 (u32 c) _ (by simp [setAt]) (by simp [fieldLen, setAt]) (by simp [offsetOf, setAt])]
  simp only [setAt, List.flatten_cons, List.flatten_nil, List.append_nil, List.append_assoc]

theorem writeV1Paged_spec (P : Nat) (hP : 0 < P) (crc : Bytes → Nat) (attrs now : Int) :
    ∀ (rs : List PRec) (i : Nat) (pb : PB), Contig P pb.pages → pb.base = 0 →
      flat (writeV1Paged P crc attrs now i rs pb) = flat pb ++ writeV1 crc attrs now i rs ∧
        Contig P (writeV1Paged P crc attrs now i rs pb).pages ∧ (writeV1Paged P crc attrs now i rs pb).base = 0
  | [], _, pb, hc, hb => by simp [writeV1Paged, writeV1, hc, hb]
  | r :: rs, i, pb, hc, hb => by
    have h1 := messageV1Paged_spec P hP crc attrs now i r pb hc hb
    have h2 := writeV1Paged_spec P hP crc attrs now rs (i + 1) _ h1.2.1 h1.2.2
    simp only [writeV1Paged, writeV1]
    exact ⟨by rw [h2.1, h1.1, List.append_assoc], h2.2.1, h2.2.2⟩

/-- **the compressed v1 writer through the page buffer**: render in place, scan, compress, truncate, wrap -/
theorem writeV1PagedC_spec (P : Nat) (hP : 0 < P) (crc : Bytes → Nat) (comp : Bytes → Bytes) (attrs now : Int)
    (recs : List PRec) (pb : PB) (hc : Contig P pb.pages) (hb : pb.base = 0) :
    flat (writeV1PagedC P crc comp attrs now recs pb) = flat pb ++ writeV1C crc comp attrs now recs ∧
      Contig P (writeV1PagedC P crc comp attrs now recs pb).pages ∧ (writeV1PagedC P crc comp attrs now recs pb).base = 0 := by
  have h1 := writeV1Paged_spec P hP crc (attrs - attrs % 8) now recs 0 pb hc hb
  simp only [writeV1PagedC, writeV1C, hb, Nat.zero_add]
  generalize writeV1Paged P crc (attrs - attrs % 8) now 0 recs pb = pb1 at h1 ⊢
  generalize writeV1 crc (attrs - attrs % 8) now 0 recs = inner at h1 ⊢
  have hs : scan P pb1 (flat pb).length (pb1.base + (flat pb1).length) = inner := by
    rw [scan_eq P hP pb1 h1.2.1 _ _ (by rw [h1.2.2, h1.1]; simp), h1.2.2, Nat.sub_zero, Nat.zero_add, Nat.sub_zero, h1.1,
      List.length_append]
    exact seg_mid _ _
  rw [hs]
  have ht := truncate_spec P pb1 (flat pb).length h1.2.1
  have htb : (truncate pb1 (flat pb).length).base = 0 := by
    unfold truncate; split <;> exact h1.2.2
  have h3 := messageV1Paged_spec P hP crc attrs now 0 ⟨0, none, some (comp inner), []⟩ (truncate pb1 (flat pb).length) ht.2 htb
  refine ⟨?_, h3.2.1, h3.2.2⟩
  rw [h3.1, ht.1, h1.1, List.take_left']
  rfl

end KV.Model.RecordWriter

