/-
Lemmas/FetchDecoder.lean — helper lemmas for Props/C02.lean: the decoder machine of
Model/MessageSetReader.lean on the token streams of well-formed layouts (Spec/Layout.lean).
-/
import KafkaVerif.Model.Batch
import KafkaVerif.Spec.Layout

namespace KV.C02

/-! ### `run ∘ truncate` fused: consume tokens while they fit the byte budget -/

def runCut (v : Variant) (e : Bool) (o : Int) : St → List Tok → Nat → St × Outcome
  | s, [], _ => finish v e s
  | s, t :: ts, n =>
    if t.size ≤ n then
      match step v e o s t with
      | .cont s' => runCut v e o s' ts (n - t.size)
      | .stop s' r => (s', r)
    else finish v e s

theorem step_cut (v : Variant) (e : Bool) (o : Int) (s : St) :
    step v e o s .cut = .stop (finish v e s).1 (finish v e s).2 := by
  simp [step]

theorem run_truncate (v : Variant) (e : Bool) (o : Int) (ts : List Tok) :
    ∀ (s : St) (n : Nat), run v e o s (truncate ts n) = runCut v e o s ts n := by
  induction ts with
  | nil => intro s n; simp [truncate, run, runCut]
  | cons t ts ih =>
    intro s n
    unfold truncate runCut
    by_cases h : t.size ≤ n
    · simp only [h, if_true, run]
      cases hs : step v e o s t with
      | cont s' => simp [ih]
      | stop s' r => simp
    · by_cases h0 : n = 0
      · subst h0
        have h' : ¬ t.size = 0 := by omega
        simp [h', run]
      · simp [h, h0, run, step_cut]

/-- `run` on the whole stream = `runCut` with a budget that everything fits into -/
def totalSize : List Tok → Nat
  | [] => 0
  | t :: ts => t.size + totalSize ts

theorem runCut_all (v : Variant) (e : Bool) (o : Int) (ts : List Tok) :
    ∀ (s : St) (n : Nat), totalSize ts ≤ n → runCut v e o s ts n = run v e o s ts := by
  induction ts with
  | nil => intro s n _; simp [run, runCut]
  | cons t ts ih =>
    intro s n h
    simp only [totalSize] at h
    have h1 : t.size ≤ n := by omega
    simp only [runCut, h1, if_true, run]
    cases hs : step v e o s t with
    | cont s' => simp only; exact ih s' (n - t.size) (by omega)
    | stop s' r => rfl

end KV.C02

namespace KV.C02

/-! ### Well-formed layouts -/

def sumSizes : List (Int × Nat × Nat) → Nat
  | [] => 0
  | (_, _, z) :: rs => z + sumSizes rs

def absRecs (base : Int) (recs : List (Int × Nat × Nat)) : List Rec := recs.map fun (d, t, _) => (base + d, t)

def absInner (base : Int) (inner : List (Int × Nat)) : List Rec := inner.map fun (f, t) => (f + base, t)

/-- retained records of a batch [base,last]: offsets strictly increasing from `lo`, inside the batch, sizes positive -/
def RecsWF (base last : Int) : Int → List (Int × Nat × Nat) → Prop
  | _, [] => True
  | lo, (d, _, z) :: rs => lo ≤ base + d ∧ base + d ≤ last ∧ 1 ≤ z ∧ RecsWF base last (base + d + 1) rs

/-- inner messages of a wrapper: absolute offsets (field + base) strictly increasing from `lo`, at most `hi` -/
def InnerWF (base hi : Int) : Int → List (Int × Nat) → Prop
  | _, [] => True
  | lo, (f, _) :: ms => lo ≤ f + base ∧ f + base ≤ hi ∧ InnerWF base hi (f + base + 1) ms

/-- a layout: item ranges disjoint and increasing from `nb`.  v2 batch: a plain batch's payload is its records, an
empty batch is a bare header, a compressed payload is not empty.  v0/v1: magic 0 or 1, a message is longer than its
header, a wrapper is not empty and carries the absolute offset of its last inner message. -/
def LWF : Int → List Item → Prop
  | _, [] => True
  | nb, .b2 base last codec plen recs :: rest =>
    nb ≤ base ∧ base ≤ last ∧ RecsWF base last base recs ∧ (codec = false → plen = sumSizes recs) ∧
    (codec = true → recs ≠ [] ∧ 1 ≤ plen) ∧ LWF (last + 1) rest
  | nb, .m magic off _ size :: rest =>
    (magic = 0 ∨ magic = 1) ∧ nb ≤ off ∧ hdr1Size magic ≤ size ∧ LWF (off + 1) rest
  | nb, .w magic woff size inner :: rest =>
    (magic = 0 ∨ magic = 1) ∧ inner ≠ [] ∧ InnerWF (wrapperBase woff inner) woff nb inner ∧ hdr1Size magic ≤ size ∧
    LWF (woff + 1) rest

def isB2 : Item → Bool
  | .b2 .. => true
  | _ => false

def headB2 : List Item → Bool
  | it :: _ => isB2 it
  | [] => false

/-- the decoder can only be asked to leave a v0/v1 item for a v2 batch after it has *returned* a message of that
item (readMessageV1's loop cannot read a v2 header): the last message of a v0/v1 item that is followed by a v2
batch is at or above the start offset.  Holds for every response that obeys the fetch contract (`safe_of_contract`),
for pure v2 and for pure v0/v1 layouts whatever the offset. -/
def Safe (o : Int) : List Item → Prop
  | [] => True
  | it :: rest => (headB2 rest = true → isB2 it = true ∨ o ≤ it.last) ∧ Safe o rest

theorem recsWF_lb {base last : Int} : ∀ {recs : List (Int × Nat × Nat)} {lo : Int}, RecsWF base last lo recs →
    ∀ r ∈ absRecs base recs, lo ≤ r.1 ∧ r.1 ≤ last := by
  intro recs
  induction recs with
  | nil => intro lo _ r hr; simp [absRecs] at hr
  | cons x rs ih =>
    intro lo h r hr
    obtain ⟨d, t, z⟩ := x
    simp only [RecsWF] at h
    simp only [absRecs, List.map_cons, List.mem_cons] at hr
    rcases hr with rfl | hr
    · simp; omega
    · have := ih h.2.2.2 r (by simpa [absRecs] using hr)
      omega

theorem innerWF_lb {base hi : Int} : ∀ {inner : List (Int × Nat)} {lo : Int}, InnerWF base hi lo inner →
    ∀ r ∈ absInner base inner, lo ≤ r.1 ∧ r.1 ≤ hi := by
  intro inner
  induction inner with
  | nil => intro lo _ r hr; simp [absInner] at hr
  | cons x ms ih =>
    intro lo h r hr
    obtain ⟨f, t⟩ := x
    simp only [InnerWF] at h
    simp only [absInner, List.map_cons, List.mem_cons] at hr
    rcases hr with rfl | hr
    · simp; omega
    · have := ih h.2.2 r (by simpa [absInner] using hr)
      omega

theorem records_w (magic : Nat) (woff : Int) (size : Nat) (inner : List (Int × Nat)) :
    (Item.w magic woff size inner).records = absInner (wrapperBase woff inner) inner := rfl

theorem records_b2 (base last : Int) (codec : Bool) (plen : Nat) (recs : List (Int × Nat × Nat)) :
    (Item.b2 base last codec plen recs).records = absRecs base recs := rfl

/-- records of an item lie in [nb, it.last] -/
theorem item_bounds {nb : Int} {it : Item} {rest : List Item} (h : LWF nb (it :: rest)) :
    (∀ r ∈ it.records, nb ≤ r.1 ∧ r.1 ≤ it.last) ∧ nb ≤ it.last ∧ LWF (it.last + 1) rest := by
  cases it with
  | b2 base last codec plen recs =>
    simp only [LWF] at h
    refine ⟨?_, by simp only [Item.last]; omega, h.2.2.2.2.2⟩
    intro r hr
    have := recsWF_lb h.2.2.1 r (by simpa [records_b2] using hr)
    simp only [Item.last]; omega
  | m magic off tag size =>
    simp only [LWF] at h
    refine ⟨?_, h.2.1, h.2.2.2⟩
    intro r hr
    simp only [Item.records, List.mem_singleton] at hr
    subst hr
    simp only [Item.last]; omega
  | w magic woff size inner =>
    simp only [LWF] at h
    obtain ⟨_, hne, hin, _, hrest⟩ := h
    have hb : ∀ r ∈ absInner (wrapperBase woff inner) inner, nb ≤ r.1 ∧ r.1 ≤ woff := innerWF_lb hin
    refine ⟨fun r hr => hb r (by simpa [records_w] using hr), ?_, hrest⟩
    cases inner with
    | nil => exact absurd rfl hne
    | cons x ms =>
      have := hb (x.1 + wrapperBase woff (x :: ms), x.2) (by simp [absInner])
      simp only [Item.last]; omega

theorem lwf_mono : ∀ {items : List Item} {nb nb' : Int}, nb' ≤ nb → LWF nb items → LWF nb' items := by
  intro items nb nb' hle h
  cases items with
  | nil => trivial
  | cons it rest =>
    cases it with
    | b2 base last codec plen recs => simp only [LWF] at h ⊢; exact ⟨by omega, h.2⟩
    | m magic off tag size => simp only [LWF] at h ⊢; exact ⟨h.1, by omega, h.2.2⟩
    | w magic woff size inner =>
      simp only [LWF] at h ⊢
      refine ⟨h.1, h.2.1, ?_, h.2.2.2⟩
      cases inner with
      | nil => trivial
      | cons x ms =>
        obtain ⟨f, t⟩ := x
        have := h.2.2.1
        simp only [InnerWF] at this ⊢
        exact ⟨by omega, this.2⟩

theorem lwf_lb : ∀ {items : List Item} {nb : Int}, LWF nb items → ∀ r ∈ allRecords items, nb ≤ r.1 := by
  intro items
  induction items with
  | nil => intro nb _ r hr; simp [allRecords] at hr
  | cons it rest ih =>
    intro nb h r hr
    obtain ⟨h1, h2, h3⟩ := item_bounds h
    simp only [allRecords, List.flatMap_cons, List.mem_append] at hr
    rcases hr with hr | hr
    · exact (h1 r hr).1
    · have := ih h3 r (by simpa [allRecords] using hr)
      omega

end KV.C02

namespace KV.C02

/-! ### Invariants of the repaired decoder between items / inside a batch -/

/-- what has been returned so far lies in [o, batch.offset) and is strictly increasing -/
def OutOK (o : Int) (s : St) : Prop :=
  (∀ r ∈ s.out, o ≤ r.1 ∧ r.1 < s.off) ∧ s.out.Pairwise (fun a b => a.1 < b.1)

/-- state between two items; `nb` bounds everything still to come from below; `v2n`: the next item is a v2 batch -/
structure Bnd (o nb : Int) (v2n : Bool) (s : St) : Prop where
  count0 : s.count = 0
  notV1 : v2n = true → s.inV1 = false
  be : s.batchEnd ≤ nb
  offle : s.off ≤ o ∨ s.off ≤ nb
  lastle : s.lastOff ≤ nb
  nb0 : 0 ≤ nb
  J : s.started = true → s.lenRem = 0 → s.lastOff ≥ s.off → s.lastOff + 1 ≤ s.batchEnd
  init : s.started = false → s.batchEnd ≤ s.off
  outok : OutOK o s

theorem Bnd.weaken {o nb : Int} {v2n : Bool} {s : St} (h : Bnd o nb true s) : Bnd o nb v2n s :=
  ⟨h.count0, fun _ => h.notV1 rfl, h.be, h.offle, h.lastle, h.nb0, h.J, h.init, h.outok⟩

/-- state inside batch [base,last] with `recs` still to be read, all at or above `lo` -/
structure Mid (o base last lo : Int) (recs : List (Int × Nat × Nat)) (codec : Bool) (s : St) : Prop where
  magic : s.magic = 2
  count : s.count = recs.length
  first : s.first = base
  lastD : s.lastD = last - base
  started : s.started = true
  notV1 : s.inV1 = false
  be : s.batchEnd ≤ lo
  offle : s.off ≤ o ∨ s.off ≤ lo
  lo0 : 0 ≤ lo
  len : codec = false → s.lenRem = sumSizes recs
  codecEq : s.codec = codec
  outok : OutOK o s

/-- what `finish` does to the repaired machine when the legacy jump is harmless -/
theorem finish_fixed (e : Bool) (s : St)
    (hJ : s.started = true → s.lenRem = 0 → s.lastOff ≥ s.off → s.lastOff + 1 ≤ s.batchEnd) :
    (finish .fixed e s).1.out = s.out ∧ (finish .fixed e s).2 ≠ .desync ∧
    ((s.started = false → s.batchEnd ≤ s.off) → s.batchEnd ≤ (finish .fixed e s).1.off) ∧
    ((finish .fixed e s).1.off ≤ s.off ∨ (finish .fixed e s).1.off ≤ s.batchEnd) ∧
    s.off ≤ (finish .fixed e s).1.off := by
  have hJ' : s.started = true → s.lenRem = 0 → s.off ≤ s.lastOff → s.lastOff + 1 ≤ s.batchEnd := hJ
  cases hst : s.started <;> cases e <;> simp only [hst] at hJ' <;>
    simp only [finish, hst, Bool.not_true, Bool.not_false, Bool.false_eq_true, if_false, if_true, reduceCtorEq,
      true_and, false_and, ne_eq, not_false_eq_true, and_true, true_implies] <;>
    refine ⟨?_, ?_, ?_⟩ <;> (try intro _) <;> (repeat' split) <;> simp_all <;> omega

/-- a message at `x`, at or above everything read so far, comes back from the messageSetReader -/
theorem onRecord_outOK {o x lastOffset : Int} {tag : Nat} {s : St} (h : OutOK o s) (hoff : s.off ≤ o ∨ s.off ≤ x) :
    OutOK o (onRecord .fixed o s x lastOffset tag) := by
  obtain ⟨h1, h2⟩ := h
  have hlt : ∀ r ∈ s.out, r.1 < x := by
    intro r hr
    have := h1 r hr
    omega
  have hoff2 : x + 1 ≤ (onRecord .fixed o s x lastOffset tag).off := by
    simp only [onRecord]; split <;> omega
  constructor
  · intro r hr
    simp only [onRecord] at hr
    split at hr
    · have := h1 r hr; have := hlt r hr; omega
    · simp only [List.mem_append, List.mem_singleton] at hr
      rcases hr with hr | rfl
      · have := h1 r hr; have := hlt r hr; omega
      · simp only; omega
  · simp only [onRecord]
    split
    · exact h2
    · rw [List.pairwise_append]
      refine ⟨h2, by simp, ?_⟩
      intro a ha b hb
      simp only [List.mem_singleton] at hb
      subst hb
      exact hlt a ha

end KV.C02

namespace KV.C02

theorem recordV2_mid {o base last lo d : Int} {t z : Nat} {rs : List (Int × Nat × Nat)} {codec : Bool} {s : St}
    (hm : Mid o base last lo ((d, t, z) :: rs) codec s) (hw : RecsWF base last lo ((d, t, z) :: rs)) :
    (recordV2 .fixed o s d t z).out = s.out ++ (if o ≤ base + d then [(base + d, t)] else []) ∧
    (rs ≠ [] → Mid o base last (base + d + 1) rs codec (recordV2 .fixed o s d t z)) ∧
    (rs = [] → ∀ v2n, Bnd o (last + 1) v2n (recordV2 .fixed o s d t z) ∧ last + 1 ≤ (recordV2 .fixed o s d t z).batchEnd) ∧
    s.batchEnd ≤ (recordV2 .fixed o s d t z).batchEnd := by
  obtain ⟨hmagic, hcount, hfirst, hlastD, hstarted, hnotV1, hbe, hoffle, hlo0, hlen, hcodec, houtok⟩ := hm
  simp only [RecsWF] at hw
  obtain ⟨hlo, hle, hz, _⟩ := hw
  simp only [List.length_cons] at hcount
  have hok : OutOK o (recordV2 .fixed o s d t z) := by
    unfold recordV2
    apply onRecord_outOK
    · exact houtok
    · simp only [hfirst]; omega
  refine ⟨?_, ?_, ?_, ?_⟩
  · simp only [recordV2, onRecord, hfirst]
    by_cases h : o ≤ base + d
    · have : ¬ (base + d < o) := by omega
      simp [h, this]
    · have : base + d < o := by omega
      simp [h, this]
  · intro hrs
    have hlen2 : rs.length ≠ 0 := by simpa using hrs
    have hc1 : ¬ (s.count = 1) := by omega
    have hl : s.lenRem - ↑z = ↑(sumSizes rs) ∨ codec = true := by
      cases codec with
      | true => right; rfl
      | false => left; have := hlen rfl; simp only [sumSizes] at this; omega
    refine ⟨?_, ?_, ?_, ?_, ?_, ?_, ?_, ?_, ?_, ?_, ?_, hok⟩ <;>
      (try simp only [recordV2, onRecord, hc1, and_false, if_false, hfirst, hmagic, hlastD, hstarted, hcodec, true_and]) <;>
      (try (split <;> omega)) <;> (try omega)
    · intro hc; subst hc; simpa using hl
  · intro hrs v2n
    subst hrs
    have hc1 : s.count = 1 := by simpa using hcount
    refine ⟨⟨?_, ?_, ?_, ?_, ?_, ?_, ?_, ?_, hok⟩, ?_⟩ <;>
      (try simp only [recordV2, onRecord, hc1, and_true, if_true, hfirst, hlastD, hstarted, true_and]) <;>
      (try (split <;> omega)) <;> (try omega)
    all_goals (intros; trivial)
  · simp only [recordV2, onRecord]
    split <;> omega

end KV.C02

namespace KV.C02

/-- what a run from state `s0` must achieve: exactly the expected records at or above `o` are appended, no
desynchronisation, no stored record at or above `o` below the final offset is missing, the offset ends at or
above the batch end known at the start (and above `prog` when given), everything returned is below the final offset -/
structure PostL (o : Int) (expect all : List Rec) (prog : Option Int) (s0 : St) (res : St × Outcome) : Prop where
  out : res.1.out = s0.out ++ expect.filter (fun r => o ≤ r.1)
  ok : res.2 ≠ .desync
  nogap : ∀ r ∈ all, o ≤ r.1 → r.1 < res.1.off → r ∈ expect
  lower : s0.batchEnd ≤ res.1.off
  resok : OutOK o res.1
  prog : ∀ b, prog = some b → b ≤ res.1.off

def r2Toks (recs : List (Int × Nat × Nat)) : List Tok := recs.map fun x => Tok.r2 x.1 x.2.1 x.2.2

/-- finishing in a state whose offset and batch end are below everything still expected -/
theorem postL_finish {e : Bool} {o lo : Int} {all : List Rec} {s : St}
    (hJ : s.started = true → s.lenRem = 0 → s.lastOff ≥ s.off → s.lastOff + 1 ≤ s.batchEnd)
    (hinit : s.started = false → s.batchEnd ≤ s.off)
    (hoff : s.off ≤ o ∨ s.off ≤ lo) (hbe : s.batchEnd ≤ lo) (hall : ∀ r ∈ all, lo ≤ r.1) (hok : OutOK o s) :
    PostL o [] all none s (finish .fixed e s) := by
  obtain ⟨h1, h2, h3, h4, h5⟩ := finish_fixed e s hJ
  refine ⟨by simp [h1], h2, ?_, h3 hinit, ?_, by intro b hb; cases hb⟩
  · intro r hr ho hlt
    have := hall r hr
    omega
  · refine ⟨?_, by rw [h1]; exact hok.2⟩
    intro r hr
    rw [h1] at hr
    have := hok.1 r hr
    omega

theorem plain_recs (e : Bool) (o base last : Int) (rest : List Item) (p : Nat → Option Int)
    (IH : ∀ (s : St) (n : Nat), Bnd o (last + 1) (headB2 rest) s →
      PostL o (contained rest n) (allRecords rest) (p n) s (runCut .fixed e o s (allTokens rest) n))
    (hrest : ∀ r ∈ allRecords rest, last + 1 ≤ r.1) :
    ∀ (recs : List (Int × Nat × Nat)) (s : St) (n : Nat) (lo : Int),
      (recs ≠ [] → Mid o base last lo recs false s) →
      (recs = [] → Bnd o (last + 1) (headB2 rest) s ∧ last + 1 ≤ s.batchEnd) → RecsWF base last lo recs →
      PostL o (if sumSizes recs ≤ n then absRecs base recs ++ contained rest (n - sumSizes recs) else fitRecs base recs n)
        (absRecs base recs ++ allRecords rest) (if sumSizes recs ≤ n then some (last + 1) else none) s
        (runCut .fixed e o s (r2Toks recs ++ allTokens rest) n) := by
  intro recs
  induction recs with
  | nil =>
    intro s n lo _ hb _
    have h := IH s n (hb rfl).1
    have hl := (hb rfl).2
    refine ⟨by simpa [sumSizes, absRecs, r2Toks] using h.out, by simpa [r2Toks] using h.ok, ?_, by simpa [r2Toks] using h.lower,
      by simpa [r2Toks] using h.resok, ?_⟩
    · simpa [sumSizes, absRecs, r2Toks] using h.nogap
    · intro b hb
      simp only [sumSizes, Nat.zero_le, if_true, Option.some.injEq] at hb
      subst hb
      have := h.lower
      simp only [r2Toks, List.map_nil, List.nil_append]
      omega
  | cons x rs ih =>
    intro s n lo hm _ hw
    obtain ⟨d, t, z⟩ := x
    have hm := hm (by simp)
    have hw' := hw
    simp only [RecsWF] at hw'
    by_cases hz : z ≤ n
    · -- the record fits: it is read
      obtain ⟨hout, hmid, hbnd, hmono⟩ := recordV2_mid hm hw
      have hstep : step .fixed e o s (.r2 d t z) = .cont (recordV2 .fixed o s d t z) := by
        have h1 := hm.magic; have h2 := hm.count; have h3 := hm.codecEq
        simp only [List.length_cons] at h2
        simp [step, h1, h2, h3]
      have hrun : runCut .fixed e o s (r2Toks ((d, t, z) :: rs) ++ allTokens rest) n
          = runCut .fixed e o (recordV2 .fixed o s d t z) (r2Toks rs ++ allTokens rest) (n - z) := by
        simp [r2Toks, runCut, Tok.size, hz, hstep]
      rw [hrun]
      have ihr := ih (recordV2 .fixed o s d t z) (n - z) (base + d + 1) hmid (fun h => hbnd h _) hw'.2.2.2
      have hcond : (sumSizes ((d, t, z) :: rs) ≤ n) ↔ (sumSizes rs ≤ n - z) := by simp only [sumSizes]; omega
      have hexp : (if sumSizes ((d, t, z) :: rs) ≤ n then absRecs base ((d, t, z) :: rs) ++ contained rest (n - sumSizes ((d, t, z) :: rs))
            else fitRecs base ((d, t, z) :: rs) n)
          = (base + d, t) :: (if sumSizes rs ≤ n - z then absRecs base rs ++ contained rest (n - z - sumSizes rs) else fitRecs base rs (n - z)) := by
        simp only [sumSizes, fitRecs, hz, if_true, absRecs, List.map_cons, List.cons_append]
        by_cases h2 : sumSizes rs ≤ n - z
        · have : z + sumSizes rs ≤ n := by omega
          have e1 : n - (z + sumSizes rs) = n - z - sumSizes rs := by omega
          simp only [this, h2, if_true, e1]
        · have : ¬ z + sumSizes rs ≤ n := by omega
          simp only [this, h2, if_false]
      rw [hexp]
      refine ⟨?_, ihr.ok, ?_, by have := ihr.lower; omega, ihr.resok, ?_⟩
      · rw [ihr.out, hout, List.filter_cons]
        by_cases h : o ≤ base + d <;> simp [h]
      · intro r hr ho hlt
        simp only [absRecs, List.map_cons, List.cons_append, List.mem_cons] at hr
        rcases hr with rfl | hr
        · simp
        · exact List.mem_cons_of_mem _ (ihr.nogap r (by simpa [absRecs] using hr) ho hlt)
      · intro b hb
        apply ihr.prog b
        by_cases h2 : sumSizes rs ≤ n - z
        · simp only [hcond.mpr h2, if_true] at hb; simp only [h2, if_true]; exact hb
        · have : ¬ sumSizes ((d, t, z) :: rs) ≤ n := fun h => h2 (hcond.mp h)
          simp only [this, if_false] at hb; cases hb
    · -- the record is cut: the pending read fails
      have hrun : runCut .fixed e o s (r2Toks ((d, t, z) :: rs) ++ allTokens rest) n = finish .fixed e s := by
        simp [r2Toks, runCut, Tok.size, hz]
      have hnot : ¬ sumSizes ((d, t, z) :: rs) ≤ n := by simp only [sumSizes]; omega
      have hexp : (if sumSizes ((d, t, z) :: rs) ≤ n then absRecs base ((d, t, z) :: rs) ++ contained rest (n - sumSizes ((d, t, z) :: rs))
            else fitRecs base ((d, t, z) :: rs) n) = [] := by
        simp [hnot, fitRecs, hz]
      rw [hrun, hexp]
      simp only [hnot, if_false]
      have hlen := hm.len rfl
      simp only [sumSizes] at hlen
      apply postL_finish (lo := lo)
      · intro _ h0; omega
      · intro h; simp [hm.started] at h
      · exact hm.offle
      · exact hm.be
      · intro r hr
        simp only [List.mem_append] at hr
        rcases hr with hr | hr
        · exact (recsWF_lb hw r hr).1
        · have := hrest r hr; omega
      · exact hm.outok

/-- a whole (decompressed) batch read in one go -/
theorem recordsV2_all {o base last : Int} {codec : Bool} :
    ∀ (recs : List (Int × Nat × Nat)) (s : St) (lo : Int), recs ≠ [] → Mid o base last lo recs codec s → RecsWF base last lo recs →
      (recordsV2 .fixed o s recs).out = s.out ++ (absRecs base recs).filter (fun r => o ≤ r.1) ∧
      (∀ v2n, Bnd o (last + 1) v2n (recordsV2 .fixed o s recs)) ∧ last + 1 ≤ (recordsV2 .fixed o s recs).batchEnd := by
  intro recs
  induction recs with
  | nil => intro s lo h; exact absurd rfl h
  | cons x rs ih =>
    intro s lo _ hm hw
    obtain ⟨d, t, z⟩ := x
    obtain ⟨hout, hmid, hbnd, hmono⟩ := recordV2_mid hm hw
    simp only [RecsWF] at hw
    by_cases hrs : rs = []
    · subst hrs
      refine ⟨?_, fun v => by simpa [recordsV2] using (hbnd rfl v).1, by simpa [recordsV2] using (hbnd rfl false).2⟩
      simp [recordsV2, hout, absRecs, List.filter_cons]
    · obtain ⟨h1, h2, h3⟩ := ih (recordV2 .fixed o s d t z) (base + d + 1) hrs (hmid hrs) hw.2.2.2
      refine ⟨?_, fun v => by simpa [recordsV2] using h2 v, by simpa [recordsV2] using h3⟩
      simp only [recordsV2, h1, hout, absRecs, List.map_cons, List.filter_cons, List.append_assoc]
      by_cases h : o ≤ base + d <;> simp [h]

end KV.C02

namespace KV.C02

/-! ### v0/v1 messages -/

/-- after the header of a v0/v1 item has been consumed and marked read (count = 0): what `messageV1` needs and keeps -/
structure W (o lo : Int) (s : St) : Prop where
  count0 : s.count = 0
  started : s.started = true
  len1 : s.lenRem = 1
  be : s.batchEnd ≤ lo
  offle : s.off ≤ o ∨ s.off ≤ lo
  lastle : s.lastOff ≤ lo
  lo0 : 0 ≤ lo
  outok : OutOK o s

theorem W.mono {o lo lo' : Int} {s : St} (h : W o lo s) (hle : lo ≤ lo') : W o lo' s :=
  ⟨h.count0, h.started, h.len1, by have := h.be; omega, by have := h.offle; omega, by have := h.lastle; omega,
   by have := h.lo0; omega, h.outok⟩

theorem W.bnd {o lo : Int} {s : St} (h : W o lo s) (v2n : Bool) (hv : v2n = true → s.inV1 = false) : Bnd o lo v2n s :=
  ⟨h.count0, hv, h.be, h.offle, h.lastle, h.lo0, by intro _ h0; have := h.len1; omega, by intro h0; simp [h.started] at h0, h.outok⟩

theorem messageV1_W {o lo x : Int} {t : Nat} {s : St} (h : W o lo s) (hx : lo ≤ x) :
    W o (x + 1) (messageV1 .fixed o s x t) ∧
    (messageV1 .fixed o s x t).out = s.out ++ (if o ≤ x then [(x, t)] else []) ∧
    (messageV1 .fixed o s x t).batchEnd = s.batchEnd ∧
    (o ≤ x → (messageV1 .fixed o s x t).inV1 = false) := by
  obtain ⟨hc, hst, hl, hbe, hoff, hlast, hlo0, hok⟩ := h
  unfold messageV1
  by_cases hskip : x < s.off
  · simp only [hskip, if_true]
    have hxo : ¬ o ≤ x := by omega
    refine ⟨⟨hc, hst, hl, by simp only; omega, by simp only; omega, by simp only; omega, by omega, hok⟩, by simp [hxo], trivial, fun h => absurd h hxo⟩
  · simp only [hskip, if_false]
    have hok' : OutOK o (onRecord .fixed o s x (-1) t) := onRecord_outOK hok (by omega)
    refine ⟨⟨?_, ?_, ?_, ?_, ?_, ?_, by omega, hok'⟩, ?_, ?_, ?_⟩ <;>
      (try simp only [onRecord, hc, hst, hl]) <;> (try (split <;> omega)) <;> (try omega)
    · by_cases h : o ≤ x
      · have : ¬ x < o := by omega
        simp [h, this]
      · have : x < o := by omega
        simp [h, this]
    · intro _; trivial

theorem messagesV1_all {o base hi : Int} :
    ∀ (inner : List (Int × Nat)) (s : St) (lo : Int), W o lo s → lo ≤ hi + 1 → InnerWF base hi lo inner →
      W o (hi + 1) (messagesV1 .fixed o base s inner) ∧
      (messagesV1 .fixed o base s inner).out = s.out ++ (absInner base inner).filter (fun r => o ≤ r.1) ∧
      (messagesV1 .fixed o base s inner).batchEnd = s.batchEnd ∧
      (∀ l, inner.getLast? = some l → o ≤ l.1 + base → (messagesV1 .fixed o base s inner).inV1 = false) := by
  intro inner
  induction inner with
  | nil =>
    intro s lo hw hle _
    exact ⟨by simpa [messagesV1] using hw.mono hle, by simp [messagesV1, absInner], rfl, by intro l hl; simp at hl⟩
  | cons x ms ih =>
    intro s lo hw _ hin
    obtain ⟨f, t⟩ := x
    simp only [InnerWF] at hin
    obtain ⟨h1, h2, h3, h4⟩ := messageV1_W (t := t) hw hin.1
    obtain ⟨i1, i2, i3, i4⟩ := ih (messageV1 .fixed o s (f + base) t) (f + base + 1) h1 (by omega) hin.2.2
    refine ⟨by simpa [messagesV1] using i1, ?_, by simp only [messagesV1]; rw [i3, h3], ?_⟩
    · simp only [messagesV1, i2, h2, absInner, List.map_cons, List.filter_cons, List.append_assoc]
      by_cases h : o ≤ f + base <;> simp [h]
    · intro l hl hol
      simp only [messagesV1]
      cases ms with
      | nil =>
        simp only [List.getLast?_singleton, Option.some.injEq] at hl
        subst hl
        simpa [messagesV1] using h4 hol
      | cons y ys =>
        apply i4 l _ hol
        simpa [List.getLast?_cons_cons] using hl

theorem wrapper_last {woff : Int} {inner : List (Int × Nat)} {l : Int × Nat} (h : inner.getLast? = some l) :
    l.1 + wrapperBase woff inner = woff := by
  simp only [wrapperBase, h, Option.map_some, Option.getD_some]
  omega

end KV.C02

namespace KV.C02

/-! ### headers read in a boundary state -/

/-- the header of batch [base,last] read in a boundary state -/
def afterH2 (s : St) (base last : Int) (c : Nat) (z : Bool) (pl : Nat) : St :=
  { s with started := true, count := c, magic := 2, first := base, lastD := last - base, hcount := c, codec := z,
           lenRem := pl, batchEnd := if Variant.fixed = Variant.fixed ∧ c = 0 then base + (last - base) + 1 else s.batchEnd,
           hr := s.hr - 1 }

@[simp] theorem afterH2_out (s : St) (b l : Int) (c : Nat) (z : Bool) (pl : Nat) : (afterH2 s b l c z pl).out = s.out := rfl
@[simp] theorem afterH2_off (s : St) (b l : Int) (c : Nat) (z : Bool) (pl : Nat) : (afterH2 s b l c z pl).off = s.off := rfl
@[simp] theorem afterH2_lastOff (s : St) (b l : Int) (c : Nat) (z : Bool) (pl : Nat) : (afterH2 s b l c z pl).lastOff = s.lastOff := rfl
@[simp] theorem afterH2_started (s : St) (b l : Int) (c : Nat) (z : Bool) (pl : Nat) : (afterH2 s b l c z pl).started = true := rfl
@[simp] theorem afterH2_lenRem (s : St) (b l : Int) (c : Nat) (z : Bool) (pl : Nat) : (afterH2 s b l c z pl).lenRem = pl := rfl
@[simp] theorem afterH2_count (s : St) (b l : Int) (c : Nat) (z : Bool) (pl : Nat) : (afterH2 s b l c z pl).count = c := rfl
@[simp] theorem afterH2_inV1 (s : St) (b l : Int) (c : Nat) (z : Bool) (pl : Nat) : (afterH2 s b l c z pl).inV1 = s.inV1 := rfl
theorem afterH2_be_pos (s : St) (b l : Int) {c : Nat} (z : Bool) (pl : Nat) (h : c ≠ 0) : (afterH2 s b l c z pl).batchEnd = s.batchEnd := by
  simp [afterH2, h]
theorem afterH2_be_zero (s : St) (b l : Int) (z : Bool) (pl : Nat) : (afterH2 s b l 0 z pl).batchEnd = l + 1 := by
  simp [afterH2]; omega
theorem afterH2_outOK {o : Int} {s : St} (h : OutOK o s) (b l : Int) (c : Nat) (z : Bool) (pl : Nat) : OutOK o (afterH2 s b l c z pl) := h

theorem step_h2 {e : Bool} {o nb : Int} {s : St} (hb : Bnd o nb true s) (base last : Int) (c : Nat) (z : Bool) (pl : Nat) :
    step .fixed e o s (.h2 base (last - base) c z pl) = .cont (afterH2 s base last c z pl) := by
  simp [step, afterH2, hb.count0, hb.notV1 rfl]

theorem mid_afterH2 {o nb base last : Int} {s : St} (hb : Bnd o nb true s) (hnb : nb ≤ base) (recs : List (Int × Nat × Nat))
    (hne : recs ≠ []) (z : Bool) (pl : Nat) (hpl : z = false → pl = sumSizes recs) :
    Mid o base last base recs z (afterH2 s base last recs.length z pl) := by
  have hlen : recs.length ≠ 0 := by simpa using hne
  refine ⟨rfl, rfl, rfl, rfl, rfl, hb.notV1 rfl, ?_, ?_, ?_, ?_, rfl, afterH2_outOK hb.outok _ _ _ _ _⟩
  · rw [afterH2_be_pos _ _ _ _ _ hlen]; have := hb.be; omega
  · rw [afterH2_off]; have := hb.offle; omega
  · have := hb.nb0; omega
  · intro h; rw [afterH2_lenRem, hpl h]

theorem bnd_afterH2_empty {o nb base last : Int} {s : St} (hb : Bnd o nb true s) (hnb : nb ≤ base) (hbl : base ≤ last) (z : Bool)
    (v2n : Bool) : Bnd o (last + 1) v2n (afterH2 s base last 0 z 0) ∧ last + 1 ≤ (afterH2 s base last 0 z 0).batchEnd := by
  refine ⟨⟨rfl, fun _ => hb.notV1 rfl, ?_, ?_, ?_, ?_, ?_, ?_, afterH2_outOK hb.outok _ _ _ _ _⟩, ?_⟩
  · rw [afterH2_be_zero]; omega
  · rw [afterH2_off]; have := hb.offle; omega
  · rw [afterH2_lastOff]; have := hb.lastle; omega
  · have := hb.nb0; omega
  · intro _ _ h
    rw [afterH2_lastOff, afterH2_off] at h
    rw [afterH2_lastOff, afterH2_be_zero]
    have := hb.lastle; omega
  · intro h; simp at h
  · rw [afterH2_be_zero]; omega

/-- the header of a v0/v1 message read in a boundary state -/
def afterH1 (s : St) (m : Nat) (f : Int) (z : Bool) : St :=
  { s with started := true, count := 1, magic := m, first := f, codec := z, lenRem := 1 }

theorem step_h1 {e : Bool} {o nb : Int} {v2n : Bool} {s : St} (hb : Bnd o nb v2n s) (m : Nat) (f : Int) (z : Bool) :
    step .fixed e o s (.h1 m f z) = .cont (afterH1 s m f z) := by
  simp [step, afterH1, hb.count0]

/-- after the header, marked read -/
theorem w_afterH1 {o nb : Int} {v2n : Bool} {s : St} (hb : Bnd o nb v2n s) (m : Nat) (f : Int) (z : Bool) (iv : Bool) :
    W o nb { afterH1 s m f z with count := 0, inV1 := iv } :=
  ⟨rfl, rfl, rfl, hb.be, hb.offle, hb.lastle, hb.nb0, hb.outok⟩

theorem postL_finish_h1 {e : Bool} {o nb : Int} {v2n : Bool} {s : St} (hb : Bnd o nb v2n s) (m : Nat) (f : Int) (z : Bool)
    {all : List Rec} (hall : ∀ r ∈ all, nb ≤ r.1) :
    PostL o [] all none s (finish .fixed e (afterH1 s m f z)) := by
  have := postL_finish (e := e) (o := o) (lo := nb) (all := all) (s := afterH1 s m f z)
    (by intro _ h0; simp [afterH1] at h0) (by intro h; simp [afterH1] at h) hb.offle hb.be hall hb.outok
  exact ⟨this.out, this.ok, this.nogap, this.lower, this.resok, this.prog⟩

end KV.C02

namespace KV.C02

theorem runCut_cons_fit {v : Variant} {e : Bool} {o : Int} {t : Tok} {ts : List Tok} {s s' : St} {n : Nat}
    (hfit : t.size ≤ n) (hstep : step v e o s t = .cont s') :
    runCut v e o s (t :: ts) n = runCut v e o s' ts (n - t.size) := by simp [runCut, hfit, hstep]

theorem runCut_cons_cut {v : Variant} {e : Bool} {o : Int} {t : Tok} {ts : List Tok} {s : St} {n : Nat}
    (h : ¬ t.size ≤ n) : runCut v e o s (t :: ts) n = finish v e s := by simp [runCut, h]

/-- what `fetch_progress` promises: the first item arrived whole and reaches the start offset -/
def progLB (o : Int) (items : List Item) (n : Nat) : Option Int :=
  match items with
  | it :: _ => if it.size ≤ n ∧ o ≤ it.last then some (it.last + 1) else none
  | [] => none

theorem ite_some_eq {c : Prop} [Decidable c] {a b : Int} (h : (if c then some a else none) = some b) : c ∧ a = b := by
  split at h <;> simp_all

theorem mem_out_lt {o : Int} {exp all : List Rec} {p : Option Int} {s0 : St} {res : St × Outcome}
    (h : PostL o exp all p s0 res) {r : Rec} (hr : r ∈ s0.out) : r.1 < res.1.off := by
  have : r ∈ res.1.out := by rw [h.out]; exact List.mem_append_left _ hr
  exact (h.resok.1 r this).2

/-- **Main lemma**: the repaired decoder on any well-formed layout, any byte budget, from any boundary state. -/
theorem layout_run (e : Bool) (o : Int) :
    ∀ (items : List Item) (nb : Int) (s : St) (n : Nat), LWF nb items → Safe o items → Bnd o nb (headB2 items) s →
      PostL o (contained items n) (allRecords items) (progLB o items n) s (runCut .fixed e o s (allTokens items) n) := by
  intro items
  induction items with
  | nil =>
    intro nb s n _ _ hb
    have := postL_finish (e := e) (o := o) (lo := nb) (all := []) hb.J hb.init hb.offle hb.be (by simp) hb.outok
    simpa [allTokens, allRecords, contained, runCut, progLB] using this
  | cons it rest ih =>
    intro nb s n hw hsafe hb
    have hall : ∀ r ∈ allRecords (it :: rest), nb ≤ r.1 := lwf_lb hw
    obtain ⟨hib, hilast, hrestwf⟩ := item_bounds hw
    have hrest : ∀ r ∈ allRecords rest, it.last + 1 ≤ r.1 := lwf_lb hrestwf
    have IH := fun (s : St) (n : Nat) (h : Bnd o (it.last + 1) (headB2 rest) s) => ih (it.last + 1) s n hrestwf hsafe.2 h
    have hallrec : allRecords (it :: rest) = it.records ++ allRecords rest := by simp [allRecords]
    cases it with
    | b2 base last codec plen recs =>
      simp only [LWF] at hw
      obtain ⟨hnb, hbl, hrw, hplain, hcomp, _⟩ := hw
      simp only [Item.last] at IH hrest
      have hb : Bnd o nb true s := hb
      have hrecs : (Item.b2 base last codec plen recs).records = absRecs base recs := rfl
      rw [hrecs] at hallrec
      by_cases h61 : 61 ≤ n
      · -- the header fits
        have hs1 := step_h2 (e := e) hb base last recs.length codec plen
        cases codec with
        | false =>
          have hpl := hplain rfl
          have htoks : allTokens (Item.b2 base last false plen recs :: rest)
              = Tok.h2 base (last - base) recs.length false plen :: (r2Toks recs ++ allTokens rest) := by
            simp [allTokens, tokensOf, r2Toks]
          have hrun : runCut .fixed e o s (allTokens (Item.b2 base last false plen recs :: rest)) n
              = runCut .fixed e o (afterH2 s base last recs.length false plen) (r2Toks recs ++ allTokens rest) (n - 61) := by
            rw [htoks]; simp [runCut, Tok.size, h61, hs1]
          have hexp : contained (Item.b2 base last false plen recs :: rest) n
              = (if sumSizes recs ≤ n - 61 then absRecs base recs ++ contained rest (n - 61 - sumSizes recs)
                 else fitRecs base recs (n - 61)) := by
            simp only [contained, Item.size, hrecs, hpl, h61, if_true]
            by_cases h2 : sumSizes recs ≤ n - 61
            · have : 61 + sumSizes recs ≤ n := by omega
              have e1 : n - (61 + sumSizes recs) = n - 61 - sumSizes recs := by omega
              simp only [this, h2, if_true, e1]
              rfl
            · have : ¬ 61 + sumSizes recs ≤ n := by omega
              simp only [this, h2, if_false]
          rw [hrun, hexp, hallrec]
          have hp := plain_recs e o base last rest (progLB o rest) IH hrest recs (afterH2 s base last recs.length false plen) (n - 61) base
            (fun hne => mid_afterH2 hb hnb recs hne false plen (fun _ => hpl))
            (by
              intro hnil
              subst hnil
              have : plen = 0 := by simpa [sumSizes] using hpl
              subst this
              exact bnd_afterH2_empty hb hnb hbl false _)
            hrw
          refine ⟨by simpa using hp.out, hp.ok, hp.nogap, ?_, hp.resok, ?_⟩
          · have h1 := hp.lower
            by_cases hl : recs.length = 0
            · have hbe0 : (afterH2 s base last recs.length false plen).batchEnd = last + 1 := by
                rw [hl]; exact afterH2_be_zero _ _ _ _ _
              rw [hbe0] at h1; have := hb.be; omega
            · rw [afterH2_be_pos _ _ _ _ _ hl] at h1; exact h1
          · intro b hb'
            simp only [progLB, Item.size, Item.last, hpl] at hb'
            apply hp.prog b
            by_cases h2 : sumSizes recs ≤ n - 61
            · simp only [h2, if_true]
              split at hb'
              · exact hb'
              · cases hb'
            · have : ¬ (61 + sumSizes recs ≤ n ∧ o ≤ last) := by omega
              simp only [this, if_false] at hb'; cases hb'
        | true =>
          obtain ⟨hne, hpl1⟩ := hcomp rfl
          have hlen : recs.length ≠ 0 := by simpa using hne
          have htoks : allTokens (Item.b2 base last true plen recs :: rest)
              = Tok.h2 base (last - base) recs.length true plen :: Tok.z2 plen recs :: allTokens rest := by
            simp [allTokens, tokensOf]
          have hmid : Mid o base last base recs true (afterH2 s base last recs.length true plen) :=
            mid_afterH2 hb hnb recs hne true plen (fun h => by cases h)
          by_cases hz : plen ≤ n - 61
          · -- the payload fits: all records are read from the decompressed level
            obtain ⟨hout, hbnd, hmono⟩ := recordsV2_all recs _ base hne hmid hrw
            have hs2 : step .fixed e o (afterH2 s base last recs.length true plen) (.z2 plen recs)
                = .cont (recordsV2 .fixed o (afterH2 s base last recs.length true plen) recs) := by
              simp [step, afterH2, hlen]
            have hrun : runCut .fixed e o s (allTokens (Item.b2 base last true plen recs :: rest)) n
                = runCut .fixed e o (recordsV2 .fixed o (afterH2 s base last recs.length true plen) recs) (allTokens rest) (n - 61 - plen) := by
              rw [htoks]; simp [runCut, Tok.size, h61, hs1, hz, hs2]
            have hfit : 61 + plen ≤ n := by omega
            have e1 : n - (61 + plen) = n - 61 - plen := by omega
            have hexp : contained (Item.b2 base last true plen recs :: rest) n = absRecs base recs ++ contained rest (n - 61 - plen) := by
              simp [contained, Item.size, hrecs, hfit, e1]
            rw [hrun, hexp, hallrec]
            have hp := IH _ (n - 61 - plen) (hbnd _)
            refine ⟨?_, hp.ok, ?_, ?_, hp.resok, ?_⟩
            · rw [hp.out, hout]; simp [List.filter_append]
            · intro r hr ho hlt
              simp only [List.mem_append] at hr ⊢
              rcases hr with hr | hr
              · exact Or.inl hr
              · exact Or.inr (hp.nogap r hr ho hlt)
            · have := hp.lower
              have := hb.be
              omega
            · intro b hb'
              simp only [progLB, Item.last] at hb'
              obtain ⟨_, rfl⟩ := ite_some_eq hb'
              have := hp.lower; omega
          · -- the payload is cut: batchRemain > r.remain
            have hrun : runCut .fixed e o s (allTokens (Item.b2 base last true plen recs :: rest)) n
                = finish .fixed e (afterH2 s base last recs.length true plen) := by
              rw [htoks]; simp [runCut, Tok.size, h61, hs1, hz]
            have hnf : ¬ 61 + plen ≤ n := by omega
            have hexp : contained (Item.b2 base last true plen recs :: rest) n = [] := by
              simp [contained, Item.size, hnf]
            have hprog : progLB o (Item.b2 base last true plen recs :: rest) n = none := by
              simp [progLB, Item.size, hnf]
            rw [hrun, hexp, hprog]
            have hp := postL_finish (e := e) (o := o) (lo := nb) (all := allRecords (Item.b2 base last true plen recs :: rest))
              (s := afterH2 s base last recs.length true plen)
              (by intro _ h0; rw [afterH2_lenRem] at h0; omega)
              (by intro h; simp at h)
              (by rw [afterH2_off]; exact hb.offle)
              (by rw [afterH2_be_pos _ _ _ _ _ hlen]; exact hb.be)
              hall (afterH2_outOK hb.outok _ _ _ _ _)
            refine ⟨by simpa using hp.out, hp.ok, hp.nogap, ?_, hp.resok, hp.prog⟩
            have := hp.lower
            rwa [afterH2_be_pos _ _ _ _ _ hlen] at this
      · -- not even the header fits
        have hrun : runCut .fixed e o s (allTokens (Item.b2 base last codec plen recs :: rest)) n = finish .fixed e s := by
          cases codec <;> simp [allTokens, tokensOf, runCut, Tok.size, h61]
        have hnf : ¬ 61 + plen ≤ n := by omega
        have hexp : contained (Item.b2 base last codec plen recs :: rest) n = [] := by
          cases codec <;> simp [contained, Item.size, hnf, h61]
        have hprog : progLB o (Item.b2 base last codec plen recs :: rest) n = none := by
          simp [progLB, Item.size, hnf]
        rw [hrun, hexp, hprog]
        exact postL_finish hb.J hb.init hb.offle hb.be hall hb.outok
    | m magic off tag size =>
      simp only [LWF] at hw
      obtain ⟨hmag, hnbo, hsz, _⟩ := hw
      simp only [Item.last] at IH hrest
      have hrecs : (Item.m magic off tag size).records = [(off, tag)] := rfl
      rw [hrecs] at hallrec
      have htoks : allTokens (Item.m magic off tag size :: rest)
          = Tok.h1 magic off false :: Tok.kv tag (size - hdr1Size magic) :: allTokens rest := by
        simp [allTokens, tokensOf]
      have hh : (Tok.h1 magic off false).size = hdr1Size magic := by simp [Tok.size, hdr1Size]
      by_cases hfit : size ≤ n
      · -- the whole message is there
        have hs1 := step_h1 (e := e) hb magic off false
        have hw1 := w_afterH1 hb magic off false s.inV1
        obtain ⟨m1, m2, m3, m4⟩ := messageV1_W (t := tag) hw1 hnbo
        have hs2 : step .fixed e o (afterH1 s magic off false) (.kv tag (size - hdr1Size magic))
            = .cont (messageV1 .fixed o { afterH1 s magic off false with count := 0, inV1 := s.inV1 } off tag) := by
          rcases hmag with h | h <;> simp [step, afterH1, h]
        have hrun : runCut .fixed e o s (allTokens (Item.m magic off tag size :: rest)) n
            = runCut .fixed e o (messageV1 .fixed o { afterH1 s magic off false with count := 0, inV1 := s.inV1 } off tag)
                (allTokens rest) (n - size) := by
          have hk : (Tok.kv tag (size - hdr1Size magic)).size = size - hdr1Size magic := rfl
          rw [htoks, runCut_cons_fit (by rw [hh]; omega) hs1, runCut_cons_fit (by rw [hh, hk]; omega) hs2]
          have a3 : n - (Tok.h1 magic off false).size - (Tok.kv tag (size - hdr1Size magic)).size = n - size := by
            rw [hh, hk]; omega
          rw [a3]
        have hexp : contained (Item.m magic off tag size :: rest) n = [(off, tag)] ++ contained rest (n - size) := by
          simp [contained, Item.size, hfit, hrecs]
        rw [hrun, hexp, hallrec]
        have hbnd : Bnd o (off + 1) (headB2 rest) (messageV1 .fixed o { afterH1 s magic off false with count := 0, inV1 := s.inV1 } off tag) := by
          apply m1.bnd
          intro hv
          have := hsafe.1 hv
          simp only [isB2, Bool.false_eq_true, false_or, Item.last] at this
          exact m4 this
        have hp := IH _ (n - size) hbnd
        refine ⟨?_, hp.ok, ?_, ?_, hp.resok, ?_⟩
        · rw [hp.out, m2]
          by_cases h : o ≤ off <;> simp [h, afterH1]
        · intro r hr ho hlt
          simp only [List.mem_append] at hr ⊢
          rcases hr with hr | hr
          · exact Or.inl hr
          · exact Or.inr (hp.nogap r hr ho hlt)
        · have := hp.lower; rw [m3] at this; simpa [afterH1] using this
        · intro b hb'
          simp only [progLB, Item.last] at hb'
          obtain ⟨hc, rfl⟩ := ite_some_eq hb'
          · have hmem : (off, tag) ∈ (messageV1 .fixed o { afterH1 s magic off false with count := 0, inV1 := s.inV1 } off tag).out := by
              rw [m2]; simp [hc.2]
            exact Int.add_one_le_iff.mpr (mem_out_lt hp hmem)
      · -- the message is cut
        have hexp : contained (Item.m magic off tag size :: rest) n = [] := by simp [contained, Item.size, hfit]
        have hprog : progLB o (Item.m magic off tag size :: rest) n = none := by simp [progLB, Item.size, hfit]
        rw [hexp, hprog]
        by_cases hh1 : hdr1Size magic ≤ n
        · have hs1 := step_h1 (e := e) hb magic off false
          have hrun : runCut .fixed e o s (allTokens (Item.m magic off tag size :: rest)) n = finish .fixed e (afterH1 s magic off false) := by
            have hk : (Tok.kv tag (size - hdr1Size magic)).size = size - hdr1Size magic := rfl
            rw [htoks, runCut_cons_fit (by rw [hh]; omega) hs1, runCut_cons_cut (by rw [hh, hk]; omega)]
          rw [hrun]
          exact postL_finish_h1 hb magic off false hall
        · have hrun : runCut .fixed e o s (allTokens (Item.m magic off tag size :: rest)) n = finish .fixed e s := by
            rw [htoks, runCut_cons_cut (by rw [hh]; omega)]
          rw [hrun]
          exact postL_finish hb.J hb.init hb.offle hb.be hall hb.outok
    | w magic woff size inner =>
      simp only [LWF] at hw
      obtain ⟨hmag, hne, hin, hsz, _⟩ := hw
      simp only [Item.last] at IH hrest
      have hrecs : (Item.w magic woff size inner).records = absInner (wrapperBase woff inner) inner := rfl
      rw [hrecs] at hallrec
      have htoks : allTokens (Item.w magic woff size inner :: rest)
          = Tok.h1 magic woff true :: Tok.zv (size - hdr1Size magic) inner :: allTokens rest := by
        simp [allTokens, tokensOf]
      have hh : (Tok.h1 magic woff true).size = hdr1Size magic := by simp [Tok.size, hdr1Size]
      have hnbw : nb ≤ woff + 1 := by simp only [Item.last] at hilast; omega
      by_cases hfit : size ≤ n
      · have hs1 := step_h1 (e := e) hb magic woff true
        have hw1 := w_afterH1 hb magic woff true true
        obtain ⟨m1, m2, m3, m4⟩ := messagesV1_all inner _ nb hw1 hnbw hin
        have hs2 : step .fixed e o (afterH1 s magic woff true) (.zv (size - hdr1Size magic) inner)
            = .cont (messagesV1 .fixed o (wrapperBase woff inner) { afterH1 s magic woff true with count := 0, inV1 := true } inner) := by
          rcases hmag with h | h <;> simp [step, afterH1, h]
        have hrun : runCut .fixed e o s (allTokens (Item.w magic woff size inner :: rest)) n
            = runCut .fixed e o (messagesV1 .fixed o (wrapperBase woff inner) { afterH1 s magic woff true with count := 0, inV1 := true } inner)
                (allTokens rest) (n - size) := by
          have hk : (Tok.zv (size - hdr1Size magic) inner).size = size - hdr1Size magic := rfl
          rw [htoks, runCut_cons_fit (by rw [hh]; omega) hs1, runCut_cons_fit (by rw [hh, hk]; omega) hs2]
          have a3 : n - (Tok.h1 magic woff true).size - (Tok.zv (size - hdr1Size magic) inner).size = n - size := by
            rw [hh, hk]; omega
          rw [a3]
        have hexp : contained (Item.w magic woff size inner :: rest) n
            = absInner (wrapperBase woff inner) inner ++ contained rest (n - size) := by
          simp [contained, Item.size, hfit, hrecs]
        rw [hrun, hexp, hallrec]
        obtain ⟨l, hl⟩ : ∃ l, inner.getLast? = some l := by
          cases hgl : inner.getLast? with
          | none => exact absurd (List.getLast?_eq_none_iff.mp hgl) hne
          | some l => exact ⟨l, rfl⟩
        have hlast := wrapper_last (woff := woff) hl
        have hbnd : Bnd o (woff + 1) (headB2 rest) (messagesV1 .fixed o (wrapperBase woff inner) { afterH1 s magic woff true with count := 0, inV1 := true } inner) := by
          apply m1.bnd
          intro hv
          have := hsafe.1 hv
          simp only [isB2, Bool.false_eq_true, false_or, Item.last] at this
          exact m4 l hl (by omega)
        have hp := IH _ (n - size) hbnd
        refine ⟨?_, hp.ok, ?_, ?_, hp.resok, ?_⟩
        · rw [hp.out, m2]; simp [afterH1, List.filter_append]
        · intro r hr ho hlt
          simp only [List.mem_append] at hr ⊢
          rcases hr with hr | hr
          · exact Or.inl hr
          · exact Or.inr (hp.nogap r hr ho hlt)
        · have := hp.lower; rw [m3] at this; simpa [afterH1] using this
        · intro b hb'
          simp only [progLB, Item.last] at hb'
          obtain ⟨hc, rfl⟩ := ite_some_eq hb'
          · have hmem : (woff, l.2) ∈ (messagesV1 .fixed o (wrapperBase woff inner) { afterH1 s magic woff true with count := 0, inV1 := true } inner).out := by
              rw [m2]
              apply List.mem_append_right
              simp only [List.mem_filter, decide_eq_true_eq, absInner, List.mem_map]
              exact ⟨⟨l, List.mem_of_getLast? hl, by simp [hlast]⟩, hc.2⟩
            exact Int.add_one_le_iff.mpr (mem_out_lt hp hmem)
      · have hexp : contained (Item.w magic woff size inner :: rest) n = [] := by simp [contained, Item.size, hfit]
        have hprog : progLB o (Item.w magic woff size inner :: rest) n = none := by simp [progLB, Item.size, hfit]
        rw [hexp, hprog]
        by_cases hh1 : hdr1Size magic ≤ n
        · have hs1 := step_h1 (e := e) hb magic woff true
          have hrun : runCut .fixed e o s (allTokens (Item.w magic woff size inner :: rest)) n = finish .fixed e (afterH1 s magic woff true) := by
            have hk : (Tok.zv (size - hdr1Size magic) inner).size = size - hdr1Size magic := rfl
            rw [htoks, runCut_cons_fit (by rw [hh]; omega) hs1, runCut_cons_cut (by rw [hh, hk]; omega)]
          rw [hrun]
          exact postL_finish_h1 hb magic woff true hall
        · have hrun : runCut .fixed e o s (allTokens (Item.w magic woff size inner :: rest)) n = finish .fixed e s := by
            rw [htoks, runCut_cons_cut (by rw [hh]; omega)]
          rw [hrun]
          exact postL_finish hb.J hb.init hb.offle hb.be hall hb.outok

end KV.C02

namespace KV.C02

/-! ### from `runCut` back to `readAll`, `fetchOnce`, `fetchSeq` -/

def itemsSize : List Item → Nat
  | [] => 0
  | it :: rest => it.size + itemsSize rest

theorem contained_all : ∀ (items : List Item) (n : Nat), itemsSize items ≤ n → contained items n = allRecords items := by
  intro items
  induction items with
  | nil => intro n _; simp [contained, allRecords]
  | cons it rest ih =>
    intro n h
    simp only [itemsSize] at h
    have h1 : it.size ≤ n := by omega
    simp only [contained, h1, if_true, allRecords, List.flatMap_cons]
    rw [ih (n - it.size) (by omega)]
    rfl

theorem fitRecs_subset (base : Int) : ∀ (recs : List (Int × Nat × Nat)) (n : Nat), ∀ r ∈ fitRecs base recs n, r ∈ absRecs base recs := by
  intro recs
  induction recs with
  | nil => intro n r hr; simp [fitRecs] at hr
  | cons x rs ih =>
    intro n r hr
    obtain ⟨d, t, z⟩ := x
    simp only [fitRecs] at hr
    split at hr
    · simp only [List.mem_cons] at hr
      rcases hr with rfl | hr
      · simp [absRecs]
      · have := ih _ r hr
        simp only [absRecs, List.map_cons, List.mem_cons]; right; simpa [absRecs] using this
    · simp at hr

theorem contained_subset : ∀ (items : List Item) (n : Nat), ∀ r ∈ contained items n, r ∈ allRecords items := by
  intro items
  induction items with
  | nil => intro n r hr; simp [contained] at hr
  | cons it rest ih =>
    intro n r hr
    simp only [allRecords, List.flatMap_cons, List.mem_append]
    simp only [contained] at hr
    split at hr
    · simp only [List.mem_append] at hr
      rcases hr with hr | hr
      · exact Or.inl hr
      · exact Or.inr (by simpa [allRecords] using ih _ r hr)
    · left
      cases it with
      | b2 base last codec plen recs =>
        cases codec with
        | false =>
          simp only at hr
          split at hr
          · exact fitRecs_subset base recs _ r hr
          · simp at hr
        | true => simp at hr
      | m _ _ _ _ => simp at hr
      | w _ _ _ _ => simp at hr

/-- the state of a fresh Batch on a Conn positioned at `o ≥ 0` is a boundary state -/
theorem bnd_init {o nb : Int} (ho : 0 ≤ o) (hnb : 0 ≤ nb) (v2n : Bool) : Bnd o nb v2n { off := o } := by
  refine ⟨rfl, fun _ => rfl, ?_, ?_, ?_, hnb, ?_, ?_, ⟨by simp, by simp⟩⟩ <;> simp <;> omega

theorem lasts_ge : ∀ {items : List Item} {nb : Int}, LWF nb items → ∀ it ∈ items, nb ≤ it.last := by
  intro items
  induction items with
  | nil => intro nb _ it hit; simp at hit
  | cons x rest ih =>
    intro nb h it hit
    obtain ⟨_, h2, h3⟩ := item_bounds h
    simp only [List.mem_cons] at hit
    rcases hit with rfl | hit
    · exact h2
    · have := ih h3 it hit; omega

theorem safe_of_lasts {o : Int} : ∀ {items : List Item}, (∀ it ∈ items, o ≤ it.last) → Safe o items := by
  intro items
  induction items with
  | nil => intro _; trivial
  | cons x rest ih =>
    intro h
    exact ⟨fun _ => Or.inr (h x (by simp)), ih (fun it hit => h it (by simp [hit]))⟩

/-- a response that starts with the batch containing the offset (the fetch contract) is `Safe` -/
theorem safe_of_contract {o nb : Int} {it : Item} {rest : List Item} (h : LWF nb (it :: rest)) (ho : o ≤ it.last) :
    Safe o (it :: rest) := by
  apply safe_of_lasts
  intro x hx
  simp only [List.mem_cons] at hx
  rcases hx with rfl | hx
  · exact ho
  · have := lasts_ge (item_bounds h).2.2 x hx; omega

theorem safe_of_v2 {o : Int} : ∀ {items : List Item}, (∀ it ∈ items, isB2 it = true) → Safe o items := by
  intro items
  induction items with
  | nil => intro _; trivial
  | cons x rest ih => intro h; exact ⟨fun _ => Or.inl (h x (by simp)), ih (fun it hit => h it (by simp [hit]))⟩

theorem safe_of_v1 {o : Int} : ∀ {items : List Item}, (∀ it ∈ items, isB2 it = false) → Safe o items := by
  intro items
  induction items with
  | nil => intro _; trivial
  | cons x rest ih =>
    intro h
    refine ⟨fun hv => ?_, ih (fun it hit => h it (by simp [hit]))⟩
    cases rest with
    | nil => simp [headB2] at hv
    | cons y ys => have := h y (by simp); simp [headB2, this] at hv

end KV.C02

namespace KV.C02

/-! ### the broker side: `dropBefore`, `serve` -/

theorem dropBefore_spec (q : Int) : ∀ {items : List Item} {nb : Int}, LWF nb items →
    LWF nb (dropBefore q items) ∧
    (∀ r ∈ allRecords items, r.1 < q ∨ r ∈ allRecords (dropBefore q items)) ∧
    (∀ r ∈ allRecords (dropBefore q items), r ∈ allRecords items) ∧
    (∀ it rest, dropBefore q items = it :: rest → q ≤ it.last) := by
  intro items
  induction items with
  | nil => intro nb _; simp [dropBefore, allRecords, LWF]
  | cons x rest ih =>
    intro nb h
    obtain ⟨h1, h2, h3⟩ := item_bounds h
    by_cases hx : x.last < q
    · obtain ⟨i1, i2, i3, i4⟩ := ih h3
      simp only [dropBefore, hx, if_true]
      refine ⟨lwf_mono (by omega) i1, ?_, ?_, i4⟩
      · intro r hr
        simp only [allRecords, List.flatMap_cons, List.mem_append] at hr
        rcases hr with hr | hr
        · left; have := (h1 r hr).2; omega
        · exact i2 r (by simpa [allRecords] using hr)
      · intro r hr
        simp only [allRecords, List.flatMap_cons, List.mem_append]
        exact Or.inr (by simpa [allRecords] using i3 r hr)
    · simp only [dropBefore, hx, if_false]
      refine ⟨h, fun r hr => Or.inr hr, fun r hr => hr, ?_⟩
      intro it rest' heq
      simp only [List.cons.injEq] at heq
      rw [← heq.1]; omega

/-- **one fetch round against a contract-obeying broker** (`fetch_progress` is the last clause) -/
theorem fetch_round (items : List Item) (nb : Int) (hnb : 0 ≤ nb) (hwf : LWF nb items) (hwm q : Int) (hq : 0 ≤ q) (b : Nat) :
    let res := fetchOnce .fixed items hwm q b
    q ≤ res.2.1 ∧
    (∀ r ∈ res.1, r ∈ allRecords items ∧ q ≤ r.1 ∧ r.1 < res.2.1) ∧
    (∀ r ∈ allRecords items, q ≤ r.1 → r.1 < res.2.1 → r ∈ res.1) ∧
    res.1.Pairwise (fun a b => a.1 < b.1) ∧
    res.2.2 ≠ .desync ∧
    (hwm ≠ q → dropBefore q items ≠ [] → q < res.2.1) := by
  by_cases hne : hwm = q
  · simp [fetchOnce, readAll, hne]
  · obtain ⟨d1, d2, d3, d4⟩ := dropBefore_spec q hwf
    have hsafe : Safe q (dropBefore q items) := by
      cases hsub : dropBefore q items with
      | nil => trivial
      | cons it rest => rw [hsub] at d1; exact safe_of_contract d1 (d4 it rest hsub)
    have hp := layout_run false q (dropBefore q items) nb { off := q } (serveBudget (dropBefore q items) b) d1 hsafe
      (bnd_init hq hnb _)
    have hrun : fetchOnce .fixed items hwm q b
        = ((runCut .fixed false q { off := q } (allTokens (dropBefore q items)) (serveBudget (dropBefore q items) b)).1.out,
           (runCut .fixed false q { off := q } (allTokens (dropBefore q items)) (serveBudget (dropBefore q items) b)).1.off,
           (runCut .fixed false q { off := q } (allTokens (dropBefore q items)) (serveBudget (dropBefore q items) b)).2) := by
      simp only [fetchOnce, readAll, hne, if_false, serve, run_truncate]
    rw [hrun]
    simp only
    have hout := hp.out
    simp only [List.nil_append] at hout
    refine ⟨?_, ?_, ?_, hp.resok.2, hp.ok, ?_⟩
    · -- the position never moves backwards
      cases hsub : dropBefore q items with
      | nil => simp [allTokens, runCut, finish]
      | cons it rest =>
        have hpr := hp.prog
        rw [hsub] at hpr
        have : it.size ≤ serveBudget (it :: rest) b := by simp only [serveBudget]; omega
        have hlast := d4 it rest hsub
        have := hpr (it.last + 1) (by simp [progLB, this, hlast])
        omega
    · intro r hr
      have hb := hp.resok.1 r hr
      rw [hout] at hr
      simp only [List.mem_filter] at hr
      exact ⟨d3 r (contained_subset _ _ r hr.1), hb⟩
    · intro r hr h1 h2
      rcases d2 r hr with hlt | hsub
      · omega
      · rw [hout]
        simp only [List.mem_filter, decide_eq_true_eq]
        exact ⟨hp.nogap r hsub h1 h2, h1⟩
    · intro _ hsubne
      cases hsub : dropBefore q items with
      | nil => exact absurd hsub hsubne
      | cons it rest =>
        have hpr := hp.prog
        rw [hsub] at hpr
        have : it.size ≤ serveBudget (it :: rest) b := by simp only [serveBudget]; omega
        have hlast := d4 it rest hsub
        have := hpr (it.last + 1) (by simp [progLB, this, hlast])
        omega

theorem fetchSeq_cons (v : Variant) (items : List Item) (hwm q : Int) (b : Nat) (bs : List Nat) :
    fetchSeq v items hwm q (b :: bs)
      = ((fetchOnce v items hwm q b).1 ++ (fetchSeq v items hwm (fetchOnce v items hwm q b).2.1 bs).1,
         (fetchSeq v items hwm (fetchOnce v items hwm q b).2.1 bs).2) := rfl

/-- **iterated fetches**: invariant `delivered = log ∩ [start, connOffset)`, strictly increasing -/
theorem fetchSeq_inv (items : List Item) (nb : Int) (hnb : 0 ≤ nb) (hwf : LWF nb items) (hwm : Int) :
    ∀ (budgets : List Nat) (q : Int), 0 ≤ q →
      let res := fetchSeq .fixed items hwm q budgets
      q ≤ res.2 ∧
      (∀ r ∈ res.1, r ∈ allRecords items ∧ q ≤ r.1 ∧ r.1 < res.2) ∧
      (∀ r ∈ allRecords items, q ≤ r.1 → r.1 < res.2 → r ∈ res.1) ∧
      res.1.Pairwise (fun a b => a.1 < b.1) := by
  intro budgets
  induction budgets with
  | nil => intro q _; simp [fetchSeq]
  | cons b bs ih =>
    intro q hq
    obtain ⟨f1, f2, f3, f4, _, _⟩ := fetch_round items nb hnb hwf hwm q hq b
    obtain ⟨i1, i2, i3, i4⟩ := ih (fetchOnce .fixed items hwm q b).2.1 (by omega)
    rw [fetchSeq_cons]
    simp only
    refine ⟨by omega, ?_, ?_, ?_⟩
    · intro r hr
      simp only [List.mem_append] at hr
      rcases hr with hr | hr
      · have := f2 r hr; exact ⟨this.1, this.2.1, by omega⟩
      · have := i2 r hr; exact ⟨this.1, by omega, this.2.2⟩
    · intro r hr h1 h2
      simp only [List.mem_append]
      by_cases hlt : r.1 < (fetchOnce .fixed items hwm q b).2.1
      · exact Or.inl (f3 r hr h1 hlt)
      · exact Or.inr (i3 r hr (by omega) h2)
    · rw [List.pairwise_append]
      refine ⟨f4, i4, ?_⟩
      intro a ha c hc
      have := (f2 a ha).2.2
      have := (i2 c hc).2.1
      omega

end KV.C02
