/-
Lemmas/FetchDecoder.lean — helper lemmas for Props/C02.lean: the decoder machine of
Model/MessageSetReader.lean on the token streams of well-formed layouts (Spec/Layout.lean).
-/
import KafkaVerif.Model.Batch
import KafkaVerif.Spec.Layout

namespace KV.C02

/-! ### `run ∘ truncate` fused: consume tokens while they fit the byte budget -/

def runCut (v : Variant) (e : Bool) (o : Int) : St → List Tok → Nat → St × Outcome
  | s, [], _ => finish v e s
  | s, t :: ts, n =>
    if t.size ≤ n then
      match step v e o s t with
      | .cont s' => runCut v e o s' ts (n - t.size)
      | .stop s' r => (s', r)
    else finish v e s

theorem step_cut (v : Variant) (e : Bool) (o : Int) (s : St) :
    step v e o s .cut = .stop (finish v e s).1 (finish v e s).2 := by
  simp [step]

theorem run_truncate (v : Variant) (e : Bool) (o : Int) (ts : List Tok) :
    ∀ (s : St) (n : Nat), run v e o s (truncate ts n) = runCut v e o s ts n := by
  induction ts with
  | nil => intro s n; simp [truncate, run, runCut]
  | cons t ts ih =>
    intro s n
    unfold truncate runCut
    by_cases h : t.size ≤ n
    · simp only [h, if_true, run]
      cases hs : step v e o s t with
      | cont s' => simp [ih]
      | stop s' r => simp
    · by_cases h0 : n = 0
      · subst h0
        have h' : ¬ t.size = 0 := by omega
        simp [h', run]
      · simp [h, h0, run, step_cut]

/-- `run` on the whole stream = `runCut` with a budget that everything fits into -/
def totalSize : List Tok → Nat
  | [] => 0
  | t :: ts => t.size + totalSize ts

theorem runCut_all (v : Variant) (e : Bool) (o : Int) (ts : List Tok) :
    ∀ (s : St) (n : Nat), totalSize ts ≤ n → runCut v e o s ts n = run v e o s ts := by
  induction ts with
  | nil => intro s n _; simp [run, runCut]
  | cons t ts ih =>
    intro s n h
    simp only [totalSize] at h
    have h1 : t.size ≤ n := by omega
    simp only [runCut, h1, if_true, run]
    cases hs : step v e o s t with
    | cont s' => simp only; exact ih s' (n - t.size) (by omega)
    | stop s' r => rfl

end KV.C02

namespace KV.C02

/-! ### Well-formed v2 layouts -/

def sumSizes : List (Int × Nat × Nat) → Nat
  | [] => 0
  | (_, _, z) :: rs => z + sumSizes rs

def absRecs (base : Int) (recs : List (Int × Nat × Nat)) : List Rec := recs.map fun (d, t, _) => (base + d, t)

/-- retained records of a batch [base,last]: offsets strictly increasing from `lo`, inside the batch, sizes positive -/
def RecsWF (base last : Int) : Int → List (Int × Nat × Nat) → Prop
  | _, [] => True
  | lo, (d, _, z) :: rs => lo ≤ base + d ∧ base + d ≤ last ∧ 1 ≤ z ∧ RecsWF base last (base + d + 1) rs

/-- a layout of v2 batches: ranges [base,last] disjoint and increasing from `nb`; a plain batch's payload is its
records; an empty batch is a bare header; a compressed payload is not empty -/
def V2WF : Int → List Item → Prop
  | _, [] => True
  | nb, .b2 base last codec plen recs :: rest =>
    nb ≤ base ∧ base ≤ last ∧ RecsWF base last base recs ∧ (codec = false → plen = sumSizes recs) ∧
    (codec = true → recs ≠ [] ∧ 1 ≤ plen) ∧ V2WF (last + 1) rest
  | _, _ :: _ => False

theorem recsWF_lb {base last : Int} : ∀ {recs : List (Int × Nat × Nat)} {lo : Int}, RecsWF base last lo recs →
    ∀ r ∈ absRecs base recs, lo ≤ r.1 ∧ r.1 ≤ last := by
  intro recs
  induction recs with
  | nil => intro lo _ r hr; simp [absRecs] at hr
  | cons x rs ih =>
    intro lo h r hr
    obtain ⟨d, t, z⟩ := x
    simp only [RecsWF] at h
    simp only [absRecs, List.map_cons, List.mem_cons] at hr
    rcases hr with rfl | hr
    · simp; omega
    · have := ih h.2.2.2 r (by simpa [absRecs] using hr)
      omega

theorem v2wf_lb : ∀ {items : List Item} {nb : Int}, V2WF nb items → ∀ r ∈ allRecords items, nb ≤ r.1 := by
  intro items
  induction items with
  | nil => intro nb _ r hr; simp [allRecords] at hr
  | cons it rest ih =>
    intro nb h r hr
    cases it with
    | b2 base last codec plen recs =>
      simp only [V2WF] at h
      simp only [allRecords, List.flatMap_cons, List.mem_append] at hr
      rcases hr with hr | hr
      · have := recsWF_lb h.2.2.1 r (by simpa [Item.records, absRecs] using hr)
        omega
      · have := ih h.2.2.2.2.2 r (by simpa [allRecords] using hr)
        omega
    | m _ _ _ _ => simp [V2WF] at h
    | w _ _ _ _ => simp [V2WF] at h

end KV.C02

namespace KV.C02

/-! ### Invariants of the repaired decoder between items / inside a batch -/

/-- state between two items; `nb` bounds everything still to come from below -/
structure Bnd (o nb : Int) (s : St) : Prop where
  count0 : s.count = 0
  notV1 : s.inV1 = false
  be : s.batchEnd ≤ nb
  offle : s.off ≤ o ∨ s.off ≤ nb
  lastle : s.lastOff ≤ nb
  nb0 : 0 ≤ nb
  J : s.started = true → s.lenRem = 0 → s.lastOff ≥ s.off → s.lastOff + 1 ≤ s.batchEnd
  init : s.started = false → s.batchEnd ≤ s.off

/-- state inside batch [base,last] with `recs` still to be read, all at or above `lo` -/
structure Mid (o base last lo : Int) (recs : List (Int × Nat × Nat)) (codec : Bool) (s : St) : Prop where
  magic : s.magic = 2
  count : s.count = recs.length
  first : s.first = base
  lastD : s.lastD = last - base
  started : s.started = true
  notV1 : s.inV1 = false
  be : s.batchEnd ≤ lo
  offle : s.off ≤ o ∨ s.off ≤ lo
  lo0 : 0 ≤ lo
  len : codec = false → s.lenRem = sumSizes recs
  codecEq : s.codec = codec

/-- what `finish` does to the repaired machine when the legacy jump is harmless -/
theorem finish_fixed (e : Bool) (s : St)
    (hJ : s.started = true → s.lenRem = 0 → s.lastOff ≥ s.off → s.lastOff + 1 ≤ s.batchEnd) :
    (finish .fixed e s).1.out = s.out ∧ (finish .fixed e s).2 ≠ .desync ∧
    ((s.started = false → s.batchEnd ≤ s.off) → s.batchEnd ≤ (finish .fixed e s).1.off) ∧
    ((finish .fixed e s).1.off ≤ s.off ∨ (finish .fixed e s).1.off ≤ s.batchEnd) := by
  have hJ' : s.started = true → s.lenRem = 0 → s.off ≤ s.lastOff → s.lastOff + 1 ≤ s.batchEnd := hJ
  cases hst : s.started <;> cases e <;> simp only [hst] at hJ' <;>
    simp only [finish, hst, Bool.not_true, Bool.not_false, Bool.false_eq_true, if_false, if_true, reduceCtorEq,
      true_and, false_and, ne_eq, not_false_eq_true, and_true, true_implies] <;>
    constructor <;> (try intro _) <;> (repeat' split) <;> simp_all <;> omega

end KV.C02

namespace KV.C02

theorem recordV2_mid {o base last lo d : Int} {t z : Nat} {rs : List (Int × Nat × Nat)} {codec : Bool} {s : St}
    (hm : Mid o base last lo ((d, t, z) :: rs) codec s) (hw : RecsWF base last lo ((d, t, z) :: rs)) :
    (recordV2 .fixed o s d t z).out = s.out ++ (if o ≤ base + d then [(base + d, t)] else []) ∧
    (rs ≠ [] → Mid o base last (base + d + 1) rs codec (recordV2 .fixed o s d t z)) ∧
    (rs = [] → Bnd o (last + 1) (recordV2 .fixed o s d t z)) ∧
    s.batchEnd ≤ (recordV2 .fixed o s d t z).batchEnd := by
  obtain ⟨hmagic, hcount, hfirst, hlastD, hstarted, hnotV1, hbe, hoffle, hlo0, hlen, hcodec⟩ := hm
  simp only [RecsWF] at hw
  obtain ⟨hlo, hle, hz, _⟩ := hw
  simp only [List.length_cons] at hcount
  refine ⟨?_, ?_, ?_, ?_⟩
  · simp only [recordV2, onRecord, hfirst]
    by_cases h : o ≤ base + d
    · have : ¬ (base + d < o) := by omega
      simp [h, this]
    · have : base + d < o := by omega
      simp [h, this]
  · intro hrs
    have hlen2 : rs.length ≠ 0 := by simpa using hrs
    have hc1 : ¬ (s.count = 1) := by omega
    have hl : s.lenRem - ↑z = ↑(sumSizes rs) ∨ codec = true := by
      cases codec with
      | true => right; rfl
      | false => left; have := hlen rfl; simp only [sumSizes] at this; omega
    refine ⟨?_, ?_, ?_, ?_, ?_, ?_, ?_, ?_, ?_, ?_, ?_⟩ <;>
      (try simp only [recordV2, onRecord, hc1, and_false, if_false, hfirst, hmagic, hlastD, hstarted, hcodec, true_and]) <;>
      (try (split <;> omega)) <;> (try omega)
    · intro hc; subst hc; simpa using hl
  · intro hrs
    subst hrs
    have hc1 : s.count = 1 := by simpa using hcount
    refine ⟨?_, ?_, ?_, ?_, ?_, ?_, ?_, ?_⟩ <;>
      (try simp only [recordV2, onRecord, hc1, and_true, if_true, hfirst, hlastD, hstarted, true_and]) <;>
      (try (split <;> omega)) <;> (try omega)
  · simp only [recordV2, onRecord]
    split <;> omega

end KV.C02

namespace KV.C02

/-- what a run from state `s0` must achieve: exactly the expected records at or above `o` are appended, no
desynchronisation, no stored record at or above `o` below the final offset is missing, the offset ends at or
above the batch end known at the start -/
structure PostL (o : Int) (expect all : List Rec) (s0 : St) (res : St × Outcome) : Prop where
  out : res.1.out = s0.out ++ expect.filter (fun r => o ≤ r.1)
  ok : res.2 ≠ .desync
  nogap : ∀ r ∈ all, o ≤ r.1 → r.1 < res.1.off → r ∈ expect
  lower : s0.batchEnd ≤ res.1.off

def r2Toks (recs : List (Int × Nat × Nat)) : List Tok := recs.map fun x => Tok.r2 x.1 x.2.1 x.2.2

/-- finishing in a state whose offset and batch end are below everything still expected -/
theorem postL_finish {e : Bool} {o lo : Int} {all : List Rec} {s : St}
    (hJ : s.started = true → s.lenRem = 0 → s.lastOff ≥ s.off → s.lastOff + 1 ≤ s.batchEnd)
    (hinit : s.started = false → s.batchEnd ≤ s.off)
    (hoff : s.off ≤ o ∨ s.off ≤ lo) (hbe : s.batchEnd ≤ lo) (hall : ∀ r ∈ all, lo ≤ r.1) :
    PostL o [] all s (finish .fixed e s) := by
  obtain ⟨h1, h2, h3, h4⟩ := finish_fixed e s hJ
  refine ⟨by simp [h1], h2, ?_, h3 hinit⟩
  intro r hr ho hlt
  have := hall r hr
  omega

theorem plain_recs (e : Bool) (o base last : Int) (rest : List Item)
    (IH : ∀ (s : St) (n : Nat), Bnd o (last + 1) s →
      PostL o (contained rest n) (allRecords rest) s (runCut .fixed e o s (allTokens rest) n))
    (hrest : ∀ r ∈ allRecords rest, last + 1 ≤ r.1) :
    ∀ (recs : List (Int × Nat × Nat)) (s : St) (n : Nat) (lo : Int),
      (recs ≠ [] → Mid o base last lo recs false s) → (recs = [] → Bnd o (last + 1) s) → RecsWF base last lo recs →
      PostL o (if sumSizes recs ≤ n then absRecs base recs ++ contained rest (n - sumSizes recs) else fitRecs base recs n)
        (absRecs base recs ++ allRecords rest) s
        (runCut .fixed e o s (r2Toks recs ++ allTokens rest) n) := by
  intro recs
  induction recs with
  | nil =>
    intro s n lo _ hb _
    simpa [sumSizes, absRecs, r2Toks] using IH s n (hb rfl)
  | cons x rs ih =>
    intro s n lo hm _ hw
    obtain ⟨d, t, z⟩ := x
    have hm := hm (by simp)
    have hw' := hw
    simp only [RecsWF] at hw'
    by_cases hz : z ≤ n
    · -- the record fits: it is read
      obtain ⟨hout, hmid, hbnd, hmono⟩ := recordV2_mid hm hw
      have hstep : step .fixed e o s (.r2 d t z) = .cont (recordV2 .fixed o s d t z) := by
        have h1 := hm.magic; have h2 := hm.count; have h3 := hm.codecEq
        simp only [List.length_cons] at h2
        simp [step, h1, h2, h3]
      have hrun : runCut .fixed e o s (r2Toks ((d, t, z) :: rs) ++ allTokens rest) n
          = runCut .fixed e o (recordV2 .fixed o s d t z) (r2Toks rs ++ allTokens rest) (n - z) := by
        simp [r2Toks, runCut, Tok.size, hz, hstep]
      rw [hrun]
      have ihr := ih (recordV2 .fixed o s d t z) (n - z) (base + d + 1) hmid hbnd hw'.2.2.2
      have hexp : (if sumSizes ((d, t, z) :: rs) ≤ n then absRecs base ((d, t, z) :: rs) ++ contained rest (n - sumSizes ((d, t, z) :: rs))
            else fitRecs base ((d, t, z) :: rs) n)
          = (base + d, t) :: (if sumSizes rs ≤ n - z then absRecs base rs ++ contained rest (n - z - sumSizes rs) else fitRecs base rs (n - z)) := by
        simp only [sumSizes, fitRecs, hz, if_true, absRecs, List.map_cons, List.cons_append]
        by_cases h2 : sumSizes rs ≤ n - z
        · have : z + sumSizes rs ≤ n := by omega
          have e1 : n - (z + sumSizes rs) = n - z - sumSizes rs := by omega
          simp only [this, h2, if_true, e1]
        · have : ¬ z + sumSizes rs ≤ n := by omega
          simp only [this, h2, if_false]
      rw [hexp]
      refine ⟨?_, ihr.ok, ?_, by have := ihr.lower; omega⟩
      · rw [ihr.out, hout, List.filter_cons]
        by_cases h : o ≤ base + d <;> simp [h]
      · intro r hr ho hlt
        simp only [absRecs, List.map_cons, List.cons_append, List.mem_cons] at hr
        rcases hr with rfl | hr
        · simp
        · exact List.mem_cons_of_mem _ (ihr.nogap r (by simpa [absRecs] using hr) ho hlt)
    · -- the record is cut: the pending read fails
      have hrun : runCut .fixed e o s (r2Toks ((d, t, z) :: rs) ++ allTokens rest) n = finish .fixed e s := by
        simp [r2Toks, runCut, Tok.size, hz]
      have hexp : (if sumSizes ((d, t, z) :: rs) ≤ n then absRecs base ((d, t, z) :: rs) ++ contained rest (n - sumSizes ((d, t, z) :: rs))
            else fitRecs base ((d, t, z) :: rs) n) = [] := by
        have : ¬ z + sumSizes rs ≤ n := by omega
        simp [sumSizes, fitRecs, hz, this]
      rw [hrun, hexp]
      have hlen := hm.len rfl
      simp only [sumSizes] at hlen
      apply postL_finish (lo := lo)
      · intro _ h0; omega
      · intro h; simp [hm.started] at h
      · exact hm.offle
      · exact hm.be
      · intro r hr
        simp only [List.mem_append] at hr
        rcases hr with hr | hr
        · exact (recsWF_lb hw r hr).1
        · have := hrest r hr; omega

end KV.C02

namespace KV.C02

/-- a whole (decompressed) batch read in one go -/
theorem recordsV2_all {o base last : Int} {codec : Bool} :
    ∀ (recs : List (Int × Nat × Nat)) (s : St) (lo : Int), recs ≠ [] → Mid o base last lo recs codec s → RecsWF base last lo recs →
      (recordsV2 .fixed o s recs).out = s.out ++ (absRecs base recs).filter (fun r => o ≤ r.1) ∧
      Bnd o (last + 1) (recordsV2 .fixed o s recs) ∧ s.batchEnd ≤ (recordsV2 .fixed o s recs).batchEnd := by
  intro recs
  induction recs with
  | nil => intro s lo h; exact absurd rfl h
  | cons x rs ih =>
    intro s lo _ hm hw
    obtain ⟨d, t, z⟩ := x
    obtain ⟨hout, hmid, hbnd, hmono⟩ := recordV2_mid hm hw
    simp only [RecsWF] at hw
    by_cases hrs : rs = []
    · subst hrs
      refine ⟨?_, by simpa [recordsV2] using hbnd rfl, by simpa [recordsV2] using hmono⟩
      simp [recordsV2, hout, absRecs, List.filter_cons]
    · obtain ⟨h1, h2, h3⟩ := ih (recordV2 .fixed o s d t z) (base + d + 1) hrs (hmid hrs) hw.2.2.2
      refine ⟨?_, by simpa [recordsV2] using h2, by simp only [recordsV2]; omega⟩
      simp only [recordsV2, h1, hout, absRecs, List.map_cons, List.filter_cons, List.append_assoc]
      by_cases h : o ≤ base + d <;> simp [h]

/-- the header of batch [base,last] read in a boundary state -/
def afterH2 (s : St) (base last : Int) (c : Nat) (z : Bool) (pl : Nat) : St :=
  { s with started := true, count := c, magic := 2, first := base, lastD := last - base, hcount := c, codec := z,
           lenRem := pl, batchEnd := if Variant.fixed = Variant.fixed ∧ c = 0 then base + (last - base) + 1 else s.batchEnd,
           hr := s.hr - 1 }

@[simp] theorem afterH2_out (s : St) (b l : Int) (c : Nat) (z : Bool) (pl : Nat) : (afterH2 s b l c z pl).out = s.out := rfl
@[simp] theorem afterH2_off (s : St) (b l : Int) (c : Nat) (z : Bool) (pl : Nat) : (afterH2 s b l c z pl).off = s.off := rfl
@[simp] theorem afterH2_lastOff (s : St) (b l : Int) (c : Nat) (z : Bool) (pl : Nat) : (afterH2 s b l c z pl).lastOff = s.lastOff := rfl
@[simp] theorem afterH2_started (s : St) (b l : Int) (c : Nat) (z : Bool) (pl : Nat) : (afterH2 s b l c z pl).started = true := rfl
@[simp] theorem afterH2_lenRem (s : St) (b l : Int) (c : Nat) (z : Bool) (pl : Nat) : (afterH2 s b l c z pl).lenRem = pl := rfl
@[simp] theorem afterH2_count (s : St) (b l : Int) (c : Nat) (z : Bool) (pl : Nat) : (afterH2 s b l c z pl).count = c := rfl
@[simp] theorem afterH2_inV1 (s : St) (b l : Int) (c : Nat) (z : Bool) (pl : Nat) : (afterH2 s b l c z pl).inV1 = s.inV1 := rfl
theorem afterH2_be_pos (s : St) (b l : Int) {c : Nat} (z : Bool) (pl : Nat) (h : c ≠ 0) : (afterH2 s b l c z pl).batchEnd = s.batchEnd := by
  simp [afterH2, h]
theorem afterH2_be_zero (s : St) (b l : Int) (z : Bool) (pl : Nat) : (afterH2 s b l 0 z pl).batchEnd = l + 1 := by
  simp [afterH2]; omega

theorem step_h2 {e : Bool} {o nb : Int} {s : St} (hb : Bnd o nb s) (base last : Int) (c : Nat) (z : Bool) (pl : Nat) :
    step .fixed e o s (.h2 base (last - base) c z pl) = .cont (afterH2 s base last c z pl) := by
  simp [step, afterH2, hb.count0, hb.notV1]

theorem mid_afterH2 {o nb base last : Int} {s : St} (hb : Bnd o nb s) (hnb : nb ≤ base) (recs : List (Int × Nat × Nat))
    (hne : recs ≠ []) (z : Bool) (pl : Nat) (hpl : z = false → pl = sumSizes recs) :
    Mid o base last base recs z (afterH2 s base last recs.length z pl) := by
  have hlen : recs.length ≠ 0 := by simpa using hne
  refine ⟨rfl, rfl, rfl, rfl, rfl, hb.notV1, ?_, ?_, ?_, ?_, rfl⟩
  · rw [afterH2_be_pos _ _ _ _ _ hlen]; have := hb.be; omega
  · rw [afterH2_off]; have := hb.offle; omega
  · have := hb.nb0; omega
  · intro h; rw [afterH2_lenRem, hpl h]

theorem bnd_afterH2_empty {o nb base last : Int} {s : St} (hb : Bnd o nb s) (hnb : nb ≤ base) (hbl : base ≤ last) (z : Bool) :
    Bnd o (last + 1) (afterH2 s base last 0 z 0) := by
  refine ⟨rfl, hb.notV1, ?_, ?_, ?_, ?_, ?_, ?_⟩
  · rw [afterH2_be_zero]; omega
  · rw [afterH2_off]; have := hb.offle; omega
  · rw [afterH2_lastOff]; have := hb.lastle; omega
  · have := hb.nb0; omega
  · intro _ _ h
    rw [afterH2_lastOff, afterH2_off] at h
    rw [afterH2_lastOff, afterH2_be_zero]
    have := hb.lastle; omega
  · intro h; simp at h

/-- **Main lemma**: the repaired decoder on any well-formed v2 layout, any byte budget, from any boundary state. -/
theorem v2_run (e : Bool) (o : Int) :
    ∀ (items : List Item) (nb : Int) (s : St) (n : Nat), V2WF nb items → Bnd o nb s →
      PostL o (contained items n) (allRecords items) s (runCut .fixed e o s (allTokens items) n) := by
  intro items
  induction items with
  | nil =>
    intro nb s n _ hb
    have := postL_finish (e := e) (o := o) (lo := nb) (all := []) hb.J hb.init hb.offle hb.be (by simp)
    simpa [allTokens, allRecords, contained, runCut] using this
  | cons it rest ih =>
    intro nb s n hw hb
    cases it with
    | m _ _ _ _ => simp [V2WF] at hw
    | w _ _ _ _ => simp [V2WF] at hw
    | b2 base last codec plen recs =>
      simp only [V2WF] at hw
      obtain ⟨hnb, hbl, hrw, hplain, hcomp, hrestwf⟩ := hw
      have hrest : ∀ r ∈ allRecords rest, last + 1 ≤ r.1 := v2wf_lb hrestwf
      have hall : ∀ r ∈ allRecords (Item.b2 base last codec plen recs :: rest), nb ≤ r.1 := by
        intro r hr
        simp only [allRecords, List.flatMap_cons, List.mem_append] at hr
        rcases hr with hr | hr
        · have := (recsWF_lb hrw r (by simpa [Item.records, absRecs] using hr)).1; omega
        · have := hrest r (by simpa [allRecords] using hr); omega
      have IH := fun (s : St) (n : Nat) (h : Bnd o (last + 1) s) => ih (last + 1) s n hrestwf h
      have hrecs : (Item.b2 base last codec plen recs).records = absRecs base recs := rfl
      have hallrec : allRecords (Item.b2 base last codec plen recs :: rest) = absRecs base recs ++ allRecords rest := by
        simp [allRecords, hrecs]
      by_cases h61 : 61 ≤ n
      · -- the header fits
        have hs1 := step_h2 (e := e) hb base last recs.length codec plen
        cases codec with
        | false =>
          have hpl := hplain rfl
          have htoks : allTokens (Item.b2 base last false plen recs :: rest)
              = Tok.h2 base (last - base) recs.length false plen :: (r2Toks recs ++ allTokens rest) := by
            simp [allTokens, tokensOf, r2Toks]
          have hrun : runCut .fixed e o s (allTokens (Item.b2 base last false plen recs :: rest)) n
              = runCut .fixed e o (afterH2 s base last recs.length false plen) (r2Toks recs ++ allTokens rest) (n - 61) := by
            rw [htoks]; simp [runCut, Tok.size, h61, hs1]
          have hexp : contained (Item.b2 base last false plen recs :: rest) n
              = (if sumSizes recs ≤ n - 61 then absRecs base recs ++ contained rest (n - 61 - sumSizes recs)
                 else fitRecs base recs (n - 61)) := by
            simp only [contained, Item.size, hrecs, hpl, h61, if_true]
            by_cases h2 : sumSizes recs ≤ n - 61
            · have : 61 + sumSizes recs ≤ n := by omega
              have e1 : n - (61 + sumSizes recs) = n - 61 - sumSizes recs := by omega
              simp only [this, h2, if_true, e1]
              rfl
            · have : ¬ 61 + sumSizes recs ≤ n := by omega
              simp only [this, h2, if_false]
          rw [hrun, hexp, hallrec]
          have hp := plain_recs e o base last rest IH hrest recs (afterH2 s base last recs.length false plen) (n - 61) base
            (fun hne => mid_afterH2 hb hnb recs hne false plen (fun _ => hpl))
            (by
              intro hnil
              subst hnil
              have : plen = 0 := by simpa [sumSizes] using hpl
              subst this
              exact bnd_afterH2_empty hb hnb hbl false)
            hrw
          refine ⟨by simpa using hp.out, hp.ok, hp.nogap, ?_⟩
          have h1 := hp.lower
          by_cases hl : recs.length = 0
          · have hbe0 : (afterH2 s base last recs.length false plen).batchEnd = last + 1 := by
              rw [hl]; exact afterH2_be_zero _ _ _ _ _
            rw [hbe0] at h1; have := hb.be; omega
          · rw [afterH2_be_pos _ _ _ _ _ hl] at h1; exact h1
        | true =>
          obtain ⟨hne, hpl1⟩ := hcomp rfl
          have hlen : recs.length ≠ 0 := by simpa using hne
          have htoks : allTokens (Item.b2 base last true plen recs :: rest)
              = Tok.h2 base (last - base) recs.length true plen :: Tok.z2 plen recs :: allTokens rest := by
            simp [allTokens, tokensOf]
          have hmid : Mid o base last base recs true (afterH2 s base last recs.length true plen) :=
            mid_afterH2 hb hnb recs hne true plen (fun h => by cases h)
          by_cases hz : plen ≤ n - 61
          · -- the payload fits: all records are read from the decompressed level
            obtain ⟨hout, hbnd, hmono⟩ := recordsV2_all recs _ base hne hmid hrw
            have hs2 : step .fixed e o (afterH2 s base last recs.length true plen) (.z2 plen recs)
                = .cont (recordsV2 .fixed o (afterH2 s base last recs.length true plen) recs) := by
              simp [step, afterH2, hlen]
            have hrun : runCut .fixed e o s (allTokens (Item.b2 base last true plen recs :: rest)) n
                = runCut .fixed e o (recordsV2 .fixed o (afterH2 s base last recs.length true plen) recs) (allTokens rest) (n - 61 - plen) := by
              rw [htoks]; simp [runCut, Tok.size, h61, hs1, hz, hs2]
            have hfit : 61 + plen ≤ n := by omega
            have e1 : n - (61 + plen) = n - 61 - plen := by omega
            have hexp : contained (Item.b2 base last true plen recs :: rest) n = absRecs base recs ++ contained rest (n - 61 - plen) := by
              simp [contained, Item.size, hrecs, hfit, e1]
            rw [hrun, hexp, hallrec]
            have hp := IH _ (n - 61 - plen) hbnd
            refine ⟨?_, hp.ok, ?_, ?_⟩
            · rw [hp.out, hout]; simp [List.filter_append]
            · intro r hr ho hlt
              simp only [List.mem_append] at hr ⊢
              rcases hr with hr | hr
              · exact Or.inl hr
              · exact Or.inr (hp.nogap r hr ho hlt)
            · have := hp.lower
              rw [afterH2_be_pos _ _ _ _ _ hlen] at hmono
              omega
          · -- the payload is cut: batchRemain > r.remain
            have hrun : runCut .fixed e o s (allTokens (Item.b2 base last true plen recs :: rest)) n
                = finish .fixed e (afterH2 s base last recs.length true plen) := by
              rw [htoks]; simp [runCut, Tok.size, h61, hs1, hz]
            have hexp : contained (Item.b2 base last true plen recs :: rest) n = [] := by
              have : ¬ 61 + plen ≤ n := by omega
              simp [contained, Item.size, this]
            rw [hrun, hexp]
            have hp := postL_finish (e := e) (o := o) (lo := nb) (all := allRecords (Item.b2 base last true plen recs :: rest))
              (s := afterH2 s base last recs.length true plen)
              (by intro _ h0; rw [afterH2_lenRem] at h0; omega)
              (by intro h; simp at h)
              (by rw [afterH2_off]; exact hb.offle)
              (by rw [afterH2_be_pos _ _ _ _ _ hlen]; exact hb.be)
              hall
            refine ⟨by simpa using hp.out, hp.ok, hp.nogap, ?_⟩
            have := hp.lower
            rwa [afterH2_be_pos _ _ _ _ _ hlen] at this
      · -- not even the header fits
        have hrun : runCut .fixed e o s (allTokens (Item.b2 base last codec plen recs :: rest)) n = finish .fixed e s := by
          cases codec <;> simp [allTokens, tokensOf, runCut, Tok.size, h61]
        have hexp : contained (Item.b2 base last codec plen recs :: rest) n = [] := by
          have : ¬ 61 + plen ≤ n := by omega
          cases codec <;> simp [contained, Item.size, this, h61]
        rw [hrun, hexp]
        exact postL_finish hb.J hb.init hb.offle hb.be hall

end KV.C02

namespace KV.C02

def itemsSize : List Item → Nat
  | [] => 0
  | it :: rest => it.size + itemsSize rest

theorem contained_all : ∀ (items : List Item) (n : Nat), itemsSize items ≤ n → contained items n = allRecords items := by
  intro items
  induction items with
  | nil => intro n _; simp [contained, allRecords]
  | cons it rest ih =>
    intro n h
    simp only [itemsSize] at h
    have h1 : it.size ≤ n := by omega
    simp only [contained, h1, if_true, allRecords, List.flatMap_cons]
    rw [ih (n - it.size) (by omega)]
    rfl

/-- the state of a fresh Batch on a Conn positioned at `o ≥ 0` is a boundary state -/
theorem bnd_init {o nb : Int} (ho : 0 ≤ o) (hnb : 0 ≤ nb) : Bnd o nb { off := o } := by
  refine ⟨rfl, rfl, ?_, ?_, ?_, hnb, ?_, ?_⟩ <;> simp <;> omega

end KV.C02
