/-
Lemmas/GroupRound.lean — the invariant of Model/GroupRound.lean (helper lemmas for Props/C14.lean §8).
-/
import KafkaVerif.Model.GroupRound
import KafkaVerif.Lemmas.GroupGlue

namespace KV.GroupRound
open KV.GroupBalancer KV.GroupGlue

/-- the facts about a stored / carried assignment: computed by the round's leader from the round's members and from
what it read of the cluster -/
def FromRound (P : Params) (r : Round) (got : List Part) (A : Assignments) : Prop :=
  A = P.balance r.ms got ∧ ReadsTopics P.cluster (extractTopics r.ms) got

structure Inv (P : Params) (s : St) : Prop where
  gids : ∀ i r, s.rounds[i]? = some r → r.gid = i + 1
  leaderIn : ∀ r ∈ s.rounds, ∃ y ∈ r.ms, y.id = r.leader
  assigning : ∀ m gid ms, s.pc m = .assigning gid ms → ∃ r ∈ s.rounds, r.gid = gid ∧ r.leader = m ∧ r.ms = ms
  carrying : ∀ m gid got A, s.pc m = .syncing gid (some (got, A)) →
    ∃ r ∈ s.rounds, r.gid = gid ∧ r.leader = m ∧ FromRound P r got A
  waiting : ∀ m gid, s.pc m = .syncing gid none → ∃ r ∈ s.rounds, r.gid = gid ∧ ∃ y ∈ r.ms, y.id = m
  stored : ∀ x ∈ s.stored, ∃ r ∈ s.rounds, r.gid = x.gid ∧ r.ms = x.ms ∧ FromRound P r x.got x.asg
  running : ∀ m gid asg, s.pc m = .running gid asg →
    ∃ x, findStored s gid = some x ∧ asg = received P.ρ x.asg m ∧ ∃ r ∈ s.rounds, r.gid = gid ∧ ∃ y ∈ r.ms, y.id = m

theorem setPc_same (s : St) (m : Nat) (p : MPC) : (setPc s m p).pc m = p := by simp [setPc]
theorem setPc_other (s : St) (m x : Nat) (p : MPC) (h : x ≠ m) : (setPc s m p).pc x = s.pc x := by simp [setPc, h]
theorem setPc_rounds (s : St) (m : Nat) (p : MPC) : (setPc s m p).rounds = s.rounds := rfl
theorem setPc_stored (s : St) (m : Nat) (p : MPC) : (setPc s m p).stored = s.stored := rfl

/-- changing one member's pc to `p`: every pc-indexed invariant clause needs checking for `m` only -/
theorem inv_setPc (P : Params) (s : St) (m : Nat) (p : MPC) (h : Inv P s)
    (h1 : ∀ gid ms, p = .assigning gid ms → ∃ r ∈ s.rounds, r.gid = gid ∧ r.leader = m ∧ r.ms = ms)
    (h2 : ∀ gid got A, p = .syncing gid (some (got, A)) → ∃ r ∈ s.rounds, r.gid = gid ∧ r.leader = m ∧ FromRound P r got A)
    (h3 : ∀ gid, p = .syncing gid none → ∃ r ∈ s.rounds, r.gid = gid ∧ ∃ y ∈ r.ms, y.id = m)
    (h4 : ∀ gid asg, p = .running gid asg →
      ∃ x, findStored s gid = some x ∧ asg = received P.ρ x.asg m ∧ ∃ r ∈ s.rounds, r.gid = gid ∧ ∃ y ∈ r.ms, y.id = m) :
    Inv P (setPc s m p) := by
  refine ⟨h.gids, h.leaderIn, ?_, ?_, ?_, h.stored, ?_⟩
  · intro x gid ms hx
    by_cases e : x = m
    · subst e; rw [setPc_same] at hx; exact h1 gid ms hx
    · rw [setPc_other _ _ _ _ e] at hx; exact h.assigning x gid ms hx
  · intro x gid got A hx
    by_cases e : x = m
    · subst e; rw [setPc_same] at hx; exact h2 gid got A hx
    · rw [setPc_other _ _ _ _ e] at hx; exact h.carrying x gid got A hx
  · intro x gid hx
    by_cases e : x = m
    · subst e; rw [setPc_same] at hx; exact h3 gid hx
    · rw [setPc_other _ _ _ _ e] at hx; exact h.waiting x gid hx
  · intro x gid asg hx
    by_cases e : x = m
    · subst e; rw [setPc_same] at hx; exact h4 gid asg hx
    · rw [setPc_other _ _ _ _ e] at hx; exact h.running x gid asg hx

theorem findStored_append (s : St) (x : Stored) (gid : Nat) (y : Stored) (h : findStored s gid = some y) :
    findStored { s with stored := s.stored ++ [x] } gid = some y := by
  unfold findStored at *
  simp only
  rw [List.find?_append, h]; rfl

theorem inv_step (P : Params) (s s' : St) (e : Ev) (h : Inv P s) (hs : Step P s e s') : Inv P s' := by
  cases hs with
  | newRound ms leader hl =>
    have mono : ∀ r, r ∈ s.rounds → r ∈ s.rounds ++ [⟨nextGid s, ms, leader⟩] := fun r hr => List.mem_append_left _ hr
    refine ⟨?_, ?_, ?_, ?_, ?_, ?_, ?_⟩
    · intro i r hi
      by_cases hlt : i < s.rounds.length
      · rw [List.getElem?_append_left hlt] at hi; exact h.gids i r hi
      · have hge : s.rounds.length ≤ i := by omega
        rw [List.getElem?_append_right hge] at hi
        cases hd : i - s.rounds.length with
        | zero => rw [hd] at hi; simp at hi; subst hi; simp [nextGid]; omega
        | succ k => rw [hd] at hi; simp at hi
    · intro r hr
      rcases List.mem_append.mp hr with hr | hr
      · exact h.leaderIn r hr
      · simp at hr; subst hr; exact hl
    · intro m gid ms' hp; obtain ⟨r, hr, hh⟩ := h.assigning m gid ms' hp; exact ⟨r, mono r hr, hh⟩
    · intro m gid got A hp; obtain ⟨r, hr, hh⟩ := h.carrying m gid got A hp; exact ⟨r, mono r hr, hh⟩
    · intro m gid hp; obtain ⟨r, hr, hh⟩ := h.waiting m gid hp; exact ⟨r, mono r hr, hh⟩
    · intro x hx; obtain ⟨r, hr, hh⟩ := h.stored x hx; exact ⟨r, mono r hr, hh⟩
    · intro m gid asg hp
      obtain ⟨x, hx, ha, r, hr, hh⟩ := h.running m gid asg hp
      exact ⟨x, hx, ha, r, mono r hr, hh⟩
  | joinOk m gid r hr hg hm hp =>
    apply inv_setPc P s m _ h
    · intro gid' ms' hp'
      split at hp'
      · rename_i hl; injection hp' with e1 e2; exact ⟨r, hr, by rw [hg, e1], hl, e2⟩
      · cases hp'
    · intro gid' got A hp'; split at hp' <;> cases hp'
    · intro gid' hp'
      split at hp'
      · cases hp'
      · injection hp' with e1 _; exact ⟨r, hr, by rw [hg, e1], hm⟩
    · intro gid' asg hp'; split at hp' <;> cases hp'
  | assign m gid ms got hp hread =>
    obtain ⟨r, hr, hg, hl, hms⟩ := h.assigning m gid ms hp
    apply inv_setPc P s m _ h
    · intro _ _ hp'; cases hp'
    · intro gid' got' A hp'
      injection hp' with e1 e2
      injection e2 with e2
      injection e2 with e3 e4
      subst e1 e3 e4
      exact ⟨r, hr, hg, hl, by rw [hms], by rw [hms]; exact hread⟩
    · intro _ hp'; cases hp'
    · intro _ _ hp'; cases hp'
  | syncLeader m gid ms got A hp hr hcur hnone =>
    obtain ⟨r, hr', hg, hl, hfrom⟩ := h.carrying m gid got A hp
    obtain ⟨r2, hr2, hg2, hl2, hms2⟩ := hr
    -- the round of `gid` is unique
    have huniq : r2 = r := by
      obtain ⟨i, hi⟩ := List.getElem?_of_mem hr'
      obtain ⟨j, hj⟩ := List.getElem?_of_mem hr2
      have := h.gids i r hi; have := h.gids j r2 hj
      have : i = j := by omega
      subst this; rw [hi] at hj; injection hj with hj; exact hj.symm
    subst huniq
    have hfind : findStored { s with stored := s.stored ++ [⟨gid, ms, got, A⟩] } gid = some ⟨gid, ms, got, A⟩ := by
      unfold findStored at *
      simp only
      rw [List.find?_append, hnone]; simp
    have base : Inv P { s with stored := s.stored ++ [⟨gid, ms, got, A⟩] } := by
      refine ⟨h.gids, h.leaderIn, h.assigning, h.carrying, h.waiting, ?_, ?_⟩
      · intro x hx
        rcases List.mem_append.mp hx with hx | hx
        · exact h.stored x hx
        · simp at hx; subst hx; exact ⟨r2, hr2, hg2, hms2, hfrom⟩
      · intro x gid' asg hp'
        obtain ⟨y, hy, ha, rest⟩ := h.running x gid' asg hp'
        exact ⟨y, findStored_append s _ gid' y hy, ha, rest⟩
    apply inv_setPc P _ m _ base
    · intro _ _ hp'; cases hp'
    · intro _ _ _ hp'; cases hp'
    · intro _ hp'; cases hp'
    · intro gid' asg hp'
      injection hp' with e1 e2
      subst e1 e2
      obtain ⟨y, hy, hyl⟩ := h.leaderIn r2 hr2
      exact ⟨_, hfind, rfl, r2, hr2, hg2, y, hy, by rw [hyl, hl2]⟩
  | syncMember m gid x hp hcur hx =>
    obtain ⟨r, hr, hg, hm⟩ := h.waiting m gid hp
    apply inv_setPc P s m _ h
    · intro _ _ hp'; cases hp'
    · intro _ _ _ hp'; cases hp'
    · intro _ hp'; cases hp'
    · intro gid' asg hp'
      injection hp' with e1 e2
      subst e1 e2
      exact ⟨x, hx, rfl, r, hr, hg, hm⟩
  | rejoin m =>
    apply inv_setPc P s m _ h
    · intro _ _ hp'; cases hp'
    · intro _ _ _ hp'; cases hp'
    · intro _ hp'; cases hp'
    · intro _ _ hp'; cases hp'

theorem inv_reachable (P : Params) (s : St) (h : Reachable P s) : Inv P s := by
  induction h with
  | init =>
    refine ⟨by intro i r hi; simp at hi, by intro r hr; simp at hr, ?_, ?_, ?_, by intro x hx; simp at hx, ?_⟩ <;>
      (intros; rename_i hp; cases hp)
  | step s s' e _ hs ih => exact inv_step P s s' e ih hs


section More
open KV.Spec.GroupAssign

theorem round_unique (P : Params) (s : St) (h : Inv P s) (r r' : Round) (hr : r ∈ s.rounds) (hr' : r' ∈ s.rounds)
    (hg : r.gid = r'.gid) : r = r' := by
  obtain ⟨i, hi⟩ := List.getElem?_of_mem hr
  obtain ⟨j, hj⟩ := List.getElem?_of_mem hr'
  have := h.gids i r hi; have := h.gids j r' hj
  have : i = j := by omega
  subst this; rw [hi] at hj; injection hj

theorem findStored_some (s : St) (gid : Nat) (x : Stored) (h : findStored s gid = some x) : x ∈ s.stored ∧ x.gid = gid := by
  unfold findStored at h
  exact ⟨List.mem_of_find?_eq_some h, by simpa using List.find?_some h⟩

/-- every running generation holds its own part of the ONE assignment the leader of its generation id computed from
that generation's members and from the cluster's partitions of the subscribed topics -/
theorem running_from_round (P : Params) (s : St) (h : Reachable P s) (m gid : Nat) (asg : TopicMap)
    (hp : s.pc m = .running gid asg) :
    ∃ r ∈ s.rounds, ∃ x, r.gid = gid ∧ (∃ y ∈ r.ms, y.id = m) ∧ findStored s gid = some x ∧
      x.asg = P.balance r.ms x.got ∧ ReadsTopics P.cluster (extractTopics r.ms) x.got ∧
      asg = received P.ρ x.asg m := by
  have inv := inv_reachable P s h
  obtain ⟨x, hx, ha, r, hr, hg, hm⟩ := inv.running m gid asg hp
  obtain ⟨hxs, hxg⟩ := findStored_some s gid x hx
  obtain ⟨r', hr', hg', _, hfrom⟩ := inv.stored x hxs
  have : r' = r := round_unique P s inv r' r hr' hr (by rw [hg', hxg, hg])
  subst this
  exact ⟨r', hr', x, hg, hm, hx, hfrom.1, hfrom.2, ha⟩

theorem firstListings_nodup : ∀ (l pre : List Nat), (firstListings pre l).Nodup
  | [], _ => by simp [firstListings]
  | y :: ys, pre => by
    have ih := firstListings_nodup ys (pre ++ [y])
    unfold firstListings
    split
    · exact ih
    · refine List.nodup_cons.mpr ⟨?_, ih⟩
      intro hm
      have := (mem_firstListings y ys (pre ++ [y])).mp hm
      exact this.2 (by simp)

theorem insertNat_perm (x : Nat) : ∀ (l : List Nat), (insertNat x l).Perm (x :: l)
  | [] => List.Perm.refl _
  | y :: ys => by
    unfold insertNat
    split
    · exact List.Perm.refl _
    · exact (List.Perm.cons y (insertNat_perm x ys)).trans (List.Perm.swap x y ys)

theorem sortNat_perm : ∀ (l : List Nat), (sortNat l).Perm l
  | [] => List.Perm.refl _
  | x :: xs => (insertNat_perm x _).trans (List.Perm.cons x (sortNat_perm xs))

theorem extractTopics_nodup (ms : List Member) : (extractTopics ms).Nodup :=
  (sortNat_perm _).nodup_iff.mpr (firstListings_nodup _ [])


/-! ### the executable acceptor is sound -/

theorem ledIn_nil_of_zone (ps : List Part) (t z : Nat) (h : ¬ z ∈ ps.map (·.zone)) : ledIn ps t z = [] := by
  unfold ledIn
  rw [List.map_eq_nil_iff, List.filter_eq_nil_iff]
  intro p hp
  simp
  intro _ hz
  exact h (List.mem_map.mpr ⟨p, hp, hz⟩)

theorem readsTopicsB_sound (cluster : List Part) (topics : List Nat) (got : List Part)
    (h : readsTopicsB cluster topics got = true) : ReadsTopics cluster topics got := by
  intro t ht
  simp only [readsTopicsB, List.all_eq_true, Bool.and_eq_true, decide_eq_true_eq] at h
  obtain ⟨h1, h2⟩ := h t ht
  refine ⟨h1, fun z => ?_⟩
  by_cases hz : z ∈ (got ++ cluster).map (·.zone)
  · exact h2 z hz
  · have hg : ¬ z ∈ got.map (·.zone) := fun hm => hz (by simp at hm ⊢; obtain ⟨p, hp, e⟩ := hm; exact Or.inl ⟨p, hp, e⟩)
    have hc : ¬ z ∈ cluster.map (·.zone) := fun hm => hz (by simp at hm ⊢; obtain ⟨p, hp, e⟩ := hm; exact Or.inr ⟨p, hp, e⟩)
    rw [ledIn_nil_of_zone got t z hg, ledIn_nil_of_zone cluster t z hc]

theorem stepB_sound (P : Params) (s s' : St) (e : Ev) (h : stepB P s e = some s') : Step P s e s' := by
  cases e with
  | newRound ms leader =>
    simp only [stepB] at h
    split at h
    · rename_i hl
      injection h with h; subst h
      have : ∃ m ∈ ms, m.id = leader := by
        obtain ⟨m, hm, he⟩ := List.any_eq_true.mp hl
        exact ⟨m, hm, by simpa using he⟩
      exact Step.newRound s ms leader this
    · cases h
  | joinOk m gid =>
    simp only [stepB] at h
    split at h
    · rename_i r hr
      split at h
      · rename_i hc
        injection h with h; subst h
        simp only [Bool.and_eq_true] at hc
        have hm : ∃ x ∈ r.ms, x.id = m := by
          obtain ⟨x, hx, he⟩ := List.any_eq_true.mp hc.1
          exact ⟨x, hx, by simpa using he⟩
        have hp : s.pc m = .joining := by
          cases hpc : s.pc m <;> simp [hpc, isJoining] at hc ⊢
        exact Step.joinOk s m gid r (List.mem_of_find?_eq_some hr) (by simpa using List.find?_some hr) hm hp
      · cases h
    · cases h
  | assign m got =>
    simp only [stepB] at h
    split at h
    · rename_i gid ms hp
      split at h
      · rename_i hr
        injection h with h; subst h
        exact Step.assign s m gid ms got hp (readsTopicsB_sound _ _ _ hr)
      · cases h
    · cases h
  | syncLeader m =>
    simp only [stepB] at h
    split at h
    · rename_i gid got A hp
      split at h
      · rename_i r hr
        split at h
        · rename_i hc
          injection h with h; subst h
          simp only [Bool.and_eq_true, beq_iff_eq] at hc
          have hr' := List.find?_some hr
          simp only [Bool.and_eq_true, beq_iff_eq] at hr'
          exact Step.syncLeader s m gid r.ms got A hp ⟨r, List.mem_of_find?_eq_some hr, hr'.1, hr'.2, rfl⟩ hc.1
            (by simpa using hc.2)
        · cases h
      · cases h
    · cases h
  | syncMember m =>
    simp only [stepB] at h
    split at h
    · rename_i gid hp
      split at h
      · rename_i x hx
        split at h
        · rename_i hc
          injection h with h; subst h
          exact Step.syncMember s m gid x hp (by simpa using hc) hx
        · cases h
      · cases h
    · cases h
  | rejoin m =>
    simp only [stepB] at h
    injection h with h; subst h
    exact Step.rejoin s m

/-- every accepted trace ends in a reachable state of the model -/
theorem runB_reachable (P : Params) : ∀ (es : List Ev) (s s' : St) (k : Nat), Reachable P s → runB P s es k = .ok s' → Reachable P s'
  | [], s, s', _, hs, h => by simp [runB] at h; subst h; exact hs
  | e :: es, s, s', k, hs, h => by
    simp only [runB] at h
    split at h
    · rename_i s1 h1
      exact runB_reachable P es s1 s' (k + 1) (Reachable.step s s1 e hs (stepB_sound P s s1 e h1)) h
    · cases h
end More

end KV.GroupRound
