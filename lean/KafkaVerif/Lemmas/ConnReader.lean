/-
Lemmas/ConnReader.lean — on every valid (Spec-encoded) complete message set the byte-level Conn reader model returns
the reference decoder's records EXACTLY (null and empty keys / values / header values are told apart since fix 4db07b4;
before it the statement held only up to `loosenRec`, null ≈ empty).
-/
import KafkaVerif.Model.ConnReader
import KafkaVerif.Lemmas.RecordReader

namespace KV.Model.ConnReader
open KV KV.RW KV.Spec.RB KV.Model.RecordReader

@[simp] theorem connCodecOf_eq (a : Int) : connCodecOf a = codecOf a := by
  simp only [connCodecOf, codecOf, Gen.RecordConsts.legacyCompressionMask]; rfl

theorem connVarBytes_varbytes (b : Option Bytes) (r : Bytes) :
    connVarBytes (varbytes b ++ r) = some (b, r) := by
  cases b with
  | none => simp [varbytes, connVarBytes, readVarint_varint]
  | some b =>
    simp only [varbytes, connVarBytes, List.append_assoc, readVarint_varint]
    have h2 : ¬ ((b.length : Int) < 0) := by omega
    simp [h2, takeN_append]

theorem connHeaderRec_encHdr (h : Hdr) (r : Bytes) : connHeaderRec (encHdr h ++ r) = some (h, r) := by
  rw [show encHdr h ++ r = varbytes (some h.key) ++ (varbytes h.value ++ r) from by simp [encHdr, varbytes]]
  simp only [connHeaderRec, connVarBytes_varbytes, Option.getD_some]

theorem connHeaders_encHdrs (hs : List Hdr) (r : Bytes) :
    connHeaders hs.length (encHdrs hs ++ r) = some (hs, r) := by
  induction hs with
  | nil => simp [connHeaders, encHdrs]
  | cons h hs ih => simp [connHeaders, encHdrs, List.append_assoc, connHeaderRec_encHdr, ih]

theorem connRecordV2_encRec (base first : Int) (x : RecV2) (r : Bytes) :
    connRecordV2 base first (encRec x ++ r) =
      some (⟨base + x.offDelta, first + x.tsDelta, x.key, x.value, x.headers⟩, r) := by
  simp only [encRec, recBody, connRecordV2, List.append_assoc, List.cons_append, readVarint_varint, connVarBytes_varbytes]
  cases hh : x.headers with
  | nil => simp [encHdrs]
  | cons h hs =>
    have hpos : ((h :: hs).length : Int) > 0 := by simp only [List.length_cons]; omega
    have := connHeaders_encHdrs (h :: hs) r
    simp only [hpos, if_true]
    simp only [List.length_cons] at this
    simp [this]

theorem connRecordsV2_encRecs (f : FrameV2) (xs : List RecV2) (r : Bytes) :
    connRecordsV2 f.baseOffset f.firstTs xs.length (encRecs xs ++ r) = some (xs.map (recOfV2c f), r) := by
  induction xs with
  | nil => simp [connRecordsV2, encRecs]
  | cons x xs ih =>
    simp only [List.length_cons, connRecordsV2, encRecs, List.append_assoc, connRecordV2_encRec, ih, List.map_cons]
    simp [recOfV2c]

/-- the masks message_reader.go tests are the timestamp-type bit of the Spec (breaks when the test disappears) -/
@[simp] theorem connLogAppendV2_eq (a : Int) : connLogAppendV2 a = logAppend a := by
  simp [connLogAppendV2, connMaskTest, Gen.RecordConsts.legacyStampMasksV2, logAppend]
@[simp] theorem connLogAppendV1_eq (a : Int) : connLogAppendV1 a = logAppend a := by
  simp [connLogAppendV1, connMaskTest, Gen.RecordConsts.legacyStampMasksV1, logAppend]

@[simp] theorem connIsControl_eq (a : Int) : connIsControl a = isControl a := by
  simp [connIsControl, connMaskTest, Gen.RecordConsts.legacyHeaderMasks, isControl]

theorem connStampV2_spec (f : FrameV2) (xs : List RecV2) (r : Bytes) :
    connStampV2 f.attributes f.maxTs (some (xs.map (recOfV2c f), r)) = some (xs.map (recOfV2 f), r) := by
  simp [connStampV2, List.map_map, Function.comp_def, recOfV2]

/-- the header fields after the CRC, followed by anything: the "payload" is everything that follows -/
theorem readFrameBody_append (f : FrameV2) (h : f.WF) (rest : Bytes) :
    readFrameBody f.baseOffset f.leaderEpoch (frameBody f ++ rest) = some { f with payload := f.payload ++ rest } := by
  obtain ⟨_, _, h3, h4, h5, h6, h7, h8, h9, h10, _⟩ := h
  simp [frameBody, readFrameBody, readI16_i16 _ _ h3, readI32_i32 _ _ h4, readI64_i64 _ _ h5, readI64_i64 _ _ h6,
    readI64_i64 _ _ h7, readI16_i16 _ _ h8, readI32_i32 _ _ h9, readI32_i32 _ _ h10]

theorem connBatchV2_encFrame (crc : Bytes → Nat) (hcrc : ∀ b, crc b < M32) (dec : Int → Bytes → Option Bytes)
    (f : FrameV2) (xs : List RecV2) (h : GoodBatch dec f xs) (rest : Bytes) :
    connBatchV2 dec (encFrame crc f ++ rest) = some (if isControl f.attributes then [] else xs.map (recOfV2 f), rest) := by
  have hw := h.wf
  obtain ⟨h1, h2, _, _, _, _, _, _, _, _, h11⟩ := h.wf
  have hlen : InRange M32 ((9 + (frameBody f).length : Nat) : Int) := by
    rw [frameBody_length]; unfold InRange M32 at *; omega
  have hm : InRange M8 2 := by unfold InRange M8; omega
  have hcnt : ¬ f.count < 0 := by rw [h.count]; omega
  simp only [encFrame, connBatchV2, List.append_assoc, readI64_i64 _ _ h1, readI32_i32 _ _ hlen, readI32_i32 _ _ h2,
    readI8_i8 _ _ hm, readU32_u32 _ _ (hcrc _), readFrameBody_append f hw rest, connCodecOf_eq, connIsControl_eq, hcnt,
    if_false, h.count]
  have hbr0 : ((9 + (frameBody f).length : Nat) : Int) - 49 = (f.payload.length : Int) := by
    rw [frameBody_length]; omega
  by_cases hctl : isControl f.attributes = true
  · simp only [hctl, if_true, hbr0, Int.toNat_natCast, takeN_append]
    by_cases hp0 : (f.payload.length : Int) > 0
    · simp only [hp0, if_true]
    · have : f.payload = [] := by
        cases hpl : f.payload with
        | nil => rfl
        | cons _ _ => rw [hpl] at hp0; simp at hp0
      simp [this]
  have hctl' : isControl f.attributes = false := by simpa using hctl
  simp only [hctl', Bool.false_eq_true, if_false]
  by_cases hc : codecOf f.attributes = 0
  · have hp : f.payload = encRecs xs := by
      have := h.payload; simp only [hc, if_true, Option.some.injEq] at this; exact this
    have hx : ¬ ((xs.length : Int) < 0) := by omega
    simp only [hc, if_true, hp, Int.toNat_natCast, connRecordsV2_encRecs, hx, if_false, connStampV2_spec]
  · have hp : dec (codecOf f.attributes) f.payload = some (encRecs xs) := by
      have := h.payload; simp only [hc, if_false] at this; exact this
    have hbr : ((9 + (frameBody f).length : Nat) : Int) - 49 = (f.payload.length : Int) := by
      rw [frameBody_length]; omega
    have hnn : ¬ ((f.payload.length : Int) < 0) := by omega
    have hr := connRecordsV2_encRecs f xs []
    simp only [List.append_nil] at hr
    have hx : ¬ ((xs.length : Int) < 0) := by omega
    simp only [hc, if_false, hbr, hnn, Int.toNat_natCast, takeN_append, hp, hr, hx, connStampV2_spec]

theorem connBytes_nbytes (b : Option Bytes) (r : Bytes) (h : 2 * optLen b < M32) :
    connBytes (nbytes b ++ r) = some (b, r) := by
  cases b with
  | none =>
    have : InRange M32 (-1) := by unfold InRange M32; omega
    simp [nbytes, connBytes, readI32_i32 _ _ this]
  | some b =>
    have hr : InRange M32 (b.length : Int) := by unfold InRange; simp [optLen] at h; omega
    simp only [nbytes, connBytes, List.append_assoc, readI32_i32 _ _ hr]
    have h2 : ¬ ((b.length : Int) < 0) := by omega
    simp [h2, takeN_append]

theorem connHeaderV1_encMsg (crc : Bytes → Nat) (hcrc : ∀ b, crc b < M32) (m : Msg) (h : m.WF) (rest : Bytes) :
    connHeaderV1 (encMsg crc m ++ rest) =
      some ((m.offset, m.magic, m.attributes, m.ts), nbytes m.key ++ (nbytes m.value ++ rest)) := by
  have hbl := msgBody_length m h
  obtain ⟨h1, hmg, ha, ht, hz, hl⟩ := h
  have hb : (msgBody m).length ≤ 18 + optLen m.key + optLen m.value := by
    rw [hbl]; split <;> split <;> split <;> omega
  have hlen : InRange M32 ((4 + (msgBody m).length : Nat) : Int) := by unfold InRange M32 at *; omega
  have hm0 : InRange M8 0 := by unfold InRange M8; omega
  have hm1 : InRange M8 1 := by unfold InRange M8; omega
  simp only [encMsg, connHeaderV1, List.append_assoc, readI64_i64 _ _ h1, readI32_i32 _ _ hlen, readU32_u32 _ _ (hcrc _)]
  rcases hmg with h0 | h1'
  · have hts := hz h0
    simp only [msgBody, h0, if_true, List.append_assoc, List.nil_append, readI8_i8 _ _ hm0, readI8_i8 _ _ ha, hts]
  · have hne : ¬ ((1 : Int) = 0) := by decide
    simp only [msgBody, h1', hne, if_false, if_true, List.append_assoc, readI8_i8 _ _ hm1, readI8_i8 _ _ ha,
      readI64_i64 _ _ ht]

theorem connPlainV1_spec (m : Msg) (h : m.WF) (rest : Bytes) :
    connPlainV1 m.offset m.ts (nbytes m.key ++ (nbytes m.value ++ rest)) = some (recOfMsg m, rest) := by
  have hk : 2 * optLen m.key < M32 := by have := h.2.2.2.2.2; omega
  have hv : 2 * optLen m.value < M32 := by have := h.2.2.2.2.2; omega
  simp [connPlainV1, connBytes_nbytes _ _ hk, connBytes_nbytes _ _ hv, recOfMsg]

theorem connInner_encSet (c : Crcs) (h1 : ∀ b, c.ieee b < M32) (inner : List Msg) (hwf : ∀ x ∈ inner, x.WF)
    (fuel : Nat) (hf : inner.length ≤ fuel) :
    connInner fuel (encSet c (inner.map Entry.msg)) = some (inner.map recOfMsg) := by
  induction inner generalizing fuel with
  | nil => cases fuel <;> simp [connInner, encSet]
  | cons m ms ih =>
    cases fuel with
    | zero => simp at hf
    | succ fuel =>
      rw [encSet_msgs_cons]
      have hw := hwf m (by simp)
      cases hbs : encMsg c.ieee m ++ encSet c (ms.map Entry.msg) with
      | nil =>
        have := congrArg List.length hbs
        simp [encMsg] at this
      | cons x xs =>
        simp only [connInner]
        rw [← hbs, connHeaderV1_encMsg c.ieee h1 m hw]
        simp only
        rw [connPlainV1_spec m hw]
        simp only
        rw [ih (fun x hx => hwf x (by simp [hx])) fuel (by simp only [List.length_cons] at hf; omega)]
        simp

theorem lastOffsetOf_map (inner : List Msg) :
    lastOffsetOf (inner.map recOfMsg) = lastOffset inner := by
  induction inner with
  | nil => rfl
  | cons a t ih =>
    cases t with
    | nil => simp [lastOffsetOf, lastOffset, recOfMsg]
    | cons b t' => simp only [List.map_cons, lastOffsetOf, lastOffset] at ih ⊢; exact ih

theorem connMessageV1_plain (crc : Bytes → Nat) (hcrc : ∀ b, crc b < M32) (dec : Int → Bytes → Option Bytes)
    (m : Msg) (h : m.WF) (hc : codecOf m.attributes = 0) (rest : Bytes) :
    connMessageV1 dec (encMsg crc m ++ rest) = some ([recOfMsg m], rest) := by
  simp only [connMessageV1, connHeaderV1_encMsg crc hcrc m h rest, connCodecOf_eq, hc, if_true, connPlainV1_spec m h rest]

theorem connMessageV1_wrapper (c : Crcs) (h1 : ∀ b, c.ieee b < M32) (dec : Int → Bytes → Option Bytes)
    (m : Msg) (inner : List Msg) (h : GoodWrapper c dec m inner) (rest : Bytes) :
    connMessageV1 dec (encMsg c.ieee m ++ rest) = some (wrapperRecs m inner, rest) := by
  obtain ⟨v, hv, hd⟩ := h.value
  have hvl : 2 * optLen m.value < M32 := by have := h.wf.2.2.2.2.2; omega
  have hkl : 2 * optLen m.key < M32 := by have := h.wf.2.2.2.2.2; omega
  have hvr : InRange M32 (v.length : Int) := by unfold InRange; simp [hv, optLen] at hvl; omega
  have hin := connInner_encSet c h1 inner (fun x hx => (h.innerWF x hx).1) (encSet c (inner.map Entry.msg)).length
    (by have := encSet_length_ge c (inner.map Entry.msg); simpa using this)
  have hnn : ¬ ((v.length : Int) < 0) := by omega
  simp only [connMessageV1, connHeaderV1_encMsg c.ieee h1 m h.wf rest, connCodecOf_eq, h.codec, if_false,
    connBytes_nbytes m.key _ hkl]
  simp only [hv, nbytes, List.append_assoc]
  have hon : (decide (m.magic = 1) && logAppend m.attributes) = logAppend m.attributes := by simp [h.magic]
  simp only [readI32_i32 _ _ hvr, hnn, if_false, Int.toNat_natCast, takeN_append, hd, hin, lastOffsetOf_map,
    wrapperRecs, List.map_map, connLogAppendV1_eq, hon]
  congr 2
  apply List.map_congr_left
  intro x _
  simp only [Function.comp]
  congr 1
  simp only [recOfMsg, Rec.mk.injEq, and_true, true_and]
  omega

/-- what the Conn path surfaces of a decoded entry: nothing of a control batch -/
def visible (g : Bool × List Rec) : List Rec := if g.1 then [] else g.2

theorem flatMap_visible (gs : List (Bool × List Rec)) : gs.flatMap visible = surfaced gs := by
  induction gs with
  | nil => rfl
  | cons g gs ih =>
    simp only [surfaced, List.flatMap_cons, visible] at ih ⊢
    cases hg : g.1 <;> simp [List.filter_cons, hg, ih]

theorem connStep_entry (c : Crcs) (h1 : ∀ b, c.ieee b < M32) (h2 : ∀ b, c.castagnoli b < M32)
    (dec : Int → Bytes → Option Bytes) (e : Entry) (g : Bool × List Rec) (hg : GoodEntry c dec e g)
    (rest : Bytes) (fuel : Nat) :
    connReadSet dec (fuel + 1) (encEntry c e ++ rest) =
      (connReadSet dec fuel rest).map (fun t => visible g ++ t) := by
  cases hbs : encEntry c e ++ rest with
  | nil =>
    have := encEntry_length_ge17 c e
    have hl := congrArg List.length hbs
    rw [List.length_append, List.length_nil] at hl; omega
  | cons x xs =>
    have hdef : connReadSet dec (fuel + 1) (x :: xs) =
        (match ((x :: xs)[16]? : Option UInt8) with
          | none => none
          | some magic =>
            match (if magic = 2 then connBatchV2 dec (x :: xs) else connMessageV1 dec (x :: xs)) with
            | none => none
            | some (rs, rest) =>
              match connReadSet dec fuel rest with
              | none => none
              | some rs' => some (rs ++ rs')) := rfl
    rw [hdef, ← hbs]
    cases hg with
    | batch f xs' hb =>
      have hm := magicOf_encFrame c.castagnoli f rest
      simp only [magicOf] at hm
      simp only [encEntry, hm, if_true, connBatchV2_encFrame c.castagnoli h2 dec f xs' hb rest, visible]
      cases connReadSet dec fuel rest <;> rfl
    | msg m hw hc =>
      obtain ⟨b, hb, hne⟩ := magicOf_encMsg c.ieee m rest hw.2.1
      simp only [magicOf] at hb
      simp only [encEntry, hb, hne, if_false, connMessageV1_plain c.ieee h1 dec m hw hc rest]
      cases connReadSet dec fuel rest <;> rfl
    | wrapper m inner hw =>
      obtain ⟨b, hb, hne⟩ := magicOf_encMsg c.ieee m rest hw.wf.2.1
      simp only [magicOf] at hb
      simp only [encEntry, hb, hne, if_false, connMessageV1_wrapper c h1 dec m inner hw rest]
      cases connReadSet dec fuel rest <;> rfl

theorem connReadSet_encSet (c : Crcs) (h1 : ∀ b, c.ieee b < M32) (h2 : ∀ b, c.castagnoli b < M32)
    (dec : Int → Bytes → Option Bytes) (es : List Entry) (gs : List (Bool × List Rec)) (h : AllGood c dec es gs)
    (fuel : Nat) (hf : es.length ≤ fuel) :
    connReadSet dec fuel (encSet c es) = some (surfaced gs) := by
  rw [← flatMap_visible]
  induction h generalizing fuel with
  | nil => cases fuel <;> simp [connReadSet, encSet]
  | cons hg _ ih =>
    cases fuel with
    | zero => simp at hf
    | succ fuel =>
      simp only [encSet]
      rw [connStep_entry c h1 h2 dec _ _ hg]
      rw [ih fuel (by simp only [List.length_cons] at hf; omega)]
      simp

end KV.Model.ConnReader
