/-
Lemmas/WriterCompl.lean — Completion-callback accounting (InvCompl) and the journal of produce attempts with the
number of copies in the log (InvJournal) for the Writer LTS (C01 `completion_once`, `dups_only_after_lost_ack`).
-/
import KafkaVerif.Lemmas.WriterPlace

namespace KV.Writer

/-! ## Completion callback accounting -/

structure InvCompl (cfg : Cfg) (s : State) : Prop where
  complZero : ∀ b B, s.batches b = some B → B.done = none →
    (∀ P, s.pws B.pw = some P → ∀ code, P.sender ≠ .finishing b code true) → B.ncompl = 0
  complOne : ∀ pw P, s.pws pw = some P → ∀ b code, P.sender = .finishing b code true → ∀ B, s.batches b = some B →
    B.ncompl = 1 ∧ B.cbCode = some code
  complDone : ∀ b B code, s.batches b = some B → B.done = some code →
    (cfg.completion = true → B.ncompl = 1 ∧ B.cbCode = some code) ∧ (cfg.completion = false → B.ncompl = 0)

theorem invCompl_init (cfg : Cfg) : InvCompl cfg State.init := by
  constructor <;> simp [State.init]

theorem InvCompl.of_frame {cfg : Cfg} {s s' : State} (h : InvCompl cfg s)
    (hpws : ∀ pw P', s'.pws pw = some P' → (∀ b code, P'.sender ≠ .finishing b code true) ∨
      ∃ P, s.pws pw = some P ∧ P'.sender = P.sender)
    (hpws' : ∀ pw P, s.pws pw = some P → ∀ b code, P.sender = .finishing b code true →
      ∃ P', s'.pws pw = some P' ∧ P'.sender = .finishing b code true)
    (hbat : ∀ b B', s'.batches b = some B' →
      (B'.ncompl = 0 ∧ B'.done = none ∧ ∀ pw P', s'.pws pw = some P' → P'.sender.batch? ≠ some b) ∨
      ∃ B, s.batches b = some B ∧ B'.pw = B.pw ∧ B'.done = B.done ∧ B'.ncompl = B.ncompl ∧ B'.cbCode = B.cbCode) :
    InvCompl cfg s' := by
  constructor
  · intro b B' hB' hd hprem
    rcases hbat b B' hB' with ⟨h0, -, -⟩ | ⟨B, hB, hpw, hd', hn, -⟩
    · exact h0
    · rw [hn]
      refine h.complZero b B hB (hd' ▸ hd) ?_
      intro P hP code hsend
      obtain ⟨P', hP', hs'⟩ := hpws' _ P hP b code hsend
      exact hprem P' (hpw ▸ hP') code hs'
  · intro pw P' hP' b code hsend B' hB'
    rcases hpws pw P' hP' with hno | ⟨P, hP, hsd⟩
    · exact absurd hsend (hno b code)
    · rcases hbat b B' hB' with ⟨-, -, hfresh⟩ | ⟨B, hB, -, -, hn, hc⟩
      · exact absurd (by rw [hsend]; rfl) (hfresh pw P' hP')
      · rw [hn, hc]; exact h.complOne pw P hP b code (hsd ▸ hsend) B hB
  · intro b B' code hB' hd
    rcases hbat b B' hB' with ⟨-, hdn, -⟩ | ⟨B, hB, -, hd', hn, hc⟩
    · rw [hdn] at hd; cases hd
    · rw [hn, hc]; exact h.complDone b B code hB (hd' ▸ hd)

end KV.Writer

namespace KV.Writer

theorem cframe_pws_id {s : State} :
    (∀ pw P', s.pws pw = some P' → (∀ b code, P'.sender ≠ .finishing b code true) ∨ ∃ P, s.pws pw = some P ∧ P'.sender = P.sender) ∧
    (∀ pw P, s.pws pw = some P → ∀ b code, P.sender = .finishing b code true → ∃ P', s.pws pw = some P' ∧ P'.sender = .finishing b code true) :=
  ⟨fun _ P' h => Or.inr ⟨P', h, rfl⟩, fun _ P h _ _ hs => ⟨P, h, hs⟩⟩

/-- partition writer pw changes; either its sender is unchanged, or neither the old nor the new sender state is
"Completion already called" -/
theorem cframe_pws_upd {s : State} {pws' : Nat → Option PW} {pw : Nat} {P P' : PW} (hP : s.pws pw = some P)
    (e : pws' = upd s.pws pw (some P'))
    (hsd : P'.sender = P.sender ∨ ((∀ b code, P'.sender ≠ .finishing b code true) ∧ (∀ b code, P.sender ≠ .finishing b code true))) :
    (∀ x X', pws' x = some X' → (∀ b code, X'.sender ≠ .finishing b code true) ∨ ∃ X, s.pws x = some X ∧ X'.sender = X.sender) ∧
    (∀ x X, s.pws x = some X → ∀ b code, X.sender = .finishing b code true → ∃ X', pws' x = some X' ∧ X'.sender = .finishing b code true) := by
  constructor
  · intro x X' hx
    rw [e] at hx
    rcases upd_some_elim hx with ⟨rfl, rfl⟩ | ⟨-, h⟩
    · rcases hsd with h | ⟨h, -⟩
      · exact Or.inr ⟨P, hP, h⟩
      · exact Or.inl h
    · exact Or.inr ⟨X', h, rfl⟩
  · intro x X hx b code hs
    by_cases hxp : x = pw
    · subst hxp; rw [hP] at hx; cases hx
      rcases hsd with h | ⟨-, h⟩
      · exact ⟨P', by rw [e]; simp, h ▸ hs⟩
      · exact absurd hs (h b code)
    · exact ⟨X, by rw [e, upd_other _ _ _ _ hxp]; exact hx, hs⟩

theorem cframe_bat_id {s s' : State} (e : s'.batches = s.batches) :
    ∀ b B', s'.batches b = some B' →
      (B'.ncompl = 0 ∧ B'.done = none ∧ ∀ pw P', s'.pws pw = some P' → P'.sender.batch? ≠ some b) ∨
      ∃ B, s.batches b = some B ∧ B'.pw = B.pw ∧ B'.done = B.done ∧ B'.ncompl = B.ncompl ∧ B'.cbCode = B.cbCode :=
  fun _ B' h => Or.inr ⟨B', e ▸ h, rfl, rfl, rfl, rfl⟩

theorem cframe_bat_upd {s s' : State} {b : Nat} {B B' : Batch} (hB : s.batches b = some B)
    (e : s'.batches = upd s.batches b (some B')) (h1 : B'.pw = B.pw) (h2 : B'.done = B.done) (h3 : B'.ncompl = B.ncompl)
    (h4 : B'.cbCode = B.cbCode) :
    ∀ x X', s'.batches x = some X' →
      (X'.ncompl = 0 ∧ X'.done = none ∧ ∀ pw P', s'.pws pw = some P' → P'.sender.batch? ≠ some x) ∨
      ∃ X, s.batches x = some X ∧ X'.pw = X.pw ∧ X'.done = X.done ∧ X'.ncompl = X.ncompl ∧ X'.cbCode = X.cbCode := by
  intro x X' hx
  rw [e] at hx
  rcases upd_some_elim hx with ⟨rfl, rfl⟩ | ⟨-, h⟩
  · exact Or.inr ⟨B, hB, h1, h2, h3, h4⟩
  · exact Or.inr ⟨X', h, rfl, rfl, rfl, rfl⟩

theorem invCompl_completion {cfg : Cfg} {s s' : State} (hO : InvOrd s) (hA : InvAck s) (hI : InvCompl cfg s)
    {pw b : Nat} {P : PW} {B : Batch} {code : Code}
    (hP : s.pws pw = some P) (hB : s.batches b = some B) (hsend : P.sender = .finishing b code false)
    (epws : s'.pws = upd s.pws pw (some { P with sender := .finishing b code true }))
    (ebat : s'.batches = upd s.batches b (some { B with ncompl := B.ncompl + 1, cbCode := some code })) :
    InvCompl cfg s' := by
  have hbpipe : b ∈ P.pipe := sender_mem_pipe (by rw [hsend]; rfl)
  have hBpw : B.pw = pw := by
    obtain ⟨B0, hB0, h⟩ := hO.pipeEx pw P hP b hbpipe
    rw [hB] at hB0; cases hB0; exact h
  have hBdone : B.done = none := hA.pipeLive pw P hP b hbpipe B hB
  have hlookpw : s'.pws pw = some { P with sender := .finishing b code true } := by rw [epws]; simp
  have hn0 : B.ncompl = 0 := by
    refine hI.complZero b B hB hBdone ?_
    intro P0 hP0 c hs
    rw [hBpw, hP] at hP0; cases hP0
    rw [hsend] at hs; cases hs
  -- a different partition writer never holds b
  have hother : ∀ x X, s.pws x = some X → x ≠ pw → X.sender.batch? ≠ some b := by
    intro x X hx hne hsb
    obtain ⟨B0, hB0, h⟩ := hO.pipeEx x X hx b (sender_mem_pipe hsb)
    rw [hB] at hB0; cases hB0
    exact hne (h.symm.trans hBpw)
  constructor
  · intro y Y' hY' hd hprem
    rw [ebat] at hY'
    rcases upd_some_elim hY' with ⟨rfl, rfl⟩ | ⟨hne, hY⟩
    · exact absurd rfl (hprem _ (by show s'.pws B.pw = _; rw [hBpw]; exact hlookpw) code)
    · refine hI.complZero y Y' hY hd ?_
      intro P0 hP0 c hs
      by_cases hxp : Y'.pw = pw
      · rw [hxp, hP] at hP0; cases hP0
        rw [hsend] at hs; cases hs
      · exact hprem P0 (by rw [epws, upd_other _ _ _ _ hxp]; exact hP0) c hs
  · intro x X' hx y c hs Y' hY'
    rw [epws] at hx
    rcases upd_some_elim hx with ⟨rfl, rfl⟩ | ⟨hne, hX⟩
    · cases hs
      rw [ebat] at hY'
      simp at hY'; subst hY'
      exact ⟨by simp [hn0], rfl⟩
    · have hyb : y ≠ b := by
        intro e; subst e
        exact hother x X' hX hne (by rw [hs]; rfl)
      rw [ebat, upd_other _ _ _ _ hyb] at hY'
      exact hI.complOne x X' hX y c hs Y' hY'
  · intro y Y' c hY' hd
    rw [ebat] at hY'
    rcases upd_some_elim hY' with ⟨rfl, rfl⟩ | ⟨hne, hY⟩
    · rw [show ({ B with ncompl := B.ncompl + 1, cbCode := some code } : Batch).done = B.done from rfl, hBdone] at hd
      cases hd
    · exact hI.complDone y Y' c hY hd

theorem invCompl_complete {cfg : Cfg} {s s' : State} (hO : InvOrd s) (hA : InvAck s) (hI : InvCompl cfg s)
    {pw b : Nat} {P : PW} {B : Batch} {code : Code}
    (hP : s.pws pw = some P) (hB : s.batches b = some B) (hsend : P.sender = .finishing b code cfg.completion)
    (epws : s'.pws = upd s.pws pw (some { P with sender := .idle }))
    (ebat : s'.batches = upd s.batches b (some { B with done := some code })) :
    InvCompl cfg s' := by
  have hbpipe : b ∈ P.pipe := sender_mem_pipe (by rw [hsend]; rfl)
  have hBpw : B.pw = pw := by
    obtain ⟨B0, hB0, h⟩ := hO.pipeEx pw P hP b hbpipe
    rw [hB] at hB0; cases hB0; exact h
  have hBdone : B.done = none := hA.pipeLive pw P hP b hbpipe B hB
  have hother : ∀ x X, s.pws x = some X → x ≠ pw → X.sender.batch? ≠ some b := by
    intro x X hx hne hsb
    obtain ⟨B0, hB0, h⟩ := hO.pipeEx x X hx b (sender_mem_pipe hsb)
    rw [hB] at hB0; cases hB0
    exact hne (h.symm.trans hBpw)
  constructor
  · intro y Y' hY' hd hprem
    rw [ebat] at hY'
    rcases upd_some_elim hY' with ⟨rfl, rfl⟩ | ⟨hne, hY⟩
    · cases hd
    · refine hI.complZero y Y' hY hd ?_
      intro P0 hP0 c hs
      by_cases hxp : Y'.pw = pw
      · rw [hxp, hP] at hP0; cases hP0
        rw [hsend] at hs
        exact hne (Sender.finishing.inj hs).1.symm
      · exact hprem P0 (by rw [epws, upd_other _ _ _ _ hxp]; exact hP0) c hs
  · intro x X' hx y c hs Y' hY'
    rw [epws] at hx
    rcases upd_some_elim hx with ⟨rfl, rfl⟩ | ⟨hne, hX⟩
    · cases hs
    · have hyb : y ≠ b := by
        intro e; subst e
        exact hother x X' hX hne (by rw [hs]; rfl)
      rw [ebat, upd_other _ _ _ _ hyb] at hY'
      exact hI.complOne x X' hX y c hs Y' hY'
  · intro y Y' c hY' hd
    rw [ebat] at hY'
    rcases upd_some_elim hY' with ⟨rfl, rfl⟩ | ⟨hne, hY⟩
    · cases hd
      constructor
      · intro hc
        rw [hc] at hsend
        exact hI.complOne pw P hP y code hsend B hB
      · intro hc
        rw [hc] at hsend
        refine hI.complZero y B hB hBdone ?_
        intro P0 hP0 c' hs
        rw [hBpw, hP] at hP0; cases hP0
        rw [hsend] at hs; cases hs
    · exact hI.complDone y Y' c hY hd

end KV.Writer

namespace KV.Writer

theorem notFin_of {σ : Sender} (h : ∀ b c cb, σ ≠ .finishing b c cb) : ∀ b code, σ ≠ .finishing b code true :=
  fun b c => h b c true

theorem invCompl_step (cfg : Cfg) (s : State) (e : Event) (s' : State) (hO : InvOrd s) (hA : InvAck s)
    (hI : InvCompl cfg s) (hs : step cfg s e = some s') : InvCompl cfg s' := by
  cases e with
  | completion pw b code =>
    simp only [step] at hs
    repeat' split at hs
    all_goals (first | (cases hs; done) | skip)
    rename_i _ P hP _ B hB hg
    cases hs
    exact invCompl_completion hO hA hI hP hB hg.2 rfl rfl
  | complete pw b code =>
    simp only [step] at hs
    repeat' split at hs
    all_goals (first | (cases hs; done) | skip)
    rename_i _ P hP _ B hB hg
    cases hs
    exact invCompl_complete hO hA hI hP hB hg rfl rfl
  | newPW pw q tp =>
    simp only [step] at hs
    repeat' split at hs
    all_goals (first | (cases hs; done) | skip)
    rename_i hg
    obtain ⟨-, -, -, h2, -⟩ := hg
    have h2' : s.pws pw = none := by simpa using h2
    cases hs
    refine hI.of_frame ?_ ?_ (cframe_bat_id rfl)
    · intro x X' hx
      rcases upd_some_elim hx with ⟨rfl, rfl⟩ | ⟨-, h⟩
      · left; intro b c hc; simp [PW.new] at hc
      · exact Or.inr ⟨X', h, rfl⟩
    · intro x X hx b c hsd
      have hne : x ≠ pw := by intro e; rw [e, h2'] at hx; cases hx
      exact ⟨X, by show upd s.pws pw _ x = _; rw [upd_other _ _ _ _ hne]; exact hx, hsd⟩
  | newBatch pw b =>
    simp only [step] at hs
    repeat' split at hs
    all_goals (first | (cases hs; done) | skip)
    rename_i _ P hP hg
    have hnone : s.batches b = none := by simpa using hg.2.2.2.1
    cases hs
    have hf := cframe_pws_upd (P' := { P with curr := some b, nbatches := P.nbatches + 1 }) hP rfl (Or.inl rfl)
    refine hI.of_frame hf.1 hf.2 ?_
    intro x X' hx
    rcases upd_some_elim hx with ⟨rfl, rfl⟩ | ⟨-, h⟩
    · left
      refine ⟨rfl, rfl, ?_⟩
      intro y Y' hy hsb
      -- the sender of Y' is the sender of an old partition writer, whose batch exists already
      have : ∃ Y, s.pws y = some Y ∧ Y'.sender = Y.sender := by
        rcases upd_some_elim hy with ⟨rfl, rfl⟩ | ⟨-, h⟩
        · exact ⟨P, hP, rfl⟩
        · exact ⟨Y', h, rfl⟩
      obtain ⟨Y, hY, hsd⟩ := this
      obtain ⟨B0, hB0, -⟩ := hO.pipeEx y Y hY x (sender_mem_pipe (hsd ▸ hsb))
      rw [hnone] at hB0; cases hB0
    · exact Or.inr ⟨X', h, rfl, rfl, rfl, rfl⟩
  | detach pw b why size =>
    simp only [step, stepDetach] at hs
    repeat' split at hs
    all_goals (first | (cases hs; done) | skip)
    rename_i _ P hP _ B hB hg
    cases hs
    have hf := cframe_pws_upd (P' := { P with curr := none, pending := some b }) hP rfl (Or.inl rfl)
    exact hI.of_frame hf.1 hf.2 (cframe_bat_upd (B' := { B with detached := some why }) hB rfl rfl rfl rfl rfl)
  | qput q b acc =>
    simp only [step] at hs
    repeat' split at hs
    all_goals (first | (cases hs; done) | skip)
    rename_i _ pw hq _ P hP hg
    cases hs
    have hf := cframe_pws_upd (P' := { P with pending := none, queue := enq P.queue b acc }) hP rfl (Or.inl rfl)
    exact hI.of_frame hf.1 hf.2 (cframe_bat_id rfl)
  | qclose q =>
    simp only [step] at hs
    repeat' split at hs
    all_goals (first | (cases hs; done) | skip)
    rename_i _ pw hq _ P hP hg
    cases hs
    have hf := cframe_pws_upd (P' := { P with qclosed := true }) hP rfl (Or.inl rfl)
    exact hI.of_frame hf.1 hf.2 (cframe_bat_id rfl)
  | qget q ob =>
    simp only [step] at hs
    repeat' split at hs
    all_goals (first | (cases hs; done) | skip)
    · rename_i _ pw hq _ P hP _ b hg
      cases hs
      have hf := cframe_pws_upd (P' := { P with queue := P.queue.tail, sender := .ready b 0 }) hP rfl
        (Or.inr ⟨by simp, by simp [hg.1]⟩)
      exact hI.of_frame hf.1 hf.2 (cframe_bat_id rfl)
    · rename_i _ pw hq _ P hP _ hg
      cases hs
      have hf := cframe_pws_upd (P' := { P with sender := .exited }) hP rfl (Or.inr ⟨by simp, by simp [hg.1]⟩)
      exact hI.of_frame hf.1 hf.2 (cframe_bat_id rfl)
  | attempt pw b k =>
    simp only [step] at hs
    repeat' split at hs
    all_goals (first | (cases hs; done) | skip)
    rename_i _ P hP hg
    cases hs
    have hf := cframe_pws_upd (P' := { P with sender := .attempting b k none }) hP rfl (Or.inr ⟨by simp, by simp [hg.1]⟩)
    exact hI.of_frame hf.1 hf.2 (cframe_bat_id rfl)
  | attemptDone pw b k code =>
    simp only [step] at hs
    repeat' split at hs
    all_goals (first | (cases hs; done) | skip)
    rename_i _ P hP _ b' k' br hsend hg
    cases hs
    have hnf : ∀ x c, afterAttempt cfg b k code ≠ .finishing x c true := by
      intro x c; unfold afterAttempt
      split
      · simp
      · split <;> simp
    have hf := cframe_pws_upd (P' := { P with sender := afterAttempt cfg b k code }) hP rfl (Or.inr ⟨hnf, by simp [hsend]⟩)
    exact hI.of_frame hf.1 hf.2 (cframe_bat_id rfl)
  | produce pw tp msgs out =>
    simp only [step, stepProduce] at hs
    repeat' split at hs
    all_goals (first | (cases hs; done) | skip)
    rename_i _ P hP _ b k hsend _ B hB hg
    cases hs
    have hf := cframe_pws_upd (P' := { P with sender := .attempting b k (some out) }) hP rfl (Or.inr ⟨by simp, by simp [hsend]⟩)
    exact hI.of_frame hf.1 hf.2 (cframe_bat_upd (B' := B.noteProduce out) hB rfl rfl rfl rfl rfl)
  | timerFire pw b att =>
    simp only [step] at hs
    repeat' split at hs
    all_goals (first | (cases hs; done) | skip)
    rename_i _ P hP _ B hB hg
    cases hs
    exact hI.of_frame cframe_pws_id.1 cframe_pws_id.2 (cframe_bat_upd (B' := { B with timerFired := true }) hB rfl rfl rfl rfl rfl)
  | add pw b c i size =>
    simp only [step, stepAdd] at hs
    repeat' split at hs
    all_goals (first | (cases hs; done) | skip)
    rename_i _ P hP _ B hB _ C hC hg
    cases hs
    exact hI.of_frame cframe_pws_id.1 cframe_pws_id.2
      (cframe_bat_upd (B' := B.push { msg := (c, i), size := size, seq := s.seq }) hB rfl rfl rfl rfl rfl)
  | _ =>
    simp only [step, stepReject, stepRet] at hs
    repeat' split at hs
    all_goals (first | (cases hs; done) | skip)
    all_goals (cases hs)
    all_goals exact hI.of_frame cframe_pws_id.1 cframe_pws_id.2 (cframe_bat_id rfl)

end KV.Writer

namespace KV.Writer

/-! ## The journal of produce attempts and the number of copies in the log -/

structure InvJournal (s : State) : Prop where
  journalAcked : ∀ j ∈ s.journal, j.out = .acked → ∃ B, s.batches j.batch = some B ∧ B.acked = true ∧ B.tp = j.tp
  ackedJournal : ∀ b B, s.batches b = some B → B.acked = true → ∃ j ∈ s.journal, j.batch = b ∧ j.out = .acked ∧ j.tp = B.tp
  journalOnce : s.journal.Pairwise (fun j1 j2 => j1.batch = j2.batch → j1.out ≠ .acked)
  counts : ∀ b B, s.batches b = some B → B.napplied = B.nlost + (if B.acked then 1 else 0)
  appliedDet : ∀ b B, s.batches b = some B → 0 < B.napplied → B.detached.isSome = true
  logBatchEx : ∀ tp, ∀ e ∈ s.log tp, ∃ B, s.batches e.batch = some B
  logCount : ∀ b B, s.batches b = some B →
    ((s.log B.tp).filter (fun e => e.batch == b)).length = B.napplied * B.msgs.length

theorem invJournal_init : InvJournal State.init := by
  constructor <;> simp [State.init]

theorem InvJournal.of_frame {s s' : State} (h : InvJournal s)
    (hj : s'.journal = s.journal) (hlog : s'.log = s.log)
    (hbat : ∀ b B', s'.batches b = some B' →
      (s.batches b = none ∧ B'.acked = false ∧ B'.napplied = 0 ∧ B'.nlost = 0) ∨
      ∃ B, s.batches b = some B ∧ B'.acked = B.acked ∧ B'.tp = B.tp ∧ B'.napplied = B.napplied ∧ B'.nlost = B.nlost ∧
        (B.detached.isSome = true → B'.detached.isSome = true) ∧ (B'.msgs = B.msgs ∨ B.napplied = 0))
    (hbat' : ∀ b B, s.batches b = some B → ∃ B', s'.batches b = some B' ∧ B'.acked = B.acked ∧ B'.tp = B.tp) :
    InvJournal s' := by
  constructor
  · intro j hjm hout
    rw [hj] at hjm
    obtain ⟨B, hB, ha, ht⟩ := h.journalAcked j hjm hout
    obtain ⟨B', hB', ha', ht'⟩ := hbat' _ _ hB
    exact ⟨B', hB', ha' ▸ ha, ht' ▸ ht⟩
  · intro b B' hB' hack
    rcases hbat b B' hB' with ⟨-, hf, -, -⟩ | ⟨B, hB, ha, ht, -⟩
    · rw [hf] at hack; cases hack
    · rw [hj, ht]; exact h.ackedJournal b B hB (ha ▸ hack)
  · rw [hj]; exact h.journalOnce
  · intro b B' hB'
    rcases hbat b B' hB' with ⟨-, hf, h1, h2⟩ | ⟨B, hB, ha, -, h1, h2, -, -⟩
    · simp [hf, h1, h2]
    · rw [ha, h1, h2]; exact h.counts b B hB
  · intro b B' hB' hpos
    rcases hbat b B' hB' with ⟨-, -, h1, -⟩ | ⟨B, hB, -, -, h1, -, hd, -⟩
    · omega
    · exact hd (h.appliedDet b B hB (h1 ▸ hpos))
  · intro tp e he
    rw [hlog] at he
    obtain ⟨B, hB⟩ := h.logBatchEx tp e he
    obtain ⟨B', hB', -⟩ := hbat' _ _ hB
    exact ⟨B', hB'⟩
  · intro b B' hB'
    rw [hlog]
    rcases hbat b B' hB' with ⟨hnone, -, h1, -⟩ | ⟨B, hB, -, ht, h1, -, -, hm⟩
    · rw [h1, Nat.zero_mul]
      have : (s.log B'.tp).filter (fun e => e.batch == b) = [] := by
        rw [List.filter_eq_nil_iff]
        intro e he heq
        obtain ⟨B0, hB0⟩ := h.logBatchEx _ e he
        have : e.batch = b := by simpa using heq
        rw [this, hnone] at hB0; cases hB0
      rw [this]; rfl
    · rw [ht, h1]
      have := h.logCount b B hB
      rcases hm with hm | hm
      · rw [hm]; exact this
      · rw [hm] at this ⊢; simpa using this

end KV.Writer

namespace KV.Writer

theorem jframe_bat_id {s s' : State} (e : s'.batches = s.batches) :
    (∀ b B', s'.batches b = some B' →
      (s.batches b = none ∧ B'.acked = false ∧ B'.napplied = 0 ∧ B'.nlost = 0) ∨
      ∃ B, s.batches b = some B ∧ B'.acked = B.acked ∧ B'.tp = B.tp ∧ B'.napplied = B.napplied ∧ B'.nlost = B.nlost ∧
        (B.detached.isSome = true → B'.detached.isSome = true) ∧ (B'.msgs = B.msgs ∨ B.napplied = 0)) ∧
    (∀ b B, s.batches b = some B → ∃ B', s'.batches b = some B' ∧ B'.acked = B.acked ∧ B'.tp = B.tp) :=
  ⟨fun _ B' h => Or.inr ⟨B', e ▸ h, rfl, rfl, rfl, rfl, fun h => h, Or.inl rfl⟩, fun _ B h => ⟨B, e ▸ h, rfl, rfl⟩⟩

theorem jframe_bat_upd {s s' : State} {b : Nat} {B B' : Batch} (hB : s.batches b = some B)
    (e : s'.batches = upd s.batches b (some B')) (h1 : B'.acked = B.acked) (h2 : B'.tp = B.tp)
    (h3 : B'.napplied = B.napplied) (h4 : B'.nlost = B.nlost) (h5 : B.detached.isSome = true → B'.detached.isSome = true)
    (h6 : B'.msgs = B.msgs ∨ B.napplied = 0) :
    (∀ x X', s'.batches x = some X' →
      (s.batches x = none ∧ X'.acked = false ∧ X'.napplied = 0 ∧ X'.nlost = 0) ∨
      ∃ X, s.batches x = some X ∧ X'.acked = X.acked ∧ X'.tp = X.tp ∧ X'.napplied = X.napplied ∧ X'.nlost = X.nlost ∧
        (X.detached.isSome = true → X'.detached.isSome = true) ∧ (X'.msgs = X.msgs ∨ X.napplied = 0)) ∧
    (∀ x X, s.batches x = some X → ∃ X', s'.batches x = some X' ∧ X'.acked = X.acked ∧ X'.tp = X.tp) := by
  constructor
  · intro x X' hx
    rw [e] at hx
    rcases upd_some_elim hx with ⟨rfl, rfl⟩ | ⟨-, h⟩
    · exact Or.inr ⟨B, hB, h1, h2, h3, h4, h5, h6⟩
    · exact Or.inr ⟨X', h, rfl, rfl, rfl, rfl, fun h => h, Or.inl rfl⟩
  · intro x X hx
    by_cases hxb : x = b
    · subst hxb; rw [hB] at hx; cases hx
      exact ⟨B', by rw [e]; simp, h1, h2⟩
    · exact ⟨X, by rw [e, upd_other _ _ _ _ hxb]; exact hx, rfl, rfl⟩

theorem filter_batch_mkEntries_same (pw b : Nat) (B : Batch) :
    (mkEntries pw b B).filter (fun e => e.batch == b) = mkEntries pw b B := by
  rw [List.filter_eq_self]
  intro e he
  obtain ⟨m, -, rfl⟩ := List.mem_map.mp he
  simp

theorem filter_batch_mkEntries_other (pw b y : Nat) (B : Batch) (h : y ≠ b) :
    (mkEntries pw b B).filter (fun e => e.batch == y) = [] := by
  rw [List.filter_eq_nil_iff]
  intro e he
  obtain ⟨m, -, rfl⟩ := List.mem_map.mp he
  simp; exact fun e => h e.symm

theorem invJournal_produce {s s' : State} (hA : InvAck s) (hI : InvJournal s) {pw b k : Nat} {P : PW} {B : Batch} {tp : TP} {out : BrOut}
    (hP : s.pws pw = some P) (hB : s.batches b = some B) (hsend : P.sender = .attempting b k none)
    (hBpw : B.pw = pw) (hBtp : B.tp = tp)
    (ebat : s'.batches = upd s.batches b (some (B.noteProduce out)))
    (elog : s'.log = if out.applied then upd s.log tp (s.log tp ++ mkEntries pw b B) else s.log)
    (ej : s'.journal = s.journal ++ [{ tp := tp, pw := pw, batch := b, attempt := k, out := out }]) : InvJournal s' := by
  have hna := not_acked_in_flight hA hP hB hsend hBpw
  have hdet : B.detached.isSome = true := hA.sentDet pw P hP b (sender_mem_sent (by rw [hsend]; rfl)) B hB
  have hlookb : s'.batches b = some (B.noteProduce out) := by rw [ebat]; simp
  have hlook : ∀ y, y ≠ b → s'.batches y = s.batches y := fun y hy => by rw [ebat]; exact upd_other _ _ _ _ hy
  have hacked' : (B.noteProduce out).acked = (out == .acked) := by simp [Batch.noteProduce, hna]
  have hout : ∀ {o : BrOut}, (o == BrOut.acked) = true → o = .acked := by
    intro o h; cases o <;> simp_all
  have hexist : ∀ y Y, s.batches y = some Y → ∃ Y', s'.batches y = some Y' := by
    intro y Y hy
    by_cases hyb : y = b
    · exact ⟨_, hyb ▸ hlookb⟩
    · exact ⟨Y, by rw [hlook y hyb]; exact hy⟩
  constructor
  · intro j hjm hjo
    rw [ej] at hjm
    rcases List.mem_append.mp hjm with hjm | hjm
    · obtain ⟨B0, hB0, ha, ht⟩ := hI.journalAcked j hjm hjo
      have hne : j.batch ≠ b := by
        intro e; rw [e, hB] at hB0; cases hB0; rw [hna] at ha; cases ha
      exact ⟨B0, by rw [hlook _ hne]; exact hB0, ha, ht⟩
    · simp at hjm; subst hjm
      simp only at hjo; subst hjo
      exact ⟨_, hlookb, by rw [hacked']; rfl, hBtp⟩
  · intro y Y' hY' hack
    rw [ej]
    by_cases hyb : y = b
    · subst hyb; rw [hlookb] at hY'; cases hY'
      rw [hacked'] at hack
      have := hout hack; subst this
      exact ⟨_, List.mem_append_right _ (List.mem_singleton.mpr rfl), rfl, rfl, hBtp.symm⟩
    · rw [hlook y hyb] at hY'
      obtain ⟨j, hjm, h1, h2, h3⟩ := hI.ackedJournal y Y' hY' hack
      exact ⟨j, List.mem_append_left _ hjm, h1, h2, h3⟩
  · rw [ej]
    refine List.pairwise_append.mpr ⟨hI.journalOnce, List.pairwise_singleton _ _, ?_⟩
    intro j0 hj0 j1 hj1 hbe hacked
    simp at hj1; subst hj1
    obtain ⟨B0, hB0, ha, -⟩ := hI.journalAcked j0 hj0 hacked
    simp only at hbe
    rw [hbe, hB] at hB0; cases hB0
    rw [hna] at ha; cases ha
  · intro y Y' hY'
    by_cases hyb : y = b
    · subst hyb; rw [hlookb] at hY'; cases hY'
      have hc := hI.counts y B hB
      rw [hna] at hc
      cases out with
      | acked => simp [Batch.noteProduce, BrOut.applied, hna] at hc ⊢; omega
      | lost a => cases a <;> simp [Batch.noteProduce, BrOut.applied, hna] at hc ⊢ <;> omega
      | rejected c => simp [Batch.noteProduce, BrOut.applied, hna] at hc ⊢; omega
    · rw [hlook y hyb] at hY'; exact hI.counts y Y' hY'
  · intro y Y' hY' hpos
    by_cases hyb : y = b
    · subst hyb; rw [hlookb] at hY'; cases hY'; exact hdet
    · rw [hlook y hyb] at hY'; exact hI.appliedDet y Y' hY' hpos
  · intro t e he
    rw [elog] at he
    split at he
    · by_cases ht : t = tp
      · subst ht
        simp at he
        rcases he with he | he
        · obtain ⟨B0, hB0⟩ := hI.logBatchEx t e he
          exact hexist _ _ hB0
        · obtain ⟨m, -, rfl⟩ := List.mem_map.mp he
          exact ⟨_, hlookb⟩
      · rw [upd_other _ _ _ _ ht] at he
        obtain ⟨B0, hB0⟩ := hI.logBatchEx t e he
        exact hexist _ _ hB0
    · obtain ⟨B0, hB0⟩ := hI.logBatchEx t e he
      exact hexist _ _ hB0
  · intro y Y' hY'
    by_cases hyb : y = b
    · subst hyb; rw [hlookb] at hY'; cases hY'
      have hc := hI.logCount y B hB
      rw [hBtp] at hc
      show ((s'.log B.tp).filter _).length = (B.noteProduce out).napplied * B.msgs.length
      rw [hBtp, elog]
      cases happ : out.applied
      · simp [Batch.noteProduce, happ]; exact hc
      · simp only [if_true, upd_same, List.filter_append, List.length_append, filter_batch_mkEntries_same, Batch.noteProduce, happ]
        rw [hc]; simp [mkEntries, Nat.add_mul]
    · rw [hlook y hyb] at hY'
      have hc := hI.logCount y Y' hY'
      rw [elog]
      cases happ : out.applied
      · simpa using hc
      · simp only [if_true]
        by_cases ht : Y'.tp = tp
        · rw [ht] at hc ⊢
          simp only [upd_same, List.filter_append, List.length_append, filter_batch_mkEntries_other _ _ _ _ hyb]
          simpa using hc
        · rw [upd_other _ _ _ _ ht]; exact hc

theorem invJournal_step (cfg : Cfg) (s : State) (e : Event) (s' : State) (hA : InvAck s)
    (hI : InvJournal s) (hs : step cfg s e = some s') : InvJournal s' := by
  cases e with
  | produce pw tp msgs out =>
    simp only [step, stepProduce] at hs
    repeat' split at hs
    all_goals (first | (cases hs; done) | skip)
    rename_i _ P hP _ b k hsend _ B hB hg
    obtain ⟨hBpw, hBtp, -, -⟩ := hg
    cases hs
    exact invJournal_produce hA hI hP hB hsend hBpw hBtp rfl (produced_log ..) rfl
  | newBatch pw b =>
    simp only [step] at hs
    repeat' split at hs
    all_goals (first | (cases hs; done) | skip)
    rename_i _ P hP hg
    have hnone : s.batches b = none := by simpa using hg.2.2.2.1
    cases hs
    refine hI.of_frame rfl rfl ?_ ?_
    · intro x X' hx
      rcases upd_some_elim hx with ⟨rfl, rfl⟩ | ⟨-, h⟩
      · exact Or.inl ⟨hnone, rfl, rfl, rfl⟩
      · exact Or.inr ⟨X', h, rfl, rfl, rfl, rfl, fun h => h, Or.inl rfl⟩
    · intro x X hx
      have hne : x ≠ b := by intro e; rw [e, hnone] at hx; cases hx
      exact ⟨X, by show upd s.batches b _ x = _; rw [upd_other _ _ _ _ hne]; exact hx, rfl, rfl⟩
  | add pw b c i size =>
    simp only [step, stepAdd] at hs
    repeat' split at hs
    all_goals (first | (cases hs; done) | skip)
    rename_i _ P hP _ B hB _ C hC hg
    obtain ⟨-, -, -, -, -, hdet, -⟩ := hg
    cases hs
    have h0 : B.napplied = 0 := by
      cases hn : B.napplied with
      | zero => rfl
      | succ n => have := hI.appliedDet b B hB (by omega); rw [hdet] at this; cases this
    exact hI.of_frame rfl rfl (jframe_bat_upd (B' := B.push { msg := (c, i), size := size, seq := s.seq }) hB rfl rfl rfl rfl rfl (fun h => h) (Or.inr h0)).1 (jframe_bat_upd (B' := B.push { msg := (c, i), size := size, seq := s.seq }) hB rfl rfl rfl rfl rfl (fun h => h) (Or.inr h0)).2
  | detach pw b why size =>
    simp only [step, stepDetach] at hs
    repeat' split at hs
    all_goals (first | (cases hs; done) | skip)
    rename_i _ P hP _ B hB hg
    cases hs
    exact hI.of_frame rfl rfl (jframe_bat_upd (B' := { B with detached := some why }) hB rfl rfl rfl rfl rfl (fun _ => rfl) (Or.inl rfl)).1 (jframe_bat_upd (B' := { B with detached := some why }) hB rfl rfl rfl rfl rfl (fun _ => rfl) (Or.inl rfl)).2
  | timerFire pw b att =>
    simp only [step] at hs
    repeat' split at hs
    all_goals (first | (cases hs; done) | skip)
    rename_i _ P hP _ B hB hg
    cases hs
    exact hI.of_frame rfl rfl (jframe_bat_upd (B' := { B with timerFired := true }) hB rfl rfl rfl rfl rfl (fun h => h) (Or.inl rfl)).1 (jframe_bat_upd (B' := { B with timerFired := true }) hB rfl rfl rfl rfl rfl (fun h => h) (Or.inl rfl)).2
  | completion pw b code =>
    simp only [step] at hs
    repeat' split at hs
    all_goals (first | (cases hs; done) | skip)
    rename_i _ P hP _ B hB hg
    cases hs
    exact hI.of_frame rfl rfl (jframe_bat_upd (B' := { B with ncompl := B.ncompl + 1, cbCode := some code }) hB rfl rfl rfl rfl rfl (fun h => h) (Or.inl rfl)).1 (jframe_bat_upd (B' := { B with ncompl := B.ncompl + 1, cbCode := some code }) hB rfl rfl rfl rfl rfl (fun h => h) (Or.inl rfl)).2
  | complete pw b code =>
    simp only [step] at hs
    repeat' split at hs
    all_goals (first | (cases hs; done) | skip)
    rename_i _ P hP _ B hB hg
    cases hs
    exact hI.of_frame rfl rfl (jframe_bat_upd (B' := { B with done := some code }) hB rfl rfl rfl rfl rfl (fun h => h) (Or.inl rfl)).1 (jframe_bat_upd (B' := { B with done := some code }) hB rfl rfl rfl rfl rfl (fun h => h) (Or.inl rfl)).2
  | _ =>
    simp only [step, stepReject, stepRet] at hs
    repeat' split at hs
    all_goals (first | (cases hs; done) | skip)
    all_goals (cases hs)
    all_goals exact hI.of_frame rfl rfl (jframe_bat_id rfl).1 (jframe_bat_id rfl).2

end KV.Writer

namespace KV.Writer

/-- all Writer invariants that depend on each other, for every reachable state -/
theorem invAll (cfg : Cfg) : ∀ s, Reachable cfg s → (InvOrd s ∧ InvAck s) ∧ InvCompl cfg s ∧ InvJournal s :=
  invariant_of_step cfg (fun s => (InvOrd s ∧ InvAck s) ∧ InvCompl cfg s ∧ InvJournal s)
    ⟨⟨invOrd_init, invAck_init⟩, invCompl_init cfg, invJournal_init⟩
    (fun s e s' h hs =>
      ⟨⟨invOrd_step cfg s e s' h.1.1 hs, invAck_step cfg s e s' h.1.1 h.1.2 hs⟩,
       invCompl_step cfg s e s' h.1.1 h.1.2 h.2.1 hs, invJournal_step cfg s e s' h.1.2 h.2.2 hs⟩)

theorem invCompl (cfg : Cfg) (s : State) (hr : Reachable cfg s) : InvCompl cfg s := (invAll cfg s hr).2.1
theorem invJournal (cfg : Cfg) (s : State) (hr : Reachable cfg s) : InvJournal s := (invAll cfg s hr).2.2

end KV.Writer
