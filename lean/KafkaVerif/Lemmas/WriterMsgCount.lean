/-
Lemmas/WriterMsgCount.lean — copies per message (C01): `InvMsgCount`: for every message of every batch, the number of
entries of the partition log that carry this message equals the number of attempts of the batch the broker applied.
-/
import KafkaVerif.Lemmas.WriterFirstCopy
import KafkaVerif.Lemmas.WriterMsgs

namespace KV.Writer

def InvMsgCount (s : State) : Prop :=
  ∀ b B, s.batches b = some B → ∀ m ∈ B.msgs, (s.log B.tp).countP (fun e => e.msg == m.msg) = B.napplied

theorem invMsgCount_init : InvMsgCount State.init := by
  intro b B h; simp [State.init] at h

theorem InvMsgCount.of_frame {s s' : State} (h : InvMsgCount s) (hlog : s'.log = s.log)
    (hbat : ∀ b B', s'.batches b = some B' → B'.msgs = [] ∨
      ∃ B, s.batches b = some B ∧ B'.msgs = B.msgs ∧ B'.tp = B.tp ∧ B'.napplied = B.napplied) : InvMsgCount s' := by
  intro b B' hB' m hm
  rcases hbat b B' hB' with e | ⟨B, hB, e1, e2, e3⟩
  · rw [e] at hm; cases hm
  · rw [hlog, e2, e3]; exact h b B hB m (e1 ▸ hm)

theorem nframe_bat_id {s s' : State} (e : s'.batches = s.batches) :
    ∀ b B', s'.batches b = some B' → B'.msgs = [] ∨
      ∃ B, s.batches b = some B ∧ B'.msgs = B.msgs ∧ B'.tp = B.tp ∧ B'.napplied = B.napplied :=
  fun b B' h => Or.inr ⟨B', by rw [← e]; exact h, rfl, rfl, rfl⟩

theorem nframe_bat_upd {s s' : State} {b : Nat} {B0 B0' : Batch} (hB : s.batches b = some B0)
    (e : s'.batches = upd s.batches b (some B0')) (h1 : B0'.msgs = B0.msgs) (h2 : B0'.tp = B0.tp)
    (h3 : B0'.napplied = B0.napplied) :
    ∀ x X', s'.batches x = some X' → X'.msgs = [] ∨
      ∃ X, s.batches x = some X ∧ X'.msgs = X.msgs ∧ X'.tp = X.tp ∧ X'.napplied = X.napplied := by
  intro x X' hx
  rw [e] at hx
  rcases upd_some_elim hx with ⟨rfl, rfl⟩ | ⟨-, hx⟩
  · exact Or.inr ⟨B0, hB, h1, h2, h3⟩
  · exact Or.inr ⟨X', hx, rfl, rfl, rfl⟩

/-- in a duplicate-free list of messages, exactly one element carries a given member's identity -/
theorem countP_msg_eq_one {l : List BMsg} (hnd : (l.map (·.msg)).Nodup) {m : BMsg} (hm : m ∈ l) :
    l.countP (fun x => x.msg == m.msg) = 1 := by
  induction l with
  | nil => cases hm
  | cons a t ih =>
    simp only [List.map_cons, List.nodup_cons] at hnd
    obtain ⟨hna, hnt⟩ := hnd
    rcases List.mem_cons.mp hm with rfl | hmt
    · have h0 : t.countP (fun x => x.msg == m.msg) = 0 := by
        rw [List.countP_eq_zero]
        intro x hx hxe
        have : x.msg = m.msg := by simpa using hxe
        exact hna (this ▸ List.mem_map.mpr ⟨x, hx, rfl⟩)
      simp [h0]
    · have hne : ¬ (a.msg = m.msg) := by
        intro he
        exact hna (he ▸ List.mem_map.mpr ⟨m, hmt, rfl⟩)
      have : (a.msg == m.msg) = false := by simpa using hne
      simp [this, ih hnt hmt]

theorem countP_msg_eq_zero {l : List BMsg} {k : Msg} (h : ∀ x ∈ l, x.msg ≠ k) :
    l.countP (fun x => x.msg == k) = 0 := by
  rw [List.countP_eq_zero]
  intro x hx hxe
  exact h x hx (by simpa using hxe)

theorem countP_mkEntries (pw b : Nat) (B : Batch) (k : Msg) :
    (mkEntries pw b B).countP (fun e => e.msg == k) = B.msgs.countP (fun x => x.msg == k) := by
  unfold mkEntries
  rw [List.countP_map]
  rfl

theorem invMsgCount_produce {s s' : State} (hP : InvPlace s) (hM : InvMsgs s) (h : InvMsgCount s)
    {pw b : Nat} {B : Batch} {tp : TP} {out : BrOut} (hB : s.batches b = some B) (hBtp : B.tp = tp)
    (happ : out.applied = true)
    (ebat : s'.batches = upd s.batches b (some (B.noteProduce out)))
    (elog : s'.log = upd s.log tp (s.log tp ++ mkEntries pw b B)) : InvMsgCount s' := by
  have hlogtp : s'.log tp = s.log tp ++ mkEntries pw b B := by rw [elog]; simp
  have hlogne : ∀ t, t ≠ tp → s'.log t = s.log t := fun t ht => by rw [elog]; exact upd_other _ _ _ _ ht
  have hnp : (B.noteProduce out).napplied = B.napplied + 1 := by simp [Batch.noteProduce, happ]
  intro x X' hX' m hm
  rw [ebat] at hX'
  rcases upd_some_elim hX' with ⟨rfl, rfl⟩ | ⟨hne, hX⟩
  · -- the batch that was produced
    have hm' : m ∈ B.msgs := hm
    show (s'.log B.tp).countP _ = (B.noteProduce out).napplied
    rw [hBtp, hlogtp, List.countP_append, countP_mkEntries, countP_msg_eq_one (hM.nodup x B hB) hm', hnp,
      ← hBtp, h x B hB m hm']
  · -- another batch: its messages are not among the appended entries
    by_cases ht : X'.tp = tp
    · rw [ht, hlogtp, List.countP_append, countP_mkEntries]
      have hz : B.msgs.countP (fun y => y.msg == m.msg) = 0 := by
        apply countP_msg_eq_zero
        intro y hy hye
        obtain ⟨C1, hC1, -, hp1⟩ := hP.batchTP b B hB y hy
        obtain ⟨C2, hC2, -, hp2⟩ := hP.batchTP x X' hX m hm
        rw [hye] at hC1 hp1
        rw [hC1] at hC2; cases hC2
        rw [hp1] at hp2; cases hp2
        exact hne rfl
      rw [hz, Nat.add_zero, ← ht]
      exact h x X' hX m hm
    · rw [hlogne _ ht]; exact h x X' hX m hm

theorem invMsgCount_step (cfg : Cfg) (s : State) (e : Event) (s' : State) (hP : InvPlace s) (hM : InvMsgs s)
    (hJ : InvJournal s) (hF : InvFirst s) (hI : InvMsgCount s) (hs : step cfg s e = some s') : InvMsgCount s' := by
  cases e with
  | newBatch pw b =>
    simp only [step] at hs
    repeat' split at hs
    all_goals (first | (cases hs; done) | skip)
    rename_i _ P hPq hg
    cases hs
    refine hI.of_frame rfl ?_
    intro x X' hx
    rcases upd_some_elim hx with ⟨rfl, rfl⟩ | ⟨-, hx⟩
    · exact Or.inl rfl
    · exact Or.inr ⟨X', hx, rfl, rfl, rfl⟩
  | add pw b c i size =>
    simp only [step, stepAdd] at hs
    repeat' split at hs
    all_goals (first | (cases hs; done) | skip)
    rename_i _ P hPq _ B hB _ C hC hg
    obtain ⟨-, -, -, -, -, hdet, -, -, -, -, hplace, -⟩ := hg
    cases hs
    -- the batch is attached: no attempt of it was applied yet
    have hna : B.napplied = 0 := by
      cases hn : B.napplied with
      | zero => rfl
      | succ n =>
        have := hJ.appliedDet b B hB (by rw [hn]; exact Nat.succ_pos _)
        rw [hdet] at this; cases this
    intro x X' hX' m hm
    rcases upd_some_elim hX' with ⟨rfl, rfl⟩ | ⟨-, hX⟩
    · simp only [Batch.push] at hm ⊢
      rcases List.mem_append.mp hm with hm | hm
      · exact hI x B hB m hm
      · simp at hm; subst hm
        -- the new message is in no log yet: it was in no batch
        rw [hna, List.countP_eq_zero]
        intro e he hee
        have heq : e.msg = (c, i) := by simpa using hee
        obtain ⟨X, hX, m0, hm0, -, hmsg⟩ := hF.entryIn B.tp e he
        obtain ⟨C0, hC0, -, hp0⟩ := hP.batchTP e.batch X hX m0 hm0
        rw [hmsg, heq] at hC0 hp0
        rw [hC] at hC0; cases hC0
        simp only at hp0
        rw [hplace] at hp0; cases hp0
    · exact hI x X' hX m hm
  | detach pw b why size =>
    simp only [step, stepDetach] at hs
    repeat' split at hs
    all_goals (first | (cases hs; done) | skip)
    rename_i _ P hPq _ B hB hg
    cases hs
    exact hI.of_frame rfl (nframe_bat_upd (B0' := { B with detached := some why }) hB rfl rfl rfl rfl)
  | timerFire pw b att =>
    simp only [step] at hs
    repeat' split at hs
    all_goals (first | (cases hs; done) | skip)
    rename_i _ P hPq _ B hB hg
    cases hs
    exact hI.of_frame rfl (nframe_bat_upd (B0' := { B with timerFired := true }) hB rfl rfl rfl rfl)
  | completion pw b code =>
    simp only [step] at hs
    repeat' split at hs
    all_goals (first | (cases hs; done) | skip)
    rename_i _ P hPq _ B hB hg
    cases hs
    exact hI.of_frame rfl
      (nframe_bat_upd (B0' := { B with ncompl := B.ncompl + 1, cbCode := some code }) hB rfl rfl rfl rfl)
  | complete pw b code =>
    simp only [step] at hs
    repeat' split at hs
    all_goals (first | (cases hs; done) | skip)
    rename_i _ P hPq _ B hB hg
    cases hs
    exact hI.of_frame rfl (nframe_bat_upd (B0' := { B with done := some code }) hB rfl rfl rfl rfl)
  | produce pw tp msgs out =>
    simp only [step, stepProduce] at hs
    repeat' split at hs
    all_goals (first | (cases hs; done) | skip)
    rename_i _ P hPq _ b k hsend _ B hB hg
    obtain ⟨-, hBtp, -⟩ := hg
    cases hs
    by_cases happ : out.applied = true
    · exact invMsgCount_produce (pw := pw) hP hM hI hB hBtp happ rfl (by rw [produced_log]; simp [happ])
    · have hnp : (B.noteProduce out).napplied = B.napplied := by simp [Batch.noteProduce, happ]
      exact hI.of_frame (by rw [produced_log]; simp [happ])
        (nframe_bat_upd (B0' := B.noteProduce out) hB rfl rfl rfl hnp)
  | reject c why i =>
    cases why <;> simp only [step, stepReject] at hs <;> repeat' split at hs
    all_goals (first | (cases hs; done) | skip)
    all_goals (cases hs)
    all_goals exact hI.of_frame rfl (nframe_bat_id rfl)
  | ret c r =>
    cases r <;> simp only [step, stepRet] at hs <;> repeat' split at hs
    all_goals (first | (cases hs; done) | skip)
    all_goals (cases hs)
    all_goals exact hI.of_frame rfl (nframe_bat_id rfl)
  | _ =>
    simp only [step] at hs
    repeat' split at hs
    all_goals (first | (cases hs; done) | skip)
    all_goals (cases hs)
    all_goals exact hI.of_frame rfl (nframe_bat_id rfl)

theorem invMsgCount (cfg : Cfg) (s : State) (hr : Reachable cfg s) : InvMsgCount s :=
  (invariant_of_step cfg (fun s => Reachable cfg s ∧ InvMsgCount s) ⟨⟨[], rfl⟩, invMsgCount_init⟩
    (fun s e s' h hs => ⟨reachable_step h.1 hs,
      invMsgCount_step cfg s e s' (invPlace cfg s h.1) (invMsgs cfg s h.1) (invJournal cfg s h.1) (invFirst cfg s h.1)
        h.2 hs⟩) s hr).2

end KV.Writer
