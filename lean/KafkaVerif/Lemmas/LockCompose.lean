/-
Lemmas/LockCompose.lean — from per-goroutine runs of program skeletons (Model/LockProg.lean) to the global
executions of Model/Lockset.lean.

If, in a well-formed global execution, the events of goroutine `t` are (a prefix of) the events of a run of a
skeleton, then the locks the run says `t` holds at an access are really held by `t` in the global lock state at
that moment.  Together with `repo_locks_held` this turns clause R2 of `Respects` (locks recorded in the table are
held) from an assumption into a theorem about every execution whose goroutines follow the skeletons.
-/
import KafkaVerif.Lemmas.Lockset
import KafkaVerif.Lemmas.LockProg

namespace KV.LockProg
open KV.Lockset

/-! ### runs are consistent: the lockset recorded at an access is the replay of the preceding lock events -/

def consistent : LS → List LEv → Prop
  | _, [] => True
  | h, .acq x :: es => consistent (x :: h) es
  | h, .asm x :: es => consistent (x :: h) es
  | h, .rel m :: es => consistent (dropM m h) es
  | h, .acc _ hk :: es => hk = h ∧ consistent h es

theorem dropAll_cons (m : Mutex) (ms : List Mutex) (h : LS) : dropAll (m :: ms) h = dropAll ms (dropM m h) := by
  unfold dropAll dropM
  rw [List.filter_filter]
  congr 1
  funext x
  by_cases hx : x.m = m <;> simp [hx, Bool.and_comm]

theorem consistent_rels (ms : List Mutex) (h : LS) (rest : List LEv) (hc : consistent (dropAll ms h) rest) :
    consistent h (ms.map LEv.rel ++ rest) := by
  induction ms generalizing h with
  | nil =>
    have e : dropAll [] h = h := by simp [dropAll]
    rw [e] at hc; simpa using hc
  | cons m ms ih =>
    simp only [List.map_cons, List.cons_append, consistent]
    apply ih
    rw [← dropAll_cons]; exact hc

theorem run_consistent {env : Nat → Option Cmd} {c : Cmd} {h h' : LS} {evs : List LEv} {t : Out}
    (hrun : Run env c h evs h' t) : ∀ rest, consistent h' rest → consistent h (evs ++ rest) := by
  induction hrun with
  | skip => intro rest hc; simpa using hc
  | acq => intro rest hc; simpa [consistent] using hc
  | asm => intro rest hc; simpa [consistent] using hc
  | rel => intro rest hc; simpa [consistent] using hc
  | dfr => intro rest hc; simpa using hc
  | acc => intro rest hc; simpa [consistent] using hc
  | ret => intro rest hc; simpa using hc
  | jump => intro rest hc; simpa using hc
  | blockN _ ih => exact ih
  | blockR _ ih => exact ih
  | block0 _ ih => exact ih
  | blockS _ ih => exact ih
  | seqN _ _ ih₁ ih₂ => intro rest hc; rw [List.append_assoc]; exact ih₁ _ (ih₂ rest hc)
  | seqX _ _ ih => exact ih
  | altL _ ih => exact ih
  | altR _ ih => exact ih
  | loop0 => intro rest hc; simpa using hc
  | loopS _ _ ih₁ ih₂ => intro rest hc; rw [List.append_assoc]; exact ih₁ _ (ih₂ rest hc)
  | loopX _ _ ih => exact ih
  | spawn => intro rest hc; simpa using hc
  | icall _ _ _ ih =>
    intro rest hc
    rw [List.append_assoc]
    exact ih _ (consistent_rels _ _ _ hc)
  | @call f body h o h₁ t _ _ ih =>
    intro rest hc
    rw [List.append_assoc]
    exact ih _ (consistent_rels _ _ _ hc)

/-! ### the events of one goroutine in a global execution -/

inductive LSh where
  | acq (x : Hold) | asm (x : Hold) | rel (m : Mutex) | acc (k : Nat)
deriving DecidableEq, Repr

def shapeOf : LEv → LSh
  | .acq x => .acq x
  | .asm x => .asm x
  | .rel m => .rel m
  | .acc k _ => .acc k

/-- what a global event of goroutine `t` looks like in its own run (Lock = an exclusive and a shared hold,
    as the skeletons are written) -/
def locShape : Ev → List LSh
  | .acq _ m .excl => [.acq ⟨m, .excl⟩, .acq ⟨m, .shared⟩]
  | .acq _ m .shared => [.acq ⟨m, .shared⟩]
  | .rel _ m _ => [.rel m]
  | .acc _ a => [.acc a.site]
  | .assume _ m _ => [.asm ⟨m, .excl⟩, .asm ⟨m, .shared⟩]
  | _ => []

def projT (t : Tid) (es : List Ev) : List LSh := es.flatMap fun e => if e.tid = t then locShape e else []

/-- `t` holds `x`, a shared hold being satisfied by an exclusive one -/
def holdsAL (s : LState) (t : Tid) (x : Hold) : Prop :=
  holdsIn s t x ∨ (x.mode = .shared ∧ holdsIn s t ⟨x.m, .excl⟩)

theorem holdsAL_kept {s s' : LState} {e : Ev} {t : Tid} {x : Hold} (h : stepL s e = some s')
    (hh : holdsAL s t x) (hne : ∀ md, e ≠ .rel t x.m md) : holdsAL s' t x := by
  rcases hh with hh | ⟨hm, hh⟩
  · exact Or.inl (hold_kept (m := x.m) (mode := x.mode) h hh (hne x.mode))
  · exact Or.inr ⟨hm, hold_kept h hh (hne .excl)⟩

/-- annotations hold: wherever goroutine `t` is marked as assumed to hold a mutex, it does (exclusively) -/
def AsmOk (t : Tid) (s : LState) (es : List Ev) : Prop :=
  ∀ j m md s', es[j]? = some (.assume t m md) → runL s (es.take j) = some s' → holdsIn s' t ⟨m, .excl⟩

theorem asmOk_tail {t : Tid} {s s' : LState} {e : Ev} {es : List Ev} (hs : stepL s e = some s')
    (h : AsmOk t s (e :: es)) : AsmOk t s' es := by
  intro j m md s'' hj hr
  refine h (j + 1) m md s'' (by simpa using hj) ?_
  simp only [List.take_succ_cons, runL, hs]
  exact hr

/-- **Simulation.**  From a global state in which `t` really holds everything in `H`, along a global suffix `es`
    whose `t`-events are a prefix of the remaining local events `L` (consistent from `H`): at every access of `t`
    the run's recorded lockset is really held. -/
theorem sim (t : Tid) {es : List Ev} : ∀ {s send : LState} {H : LS} {L : List LEv},
    runL s es = some send → (∀ x, x ∈ H → holdsAL s t x) → consistent H L →
    projT t es <+: L.map shapeOf → AsmOk t s es →
    ∀ j a, es[j]? = some (.acc t a) →
      ∃ sj hk, runL s (es.take j) = some sj ∧ LEv.acc a.site hk ∈ L ∧ ∀ x, x ∈ hk → holdsAL sj t x := by
  induction es with
  | nil => intro s send H L _ _ _ _ _ j a hj; simp at hj
  | cons e es ih =>
    intro s send H L hrun hH hcons hpre hasm j a hj
    simp only [runL] at hrun
    cases hs : stepL s e with
    | none => rw [hs] at hrun; cases hrun
    | some s' =>
      rw [hs] at hrun
      have hrun' : runL s' es = some send := hrun
      have hasm' := asmOk_tail hs hasm
      -- the step is threaded through `take`
      have step_take : ∀ (j : Nat) (sj : LState), runL s' (es.take j) = some sj → runL s ((e :: es).take (j + 1)) = some sj := by
        intro j sj h; simp only [List.take_succ_cons, runL, hs]; exact h
      by_cases het : e.tid = t
      · -- an event of t: consume its local shapes
        have hproj : projT t (e :: es) = locShape e ++ projT t es := by simp [projT, het]
        rw [hproj] at hpre
        cases e with
        | acq t' m mode =>
          have ht : t' = t := het
          subst ht
          cases mode with
          | excl =>
            -- L = acq ⟨m,excl⟩ :: acq ⟨m,shared⟩ :: L'
            simp only [locShape, List.cons_append, List.nil_append] at hpre
            match L, hpre, hcons with
            | .acq x₁ :: .acq x₂ :: L', hpre, hcons =>
              simp only [List.map_cons, shapeOf] at hpre
              have h1 := (List.cons_prefix_cons.1 hpre)
              have h2 := (List.cons_prefix_cons.1 h1.2)
              have e1 : x₁ = ⟨m, .excl⟩ := by have := h1.1; cases this; rfl
              have e2 : x₂ = ⟨m, .shared⟩ := by have := h2.1; cases this; rfl
              subst e1; subst e2
              simp only [consistent] at hcons
              have hw : holdsIn s' t' ⟨m, .excl⟩ := by
                simp only [stepL] at hs
                split at hs
                · cases hs; rw [holdsIn_excl, set_same]
                · cases hs
              have hH' : ∀ x, x ∈ (⟨m, .shared⟩ :: ⟨m, .excl⟩ :: H : LS) → holdsAL s' t' x := by
                intro x hx
                rcases List.mem_cons.1 hx with rfl | hx
                · exact Or.inr ⟨rfl, hw⟩
                rcases List.mem_cons.1 hx with rfl | hx
                · exact Or.inl hw
                · exact holdsAL_kept hs (hH x hx) (fun md he => by cases he)
              cases j with
              | zero => simp at hj
              | succ j =>
                obtain ⟨sj, hk, hr, hmem, hheld⟩ := ih hrun' hH' hcons h2.2 hasm' j a (by simpa using hj)
                exact ⟨sj, hk, step_take j sj hr, by simp [hmem], hheld⟩
            | [], hpre, _ => simp at hpre
            | [_], hpre, _ => simp [shapeOf] at hpre
            | .asm _ :: _ :: _, hpre, _ => simp [shapeOf] at hpre
            | .rel _ :: _ :: _, hpre, _ => simp [shapeOf] at hpre
            | .acc _ _ :: _ :: _, hpre, _ => simp [shapeOf] at hpre
            | .acq _ :: .asm _ :: _, hpre, _ => simp [shapeOf] at hpre
            | .acq _ :: .rel _ :: _, hpre, _ => simp [shapeOf] at hpre
            | .acq _ :: .acc _ _ :: _, hpre, _ => simp [shapeOf] at hpre
          | shared =>
            simp only [locShape, List.cons_append, List.nil_append] at hpre
            match L, hpre, hcons with
            | .acq x₁ :: L', hpre, hcons =>
              simp only [List.map_cons, shapeOf] at hpre
              have h1 := (List.cons_prefix_cons.1 hpre)
              have e1 : x₁ = ⟨m, .shared⟩ := by have := h1.1; cases this; rfl
              subst e1
              simp only [consistent] at hcons
              have hr' : holdsIn s' t' ⟨m, .shared⟩ := by
                simp only [stepL] at hs
                split at hs
                · cases hs; rw [holdsIn_shared, set_same]; exact List.mem_cons_self
                · cases hs
              have hH' : ∀ x, x ∈ (⟨m, .shared⟩ :: H : LS) → holdsAL s' t' x := by
                intro x hx
                rcases List.mem_cons.1 hx with rfl | hx
                · exact Or.inl hr'
                · exact holdsAL_kept hs (hH x hx) (fun md he => by cases he)
              cases j with
              | zero => simp at hj
              | succ j =>
                obtain ⟨sj, hk, hr, hmem, hheld⟩ := ih hrun' hH' hcons h1.2 hasm' j a (by simpa using hj)
                exact ⟨sj, hk, step_take j sj hr, by simp [hmem], hheld⟩
            | [], hpre, _ => simp at hpre
            | .asm _ :: _, hpre, _ => simp [shapeOf] at hpre
            | .rel _ :: _, hpre, _ => simp [shapeOf] at hpre
            | .acc _ _ :: _, hpre, _ => simp [shapeOf] at hpre
        | rel t' m mode =>
          have ht : t' = t := het
          subst ht
          simp only [locShape, List.cons_append, List.nil_append] at hpre
          match L, hpre, hcons with
          | .rel m₁ :: L', hpre, hcons =>
            simp only [List.map_cons, shapeOf] at hpre
            have h1 := (List.cons_prefix_cons.1 hpre)
            have e1 : m₁ = m := by have := h1.1; cases this; rfl
            subst e1
            simp only [consistent] at hcons
            have hH' : ∀ x, x ∈ dropM m₁ H → holdsAL s' t' x := by
              intro x hx
              have hx' := List.mem_filter.1 hx
              have hne : x.m ≠ m₁ := by simpa using hx'.2
              exact holdsAL_kept hs (hH x hx'.1) (fun md he => by cases he; exact hne rfl)
            cases j with
            | zero => simp at hj
            | succ j =>
              obtain ⟨sj, hk, hr, hmem, hheld⟩ := ih hrun' hH' hcons h1.2 hasm' j a (by simpa using hj)
              exact ⟨sj, hk, step_take j sj hr, by simp [hmem], hheld⟩
          | [], hpre, _ => simp at hpre
          | .acq _ :: _, hpre, _ => simp [shapeOf] at hpre
          | .asm _ :: _, hpre, _ => simp [shapeOf] at hpre
          | .acc _ _ :: _, hpre, _ => simp [shapeOf] at hpre
        | acc t' a' =>
          have ht : t' = t := het
          subst ht
          simp only [locShape, List.cons_append, List.nil_append] at hpre
          have hs' : s' = s := by simp only [stepL] at hs; cases hs; rfl
          match L, hpre, hcons with
          | .acc k hk :: L', hpre, hcons =>
            simp only [List.map_cons, shapeOf] at hpre
            have h1 := (List.cons_prefix_cons.1 hpre)
            have e1 : k = a'.site := by have := h1.1; cases this; rfl
            subst e1
            simp only [consistent] at hcons
            obtain ⟨hkH, hcons⟩ := hcons
            cases j with
            | zero =>
              have : a = a' := by
                have : Ev.acc t' a' = Ev.acc t' a := by simpa using hj
                cases this; rfl
              subst this
              exact ⟨s, hk, by simp [runL], by simp, by rw [hkH]; exact hH⟩
            | succ j =>
              have hH' : ∀ x, x ∈ H → holdsAL s' t' x := by rw [hs']; exact hH
              obtain ⟨sj, hk', hr, hmem, hheld⟩ := ih hrun' hH' hcons h1.2 hasm' j a (by simpa using hj)
              exact ⟨sj, hk', step_take j sj hr, by simp [hmem], hheld⟩
          | [], hpre, _ => simp at hpre
          | .acq _ :: _, hpre, _ => simp [shapeOf] at hpre
          | .asm _ :: _, hpre, _ => simp [shapeOf] at hpre
          | .rel _ :: _, hpre, _ => simp [shapeOf] at hpre
        | assume t' m mode =>
          have ht : t' = t := het
          subst ht
          simp only [locShape, List.cons_append, List.nil_append] at hpre
          have hs' : s' = s := by simp only [stepL] at hs; cases hs; rfl
          have hheld₀ : holdsIn s t' ⟨m, .excl⟩ := hasm 0 m mode s (by simp) (by simp [runL])
          match L, hpre, hcons with
          | .asm x₁ :: .asm x₂ :: L', hpre, hcons =>
            simp only [List.map_cons, shapeOf] at hpre
            have h1 := (List.cons_prefix_cons.1 hpre)
            have h2 := (List.cons_prefix_cons.1 h1.2)
            have e1 : x₁ = ⟨m, .excl⟩ := by have := h1.1; cases this; rfl
            have e2 : x₂ = ⟨m, .shared⟩ := by have := h2.1; cases this; rfl
            subst e1; subst e2
            simp only [consistent] at hcons
            have hH' : ∀ x, x ∈ (⟨m, .shared⟩ :: ⟨m, .excl⟩ :: H : LS) → holdsAL s' t' x := by
              rw [hs']
              intro x hx
              rcases List.mem_cons.1 hx with rfl | hx
              · exact Or.inr ⟨rfl, hheld₀⟩
              rcases List.mem_cons.1 hx with rfl | hx
              · exact Or.inl hheld₀
              · exact hH x hx
            cases j with
            | zero => simp at hj
            | succ j =>
              obtain ⟨sj, hk, hr, hmem, hheld⟩ := ih hrun' hH' hcons h2.2 hasm' j a (by simpa using hj)
              exact ⟨sj, hk, step_take j sj hr, by simp [hmem], hheld⟩
          | [], hpre, _ => simp at hpre
          | [_], hpre, _ => simp [shapeOf] at hpre
          | .acq _ :: _ :: _, hpre, _ => simp [shapeOf] at hpre
          | .rel _ :: _ :: _, hpre, _ => simp [shapeOf] at hpre
          | .acc _ _ :: _ :: _, hpre, _ => simp [shapeOf] at hpre
          | .asm _ :: .acq _ :: _, hpre, _ => simp [shapeOf] at hpre
          | .asm _ :: .rel _ :: _, hpre, _ => simp [shapeOf] at hpre
          | .asm _ :: .acc _ _ :: _, hpre, _ => simp [shapeOf] at hpre
        | spawn t' c =>
          have hs' : s' = s := by simp only [stepL] at hs; cases hs; rfl
          simp only [locShape, List.nil_append] at hpre
          cases j with
          | zero => simp at hj
          | succ j =>
            obtain ⟨sj, hk, hr, hmem, hheld⟩ := ih hrun' (by rw [hs']; exact hH) hcons hpre hasm' j a (by simpa using hj)
            exact ⟨sj, hk, step_take j sj hr, hmem, hheld⟩
        | signal t' c =>
          have hs' : s' = s := by simp only [stepL] at hs; cases hs; rfl
          simp only [locShape, List.nil_append] at hpre
          cases j with
          | zero => simp at hj
          | succ j =>
            obtain ⟨sj, hk, hr, hmem, hheld⟩ := ih hrun' (by rw [hs']; exact hH) hcons hpre hasm' j a (by simpa using hj)
            exact ⟨sj, hk, step_take j sj hr, hmem, hheld⟩
        | wait t' c =>
          have hs' : s' = s := by simp only [stepL] at hs; cases hs; rfl
          simp only [locShape, List.nil_append] at hpre
          cases j with
          | zero => simp at hj
          | succ j =>
            obtain ⟨sj, hk, hr, hmem, hheld⟩ := ih hrun' (by rw [hs']; exact hH) hcons hpre hasm' j a (by simpa using hj)
            exact ⟨sj, hk, step_take j sj hr, hmem, hheld⟩
      · -- an event of another goroutine: it cannot take away what t holds
        have hproj : projT t (e :: es) = projT t es := by simp [projT, het]
        rw [hproj] at hpre
        have hH' : ∀ x, x ∈ H → holdsAL s' t x := by
          intro x hx
          refine holdsAL_kept hs (hH x hx) (fun md he => ?_)
          rw [he] at het; exact het rfl
        cases j with
        | zero =>
          have : e = Ev.acc t a := by simpa using hj
          rw [this] at het; exact absurd rfl het
        | succ j =>
          obtain ⟨sj, hk, hr, hmem, hheld⟩ := ih hrun' hH' hcons hpre hasm' j a (by simpa using hj)
          exact ⟨sj, hk, step_take j sj hr, hmem, hheld⟩

end KV.LockProg
