/-
Lemmas/WriterProgress.lean — fairness-free progress of a partition writer (C08 "flushed without further input").

`InvProg`: small facts about sender positions (attempt numbers below MaxAttempts, …).
`pwCost`: a natural-number measure of the work left in a partition writer's pipeline.
`internal_decreases`: every internal event of the partition writer (timer fires for the attached batch, timer
detach, queue.Put, queue.Get, attempt, broker decision, end of attempt, Completion, complete) strictly decreases it;
`internal_enabled`: while the pipeline is not empty some internal event is enabled — no caller input needed;
`flush_terminates`: hence from every reachable state there is a continuation of at most `pwCost` internal events
after which the pipeline is empty: every batch that was in it has been attempted until acknowledged or until its
attempts were exhausted / a permanent error, its Completion has run and it is completed.
-/
import KafkaVerif.Lemmas.WriterSched
namespace KV.Writer

/-! ## Facts needed for progress -/

structure PWProg (cfg : Cfg) (P : PW) : Prop where
  readyBound : ∀ b k, P.sender = .ready b k → k < cfg.maxAttempts
  attBound : ∀ b k br, P.sender = .attempting b k br → k < cfg.maxAttempts
  finTrue : ∀ b c, P.sender = .finishing b c true → cfg.completion = true
  rejNonzero : ∀ b k c, P.sender = .attempting b k (some (.rejected c)) → c ≠ 0
  exitedEmpty : P.sender = .exited → P.queue = [] ∧ P.qclosed = true
  pendingCurr : P.pending.isSome = true → P.curr = none

structure InvProg (cfg : Cfg) (s : State) : Prop where
  pw : ∀ pw P, s.pws pw = some P → PWProg cfg P
  batchTp : ∀ b B, s.batches b = some B → ∃ P, s.pws B.pw = some P ∧ B.tp = P.tp

theorem invProg_init (cfg : Cfg) : InvProg cfg State.init := by
  constructor <;> simp [State.init]

/-- the sender, queue-closed flag, queue, pending and curr are unchanged -/
theorem PWProg.congr {cfg : Cfg} {P P' : PW} (h : PWProg cfg P) (h1 : P'.sender = P.sender) (h2 : P'.queue = P.queue)
    (h3 : P'.qclosed = P.qclosed) (h4 : P'.pending = P.pending) (h5 : P'.curr = P.curr) : PWProg cfg P' := by
  constructor
  · intro b k hs; exact h.readyBound b k (h1 ▸ hs)
  · intro b k br hs; exact h.attBound b k br (h1 ▸ hs)
  · intro b c hs; exact h.finTrue b c (h1 ▸ hs)
  · intro b k c hs; exact h.rejNonzero b k c (h1 ▸ hs)
  · intro hs; rw [h2, h3]; exact h.exitedEmpty (h1 ▸ hs)
  · intro hp; rw [h5]; exact h.pendingCurr (h4 ▸ hp)

/-- frame for `batchTp`: partition writers keep their tp, batches keep pw and tp -/
theorem batchTp_frame {s s' : State}
    (h : ∀ b B, s.batches b = some B → ∃ P, s.pws B.pw = some P ∧ B.tp = P.tp)
    (hpws : ∀ pw P, s.pws pw = some P → ∃ P', s'.pws pw = some P' ∧ P'.tp = P.tp)
    (hbat : ∀ b B', s'.batches b = some B' → ∃ B, s.batches b = some B ∧ B'.pw = B.pw ∧ B'.tp = B.tp) :
    ∀ b B', s'.batches b = some B' → ∃ P', s'.pws B'.pw = some P' ∧ B'.tp = P'.tp := by
  intro b B' hB'
  obtain ⟨B, hB, e1, e2⟩ := hbat b B' hB'
  obtain ⟨P, hP, e3⟩ := h b B hB
  obtain ⟨P', hP', e4⟩ := hpws _ P hP
  exact ⟨P', by rw [e1]; exact hP', by rw [e2, e3, e4]⟩

theorem gpws_id {s : State} : ∀ pw P, s.pws pw = some P → ∃ P', s.pws pw = some P' ∧ P'.tp = P.tp :=
  fun _ P h => ⟨P, h, rfl⟩

theorem gpws_upd {s : State} {pws' : Nat → Option PW} {pw : Nat} {P P' : PW} (hP : s.pws pw = some P)
    (e : pws' = upd s.pws pw (some P')) (ht : P'.tp = P.tp) :
    ∀ x X, s.pws x = some X → ∃ X', pws' x = some X' ∧ X'.tp = X.tp := by
  intro x X hx
  by_cases hxp : x = pw
  · subst hxp; rw [hP] at hx; cases hx; exact ⟨P', by rw [e]; simp, ht⟩
  · exact ⟨X, by rw [e, upd_other _ _ _ _ hxp]; exact hx, rfl⟩

theorem gbat_id {s : State} : ∀ b B', s.batches b = some B' → ∃ B, s.batches b = some B ∧ B'.pw = B.pw ∧ B'.tp = B.tp :=
  fun _ B h => ⟨B, h, rfl, rfl⟩

theorem gbat_upd {s : State} {bt' : Nat → Option Batch} {b : Nat} {B B' : Batch} (hB : s.batches b = some B)
    (e : bt' = upd s.batches b (some B')) (h1 : B'.pw = B.pw) (h2 : B'.tp = B.tp) :
    ∀ x X', bt' x = some X' → ∃ X, s.batches x = some X ∧ X'.pw = X.pw ∧ X'.tp = X.tp := by
  intro x X' hx
  rw [e] at hx
  rcases upd_some_elim hx with ⟨rfl, rfl⟩ | ⟨-, h⟩
  · exact ⟨B, hB, h1, h2⟩
  · exact ⟨X', h, rfl, rfl⟩

/-- one partition writer changes (everything about batches' pw/tp is kept) -/
theorem InvProg.of_pw_upd {cfg : Cfg} {s s' : State} (h : InvProg cfg s) {pw : Nat} {P P' : PW} (hP : s.pws pw = some P)
    (ep : s'.pws = upd s.pws pw (some P')) (ht : P'.tp = P.tp) (hnew : PWProg cfg P')
    (hbat : ∀ b B', s'.batches b = some B' → ∃ B, s.batches b = some B ∧ B'.pw = B.pw ∧ B'.tp = B.tp) : InvProg cfg s' := by
  constructor
  · intro x X' hx
    rw [ep] at hx
    rcases upd_some_elim hx with ⟨rfl, rfl⟩ | ⟨-, hx⟩
    · exact hnew
    · exact h.pw x X' hx
  · exact batchTp_frame h.batchTp (fun x X hx => by rw [ep]; exact gpws_upd hP rfl ht x X hx) hbat

/-- no partition writer changes -/
theorem InvProg.of_pws_same {cfg : Cfg} {s s' : State} (h : InvProg cfg s) (ep : s'.pws = s.pws)
    (hbat : ∀ b B', s'.batches b = some B' → ∃ B, s.batches b = some B ∧ B'.pw = B.pw ∧ B'.tp = B.tp) : InvProg cfg s' := by
  constructor
  · intro x X' hx; rw [ep] at hx; exact h.pw x X' hx
  · exact batchTp_frame h.batchTp (fun x X hx => by rw [ep]; exact ⟨X, hx, rfl⟩) hbat

end KV.Writer

namespace KV.Writer

theorem invProg_step (cfg : Cfg) (hmax : 1 ≤ cfg.maxAttempts) (s : State) (e : Event) (s' : State) (hI : InvProg cfg s)
    (hs : step cfg s e = some s') : InvProg cfg s' := by
  cases e with
  | detach pw b why size =>
    simp only [step, stepDetach] at hs
    repeat' split at hs
    all_goals (first | (cases hs; done) | skip)
    rename_i _ P hP _ B hB hg
    cases hs
    have h := hI.pw pw P hP
    refine hI.of_pw_upd hP rfl rfl ?_ (gbat_upd (B' := { B with detached := some why }) hB rfl rfl rfl)
    exact ⟨h.readyBound, h.attBound, h.finTrue, h.rejNonzero, h.exitedEmpty, fun _ => rfl⟩
  | qput q b acc =>
    simp only [step] at hs
    repeat' split at hs
    all_goals (first | (cases hs; done) | skip)
    rename_i _ pw hq _ P hP hg
    obtain ⟨-, hc, hacc⟩ := hg
    cases hs
    have h := hI.pw pw P hP
    refine hI.of_pw_upd hP rfl rfl ?_ gbat_id
    refine ⟨h.readyBound, h.attBound, h.finTrue, h.rejNonzero, ?_, fun hp => by simp at hp⟩
    intro hex
    obtain ⟨hq0, hqc⟩ := h.exitedEmpty hex
    refine ⟨?_, hqc⟩
    show enq P.queue b acc = []
    rw [hacc, hqc, hq0]; rfl
  | qget q ob =>
    simp only [step] at hs
    repeat' split at hs
    all_goals (first | (cases hs; done) | skip)
    · rename_i _ pw hq _ P hP _ b hg
      cases hs
      have h := hI.pw pw P hP
      refine hI.of_pw_upd hP rfl rfl ?_ gbat_id
      refine ⟨?_, ?_, ?_, ?_, ?_, h.pendingCurr⟩
      · intro b' k hk; cases hk; exact hmax
      · intro b' k br hk; cases hk
      · intro b' c hk; cases hk
      · intro b' k c hk; cases hk
      · intro hk; cases hk
    · rename_i _ pw hq _ P hP _ hg
      cases hs
      have h := hI.pw pw P hP
      refine hI.of_pw_upd hP rfl rfl ?_ gbat_id
      refine ⟨?_, ?_, ?_, ?_, fun _ => ⟨hg.2.1, hg.2.2⟩, h.pendingCurr⟩
      · intro b' k hk; cases hk
      · intro b' k br hk; cases hk
      · intro b' c hk; cases hk
      · intro b' k c hk; cases hk
  | qclose q =>
    simp only [step] at hs
    repeat' split at hs
    all_goals (first | (cases hs; done) | skip)
    rename_i _ pw hq _ P hP hg
    cases hs
    have h := hI.pw pw P hP
    refine hI.of_pw_upd hP rfl rfl ?_ gbat_id
    exact ⟨h.readyBound, h.attBound, h.finTrue, h.rejNonzero, fun hex => ⟨(h.exitedEmpty hex).1, rfl⟩, h.pendingCurr⟩
  | attempt pw b k =>
    simp only [step] at hs
    repeat' split at hs
    all_goals (first | (cases hs; done) | skip)
    rename_i _ P hP hg
    cases hs
    have h := hI.pw pw P hP
    refine hI.of_pw_upd hP rfl rfl ?_ gbat_id
    refine ⟨?_, ?_, ?_, ?_, ?_, h.pendingCurr⟩
    · intro b' k' hk; cases hk
    · intro b' k' br hk; cases hk; exact hg.2
    · intro b' c hk; cases hk
    · intro b' k' c hk; cases hk
    · intro hk; cases hk
  | produce pw tp msgs out =>
    simp only [step, stepProduce] at hs
    repeat' split at hs
    all_goals (first | (cases hs; done) | skip)
    rename_i _ P hP _ b k hsend _ B hB hg
    obtain ⟨-, -, -, -, hout⟩ := hg
    cases hs
    have h := hI.pw pw P hP
    refine hI.of_pw_upd (P' := { P with sender := .attempting b k (some out) }) hP rfl rfl ?_
      (gbat_upd (B' := B.noteProduce out) hB rfl rfl rfl)
    refine ⟨?_, ?_, ?_, ?_, ?_, h.pendingCurr⟩
    · intro b' k' hk; cases hk
    · intro b' k' br hk; cases hk; exact h.attBound b k none hsend
    · intro b' c hk; cases hk
    · intro b' k' c hk; cases hk; intro h0; exact hout (by rw [h0])
    · intro hk; cases hk
  | attemptDone pw b k code =>
    simp only [step] at hs
    repeat' split at hs
    all_goals (first | (cases hs; done) | skip)
    rename_i _ P hP _ b' k' br hsend hg
    obtain ⟨rfl, rfl, -⟩ := hg
    cases hs
    have h := hI.pw pw P hP
    refine hI.of_pw_upd hP rfl rfl ?_ gbat_id
    refine ⟨?_, ?_, ?_, ?_, ?_, h.pendingCurr⟩
    · intro b k hk
      simp only [afterAttempt] at hk
      split at hk
      · cases hk
      · split at hk
        · rename_i hr; cases hk; exact hr.2
        · cases hk
    · intro b k br' hk
      simp only [afterAttempt] at hk
      split at hk
      · cases hk
      · split at hk <;> cases hk
    · intro b c hk
      simp only [afterAttempt] at hk
      split at hk
      · cases hk
      · split at hk <;> cases hk
    · intro b k c hk
      simp only [afterAttempt] at hk
      split at hk
      · cases hk
      · split at hk <;> cases hk
    · intro hk
      simp only [afterAttempt] at hk
      split at hk
      · cases hk
      · split at hk <;> cases hk
  | completion pw b code =>
    simp only [step] at hs
    repeat' split at hs
    all_goals (first | (cases hs; done) | skip)
    rename_i _ P hP _ B hB hg
    cases hs
    have h := hI.pw pw P hP
    refine hI.of_pw_upd (P' := { P with sender := .finishing b code true }) hP rfl rfl ?_
      (gbat_upd (B' := { B with ncompl := B.ncompl + 1, cbCode := some code }) hB rfl rfl rfl)
    refine ⟨?_, ?_, fun _ _ _ => hg.1, ?_, ?_, h.pendingCurr⟩
    · intro b' k' hk; cases hk
    · intro b' k' br hk; cases hk
    · intro b' k' c hk; cases hk
    · intro hk; cases hk
  | complete pw b code =>
    simp only [step] at hs
    repeat' split at hs
    all_goals (first | (cases hs; done) | skip)
    rename_i _ P hP _ B hB hg
    cases hs
    have h := hI.pw pw P hP
    refine hI.of_pw_upd (P' := { P with sender := .idle }) hP rfl rfl ?_
      (gbat_upd (B' := { B with done := some code }) hB rfl rfl rfl)
    refine ⟨?_, ?_, ?_, ?_, ?_, h.pendingCurr⟩
    · intro b' k' hk; cases hk
    · intro b' k' br hk; cases hk
    · intro b' c hk; cases hk
    · intro b' k' c hk; cases hk
    · intro hk; cases hk
  | newBatch pw b =>
    simp only [step] at hs
    repeat' split at hs
    all_goals (first | (cases hs; done) | skip)
    rename_i _ P hP hg
    obtain ⟨-, -, hpend, hb, -⟩ := hg
    have hnone : s.batches b = none := by simpa using hb
    cases hs
    have h := hI.pw pw P hP
    constructor
    · intro x X' hx
      rcases upd_some_elim hx with ⟨rfl, rfl⟩ | ⟨-, hx⟩
      · exact ⟨h.readyBound, h.attBound, h.finTrue, h.rejNonzero, h.exitedEmpty, fun hp => by simp [hpend] at hp⟩
      · exact hI.pw x X' hx
    · intro y Y' hy
      rcases upd_some_elim hy with ⟨rfl, rfl⟩ | ⟨-, hy⟩
      · exact ⟨{ P with curr := some y, nbatches := P.nbatches + 1 }, by show upd s.pws pw _ pw = _; simp, rfl⟩
      · obtain ⟨X, hX, e⟩ := hI.batchTp y Y' hy
        obtain ⟨X', hX', e'⟩ := gpws_upd (P' := { P with curr := some b, nbatches := P.nbatches + 1 }) hP rfl rfl _ X hX
        exact ⟨X', hX', by rw [e, e']⟩
  | newPW pw q tp =>
    simp only [step] at hs
    repeat' split at hs
    all_goals (first | (cases hs; done) | skip)
    rename_i hg
    obtain ⟨-, -, -, h2, -⟩ := hg
    have h2' : s.pws pw = none := by simpa using h2
    cases hs
    constructor
    · intro x X' hx
      rcases upd_some_elim hx with ⟨rfl, rfl⟩ | ⟨-, hx⟩
      · constructor <;> simp [PW.new]
      · exact hI.pw x X' hx
    · intro y Y hy
      obtain ⟨X, hX, e⟩ := hI.batchTp y Y hy
      have hne : Y.pw ≠ pw := by intro e'; rw [e', h2'] at hX; cases hX
      exact ⟨X, by show upd s.pws pw _ _ = _; rw [upd_other _ _ _ _ hne]; exact hX, e⟩
  | timerFire pw b att =>
    simp only [step] at hs
    repeat' split at hs
    all_goals (first | (cases hs; done) | skip)
    rename_i _ P hP _ B hB hg
    cases hs
    exact hI.of_pws_same rfl (gbat_upd (B' := { B with timerFired := true }) hB rfl rfl rfl)
  | add pw b c i size =>
    simp only [step, stepAdd] at hs
    repeat' split at hs
    all_goals (first | (cases hs; done) | skip)
    rename_i _ P hP _ B hB _ C hC hg
    cases hs
    exact hI.of_pws_same rfl (gbat_upd (B' := B.push { msg := (c, i), size := size, seq := s.seq }) hB rfl rfl rfl)
  | _ =>
    simp only [step, stepReject, stepRet] at hs
    repeat' split at hs
    all_goals (first | (cases hs; done) | skip)
    all_goals (cases hs)
    all_goals exact hI.of_pws_same rfl gbat_id

end KV.Writer

namespace KV.Writer

def senderCost (cfg : Cfg) : Sender → Nat
  | .idle => 0
  | .exited => 0
  | .ready _ k => 3 * (cfg.maxAttempts - k) + 2
  | .attempting _ k none => 3 * (cfg.maxAttempts - k) + 1
  | .attempting _ k (some _) => 3 * (cfg.maxAttempts - k)
  | .finishing _ _ false => 2
  | .finishing _ _ true => 1

/-- steps a queued batch still needs once the sender has taken it -/
def batchCost (cfg : Cfg) : Nat := 3 * cfg.maxAttempts + 2

def timerCost (bt : Nat → Option Batch) (b : Nat) : Nat :=
  match bt b with
  | some B => if B.timerFired then 0 else 1
  | none => 0

def currCost (cfg : Cfg) (bt : Nat → Option Batch) : Option Nat → Nat
  | some b => batchCost cfg + 3 + timerCost bt b
  | none => 0

/-- work left in the pipeline of a partition writer, counted in internal events -/
def pwCost (cfg : Cfg) (bt : Nat → Option Batch) (P : PW) : Nat :=
  senderCost cfg P.sender + P.queue.length * (batchCost cfg + 1) +
  (if P.pending.isSome then batchCost cfg + 2 else 0) + currCost cfg bt P.curr

/-- the events of partition writer pw that need no caller: its timer, its queue hand-over, its sender, its broker -/
def internalFor (s : State) (pw : Nat) : Event → Bool
  | .timerFire pw' b true => pw' == pw && (match s.batches b with | some B => !B.timerFired | none => false)
  | .detach pw' _ .timer _ => pw' == pw
  | .qput q _ _ => s.qOf q == some pw
  | .qget q (some _) => s.qOf q == some pw
  | .attempt pw' _ _ => pw' == pw
  | .produce pw' _ _ _ => pw' == pw
  | .attemptDone pw' _ _ _ => pw' == pw
  | .completion pw' _ _ => pw' == pw
  | .complete pw' _ _ => pw' == pw
  | _ => false

theorem currCost_upd {cfg : Cfg} {bt : Nat → Option Batch} {b : Nat} {B B' : Batch} (hB : bt b = some B)
    (ht : B'.timerFired = B.timerFired) (c : Option Nat) : currCost cfg (upd bt b (some B')) c = currCost cfg bt c := by
  cases c with
  | none => rfl
  | some x =>
    simp only [currCost, timerCost]
    by_cases hx : x = b
    · subst hx; simp [hB, ht]
    · rw [upd_other _ _ _ _ hx]

theorem internal_decreases (cfg : Cfg) (s s' : State) (hI : InvProg cfg s) (pw : Nat) (P : PW) (hP : s.pws pw = some P)
    (e : Event) (hint : internalFor s pw e = true) (hs : step cfg s e = some s') :
    ∃ P', s'.pws pw = some P' ∧ pwCost cfg s'.batches P' < pwCost cfg s.batches P := by
  have hp := hI.pw pw P hP
  cases e with
  | timerFire pw' b att =>
    cases att with
    | false => simp [internalFor] at hint
    | true =>
      simp only [internalFor, Bool.and_eq_true, beq_iff_eq] at hint
      obtain ⟨rfl, hnf⟩ := hint
      simp only [step, hP] at hs
      repeat' split at hs
      all_goals (first | (cases hs; done) | skip)
      rename_i _ B hB hg
      obtain ⟨-, -, hatt⟩ := hg
      have hc : P.curr = some b := by simpa using hatt.symm
      have hnf' : B.timerFired = false := by simpa [hB] using hnf
      cases hs
      refine ⟨P, hP, ?_⟩
      simp only [pwCost, hc, currCost, timerCost, upd_same, hB, hnf']
      simp
  | detach pw' b why size =>
    cases why with
    | timer =>
      simp only [internalFor, beq_iff_eq] at hint
      subst hint
      simp only [step, stepDetach, hP] at hs
      repeat' split at hs
      all_goals (first | (cases hs; done) | skip)
      rename_i _ B hB hg
      obtain ⟨hc, hpend, -, -⟩ := hg
      cases hs
      refine ⟨{ P with curr := none, pending := some b }, by simp, ?_⟩
      simp only [pwCost, hc, hpend, currCost]
      simp
      omega
    | _ => simp [internalFor] at hint
  | qput q b acc =>
    simp only [internalFor, beq_iff_eq] at hint
    simp only [step, hint, hP] at hs
    repeat' split at hs
    all_goals (first | (cases hs; done) | skip)
    rename_i hg
    obtain ⟨hpend, hc, -⟩ := hg
    cases hs
    refine ⟨{ P with pending := none, queue := enq P.queue b acc }, by simp, ?_⟩
    simp only [pwCost, hc, hpend, currCost]
    cases acc <;> simp [enq, Nat.add_mul] <;> omega
  | qget q ob =>
    cases ob with
    | none => simp [internalFor] at hint
    | some b =>
      simp only [internalFor, beq_iff_eq] at hint
      simp only [step, hint, hP] at hs
      repeat' split at hs
      all_goals (first | (cases hs; done) | skip)
      rename_i hg
      obtain ⟨hsend, hhead⟩ := hg
      have hq := head?_cons_tail hhead
      cases hs
      refine ⟨{ P with queue := P.queue.tail, sender := .ready b 0 }, by simp, ?_⟩
      simp only [pwCost, hsend, senderCost]
      rw [hq]
      simp [batchCost, Nat.add_mul]
      omega
  | attempt pw' b k =>
    simp only [internalFor, beq_iff_eq] at hint
    subst hint
    simp only [step, hP] at hs
    repeat' split at hs
    all_goals (first | (cases hs; done) | skip)
    rename_i hg
    cases hs
    refine ⟨{ P with sender := .attempting b k none }, by simp, ?_⟩
    simp only [pwCost, hg.1, senderCost]
    omega
  | produce pw' tp msgs out =>
    simp only [internalFor, beq_iff_eq] at hint
    subst hint
    simp only [step, stepProduce, hP] at hs
    repeat' split at hs
    all_goals (first | (cases hs; done) | skip)
    rename_i _ b k hsend _ B hB hg
    cases hs
    refine ⟨{ P with sender := .attempting b k (some out) }, by simp [produced], ?_⟩
    have hk := hp.attBound b k none hsend
    simp only [produced, pwCost, hsend, senderCost, currCost_upd hB (show (B.noteProduce out).timerFired = B.timerFired from rfl)]
    omega
  | attemptDone pw' b k code =>
    simp only [internalFor, beq_iff_eq] at hint
    subst hint
    simp only [step, hP] at hs
    repeat' split at hs
    all_goals (first | (cases hs; done) | skip)
    rename_i _ b' k' br hsend hg
    obtain ⟨rfl, rfl, -⟩ := hg
    cases hs
    refine ⟨{ P with sender := afterAttempt cfg b' k' code }, by simp, ?_⟩
    have hk := hp.attBound b' k' br hsend
    have hold : 3 * (cfg.maxAttempts - k') ≤ senderCost cfg (.attempting b' k' br) := by
      cases br <;> simp [senderCost]
    have hnew : senderCost cfg (afterAttempt cfg b' k' code) < 3 * (cfg.maxAttempts - k') := by
      unfold afterAttempt
      split
      · simp [senderCost]; omega
      · split
        · rename_i hr; simp [senderCost]; omega
        · simp [senderCost]; omega
    simp only [pwCost, hsend]
    omega
  | completion pw' b code =>
    simp only [internalFor, beq_iff_eq] at hint
    subst hint
    simp only [step, hP] at hs
    repeat' split at hs
    all_goals (first | (cases hs; done) | skip)
    rename_i _ B hB hg
    cases hs
    refine ⟨{ P with sender := .finishing b code true }, by simp, ?_⟩
    simp only [pwCost, hg.2, senderCost,
      currCost_upd hB (show ({ B with ncompl := B.ncompl + 1, cbCode := some code } : Batch).timerFired = B.timerFired from rfl)]
    omega
  | complete pw' b code =>
    simp only [internalFor, beq_iff_eq] at hint
    subst hint
    simp only [step, hP] at hs
    repeat' split at hs
    all_goals (first | (cases hs; done) | skip)
    rename_i _ B hB hg
    cases hs
    refine ⟨{ P with sender := .idle }, by simp, ?_⟩
    simp only [pwCost, hg, senderCost, currCost_upd hB (show ({ B with done := some code } : Batch).timerFired = B.timerFired from rfl)]
    cases cfg.completion <;> simp [senderCost] <;> omega
  | _ => simp [internalFor] at hint

end KV.Writer

namespace KV.Writer

theorem reachable_step {cfg : Cfg} {s s' : State} {e : Event} (hr : Reachable cfg s) (hs : step cfg s e = some s') :
    Reachable cfg s' := by
  obtain ⟨es, hes⟩ := hr
  refine ⟨es ++ [e], ?_⟩
  rw [run_append, hes]
  simp [run, hs]

theorem invProg (cfg : Cfg) (hmax : 1 ≤ cfg.maxAttempts) : ∀ s, Reachable cfg s → InvProg cfg s :=
  invariant_of_step cfg (InvProg cfg) (invProg_init cfg) (fun s e s' => invProg_step cfg hmax s e s')

theorem internal_enabled (cfg : Cfg) (hmax : 1 ≤ cfg.maxAttempts) (s : State) (hr : Reachable cfg s) (hfresh : s.fresh = none)
    (pw : Nat) (P : PW) (hP : s.pws pw = some P) (hne : P.pipe ≠ []) :
    ∃ e, internalFor s pw e = true ∧ (step cfg s e).isSome = true := by
  have hG := invProg cfg hmax s hr
  have hO := invOrd cfg s hr
  have hS := invSched cfg s hr
  have hp := hG.pw pw P hP
  have hq := hS.qOfInv pw P hP
  -- the batch the sender holds exists, belongs to pw and has pw's topic-partition
  have hheld : ∀ b, P.sender.batch? = some b → ∃ B, s.batches b = some B ∧ B.pw = pw ∧ B.tp = P.tp := by
    intro b hb
    obtain ⟨B, hB, hpw⟩ := hO.pipeEx pw P hP b (sender_mem_pipe hb)
    obtain ⟨P0, hP0, htp⟩ := hG.batchTp b B hB
    rw [hpw, hP] at hP0; cases hP0
    exact ⟨B, hB, hpw, htp⟩
  cases hsend : P.sender with
  | ready b k =>
    have hk := hp.readyBound b k hsend
    exact ⟨.attempt pw b k, by simp [internalFor], by simp [step, hP, hsend, hk]⟩
  | attempting b k br =>
    cases br with
    | none =>
      obtain ⟨B, hB, hpw, htp⟩ := hheld b (by rw [hsend]; rfl)
      refine ⟨.produce pw P.tp (B.msgs.map (·.msg)) .acked, by simp [internalFor], ?_⟩
      simp [step, stepProduce, hP, hsend, hB, hpw, htp]
    | some o =>
      cases o with
      | acked => exact ⟨.attemptDone pw b k 0, by simp [internalFor], by simp [step, hP, hsend, consistent]⟩
      | lost a => exact ⟨.attemptDone pw b k 1001, by simp [internalFor], by simp [step, hP, hsend, consistent]⟩
      | rejected c =>
        have hc := hp.rejNonzero b k c hsend
        exact ⟨.attemptDone pw b k c, by simp [internalFor], by simp [step, hP, hsend, consistent, hc]⟩
  | finishing b c cb =>
    obtain ⟨B, hB, -, -⟩ := hheld b (by rw [hsend]; rfl)
    cases cb with
    | true =>
      have hc := hp.finTrue b c hsend
      exact ⟨.complete pw b c, by simp [internalFor], by simp [step, hP, hsend, hB, hc]⟩
    | false =>
      cases hc : cfg.completion with
      | true => exact ⟨.completion pw b c, by simp [internalFor], by simp [step, hP, hsend, hB, hc]⟩
      | false => exact ⟨.complete pw b c, by simp [internalFor], by simp [step, hP, hsend, hB, hc]⟩
  | idle =>
    cases hqu : P.queue with
    | cons h t =>
      exact ⟨.qget P.q (some h), by simp [internalFor, hq], by simp [step, hq, hP, hsend, hqu]⟩
    | nil =>
      cases hpe : P.pending with
      | some b =>
        have hc := hp.pendingCurr (by simp [hpe])
        exact ⟨.qput P.q b (!P.qclosed), by simp [internalFor, hq], by simp [step, hq, hP, hpe, hc]⟩
      | none =>
        cases hcu : P.curr with
        | none => exact absurd (by simp [PW.pipe, hsend, Sender.batch?, hqu, hpe, hcu]) hne
        | some b =>
          obtain ⟨B, hB, hpw, hdet⟩ := hS.currOpen pw P hP b hcu
          cases htf : B.timerFired with
          | false =>
            exact ⟨.timerFire pw b true, by simp [internalFor, hB, htf], by simp [step, hP, hB, hpe, hpw, hcu]⟩
          | true =>
            exact ⟨.detach pw b .timer 0, by simp [internalFor], by simp [step, stepDetach, hP, hB, hcu, hpe, hdet, whyOk, htf, hfresh]⟩
  | exited =>
    obtain ⟨hqu, -⟩ := hp.exitedEmpty hsend
    cases hpe : P.pending with
    | some b =>
      have hc := hp.pendingCurr (by simp [hpe])
      exact ⟨.qput P.q b (!P.qclosed), by simp [internalFor, hq], by simp [step, hq, hP, hpe, hc]⟩
    | none =>
      cases hcu : P.curr with
      | none => exact absurd (by simp [PW.pipe, hsend, Sender.batch?, hqu, hpe, hcu]) hne
      | some b =>
        obtain ⟨B, hB, hpw, hdet⟩ := hS.currOpen pw P hP b hcu
        cases htf : B.timerFired with
        | false =>
          exact ⟨.timerFire pw b true, by simp [internalFor, hB, htf], by simp [step, hP, hB, hpe, hpw, hcu]⟩
        | true =>
          exact ⟨.detach pw b .timer 0, by simp [internalFor], by simp [step, stepDetach, hP, hB, hcu, hpe, hdet, whyOk, htf, hfresh]⟩

end KV.Writer

namespace KV.Writer

/-- internal events do not open or close the "batch just created, first add pending" window -/
theorem internal_keeps_fresh (cfg : Cfg) (s s' : State) (pw : Nat) (e : Event) (hint : internalFor s pw e = true)
    (hs : step cfg s e = some s') : s'.fresh = s.fresh := by
  cases e with
  | newBatch _ _ => simp [internalFor] at hint
  | add _ _ _ _ _ => simp [internalFor] at hint
  | produce pw' tp msgs out =>
    simp only [step, stepProduce] at hs
    repeat' split at hs
    all_goals (first | (cases hs; done) | skip)
    cases hs; rfl
  | _ =>
    simp only [step, stepReject, stepRet, stepDetach] at hs
    repeat' split at hs
    all_goals (first | (cases hs; done) | skip)
    all_goals (cases hs; rfl)

/-- every event of the list is an internal event of pw in the state it is taken from, and the list is accepted -/
def internalRun (cfg : Cfg) (pw : Nat) : State → List Event → Option State
  | s, [] => some s
  | s, e :: es =>
    if internalFor s pw e then
      match step cfg s e with
      | some s' => internalRun cfg pw s' es
      | none => none
    else none

theorem internalRun_is_run (cfg : Cfg) (pw : Nat) : ∀ (es : List Event) (s s' : State),
    internalRun cfg pw s es = some s' → run cfg s es = some s' := by
  intro es
  induction es with
  | nil => intro s s' h; simpa [internalRun, run] using h
  | cons e es ih =>
    intro s s' h
    simp only [internalRun] at h
    split at h
    · cases hs : step cfg s e with
      | none => simp [hs] at h
      | some s1 => simp only [hs] at h; simp only [run, hs]; exact ih s1 s' h
    · cases h

/-- **flush_terminates** — from every reachable state, for every partition writer, there is a continuation made
only of that writer's internal events (timer, queue hand-over, sender, broker decisions — no caller input), of
length at most `pwCost`, after which its pipeline is empty: nothing is attached, pending, queued or being sent. -/
theorem flush_terminates (cfg : Cfg) (hmax : 1 ≤ cfg.maxAttempts) :
    ∀ (n : Nat) (s : State), Reachable cfg s → s.fresh = none → ∀ pw P, s.pws pw = some P → pwCost cfg s.batches P ≤ n →
      ∃ es s' P', internalRun cfg pw s es = some s' ∧ s'.pws pw = some P' ∧ P'.pipe = [] ∧ es.length ≤ n := by
  intro n
  induction n with
  | zero =>
    intro s hr hfresh pw P hP hle
    by_cases hne : P.pipe = []
    · exact ⟨[], s, P, rfl, hP, hne, Nat.le_refl _⟩
    · exfalso
      obtain ⟨e, hint, hen⟩ := internal_enabled cfg hmax s hr hfresh pw P hP hne
      obtain ⟨s1, hs1⟩ := Option.isSome_iff_exists.mp hen
      obtain ⟨P1, -, hlt⟩ := internal_decreases cfg s s1 (invProg cfg hmax s hr) pw P hP e hint hs1
      omega
  | succ n ih =>
    intro s hr hfresh pw P hP hle
    by_cases hne : P.pipe = []
    · exact ⟨[], s, P, rfl, hP, hne, Nat.zero_le _⟩
    · obtain ⟨e, hint, hen⟩ := internal_enabled cfg hmax s hr hfresh pw P hP hne
      obtain ⟨s1, hs1⟩ := Option.isSome_iff_exists.mp hen
      obtain ⟨P1, hP1, hlt⟩ := internal_decreases cfg s s1 (invProg cfg hmax s hr) pw P hP e hint hs1
      obtain ⟨es, s', P', hrun, hP', hemp, hlen⟩ := ih s1 (reachable_step hr hs1) ((internal_keeps_fresh cfg s s1 pw e hint hs1).trans hfresh) pw P1 hP1 (by omega)
      refine ⟨e :: es, s', P', ?_, hP', hemp, by simp; omega⟩
      simp only [internalRun, hint, if_true, hs1]
      exact hrun

end KV.Writer

namespace KV.Writer

/-! ## A closed queue is never handed a batch -/

structure InvClosedQ (s : State) : Prop where
  lockOpen : s.wlock.isCall = true → s.closed = false
  closedQ : ∀ pw P, s.pws pw = some P → P.qclosed = true → s.closed = true ∧ P.curr = none ∧ P.pending = none

theorem invClosedQ_init : InvClosedQ State.init := by
  constructor <;> simp [State.init, Lock.isCall]

/-- frame: lock holder and closed flag unchanged (or closed only set), one partition writer changes keeping
qclosed / curr / pending (or clearing curr / pending) -/
theorem InvClosedQ.of_pw_upd {s s' : State} (h : InvClosedQ s) (hw : s'.wlock = s.wlock) (hc : s'.closed = s.closed)
    {pw : Nat} {P P' : PW} (hP : s.pws pw = some P) (ep : s'.pws = upd s.pws pw (some P'))
    (hq : P'.qclosed = true → P.qclosed = true) (hcur : P'.curr = none ∨ P'.curr = P.curr)
    (hpend : P'.pending = none ∨ P'.pending = P.pending) : InvClosedQ s' := by
  constructor
  · intro hl; rw [hw] at hl; rw [hc]; exact h.lockOpen hl
  · intro x X' hx hqc
    rw [ep] at hx; rw [hc]
    rcases upd_some_elim hx with ⟨rfl, rfl⟩ | ⟨-, hx⟩
    · obtain ⟨h1, h2, h3⟩ := h.closedQ x P hP (hq hqc)
      refine ⟨h1, ?_, ?_⟩
      · rcases hcur with e | e <;> rw [e]; exact h2
      · rcases hpend with e | e <;> rw [e]; exact h3
    · exact h.closedQ x X' hx hqc

theorem InvClosedQ.of_same {s s' : State} (h : InvClosedQ s) (hw : s'.wlock = s.wlock) (hc : s'.closed = s.closed)
    (ep : s'.pws = s.pws) : InvClosedQ s' := by
  constructor
  · intro hl; rw [hw] at hl; rw [hc]; exact h.lockOpen hl
  · intro x X hx hqc; rw [ep] at hx; rw [hc]; exact h.closedQ x X hx hqc

theorem invClosedQ_step (cfg : Cfg) (s : State) (e : Event) (s' : State) (hI : InvClosedQ s)
    (hs : step cfg s e = some s') : InvClosedQ s' := by
  cases e with
  | batch c =>
    simp only [step] at hs
    repeat' split at hs
    all_goals (first | (cases hs; done) | skip)
    rename_i _ C hC hg
    cases hs
    exact ⟨fun _ => hg.2.1, hI.closedQ⟩
  | batched c =>
    simp only [step] at hs
    repeat' split at hs
    all_goals (first | (cases hs; done) | skip)
    cases hs
    exact ⟨fun hl => by simp [Lock.isCall] at hl, hI.closedQ⟩
  | closeBegin =>
    simp only [step] at hs
    repeat' split at hs
    all_goals (first | (cases hs; done) | skip)
    cases hs
    refine ⟨fun hl => by simp [Lock.isCall] at hl, ?_⟩
    intro x X hx hqc
    obtain ⟨-, h2, h3⟩ := hI.closedQ x X hx hqc
    exact ⟨rfl, h2, h3⟩
  | closeMarked n =>
    simp only [step] at hs
    repeat' split at hs
    all_goals (first | (cases hs; done) | skip)
    cases hs
    exact ⟨fun hl => by simp [Lock.isCall] at hl, hI.closedQ⟩
  | newPW pw q tp =>
    simp only [step] at hs
    repeat' split at hs
    all_goals (first | (cases hs; done) | skip)
    cases hs
    refine ⟨hI.lockOpen, ?_⟩
    intro x X hx hqc
    rcases upd_some_elim hx with ⟨rfl, rfl⟩ | ⟨-, hx⟩
    · simp [PW.new] at hqc
    · exact hI.closedQ x X hx hqc
  | newBatch pw b =>
    simp only [step] at hs
    repeat' split at hs
    all_goals (first | (cases hs; done) | skip)
    rename_i _ P hP hg
    cases hs
    refine ⟨hI.lockOpen, ?_⟩
    intro x X hx hqc
    rcases upd_some_elim hx with ⟨rfl, rfl⟩ | ⟨-, hx⟩
    · -- a partition writer with a closed queue gets no new batch: the writer is closed, batchMessages is not running
      have := (hI.closedQ x P hP hqc).1
      rw [hI.lockOpen hg.1] at this; cases this
    · exact hI.closedQ x X hx hqc
  | detach pw b why size =>
    simp only [step, stepDetach] at hs
    repeat' split at hs
    all_goals (first | (cases hs; done) | skip)
    rename_i _ P hP _ B hB hg
    cases hs
    refine ⟨hI.lockOpen, ?_⟩
    intro x X hx hqc
    rcases upd_some_elim hx with ⟨rfl, rfl⟩ | ⟨-, hx⟩
    · have := (hI.closedQ x P hP hqc).2.1
      rw [hg.1] at this; cases this
    · exact hI.closedQ x X hx hqc
  | qclose q =>
    simp only [step] at hs
    repeat' split at hs
    all_goals (first | (cases hs; done) | skip)
    rename_i _ pw hq _ P hP hg
    cases hs
    refine ⟨hI.lockOpen, ?_⟩
    intro x X hx hqc
    rcases upd_some_elim hx with ⟨rfl, rfl⟩ | ⟨-, hx⟩
    · exact ⟨hg.1, hg.2.2.1, hg.2.2.2⟩
    · exact hI.closedQ x X hx hqc
  | qput q b acc =>
    simp only [step] at hs
    repeat' split at hs
    all_goals (first | (cases hs; done) | skip)
    rename_i _ pw hq _ P hP hg
    cases hs
    exact hI.of_pw_upd rfl rfl hP rfl (fun h => h) (Or.inr rfl) (Or.inl rfl)
  | qget q ob =>
    simp only [step] at hs
    repeat' split at hs
    all_goals (first | (cases hs; done) | skip)
    · rename_i _ pw hq _ P hP _ b hg
      cases hs
      exact hI.of_pw_upd rfl rfl hP rfl (fun h => h) (Or.inr rfl) (Or.inr rfl)
    · rename_i _ pw hq _ P hP _ hg
      cases hs
      exact hI.of_pw_upd rfl rfl hP rfl (fun h => h) (Or.inr rfl) (Or.inr rfl)
  | attempt pw b k =>
    simp only [step] at hs
    repeat' split at hs
    all_goals (first | (cases hs; done) | skip)
    rename_i _ P hP hg
    cases hs
    exact hI.of_pw_upd rfl rfl hP rfl (fun h => h) (Or.inr rfl) (Or.inr rfl)
  | attemptDone pw b k code =>
    simp only [step] at hs
    repeat' split at hs
    all_goals (first | (cases hs; done) | skip)
    rename_i _ P hP _ b' k' br hsend hg
    cases hs
    exact hI.of_pw_upd rfl rfl hP rfl (fun h => h) (Or.inr rfl) (Or.inr rfl)
  | produce pw tp msgs out =>
    simp only [step, stepProduce] at hs
    repeat' split at hs
    all_goals (first | (cases hs; done) | skip)
    rename_i _ P hP _ b k hsend _ B hB hg
    cases hs
    exact hI.of_pw_upd (P' := { P with sender := .attempting b k (some out) }) rfl rfl hP rfl (fun h => h) (Or.inr rfl) (Or.inr rfl)
  | completion pw b code =>
    simp only [step] at hs
    repeat' split at hs
    all_goals (first | (cases hs; done) | skip)
    rename_i _ P hP _ B hB hg
    cases hs
    exact hI.of_pw_upd (P' := { P with sender := .finishing b code true }) rfl rfl hP rfl (fun h => h) (Or.inr rfl) (Or.inr rfl)
  | complete pw b code =>
    simp only [step] at hs
    repeat' split at hs
    all_goals (first | (cases hs; done) | skip)
    rename_i _ P hP _ B hB hg
    cases hs
    exact hI.of_pw_upd (P' := { P with sender := .idle }) rfl rfl hP rfl (fun h => h) (Or.inr rfl) (Or.inr rfl)
  | _ =>
    simp only [step, stepReject, stepRet, stepAdd] at hs
    repeat' split at hs
    all_goals (first | (cases hs; done) | skip)
    all_goals (cases hs)
    all_goals exact hI.of_same rfl rfl rfl

theorem invClosedQ (cfg : Cfg) : ∀ s, Reachable cfg s → InvClosedQ s :=
  invariant_of_step cfg InvClosedQ invClosedQ_init (fun s e s' => invClosedQ_step cfg s e s')

end KV.Writer

namespace KV.Writer

theorem upd_lookup {β : Type} (f : Nat → Option β) (a x : Nat) (v w : β) (hx : f x = some w) :
    ∃ w', upd f a (some v) x = some w' ∧ (x ≠ a → w' = w) ∧ (x = a → w' = v) := by
  by_cases h : x = a
  · subst h; exact ⟨v, by simp, fun h => absurd rfl h, fun _ => rfl⟩
  · exact ⟨w, by rw [upd_other _ _ _ _ h]; exact hx, fun _ => rfl, fun e => absurd e h⟩

/-- a batch's `done` is changed by a step only if some sender holds the batch (namely by `complete`) -/
theorem done_changes_only_in_sender (cfg : Cfg) (s s' : State) (e : Event) (hs : step cfg s e = some s')
    (b : Nat) (B : Batch) (hB : s.batches b = some B) :
    ∃ B', s'.batches b = some B' ∧ (B'.done = B.done ∨ ∃ pw P, s.pws pw = some P ∧ P.sender.batch? = some b) := by
  cases e with
  | complete pw b0 code =>
    simp only [step] at hs
    repeat' split at hs
    all_goals (first | (cases hs; done) | skip)
    rename_i _ P hP _ B0 hB0 hg
    cases hs
    obtain ⟨B', h1, h2, h3⟩ := upd_lookup s.batches b0 b { B0 with done := some code } B hB
    refine ⟨B', h1, ?_⟩
    by_cases hb : b = b0
    · right; subst hb; exact ⟨pw, P, hP, by rw [hg]; rfl⟩
    · left; rw [h2 hb]
  | newBatch pw b0 =>
    simp only [step] at hs
    repeat' split at hs
    all_goals (first | (cases hs; done) | skip)
    rename_i _ P hP hg
    have hnone : s.batches b0 = none := by simpa using hg.2.2.2.1
    cases hs
    have hne : b ≠ b0 := by intro e; rw [e, hnone] at hB; cases hB
    exact ⟨B, by show upd s.batches b0 _ b = _; rw [upd_other _ _ _ _ hne]; exact hB, Or.inl rfl⟩
  | detach pw b0 why size =>
    simp only [step, stepDetach] at hs
    repeat' split at hs
    all_goals (first | (cases hs; done) | skip)
    rename_i _ P hP _ B0 hB0 hg
    cases hs
    obtain ⟨B', h1, h2, h3⟩ := upd_lookup s.batches b0 b { B0 with detached := some why } B hB
    refine ⟨B', h1, Or.inl ?_⟩
    by_cases hb : b = b0
    · subst hb; rw [hB] at hB0; cases hB0; rw [h3 rfl]
    · rw [h2 hb]
  | timerFire pw b0 att =>
    simp only [step] at hs
    repeat' split at hs
    all_goals (first | (cases hs; done) | skip)
    rename_i _ P hP _ B0 hB0 hg
    cases hs
    obtain ⟨B', h1, h2, h3⟩ := upd_lookup s.batches b0 b { B0 with timerFired := true } B hB
    refine ⟨B', h1, Or.inl ?_⟩
    by_cases hb : b = b0
    · subst hb; rw [hB] at hB0; cases hB0; rw [h3 rfl]
    · rw [h2 hb]
  | completion pw b0 code =>
    simp only [step] at hs
    repeat' split at hs
    all_goals (first | (cases hs; done) | skip)
    rename_i _ P hP _ B0 hB0 hg
    cases hs
    obtain ⟨B', h1, h2, h3⟩ := upd_lookup s.batches b0 b { B0 with ncompl := B0.ncompl + 1, cbCode := some code } B hB
    refine ⟨B', h1, Or.inl ?_⟩
    by_cases hb : b = b0
    · subst hb; rw [hB] at hB0; cases hB0; rw [h3 rfl]
    · rw [h2 hb]
  | produce pw tp msgs out =>
    simp only [step, stepProduce] at hs
    repeat' split at hs
    all_goals (first | (cases hs; done) | skip)
    rename_i _ P hP _ b0 k hsend _ B0 hB0 hg
    cases hs
    obtain ⟨B', h1, h2, h3⟩ := upd_lookup s.batches b0 b (B0.noteProduce out) B hB
    refine ⟨B', by simpa [produced] using h1, Or.inl ?_⟩
    by_cases hb : b = b0
    · subst hb; rw [hB] at hB0; cases hB0; rw [h3 rfl]; rfl
    · rw [h2 hb]
  | add pw b0 c i size =>
    simp only [step, stepAdd] at hs
    repeat' split at hs
    all_goals (first | (cases hs; done) | skip)
    rename_i _ P hP _ B0 hB0 _ C hC hg
    cases hs
    obtain ⟨B', h1, h2, h3⟩ := upd_lookup s.batches b0 b (B0.push { msg := (c, i), size := size, seq := s.seq }) B hB
    refine ⟨B', h1, Or.inl ?_⟩
    by_cases hb : b = b0
    · subst hb; rw [hB] at hB0; cases hB0; rw [h3 rfl]; rfl
    · rw [h2 hb]
  | _ =>
    simp only [step, stepReject, stepRet] at hs
    repeat' split at hs
    all_goals (first | (cases hs; done) | skip)
    all_goals (cases hs)
    all_goals exact ⟨B, hB, Or.inl rfl⟩

/-- once completed, a batch stays completed with the same error -/
theorem done_stable (cfg : Cfg) (s s' : State) (hr : Reachable cfg s) (e : Event) (hs : step cfg s e = some s')
    (b : Nat) (B : Batch) (code : Code) (hB : s.batches b = some B) (hd : B.done = some code) :
    ∃ B', s'.batches b = some B' ∧ B'.done = some code := by
  obtain ⟨B', hB', h⟩ := done_changes_only_in_sender cfg s s' e hs b B hB
  refine ⟨B', hB', ?_⟩
  rcases h with h | ⟨pw, P, hP, hsb⟩
  · rw [h]; exact hd
  · have := (invAck cfg s hr).pipeLive pw P hP b (sender_mem_pipe hsb) B hB
    rw [hd] at this; cases this

end KV.Writer

namespace KV.Writer

/-- an internal event leaves the pipeline of its partition writer as it is, except `complete`, which removes the
batch at its head — completed; a hand-over to the queue is never refused (the queue of a partition writer that still
has a pending batch is not closed) -/
theorem internal_pipe (cfg : Cfg) (s s' : State) (hQ : InvClosedQ s) (pw : Nat) (P : PW) (hP : s.pws pw = some P)
    (e : Event) (hint : internalFor s pw e = true) (hs : step cfg s e = some s') :
    ∃ P', s'.pws pw = some P' ∧
      (P'.pipe = P.pipe ∨ ∃ b code, P.pipe = b :: P'.pipe ∧ ∃ B', s'.batches b = some B' ∧ B'.done = some code) := by
  cases e with
  | timerFire pw' b att =>
    cases att with
    | false => simp [internalFor] at hint
    | true =>
      simp only [internalFor, Bool.and_eq_true, beq_iff_eq] at hint
      obtain ⟨rfl, -⟩ := hint
      simp only [step, hP] at hs
      repeat' split at hs
      all_goals (first | (cases hs; done) | skip)
      cases hs
      exact ⟨P, hP, Or.inl rfl⟩
  | detach pw' b why size =>
    cases why with
    | timer =>
      simp only [internalFor, beq_iff_eq] at hint
      subst hint
      simp only [step, stepDetach, hP] at hs
      repeat' split at hs
      all_goals (first | (cases hs; done) | skip)
      rename_i _ B hB hg
      obtain ⟨hc, hpend, -, -⟩ := hg
      cases hs
      exact ⟨{ P with curr := none, pending := some b }, by simp, Or.inl (by simp [PW.pipe, hc, hpend])⟩
    | _ => simp [internalFor] at hint
  | qput q b acc =>
    simp only [internalFor, beq_iff_eq] at hint
    simp only [step, hint, hP] at hs
    repeat' split at hs
    all_goals (first | (cases hs; done) | skip)
    rename_i hg
    obtain ⟨hpend, hc, hacc⟩ := hg
    have hopen : P.qclosed = false := by
      cases hqc : P.qclosed with
      | false => rfl
      | true => have := (hQ.closedQ pw P hP hqc).2.2; rw [hpend] at this; cases this
    rw [hopen] at hacc
    subst hacc
    cases hs
    exact ⟨{ P with pending := none, queue := enq P.queue b true }, by simp, Or.inl (by simp [PW.pipe, hc, hpend, enq])⟩
  | qget q ob =>
    cases ob with
    | none => simp [internalFor] at hint
    | some b =>
      simp only [internalFor, beq_iff_eq] at hint
      simp only [step, hint, hP] at hs
      repeat' split at hs
      all_goals (first | (cases hs; done) | skip)
      rename_i hg
      obtain ⟨hsend, hhead⟩ := hg
      have hq := head?_cons_tail hhead
      cases hs
      refine ⟨{ P with queue := P.queue.tail, sender := .ready b 0 }, by simp, Or.inl ?_⟩
      simp only [PW.pipe, hsend, Sender.batch?]
      rw [hq]; simp
  | attempt pw' b k =>
    simp only [internalFor, beq_iff_eq] at hint
    subst hint
    simp only [step, hP] at hs
    repeat' split at hs
    all_goals (first | (cases hs; done) | skip)
    rename_i hg
    cases hs
    exact ⟨{ P with sender := .attempting b k none }, by simp, Or.inl (by simp [PW.pipe, hg.1, Sender.batch?])⟩
  | produce pw' tp msgs out =>
    simp only [internalFor, beq_iff_eq] at hint
    subst hint
    simp only [step, stepProduce, hP] at hs
    repeat' split at hs
    all_goals (first | (cases hs; done) | skip)
    rename_i _ b k hsend _ B hB hg
    cases hs
    exact ⟨{ P with sender := .attempting b k (some out) }, by simp [produced], Or.inl (by simp [PW.pipe, hsend, Sender.batch?])⟩
  | attemptDone pw' b k code =>
    simp only [internalFor, beq_iff_eq] at hint
    subst hint
    simp only [step, hP] at hs
    repeat' split at hs
    all_goals (first | (cases hs; done) | skip)
    rename_i _ b' k' br hsend hg
    obtain ⟨rfl, rfl, -⟩ := hg
    cases hs
    have hbq : (afterAttempt cfg b' k' code).batch? = some b' := by
      unfold afterAttempt
      split
      · rfl
      · split <;> rfl
    refine ⟨{ P with sender := afterAttempt cfg b' k' code }, by simp, Or.inl ?_⟩
    simp only [PW.pipe]
    rw [hbq, hsend]
    simp [Sender.batch?]
  | completion pw' b code =>
    simp only [internalFor, beq_iff_eq] at hint
    subst hint
    simp only [step, hP] at hs
    repeat' split at hs
    all_goals (first | (cases hs; done) | skip)
    rename_i _ B hB hg
    cases hs
    exact ⟨{ P with sender := .finishing b code true }, by simp, Or.inl (by simp [PW.pipe, hg.2, Sender.batch?])⟩
  | complete pw' b code =>
    simp only [internalFor, beq_iff_eq] at hint
    subst hint
    simp only [step, hP] at hs
    repeat' split at hs
    all_goals (first | (cases hs; done) | skip)
    rename_i _ B hB hg
    cases hs
    refine ⟨{ P with sender := .idle }, by simp, Or.inr ⟨b, code, by simp [PW.pipe, hg, Sender.batch?], { B with done := some code }, by simp, rfl⟩⟩
  | _ => simp [internalFor] at hint

/-- **flush_completes** — the continuation of `flush_terminates` completes every batch that was in the pipeline:
from every reachable state there are at most `pwCost` internal events of the partition writer after which its pipeline
is empty and every batch that was attached, pending, queued or being sent is completed (`done` set: acknowledged, or
failed permanently / after MaxAttempts attempts), with its Completion callback run if one is configured. -/
theorem flush_completes (cfg : Cfg) (hmax : 1 ≤ cfg.maxAttempts) :
    ∀ (n : Nat) (s : State), Reachable cfg s → s.fresh = none → ∀ pw P, s.pws pw = some P → pwCost cfg s.batches P ≤ n →
      ∃ es s' P', internalRun cfg pw s es = some s' ∧ s'.pws pw = some P' ∧ P'.pipe = [] ∧ es.length ≤ n ∧
        ∀ b ∈ P.pipe, ∃ B' code, s'.batches b = some B' ∧ B'.done = some code := by
  intro n
  induction n with
  | zero =>
    intro s hr hfresh pw P hP hle
    by_cases hne : P.pipe = []
    · exact ⟨[], s, P, rfl, hP, hne, Nat.le_refl _, by intro b hb; rw [hne] at hb; cases hb⟩
    · exfalso
      obtain ⟨e, hint, hen⟩ := internal_enabled cfg hmax s hr hfresh pw P hP hne
      obtain ⟨s1, hs1⟩ := Option.isSome_iff_exists.mp hen
      obtain ⟨P1, -, hlt⟩ := internal_decreases cfg s s1 (invProg cfg hmax s hr) pw P hP e hint hs1
      omega
  | succ n ih =>
    intro s hr hfresh pw P hP hle
    by_cases hne : P.pipe = []
    · exact ⟨[], s, P, rfl, hP, hne, Nat.zero_le _, by intro b hb; rw [hne] at hb; cases hb⟩
    · obtain ⟨e, hint, hen⟩ := internal_enabled cfg hmax s hr hfresh pw P hP hne
      obtain ⟨s1, hs1⟩ := Option.isSome_iff_exists.mp hen
      obtain ⟨P1, hP1, hlt⟩ := internal_decreases cfg s s1 (invProg cfg hmax s hr) pw P hP e hint hs1
      obtain ⟨P1', hP1', hpipe⟩ := internal_pipe cfg s s1 (invClosedQ cfg s hr) pw P hP e hint hs1
      rw [hP1] at hP1'; cases hP1'
      have hr1 := reachable_step hr hs1
      obtain ⟨es, s', P', hrun, hP', hemp, hlen, hdone⟩ := ih s1 hr1 ((internal_keeps_fresh cfg s s1 pw e hint hs1).trans hfresh) pw P1 hP1 (by omega)
      refine ⟨e :: es, s', P', ?_, hP', hemp, by simp; omega, ?_⟩
      · simp only [internalRun, hint, if_true, hs1]; exact hrun
      · -- completed batches stay completed along the rest of the run
        have hstay : ∀ (es : List Event) (t t' : State), Reachable cfg t → internalRun cfg pw t es = some t' →
            ∀ b B code, t.batches b = some B → B.done = some code → ∃ B' code', t'.batches b = some B' ∧ B'.done = some code' := by
          intro es
          induction es with
          | nil =>
            intro t t' _ h b B code hB hd
            simp [internalRun] at h; subst h; exact ⟨B, code, hB, hd⟩
          | cons e' es' ih' =>
            intro t t' hrt h b B code hB hd
            simp only [internalRun] at h
            split at h
            · cases hst : step cfg t e' with
              | none => simp [hst] at h
              | some t1 =>
                simp only [hst] at h
                obtain ⟨B1, hB1, hd1⟩ := done_stable cfg t t1 hrt e' hst b B code hB hd
                exact ih' t1 t' (reachable_step hrt hst) h b B1 code hB1 hd1
            · cases h
        intro b hb
        rcases hpipe with heq | ⟨b0, code, hcons, B0, hB0, hd0⟩
        · exact hdone b (heq ▸ hb)
        · rw [hcons] at hb
          rcases List.mem_cons.mp hb with rfl | hb
          · exact hstay es s1 s' hr1 hrun b B0 code hB0 hd0
          · exact hdone b hb

end KV.Writer

namespace KV.Writer

/-! ## The window between newWriteBatch and the first add; sent batches are not empty -/

structure InvFresh (s : State) : Prop where
  freshLock : s.fresh.isSome = true → s.wlock.isCall = true
  emptyFresh : ∀ b B, s.batches b = some B → B.msgs = [] → s.fresh = some b
  detNonempty : ∀ b B, s.batches b = some B → B.detached.isSome = true → B.msgs ≠ []

theorem invFresh_init : InvFresh State.init := by
  constructor <;> simp [State.init]

/-- frame: `fresh` unchanged, the lock stays with a call unless `fresh` is none, batches keep their messages and only
gain `detached` when non-empty -/
theorem InvFresh.of_frame {s s' : State} (h : InvFresh s) (hf : s'.fresh = s.fresh)
    (hw : s.wlock.isCall = true → s'.wlock.isCall = true ∨ s.fresh = none)
    (hbat : ∀ b B', s'.batches b = some B' → ∃ B, s.batches b = some B ∧ B'.msgs = B.msgs ∧
      (B'.detached.isSome = true → B.detached.isSome = true ∨ B.msgs ≠ [])) : InvFresh s' := by
  constructor
  · intro hs
    rw [hf] at hs
    rcases hw (h.freshLock hs) with h1 | h1
    · exact h1
    · rw [h1] at hs; cases hs
  · intro b B' hB' hm
    obtain ⟨B, hB, e, -⟩ := hbat b B' hB'
    rw [hf]; exact h.emptyFresh b B hB (e ▸ hm)
  · intro b B' hB' hd
    obtain ⟨B, hB, e, hk⟩ := hbat b B' hB'
    rw [e]
    rcases hk hd with h1 | h1
    · exact h.detNonempty b B hB h1
    · exact h1

theorem fframe_bat_id {s s' : State} (e : s'.batches = s.batches) :
    ∀ b B', s'.batches b = some B' → ∃ B, s.batches b = some B ∧ B'.msgs = B.msgs ∧
      (B'.detached.isSome = true → B.detached.isSome = true ∨ B.msgs ≠ []) :=
  fun _ B' h => ⟨B', e ▸ h, rfl, fun hd => Or.inl hd⟩

theorem fframe_bat_upd {s s' : State} {b : Nat} {B0 B0' : Batch} (hB0 : s.batches b = some B0)
    (e : s'.batches = upd s.batches b (some B0')) (hm : B0'.msgs = B0.msgs)
    (hd : B0'.detached.isSome = true → B0.detached.isSome = true ∨ B0.msgs ≠ []) :
    ∀ x X', s'.batches x = some X' → ∃ X, s.batches x = some X ∧ X'.msgs = X.msgs ∧
      (X'.detached.isSome = true → X.detached.isSome = true ∨ X.msgs ≠ []) := by
  intro x X' hx
  rw [e] at hx
  rcases upd_some_elim hx with ⟨rfl, rfl⟩ | ⟨-, h⟩
  · exact ⟨B0, hB0, hm, hd⟩
  · exact ⟨X', h, rfl, fun hd => Or.inl hd⟩

theorem invFresh_step (cfg : Cfg) (s : State) (e : Event) (s' : State) (hI : InvFresh s)
    (hs : step cfg s e = some s') : InvFresh s' := by
  cases e with
  | newBatch pw b =>
    simp only [step] at hs
    repeat' split at hs
    all_goals (first | (cases hs; done) | skip)
    rename_i _ P hP hg
    obtain ⟨hcall, -, -, hb, hfr⟩ := hg
    have hnone : s.batches b = none := by simpa using hb
    cases hs
    constructor
    · intro _; exact hcall
    · intro x X hx hm
      rcases upd_some_elim hx with ⟨rfl, rfl⟩ | ⟨-, hx⟩
      · rfl
      · have := hI.emptyFresh x X hx hm; rw [hfr] at this; cases this
    · intro x X hx hd
      rcases upd_some_elim hx with ⟨rfl, rfl⟩ | ⟨-, hx⟩
      · simp [Batch.new] at hd
      · exact hI.detNonempty x X hx hd
  | add pw b c i size =>
    simp only [step, stepAdd] at hs
    repeat' split at hs
    all_goals (first | (cases hs; done) | skip)
    rename_i _ P hP _ B hB _ C hC hg
    obtain ⟨-, -, -, -, -, -, -, -, -, -, -, -, -, hfr⟩ := hg
    cases hs
    constructor
    · intro h; cases h
    · intro x X hx hm
      rcases upd_some_elim hx with ⟨rfl, rfl⟩ | ⟨hne, hx⟩
      · simp [Batch.push] at hm
      · have := hI.emptyFresh x X hx hm
        rcases hfr with h0 | h0
        · rw [h0] at this; cases this
        · rw [h0] at this; cases this; exact absurd rfl hne
    · intro x X hx hd
      rcases upd_some_elim hx with ⟨rfl, rfl⟩ | ⟨-, hx⟩
      · simp [Batch.push]
      · exact hI.detNonempty x X hx hd
  | detach pw b why size =>
    simp only [step, stepDetach] at hs
    repeat' split at hs
    all_goals (first | (cases hs; done) | skip)
    rename_i _ P hP _ B hB hg
    obtain ⟨-, -, -, -, hfr⟩ := hg
    cases hs
    refine hI.of_frame rfl (fun h => Or.inl h) (fframe_bat_upd (B0' := { B with detached := some why }) hB rfl rfl ?_)
    intro _
    right
    intro hm
    exact hfr (hI.emptyFresh b B hB hm)
  | batch c =>
    simp only [step] at hs
    repeat' split at hs
    all_goals (first | (cases hs; done) | skip)
    cases hs
    exact hI.of_frame rfl (fun _ => Or.inl rfl) (fframe_bat_id rfl)
  | batched c =>
    simp only [step] at hs
    repeat' split at hs
    all_goals (first | (cases hs; done) | skip)
    rename_i _ C hC hg
    cases hs
    exact hI.of_frame rfl (fun _ => Or.inr hg.2.2.2.2) (fframe_bat_id rfl)
  | closeBegin =>
    simp only [step] at hs
    repeat' split at hs
    all_goals (first | (cases hs; done) | skip)
    rename_i hfree
    cases hs
    exact hI.of_frame rfl (fun h => by rw [hfree] at h; cases h) (fframe_bat_id rfl)
  | closeMarked n =>
    simp only [step] at hs
    repeat' split at hs
    all_goals (first | (cases hs; done) | skip)
    rename_i hg
    cases hs
    exact hI.of_frame rfl (fun h => by rw [hg.1] at h; cases h) (fframe_bat_id rfl)
  | timerFire pw b att =>
    simp only [step] at hs
    repeat' split at hs
    all_goals (first | (cases hs; done) | skip)
    rename_i _ P hP _ B hB hg
    cases hs
    exact hI.of_frame rfl (fun h => Or.inl h) (fframe_bat_upd (B0' := { B with timerFired := true }) hB rfl rfl (fun h => Or.inl h))
  | completion pw b code =>
    simp only [step] at hs
    repeat' split at hs
    all_goals (first | (cases hs; done) | skip)
    rename_i _ P hP _ B hB hg
    cases hs
    exact hI.of_frame rfl (fun h => Or.inl h)
      (fframe_bat_upd (B0' := { B with ncompl := B.ncompl + 1, cbCode := some code }) hB rfl rfl (fun h => Or.inl h))
  | complete pw b code =>
    simp only [step] at hs
    repeat' split at hs
    all_goals (first | (cases hs; done) | skip)
    rename_i _ P hP _ B hB hg
    cases hs
    exact hI.of_frame rfl (fun h => Or.inl h) (fframe_bat_upd (B0' := { B with done := some code }) hB rfl rfl (fun h => Or.inl h))
  | produce pw tp msgs out =>
    simp only [step, stepProduce] at hs
    repeat' split at hs
    all_goals (first | (cases hs; done) | skip)
    rename_i _ P hP _ b k hsend _ B hB hg
    cases hs
    exact hI.of_frame rfl (fun h => Or.inl h) (fframe_bat_upd (B0' := B.noteProduce out) hB rfl rfl (fun h => Or.inl h))
  | _ =>
    simp only [step, stepReject, stepRet] at hs
    repeat' split at hs
    all_goals (first | (cases hs; done) | skip)
    all_goals (cases hs)
    all_goals exact hI.of_frame rfl (fun h => Or.inl h) (fframe_bat_id rfl)

theorem invFresh (cfg : Cfg) : ∀ s, Reachable cfg s → InvFresh s :=
  invariant_of_step cfg InvFresh invFresh_init (fun s e s' => invFresh_step cfg s e s')

end KV.Writer
