/- Lemmas/LeastBytes.lean — LeastBytes picks a minimal counter; counters equal routed bytes. -/
import KafkaVerif.Model.Balancer
namespace KV.Balancer
open KV

def bytesAt (L : List LBCounter) (i : Nat) : Nat := ((L[i]?).map (·.bytes)).getD 0

theorem minIndexFrom_spec : ∀ (cs pre : List LBCounter) (mi mb : Nat),
    mi < pre.length → bytesAt (pre ++ cs) mi = mb → (∀ j, j < pre.length → mb ≤ bytesAt (pre ++ cs) j) →
    minIndexFrom cs pre.length mi mb < (pre ++ cs).length ∧
      ∀ j, j < (pre ++ cs).length → bytesAt (pre ++ cs) (minIndexFrom cs pre.length mi mb) ≤ bytesAt (pre ++ cs) j := by
  intro cs
  induction cs with
  | nil =>
    intro pre mi mb hmi hb hall
    simp only [minIndexFrom, List.append_nil] at *
    exact ⟨hmi, fun j hj => by rw [hb]; exact hall j hj⟩
  | cons c cs ih =>
    intro pre mi mb hmi hb hall
    have hL : pre ++ c :: cs = (pre ++ [c]) ++ cs := by simp
    have hlen : (pre ++ [c]).length = pre.length + 1 := by simp
    have hc : bytesAt (pre ++ c :: cs) pre.length = c.bytes := by simp [bytesAt]
    unfold minIndexFrom
    split
    · rename_i hlt
      have := ih (pre ++ [c]) pre.length c.bytes (by simp) (by rw [← hL]; exact hc)
        (by
          intro j hj
          rw [← hL]
          by_cases hjp : j < pre.length
          · have := hall j hjp; omega
          · have : j = pre.length := by simp at hj; omega
            rw [this, hc]; exact Nat.le_refl _)
      rw [hlen, ← hL] at this
      exact this
    · rename_i hge
      have := ih (pre ++ [c]) mi mb (by simp; omega) (by rw [← hL]; exact hb)
        (by
          intro j hj
          rw [← hL]
          by_cases hjp : j < pre.length
          · exact hall j hjp
          · have : j = pre.length := by simp at hj; omega
            rw [this, hc]; omega)
      rw [hlen, ← hL] at this
      exact this

theorem minIndex_spec (cs : List LBCounter) (h : cs ≠ []) :
    minIndex cs < cs.length ∧ ∀ j, j < cs.length → bytesAt cs (minIndex cs) ≤ bytesAt cs j := by
  match cs, h with
  | c :: cs, _ =>
    have := minIndexFrom_spec cs [c] 0 c.bytes (by simp) (by simp [bytesAt])
      (by intro j hj; have : j = 0 := by simp at hj; omega
          subst this; simp [bytesAt])
    simpa [minIndex] using this

theorem addAt_length : ∀ (cs : List LBCounter) (i sz : Nat), (addAt cs i sz).length = cs.length := by
  intro cs
  induction cs with
  | nil => intro i sz; simp [addAt]
  | cons c cs ih =>
    intro i sz
    cases i with
    | zero => simp [addAt]
    | succ i => simp [addAt, ih]

theorem addAt_getElem? : ∀ (cs : List LBCounter) (i sz j : Nat),
    (addAt cs i sz)[j]? = (cs[j]?).map (fun c => if j = i then { c with bytes := c.bytes + sz } else c) := by
  intro cs
  induction cs with
  | nil => intro i sz j; simp [addAt]
  | cons c cs ih =>
    intro i sz j
    cases i with
    | zero =>
      cases j with
      | zero => simp [addAt]
      | succ j => simp [addAt]
    | succ i =>
      cases j with
      | zero => simp [addAt]
      | succ j => simp [addAt, ih]

end KV.Balancer

namespace KV.Balancer

/-- bytes routed to partition `p` by the calls recorded in `hist` (most recent first) -/
def routed : List (Int × Nat) → Int → Nat
  | [], _ => 0
  | (q, sz) :: h, p => (if q = p then sz else 0) + routed h p

structure LBInv (lb : LeastBytes) (parts : List Int) (hist : List (Int × Nat)) : Prop where
  len : lb.counters.length = parts.length
  mem : ∀ p, p ∈ parts ↔ p ∈ lb.counters.map (·.partition)
  nodup : (lb.counters.map (·.partition)).Nodup
  bytes : ∀ c, c ∈ lb.counters → c.bytes = routed hist c.partition

theorem lbInsert_map (c : LBCounter) : ∀ (cs : List LBCounter),
    (∀ p, p ∈ (lbInsert c cs).map (·.partition) ↔ p = c.partition ∨ p ∈ cs.map (·.partition))
    ∧ (lbInsert c cs).length = cs.length + 1
    ∧ (∀ d, d ∈ lbInsert c cs → d = c ∨ d ∈ cs) := by
  intro cs
  induction cs with
  | nil => simp [lbInsert]
  | cons d ds ih =>
    unfold lbInsert
    split
    · simp
    · obtain ⟨h1, h2, h3⟩ := ih
      refine ⟨?_, by simp [h2], ?_⟩
      · intro p; simp only [List.map_cons, List.mem_cons, h1]; grind
      · intro e he; simp only [List.mem_cons] at he ⊢; grind

theorem lbInsert_nodup (c : LBCounter) : ∀ (cs : List LBCounter),
    (cs.map (·.partition)).Nodup → c.partition ∉ cs.map (·.partition) →
    ((lbInsert c cs).map (·.partition)).Nodup := by
  intro cs
  induction cs with
  | nil => simp [lbInsert]
  | cons d ds ih =>
    intro hnd hnm
    unfold lbInsert
    split
    · simp only [List.map_cons, List.nodup_cons] at hnd ⊢
      simp only [List.map_cons, List.mem_cons, not_or] at hnm
      exact ⟨by simp only [List.mem_cons, not_or]; exact hnm, hnd⟩
    · simp only [List.map_cons, List.nodup_cons] at hnd ⊢
      simp only [List.map_cons, List.mem_cons, not_or] at hnm
      refine ⟨?_, ih hnd.2 hnm.2⟩
      rw [(lbInsert_map c ds).1]
      intro h; cases h with
      | inl h => exact hnm.1 h.symm
      | inr h => exact hnd.1 h

theorem makeCounters_inv : ∀ (parts : List Int), parts.Nodup → LBInv ⟨makeCounters parts⟩ parts [] := by
  intro parts
  induction parts with
  | nil => intro _; exact ⟨rfl, by simp [makeCounters], by simp [makeCounters], by simp [makeCounters]⟩
  | cons p ps ih =>
    intro hnd
    simp only [List.nodup_cons] at hnd
    have ih := ih hnd.2
    have hmk : makeCounters (p :: ps) = lbInsert ⟨p, 0⟩ (makeCounters ps) := by simp [makeCounters]
    obtain ⟨h1, h2, h3⟩ := lbInsert_map ⟨p, 0⟩ (makeCounters ps)
    refine ⟨?_, ?_, ?_, ?_⟩
    · simp only [hmk, h2, List.length_cons]; have := ih.len; simp at this; omega
    · intro q; simp only [hmk, h1, List.mem_cons]; have := ih.mem q; simp only at this; rw [this]
    · simp only [hmk]
      apply lbInsert_nodup
      · exact ih.nodup
      · have := ih.mem p; simp only at this; rw [← this]; exact hnd.1
    · intro c hc
      simp only [hmk] at hc
      cases h3 c hc with
      | inl h => subst h; simp [routed]
      | inr h => have := ih.bytes c h; simp [routed] at this ⊢; exact this

end KV.Balancer

namespace KV.Balancer

theorem lb_step (lb : LeastBytes) (parts : List Int) (hist : List (Int × Nat)) (sz : Nat)
    (hp : parts ≠ []) (inv : LBInv lb parts hist) :
    ∃ p, (lb.balance sz parts).2 = some p ∧ p ∈ parts ∧ (∀ q, q ∈ parts → routed hist p ≤ routed hist q)
      ∧ LBInv (lb.balance sz parts).1 parts ((p, sz) :: hist) := by
  have hlen := inv.len
  have hne : lb.counters ≠ [] := by
    intro h; rw [h] at hlen; simp at hlen; exact hp (List.length_eq_zero_iff.mp hlen.symm)
  obtain ⟨hlt, hmin⟩ := minIndex_spec lb.counters hne
  unfold LeastBytes.balance
  have hnr : ¬ (parts.length ≠ lb.counters.length) := by omega
  simp only [hnr, if_false]
  match hcs : lb.counters, hne with
  | c0 :: cs0, _ =>
    rw [hcs] at hlt hmin
    simp only
    have hget : (c0 :: cs0)[minIndex (c0 :: cs0)]? = some ((c0 :: cs0)[minIndex (c0 :: cs0)]) := by
      simp [hlt]
    generalize hi : minIndex (c0 :: cs0) = i at *
    generalize hL : (c0 :: cs0) = L at *
    have hcm : L[i] ∈ L := List.getElem_mem hlt
    have invb := inv.bytes
    have invm := inv.mem
    have invn := inv.nodup
    rw [hcs] at invb invm invn
    refine ⟨L[i].partition, by simp [hget], ?_, ?_, ?_⟩
    · rw [invm]; exact List.mem_map_of_mem hcm
    · intro q hq
      rw [invm] at hq
      obtain ⟨d, hd, hdq⟩ := List.mem_map.mp hq
      obtain ⟨j, hj, hje⟩ := List.getElem_of_mem hd
      have := hmin j hj
      simp only [bytesAt, hget, List.getElem?_eq_getElem hj, Option.map_some, Option.getD_some] at this
      rw [invb _ hcm, hje, invb _ hd, hdq] at this
      exact this
    · have hmapp : (addAt L i sz).map (·.partition) = L.map (·.partition) := by
        apply List.ext_getElem?
        intro j
        simp only [List.getElem?_map, addAt_getElem?, Option.map_map]
        cases L[j]? with
        | none => rfl
        | some c => simp only [Option.map_some, Function.comp]; split <;> rfl
      refine ⟨?_, ?_, ?_, ?_⟩
      · simp only [addAt_length]; rw [← hlen, hcs]
      · intro q; simp only [hmapp]; exact invm q
      · simp only [hmapp]; exact invn
      · intro c hc
        obtain ⟨j, hj, hje⟩ := List.getElem_of_mem hc
        have hj' : j < L.length := by simpa [addAt_length] using hj
        have hgj : (addAt L i sz)[j]? = some c := by rw [List.getElem?_eq_getElem hj, hje]
        rw [addAt_getElem?, List.getElem?_eq_getElem hj'] at hgj
        simp only [Option.map_some, Option.some.injEq] at hgj
        have hLj : L[j] ∈ L := List.getElem_mem hj'
        by_cases hji : j = i
        · subst hji
          simp only [if_true] at hgj
          rw [← hgj]
          simp only [routed, if_true]
          rw [invb _ hLj]; omega
        · simp only [hji, if_false] at hgj
          rw [← hgj]
          simp only [routed]
          have hpne : L[i].partition ≠ L[j].partition := by
            intro heq
            have hpw := List.pairwise_iff_getElem.mp (List.nodup_iff_pairwise_ne.mp invn)
            have hli : i < (L.map (·.partition)).length := by simpa using hlt
            have hlj : j < (L.map (·.partition)).length := by simpa using hj'
            rcases Nat.lt_or_gt_of_ne hji with hlt' | hgt'
            · have := hpw j i hlj hli hlt'; simp at this; exact this heq.symm
            · have := hpw i j hli hlj hgt'; simp at this; exact this heq
          simp only [hpne, if_false, Nat.zero_add]
          exact invb _ hLj

end KV.Balancer
