/-
Lemmas/GroupFront.lean — FIFO-per-tag shape of the queue and the invariant of the group Reader front.
-/
import KafkaVerif.Model.GroupFront
namespace KV.GroupFront

/-- the queue, read from its head, holds for every tag consecutive offsets starting at `exp tag` -/
def QOK : List (Nat × Nat) → (Nat → Nat) → Prop
  | [], _ => True
  | e :: rest, exp => e.2 = exp e.1 ∧ QOK rest (upd exp e.1 (e.2 + 1))

/-- the offsets expected next per tag after the whole queue -/
def QEnd : List (Nat × Nat) → (Nat → Nat) → (Nat → Nat)
  | [], exp => exp
  | e :: rest, exp => QEnd rest (upd exp e.1 (e.2 + 1))

theorem upd_same (f : Nat → Nat) (t v : Nat) : upd f t v t = v := by simp [upd]
theorem upd_other (f : Nat → Nat) (t v x : Nat) (h : x ≠ t) : upd f t v x = f x := by simp [upd, h]

theorem upd_comm (f : Nat → Nat) (a b x y : Nat) (h : a ≠ b) : upd (upd f a x) b y = upd (upd f b y) a x := by
  funext z
  simp only [upd]
  by_cases h1 : z = a
  · subst h1; simp [h]
  · by_cases h2 : z = b
    · subst h2; simp [h1]
    · simp [h1, h2]

theorem qok_append (q : List (Nat × Nat)) (exp : Nat → Nat) (t o : Nat) :
    QOK (q ++ [(t, o)]) exp ↔ QOK q exp ∧ o = QEnd q exp t := by
  induction q generalizing exp with
  | nil => simp [QOK, QEnd]
  | cons e rest ih =>
    simp only [List.cons_append, QOK, QEnd, ih]
    constructor
    · intro h; exact ⟨⟨h.1, h.2.1⟩, h.2.2⟩
    · intro h; exact ⟨h.1.1, h.1.2, h.2⟩

theorem qend_append (q : List (Nat × Nat)) (exp : Nat → Nat) (t o : Nat) :
    QEnd (q ++ [(t, o)]) exp = upd (QEnd q exp) t (o + 1) := by
  induction q generalizing exp with
  | nil => simp [QEnd]
  | cons e rest ih => simp only [List.cons_append, QEnd, ih]

theorem q_fresh (q : List (Nat × Nat)) (exp : Nat → Nat) (t v : Nat) (h : ∀ e ∈ q, e.1 ≠ t) :
    (QOK q (upd exp t v) ↔ QOK q exp) ∧ QEnd q (upd exp t v) = upd (QEnd q exp) t v := by
  induction q generalizing exp with
  | nil => simp [QOK, QEnd]
  | cons e rest ih =>
    have he : e.1 ≠ t := h e List.mem_cons_self
    have hr : ∀ x ∈ rest, x.1 ≠ t := fun x hx => h x (List.mem_cons_of_mem _ hx)
    simp only [QOK, QEnd]
    rw [upd_other _ _ _ _ he, upd_comm _ _ _ _ _ (Ne.symm he)]
    have := ih (upd exp e.1 (e.2 + 1)) hr
    exact ⟨by rw [this.1], this.2⟩


def expOf (s : GF) : Nat → Nat := fun t => s.start t + s.taken t

structure FInv (s : GF) : Prop where
  j1 : ∀ v, s.sampled = some v → v ≤ s.version
  j2a : QOK s.queue (expOf s)
  j2b : ∀ t, QEnd s.queue (expOf s) t = s.start t + s.sent t
  j3 : ∀ t, s.taken t ≠ s.returned t → t < s.version ∧ ∀ v, s.sampled = some v → t < v
  j4 : ∀ t, (s.out.filter (fun e => e.1 == t)).map (·.2) = List.range' (s.start t) (s.returned t)
  j6q : ∀ e ∈ s.queue, e.1 ≤ s.version
  j6o : ∀ e ∈ s.out, e.1 ≤ s.version
  j6z : ∀ t, s.version < t → s.sent t = 0 ∧ s.taken t = 0 ∧ s.returned t = 0

theorem finv_init : FInv {} :=
  ⟨(by intro v h; cases h), trivial, (by intro t; rfl), (by intro t h; exact absurd rfl h), (by intro t; rfl),
   (by intro e h; cases h), (by intro e h; cases h), (by intro t _; exact ⟨rfl, rfl, rfl⟩)⟩

theorem finv_step (s s' : GF) (e : GFEv) (hi : FInv s) (h : fstep false s e = some s') : FInv s' := by
  cases e <;> simp only [fstep] at h
  case call =>
    split at h
    · cases h
      refine ⟨?_, hi.j2a, hi.j2b, ?_, hi.j4, hi.j6q, hi.j6o, hi.j6z⟩
      · intro v hv; simp at hv; show v ≤ s.version; omega
      · intro t ht
        have := (hi.j3 t ht).1
        exact ⟨this, by intro v hv; simp at hv; omega⟩
    · cases h
  case subscribe st =>
    cases h
    have hz := hi.j6z (s.version + 1) (by omega)
    have hfresh : ∀ e ∈ s.queue, e.1 ≠ s.version + 1 := fun e he => by have := hi.j6q e he; omega
    have hexp : expOf { s with version := s.version + 1, start := upd s.start (s.version + 1) st }
        = upd (expOf s) (s.version + 1) st := by
      funext t
      simp only [expOf, upd]
      by_cases ht : t = s.version + 1
      · subst ht; simp [hz.2.1]
      · simp [ht]
    have hq := q_fresh s.queue (expOf s) (s.version + 1) st hfresh
    refine ⟨?_, ?_, ?_, ?_, ?_, ?_, ?_, ?_⟩
    · intro v hv; have := hi.j1 v hv; show v ≤ s.version + 1; omega
    · show QOK s.queue _; rw [hexp]; exact hq.1.mpr hi.j2a
    · intro t
      show QEnd s.queue _ t = upd s.start (s.version + 1) st t + s.sent t
      rw [hexp, hq.2]
      by_cases ht : t = s.version + 1
      · subst ht; simp [upd, hz.1]
      · simp [upd, ht]; exact hi.j2b t
    · intro t ht
      have := hi.j3 t ht
      exact ⟨by show t < s.version + 1; omega, this.2⟩
    · intro t
      show _ = List.range' (upd s.start (s.version + 1) st t) (s.returned t)
      by_cases ht : t = s.version + 1
      · subst ht
        have : s.out.filter (fun e => e.1 == s.version + 1) = [] := by
          apply List.filter_eq_nil_iff.mpr
          intro e he; have := hi.j6o e he; simp; omega
        simp [this, hz.2.2]
      · simp [upd, ht]; exact hi.j4 t
    · intro e he; have := hi.j6q e he; show e.1 ≤ s.version + 1; omega
    · intro e he; have := hi.j6o e he; show e.1 ≤ s.version + 1; omega
    · intro t ht; exact hi.j6z t (by show s.version < t; have : s.version + 1 < t := ht; omega)
  case enqueue t =>
    split at h
    · rename_i hb
      cases h
      have hexp : expOf { s with queue := s.queue ++ [(t, s.start t + s.sent t)], sent := upd s.sent t (s.sent t + 1) } = expOf s := rfl
      refine ⟨hi.j1, ?_, ?_, hi.j3, hi.j4, ?_, hi.j6o, ?_⟩
      · show QOK (s.queue ++ [(t, s.start t + s.sent t)]) _
        rw [hexp, qok_append]; exact ⟨hi.j2a, (hi.j2b t).symm⟩
      · intro x
        show QEnd (s.queue ++ [(t, s.start t + s.sent t)]) _ x = s.start x + upd s.sent t (s.sent t + 1) x
        rw [hexp, qend_append]
        by_cases hx : x = t
        · subst hx; simp [upd]; omega
        · simp [upd, hx]; exact hi.j2b x
      · intro e he
        rcases List.mem_append.mp he with he | he
        · exact hi.j6q e he
        · simp at he; subst he; exact hb.2
      · intro x hx
        have hx' : s.version < x := hx
        have := hi.j6z x hx'
        have hne : x ≠ t := by omega
        exact ⟨by show upd s.sent t (s.sent t + 1) x = 0; simp [upd, hne]; exact this.1, this.2.1, this.2.2⟩
    · cases h
  case recv =>
    split at h
    · rename_i v t o rest hs hq
      have hqok := hi.j2a
      rw [hq] at hqok
      obtain ⟨ho, hrest⟩ := hqok
      simp only at ho hrest
      have hv := hi.j1 v hs
      have htv : t ≤ s.version := hi.j6q (t, o) (by rw [hq]; exact List.mem_cons_self)
      have hexp' : (fun x => s.start x + upd s.taken t (s.taken t + 1) x) = upd (expOf s) t (o + 1) := by
        funext x
        by_cases hx : x = t
        · subst hx; simp [upd, expOf] at ho ⊢; omega
        · simp [upd, hx, expOf]
      have hend : ∀ x, QEnd rest (upd (expOf s) t (o + 1)) x = s.start x + s.sent x := by
        intro x; have := hi.j2b x; rw [hq] at this; exact this
      have hqr : ∀ e ∈ rest, e.1 ≤ s.version := fun e he => hi.j6q e (by rw [hq]; exact List.mem_cons_of_mem _ he)
      have hz' : ∀ x, s.version < x → s.sent x = 0 ∧ upd s.taken t (s.taken t + 1) x = 0 ∧ s.returned x = 0 := by
        intro x hx
        have := hi.j6z x hx
        have hne : x ≠ t := by omega
        exact ⟨this.1, by simp [upd, hne]; exact this.2.1, this.2.2⟩
      split at h
      · rename_i hacc
        cases h
        simp [accept] at hacc
        have heq : s.taken t = s.returned t := by
          cases Nat.decEq (s.taken t) (s.returned t) with
          | isTrue h => exact h
          | isFalse h => have := (hi.j3 t h).2 v hs; omega
        refine ⟨(by intro v' hv'; cases hv'), ?_, ?_, ?_, ?_, hqr, ?_, ?_⟩
        · show QOK rest (fun x => s.start x + upd s.taken t (s.taken t + 1) x); rw [hexp']; exact hrest
        · intro x; show QEnd rest (fun x => s.start x + upd s.taken t (s.taken t + 1) x) x = _; rw [hexp']; exact hend x
        · intro x hx
          by_cases hxt : x = t
          · subst hxt; simp [upd, heq] at hx
          · simp [upd, hxt] at hx
            exact ⟨(hi.j3 x hx).1, by intro v' hv'; cases hv'⟩
        · intro x
          show (List.filter (fun e => e.1 == x) (s.out ++ [(t, o)])).map (·.2) = List.range' (s.start x) (upd s.returned t (s.returned t + 1) x)
          by_cases hxt : x = t
          · subst hxt
            simp only [List.filter_append, List.map_append, upd_same, List.range'_concat, hi.j4 x]
            simp [expOf] at ho
            simp; omega
          · have : (t == x) = false := by simp; exact fun h => hxt h.symm
            simp [List.filter_append, upd, hxt, this]; exact hi.j4 x
        · intro e he
          rcases List.mem_append.mp he with he | he
          · exact hi.j6o e he
          · simp at he; subst he; exact htv
        · intro x hx
          have hx' : s.version < x := hx
          have := hz' x hx'
          have hne : x ≠ t := by omega
          exact ⟨this.1, this.2.1, by show upd s.returned t (s.returned t + 1) x = 0; simp [upd, hne]; exact this.2.2⟩
      · rename_i hacc
        cases h
        simp [accept] at hacc
        refine ⟨(by intro v' hv'; simp at hv'; show v' ≤ s.version; omega), ?_, ?_, ?_, hi.j4, hqr, hi.j6o, hz'⟩
        · show QOK rest (fun x => s.start x + upd s.taken t (s.taken t + 1) x); rw [hexp']; exact hrest
        · intro x; show QEnd rest (fun x => s.start x + upd s.taken t (s.taken t + 1) x) x = _; rw [hexp']; exact hend x
        · intro x hx
          by_cases hxt : x = t
          · subst hxt
            exact ⟨by show x < s.version; omega, by intro v' hv'; simp at hv'; omega⟩
          · have hx2 : s.taken x ≠ s.returned x := by
              have : upd s.taken t (s.taken t + 1) x ≠ s.returned x := hx
              simpa [upd, hxt] using this
            have := (hi.j3 x hx2).1
            exact ⟨this, by intro v' hv'; simp at hv'; omega⟩
    · cases h

theorem finv_reachable (s : GF) (h : FReachable false s) : FInv s := by
  induction h with
  | init => exact finv_init
  | step e _ hs ih => exact finv_step _ _ e ih hs

end KV.GroupFront
