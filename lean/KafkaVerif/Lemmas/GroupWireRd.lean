/-
Lemmas/GroupWireRd.lean — the wire path of an assignment and of a member's metadata, composed from the REGENERATED
codec of Gen/Legacy.lean (writers `syncGroupRequestV0.writeTo`, `syncGroupResponseV0.writeTo`, `joinGroupResponse.writeTo`,
`groupMetadata.writeTo`; readers `syncGroupResponseV0.readFrom`, `joinGroupResponse.readFrom`, `groupMetadata.readFrom` with
their generated `read_write` theorems) and, for `groupAssignment` (whose map loop the legacy translator does not handle),
the hand model of Model/GroupWire.lean read in the same parser monad (`Base/LegacyRead.lean`).  Helper lemmas for
Props/C14.lean §9.
-/
import KafkaVerif.Gen.Legacy
import KafkaVerif.Model.GroupWire

namespace KV.GroupWireRd
open KV KV.Legacy KV.Wire KV.Gen.Legacy

/-- one iteration of `readMapStringInt32` -/
def readEntry : Rd (Bytes × List Int) := fun bs =>
  match Legacy.readString bs with
  | none => none
  | some (k, r) => match Legacy.readInt32Array r with
    | none => none
    | some (vs, r') => some ((k, vs), r')

/-- syncgroup.go `groupAssignment.readFrom` on the bytes of one member's assignment (`size == 0` ⇒ empty):
version, entries in wire order, user data -/
def readAssignment : Rd (Int × List (Bytes × List Int) × Bytes) := fun bs =>
  if bs.length = 0 then some ((0, [], []), bs) else
  match Legacy.readInt16 bs with
  | none => none
  | some (v, r) => match Legacy.readArrayWith readEntry r with
    | none => none
    | some (es, r') => match Legacy.readBytes r' with
      | none => none
      | some (u, r'') => some ((v, es, u), r'')

/-- the coordinator's side (specification; the library never reads a request): one `(member id, bytes)` entry -/
def readGroupAssignment : Rd syncGroupRequestGroupAssignmentV0 := fun bs =>
  match Legacy.readString bs with
  | none => none
  | some (m, r) => match Legacy.readBytes r with
    | none => none
    | some (b, r') => some (⟨m, b⟩, r')

/-- the coordinator's side: the SyncGroup v0 request body -/
def readSyncRequest : Rd syncGroupRequestV0 := fun bs =>
  match Legacy.readString bs with
  | none => none
  | some (g, r1) => match Legacy.readInt32 r1 with
    | none => none
    | some (gen, r2) => match Legacy.readString r2 with
      | none => none
      | some (m, r3) => match Legacy.readArrayWith readGroupAssignment r3 with
        | none => none
        | some (gas, r4) => some (⟨g, gen, m, gas⟩, r4)

/-- well-formed entry: the name fits an int16 length, the values fit int32 -/
def WFEntry (e : Bytes × List Int) : Prop := e.1.length < 2 ^ 15 ∧ e.2.length < 2 ^ 31 ∧ ∀ v ∈ e.2, inRng 32 v

theorem readEntry_write (e : Bytes × List Int) (h : WFEntry e) (rest : Bytes) :
    readEntry (KV.GroupWire.writeEntry e ++ rest) = some (e, rest) := by
  unfold readEntry KV.GroupWire.writeEntry
  rw [List.append_assoc, Legacy.readString_write _ _ h.1]
  simp only
  rw [Legacy.readInt32Array_write _ _ h.2.2 h.2.1]

theorem readBytes_nil (rest : Bytes) : Legacy.readBytes (encInt 4 (-1) ++ rest) = some ([], rest) := by
  have hr : inRng (8 * 4) (-1 : Int) := by constructor <;> simp
  simp [Legacy.readBytes, rdInt_enc 4 (-1) rest (by decide) hr, rdBlob]

/-- `groupAssignment{Version: 1, Topics: …}.bytes()` read back by `groupAssignment.readFrom`: the entries in the order
written, nothing left over -/
theorem readAssignment_write (es : List (Bytes × List Int)) (hn : es.length < 2 ^ 31) (he : ∀ e ∈ es, WFEntry e) (rest : Bytes) :
    readAssignment (KV.GroupWire.writeAssignment ⟨1, es, none⟩ ++ rest) = some ((1, es, []), rest) := by
  unfold readAssignment KV.GroupWire.writeAssignment
  simp only [List.append_assoc]
  rw [if_neg (by simp [List.length_append, len_writeInt16])]
  rw [Legacy.readInt16_write 1 _ (by constructor <;> simp)]
  simp only
  have harr := Legacy.readArrayWith_writeArray readEntry KV.GroupWire.writeEntry es
    (KV.GroupWire.writeOptBytes none ++ rest) (fun e he' r => readEntry_write e (he e he') r) hn
  simp only [writeArray, writeArrayLen, List.append_assoc] at harr
  rw [show writeInt32 (es.length : Int) = encInt 4 (es.length : Int) from rfl, harr]
  simp only [KV.GroupWire.writeOptBytes]
  rw [readBytes_nil]

theorem readGroupAssignment_write (x : syncGroupRequestGroupAssignmentV0) (h1 : x.MemberID.length < 2 ^ 15)
    (h2 : x.MemberAssignments.length < 2 ^ 31) (rest : Bytes) :
    readGroupAssignment (syncGroupRequestGroupAssignmentV0.writeTo x ++ rest) = some (x, rest) := by
  unfold readGroupAssignment syncGroupRequestGroupAssignmentV0.writeTo
  rw [List.append_assoc, Legacy.readString_write _ _ h1]
  simp only
  rw [Legacy.readBytes_write _ _ h2]

structure SyncReqOk (t : syncGroupRequestV0) : Prop where
  group : t.GroupID.length < 2 ^ 15
  gen : inRng 32 t.GenerationID
  member : t.MemberID.length < 2 ^ 15
  count : t.GroupAssignments.length < 2 ^ 31
  each : ∀ x ∈ t.GroupAssignments, x.MemberID.length < 2 ^ 15 ∧ x.MemberAssignments.length < 2 ^ 31

/-- a coordinator parsing the request body the REAL (regenerated) writer produced sees exactly the listed
(member id, bytes) entries, in order -/
theorem readSyncRequest_write (t : syncGroupRequestV0) (h : SyncReqOk t) (rest : Bytes) :
    readSyncRequest (syncGroupRequestV0.writeTo t ++ rest) = some (t, rest) := by
  unfold readSyncRequest syncGroupRequestV0.writeTo
  simp only [List.append_assoc]
  rw [Legacy.readString_write _ _ h.group]
  simp only
  rw [Legacy.readInt32_write _ _ h.gen]
  simp only
  rw [Legacy.readString_write _ _ h.member]
  simp only
  rw [Legacy.readArrayWith_writeArray readGroupAssignment syncGroupRequestGroupAssignmentV0.writeTo t.GroupAssignments rest
    (fun x hx r => readGroupAssignment_write x (h.each x hx).1 (h.each x hx).2 r) h.count]

end KV.GroupWireRd
