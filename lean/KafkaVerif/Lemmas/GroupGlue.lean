/-
Lemmas/GroupGlue.lean — helper lemmas for the leader-glue part of Props/C14.lean (core Lean only).
-/
import KafkaVerif.Model.GroupGlue
import KafkaVerif.Spec.GroupAssign
import KafkaVerif.Lemmas.GroupBalancer

namespace KV.GroupGlue
open KV.Spec.GroupAssign

def keys (m : TopicMap) : List Nat := m.map (·.1)

theorem mapGet_nil (k : Nat) : mapGet k [] = none := rfl

theorem mapGet_cons (k : Nat) (e : Nat × List Int) (m : TopicMap) :
    mapGet k (e :: m) = if e.1 = k then some e.2 else mapGet k m := by
  unfold mapGet
  by_cases h : e.1 = k <;> simp [List.find?_cons, h]

theorem mapGet_insert (t k : Nat) (v : List Int) : ∀ (m : TopicMap),
    mapGet t (mapInsert k v m) = if k = t then some v else mapGet t m
  | [] => by simp [mapInsert, mapGet_cons, mapGet_nil]
  | (k', v') :: r => by
    have ih := mapGet_insert t k v r
    unfold mapInsert
    by_cases h : k' = k
    · subst h; by_cases h2 : k' = t <;> simp [mapGet_cons, h2]
    · by_cases h2 : k' = t
      · subst h2; simp [h, mapGet_cons]
        intro e; exact absurd e.symm h
      · simp [h, mapGet_cons, h2, ih]

theorem mapGet_none_of_not_mem (t : Nat) (m : TopicMap) (h : ¬ t ∈ keys m) : mapGet t m = none := by
  unfold mapGet
  have : m.find? (fun e => e.1 == t) = none := by
    rw [List.find?_eq_none]; intro e he hk
    exact h (List.mem_map.mpr ⟨e, he, by simpa using hk⟩)
  rw [this]; rfl

/-- filling a map from a list with distinct keys: lookups read the list -/
theorem mapGet_fold (t : Nat) : ∀ (l acc : TopicMap), (keys l).Nodup →
    mapGet t (l.foldl (fun acc e => mapInsert e.1 e.2 acc) acc) = (mapGet t l).or (mapGet t acc)
  | [], acc, _ => by simp [mapGet_nil]
  | e :: l, acc, h => by
    have h' := List.nodup_cons.mp h
    rw [List.foldl_cons, mapGet_fold t l _ h'.2, mapGet_insert, mapGet_cons]
    by_cases he : e.1 = t
    · subst he
      rw [mapGet_none_of_not_mem _ l h'.1]; simp
    · simp [he]

theorem keys_insert (k : Nat) (v : List Int) : ∀ (m : TopicMap) (x : Nat), x ∈ keys (mapInsert k v m) ↔ x = k ∨ x ∈ keys m
  | [], x => by simp [mapInsert, keys]
  | (k', v') :: r, x => by
    have ih := keys_insert k v r x
    unfold mapInsert
    by_cases h : k' = k
    · subst h; simp [keys]
    · simp only [h, if_false]
      simp only [keys, List.map_cons, List.mem_cons] at ih ⊢
      rw [ih]
      constructor
      · rintro (h1 | h1 | h1) <;> simp [h1]
      · rintro (h1 | h1 | h1) <;> simp [h1]

theorem keys_insert_nodup (k : Nat) (v : List Int) : ∀ (m : TopicMap), (keys m).Nodup → (keys (mapInsert k v m)).Nodup
  | [], _ => by simp [mapInsert, keys]
  | (k', v') :: r, h => by
    have h' := List.nodup_cons.mp h
    unfold mapInsert
    by_cases hk : k' = k
    · subst hk; simpa [keys] using h
    · simp only [hk, if_false]
      show (k' :: keys (mapInsert k v r)).Nodup
      refine List.nodup_cons.mpr ⟨?_, keys_insert_nodup k v r h'.2⟩
      intro hm
      rcases (keys_insert k v r k').mp hm with e | e
      · exact hk e
      · exact h'.1 e

theorem keys_fold_nodup : ∀ (l acc : TopicMap), (keys acc).Nodup →
    (keys (l.foldl (fun acc e => mapInsert e.1 e.2 acc) acc)).Nodup
  | [], _, h => h
  | e :: l, acc, h => keys_fold_nodup l _ (keys_insert_nodup e.1 e.2 acc h)

/-- with distinct keys a lookup finds exactly the listed entries -/
theorem mapGet_eq_some_iff (t : Nat) (v : List Int) : ∀ (m : TopicMap), (keys m).Nodup →
    (mapGet t m = some v ↔ (t, v) ∈ m)
  | [], _ => by simp [mapGet_nil]
  | e :: m, h => by
    have h' := List.nodup_cons.mp h
    have ih := mapGet_eq_some_iff t v m h'.2
    rw [mapGet_cons]
    by_cases he : e.1 = t
    · simp only [he, if_true, List.mem_cons]
      constructor
      · intro hv; left; cases e; simp at he hv ⊢; exact ⟨he.symm, hv.symm⟩
      · rintro (h1 | h1)
        · rw [← h1]
        · exact absurd (List.mem_map.mpr ⟨(t, v), h1, rfl⟩) (by rw [← he]; exact h'.1)
    · simp only [he, if_false, List.mem_cons]
      rw [ih]
      constructor
      · exact Or.inr
      · rintro (h1 | h1)
        · rw [← h1] at he; exact absurd rfl he
        · exact h1

/-- lookups do not depend on the iteration order of a map -/
theorem mapGet_perm (t : Nat) (m₁ m₂ : TopicMap) (hp : m₁.Perm m₂) (h : (keys m₁).Nodup) : mapGet t m₁ = mapGet t m₂ := by
  have h2 : (keys m₂).Nodup := (hp.map _).nodup_iff.mp h
  cases h1 : mapGet t m₁ with
  | some v =>
    have := (mapGet_eq_some_iff t v m₁ h).mp h1
    exact ((mapGet_eq_some_iff t v m₂ h2).mpr (hp.mem_iff.mp this)).symm
  | none =>
    cases h3 : mapGet t m₂ with
    | none => rfl
    | some v =>
      have := (mapGet_eq_some_iff t v m₂ h2).mp h3
      rw [(mapGet_eq_some_iff t v m₁ h).mpr (hp.mem_iff.mpr this)] at h1
      exact absurd h1 (by simp)



theorem mapGet_map (t : Nat) (f : List Int → List Int) : ∀ (m : TopicMap),
    mapGet t (m.map (fun e => (e.1, f e.2))) = (mapGet t m).map f
  | [] => rfl
  | e :: m => by
    have ih := mapGet_map t f m
    rw [List.map_cons, mapGet_cons, mapGet_cons, ih]
    by_cases h : e.1 = t <;> simp [h]

theorem toTopics32_get (t : Nat) (topics : TopicMap) (h : (keys topics).Nodup) :
    mapGet t (toTopics32 topics) = (mapGet t topics).map (·.map toInt32) := by
  unfold toTopics32
  have hk : keys (topics.map (fun e => (e.1, e.2.map toInt32))) = keys topics := by
    unfold keys; rw [List.map_map]; rfl
  rw [mapGet_fold t _ [] (by rw [hk]; exact h), mapGet_nil, Option.or_none, mapGet_map]

theorem toTopics32_keys_nodup (topics : TopicMap) : (keys (toTopics32 topics)).Nodup :=
  keys_fold_nodup _ [] (by simp [keys])

theorem decode_encode (ρ : TopicMap → TopicMap) (hρ : ∀ l, (ρ l).Perm l) (m : TopicMap) (h : (keys m).Nodup) (t : Nat) :
    mapGet t (decodeAssignment (encodeAssignment ρ m)) = mapGet t m := by
  unfold decodeAssignment encodeAssignment
  have hk : (keys (ρ m)).Nodup := ((hρ m).map _).nodup_iff.mpr h
  rw [mapGet_fold t _ [] hk, mapGet_nil, Option.or_none]
  exact mapGet_perm t _ _ (hρ m) hk

/-- what a member receives is its own entry of the leader's assignment map, and nothing else -/
theorem received_get (ρ : TopicMap → TopicMap) (hρ : ∀ l, (ρ l).Perm l) (A : Assignments)
    (hin : ∀ e ∈ A, (keys e.2).Nodup) (id t : Nat) :
    mapGet t (received ρ A id) =
      match A.find? (fun e => e.1 == id) with
      | some e => (mapGet t e.2).map (·.map toInt32)
      | none => none := by
  unfold received syncRequest
  rw [List.find?_map]
  have : ((fun e : Nat × Wire => e.1 == id) ∘ fun e : Nat × TopicMap => (e.1, encodeAssignment ρ (toTopics32 e.2)))
      = (fun e => e.1 == id) := rfl
  rw [this]
  cases hf : A.find? (fun e => e.1 == id) with
  | none => simp [mapGet_nil]
  | some e =>
    simp only [Option.map_some]
    rw [decode_encode ρ hρ _ (toTopics32_keys_nodup e.2) t,
      toTopics32_get t e.2 (hin e (List.mem_of_find?_eq_some hf))]

theorem toInt32_id (x : Int) (h : InInt32 x) : toInt32 x = x := by
  unfold toInt32; unfold InInt32 at h; omega

theorem map_toInt32_id : ∀ (l : List Int), (∀ x ∈ l, InInt32 x) → l.map toInt32 = l
  | [], _ => rfl
  | x :: l, h => by
    rw [List.map_cons, toInt32_id x (h x List.mem_cons_self), map_toInt32_id l (fun y hy => h y (List.mem_cons_of_mem _ hy))]

/-- with distinct keys `find?` by key finds exactly the listed entries; hence it does not depend on the order -/
theorem find_key_iff {β : Type} (k : Nat) (e : Nat × β) : ∀ (l : List (Nat × β)), (l.map (·.1)).Nodup →
    (l.find? (fun x => x.1 == k) = some e ↔ e ∈ l ∧ e.1 = k)
  | [], _ => by simp
  | x :: l, h => by
    have h' := List.nodup_cons.mp h
    have ih := find_key_iff k e l h'.2
    rw [List.find?_cons]
    by_cases hx : x.1 = k
    · simp only [hx, beq_self_eq_true, List.mem_cons]
      constructor
      · intro he; simp at he; exact ⟨Or.inl he.symm, he ▸ hx⟩
      · rintro ⟨h1 | h1, h2⟩
        · rw [h1]
        · exact absurd (List.mem_map.mpr ⟨e, h1, h2⟩) (by rw [← hx]; exact h'.1)
    · have : (x.1 == k) = false := by simpa using hx
      simp only [this, List.mem_cons]
      rw [ih]
      constructor
      · rintro ⟨h1, h2⟩; exact ⟨Or.inr h1, h2⟩
      · rintro ⟨h1 | h1, h2⟩
        · rw [h1] at h2; exact absurd h2 hx
        · exact ⟨h1, h2⟩

theorem find_key_perm {β : Type} (k : Nat) (l₁ l₂ : List (Nat × β)) (hp : l₁.Perm l₂) (h : (l₁.map (·.1)).Nodup) :
    l₁.find? (fun x => x.1 == k) = l₂.find? (fun x => x.1 == k) := by
  have h2 : (l₂.map (·.1)).Nodup := (hp.map _).nodup_iff.mp h
  cases h1 : l₁.find? (fun x => x.1 == k) with
  | some e =>
    have := (find_key_iff k e l₁ h).mp h1
    exact ((find_key_iff k e l₂ h2).mpr ⟨hp.mem_iff.mp this.1, this.2⟩).symm
  | none =>
    cases h3 : l₂.find? (fun x => x.1 == k) with
    | none => rfl
    | some e =>
      have := (find_key_iff k e l₂ h2).mp h3
      rw [(find_key_iff k e l₁ h).mpr ⟨hp.mem_iff.mpr this.1, this.2⟩] at h1
      exact absurd h1 (by simp)

/-! ### from an assignment function to the Go map the balancers return, and back through the glue -/

theorem find_ids {β : Type} (g : Nat → β) (id : Nat) : ∀ (ids : List Nat),
    (ids.map fun i => (i, g i)).find? (fun e => e.1 == id) = if id ∈ ids then some (id, g id) else none
  | [] => by simp
  | i :: ids => by
    have ih := find_ids g id ids
    rw [List.map_cons, List.find?_cons]
    by_cases h : i = id
    · subst h; simp
    · have h' : ¬ id = i := fun e => h e.symm
      have : (i == id) = false := by simpa using h
      simp only [this, ih, List.mem_cons, h', false_or]

theorem keys_filterMap (p : Nat → Bool) (h : Nat → List Int) : ∀ (ts : List Nat),
    keys (ts.filterMap fun t => if p t then none else some (t, h t)) = ts.filter (fun t => !p t)
  | [] => rfl
  | t :: ts => by
    have ih := keys_filterMap p h ts
    unfold keys at ih ⊢
    by_cases hp : p t <;> simp [List.filterMap_cons, List.filter_cons, hp, ih]

theorem mapGet_filterMap (p : Nat → Bool) (h : Nat → List Int) (t : Nat) : ∀ (ts : List Nat),
    mapGet t (ts.filterMap fun t' => if p t' then none else some (t', h t')) =
      if t ∈ ts ∧ p t = false then some (h t) else none
  | [] => by simp [mapGet_nil]
  | x :: ts => by
    have ih := mapGet_filterMap p h t ts
    by_cases hp : p x
    · rw [List.filterMap_cons]; simp only [hp, if_true]; rw [ih]
      by_cases hx : t = x
      · subst hx; simp [hp]
      · simp [hx]
    · have hp' : p x = false := by simpa using hp
      rw [List.filterMap_cons]; simp only [hp', Bool.false_eq_true, if_false]; rw [mapGet_cons, ih]
      by_cases hx : x = t
      · subst hx; simp [hp]
      · have : ¬ t = x := fun e => hx e.symm
        simp [hx, this]

theorem delivered_eq (ρ : TopicMap → TopicMap) (hρ : ∀ l, (ρ l).Perm l) (a : Asg) (ids ts : List Nat)
    (hts : ts.Nodup) (hr : ∀ t id, ∀ x ∈ a t id, InInt32 x) (t id : Nat) :
    delivered ρ a ids ts t id = if id ∈ ids ∧ t ∈ ts then a t id else [] := by
  unfold delivered
  have hin : ∀ e ∈ mapOf a ids ts, (keys e.2).Nodup := by
    intro e he
    unfold mapOf at he
    obtain ⟨i, _, rfl⟩ := List.mem_map.mp he
    rw [keys_filterMap]
    exact (List.filter_sublist).nodup hts
  rw [received_get ρ hρ _ hin id t]
  unfold mapOf
  rw [find_ids]
  by_cases hid : id ∈ ids
  · simp only [hid, if_true, true_and]
    rw [mapGet_filterMap]
    by_cases ht : t ∈ ts
    · by_cases he : (a t id).isEmpty
      · simp [ht, he]; exact (List.isEmpty_iff.mp he)
      · simp [ht, he, map_toInt32_id _ (hr t id)]
    · simp [ht]
  · simp [hid]


/-! ### makeAssignments -/

theorem mapGet_foldInsert (f : Nat → List Int) (t : Nat) : ∀ (topics : List Nat) (acc : TopicMap),
    mapGet t (topics.foldl (fun acc x => mapInsert x (f x) acc) acc) = if t ∈ topics then some (f t) else mapGet t acc
  | [], acc => by simp
  | x :: xs, acc => by
    rw [List.foldl_cons, mapGet_foldInsert f t xs, mapGet_insert]
    by_cases h1 : t ∈ xs
    · simp [h1]
    · by_cases h2 : x = t
      · subst h2; simp [h1]
      · have : ¬ t = x := fun e => h2 e.symm
        simp [h1, h2, this]

/-- `Generation.Assignments[t]` is what was received for `t` if the member is configured with `t`, nothing otherwise -/
theorem generationView_eq (ρ : TopicMap → TopicMap) (A : Assignments) (id : Nat) (topics : List Nat) (t : Nat) :
    generationView ρ A id topics t = if t ∈ topics then (mapGet t (received ρ A id)).getD [] else [] := by
  unfold generationView makeAssignments
  rw [mapGet_foldInsert (fun x => (mapGet x (received ρ A id)).getD []) t topics []]
  by_cases h : t ∈ topics <;> simp [h, mapGet_nil]

/-! ### extractTopics / readPartitions -/
section Topics
open KV.GroupBalancer

theorem mem_insertNat (x y : Nat) : ∀ (l : List Nat), y ∈ insertNat x l ↔ y = x ∨ y ∈ l
  | [] => by simp [insertNat]
  | z :: zs => by
    have ih := mem_insertNat x y zs
    unfold insertNat
    split
    · simp
    · simp only [List.mem_cons, ih]
      constructor
      · rintro (h | h | h) <;> simp [h]
      · rintro (h | h | h) <;> simp [h]

theorem mem_sortNat (y : Nat) : ∀ (l : List Nat), y ∈ sortNat l ↔ y ∈ l
  | [] => by simp [sortNat]
  | x :: xs => by
    unfold sortNat
    rw [mem_insertNat, mem_sortNat y xs]; simp

theorem mem_firstListings (x : Nat) : ∀ (l pre : List Nat), x ∈ firstListings pre l ↔ x ∈ l ∧ ¬ x ∈ pre
  | [], pre => by simp [firstListings]
  | y :: ys, pre => by
    have ih := mem_firstListings x ys (pre ++ [y])
    unfold firstListings
    by_cases hy : y ∈ pre
    · simp only [hy, if_true, ih, List.mem_append, List.mem_cons, List.mem_singleton, List.not_mem_nil, or_false]
      constructor
      · rintro ⟨h1, h2⟩; exact ⟨Or.inr h1, fun h => h2 (Or.inl h)⟩
      · rintro ⟨h1 | h1, h2⟩
        · exact absurd (h1 ▸ hy) h2
        · exact ⟨h1, fun h => h.elim h2 (fun e => h2 (e ▸ hy))⟩
    · simp only [hy, if_false, List.mem_cons, ih, List.mem_append, List.mem_singleton, List.not_mem_nil, or_false]
      constructor
      · rintro (h | ⟨h1, h2⟩)
        · exact ⟨Or.inl h, h ▸ hy⟩
        · exact ⟨Or.inr h1, fun h => h2 (Or.inl h)⟩
      · rintro ⟨h1 | h1, h2⟩
        · exact Or.inl h1
        · by_cases hxy : x = y
          · exact Or.inl hxy
          · exact Or.inr ⟨h1, fun h => h.elim h2 hxy⟩

/-- the leader asks for exactly the topics somebody subscribes to -/
theorem mem_extractTopics (ms : List Member) (t : Nat) : t ∈ extractTopics ms ↔ ∃ m ∈ ms, t ∈ m.topics := by
  unfold extractTopics
  rw [mem_sortNat, mem_firstListings]
  simp [List.mem_flatMap]

theorem readPartitions_reads (cluster : List Part) (topics : List Nat) :
    ReadsTopics cluster topics (readPartitions cluster topics) := by
  intro t ht
  unfold readPartitions partsOf ledIn
  refine ⟨?_, fun z => ?_⟩ <;>
  · rw [List.filter_filter]
    congr 1
    apply List.filter_congr
    intro p _
    by_cases hp : p.topic = t
    · simp [hp, ht]
    · simp [hp]

/-! ### a missing topic -/

/-- partitions of topic `t` in an accumulator followed by the answers still to come -/
theorem readTopicMetadata_go (t : Nat) (n : Nat) (hn : n > 1) : ∀ (ans : List (Nat × Option (List Part))) (acc : List Part) (err : Bool),
    ((readTopicMetadata.go n ans acc err).1).filter (fun p => p.topic == t) =
      acc.filter (fun p => p.topic == t) ++ (ans.flatMap fun a => (a.2.getD []).filter (fun p => p.topic == t))
  | [], acc, err => by simp [readTopicMetadata.go]
  | (x, none) :: rest, acc, err => by
    simp only [readTopicMetadata.go, hn, if_true]
    rw [readTopicMetadata_go t n hn rest acc true]; simp
  | (x, some ps) :: rest, acc, err => by
    simp only [readTopicMetadata.go]
    rw [readTopicMetadata_go t n hn rest (acc ++ ps) err]; simp

theorem filter_filter_topic (cluster : List Part) (t x : Nat) :
    (cluster.filter (fun p => p.topic == x)).filter (fun p => p.topic == t) =
      if x = t then cluster.filter (fun p => p.topic == t) else [] := by
  rw [List.filter_filter]
  by_cases h : x = t
  · subst h; simp
  · simp only [h, if_false, List.filter_eq_nil_iff]
    intro p _; simp; intro h1 h2; exact h (h2 ▸ h1 ▸ rfl)


theorem flatMap_single_nat (f : Nat → List Part) (t : Nat) : ∀ (l : List Nat), l.Nodup → t ∈ l →
    (∀ x ∈ l, x ≠ t → f x = []) → l.flatMap f = f t
  | [], _, h, _ => by simp at h
  | y :: ys, hn, hm, hz => by
    have hn' := List.nodup_cons.mp hn
    rw [List.flatMap_cons]
    rcases List.mem_cons.mp hm with h | h
    · subst h
      have : ys.flatMap f = [] := by
        rw [List.flatMap_eq_nil_iff]; intro x hx
        exact hz x (List.mem_cons_of_mem _ hx) (fun e => hn'.1 (e ▸ hx))
      simp [this]
    · have hy : y ≠ t := fun e => hn'.1 (e ▸ h)
      rw [hz y List.mem_cons_self hy, List.nil_append]
      exact flatMap_single_nat f t ys hn'.2 h (fun x hx => hz x (List.mem_cons_of_mem _ hx))

/-- after the fix: whatever topics are missing, for every requested topic the leader is given exactly the cluster's
partitions of that topic (none for a missing one) -/
theorem readTopicMetadata_topic (cluster : List Part) (missing topics : List Nat) (hn : topics.Nodup)
    (hmiss : ∀ p ∈ cluster, ¬ p.topic ∈ missing) (t : Nat) (ht : t ∈ topics) :
    ((readTopicMetadata (metadataAnswer cluster missing topics)).1).filter (fun p => p.topic == t) =
      cluster.filter (fun p => p.topic == t) := by
  have hmt : t ∈ missing → cluster.filter (fun p => p.topic == t) = [] := by
    intro hm
    rw [List.filter_eq_nil_iff]; intro p hp; simp; intro e; exact hmiss p hp (e ▸ hm)
  unfold readTopicMetadata
  have hlen : (metadataAnswer cluster missing topics).length = topics.length := by simp [metadataAnswer]
  by_cases hbig : topics.length > 1
  · rw [readTopicMetadata_go t _ (by rw [hlen]; exact hbig)]
    simp only [List.filter_nil, List.nil_append, metadataAnswer, List.flatMap_map]
    rw [flatMap_single_nat _ t topics hn ht]
    · by_cases hm : t ∈ missing
      · simp [hm, hmt hm]
      · simp [hm]
    · intro x _ hx
      by_cases hm : x ∈ missing
      · simp [hm]
      · simp only [List.contains_iff_mem, hm, if_false, Option.getD_some, Bool.false_eq_true]
        rw [filter_filter_topic]; simp [hx]
  · -- a single topic
    match topics, ht, hbig with
    | [x], ht, _ =>
      have hx : t = x := by simpa using ht
      subst hx
      by_cases hm : t ∈ missing
      · simp [metadataAnswer, hm, readTopicMetadata.go, hmt hm]
      · simp [metadataAnswer, hm, readTopicMetadata.go]
    | _ :: _ :: _, _, hb => exact absurd (by simp) hb

theorem leaderPartitions_reads (cluster : List Part) (missing : List Nat) (ms : List Member)
    (hmiss : ∀ p ∈ cluster, ¬ p.topic ∈ missing) (hn : (extractTopics ms).Nodup) :
    ReadsTopics cluster (extractTopics ms) (leaderPartitions cluster missing ms) := by
  intro t ht
  have h := readTopicMetadata_topic cluster missing (extractTopics ms) hn hmiss t ht
  unfold leaderPartitions
  refine ⟨by unfold partsOf; rw [h], fun z => ?_⟩
  unfold ledIn
  have e : ∀ ps : List Part, ps.filter (fun p => p.topic == t && p.zone == z) =
      (ps.filter (fun p => p.topic == t)).filter (fun p => p.zone == z) := by
    intro ps; rw [List.filter_filter]; congr 1; funext p; exact Bool.and_comm _ _
  rw [e, e, h]
end Topics

end KV.GroupGlue
