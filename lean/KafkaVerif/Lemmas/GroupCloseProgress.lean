/-
Lemmas/GroupCloseProgress.lean — C09: `ConsumerGroup.Close` / `Reader.Close` cannot get stuck inside `gen.close()`.

`run_progress_reachable` (Lemmas/GroupRunStruct.lean) leaves one phase of the `run` goroutine open: pc `waiting`, i.e.
`(*Generation).close` blocked on `<-g.joined` until every accounted function of the generation has run its exit
section.  This file closes it on the group builder's `Model/GroupRun.lean`:

* `Acc`  (per generation)  `routines` = pending exit sections (`returning`) + live heartbeat function + live accounted
  partition watchers + application functions still inside their body (`users`) — who is still counted is someone who
  can still move;
* `CloseInv`  `Acc` of the current generation, and while `run` waits in `close()` with `r` routines counted at its
  critical section, `r ≤ accounted` (so `routines = 0` implies `joined`: `Gen.Inv.joined_iff`);
* `waiting_progress`  in every reachable `waiting` state `gClosed` is enabled or one of the generation's functions can
  take a step towards its exit;
* `run_progress_full`, `system_progress_full`  the two progress theorems without their exception.

No termination measure here: in the model (as in Go) a heartbeat loop whose ticker and cancelled context are both
ready may keep choosing the ticker; progress is what can be said without a fairness assumption on `select`.
-/
import KafkaVerif.Lemmas.GroupRunStruct
import KafkaVerif.Lemmas.ReaderCloseSystem
namespace KV.GroupClose
open KV.Group

/-! ## who still runs in a generation: `routines` = functions whose exit section is pending + live heartbeat + live
accounted watchers + application functions inside their body -/

def hbLive : Option Proc → Nat
  | some .idle => 1
  | some .calling => 1
  | some .failed => 1
  | _ => 0

def wIsLive (x : WProc × Bool) : Bool := x.2 && (x.1 != .done)

def wLive (ws : List (WProc × Bool)) : Nat := ws.countP wIsLive

def Acc (g : Gen) : Prop := g.routines = g.returning + hbLive g.hb + wLive g.watchers + g.users

theorem countP_set {α : Type} (p : α → Bool) : ∀ (l : List α) (t : Nat) (x y : α), l[t]? = some y →
    (l.set t x).countP p + (if p y then 1 else 0) = l.countP p + (if p x then 1 else 0) := by
  intro l
  induction l with
  | nil => intro t x y h; simp at h
  | cons a rest ih =>
    intro t x y h
    cases t with
    | zero =>
      simp at h; subst h
      simp only [List.set_cons_zero, List.countP_cons]
      cases p a <;> cases p x <;> simp <;> omega
    | succ t =>
      simp at h
      have := ih t x y h
      simp only [List.set_cons_succ, List.countP_cons]
      omega

/-- a watcher changes its state, keeping its accounting flag -/
theorem wLive_setW (g : Gen) (t : Nat) (w w0 : WProc) (a : Bool) (h : g.watchers[t]? = some (w0, a)) :
    wLive (setW g t w).watchers + (if wIsLive (w0, a) then 1 else 0) = wLive g.watchers + (if wIsLive (w, a) then 1 else 0) := by
  have hd : (g.watchers.getD t (w, true)).2 = a := by
    simp [List.getD, h]
  simp only [setW, hd]
  exact countP_set wIsLive g.watchers t (w, a) (w0, a) h

theorem acc_fresh (gid : Int) (m : String) : Acc { gid := gid, member := m } := by
  simp [Acc, hbLive, wLive]

theorem acc_closeBegin (g : Gen) (h : Acc g) : Acc g.closeBegin.1 := h

theorem acc_userStart (acc : Bool) (g g' : Gen) (h : gUserStart acc g = some g') (ha : Acc g) : Acc g' := by
  simp only [gUserStart, Gen.start] at h
  split at h <;> simp at h <;> obtain ⟨-, rfl⟩ := h <;> simp_all [Acc] <;> omega


theorem acc_hbStart (acc : Bool) (g g' : Gen) (h : gHbStart acc g = some g') (ha : Acc g) (hn : g.hb = none) : Acc g' := by
  simp only [gHbStart, Gen.start] at h
  split at h <;> simp at h
  obtain ⟨-, rfl⟩ := h
  simp_all [Acc, hbLive]; omega

theorem acc_watchStart (acc : Bool) (g g' : Gen) (h : gWatchStart acc g = some g') (ha : Acc g) : Acc g' := by
  simp only [gWatchStart, Gen.start] at h
  split at h <;> simp at h <;> obtain ⟨-, rfl⟩ := h <;> simp_all [Acc, wLive, wIsLive, List.countP_append] <;> omega

theorem acc_hbCall (gid : Int) (m : String) (g g' : Gen) (h : gHbCall gid m g = some g') (ha : Acc g) : Acc g' := by
  simp only [gHbCall] at h
  split at h
  · rename_i hg; injection h with h; subst h
    simp only [Bool.and_eq_true, beq_iff_eq] at hg
    simp_all [Acc, hbLive]
  · cases h

theorem acc_hbRet (e : Option Err) (g g' : Gen) (h : gHbRet e g = some g') (ha : Acc g) : Acc g' := by
  simp only [gHbRet] at h
  split at h
  · rename_i hg; injection h with h; subst h
    simp only [beq_iff_eq] at hg
    cases e <;> simp_all [Acc, hbLive]
  · cases h

theorem acc_hbExit (g g' : Gen) (h : gHbExit g = some g') (ha : Acc g) : Acc g' := by
  simp only [gHbExit] at h
  split at h
  · rename_i hg; injection h with h; subst h
    simp only [Bool.or_eq_true, Bool.and_eq_true, beq_iff_eq] at hg
    rcases hg with hg | ⟨hg, -⟩ <;> (simp_all [Acc, hbLive, Gen.bodyReturned] <;> omega)
  · cases h


theorem acc_setW_same (g : Gen) (t : Nat) (w w0 : WProc) (a : Bool) (h : g.watchers[t]? = some (w0, a))
    (hw0 : w0 ≠ .done) (hw : w ≠ .done) (ha : Acc g) : Acc (setW g t w) := by
  have := wLive_setW g t w w0 a h
  have e1 : wIsLive (w0, a) = wIsLive (w, a) := by
    have h1 : (w0 != WProc.done) = true := by simpa using hw0
    have h2 : (w != WProc.done) = true := by simpa using hw
    simp only [wIsLive, h1, h2]
  rw [e1] at this
  have e2 : wLive (setW g t w).watchers = wLive g.watchers := by omega
  unfold Acc at ha ⊢
  rw [e2]; exact ha

theorem acc_watchCall (t : Nat) (g g' : Gen) (h : gWatchCall t g = some g') (ha : Acc g) : Acc g' := by
  simp only [gWatchCall] at h
  split at h
  · rename_i a hw; injection h with h; subst h
    exact acc_setW_same g t _ _ a hw (by simp) (by simp) ha
  · rename_i n a hw; injection h with h; subst h
    exact acc_setW_same g t _ _ a hw (by simp) (by simp) ha
  · cases h

theorem acc_watchParts (t n : Nat) (g g' : Gen) (h : gWatchParts t n g = some g') (ha : Acc g) : Acc g' := by
  simp only [gWatchParts] at h
  split at h
  · rename_i a hw; injection h with h; subst h
    exact acc_setW_same g t _ _ a hw (by simp) (by simp) ha
  · rename_i n0 a hw; injection h with h; subst h
    exact acc_setW_same g t _ _ a hw (by simp) (by split <;> simp) ha
  · cases h

theorem acc_watchErr (t : Nat) (e : Err) (g g' : Gen) (h : gWatchErr t e g = some g') (ha : Acc g) : Acc g' := by
  simp only [gWatchErr] at h
  split at h
  · rename_i a hw; injection h with h; subst h
    exact acc_setW_same g t _ _ a hw (by simp) (by simp) ha
  · rename_i n0 a hw
    split at h
    · injection h with h; subst h
      exact acc_setW_same g t _ _ a hw (by simp) (by split <;> simp) ha
    · split at h
      · injection h with h; subst h
        exact acc_setW_same g t _ _ a hw (by simp) (by simp) ha
      · injection h with h; subst h
        exact acc_setW_same g t _ _ a hw (by simp) (by simp) ha
  · cases h

/-- a watcher returns from its body: it stops being live and, when accounted, its exit section becomes pending -/
theorem acc_setW_done (g : Gen) (t : Nat) (w0 : WProc) (a : Bool) (h : g.watchers[t]? = some (w0, a)) (hw0 : w0 ≠ .done)
    (ha : Acc g) : Acc (setW (g.bodyReturned a) t .done) := by
  have hwb : (g.bodyReturned a).watchers = g.watchers := by unfold Gen.bodyReturned; split <;> rfl
  have := wLive_setW (g.bodyReturned a) t .done w0 a (by rw [hwb]; exact h)
  rw [hwb] at this
  unfold Acc at ha ⊢
  have e1 : (setW (g.bodyReturned a) t .done).routines = g.routines := by unfold setW Gen.bodyReturned; split <;> rfl
  have e2 : (setW (g.bodyReturned a) t .done).hb = g.hb := by unfold setW Gen.bodyReturned; split <;> rfl
  have e3 : (setW (g.bodyReturned a) t .done).users = g.users := by unfold setW Gen.bodyReturned; split <;> rfl
  have e4 : (setW (g.bodyReturned a) t .done).returning = g.returning + (if a then 1 else 0) := by
    unfold setW Gen.bodyReturned; cases a <;> simp
  rw [e1, e2, e3, e4]
  cases a
  · simp [wIsLive] at this ⊢; omega
  · simp [wIsLive, hw0] at this ⊢; omega

theorem acc_watchExit (t : Nat) (g g' : Gen) (h : gWatchExit t g = some g') (ha : Acc g) : Acc g' := by
  simp only [gWatchExit] at h
  split at h
  · rename_i a hw; injection h with h; subst h
    exact acc_setW_done g t _ a hw (by simp) ha
  · rename_i n a hw
    split at h
    · injection h with h; subst h
      exact acc_setW_done g t _ a hw (by simp) ha
    · cases h
  · cases h

theorem acc_fnExit (cbm : Bool) (left : Nat) (g g' : Gen) (h : gFnExit cbm left g = some g') (ha : Acc g) : Acc g' := by
  simp only [gFnExit] at h
  split at h
  · simp only [Gen.fnExit] at h
    split at h
    · cases h
    · split at h
      · cases h
      · rename_i h1 h2
        injection h with h; subst h
        unfold Acc at ha ⊢
        simp only
        omega
  · cases h

theorem acc_uRet (acc : Bool) (g g' : Gen) (h : gURet acc g = some g') (ha : Acc g) : Acc g' := by
  simp only [gURet] at h
  cases acc
  · simp only [Bool.false_eq_true, if_false] at h
    split at h
    · injection h with h; subst h; exact ha
    · cases h
  · simp only [if_true] at h
    split at h
    · injection h with h; subst h
      unfold Acc at ha ⊢
      simp [Gen.bodyReturned]; omega
    · cases h

theorem acc_uCtx (g g' : Gen) (h : gUCtx g = some g') (ha : Acc g) : Acc g' := by
  simp only [gUCtx] at h
  split at h
  · injection h with h; subst h; exact ha
  · cases h


/-! ## the number of accounted functions never decreases -/

theorem acct_bodyReturned (g : Gen) (a : Bool) : (g.bodyReturned a).accounted = g.accounted := by
  unfold Gen.bodyReturned; split <;> rfl

theorem acct_setW (g : Gen) (t : Nat) (w : WProc) : (setW g t w).accounted = g.accounted := rfl

theorem acct_start (g : Gen) : g.accounted ≤ g.start.1.accounted := by
  unfold Gen.start; split <;> simp

set_option hygiene false in
macro "acct_tac" : tactic =>
  `(tactic| (
    (repeat' split at h)
    all_goals (cases h)
    all_goals (try (exact Nat.le_refl _))
    all_goals (try (simp [acct_bodyReturned, acct_setW] <;> omega))))

theorem mono_hbCall (gid : Int) (m : String) (a b : Gen) (h : gHbCall gid m a = some b) : a.accounted ≤ b.accounted := by
  simp only [gHbCall] at h; acct_tac
theorem mono_hbRet (e : Option Err) (a b : Gen) (h : gHbRet e a = some b) : a.accounted ≤ b.accounted := by
  simp only [gHbRet] at h; acct_tac
theorem mono_hbExit (a b : Gen) (h : gHbExit a = some b) : a.accounted ≤ b.accounted := by
  simp only [gHbExit] at h; acct_tac
theorem mono_watchCall (t : Nat) (a b : Gen) (h : gWatchCall t a = some b) : a.accounted ≤ b.accounted := by
  simp only [gWatchCall] at h; acct_tac
theorem mono_watchParts (t n : Nat) (a b : Gen) (h : gWatchParts t n a = some b) : a.accounted ≤ b.accounted := by
  simp only [gWatchParts] at h; acct_tac
theorem mono_watchErr (t : Nat) (e : Err) (a b : Gen) (h : gWatchErr t e a = some b) : a.accounted ≤ b.accounted := by
  simp only [gWatchErr] at h; acct_tac
theorem mono_watchExit (t : Nat) (a b : Gen) (h : gWatchExit t a = some b) : a.accounted ≤ b.accounted := by
  simp only [gWatchExit] at h; acct_tac
theorem mono_fnExit (cbm : Bool) (l : Nat) (a b : Gen) (h : gFnExit cbm l a = some b) : a.accounted ≤ b.accounted := by
  simp only [gFnExit, Gen.fnExit] at h; acct_tac
theorem mono_uRet (acc : Bool) (a b : Gen) (h : gURet acc a = some b) : a.accounted ≤ b.accounted := by
  simp only [gURet] at h; acct_tac
theorem mono_uCtx (a b : Gen) (h : gUCtx a = some b) : a.accounted ≤ b.accounted := by
  simp only [gUCtx] at h; acct_tac
theorem mono_userStart (acc : Bool) (a b : Gen) (h : gUserStart acc a = some b) : a.accounted ≤ b.accounted := by
  simp only [gUserStart, Gen.start] at h; acct_tac
theorem mono_hbStart (acc : Bool) (a b : Gen) (h : gHbStart acc a = some b) : a.accounted ≤ b.accounted := by
  simp only [gHbStart, Gen.start] at h; acct_tac
theorem mono_watchStart (acc : Bool) (a b : Gen) (h : gWatchStart acc a = some b) : a.accounted ≤ b.accounted := by
  simp only [gWatchStart, Gen.start] at h; acct_tac

/-! ## the accounting holds in every reachable state of the group-run LTS -/

structure CloseInv (s : St) : Prop where
  acc : Acc s.cur
  wait : ∀ ret r, s.pc = .waiting ret r → r ≤ s.cur.accounted

theorem ci_onCur (s s' : St) (g : Nat) (f : Gen → Option Gen) (hi : CloseInv s)
    (hf : ∀ a b, f a = some b → Acc a → Acc b) (hm : ∀ a b, f a = some b → a.accounted ≤ b.accounted)
    (h : onCur s g f = some s') : CloseInv s' := by
  simp only [onCur] at h
  split at h
  · cases hfc : f s.cur with
    | none => simp [hfc] at h
    | some c =>
      simp [hfc] at h; subst h
      exact ⟨hf _ _ hfc hi.acc, fun ret r hp => Nat.le_trans (hi.wait ret r hp) (hm _ _ hfc)⟩
  · simp at h

theorem cur_afterLeave (s : St) (a : After) : (afterLeave s a).cur = s.cur := by
  cases a <;> rfl

theorem cur_coordFail (s : St) (lv : Option After) (e : Err) : (coordFail s lv e).cur = s.cur := by
  cases lv with
  | none => rfl
  | some a => simp [coordFail, cur_afterLeave]

theorem pc_afterLeave (s : St) (a : After) (ret : Option Err) (r : Nat) : (afterLeave s a).pc ≠ .waiting ret r := by
  cases a <;> simp [afterLeave]

theorem pc_coordFail (s : St) (lv : Option After) (e : Err) (ret : Option Err) (r : Nat) : (coordFail s lv e).pc ≠ .waiting ret r := by
  cases lv with
  | none => simp [coordFail]
  | some a => simp [coordFail, pc_afterLeave]

/-- the generation is untouched and the new pc is not inside `gen.close()` -/
theorem ci_quiet (s s' : St) (hi : CloseInv s) (hc : s'.cur = s.cur) (hp : ∀ ret r, s'.pc ≠ .waiting ret r) : CloseInv s' :=
  ⟨by rw [hc]; exact hi.acc, fun ret r h => absurd h (hp ret r)⟩

/-- neither the generation nor the pc changes -/
theorem ci_same (s s' : St) (hi : CloseInv s) (hc : s'.cur = s.cur) (hp : s'.pc = s.pc) : CloseInv s' :=
  ⟨by rw [hc]; exact hi.acc, fun ret r h => by rw [hc]; exact hi.wait ret r (by rw [← hp]; exact h)⟩

theorem ci_step (c : Cfg) (s s' : St) (e : Ev) (h3 : Inv3 s) (h1 : Inv1 s) (hi : CloseInv s) (h : step c s e = some s') :
    CloseInv s' := by
  cases e <;> simp only [step] at h
  case hbCall g gid m => exact ci_onCur s s' g _ hi (fun a b hab => acc_hbCall gid m a b hab) (fun a b hab => mono_hbCall gid m a b hab) h
  case hbRet g e => exact ci_onCur s s' g _ hi (fun a b hab => acc_hbRet e a b hab) (fun a b hab => mono_hbRet e a b hab) h
  case hbExit g => exact ci_onCur s s' g _ hi (fun a b hab => acc_hbExit a b hab) (fun a b hab => mono_hbExit a b hab) h
  case watchCall g t => exact ci_onCur s s' g _ hi (fun a b hab => acc_watchCall t a b hab) (fun a b hab => mono_watchCall t a b hab) h
  case watchParts g t n => exact ci_onCur s s' g _ hi (fun a b hab => acc_watchParts t n a b hab) (fun a b hab => mono_watchParts t n a b hab) h
  case watchErr g t e => exact ci_onCur s s' g _ hi (fun a b hab => acc_watchErr t e a b hab) (fun a b hab => mono_watchErr t e a b hab) h
  case watchExit g t => exact ci_onCur s s' g _ hi (fun a b hab => acc_watchExit t a b hab) (fun a b hab => mono_watchExit t a b hab) h
  case fnExit g cbm l => exact ci_onCur s s' g _ hi (fun a b hab => acc_fnExit cbm l a b hab) (fun a b hab => mono_fnExit cbm l a b hab) h
  case uRet g acc =>
    split at h
    · exact ci_onCur s s' g _ hi (fun a b hab => acc_uRet acc a b hab) (fun a b hab => mono_uRet acc a b hab) h
    · split at h
      · cases h; exact ci_same s _ hi rfl rfl
      · cases h
  case uCtx g =>
    split at h
    · exact ci_onCur s s' g _ hi (fun a b hab => acc_uCtx a b hab) (fun a b hab => mono_uCtx a b hab) h
    · split at h
      · cases h; exact hi
      · cases h
  case gNew g gid m =>
    split at h
    · cases h; exact ⟨acc_fresh gid m, fun ret r hp => by simp at hp⟩
    · cases h
  case gStart g acc =>
    split at h
    · split at h
      · rename_i k hpc
        simp only [Option.map_eq_some_iff] at h
        obtain ⟨cg, hcg, rfl⟩ := h
        refine ⟨?_, fun ret r hp => by simp only at hp; split at hp <;> cases hp⟩
        show Acc cg
        split at hcg
        · rename_i hk
          have hk0 : k = 0 := by simpa using hk
          subst hk0
          exact acc_hbStart acc s.cur cg hcg hi.acc (h3.fresh hpc).2.2.1
        · exact acc_watchStart acc s.cur cg hcg hi.acc
      · simp only [Option.map_eq_some_iff] at h
        obtain ⟨cg, hcg, rfl⟩ := h
        exact ⟨acc_userStart acc s.cur cg hcg hi.acc,
          fun ret r hp => Nat.le_trans (hi.wait ret r hp) (mono_userStart acc s.cur cg hcg)⟩
    · split at h
      · cases h; exact ci_same s _ hi rfl rfl
      · cases h
  case gClose g was r =>
    split at h
    · split at h
      · rename_i hg
        cases h
        refine ⟨acc_closeBegin s.cur hi.acc, ?_⟩
        intro ret' r' hp
        simp only [PC.waiting.injEq] at hp
        obtain ⟨-, rfl⟩ := hp
        have hr : r = s.cur.routines := by
          simp only [Bool.and_eq_true, beq_iff_eq] at hg
          exact hg.2
        have := h1.1.count
        show r ≤ s.cur.accounted
        omega
      · cases h
    · cases h
  all_goals (repeat' split at h)
  all_goals (first | cases h | skip)
  all_goals (try (exact hi))
  all_goals (try (exact ci_same s _ hi rfl rfl))
  all_goals (try (exact ci_quiet s _ hi (cur_coordFail _ _ _) (pc_coordFail _ _ _)))
  all_goals (try (exact ci_quiet s _ hi (cur_afterLeave _ _) (pc_afterLeave _ _)))
  all_goals (try (exact ci_quiet s _ hi rfl (by intro ret r hp; simp at hp)))


theorem ci_reachable (c : Cfg) (s : St) (h : Reachable c s) : CloseInv s := by
  induction h with
  | init => exact ⟨by simp [Acc, hbLive, wLive, noGen], fun ret r hp => by simp at hp⟩
  | step e hr hs ih => exact ci_step c _ _ e (inv3_reachable c _ hr) (inv1_reachable c _ hr) ih hs

/-! ## inside `gen.close()` something can always move -/

/-- the end of `close()` and the steps of the generation's functions towards their exit (coordinator answers
included: every network call returns) -/
def genEv : Ev → Bool
  | .gClosed _ => true
  | .fnExit _ _ _ => true
  | .hbRet _ _ => true
  | .hbExit _ => true
  | .watchCall _ _ => true
  | .watchParts _ _ _ => true
  | .watchExit _ _ => true
  | .uRet _ true => true
  | _ => false

theorem exists_live_watcher : ∀ (ws : List (WProc × Bool)), 0 < wLive ws →
    ∃ (t : Nat) (w : WProc), ws[t]? = some (w, true) ∧ w ≠ WProc.done := by
  intro ws
  induction ws with
  | nil => intro h; simp [wLive] at h
  | cons x rest ih =>
    intro h
    cases hx : wIsLive x with
    | true =>
      obtain ⟨w, a⟩ := x
      simp only [wIsLive, Bool.and_eq_true, bne_iff_ne, ne_eq] at hx
      obtain ⟨ha, hw⟩ := hx
      subst ha
      exact ⟨0, w, by simp, hw⟩
    | false =>
      have : 0 < wLive rest := by
        unfold wLive at h ⊢
        rw [List.countP_cons] at h
        rw [hx] at h
        simpa using h
      obtain ⟨t, w, h1, h2⟩ := ih this
      exact ⟨t + 1, w, by rw [List.getElem?_cons_succ]; exact h1, h2⟩

/-- **progress inside `gen.close()`** — in every reachable state in which `run` waits in `gen.close()`, either
`close()` can return or one of the generation's functions can take a step towards its exit: a pending exit section, the
heartbeat loop (its call returns; it sees the cancelled context), a partition watcher (its call returns; it sees the
cancelled context), or an application function still inside its body (it has to honour the cancelled context:
`Generation.Start`'s contract — for the Reader these are the commit loop and the unsubscribe function, C03). -/
theorem waiting_progress (c : Cfg) (s : St) (hr : Reachable c s) (ret : Option Err) (r : Nat)
    (hp : s.pc = .waiting ret r) : ∃ e, genEv e = true ∧ (step c s e).isSome = true := by
  have h3 := inv3_reachable c s hr
  have h1 := inv1_reachable c s hr
  have hi := ci_reachable c s hr
  have hg : 0 < s.gens := h3.hasGen (by simp [hp, PC.quiet])
  have hcur : isCur s (s.gens - 1) = true := by simp [isCur]; omega
  obtain ⟨hclosed, -⟩ := h1.2.2 ret r hp
  by_cases hcan : s.cur.closeCanReturn r = true
  · exact ⟨.gClosed (s.gens - 1), rfl, by simp [step, hp, hcur, hcan]⟩
  · have hcan' : s.cur.closeCanReturn r = false := by simpa using hcan
    simp only [Gen.closeCanReturn, Bool.or_eq_false_iff, beq_eq_false_iff_ne, ne_eq] at hcan'
    obtain ⟨hr0, hj⟩ := hcan'
    -- some accounted function has not run its exit section
    have hacc : 0 < s.cur.accounted := by have := hi.wait ret r hp; omega
    have hrt : 0 < s.cur.routines := by
      rcases Nat.eq_zero_or_pos s.cur.routines with h0 | h0
      · have := h1.1.joined_iff.mpr ⟨hclosed, h0, hacc⟩
        rw [hj] at this; cases this
      · exact h0
    have hA := hi.acc
    unfold Acc at hA
    by_cases hret : 0 < s.cur.returning
    · refine ⟨.fnExit (s.gens - 1) false (s.cur.routines - 1), rfl, ?_⟩
      have h1' : ¬(s.cur.routines = 0 ∨ s.cur.returning = 0) := by omega
      have h2' : ¬(s.cur.routines = 1 ∧ s.cur.joined = true) := by simp [hj]
      have hl : s.cur.routines - 1 + 1 = s.cur.routines := by omega
      simp [step, onCur, hcur, gFnExit, hclosed, hl, Gen.fnExit, h1', h2']
    · by_cases hhb : 0 < hbLive s.cur.hb
      · cases hh : s.cur.hb with
        | none => simp [hh, hbLive] at hhb
        | some p =>
          cases p with
          | idle => exact ⟨.hbExit (s.gens - 1), rfl, by simp [step, onCur, hcur, gHbExit, hh, hclosed]⟩
          | calling => exact ⟨.hbRet (s.gens - 1) none, rfl, by simp [step, onCur, hcur, gHbRet, hh]⟩
          | failed => exact ⟨.hbExit (s.gens - 1), rfl, by simp [step, onCur, hcur, gHbExit, hh]⟩
          | done => simp [hh, hbLive] at hhb
      · by_cases hwl : 0 < wLive s.cur.watchers
        · obtain ⟨t, w, hw, hnd⟩ := exists_live_watcher s.cur.watchers hwl
          cases w with
          | init => exact ⟨.watchCall (s.gens - 1) t, rfl, by simp [step, onCur, hcur, gWatchCall, hw]⟩
          | calling0 => exact ⟨.watchParts (s.gens - 1) t 0, rfl, by simp [step, onCur, hcur, gWatchParts, hw]⟩
          | idle n => exact ⟨.watchExit (s.gens - 1) t, rfl, by simp [step, onCur, hcur, gWatchExit, hw, hclosed]⟩
          | calling n => exact ⟨.watchParts (s.gens - 1) t n, rfl, by simp [step, onCur, hcur, gWatchParts, hw]⟩
          | failed => exact ⟨.watchExit (s.gens - 1) t, rfl, by simp [step, onCur, hcur, gWatchExit, hw]⟩
          | done => exact absurd rfl hnd
        · have hu : 0 < s.cur.users := by omega
          exact ⟨.uRet (s.gens - 1) true, rfl, by simp [step, hcur, onCur, gURet, hu]⟩

/-- **the `run` goroutine of a closed group can always move** until it has exited — `run_progress_reachable` without
its exception: also inside `gen.close()` -/
theorem run_progress_full (c : Cfg) (s : St) (hr : Reachable c s) (hc : s.closedCG = true) (hx : s.pc ≠ .exited) :
    ∃ e, (e.runLoop = true ∨ (∃ g acc, e = .gStart g acc) ∨ genEv e = true) ∧ (step c s e).isSome = true := by
  by_cases hw : ∃ ret r, s.pc = .waiting ret r
  · obtain ⟨ret, r, hp⟩ := hw
    obtain ⟨e, he, hen⟩ := waiting_progress c s hr ret r hp
    exact ⟨e, Or.inr (Or.inr he), hen⟩
  · have hw' : ∀ ret r, s.pc ≠ .waiting ret r := fun ret r h => hw ⟨ret, r, h⟩
    obtain ⟨e, he, hen⟩ := run_progress_reachable c s hr hc hx hw'
    refine ⟨e, ?_, by simpa using hen⟩
    rcases he with he | he
    · exact Or.inl he
    · exact Or.inr (Or.inl he)

open KV.ReaderCloseSystem in
/-- **Reader.Close as a system cannot get stuck**: `system_progress` without its exception -/
theorem system_progress_full (c : Cfg) (s : ReaderCloseSystem.State) (hi : ReaderCloseSystem.Inv c s) (hm : s.close = 2) :
    ∃ e, (ReaderCloseSystem.internal e = true ∨ (∃ gi acc, e = .group (.gStart gi acc)) ∨
          ∃ ge, e = .group ge ∧ genEv ge = true) ∧ (ReaderCloseSystem.step c s e).isSome = true := by
  by_cases hw : ∃ g ret r, s.group = some g ∧ g.pc = .waiting ret r
  · obtain ⟨g, ret, r, hgs, hp⟩ := hw
    obtain ⟨hr, -⟩ := hi.grp g hgs
    obtain ⟨e, he, hen⟩ := waiting_progress c g hr ret r hp
    refine ⟨.group e, Or.inr (Or.inr ⟨e, rfl, he⟩), ?_⟩
    have hne : (e == .nextCall || e == .closeCall) = false := by
      cases e <;> simp [genEv] at he ⊢
    cases hse : Group.step c g e with
    | none => simp [hse] at hen
    | some g' => simp [ReaderCloseSystem.step, hgs, hne, hse]
  · have hw' : ∀ g, s.group = some g → ∀ ret r, g.pc ≠ .waiting ret r :=
      fun g hg ret r h => hw ⟨g, ret, r, hg, h⟩
    obtain ⟨e, he, hen⟩ := ReaderCloseSystem.system_progress c s hi hm hw'
    refine ⟨e, ?_, by simpa using hen⟩
    rcases he with he | he
    · exact Or.inl he
    · exact Or.inr (Or.inl he)

end KV.GroupClose
