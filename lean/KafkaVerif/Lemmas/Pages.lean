/-
Lemmas/Pages.lean — part D of C05 (restated in Props/C05.lean): the page pool protocol of protocol/buffer.go is safe.
`pages_inv`: the invariant "a page is in the pool only if its count is 0; every count is held by a live
holder" holds after every sequence of operations.  `pages_safe`: a page on which a live holder has a count
is never handed out again (so the key/value bytes read through a live `pageRef` are the bytes written),
whatever else is decoded in between.
-/
import KafkaVerif.Model.Pages

namespace KV.Model.Pages

theorem inv_init : Inv init := ⟨fun _ => rfl, fun _ h => by simp [init] at h, by simp [init], fun p h => by simp [init] at h⟩

theorem mem_of_getElem? {l : List Nat} {i p : Nat} (h : l[i]? = some p) : p ∈ l := List.mem_of_getElem? h

theorem inv_step (s s' : PState) (e : PEvent) (hi : Inv s) (h : step s e = some s') : Inv s' := by
  obtain ⟨hc, hp, hn, hb⟩ := hi
  cases e with
  | allocPage =>
    simp only [step, Option.some.injEq] at h; subst h
    have hfresh : s.fresh ∉ s.held := fun hm => Nat.lt_irrefl _ (hb _ (Or.inr hm))
    have hfreshp : s.fresh ∉ s.pool := fun hm => Nat.lt_irrefl _ (hb _ (Or.inl hm))
    refine ⟨?_, ?_, hn, ?_⟩
    · intro p
      by_cases hpq : p = s.fresh
      · subst hpq; simp [bump, List.count_eq_zero_of_not_mem hfresh]
      · simp [bump, hpq, hc p, List.count_cons, Ne.symm hpq]
    · intro p hm
      have : p ≠ s.fresh := fun e => hfreshp (e ▸ hm)
      simp [bump, this, hp p hm]
    · intro p hm
      simp only [List.mem_cons] at hm
      show p < s.fresh + 1
      rcases hm with hm | hm | hm
      · have := hb p (Or.inl hm); omega
      · omega
      · have := hb p (Or.inr hm); omega
  | reusePage i =>
    simp only [step] at h
    cases hg : s.pool[i]? with
    | none => simp [hg] at h
    | some q =>
      simp only [hg, Option.some.injEq] at h; subst h
      have hq := mem_of_getElem? hg
      refine ⟨?_, ?_, hn.erase q, ?_⟩
      · intro p
        by_cases hpq : p = q
        · subst hpq; simp [bump, hc p]
        · simp [bump, hpq, hc p, List.count_cons, Ne.symm hpq]
      · intro p hm
        have hmem : p ∈ s.pool := List.mem_of_mem_erase hm
        have : p ≠ q := fun e => by subst e; exact (List.Nodup.not_mem_erase hn) hm
        simp [bump, this, hp p hmem]
      · intro p hm
        simp only [List.mem_cons] at hm
        rcases hm with hm | hm | hm
        · exact hb p (Or.inl (List.mem_of_mem_erase hm))
        · subst hm; exact hb _ (Or.inl hq)
        · exact hb p (Or.inr hm)
  | ref q =>
    simp only [step] at h
    split at h
    · rename_i hq
      simp only [Option.some.injEq] at h; subst h
      refine ⟨?_, ?_, hn, ?_⟩
      · intro p
        by_cases hpq : p = q
        · subst hpq; simp [bump, hc p]
        · simp [bump, hpq, hc p, List.count_cons, Ne.symm hpq]
      · intro p hm
        have : p ≠ q := by
          intro e; subst e
          have h0 := hp p hm
          rw [hc p] at h0
          exact (List.count_eq_zero.mp h0) hq
        simp [bump, this, hp p hm]
      · intro p hm
        simp only [List.mem_cons] at hm
        rcases hm with hm | hm | hm
        · exact hb p (Or.inl hm)
        · subst hm; exact hb _ (Or.inr hq)
        · exact hb p (Or.inr hm)
    · simp at h
  | unref q =>
    simp only [step] at h
    split at h
    · rename_i hq
      simp only [Option.some.injEq] at h; subst h
      have hqpool : q ∉ s.pool := by
        intro hm
        have h0 := hp q hm
        rw [hc q] at h0
        exact (List.count_eq_zero.mp h0) hq
      have hcq : s.refc q = s.held.count q := hc q
      have hpos : 0 < s.held.count q := List.count_pos_iff.mpr hq
      refine ⟨?_, ?_, ?_, ?_⟩
      · intro p
        by_cases hpq : p = q
        · subst hpq; simp [bump, hcq, List.count_erase_self]
        · simp [bump, hpq, hc p, List.count_erase_of_ne hpq]
      · intro p hm
        by_cases hpq : p = q
        · subst hpq
          simp only [bump, if_true]
          split at hm
          · assumption
          · exact absurd hm hqpool
        · have hm' : p ∈ s.pool := by
            split at hm
            · simp only [List.mem_cons] at hm; rcases hm with hm | hm
              · exact absurd hm hpq
              · exact hm
            · exact hm
          simp [bump, hpq, hp p hm']
      · show (if s.refc q - 1 = 0 then q :: s.pool else s.pool).Nodup
        split
        · exact List.nodup_cons.mpr ⟨hqpool, hn⟩
        · exact hn
      · intro p hm
        rcases hm with hm | hm
        · have : p ∈ q :: s.pool := by
            split at hm
            · exact hm
            · exact List.mem_cons_of_mem _ hm
          simp only [List.mem_cons] at this
          rcases this with e | hm'
          · subst e; exact hb _ (Or.inr hq)
          · exact hb p (Or.inl hm')
        · exact hb p (Or.inr (List.mem_of_mem_erase hm))
    · simp at h
  | poolDrop i =>
    simp only [step] at h
    cases hg : s.pool[i]? with
    | none => simp [hg] at h
    | some q =>
      simp only [hg, Option.some.injEq] at h; subst h
      exact ⟨hc, fun p hm => hp p (List.mem_of_mem_erase hm), hn.erase q,
        fun p hm => hb p (hm.elim (fun h => Or.inl (List.mem_of_mem_erase h)) Or.inr)⟩

theorem inv_run (es : List PEvent) (s0 s : PState) (h0 : Inv s0) (hr : run s0 es = some s) : Inv s := by
  induction es generalizing s0 with
  | nil => simp [run] at hr; subst hr; exact h0
  | cons e es ih =>
    simp only [run] at hr
    cases hs : step s0 e with
    | none => simp [hs] at hr
    | some s1 => simp only [hs] at hr; exact ih s1 (inv_step s0 s1 e h0 hs) hr

/-- the invariant holds after every accepted sequence of page operations -/
theorem pages_inv (es : List PEvent) (s : PState) (h : run init es = some s) : Inv s :=
  inv_run es init s inv_init h

/-- a page with a live count is not in the pool, and no single operation hands it out again -/
theorem pages_safe_step (s s' : PState) (e : PEvent) (hi : Inv s) (p : Nat) (hp : p ∈ s.held)
    (h : step s e = some s') : p ∉ s.pool ∧ s'.ver p = s.ver p := by
  have hnot : p ∉ s.pool := by
    intro hm
    have h0 := hi.poolFree p hm
    rw [hi.counts p] at h0
    exact (List.count_eq_zero.mp h0) hp
  refine ⟨hnot, ?_⟩
  cases e with
  | allocPage => simp only [step, Option.some.injEq] at h; subst h; rfl
  | reusePage i =>
    simp only [step] at h
    cases hg : s.pool[i]? with
    | none => simp [hg] at h
    | some q =>
      simp only [hg, Option.some.injEq] at h; subst h
      have : p ≠ q := fun e => hnot (e ▸ mem_of_getElem? hg)
      simp [bump, this]
  | ref q => simp only [step] at h; split at h <;> simp at h; subst h; rfl
  | unref q => simp only [step] at h; split at h <;> simp at h; subst h; rfl
  | poolDrop i =>
    simp only [step] at h
    cases hg : s.pool[i]? with
    | none => simp [hg] at h
    | some q => simp only [hg, Option.some.injEq] at h; subst h; rfl

theorem pages_safe_aux (es : List PEvent) (s : PState) (hi : Inv s) (p : Nat) (hp : p ∈ s.held) :
    ∀ s', run s es = some s' → (∀ k, k ≤ es.length → ∀ sk, run s (es.take k) = some sk → p ∈ sk.held) →
      s'.ver p = s.ver p := by
  induction es generalizing s with
  | nil => intro s' hr _; simp [run] at hr; subst hr; rfl
  | cons e es ih =>
    intro s' hr hk
    simp only [run] at hr
    cases hs : step s e with
    | none => simp [hs] at hr
    | some s1 =>
      simp only [hs] at hr
      have h1 := (pages_safe_step s s1 e hi p hp hs).2
      have hp1 : p ∈ s1.held := hk 1 (by simp) s1 (by simp [run, hs])
      have := ih s1 (inv_step s s1 e hi hs) hp1 s' hr (fun k hkl sk hrun =>
        hk (k + 1) (by simp; omega) sk (by simp [run, hs, hrun]))
      omega

/-- over any run from the initial state and then any further operations during which a live holder keeps a
count on `p` (`p` stays in `held`), the page is never recycled: its version — hence the bytes a live
`pageRef` reads — is unchanged, whatever else is decoded in between. -/
theorem pages_safe (pre es : List PEvent) (s : PState) (h : run init pre = some s) (p : Nat) (hp : p ∈ s.held) :
    ∀ s', run s es = some s' → (∀ k, k ≤ es.length → ∀ sk, run s (es.take k) = some sk → p ∈ sk.held) →
      s'.ver p = s.ver p :=
  pages_safe_aux es s (pages_inv pre s h) p hp

/-- non-vacuity: a page is allocated, referenced by a key, the buffer releases it, another decode reuses
pool pages — the run is accepted and the key's page is still held -/
example : ∃ s, run init [.allocPage, .ref 0, .unref 0, .allocPage, .unref 1, .reusePage 0] = some s ∧ 0 ∈ s.held ∧ s.ver 0 = 0 := by
  refine ⟨_, rfl, ?_, ?_⟩ <;> decide

end KV.Model.Pages
