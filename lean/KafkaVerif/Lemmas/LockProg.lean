/-
Lemmas/LockProg.lean — soundness of the must-lockset analysis of Model/LockProg.lean.
-/
import KafkaVerif.Model.LockProg

namespace KV.LockProg
open KV.Lockset

/-! ### locksets -/

theorem subB_iff {a b : LS} : subB a b = true ↔ Sub a b := by
  unfold subB Sub
  rw [List.all_eq_true]
  constructor
  · intro h x hx; exact List.contains_iff_mem.1 (h x hx)
  · intro h x hx; exact List.contains_iff_mem.2 (h x hx)

theorem Sub.refl (a : LS) : Sub a a := fun _ h => h
theorem Sub.trans {a b c : LS} (h₁ : Sub a b) (h₂ : Sub b c) : Sub a c := fun x hx => h₂ x (h₁ x hx)
theorem sub_nil (a : LS) : Sub [] a := fun _ h => nomatch h

theorem meet_sub_left (a b : LS) : Sub (meet a b) a := fun _ hx => (List.mem_filter.1 hx).1
theorem meet_sub_right (a b : LS) : Sub (meet a b) b :=
  fun _ hx => List.contains_iff_mem.1 (List.mem_filter.1 hx).2

theorem meet_eq_self {a b : LS} (h : Sub a b) : meet a b = a := by
  unfold meet
  rw [List.filter_eq_self]
  intro x hx; exact List.contains_iff_mem.2 (h x hx)

theorem meetO_left {x y : Option LS} {a : LS} (h : x = some a) : ∃ c, meetO x y = some c ∧ Sub c a := by
  subst h
  cases y with
  | none => exact ⟨a, rfl, Sub.refl a⟩
  | some b => exact ⟨meet a b, rfl, meet_sub_left a b⟩

theorem meetO_right {x y : Option LS} {b : LS} (h : y = some b) : ∃ c, meetO x y = some c ∧ Sub c b := by
  subst h
  cases x with
  | none => exact ⟨b, rfl, Sub.refl b⟩
  | some a => exact ⟨meet a b, rfl, meet_sub_right a b⟩

theorem meetL_sub (a : LS) (o : Option LS) : Sub (meetL a o) a := by
  cases o with
  | none => exact Sub.refl a
  | some b => exact meet_sub_left a b

theorem meetL_sub_some {a b : LS} : Sub (meetL a (some b)) b := meet_sub_right a b

theorem meetL_eq_self {a : LS} {o : Option LS} (h : ∀ b, o = some b → Sub a b) : meetL a o = a := by
  cases o with
  | none => rfl
  | some b => exact meet_eq_self (h b rfl)

theorem sub_cons {L h : LS} (x : Hold) (hs : Sub L h) : Sub (x :: L) (x :: h) := by
  intro y hy
  rcases List.mem_cons.1 hy with rfl | hy
  · exact List.mem_cons_self
  · exact List.mem_cons_of_mem _ (hs y hy)

theorem sub_dropM {L h : LS} (m : Mutex) (hs : Sub L h) : Sub (dropM m L) (dropM m h) := by
  intro y hy
  have := List.mem_filter.1 hy
  exact List.mem_filter.2 ⟨hs y this.1, this.2⟩

/-! ### loop invariants -/

theorem loopOk_iff {inv : LS} {r : Res} :
    loopOk inv r = true ↔ (∀ o, r.out = some o → Sub inv o) := by
  unfold loopOk
  constructor
  · intro h₁ o ho; rw [ho] at h₁; exact subB_iff.1 h₁
  · intro h₁
    cases ho : r.out with
    | none => rfl
    | some o => exact subB_iff.2 (h₁ o ho)

theorem loopOk_nil (r : Res) : loopOk [] r = true :=
  loopOk_iff.2 (fun o _ => sub_nil o)

theorem inv_sub (f : LS → Res) (L : LS) : Sub (invOfWith f L) L := by
  unfold invOfWith
  simp only
  split
  · exact meetL_sub _ _
  · exact sub_nil L

theorem inv_ok (f : LS → Res) (L : LS) : loopOk (invOfWith f L) (f (invOfWith f L)) = true := by
  unfold invOfWith
  simp only
  split
  · assumption
  · exact loopOk_nil _

theorem inv_idem (f : LS → Res) (L : LS) : invOfWith f (invOfWith f L) = invOfWith f L := by
  have hok := inv_ok f L
  generalize invOfWith f L = inv at hok
  have h := loopOk_iff.1 hok
  unfold invOfWith
  simp only
  have e₁ : meetL inv (f inv).out = inv := meetL_eq_self h
  rw [e₁, hok]
  rfl

/-! ### exit lists -/

theorem exitAt_nil (n : Nat) : exitAt [] n = none := by simp [exitAt]

theorem exitAt_meetX (a b : List (Option LS)) (n : Nat) : exitAt (meetX a b) n = meetO (exitAt a n) (exitAt b n) := by
  induction a generalizing b n with
  | nil => simp [meetX, exitAt, meetO]
  | cons x xs ih =>
    cases b with
    | nil =>
      simp only [meetX, exitAt_nil]
      cases exitAt (x :: xs) n <;> rfl
    | cons y ys =>
      cases n with
      | zero => simp [meetX, exitAt]
      | succ n =>
        have := ih ys n
        simpa [meetX, exitAt] using this

theorem exitAt_jump (n : Nat) (L : LS) : exitAt (List.replicate n none ++ [some L]) n = some L := by
  induction n with
  | zero => simp [exitAt]
  | succ n ih => simpa [exitAt, List.replicate_succ] using ih

theorem exitAt_drop1 (l : List (Option LS)) (n : Nat) : exitAt (l.drop 1) n = exitAt l (n + 1) := by
  cases l with
  | nil => simp [exitAt]
  | cons x xs => simp [exitAt]

theorem an_loop_idem (relOf : Nat → List Mutex) (a : Cmd) (L : LS) :
    an relOf (.loop a) (invOfWith (an relOf a) L) = an relOf (.loop a) L := by
  simp only [an]
  rw [inv_idem]

/-! ### what a run keeps -/

def RelOk (env : Nat → Option Cmd) (relOf : Nat → List Mutex) : Prop :=
  ∀ f body, env f = some body → ∀ m, m ∈ relSet relOf body → m ∈ relOf f

theorem dfrs_sub_relSet (relOf : Nat → List Mutex) (c : Cmd) : ∀ m, m ∈ dfrs c → m ∈ relSet relOf c := by
  induction c with
  | dfr m => intro x hx; simpa [dfrs, relSet] using hx
  | seq a b iha ihb =>
    intro x hx
    simp only [dfrs, relSet, List.mem_append] at hx ⊢
    exact hx.imp (iha x) (ihb x)
  | alt a b iha ihb =>
    intro x hx
    simp only [dfrs, relSet, List.mem_append] at hx ⊢
    exact hx.imp (iha x) (ihb x)
  | loop a iha => intro x hx; simp only [dfrs, relSet] at hx ⊢; exact iha x hx
  | block a iha => intro x hx; simp only [dfrs, relSet] at hx ⊢; exact iha x hx
  | _ => intro x hx; simp [dfrs] at hx

theorem run_keeps {env : Nat → Option Cmd} {relOf : Nat → List Mutex} (hrel : RelOk env relOf)
    {c : Cmd} {h h' : LS} {obs : List LEv} {t : Out} (hrun : Run env c h obs h' t) :
    ∀ x, x ∈ h → x.m ∉ relSet relOf c → x ∈ h' := by
  induction hrun with
  | skip => intro x hx _; exact hx
  | acq => intro x hx _; exact List.mem_cons_of_mem _ hx
  | asm => intro x hx _; exact List.mem_cons_of_mem _ hx
  | @rel m h =>
    intro x hx hn
    refine List.mem_filter.2 ⟨hx, ?_⟩
    have : x.m ≠ m := by simpa [relSet] using hn
    simpa using this
  | dfr => intro x hx _; exact hx
  | acc => intro x hx _; exact hx
  | ret => intro x hx _; exact hx
  | jump => intro x hx _; exact hx
  | blockN _ ih => intro x hx hn; exact ih x hx (by simpa [relSet] using hn)
  | blockR _ ih => intro x hx hn; exact ih x hx (by simpa [relSet] using hn)
  | block0 _ ih => intro x hx hn; exact ih x hx (by simpa [relSet] using hn)
  | blockS _ ih => intro x hx hn; exact ih x hx (by simpa [relSet] using hn)
  | seqN _ _ ih₁ ih₂ =>
    intro x hx hn
    simp only [relSet, List.mem_append, not_or] at hn
    exact ih₂ x (ih₁ x hx hn.1) hn.2
  | seqX _ _ ih =>
    intro x hx hn
    simp only [relSet, List.mem_append, not_or] at hn
    exact ih x hx hn.1
  | altL _ ih =>
    intro x hx hn
    simp only [relSet, List.mem_append, not_or] at hn
    exact ih x hx hn.1
  | altR _ ih =>
    intro x hx hn
    simp only [relSet, List.mem_append, not_or] at hn
    exact ih x hx hn.2
  | loop0 => intro x hx _; exact hx
  | @loopS a h o₁ h₁ o₂ h₂ t _ _ ih₁ ih₂ =>
    intro x hx hn
    have hn' : x.m ∉ relSet relOf a := by simpa [relSet] using hn
    exact ih₂ x (ih₁ x hx hn') hn
  | loopX _ _ ih => intro x hx hn; exact ih x hx (by simpa [relSet] using hn)
  | spawn => intro x hx _; exact hx
  | icall _ _ hkeep _ => intro x hx _; exact hkeep x hx
  | @call f body h o h₁ t hb _ ih =>
    intro x hx hn
    have hn' : x.m ∉ relOf f := by simpa [relSet] using hn
    have hnb : x.m ∉ relSet relOf body := fun hm => hn' (hrel f body hb x.m hm)
    have hx₁ := ih x hx hnb
    refine List.mem_filter.2 ⟨hx₁, ?_⟩
    have : x.m ∉ dfrs body := fun hm => hnb (dfrs_sub_relSet relOf body x.m hm)
    simpa using this

/-! ### soundness -/

def CallsOk (entry : Nat → LS) (calls : List (Nat × LS)) : Prop :=
  ∀ f Ls, (f, Ls) ∈ calls → Sub (entry f) Ls

def EntryOk (env : Nat → Option Cmd) (relOf : Nat → List Mutex) (entry : Nat → LS) : Prop :=
  ∀ g body, env g = some body → CallsOk entry (an relOf body (entry g)).calls

/-- `(k, L)` is a row of the analysis of some function body from its entry lockset -/
def InAll (env : Nat → Option Cmd) (relOf : Nat → List Mutex) (entry : Nat → LS) (k : Nat) (L : LS) : Prop :=
  ∃ g body, env g = some body ∧ (k, L) ∈ (an relOf body (entry g)).rows

/-- the access `k` performed with `hk` held is covered by a row whose lockset is held -/
def Just (env : Nat → Option Cmd) (relOf : Nat → List Mutex) (entry : Nat → LS) (rows : List (Nat × LS)) (k : Nat) (hk : LS) : Prop :=
  ∃ L, ((k, L) ∈ rows ∨ InAll env relOf entry k L) ∧ Sub L hk

def OutOk (t : Out) (r : Res) (h' : LS) : Prop :=
  match t with
  | .normal => ∃ L₁, r.out = some L₁ ∧ Sub L₁ h'
  | .returned => True
  | .exit n => ∃ L₁, exitAt r.exits n = some L₁ ∧ Sub L₁ h'

theorem just_mono {env relOf entry} {rows rows' : List (Nat × LS)} (hsub : ∀ x, x ∈ rows → x ∈ rows') {k hk}
    (h : Just env relOf entry rows k hk) : Just env relOf entry rows' k hk := by
  obtain ⟨L, hL, hs⟩ := h
  exact ⟨L, hL.imp (hsub _) id, hs⟩

theorem callsOk_left {entry : Nat → LS} {a b : List (Nat × LS)} (h : CallsOk entry (a ++ b)) : CallsOk entry a :=
  fun f Ls hm => h f Ls (List.mem_append_left _ hm)
theorem callsOk_right {entry : Nat → LS} {a b : List (Nat × LS)} (h : CallsOk entry (a ++ b)) : CallsOk entry b :=
  fun f Ls hm => h f Ls (List.mem_append_right _ hm)

/-- **Soundness of the analysis.**  On every run of `c` that starts with at least the locks `L` held, every access
    is covered by a row of the analysis (of `c`, or of the body of a function called on the way) whose lockset is
    really held at that moment, and the resulting lockset under-approximates the locks held afterwards. -/
theorem an_sound {env : Nat → Option Cmd} {relOf : Nat → List Mutex} {entry : Nat → LS}
    (hrel : RelOk env relOf) (hent : EntryOk env relOf entry)
    {c : Cmd} {h h' : LS} {obs : List LEv} {t : Out} (hrun : Run env c h obs h' t) :
    ∀ L, Sub L h → CallsOk entry (an relOf c L).calls →
      (∀ k hk, LEv.acc k hk ∈ obs → Just env relOf entry (an relOf c L).rows k hk) ∧ OutOk t (an relOf c L) h' := by
  induction hrun with
  | skip => intro L hs _; exact ⟨(fun _ _ hm => absurd hm List.not_mem_nil), ⟨L, by simp [an], hs⟩⟩
  | @acq x h => intro L hs _; exact ⟨(fun _ _ hm => by simp at hm), ⟨x :: L, by simp [an], sub_cons x hs⟩⟩
  | @asm x h => intro L hs _; exact ⟨(fun _ _ hm => by simp at hm), ⟨x :: L, by simp [an], sub_cons x hs⟩⟩
  | @rel m h => intro L hs _; exact ⟨(fun _ _ hm => by simp at hm), ⟨dropM m L, by simp [an], sub_dropM m hs⟩⟩
  | dfr => intro L hs _; exact ⟨(fun _ _ hm => absurd hm List.not_mem_nil), ⟨L, by simp [an], hs⟩⟩
  | @acc k h =>
    intro L hs _
    refine ⟨?_, ⟨L, by simp [an], hs⟩⟩
    intro k' hk' hm
    have : k' = k ∧ hk' = h := by simpa using hm
    obtain ⟨rfl, rfl⟩ := this
    exact ⟨L, Or.inl (by simp [an]), hs⟩
  | ret => intro L _ _; exact ⟨(fun _ _ hm => absurd hm List.not_mem_nil), trivial⟩
  | @jump n h =>
    intro L hs _
    exact ⟨(fun _ _ hm => absurd hm List.not_mem_nil), ⟨L, by simp [an, exitAt_jump], hs⟩⟩
  | @blockN a h o h' _ ih =>
    intro L hs hc
    obtain ⟨hj, L₁, e, s₁⟩ := ih L hs (by simpa [an] using hc)
    refine ⟨fun k hk hm => just_mono (fun x hx => by simpa [an] using hx) (hj k hk hm), ?_⟩
    obtain ⟨c, ec, sc⟩ := meetO_left (y := exitAt (an relOf a L).exits 0) e
    exact ⟨c, by simp [an, ec], Sub.trans sc s₁⟩
  | @blockR a h o h' _ ih =>
    intro L hs hc
    obtain ⟨hj, _⟩ := ih L hs (by simpa [an] using hc)
    exact ⟨fun k hk hm => just_mono (fun x hx => by simpa [an] using hx) (hj k hk hm), trivial⟩
  | @block0 a h o h' _ ih =>
    intro L hs hc
    obtain ⟨hj, L₁, e, s₁⟩ := ih L hs (by simpa [an] using hc)
    refine ⟨fun k hk hm => just_mono (fun x hx => by simpa [an] using hx) (hj k hk hm), ?_⟩
    obtain ⟨c, ec, sc⟩ := meetO_right (x := (an relOf a L).out) e
    exact ⟨c, by simp [an, ec], Sub.trans sc s₁⟩
  | @blockS a h o h' n _ ih =>
    intro L hs hc
    obtain ⟨hj, L₁, e, s₁⟩ := ih L hs (by simpa [an] using hc)
    refine ⟨fun k hk hm => just_mono (fun x hx => by simpa [an] using hx) (hj k hk hm), ?_⟩
    exact ⟨L₁, by simp only [an]; rw [exitAt_drop1]; exact e, s₁⟩
  | @seqN a b h o₁ h₁ o₂ h₂ t _ _ ih₁ ih₂ =>
    intro L hs hc
    cases hra : (an relOf a L).out with
    | none =>
      have hc₁ : CallsOk entry (an relOf a L).calls := by simpa [an, hra] using hc
      obtain ⟨_, L₁, hL₁, _⟩ := ih₁ L hs hc₁
      rw [hra] at hL₁; cases hL₁
    | some L₁ =>
      have hcs : CallsOk entry ((an relOf a L).calls ++ (an relOf b L₁).calls) := by simpa [an, hra] using hc
      obtain ⟨hj₁, L₁', hL₁', hs₁⟩ := ih₁ L hs (callsOk_left hcs)
      rw [hra] at hL₁'; cases hL₁'
      obtain ⟨hj₂, ho₂⟩ := ih₂ L₁ hs₁ (callsOk_right hcs)
      constructor
      · intro k hk hm
        rcases List.mem_append.1 hm with hm | hm
        · exact just_mono (fun x hx => by simp [an, hra, hx]) (hj₁ k hk hm)
        · exact just_mono (fun x hx => by simp [an, hra, hx]) (hj₂ k hk hm)
      · cases t with
        | normal => obtain ⟨L₂, e, s₂⟩ := ho₂; exact ⟨L₂, by simp [an, hra, e], s₂⟩
        | returned => trivial
        | exit n =>
          obtain ⟨L₂, e, s₂⟩ := ho₂
          obtain ⟨c, ec, sc⟩ := meetO_right (x := exitAt (an relOf a L).exits n) e
          exact ⟨c, by simp only [an, hra]; rw [exitAt_meetX]; exact ec, Sub.trans sc s₂⟩
  | @seqX a b h o₁ h₁ t _ hne ih =>
    intro L hs hc
    cases hra : (an relOf a L).out with
    | none =>
      have hc₁ : CallsOk entry (an relOf a L).calls := by simpa [an, hra] using hc
      obtain ⟨hj, ho⟩ := ih L hs hc₁
      refine ⟨fun k hk hm => just_mono (fun x hx => by simp [an, hra, hx]) (hj k hk hm), ?_⟩
      cases t with
      | normal => exact absurd rfl hne
      | returned => trivial
      | exit n => obtain ⟨L₂, e, s₂⟩ := ho; exact ⟨L₂, by simp [an, hra, e], s₂⟩
    | some L₁ =>
      have hcs : CallsOk entry ((an relOf a L).calls ++ (an relOf b L₁).calls) := by simpa [an, hra] using hc
      obtain ⟨hj, ho⟩ := ih L hs (callsOk_left hcs)
      refine ⟨fun k hk hm => just_mono (fun x hx => by simp [an, hra, hx]) (hj k hk hm), ?_⟩
      cases t with
      | normal => exact absurd rfl hne
      | returned => trivial
      | exit n =>
        obtain ⟨L₂, e, s₂⟩ := ho
        obtain ⟨c, ec, sc⟩ := meetO_left (y := exitAt (an relOf b L₁).exits n) e
        exact ⟨c, by simp only [an, hra]; rw [exitAt_meetX]; exact ec, Sub.trans sc s₂⟩
  | @altL a b h o h' t _ ih =>
    intro L hs hc
    have hcs : CallsOk entry ((an relOf a L).calls ++ (an relOf b L).calls) := by simpa [an] using hc
    obtain ⟨hj, ho⟩ := ih L hs (callsOk_left hcs)
    refine ⟨fun k hk hm => just_mono (fun x hx => by simp [an, hx]) (hj k hk hm), ?_⟩
    cases t with
    | normal =>
      obtain ⟨L₂, e, s₂⟩ := ho
      obtain ⟨c, ec, sc⟩ := meetO_left (y := (an relOf b L).out) e
      exact ⟨c, by simp [an, ec], Sub.trans sc s₂⟩
    | returned => trivial
    | exit n =>
      obtain ⟨L₂, e, s₂⟩ := ho
      obtain ⟨c, ec, sc⟩ := meetO_left (y := exitAt (an relOf b L).exits n) e
      exact ⟨c, by simp only [an]; rw [exitAt_meetX]; exact ec, Sub.trans sc s₂⟩
  | @altR a b h o h' t _ ih =>
    intro L hs hc
    have hcs : CallsOk entry ((an relOf a L).calls ++ (an relOf b L).calls) := by simpa [an] using hc
    obtain ⟨hj, ho⟩ := ih L hs (callsOk_right hcs)
    refine ⟨fun k hk hm => just_mono (fun x hx => by simp [an, hx]) (hj k hk hm), ?_⟩
    cases t with
    | normal =>
      obtain ⟨L₂, e, s₂⟩ := ho
      obtain ⟨c, ec, sc⟩ := meetO_right (x := (an relOf a L).out) e
      exact ⟨c, by simp [an, ec], Sub.trans sc s₂⟩
    | returned => trivial
    | exit n =>
      obtain ⟨L₂, e, s₂⟩ := ho
      obtain ⟨c, ec, sc⟩ := meetO_right (x := exitAt (an relOf a L).exits n) e
      exact ⟨c, by simp only [an]; rw [exitAt_meetX]; exact ec, Sub.trans sc s₂⟩
  | @loop0 a h =>
    intro L hs _
    exact ⟨(fun _ _ hm => absurd hm List.not_mem_nil), ⟨invOfWith (an relOf a) L, by simp [an], Sub.trans (inv_sub _ _) hs⟩⟩
  | @loopS a h o₁ h₁ o₂ h₂ t _ _ ih₁ ih₂ =>
    intro L hs hc
    -- the body runs from the invariant, the rest of the loop again from the invariant
    have hinv := inv_sub (an relOf a) L
    have hok := loopOk_iff.1 (inv_ok (an relOf a) L)
    have hcb : CallsOk entry (an relOf a (invOfWith (an relOf a) L)).calls := by simpa [an] using hc
    obtain ⟨hj₁, L₁, e, s₁⟩ := ih₁ (invOfWith (an relOf a) L) (Sub.trans hinv hs) hcb
    have hs₁ : Sub (invOfWith (an relOf a) L) h₁ := Sub.trans (hok L₁ e) s₁
    have hc₂ : CallsOk entry (an relOf (.loop a) (invOfWith (an relOf a) L)).calls := by
      rw [an_loop_idem]; exact hc
    obtain ⟨hj₂, ho₂⟩ := ih₂ (invOfWith (an relOf a) L) hs₁ hc₂
    rw [an_loop_idem] at hj₂ ho₂
    constructor
    · intro k hk hm
      rcases List.mem_append.1 hm with hm | hm
      · exact just_mono (fun x hx => by simpa [an] using hx) (hj₁ k hk hm)
      · exact hj₂ k hk hm
    · exact ho₂
  | @loopX a h o₁ h₁ t _ hne ih =>
    intro L hs hc
    have hinv := inv_sub (an relOf a) L
    have hcb : CallsOk entry (an relOf a (invOfWith (an relOf a) L)).calls := by simpa [an] using hc
    obtain ⟨hj, ho⟩ := ih (invOfWith (an relOf a) L) (Sub.trans hinv hs) hcb
    refine ⟨fun k hk hm => just_mono (fun x hx => by simpa [an] using hx) (hj k hk hm), ?_⟩
    cases t with
    | normal => exact absurd rfl hne
    | returned => trivial
    | exit n => obtain ⟨L₂, e, s₂⟩ := ho; exact ⟨L₂, by simpa [an] using e, s₂⟩
  | @spawn a h =>
    intro L hs _
    exact ⟨(fun _ _ hm => absurd hm List.not_mem_nil), ⟨L, by simp [an], hs⟩⟩
  | @icall f body h o h₁ t hb hr hkeep ih =>
    intro L hs hc
    have hef : Sub (entry f) L := hc f L (by simp [an])
    obtain ⟨hj, _⟩ := ih (entry f) (Sub.trans hef hs) (hent f body hb)
    constructor
    · intro k hk hm
      have hm' : LEv.acc k hk ∈ o := by
        rcases List.mem_append.1 hm with hm | hm
        · exact hm
        · simp at hm
      obtain ⟨L', hL', hs'⟩ := hj k hk hm'
      refine ⟨L', Or.inr ?_, hs'⟩
      rcases hL' with hrow | hall
      · exact ⟨f, body, hb, hrow⟩
      · exact hall
    · exact ⟨L, by simp [an], fun x hx => hkeep x (hs x hx)⟩
  | @call f body h o h₁ t hb hr ih =>
    intro L hs hc
    have hef : Sub (entry f) L := hc f L (by simp [an])
    obtain ⟨hj, _⟩ := ih (entry f) (Sub.trans hef hs) (hent f body hb)
    constructor
    · intro k hk hm
      have hm' : LEv.acc k hk ∈ o := by
        rcases List.mem_append.1 hm with hm | hm
        · exact hm
        · simp at hm
      obtain ⟨L', hL', hs'⟩ := hj k hk hm'
      refine ⟨L', Or.inr ?_, hs'⟩
      rcases hL' with hrow | hall
      · exact ⟨f, body, hb, hrow⟩
      · exact hall
    · refine ⟨dropAll (relOf f) L, by simp [an], ?_⟩
      intro x hx
      have hxm := List.mem_filter.1 hx
      have hnot : x.m ∉ relOf f := by simpa using hxm.2
      have hnb : x.m ∉ relSet relOf body := fun hm => hnot (hrel f body hb x.m hm)
      have hx₁ := run_keeps hrel hr x (hs x hxm.1) hnb
      refine List.mem_filter.2 ⟨hx₁, ?_⟩
      have : x.m ∉ dfrs body := fun hm => hnb (dfrs_sub_relSet relOf body x.m hm)
      simpa using this

/-! ### the evaluated conditions imply the hypotheses -/

theorem envOf_mem {fs : List (Nat × Cmd)} {f : Nat} {body : Cmd} (h : envOf fs f = some body) : (f, body) ∈ fs := by
  unfold envOf at h
  cases hf : fs.find? (fun p => p.1 == f) with
  | none => rw [hf] at h; cases h
  | some p =>
    rw [hf] at h
    have hp := List.find?_some hf
    have hm := List.mem_of_find?_eq_some hf
    have e1 : p.1 = f := by simpa using hp
    have e2 : p.2 = body := by simpa using h
    cases p
    simp only at e1 e2
    subst e1; subst e2
    exact hm

theorem relOk_of_B {fs : List (Nat × Cmd)} {rel : Trie (List Mutex)} (h : relOkB fs rel = true) : RelOk (envOf fs) (getL rel) := by
  intro f body hb m hm
  unfold relOkB at h
  rw [List.all_eq_true] at h
  have := h (f, body) (envOf_mem hb)
  simp only [List.all_eq_true] at this
  exact List.contains_iff_mem.1 (this m hm)

theorem entryOk_of_B {fs : List (Nat × Cmd)} {rel : Trie (List Mutex)} {entry : Trie LS}
    (h : entryOkB fs rel entry = true) : EntryOk (envOf fs) (getL rel) (getLS entry) := by
  intro g body hb f Ls hm
  unfold entryOkB at h
  rw [List.all_eq_true] at h
  have := h (g, body) (envOf_mem hb)
  simp only [List.all_eq_true] at this
  exact subB_iff.1 (this (f, Ls) hm)

theorem inAll_allRows {fs : List (Nat × Cmd)} {rel : Trie (List Mutex)} {entry : Trie LS} {k : Nat} {L : LS}
    (h : InAll (envOf fs) (getL rel) (getLS entry) k L) : (k, L) ∈ allRows fs rel entry := by
  obtain ⟨g, body, hb, hm⟩ := h
  unfold allRows
  rw [List.mem_flatMap]
  exact ⟨(g, body), envOf_mem hb, hm⟩

/-- **Whole-program soundness**: if the evaluated conditions hold, then on every run of every function body that
    starts with at least its entry lockset held, each access (in the body, in callees, in spawned closures) is
    covered by a row of `allRows` whose lockset is held at that moment. -/
theorem prog_sound {fs : List (Nat × Cmd)} {rel : Trie (List Mutex)} {entry : Trie LS}
    (hrel : relOkB fs rel = true) (hent : entryOkB fs rel entry = true)
    {g : Nat} {body : Cmd} (hb : envOf fs g = some body) {h h' : LS} {obs : List LEv} {t : Out}
    (hs : Sub (getLS entry g) h) (hrun : Run (envOf fs) body h obs h' t) :
    ∀ k hk, LEv.acc k hk ∈ obs → ∃ L, (k, L) ∈ allRows fs rel entry ∧ Sub L hk := by
  intro k hk hm
  have hE := entryOk_of_B hent
  obtain ⟨hj, _⟩ := an_sound (relOk_of_B hrel) hE hrun (getLS entry g) hs (hE g body hb)
  obtain ⟨L, hL, hsub⟩ := hj k hk hm
  refine ⟨L, ?_, hsub⟩
  rcases hL with hrow | hall
  · exact inAll_allRows ⟨g, body, hb, hrow⟩
  · exact inAll_allRows hall

/-- a justified table row: whenever the analysis' row for its site is held, its real locks are held -/
theorem justified_held {rows : List (Nat × LS)} {tokens : List Mutex} {a : Access}
    (hj : justifiedB rows tokens a = true) {L hk : LS} (hrow : (a.site, L) ∈ rows) (hs : Sub L hk) :
    Sub (realLocks tokens a) hk := by
  unfold justifiedB at hj
  rw [Bool.or_eq_true] at hj
  rcases hj with he | hrest
  · intro x hx
    have : realLocks tokens a = [] := by simpa using he
    rw [this] at hx; cases hx
  · rw [Bool.and_eq_true] at hrest
    have hall := hrest.2
    rw [List.all_eq_true] at hall
    have := hall (a.site, L) hrow
    have hsb : subB (realLocks tokens a) L = true := by simpa using this
    exact Sub.trans (subB_iff.1 hsb) hs

theorem checkAll_entry {fs : List (Nat × Cmd)} {rel : Trie (List Mutex)} {entry t : Trie LS}
    (h : checkAllB fs rel entry t = true) : entryOkB fs rel entry = true := by
  unfold checkAllB at h
  unfold entryOkB
  rw [List.all_eq_true] at h ⊢
  intro p hp
  have := h p hp
  simp only [Bool.and_eq_true] at this
  exact this.1

theorem checkAll_rows {fs : List (Nat × Cmd)} {rel : Trie (List Mutex)} {entry t : Trie LS}
    (h : checkAllB fs rel entry t = true) : rowsIndexedB (allRows fs rel entry) t = true := by
  unfold checkAllB at h
  unfold rowsIndexedB allRows
  rw [List.all_eq_true] at h ⊢
  intro r hr
  obtain ⟨p, hp, hrp⟩ := List.mem_flatMap.1 hr
  have := h p hp
  simp only [Bool.and_eq_true, List.all_eq_true] at this
  exact this.2 r hrp

theorem find_of_indexed : ∀ (fs : List (Nat × Cmd)) (k f : Nat),
    (fs.zipIdx k).all (fun q => q.1.1 == q.2) = true → k ≤ f → f < k + fs.length →
    ∃ body, (fs.find? fun p => p.1 == f) = some (f, body) := by
  intro fs
  induction fs with
  | nil => intro k f _ h1 h2; simp at h2; omega
  | cons p ps ih =>
    intro k f hall h1 h2
    simp only [List.zipIdx_cons, List.all_cons, Bool.and_eq_true, beq_iff_eq] at hall
    by_cases hf : f = k
    · subst hf
      refine ⟨p.2, ?_⟩
      have : (p.1 == f) = true := by simpa using hall.1
      simp [List.find?_cons, this, ← hall.1]
    · have hne : (p.1 == f) = false := by
        have : p.1 = k := hall.1
        simp [this]; omega
      obtain ⟨body, hb⟩ := ih (k + 1) f hall.2 (by omega) (by simp at h2; omega)
      exact ⟨body, by simp [List.find?_cons, hne, hb]⟩

/-- with `indexedB`, every number below the length has a body -/
theorem envOf_some_of_indexed {fs : List (Nat × Cmd)} (hidx : indexedB fs = true) {f : Nat} (hf : f < fs.length) :
    ∃ body, envOf fs f = some body := by
  obtain ⟨body, hb⟩ := find_of_indexed fs 0 f (by simpa [indexedB] using hidx) (Nat.zero_le _) (by omega)
  exact ⟨body, by simp [envOf, hb]⟩

/-- no dangling call: every call target of every body has a body -/
theorem targets_resolve {fs : List (Nat × Cmd)} (hidx : indexedB fs = true) (hok : targetsOkB fs = true)
    {g : Nat} {body : Cmd} (hb : envOf fs g = some body) {f : Nat} (hf : f ∈ targets body) :
    ∃ b, envOf fs f = some b := by
  unfold targetsOkB at hok
  rw [List.all_eq_true] at hok
  have := hok (g, body) (envOf_mem hb)
  simp only [List.all_eq_true, decide_eq_true_eq] at this
  exact envOf_some_of_indexed hidx (this f hf)

/-- justification through the indexed rows -/
theorem justT_held {rows : List (Nat × LS)} {t : Trie LS} {tokens : List Mutex} {a : Access}
    (hidx : rowsIndexedB rows t = true) (hj : justT t tokens a = true) {L hk : LS}
    (hrow : (a.site, L) ∈ rows) (hs : Sub L hk) : Sub (realLocks tokens a) hk := by
  unfold justT at hj
  rw [Bool.or_eq_true] at hj
  rcases hj with he | hrest
  · intro x hx
    have : realLocks tokens a = [] := by simpa using he
    rw [this] at hx; cases hx
  · unfold rowsIndexedB at hidx
    rw [List.all_eq_true] at hidx
    have hget : t.get a.site = some L := by simpa using hidx (a.site, L) hrow
    rw [hget] at hrest
    exact Sub.trans (subB_iff.1 hrest) hs

end KV.LockProg
