/-
Lemmas/WriterPlace.lean — where messages are: the placement invariant of the Writer LTS
(for C01 `ack_exact`, `no_foreign_partition`, C08 `reject_before_send`).

  placed  : an index of a call that was appended (`place i = some b`) sits in batch b, whose topic-partition is
            the one the balancer assigned to that index;
  batchTP : every message of every batch was assigned to the batch's topic-partition by its call;
  logTP   : every log entry of a topic-partition belongs to a message assigned to that topic-partition.
-/
import KafkaVerif.Lemmas.WriterAck

namespace KV.Writer

structure InvPlace (s : State) : Prop where
  placed : ∀ c C, s.calls c = some C → ∀ i b, C.place i = some b →
    ∃ B, s.batches b = some B ∧ (∃ m ∈ B.msgs, m.msg = (c, i)) ∧ C.assign[i]? = some B.tp
  batchTP : ∀ b B, s.batches b = some B → ∀ m ∈ B.msgs,
    ∃ C, s.calls m.msg.1 = some C ∧ C.assign[m.msg.2]? = some B.tp ∧ C.place m.msg.2 = some b
  logTP : ∀ tp, ∀ e ∈ s.log tp, ∃ C, s.calls e.msg.1 = some C ∧ C.assign[e.msg.2]? = some tp

theorem invPlace_init : InvPlace State.init := by
  constructor <;> simp [State.init]

theorem InvPlace.of_frame {s s' : State} (h : InvPlace s)
    (hcalls : ∀ c C, s.calls c = some C → ∃ C', s'.calls c = some C' ∧ C'.place = C.place ∧ ∀ (j : Nat) (tp : TP), C.assign[j]? = some tp → C'.assign[j]? = some tp)
    (hcalls' : ∀ c C', s'.calls c = some C' → (∀ i, C'.place i = none) ∨ ∃ C, s.calls c = some C ∧ C'.place = C.place)
    (hbat : ∀ b B', s'.batches b = some B' → B'.msgs = [] ∨ ∃ B, s.batches b = some B ∧ B'.msgs = B.msgs ∧ B'.tp = B.tp)
    (hbat' : ∀ b B, s.batches b = some B → ∃ B', s'.batches b = some B' ∧ B'.msgs = B.msgs ∧ B'.tp = B.tp)
    (hlog : ∀ tp e, e ∈ s'.log tp → e ∈ s.log tp ∨ ∃ b B, s.batches b = some B ∧ B.tp = tp ∧ ∃ m ∈ B.msgs, e.msg = m.msg) :
    InvPlace s' := by
  have hbt : ∀ b B, s.batches b = some B → ∀ m ∈ B.msgs,
      ∃ C', s'.calls m.msg.1 = some C' ∧ C'.assign[m.msg.2]? = some B.tp ∧ C'.place m.msg.2 = some b := by
    intro b B hB m hm
    obtain ⟨C, hC, ha, hp⟩ := h.batchTP b B hB m hm
    obtain ⟨C', hC', hpl, hmono⟩ := hcalls _ _ hC
    exact ⟨C', hC', hmono _ _ ha, by rw [hpl]; exact hp⟩
  constructor
  · intro c C' hC' i b hp
    rcases hcalls' c C' hC' with hnone | ⟨C, hC, hpl⟩
    · rw [hnone i] at hp; cases hp
    · rw [hpl] at hp
      obtain ⟨B, hB, hm, ha⟩ := h.placed c C hC i b hp
      obtain ⟨B', hB', e1, e2⟩ := hbat' b B hB
      obtain ⟨C'', hC'', -, hmono⟩ := hcalls c C hC
      rw [hC'] at hC''; cases hC''
      exact ⟨B', hB', e1 ▸ hm, e2 ▸ hmono _ _ ha⟩
  · intro b B' hB' m hm
    rcases hbat b B' hB' with he | ⟨B, hB, e1, e2⟩
    · rw [he] at hm; cases hm
    · rw [e2]; exact hbt b B hB m (e1 ▸ hm)
  · intro tp e he
    rcases hlog tp e he with he | ⟨b, B, hB, htp, m, hm, hem⟩
    · obtain ⟨C, hC, ha⟩ := h.logTP tp e he
      obtain ⟨C', hC', -, hmono⟩ := hcalls _ _ hC
      exact ⟨C', hC', hmono _ _ ha⟩
    · rw [hem, ← htp]
      obtain ⟨C', hC', ha, -⟩ := hbt b B hB m hm
      exact ⟨C', hC', ha⟩

theorem pframe_calls_id {s : State} :
    (∀ c C, s.calls c = some C → ∃ C', s.calls c = some C' ∧ C'.place = C.place ∧ ∀ (j : Nat) (tp : TP), C.assign[j]? = some tp → C'.assign[j]? = some tp) ∧
    (∀ c C', s.calls c = some C' → (∀ i, C'.place i = none) ∨ ∃ C, s.calls c = some C ∧ C'.place = C.place) :=
  ⟨fun _ C h => ⟨C, h, rfl, fun _ _ h => h⟩, fun _ C' h => Or.inr ⟨C', h, rfl⟩⟩

theorem pframe_calls_upd {s : State} {cl' : Nat → Option Call} {c : Nat} {C C' : Call} (hC : s.calls c = some C)
    (e : cl' = upd s.calls c (some C')) (hpl : C'.place = C.place)
    (hmono : ∀ (j : Nat) (tp : TP), C.assign[j]? = some tp → C'.assign[j]? = some tp) :
    (∀ x X, s.calls x = some X → ∃ X', cl' x = some X' ∧ X'.place = X.place ∧ ∀ (j : Nat) (tp : TP), X.assign[j]? = some tp → X'.assign[j]? = some tp) ∧
    (∀ x X', cl' x = some X' → (∀ i, X'.place i = none) ∨ ∃ X, s.calls x = some X ∧ X'.place = X.place) := by
  constructor
  · intro x X hx
    by_cases hxc : x = c
    · subst hxc; rw [hC] at hx; cases hx
      exact ⟨C', by rw [e]; simp, hpl, hmono⟩
    · exact ⟨X, by rw [e, upd_other _ _ _ _ hxc]; exact hx, rfl, fun _ _ h => h⟩
  · intro x X' hx
    rw [e] at hx
    rcases upd_some_elim hx with ⟨rfl, rfl⟩ | ⟨-, h⟩
    · exact Or.inr ⟨C, hC, hpl⟩
    · exact Or.inr ⟨X', h, rfl⟩

theorem pframe_bat_id {s : State} :
    (∀ b B', s.batches b = some B' → B'.msgs = [] ∨ ∃ B, s.batches b = some B ∧ B'.msgs = B.msgs ∧ B'.tp = B.tp) ∧
    (∀ b B, s.batches b = some B → ∃ B', s.batches b = some B' ∧ B'.msgs = B.msgs ∧ B'.tp = B.tp) :=
  ⟨fun _ B' h => Or.inr ⟨B', h, rfl, rfl⟩, fun _ B h => ⟨B, h, rfl, rfl⟩⟩

theorem pframe_bat_upd {s : State} {bt' : Nat → Option Batch} {b : Nat} {B B' : Batch} (hB : s.batches b = some B)
    (e : bt' = upd s.batches b (some B')) (hm : B'.msgs = B.msgs) (ht : B'.tp = B.tp) :
    (∀ x X', bt' x = some X' → X'.msgs = [] ∨ ∃ X, s.batches x = some X ∧ X'.msgs = X.msgs ∧ X'.tp = X.tp) ∧
    (∀ x X, s.batches x = some X → ∃ X', bt' x = some X' ∧ X'.msgs = X.msgs ∧ X'.tp = X.tp) := by
  constructor
  · intro x X' hx
    rw [e] at hx
    rcases upd_some_elim hx with ⟨rfl, rfl⟩ | ⟨-, h⟩
    · exact Or.inr ⟨B, hB, hm, ht⟩
    · exact Or.inr ⟨X', h, rfl, rfl⟩
  · intro x X hx
    by_cases hxb : x = b
    · subst hxb; rw [hB] at hx; cases hx
      exact ⟨B', by rw [e]; simp, hm, ht⟩
    · exact ⟨X, by rw [e, upd_other _ _ _ _ hxb]; exact hx, rfl, rfl⟩

theorem getElem?_append_some {α : Type} {l : List α} {x y : α} {j : Nat} (h : l[j]? = some y) : (l ++ [x])[j]? = some y := by
  have hj : j < l.length := by
    cases Nat.lt_or_ge j l.length with
    | inl h' => exact h'
    | inr h' => rw [List.getElem?_eq_none h'] at h; cases h
  rw [List.getElem?_append_left hj]; exact h

theorem invPlace_add {s s' : State} (hI : InvPlace s) {b c i size : Nat} {P : PW} {B : Batch} {C : Call}
    (hB : s.batches b = some B) (hC : s.calls c = some C)
    (hBtp : B.tp = P.tp) (hassign : C.assign[i]? = some P.tp) (hplace : C.place i = none)
    (ebat : s'.batches = upd s.batches b (some (B.push { msg := (c, i), size := size, seq := s.seq })))
    (ecalls : s'.calls = upd s.calls c (some { C with place := upd C.place i (some b) }))
    (elog : s'.log = s.log) : InvPlace s' := by
  -- lookups after the step
  have hcl : ∀ x X, s.calls x = some X → ∃ X', s'.calls x = some X' ∧ X'.assign = X.assign := by
    intro x X hx
    by_cases hxc : x = c
    · subst hxc; rw [hC] at hx; cases hx
      exact ⟨{ C with place := upd C.place i (some b) }, by rw [ecalls]; simp, rfl⟩
    · exact ⟨X, by rw [ecalls, upd_other _ _ _ _ hxc]; exact hx, rfl⟩
  have hbt : ∀ y Y, s.batches y = some Y → ∃ Y', s'.batches y = some Y' ∧ Y'.tp = Y.tp ∧ ∀ m ∈ Y.msgs, m ∈ Y'.msgs := by
    intro y Y hy
    by_cases hyb : y = b
    · subst hyb; rw [hB] at hy; cases hy
      exact ⟨B.push { msg := (c, i), size := size, seq := s.seq }, by rw [ebat]; simp, rfl, fun m hm => by simp [Batch.push, hm]⟩
    · exact ⟨Y, by rw [ebat, upd_other _ _ _ _ hyb]; exact hy, rfl, fun _ h => h⟩
  constructor
  · intro x X' hx j y hp
    rw [ecalls] at hx
    rcases upd_some_elim hx with ⟨rfl, rfl⟩ | ⟨hne, hx⟩
    · by_cases hji : j = i
      · subst hji
        simp at hp; subst hp
        refine ⟨B.push { msg := (x, j), size := size, seq := s.seq }, by rw [ebat]; simp,
          ⟨{ msg := (x, j), size := size, seq := s.seq }, by simp [Batch.push], rfl⟩, ?_⟩
        show C.assign[j]? = some B.tp
        rw [hBtp]; exact hassign
      · have hp' : C.place j = some y := by
          have : upd C.place i (some b) j = C.place j := upd_other _ _ _ _ hji
          rw [← this]; exact hp
        obtain ⟨Y, hY, ⟨m, hm, hmm⟩, ha⟩ := hI.placed x C hC j y hp'
        obtain ⟨Y', hY', htp, hsub⟩ := hbt y Y hY
        exact ⟨Y', hY', ⟨m, hsub m hm, hmm⟩, htp ▸ ha⟩
    · obtain ⟨Y, hY, ⟨m, hm, hmm⟩, ha⟩ := hI.placed x X' hx j y hp
      obtain ⟨Y', hY', htp, hsub⟩ := hbt y Y hY
      exact ⟨Y', hY', ⟨m, hsub m hm, hmm⟩, htp ▸ ha⟩
  · intro y Y' hy m hm
    -- the call record of an old message after the step: same assignment, and its place is unchanged
    have hcl2 : ∀ (m' : BMsg) (X : Call) (y0 : Nat), s.calls m'.msg.1 = some X → X.place m'.msg.2 = some y0 →
        ∃ X', s'.calls m'.msg.1 = some X' ∧ X'.assign = X.assign ∧ X'.place m'.msg.2 = some y0 := by
      intro m' X y0 hX hp
      by_cases hxc : m'.msg.1 = c
      · rw [hxc, hC] at hX; cases hX
        refine ⟨{ C with place := upd C.place i (some b) }, by rw [hxc, ecalls]; simp, rfl, ?_⟩
        by_cases hji : m'.msg.2 = i
        · rw [hji, hplace] at hp; cases hp
        · show upd C.place i (some b) m'.msg.2 = some y0
          rw [upd_other _ _ _ _ hji]; exact hp
      · exact ⟨X, by rw [ecalls, upd_other _ _ _ _ hxc]; exact hX, rfl, hp⟩
    rw [ebat] at hy
    rcases upd_some_elim hy with ⟨rfl, rfl⟩ | ⟨hne, hy⟩
    · simp only [Batch.push] at hm
      rcases List.mem_append.mp hm with hm | hm
      · obtain ⟨X, hX, ha, hp⟩ := hI.batchTP y B hB m hm
        obtain ⟨X', hX', e, hp'⟩ := hcl2 m X y hX hp
        exact ⟨X', hX', by rw [e]; exact ha, hp'⟩
      · simp at hm; subst hm
        refine ⟨{ C with place := upd C.place i (some y) }, by rw [ecalls]; simp, ?_, ?_⟩
        · show C.assign[i]? = some B.tp
          rw [hBtp]; exact hassign
        · show upd C.place i (some y) i = some y
          simp
    · obtain ⟨X, hX, ha, hp⟩ := hI.batchTP y Y' hy m hm
      obtain ⟨X', hX', e, hp'⟩ := hcl2 m X y hX hp
      exact ⟨X', hX', by rw [e]; exact ha, hp'⟩
  · intro tp e he
    rw [elog] at he
    obtain ⟨X, hX, ha⟩ := hI.logTP tp e he
    obtain ⟨X', hX', e'⟩ := hcl _ _ hX
    exact ⟨X', hX', by rw [e']; exact ha⟩

theorem InvPlace.of_calls_upd {s s' : State} (h : InvPlace s) {c : Nat} {C C' : Call} (hC : s.calls c = some C)
    (ec : s'.calls = upd s.calls c (some C')) (eb : s'.batches = s.batches) (el : s'.log = s.log)
    (hpl : C'.place = C.place) (hmono : ∀ (j : Nat) (tp : TP), C.assign[j]? = some tp → C'.assign[j]? = some tp) :
    InvPlace s' := by
  have hf := pframe_calls_upd hC ec hpl hmono
  refine h.of_frame hf.1 hf.2 ?_ ?_ ?_
  · rw [eb]; exact pframe_bat_id.1
  · rw [eb]; exact pframe_bat_id.2
  · rw [el]; exact fun _ _ h => Or.inl h

theorem invPlace_step (cfg : Cfg) (s : State) (e : Event) (s' : State) (hI : InvPlace s)
    (hs : step cfg s e = some s') : InvPlace s' := by
  have hlogid : ∀ (tp : TP) (e : LogEntry), e ∈ s.log tp → e ∈ s.log tp ∨ ∃ b B, s.batches b = some B ∧ B.tp = tp ∧ ∃ m ∈ B.msgs, e.msg = m.msg :=
    fun _ _ h => Or.inl h
  cases e with
  | add pw b c i size =>
    simp only [step, stepAdd] at hs
    repeat' split at hs
    all_goals (first | (cases hs; done) | skip)
    rename_i _ P hP _ B hB _ C hC hg
    obtain ⟨-, -, -, -, hBtp, -, -, -, -, hassign, hplace, -⟩ := hg
    cases hs
    exact invPlace_add hI hB hC hBtp hassign hplace rfl rfl rfl
  | begin_ c msgs =>
    simp only [step] at hs
    repeat' split at hs
    all_goals (first | (cases hs; done) | skip)
    rename_i hg
    have hnone : s.calls c = none := by simpa using hg.2.1
    cases hs
    refine hI.of_frame ?_ ?_ pframe_bat_id.1 pframe_bat_id.2 hlogid
    · intro x X hx
      have hne : x ≠ c := by intro e; rw [e, hnone] at hx; cases hx
      exact ⟨X, by show upd s.calls c _ x = _; rw [upd_other _ _ _ _ hne]; exact hx, rfl, fun _ _ h => h⟩
    · intro x X' hx
      rcases upd_some_elim hx with ⟨rfl, rfl⟩ | ⟨-, h⟩
      · exact Or.inl (fun _ => rfl)
      · exact Or.inr ⟨X', h, rfl⟩
  | assign c i tp =>
    simp only [step] at hs
    repeat' split at hs
    all_goals (first | (cases hs; done) | skip)
    rename_i _ C hC hg
    cases hs
    have hf := pframe_calls_upd (C' := { C with phase := .assigning, assign := C.assign ++ [tp] }) hC rfl rfl
      (fun _ _ h => getElem?_append_some h)
    exact hI.of_frame hf.1 hf.2 pframe_bat_id.1 pframe_bat_id.2 hlogid
  | newBatch pw b =>
    simp only [step] at hs
    repeat' split at hs
    all_goals (first | (cases hs; done) | skip)
    rename_i _ P hP hg
    have hnone : s.batches b = none := by simpa using hg.2.2.2.1
    cases hs
    refine hI.of_frame pframe_calls_id.1 pframe_calls_id.2 ?_ ?_ hlogid
    · intro x X' hx
      rcases upd_some_elim hx with ⟨rfl, rfl⟩ | ⟨-, h⟩
      · exact Or.inl rfl
      · exact Or.inr ⟨X', h, rfl, rfl⟩
    · intro x X hx
      have hne : x ≠ b := by intro e; rw [e, hnone] at hx; cases hx
      exact ⟨X, by show upd s.batches b _ x = _; rw [upd_other _ _ _ _ hne]; exact hx, rfl, rfl⟩
  | detach pw b why size =>
    simp only [step, stepDetach] at hs
    repeat' split at hs
    all_goals (first | (cases hs; done) | skip)
    rename_i _ P hP _ B hB hg
    cases hs
    have hf := pframe_bat_upd (B' := { B with detached := some why }) hB rfl rfl rfl
    exact hI.of_frame pframe_calls_id.1 pframe_calls_id.2 hf.1 hf.2 hlogid
  | timerFire pw b att =>
    simp only [step] at hs
    repeat' split at hs
    all_goals (first | (cases hs; done) | skip)
    rename_i _ P hP _ B hB hg
    cases hs
    have hf := pframe_bat_upd (B' := { B with timerFired := true }) hB rfl rfl rfl
    exact hI.of_frame pframe_calls_id.1 pframe_calls_id.2 hf.1 hf.2 hlogid
  | completion pw b code =>
    simp only [step] at hs
    repeat' split at hs
    all_goals (first | (cases hs; done) | skip)
    rename_i _ P hP _ B hB hg
    cases hs
    have hf := pframe_bat_upd (B' := { B with ncompl := B.ncompl + 1, cbCode := some code }) hB rfl rfl rfl
    exact hI.of_frame pframe_calls_id.1 pframe_calls_id.2 hf.1 hf.2 hlogid
  | complete pw b code =>
    simp only [step] at hs
    repeat' split at hs
    all_goals (first | (cases hs; done) | skip)
    rename_i _ P hP _ B hB hg
    cases hs
    have hf := pframe_bat_upd (B' := { B with done := some code }) hB rfl rfl rfl
    exact hI.of_frame pframe_calls_id.1 pframe_calls_id.2 hf.1 hf.2 hlogid
  | produce pw tp msgs out =>
    simp only [step, stepProduce] at hs
    repeat' split at hs
    all_goals (first | (cases hs; done) | skip)
    rename_i _ P hP _ b k hsend _ B hB hg
    obtain ⟨-, hBtp, -, -⟩ := hg
    cases hs
    have hf := pframe_bat_upd (B' := B.noteProduce out) hB rfl rfl rfl
    refine hI.of_frame pframe_calls_id.1 pframe_calls_id.2 hf.1 hf.2 ?_
    intro t e he
    rw [produced_log] at he
    split at he
    · by_cases ht : t = tp
      · subst ht
        simp at he
        rcases he with he | he
        · exact Or.inl he
        · right
          obtain ⟨m, hm, rfl⟩ := List.mem_map.mp he
          exact ⟨b, B, hB, hBtp, m, hm, rfl⟩
      · rw [upd_other _ _ _ _ ht] at he; exact Or.inl he
    · exact Or.inl he
  | reject c why i =>
    cases why <;> simp only [step, stepReject] at hs <;> repeat' split at hs
    all_goals (first | (cases hs; done) | skip)
    all_goals (rename_i _ C hC hg; cases hs)
    all_goals exact hI.of_calls_upd hC rfl rfl rfl rfl (fun _ _ h => h)
  | batch c =>
    simp only [step] at hs
    repeat' split at hs
    all_goals (first | (cases hs; done) | skip)
    rename_i _ C hC hg
    cases hs
    have hf := pframe_calls_upd (C' := { C with phase := .batching }) hC rfl rfl (fun _ _ h => h)
    exact hI.of_frame hf.1 hf.2 pframe_bat_id.1 pframe_bat_id.2 hlogid
  | batched c =>
    simp only [step] at hs
    repeat' split at hs
    all_goals (first | (cases hs; done) | skip)
    rename_i _ C hC hg
    cases hs
    have hf := pframe_calls_upd (C' := { C with phase := .batched }) hC rfl rfl (fun _ _ h => h)
    exact hI.of_frame hf.1 hf.2 pframe_bat_id.1 pframe_bat_id.2 hlogid
  | ret c r =>
    cases r <;> simp only [step, stepRet] at hs <;> repeat' split at hs
    all_goals (first | (cases hs; done) | skip)
    all_goals (rename_i _ C hC hg; cases hs)
    all_goals exact hI.of_calls_upd hC rfl rfl rfl rfl (fun _ _ h => h)
  | _ =>
    simp only [step] at hs
    repeat' split at hs
    all_goals (first | (cases hs; done) | skip)
    all_goals (cases hs)
    all_goals exact hI.of_frame pframe_calls_id.1 pframe_calls_id.2 pframe_bat_id.1 pframe_bat_id.2 hlogid

theorem invPlace (cfg : Cfg) : ∀ s, Reachable cfg s → InvPlace s :=
  invariant_of_step cfg InvPlace invPlace_init (fun s e s' => invPlace_step cfg s e s')

end KV.Writer
