/- Lemmas/Pool.lean — the pool protocol invariant is preserved by every faithful step. -/
import KafkaVerif.Model.Pool

namespace KV.Model.Pool

theorem live_append_some (hs : List (Option Nat)) (x : Nat) : (hs ++ [some x]).filterMap id = hs.filterMap id ++ [x] := by
  simp [List.filterMap_append]

/-- closing handle `h` that wraps `x`: the live list loses exactly one occurrence of `x` -/
theorem live_set_none (hs : List (Option Nat)) (h x : Nat) (hx : hs[h]? = some (some x)) :
    (x :: (hs.set h none).filterMap id).Perm (hs.filterMap id) := by
  induction hs generalizing h with
  | nil => simp at hx
  | cons a t ih =>
    cases h with
    | zero =>
      simp at hx; subst hx
      simp [List.filterMap_cons]
    | succ h =>
      simp only [List.getElem?_cons_succ] at hx
      have := ih h hx
      cases a with
      | none => simpa [List.filterMap_cons] using this
      | some y =>
        simp only [List.set_cons_succ, List.filterMap_cons, id]
        exact (List.Perm.swap y x _).trans (this.cons y)

theorem inv_init : Inv init := by intro x; simp [init, occ, live]

theorem inv_step (s s' : PState) (e : PEv) (hf : faithfulEv e = true) (hi : Inv s) (h : step s e = some s') : Inv s' := by
  cases e with
  | acquire sel =>
    cases sel with
    | none =>
      simp only [step, Option.some.injEq] at h; subst h
      intro x
      have hx := hi x
      have hfr := hi s.fresh
      simp only [occ, live, live_append_some, List.count_append, List.count_singleton] at *
      by_cases hxe : s.fresh = x
      · subst hxe
        simp only [beq_self_eq_true, if_true]
        constructor <;> omega
      · have : (s.fresh == x) = false := by simpa using hxe
        simp only [this]
        constructor
        · simpa using hx.1
        · intro hp; have := hx.2 (by simpa using hp); show x < s.fresh + 1; omega
    | some y =>
      simp only [step] at h
      split at h
      · rename_i hy
        simp only [Option.some.injEq] at h; subst h
        intro x
        have hx := hi x
        simp only [occ, live, live_append_some, List.count_append, List.count_singleton] at *
        by_cases hxe : y = x
        · subst hxe
          have hpos : 0 < s.pool.count y := List.count_pos_iff.mpr hy
          simp only [List.count_erase_self, beq_self_eq_true, if_true]
          constructor
          · omega
          · intro _; exact hx.2 (by omega)
        · have : (y == x) = false := by simpa using hxe
          simp only [this, List.count_erase_of_ne (Ne.symm hxe)]
          simpa using hx
      · simp at h
  | close hd =>
    simp only [step] at h
    cases hg : s.handles[hd]? with
    | none => simp [hg] at h
    | some o =>
      cases o with
      | none => simp only [hg, Option.some.injEq] at h; subst h; exact hi
      | some y =>
        simp only [hg, Option.some.injEq] at h; subst h
        intro x
        have hx := hi x
        have hperm := (live_set_none s.handles hd y hg).count_eq x
        simp only [occ, live, List.count_cons] at *
        by_cases hxe : y = x
        · subst hxe
          simp only [beq_self_eq_true, if_true] at *
          constructor
          · omega
          · intro _; exact hx.2 (by omega)
        · have : (y == x) = false := by simpa using hxe
          simp only [this] at *
          constructor
          · omega
          · intro hp; exact hx.2 (by omega)
  | closeKeep hd => simp [faithfulEv] at hf
  | putKeep hd => simp [faithfulEv] at hf
  | touchDangling x => simp [faithfulEv] at hf
  | touch hd =>
    simp only [step] at h
    cases hg : s.handles[hd]? with
    | none => simp [hg] at h
    | some o =>
      cases o with
      | none => simp [hg] at h
      | some y => simp only [hg, Option.some.injEq] at h; subst h; exact hi
  | drop y =>
    simp only [step] at h
    split at h
    · simp only [Option.some.injEq] at h; subst h
      intro x
      have hx := hi x
      have hle : (s.pool.erase y).count x ≤ s.pool.count x := (List.erase_sublist (a := y) (l := s.pool)).count_le x
      simp only [occ, live] at *
      constructor
      · omega
      · intro hp; exact hx.2 (by omega)
    · simp at h

theorem dangling_step (s s' : PState) (e : PEv) (hf : faithfulEv e = true) (hd : s.dangling = [])
    (h : step s e = some s') : s'.dangling = [] := by
  cases e with
  | acquire sel =>
    cases sel with
    | none => simp only [step, Option.some.injEq] at h; subst h; exact hd
    | some y => simp only [step] at h; split at h <;> simp at h; subst h; exact hd
  | close x =>
    simp only [step] at h
    cases hg : s.handles[x]? with
    | none => simp [hg] at h
    | some o => cases o <;> (simp only [hg, Option.some.injEq] at h; subst h; exact hd)
  | drop y => simp only [step] at h; split at h <;> simp at h; subst h; exact hd
  | touch x =>
    simp only [step] at h
    cases hg : s.handles[x]? with
    | none => simp [hg] at h
    | some o => cases o <;> simp [hg] at h; subst h; exact hd
  | closeKeep x => simp [faithfulEv] at hf
  | putKeep x => simp [faithfulEv] at hf
  | touchDangling x => simp [faithfulEv] at hf

theorem inv_run (es : List PEv) (s0 s : PState) (hf : faithful es = true) (h0 : Inv s0 ∧ s0.dangling = [])
    (hr : run s0 es = some s) : Inv s ∧ s.dangling = [] := by
  induction es generalizing s0 with
  | nil => simp [run] at hr; subst hr; exact h0
  | cons e es ih =>
    simp only [run] at hr
    cases hs : step s0 e with
    | none => simp [hs] at hr
    | some s1 =>
      simp only [hs] at hr
      simp only [faithful, List.all_cons, Bool.and_eq_true] at hf
      exact ih s1 hf.2 ⟨inv_step s0 s1 e hf.1 h0.1 hs, dangling_step s0 s1 e hf.1 h0.2 hs⟩ hr

end KV.Model.Pool

namespace KV.Model.CfgPool

theorem takeKey_spec (key : Nat) (pool : List (Nat × Obj)) (o : Obj) (rest : List (Nat × Obj))
    (h : takeKey key pool = some (o, rest)) : (key, o) ∈ pool ∧ ∀ e ∈ rest, e ∈ pool := by
  induction pool generalizing o rest with
  | nil => simp [takeKey] at h
  | cons x xs ih =>
    obtain ⟨k, ob⟩ := x
    simp only [takeKey] at h
    by_cases hk : k = key
    · simp only [hk, if_true, Option.some.injEq, Prod.mk.injEq] at h
      obtain ⟨h1, h2⟩ := h
      subst h1; subst h2; subst hk
      exact ⟨by simp, fun e he => by simp [he]⟩
    · simp only [hk, if_false] at h
      cases ht : takeKey key xs with
      | none => simp [ht] at h
      | some p =>
        obtain ⟨o', rest'⟩ := p
        simp only [ht, Option.some.injEq, Prod.mk.injEq] at h
        obtain ⟨h1, h2⟩ := h
        subst h1; subst h2
        have := ih o' rest' ht
        refine ⟨by simp [this.1], fun e he => ?_⟩
        simp only [List.mem_cons] at he ⊢
        rcases he with he | he
        · exact Or.inl he
        · exact Or.inr (this.2 e he)

theorem inv_init (rp : Nat → Bool) : Inv rp init := by simp [Inv, init]

theorem inv_step (rp : Nat → Bool) (s s' : St) (e : Ev) (hp : policyEv rp e = true) (hi : Inv rp s)
    (h : step s e = some s') : Inv rp s' := by
  obtain ⟨hh, hpool⟩ := hi
  cases e with
  | acquire key cfg reuse reapply =>
    simp only [policyEv, Bool.and_eq_true, beq_iff_eq, Bool.or_eq_true] at hp
    obtain ⟨hre, hkc⟩ := hp
    simp only [step] at h
    cases hf : (if reuse = true then takeKey key s.pool else none) with
    | none =>
      simp only [hf, Option.some.injEq] at h; subst h
      refine ⟨?_, hpool⟩
      intro hd hm
      simp only [List.mem_append, List.mem_singleton] at hm
      rcases hm with hm | hm
      · exact hh hd hm
      · subst hm
        refine ⟨rfl, fun hrf => ?_⟩
        rcases hkc with hk | hk
        · simp [hrf] at hk
        · exact hk.symm
    | some p =>
      obtain ⟨o, rest⟩ := p
      simp only [hf, Option.some.injEq] at h; subst h
      have hreuse : takeKey key s.pool = some (o, rest) := by
        by_cases hr : reuse = true
        · simpa [hr] using hf
        · simp [hr] at hf
      have hts := takeKey_spec key s.pool o rest hreuse
      refine ⟨?_, fun e he => hpool e (hts.2 e he)⟩
      intro hd hm
      simp only [List.mem_append, List.mem_singleton] at hm
      rcases hm with hm | hm
      · exact hh hd hm
      · subst hm
        by_cases hra : reapply = true
        · simp only [hra, if_true]
          refine ⟨trivial, fun hrf => ?_⟩
          rw [hra] at hre
          simp [← hre] at hrf
        · have hrf : rp key = false := by
            have : reapply = false := by simpa using hra
            rw [this] at hre; exact hre.symm
          have hk : key = cfg := by
            rcases hkc with hk | hk
            · simp [hrf] at hk
            · exact hk
          simp only [hra]
          have := hpool (key, o) hts.1 hrf
          simp only at this
          exact ⟨by simp [this, hk], fun _ => hk.symm⟩
  | close hx =>
    simp only [step] at h
    cases hg : s.handles[hx]? with
    | none => simp [hg] at h
    | some hd =>
      simp only [hg, Option.some.injEq] at h; subst h
      have hmem : hd ∈ s.handles := List.mem_of_getElem? hg
      refine ⟨fun x hxm => hh x ((List.eraseIdx_sublist s.handles hx).subset hxm), ?_⟩
      intro e he hrf
      simp only [List.mem_cons] at he
      rcases he with he | he
      · subst he
        have := hh hd hmem
        simp only at hrf ⊢
        rw [this.1, this.2 hrf]
      · exact hpool e he hrf

theorem inv_run (rp : Nat → Bool) (es : List Ev) (s0 s : St) (hp : policy rp es = true) (h0 : Inv rp s0)
    (hr : run s0 es = some s) : Inv rp s := by
  induction es generalizing s0 with
  | nil => simp [run] at hr; subst hr; exact h0
  | cons e es ih =>
    simp only [run] at hr
    cases hs : step s0 e with
    | none => simp [hs] at hr
    | some s1 =>
      simp only [hs] at hr
      simp only [policy, List.all_cons, Bool.and_eq_true] at hp
      exact ih s1 hp.2 (inv_step rp s0 s1 e hp.1 h0 hs) hr

end KV.Model.CfgPool

namespace KV.Model.LibWrapper

theorem cfg_after {σ ι ω : Type} (L : Lib σ ι ω) (cfgOf : σ → Nat) (h : ResetContract L cfgOf) (s : σ) (hist : List ι) :
    cfgOf (after L s hist) = cfgOf s := by
  induction hist generalizing s with
  | nil => rfl
  | cons i is ih =>
    simp only [after, List.foldl_cons] at ih ⊢
    rw [ih (useOnce L s i)]
    simp only [useOnce, h.cfg_reset, h.cfg_run]

end KV.Model.LibWrapper
