/-
Lemmas/Routing.lean — helper lemmas for Props/C12.lean (association-list maps, the version map, the
leader loops, bisection, the metadata cache).
-/
import KafkaVerif.Model.Routing

namespace KV.Routing

/-- well-formed layout: the broker map is keyed by broker id (what `makeLayout` builds) and ids are ≥ 0 -/
def BrokersWF (c : Cluster) : Prop := ∀ k b, c.brokers.lookup k = some b → b.id = k ∧ 0 ≤ k

/-- the leader of (topic, partition) in the layout is the broker with id `b` -/
def LedBy (c : Cluster) (tn : String) (p : Int) (b : Int) : Prop :=
  ∃ t part br, c.topics.lookup tn = some t ∧ t.partitions.lookup p = some part ∧
    c.brokers.lookup part.leader = some br ∧ br.id = b

end KV.Routing

namespace KV.Lemmas.Routing
open KV.Routing

/-! ### association lists -/

section amap
variable {κ ν : Type} [BEq κ] [LawfulBEq κ]

theorem lookup_map_replace_self (m : List (κ × ν)) (k : κ) (v : ν) (h : m.any (·.1 == k) = true) :
    (m.map (fun e => if e.1 == k then (k, v) else e)).lookup k = some v := by
  induction m with
  | nil => simp at h
  | cons e es ih =>
    simp only [List.map_cons]
    by_cases he : e.1 == k
    · simp [he, List.lookup]
    · have : es.any (·.1 == k) = true := by simpa [he] using h
      have hk : (k == e.1) = false := by
        simp only [beq_eq_false_iff_ne, ne_eq]; intro h'; exact he (by simp [h'])
      simp [he, List.lookup, hk, ih this]

theorem lookup_map_replace_other (m : List (κ × ν)) (k k' : κ) (v : ν) (h : k' ≠ k) :
    (m.map (fun e => if e.1 == k then (k, v) else e)).lookup k' = m.lookup k' := by
  induction m with
  | nil => rfl
  | cons e es ih =>
    obtain ⟨ek, ev⟩ := e
    simp only [List.map_cons]
    by_cases he : ek == k
    · have hek : ek = k := by simpa using he
      have h1 : (k' == k) = false := by simpa using h
      subst hek
      simp [List.lookup, h1, ih]
    · simp [he, List.lookup, ih]

theorem lookup_append_absent (m : List (κ × ν)) (k : κ) (tl : List (κ × ν)) (h : m.any (·.1 == k) = false) :
    (m ++ tl).lookup k = tl.lookup k := by
  induction m with
  | nil => rfl
  | cons e es ih =>
    obtain ⟨ek, ev⟩ := e
    simp only [List.any_cons, Bool.or_eq_false_iff] at h
    have hk : (k == ek) = false := by
      simp only [beq_eq_false_iff_ne, ne_eq]; intro h'; subst h'; simp at h
    simp [List.lookup, hk, ih h.2]

theorem lookup_append_other (m tl : List (κ × ν)) (k' : κ) (h : tl.lookup k' = none) :
    (m ++ tl).lookup k' = m.lookup k' := by
  induction m with
  | nil => simpa using h
  | cons e es ih =>
    obtain ⟨ek, ev⟩ := e
    simp only [List.cons_append, List.lookup]
    split <;> simp_all

theorem lookup_ainsert_self (m : List (κ × ν)) (k : κ) (v : ν) : (ainsert m k v).lookup k = some v := by
  unfold ainsert
  split
  · next h => exact lookup_map_replace_self m k v h
  · next h =>
    rw [lookup_append_absent m k _ ((Bool.not_eq_true _).mp h)]
    simp [List.lookup]

theorem lookup_ainsert_other (m : List (κ × ν)) (k k' : κ) (v : ν) (h : k' ≠ k) :
    (ainsert m k v).lookup k' = m.lookup k' := by
  unfold ainsert
  split
  · exact lookup_map_replace_other m k k' v h
  · apply lookup_append_other
    have : (k' == k) = false := by simpa using h
    simp [List.lookup, this]

theorem mem_keys_iff_lookup (m : List (κ × ν)) (k : κ) : k ∈ keys m ↔ (m.lookup k).isSome = true := by
  induction m with
  | nil => simp [keys]
  | cons e es ih =>
    obtain ⟨ek, ev⟩ := e
    simp only [keys, List.map_cons, List.mem_cons, List.lookup] at *
    by_cases h : k == ek
    · have : k = ek := by simpa using h
      simp [this]
    · have hne : k ≠ ek := by simpa using h
      simp [h, hne, ih]

end amap

/-! ### the version map -/

theorem negotiate_foldl_other (client : Nat → Int × Int) (post : List (Nat × Int × Int)) (key : Nat)
    (hpost : ∀ e ∈ post, e.1 ≠ key) (acc : List (Nat × Int)) :
    (post.foldl (fun ver e => ainsert ver e.1 (selectVersion (client e.1).1 (client e.1).2 e.2.1 e.2.2)) acc).lookup key
      = acc.lookup key := by
  induction post generalizing acc with
  | nil => rfl
  | cons e es ih =>
    simp only [List.foldl_cons]
    rw [ih (fun x hx => hpost x (List.mem_cons_of_mem _ hx))]
    exact lookup_ainsert_other acc e.1 key _ (fun h => hpost e (List.mem_cons_self) h.symm)

theorem negotiate_lookup (client : Nat → Int × Int) (pre post : List (Nat × Int × Int)) (key : Nat) (bmin bmax : Int)
    (hpost : ∀ e ∈ post, e.1 ≠ key) :
    negotiatedVersion (negotiate client (pre ++ (key, bmin, bmax) :: post)) key
      = selectVersion (client key).1 (client key).2 bmin bmax := by
  unfold negotiatedVersion negotiate lookupD
  rw [List.foldl_append, List.foldl_cons, negotiate_foldl_other client post key hpost, lookup_ainsert_self]
  rfl

/-! ### leader loops -/

theorem ledBy_unique (c : Cluster) {tn : String} {p b1 b2 : Int} (h1 : LedBy c tn p b1) (h2 : LedBy c tn p b2) :
    b1 = b2 := by
  obtain ⟨t, part, br, ht, hp, hb, hid⟩ := h1
  obtain ⟨t', part', br', ht', hp', hb', hid'⟩ := h2
  rw [ht] at ht'; cases ht'
  rw [hp] at hp'; cases hp'
  rw [hb] at hb'; cases hb'
  omega

/-- inner loop: an accepted run ends with a broker id `r`; every partition visited is led by `r`, and a
non-negative start value is kept -/
theorem leaderParts_sound (c : Cluster) (hwf : BrokersWF c) (tn : String) (t : Topic) (ht : c.topics.lookup tn = some t)
    (ps : List Int) (cur r : Int) (h : leaderParts c t ps cur = .ok r) :
    (0 ≤ cur → r = cur) ∧ (cur < 0 → ps = [] → r = cur) ∧ (ps ≠ [] → 0 ≤ r) ∧ (∀ p ∈ ps, LedBy c tn p r) := by
  induction ps generalizing cur with
  | nil =>
    simp only [leaderParts] at h
    cases h
    simp
  | cons p ps ih =>
    simp only [leaderParts] at h
    split at h
    · cases h
    · next part hpart =>
      split at h
      · cases h
      · next br hbr =>
        have hid := hwf _ _ hbr
        split at h
        · next hneg =>
          have := ih br.id h
          have hr : r = br.id := this.1 (by omega)
          refine ⟨by omega, by simp, fun _ => by omega, ?_⟩
          intro q hq
          rcases List.mem_cons.mp hq with rfl | hq
          · exact ⟨t, part, br, ht, hpart, hbr, hr.symm⟩
          · exact this.2.2.2 q hq
        · next hnn =>
          split at h
          · cases h
          · next heq =>
            have hbe : br.id = cur := by simpa using heq
            have := ih cur h
            have hr : r = cur := this.1 (by omega)
            refine ⟨fun _ => hr, by simp, fun _ => by omega, ?_⟩
            intro q hq
            rcases List.mem_cons.mp hq with rfl | hq
            · exact ⟨t, part, br, ht, hpart, hbr, by omega⟩
            · exact this.2.2.2 q hq

theorem leaderAll_sound (c : Cluster) (hwf : BrokersWF c) (tps : List (String × List Int)) (cur b : Int)
    (h : leaderAll c tps cur = .ok b) (hcur : cur < 0 ∨ cur = b) :
    ∀ tn ps, (tn, ps) ∈ tps → ∀ p ∈ ps, LedBy c tn p b := by
  induction tps generalizing cur with
  | nil => intro _ _ h; cases h
  | cons tp rest ih =>
    obtain ⟨tn0, ps0⟩ := tp
    simp only [leaderAll] at h
    split at h
    · cases h
    · next t ht =>
      split at h
      · cases h
      · next cur' hparts =>
        have hs := leaderParts_sound c hwf tn0 t ht ps0 cur cur' hparts
        -- the value handed on is kept by the rest when it is ≥ 0
        have keep : ∀ (tps : List (String × List Int)) (x y : Int), leaderAll c tps x = .ok y → 0 ≤ x → y = x := by
          intro tps
          induction tps with
          | nil => intro x y h _; simp only [leaderAll] at h; cases h; rfl
          | cons tp rest ih2 =>
            obtain ⟨tn1, ps1⟩ := tp
            intro x y h hx
            simp only [leaderAll] at h
            split at h
            · cases h
            · next t1 ht1 =>
              split at h
              · cases h
              · next x' hp1 =>
                have := (leaderParts_sound c hwf tn1 t1 ht1 ps1 x x' hp1).1 hx
                subst this
                exact ih2 _ _ h hx
        intro tn ps hmem p hp
        rcases List.mem_cons.mp hmem with heq | hmem
        · cases heq
          have hne : ps0 ≠ [] := by intro h0; subst h0; cases hp
          have h0 : 0 ≤ cur' := hs.2.2.1 hne
          have : b = cur' := keep rest cur' b h h0
          subst this
          exact hs.2.2.2 p hp
        · by_cases hc : cur' < 0
          · exact ih cur' h (Or.inl hc) tn ps hmem p hp
          · have : b = cur' := keep rest cur' b h (by omega)
            exact ih cur' h (Or.inr this.symm) tn ps hmem p hp

/-! ### bisection -/

theorem searchLoop_spec (f : Nat → Bool) (n : Nat) (mono : ∀ a b, a ≤ b → b < n → f a = true → f b = true)
    (fuel i j : Nat) (hij : i ≤ j) (hjn : j ≤ n) (hfuel : j - i ≤ fuel)
    (hlo : ∀ k, k < i → f k = false) (hhi : j < n → f j = true) :
    let r := searchLoop f fuel i j
    r ≤ n ∧ (∀ k, k < r → f k = false) ∧ (r < n → f r = true) := by
  induction fuel generalizing i j with
  | zero =>
    have : i = j := by omega
    subst this
    simp only [searchLoop]
    exact ⟨hjn, hlo, hhi⟩
  | succ fuel ih =>
    simp only [searchLoop]
    split
    · next hlt =>
      have hh : (i + j) / 2 < j := by omega
      have hh' : i ≤ (i + j) / 2 := by omega
      by_cases hf : f ((i + j) / 2) = true
      · simp only [hf, Bool.not_true, Bool.false_eq_true, ↓reduceIte]
        exact ih i ((i + j) / 2) hh' (by omega) (by omega) hlo (fun _ => hf)
      · have hf' : f ((i + j) / 2) = false := by simpa using hf
        simp only [hf', Bool.not_false, ↓reduceIte]
        refine ih ((i + j) / 2 + 1) j (by omega) hjn (by omega) ?_ hhi
        intro k hk
        by_cases hki : k < i
        · exact hlo k hki
        · cases hfk : f k with
          | false => rfl
          | true =>
            have := mono k ((i + j) / 2) (by omega) (by omega) hfk
            rw [hf'] at this; cases this
    · next hge =>
      have : i = j := by omega
      subst this
      exact ⟨hjn, hlo, hhi⟩

theorem sortSearch_spec (f : Nat → Bool) (n : Nat) (mono : ∀ a b, a ≤ b → b < n → f a = true → f b = true) :
    sortSearch n f ≤ n ∧ (∀ k, k < sortSearch n f → f k = false) ∧ (sortSearch n f < n → f (sortSearch n f) = true) :=
  searchLoop_spec f n mono n 0 n (Nat.zero_le _) (Nat.le_refl _) (by omega) (fun k hk => by omega) (fun h => by omega)

/-! ### sorted topic lists -/

def SortedTopics (ts : List MTopic) : Prop := List.Pairwise (fun a b => a.name < b.name) ts

theorem sorted_get_lt (ts : List MTopic) (hs : SortedTopics ts) (a b : Nat) (hab : a < b) (ta tb : MTopic)
    (ha : ts[a]? = some ta) (hb : ts[b]? = some tb) : ta.name < tb.name := by
  have hbl : b < ts.length := by
    rcases Nat.lt_or_ge b ts.length with h | h
    · exact h
    · rw [List.getElem?_eq_none h] at hb; cases hb
  have hal : a < ts.length := by omega
  rw [List.getElem?_eq_getElem hal] at ha
  rw [List.getElem?_eq_getElem hbl] at hb
  cases ha; cases hb
  exact (List.pairwise_iff_getElem.mp hs) a b hal hbl hab

theorem find?_of_first (ts : List MTopic) (n : String) (r : Nat) (t : MTopic)
    (hbefore : ∀ k tk, k < r → ts[k]? = some tk → tk.name ≠ n) (hr : ts[r]? = some t) (ht : t.name = n) :
    ts.find? (fun x => x.name == n) = some t := by
  induction ts generalizing r with
  | nil => simp at hr
  | cons x xs ih =>
    cases r with
    | zero =>
      simp only [List.getElem?_cons_zero, Option.some.injEq] at hr
      subst hr
      simp [List.find?, ht]
    | succ r =>
      have hx : x.name ≠ n := hbefore 0 x (by omega) (by simp)
      have : (x.name == n) = false := by simpa using hx
      simp only [List.find?, this]
      apply ih r
      · intro k tk hk hget
        exact hbefore (k + 1) tk (by omega) (by simpa using hget)
      · simpa using hr

theorem findTopic_correct (ts : List MTopic) (hs : SortedTopics ts) (n : String) :
    (match findTopic ts n with
     | some j => ts.getD j (unknownTopic n)
     | none => unknownTopic n) = (ts.find? (fun x => x.name == n)).getD (unknownTopic n) := by
  let f : Nat → Bool := fun i => match ts[i]? with | some t => decide (n ≤ t.name) | none => true
  have mono : ∀ a b, a ≤ b → b < ts.length → f a = true → f b = true := by
    intro a b hab hb hfa
    have hal : a < ts.length := by omega
    simp only [f, List.getElem?_eq_getElem hal, List.getElem?_eq_getElem hb, decide_eq_true_eq] at hfa ⊢
    rcases Nat.lt_or_ge a b with h | h
    · have := sorted_get_lt ts hs a b h ts[a] ts[b] (List.getElem?_eq_getElem hal) (List.getElem?_eq_getElem hb)
      exact String.le_trans hfa (String.not_lt.mp (fun h' => String.lt_irrefl _ (String.lt_trans this h')))
    · have : a = b := by omega
      subst this; exact hfa
  obtain ⟨hle, hlo, hhi⟩ := sortSearch_spec f ts.length mono
  have hfind : findTopic ts n = (match ts[sortSearch ts.length f]? with
      | some t => if t.name == n then some (sortSearch ts.length f) else none
      | none => none) := rfl
  rw [hfind]
  -- every index before r holds a smaller name
  have hbefore : ∀ k tk, k < sortSearch ts.length f → ts[k]? = some tk → tk.name ≠ n := by
    intro k tk hk hget heq
    have := hlo k hk
    simp only [f, hget, decide_eq_false_iff_not] at this
    exact this (heq ▸ String.le_refl _)
  cases hr : ts[sortSearch ts.length f]? with
  | none =>
    -- r = length: no topic is ≥ n
    simp only
    have hnone : ts.find? (fun x => x.name == n) = none := by
      apply List.find?_eq_none.mpr
      intro x hx
      obtain ⟨k, hk, hkx⟩ := List.getElem_of_mem hx
      have hrl : ts.length ≤ sortSearch ts.length f := by
        rcases Nat.lt_or_ge (sortSearch ts.length f) ts.length with h | h
        · rw [List.getElem?_eq_getElem h] at hr; cases hr
        · exact h
      have := hbefore k x (by omega) (by rw [List.getElem?_eq_getElem hk, hkx])
      simpa using this
    rw [hnone]; rfl
  | some t =>
    simp only
    have hrl : sortSearch ts.length f < ts.length := by
      rcases Nat.lt_or_ge (sortSearch ts.length f) ts.length with h | h
      · exact h
      · rw [List.getElem?_eq_none h] at hr; cases hr
    by_cases hname : t.name == n
    · have heq : t.name = n := by simpa using hname
      simp only [hname, ↓reduceIte]
      rw [find?_of_first ts n _ t hbefore hr heq]
      simp [List.getD, hr]
    · simp only [hname, Bool.false_eq_true, ↓reduceIte]
      have hne : t.name ≠ n := by simpa using hname
      have hge := hhi hrl
      simp only [f, hr, decide_eq_true_eq] at hge
      have hnone : ts.find? (fun x => x.name == n) = none := by
        apply List.find?_eq_none.mpr
        intro x hx
        obtain ⟨k, hk, hkx⟩ := List.getElem_of_mem hx
        rcases Nat.lt_trichotomy k (sortSearch ts.length f) with h | h | h
        · have := hbefore k x h (by rw [List.getElem?_eq_getElem hk, hkx])
          simpa using this
        · subst h
          rw [List.getElem?_eq_getElem hk, hkx] at hr
          cases hr
          simpa using hne
        · have hlt := sorted_get_lt ts hs _ k h t x hr (by rw [List.getElem?_eq_getElem hk, hkx])
          have hlt0 : n < t.name := by
            apply Classical.byContradiction
            intro h'
            exact hne (String.le_antisymm (String.not_lt.mp h') hge)
          have : n < x.name := String.lt_trans hlt0 hlt
          simp only [beq_iff_eq]
          intro he
          exact String.lt_irrefl _ (he ▸ this)
      rw [hnone]; rfl

/-! ### the normalised cache is sorted -/

theorem mem_insertBy {α : Type} (lt : α → α → Bool) (x z : α) (l : List α) :
    z ∈ insertBy lt x l ↔ z = x ∨ z ∈ l := by
  induction l with
  | nil => simp [insertBy]
  | cons y ys ih =>
    simp only [insertBy]
    split
    · simp
    · simp only [List.mem_cons, ih]
      constructor
      · rintro (h | h | h)
        · exact Or.inr (Or.inl h)
        · exact Or.inl h
        · exact Or.inr (Or.inr h)
      · rintro (h | h | h)
        · exact Or.inr (Or.inl h)
        · exact Or.inl h
        · exact Or.inr (Or.inr h)

theorem mem_sortBy {α : Type} (lt : α → α → Bool) (z : α) (l : List α) : z ∈ sortBy lt l ↔ z ∈ l := by
  induction l with
  | nil => simp [sortBy]
  | cons x xs ih => simp [sortBy, mem_insertBy, ih]

theorem str_lt_of_not_lt_ne {a b : String} (h : ¬ a < b) (hne : a ≠ b) : b < a := by
  apply Classical.byContradiction
  intro h'
  exact hne (String.le_antisymm (String.not_lt.mp h') (String.not_lt.mp h))

/-- inserting a fresh name into a name-sorted list keeps it name-sorted -/
theorem insertBy_sorted (x : MTopic) (l : List MTopic) (hs : SortedTopics l) (hx : ∀ y ∈ l, y.name ≠ x.name) :
    SortedTopics (insertBy (fun a b => decide (a.name < b.name)) x l) := by
  induction l with
  | nil => simp [insertBy, SortedTopics]
  | cons y ys ih =>
    unfold SortedTopics at hs ⊢
    rw [List.pairwise_cons] at hs
    simp only [insertBy]
    split
    · next hlt =>
      have hxy : x.name < y.name := by simpa using hlt
      rw [List.pairwise_cons]
      refine ⟨?_, List.pairwise_cons.mpr hs⟩
      intro z hz
      rcases List.mem_cons.mp hz with rfl | hz
      · exact hxy
      · exact String.lt_trans hxy (hs.1 z hz)
    · next hnlt =>
      have hnxy : ¬ x.name < y.name := by simpa using hnlt
      have hyx : y.name < x.name := str_lt_of_not_lt_ne hnxy (fun h => hx y List.mem_cons_self h.symm)
      rw [List.pairwise_cons]
      refine ⟨?_, ih hs.2 (fun z hz => hx z (List.mem_cons_of_mem _ hz))⟩
      intro z hz
      rcases (mem_insertBy _ x z ys).mp hz with rfl | hz
      · exact hyx
      · exact hs.1 z hz

/-- `sort.Slice` by name (modelled as insertion sort) of topics with pairwise distinct names is strictly sorted -/
theorem sortBy_sorted (l : List MTopic) (hnd : (l.map (·.name)).Nodup) :
    SortedTopics (sortBy (fun a b => decide (a.name < b.name)) l) := by
  induction l with
  | nil => simp [sortBy, SortedTopics]
  | cons x xs ih =>
    simp only [List.map_cons, List.nodup_cons] at hnd
    simp only [sortBy]
    apply insertBy_sorted x _ (ih hnd.2)
    intro y hy heq
    exact hnd.1 (List.mem_map.mpr ⟨y, (mem_sortBy _ y xs).mp hy, heq⟩)

/-- the cache `update` stores is sorted by topic name -/
theorem normalize_sorted (m : MResponse) (hnd : (m.topics.map (·.name)).Nodup) : SortedTopics (normalize m).topics := by
  unfold SortedTopics
  simp only [normalize]
  rw [List.pairwise_map]
  exact sortBy_sorted m.topics hnd

/-! ### the metadata cache and the connection groups -/

/-- the pool has a connection group for exactly the brokers of its cached layout, and each group's dial
address is the address the cached metadata gives for that broker -/
def ConnsInv (s : PoolState) : Prop :=
  ∀ id, s.conns.lookup id = (s.layout.brokers.lookup id).map Broker.addr

theorem lookup_append' {κ ν : Type} [BEq κ] (l1 l2 : List (κ × ν)) (k : κ) :
    (l1 ++ l2).lookup k = (l1.lookup k).or (l2.lookup k) := by
  induction l1 with
  | nil => simp [List.lookup]
  | cons e es ih =>
    obtain ⟨ek, ev⟩ := e
    simp only [List.cons_append, List.lookup]
    split <;> simp [ih]

theorem lookup_filter_key {ν : Type} (l : List (Int × ν)) (p : Int → Bool) (k : Int) :
    (l.filter (fun e => p e.1)).lookup k = if p k then l.lookup k else none := by
  induction l with
  | nil => simp [List.lookup]
  | cons e es ih =>
    obtain ⟨ek, ev⟩ := e
    by_cases hk : k == ek
    · have : k = ek := by simpa using hk
      subst this
      by_cases hp : p k <;> simp [List.filter_cons, List.lookup, hp, ih]
    · by_cases hp : p ek <;> simp [List.filter_cons, List.lookup, hp, hk, ih]

theorem lookup_map_ids {ν : Type} (ids : List Int) (f : Int → ν) (k : Int) :
    (ids.map (fun id => (id, f id))).lookup k = if k ∈ ids then some (f k) else none := by
  induction ids with
  | nil => simp [List.lookup]
  | cons i is ih =>
    by_cases hk : k == i
    · have : k = i := by simpa using hk
      subst this
      simp [List.lookup]
    · have hne : k ≠ i := by simpa using hk
      simp [List.lookup, hk, ih, hne]

theorem conns_update (oldB newB : List (Int × Broker)) (conns : List (Int × Addr))
    (inv : ∀ id, conns.lookup id = (oldB.lookup id).map Broker.addr) (id : Int) :
    ((conns.filter (fun e => !(((keys newB).filter (fun id =>
              match oldB.lookup id with
              | none => false
              | some b1 => some b1 != newB.lookup id)) ++
            ((keys oldB).filter (fun id => (newB.lookup id).isNone))).contains e.1)) ++
          ((keys newB).filter (fun id =>
              match oldB.lookup id with
              | none => true
              | some b1 => some b1 != newB.lookup id)).map
            (fun id => (id, (lookupD newB id Broker.zero).addr))).lookup id
      = (newB.lookup id).map Broker.addr := by
  have hold := mem_keys_iff_lookup oldB id
  have hnew := mem_keys_iff_lookup newB id
  rw [lookup_append', lookup_filter_key conns (fun k => !(((keys newB).filter (fun id =>
              match oldB.lookup id with
              | none => false
              | some b1 => some b1 != newB.lookup id)) ++
            ((keys oldB).filter (fun id => (newB.lookup id).isNone))).contains k) id,
    lookup_map_ids, inv id]
  cases ho : oldB.lookup id with
  | none =>
    cases hn : newB.lookup id with
    | none =>
      have h1 : id ∉ keys newB := fun h => by simpa [hn] using hnew.mp h
      simp [h1]
    | some b2 =>
      have h1 : id ∈ keys newB := hnew.mpr (by simp [hn])
      simp [h1, ho, lookupD, hn]
  | some b1 =>
    have h0 : id ∈ keys oldB := hold.mpr (by simp [ho])
    cases hn : newB.lookup id with
    | none =>
      have h1 : id ∉ keys newB := fun h => by simpa [hn] using hnew.mp h
      simp [h1, h0, hn]
    | some b2 =>
      have h1 : id ∈ keys newB := hnew.mpr (by simp [hn])
      by_cases hb : b1 = b2
      · subst hb
        simp [h1, h0, ho, hn]
      · simp [h1, h0, ho, hn, hb, lookupD]

/-- with the whole-struct comparison of the source, "differs" is inequality of the entries -/
theorem differs_eq (hc : KV.Gen.Routing.updateCompare = .whole) (b1 : Broker) (o : Option Broker) :
    differs b1 o = (some b1 != o) := by
  cases o with
  | none => simp [differs]
  | some b2 =>
    simp only [differs, hc, brokersDiffer]
    by_cases h : b1 = b2 <;> simp [h, bne]

/-- the add set of the regenerated classification is the explicit one: new ids that were unknown or changed -/
theorem addSet_eq (old new : List (Int × Broker)) :
    addSet old new = (keys new).filter (fun id =>
      match old.lookup id with
      | none => true
      | some b1 => differs b1 (new.lookup id)) := by
  unfold addSet
  have h2 : (keys old).filter (fun id => (oldClass new id).1) = [] := by
    apply List.filter_eq_nil_iff.mpr
    intro id _
    simp only [oldClass, KV.Gen.Routing.updateOldEntry]
    split <;> simp
  rw [h2, List.append_nil]
  apply List.filter_congr
  intro id _
  simp only [newClass, KV.Gen.Routing.updateNewEntry]
  cases old.lookup id with
  | none => simp
  | some b1 => by_cases hd : differs b1 (new.lookup id) = true <;> simp [hd]

/-- … and the delete set: changed ids of the new layout plus old ids that vanished -/
theorem delSet_eq (old new : List (Int × Broker)) :
    delSet old new = (keys new).filter (fun id =>
        match old.lookup id with
        | none => false
        | some b1 => differs b1 (new.lookup id)) ++
      (keys old).filter (fun id => (new.lookup id).isNone) := by
  unfold delSet
  congr 1
  · apply List.filter_congr
    intro id _
    simp only [newClass, KV.Gen.Routing.updateNewEntry]
    cases old.lookup id with
    | none => simp
    | some b1 => by_cases hd : differs b1 (new.lookup id) = true <;> simp [hd]
  · apply List.filter_congr
    intro id _
    simp only [oldClass, KV.Gen.Routing.updateOldEntry]
    cases new.lookup id <;> simp

theorem update_connsInv (hc : KV.Gen.Routing.updateCompare = .whole)
    (ho : KV.Gen.Routing.updateApplyOrder = [.del, .add]) (s : PoolState) (m : Option MResponse) (err : Bool)
    (h : ConnsInv s) : ConnsInv (update s m err) := by
  unfold update
  cases err with
  | true =>
    simp only [↓reduceIte]
    split
    · exact h
    · exact h
  | false =>
    simp only [Bool.false_eq_true, ↓reduceIte, applySets, ho, beq_self_eq_true, addSet_eq, delSet_eq, differs_eq hc]
    intro id
    exact conns_update s.layout.brokers _ s.conns h id

end KV.Lemmas.Routing
