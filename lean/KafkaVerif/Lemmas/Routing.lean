/-
Lemmas/Routing.lean — helper lemmas for Props/C12.lean (association-list maps, the version map, the
leader loops, bisection, the metadata cache).
-/
import KafkaVerif.Model.Routing

namespace KV.Routing

/-- well-formed layout: the broker map is keyed by broker id (what `makeLayout` builds) and ids are ≥ 0 -/
def BrokersWF (c : Cluster) : Prop := ∀ k b, c.brokers.lookup k = some b → b.id = k ∧ 0 ≤ k

/-- the leader of (topic, partition) in the layout is the broker with id `b` -/
def LedBy (c : Cluster) (tn : String) (p : Int) (b : Int) : Prop :=
  ∃ t part br, c.topics.lookup tn = some t ∧ t.partitions.lookup p = some part ∧
    c.brokers.lookup part.leader = some br ∧ br.id = b

end KV.Routing

namespace KV.Lemmas.Routing
open KV.Routing

/-! ### association lists -/

section amap
variable {κ ν : Type} [BEq κ] [LawfulBEq κ]

theorem lookup_map_replace_self (m : List (κ × ν)) (k : κ) (v : ν) (h : m.any (·.1 == k) = true) :
    (m.map (fun e => if e.1 == k then (k, v) else e)).lookup k = some v := by
  induction m with
  | nil => simp at h
  | cons e es ih =>
    simp only [List.map_cons]
    by_cases he : e.1 == k
    · simp [he, List.lookup]
    · have : es.any (·.1 == k) = true := by simpa [he] using h
      have hk : (k == e.1) = false := by
        simp only [beq_eq_false_iff_ne, ne_eq]; intro h'; exact he (by simp [h'])
      simp [he, List.lookup, hk, ih this]

theorem lookup_map_replace_other (m : List (κ × ν)) (k k' : κ) (v : ν) (h : k' ≠ k) :
    (m.map (fun e => if e.1 == k then (k, v) else e)).lookup k' = m.lookup k' := by
  induction m with
  | nil => rfl
  | cons e es ih =>
    obtain ⟨ek, ev⟩ := e
    simp only [List.map_cons]
    by_cases he : ek == k
    · have hek : ek = k := by simpa using he
      have h1 : (k' == k) = false := by simpa using h
      subst hek
      simp [List.lookup, h1, ih]
    · simp [he, List.lookup, ih]

theorem lookup_append_absent (m : List (κ × ν)) (k : κ) (tl : List (κ × ν)) (h : m.any (·.1 == k) = false) :
    (m ++ tl).lookup k = tl.lookup k := by
  induction m with
  | nil => rfl
  | cons e es ih =>
    obtain ⟨ek, ev⟩ := e
    simp only [List.any_cons, Bool.or_eq_false_iff] at h
    have hk : (k == ek) = false := by
      simp only [beq_eq_false_iff_ne, ne_eq]; intro h'; subst h'; simp at h
    simp [List.lookup, hk, ih h.2]

theorem lookup_append_other (m tl : List (κ × ν)) (k' : κ) (h : tl.lookup k' = none) :
    (m ++ tl).lookup k' = m.lookup k' := by
  induction m with
  | nil => simpa using h
  | cons e es ih =>
    obtain ⟨ek, ev⟩ := e
    simp only [List.cons_append, List.lookup]
    split <;> simp_all

theorem lookup_ainsert_self (m : List (κ × ν)) (k : κ) (v : ν) : (ainsert m k v).lookup k = some v := by
  unfold ainsert
  split
  · next h => exact lookup_map_replace_self m k v h
  · next h =>
    rw [lookup_append_absent m k _ ((Bool.not_eq_true _).mp h)]
    simp [List.lookup]

theorem lookup_ainsert_other (m : List (κ × ν)) (k k' : κ) (v : ν) (h : k' ≠ k) :
    (ainsert m k v).lookup k' = m.lookup k' := by
  unfold ainsert
  split
  · exact lookup_map_replace_other m k k' v h
  · apply lookup_append_other
    have : (k' == k) = false := by simpa using h
    simp [List.lookup, this]

theorem mem_keys_iff_lookup (m : List (κ × ν)) (k : κ) : k ∈ keys m ↔ (m.lookup k).isSome = true := by
  induction m with
  | nil => simp [keys]
  | cons e es ih =>
    obtain ⟨ek, ev⟩ := e
    simp only [keys, List.map_cons, List.mem_cons, List.lookup] at *
    by_cases h : k == ek
    · have : k = ek := by simpa using h
      simp [this]
    · have hne : k ≠ ek := by simpa using h
      simp [h, hne, ih]

end amap

/-! ### the version map -/

theorem negotiate_foldl_other (client : Nat → Int × Int) (post : List (Nat × Int × Int)) (key : Nat)
    (hpost : ∀ e ∈ post, e.1 ≠ key) (acc : List (Nat × Int)) :
    (post.foldl (fun ver e => ainsert ver e.1 (selectVersion (client e.1).1 (client e.1).2 e.2.1 e.2.2)) acc).lookup key
      = acc.lookup key := by
  induction post generalizing acc with
  | nil => rfl
  | cons e es ih =>
    simp only [List.foldl_cons]
    rw [ih (fun x hx => hpost x (List.mem_cons_of_mem _ hx))]
    exact lookup_ainsert_other acc e.1 key _ (fun h => hpost e (List.mem_cons_self) h.symm)

theorem negotiate_lookup (client : Nat → Int × Int) (pre post : List (Nat × Int × Int)) (key : Nat) (bmin bmax : Int)
    (hpost : ∀ e ∈ post, e.1 ≠ key) :
    negotiatedVersion (negotiate client (pre ++ (key, bmin, bmax) :: post)) key
      = selectVersion (client key).1 (client key).2 bmin bmax := by
  unfold negotiatedVersion negotiate lookupD
  rw [List.foldl_append, List.foldl_cons, negotiate_foldl_other client post key hpost, lookup_ainsert_self]
  rfl

/-! ### leader loops -/

theorem ledBy_unique (c : Cluster) {tn : String} {p b1 b2 : Int} (h1 : LedBy c tn p b1) (h2 : LedBy c tn p b2) :
    b1 = b2 := by
  obtain ⟨t, part, br, ht, hp, hb, hid⟩ := h1
  obtain ⟨t', part', br', ht', hp', hb', hid'⟩ := h2
  rw [ht] at ht'; cases ht'
  rw [hp] at hp'; cases hp'
  rw [hb] at hb'; cases hb'
  omega

/-- inner loop: an accepted run ends with a broker id `r`; every partition visited is led by `r`, and a
non-negative start value is kept -/
theorem leaderParts_sound (c : Cluster) (hwf : BrokersWF c) (tn : String) (t : Topic) (ht : c.topics.lookup tn = some t)
    (ps : List Int) (cur r : Int) (h : leaderParts c t ps cur = .ok r) :
    (0 ≤ cur → r = cur) ∧ (cur < 0 → ps = [] → r = cur) ∧ (ps ≠ [] → 0 ≤ r) ∧ (∀ p ∈ ps, LedBy c tn p r) := by
  induction ps generalizing cur with
  | nil =>
    simp only [leaderParts] at h
    cases h
    simp
  | cons p ps ih =>
    simp only [leaderParts] at h
    split at h
    · cases h
    · next part hpart =>
      split at h
      · cases h
      · next br hbr =>
        have hid := hwf _ _ hbr
        split at h
        · next hneg =>
          have := ih br.id h
          have hr : r = br.id := this.1 (by omega)
          refine ⟨by omega, by simp, fun _ => by omega, ?_⟩
          intro q hq
          rcases List.mem_cons.mp hq with rfl | hq
          · exact ⟨t, part, br, ht, hpart, hbr, hr.symm⟩
          · exact this.2.2.2 q hq
        · next hnn =>
          split at h
          · cases h
          · next heq =>
            have hbe : br.id = cur := by simpa using heq
            have := ih cur h
            have hr : r = cur := this.1 (by omega)
            refine ⟨fun _ => hr, by simp, fun _ => by omega, ?_⟩
            intro q hq
            rcases List.mem_cons.mp hq with rfl | hq
            · exact ⟨t, part, br, ht, hpart, hbr, by omega⟩
            · exact this.2.2.2 q hq

theorem leaderAll_sound (c : Cluster) (hwf : BrokersWF c) (tps : List (String × List Int)) (cur b : Int)
    (h : leaderAll c tps cur = .ok b) (hcur : cur < 0 ∨ cur = b) :
    ∀ tn ps, (tn, ps) ∈ tps → ∀ p ∈ ps, LedBy c tn p b := by
  induction tps generalizing cur with
  | nil => intro _ _ h; cases h
  | cons tp rest ih =>
    obtain ⟨tn0, ps0⟩ := tp
    simp only [leaderAll] at h
    split at h
    · cases h
    · next t ht =>
      split at h
      · cases h
      · next cur' hparts =>
        have hs := leaderParts_sound c hwf tn0 t ht ps0 cur cur' hparts
        -- the value handed on is kept by the rest when it is ≥ 0
        have keep : ∀ (tps : List (String × List Int)) (x y : Int), leaderAll c tps x = .ok y → 0 ≤ x → y = x := by
          intro tps
          induction tps with
          | nil => intro x y h _; simp only [leaderAll] at h; cases h; rfl
          | cons tp rest ih2 =>
            obtain ⟨tn1, ps1⟩ := tp
            intro x y h hx
            simp only [leaderAll] at h
            split at h
            · cases h
            · next t1 ht1 =>
              split at h
              · cases h
              · next x' hp1 =>
                have := (leaderParts_sound c hwf tn1 t1 ht1 ps1 x x' hp1).1 hx
                subst this
                exact ih2 _ _ h hx
        intro tn ps hmem p hp
        rcases List.mem_cons.mp hmem with heq | hmem
        · cases heq
          have hne : ps0 ≠ [] := by intro h0; subst h0; cases hp
          have h0 : 0 ≤ cur' := hs.2.2.1 hne
          have : b = cur' := keep rest cur' b h h0
          subst this
          exact hs.2.2.2 p hp
        · by_cases hc : cur' < 0
          · exact ih cur' h (Or.inl hc) tn ps hmem p hp
          · have : b = cur' := keep rest cur' b h (by omega)
            exact ih cur' h (Or.inr this.symm) tn ps hmem p hp

end KV.Lemmas.Routing
