/-
Lemmas/GroupRun.lean — invariants of the group-run LTS (Model/GroupRun.lean), by induction over event sequences.
-/
import KafkaVerif.Model.GroupRun

namespace KV.Group

/-- the accounting core of two generation states agrees -/
def SameCore (g g' : Gen) : Prop :=
  g'.closed = g.closed ∧ g'.routines = g.routines ∧ g'.joined = g.joined ∧ g'.accounted = g.accounted ∧
  g'.exited = g.exited

theorem Gen.Inv.of_sameCore {g g' : Gen} (h : Gen.Inv g) (c : SameCore g g') : Gen.Inv g' := by
  obtain ⟨c1, c2, c3, c4, c5⟩ := c
  exact ⟨by rw [c2, c5, c4]; exact h.count, by rw [c1, c2, c3, c4]; exact h.joined_iff,
         by rw [c1, c5]; exact h.exited_closed⟩

/-- what every generation-function step guarantees -/
structure GenOK (g g' : Gen) : Prop where
  inv : Gen.Inv g → Gen.Inv g'
  closed_mono : g.closed = true → g'.closed = true
  routines_le : g.closed = true → g'.routines ≤ g.routines
  ids : g'.gid = g.gid ∧ g'.member = g.member

theorem GenOK.of_sameCore {g g' : Gen} (c : SameCore g g') (hid : g'.gid = g.gid ∧ g'.member = g.member) : GenOK g g' :=
  ⟨fun h => h.of_sameCore c, fun h => by rw [c.1]; exact h, fun _ => by rw [c.2.1]; exact Nat.le_refl _, hid⟩

theorem sameCore_setW (g : Gen) (t : Nat) (w : WProc) : SameCore g (setW g t w) := ⟨rfl, rfl, rfl, rfl, rfl⟩
theorem sameCore_bodyReturned (g : Gen) (a : Bool) : SameCore g (g.bodyReturned a) := by
  unfold Gen.bodyReturned; split <;> exact ⟨rfl, rfl, rfl, rfl, rfl⟩

theorem SameCore.trans {a b c : Gen} (h1 : SameCore a b) (h2 : SameCore b c) : SameCore a c := by
  obtain ⟨a1, a2, a3, a4, a5⟩ := h1
  obtain ⟨b1, b2, b3, b4, b5⟩ := h2
  exact ⟨b1.trans a1, b2.trans a2, b3.trans a3, b4.trans a4, b5.trans a5⟩

theorem genOK_start (g : Gen) : GenOK g g.start.1 := by
  refine ⟨fun h => Gen.inv_start g h, ?_, ?_, ?_⟩
  · intro h; simp [Gen.start, h]
  · intro h; simp [Gen.start, h]
  · unfold Gen.start; split <;> exact ⟨rfl, rfl⟩

theorem genOK_userStart (acc : Bool) (g g' : Gen) (h : gUserStart acc g = some g') : GenOK g g' := by
  have hs := genOK_start g
  unfold gUserStart at h
  simp only at h
  split at h
  · cases h
    split
    · exact ⟨fun i => (hs.inv i).of_sameCore ⟨rfl, rfl, rfl, rfl, rfl⟩, hs.closed_mono, hs.routines_le, hs.ids⟩
    · exact ⟨fun i => (hs.inv i).of_sameCore ⟨rfl, rfl, rfl, rfl, rfl⟩, hs.closed_mono, hs.routines_le, hs.ids⟩
  · cases h

theorem genOK_hbStart (acc : Bool) (g g' : Gen) (h : gHbStart acc g = some g') : GenOK g g' := by
  have hs := genOK_start g
  unfold gHbStart at h
  simp only at h
  split at h
  · cases h
    exact ⟨fun i => (hs.inv i).of_sameCore ⟨rfl, rfl, rfl, rfl, rfl⟩, hs.closed_mono, hs.routines_le, hs.ids⟩
  · cases h

theorem genOK_watchStart (acc : Bool) (g g' : Gen) (h : gWatchStart acc g = some g') : GenOK g g' := by
  have hs := genOK_start g
  unfold gWatchStart at h
  simp only at h
  split at h
  · cases h
    exact ⟨fun i => (hs.inv i).of_sameCore ⟨rfl, rfl, rfl, rfl, rfl⟩, hs.closed_mono, hs.routines_le, hs.ids⟩
  · cases h

theorem genOK_hbCall (gid : Int) (m : String) (g g' : Gen) (h : gHbCall gid m g = some g') : GenOK g g' := by
  unfold gHbCall at h; split at h
  · cases h; exact .of_sameCore ⟨rfl, rfl, rfl, rfl, rfl⟩ ⟨rfl, rfl⟩
  · cases h

theorem genOK_hbRet (e : Option Err) (g g' : Gen) (h : gHbRet e g = some g') : GenOK g g' := by
  unfold gHbRet at h; split at h
  · cases h; exact .of_sameCore ⟨rfl, rfl, rfl, rfl, rfl⟩ ⟨rfl, rfl⟩
  · cases h

theorem bodyReturned_ids (g : Gen) (a : Bool) : (g.bodyReturned a).gid = g.gid ∧ (g.bodyReturned a).member = g.member := by
  unfold Gen.bodyReturned; split <;> exact ⟨rfl, rfl⟩

theorem genOK_hbExit (g g' : Gen) (h : gHbExit g = some g') : GenOK g g' := by
  unfold gHbExit at h; split at h
  · cases h
    exact .of_sameCore ((sameCore_bodyReturned g true).trans ⟨rfl, rfl, rfl, rfl, rfl⟩) (bodyReturned_ids g true)
  · cases h

theorem genOK_watchCall (t : Nat) (g g' : Gen) (h : gWatchCall t g = some g') : GenOK g g' := by
  unfold gWatchCall at h
  split at h <;> first | (cases h; exact .of_sameCore (sameCore_setW _ _ _) ⟨rfl, rfl⟩) | cases h

theorem genOK_watchParts (t n : Nat) (g g' : Gen) (h : gWatchParts t n g = some g') : GenOK g g' := by
  unfold gWatchParts at h
  split at h <;> first | (cases h; exact .of_sameCore (sameCore_setW _ _ _) ⟨rfl, rfl⟩) | cases h

theorem genOK_watchErr (t : Nat) (e : Err) (g g' : Gen) (h : gWatchErr t e g = some g') : GenOK g g' := by
  unfold gWatchErr at h
  split at h
  · cases h; exact .of_sameCore (sameCore_setW _ _ _) ⟨rfl, rfl⟩
  · split at h
    · cases h; exact .of_sameCore (sameCore_setW _ _ _) ⟨rfl, rfl⟩
    · split at h <;> (cases h; exact .of_sameCore (sameCore_setW _ _ _) ⟨rfl, rfl⟩)
  · cases h

theorem genOK_watchExit (t : Nat) (g g' : Gen) (h : gWatchExit t g = some g') : GenOK g g' := by
  unfold gWatchExit at h
  split at h
  · cases h
    exact .of_sameCore ((sameCore_bodyReturned g _).trans (sameCore_setW _ _ _)) (bodyReturned_ids g _)
  · split at h
    · cases h
      exact .of_sameCore ((sameCore_bodyReturned g _).trans (sameCore_setW _ _ _)) (bodyReturned_ids g _)
    · cases h
  · cases h

theorem fnExit_facts (g g' : Gen) (h : g.fnExit = some g') :
    g'.closed = true ∧ g'.routines + 1 = g.routines ∧ g'.gid = g.gid ∧ g'.member = g.member := by
  unfold Gen.fnExit at h
  split at h
  · cases h
  · split at h
    · cases h
    · cases h; refine ⟨rfl, ?_, rfl, rfl⟩; simp; omega

theorem genOK_fnExit (cbm : Bool) (left : Nat) (g g' : Gen) (h : gFnExit cbm left g = some g') : GenOK g g' := by
  unfold gFnExit at h; split at h
  · have f := fnExit_facts g g' h
    exact ⟨fun i => Gen.inv_fnExit g g' i h, fun _ => f.1, fun _ => by omega, f.2.2⟩
  · cases h

theorem genOK_uRet (acc : Bool) (g g' : Gen) (h : gURet acc g = some g') : GenOK g g' := by
  unfold gURet at h
  split at h
  · split at h
    · cases h
      exact .of_sameCore ((sameCore_bodyReturned g true).trans ⟨rfl, rfl, rfl, rfl, rfl⟩) (bodyReturned_ids g true)
    · cases h
  · split at h
    · cases h; exact .of_sameCore ⟨rfl, rfl, rfl, rfl, rfl⟩ ⟨rfl, rfl⟩
    · cases h

theorem genOK_uCtx (g g' : Gen) (h : gUCtx g = some g') : GenOK g g' := by
  unfold gUCtx at h; split at h
  · cases h; exact .of_sameCore ⟨rfl, rfl, rfl, rfl, rfl⟩ ⟨rfl, rfl⟩
  · cases h

/-- a step that leaves everything but the current generation alone, and moves that by a `GenOK` step -/
theorem onCur_spec (s s' : St) (g : Nat) (f : Gen → Option Gen) (hf : ∀ a b, f a = some b → GenOK a b)
    (h : onCur s g f = some s') : ∃ c, GenOK s.cur c ∧ s' = { s with cur := c } := by
  unfold onCur at h
  split at h
  · cases hc : f s.cur with
    | none => simp [hc] at h
    | some c => simp [hc] at h; exact ⟨c, hf _ _ hc, h.symm⟩
  · cases h

end KV.Group
