/-
Lemmas/LegacyFlat.lean — the write.go request writers (`writeFetchRequestV2` …) emit a FLAT sequence of writeBuffer
primitives (`writeArrayLen(1)` followed by the element's fields, …).  `unflatten` reads such a sequence against a
(non-flexible) schema and rebuilds the value it denotes; `unflatten_sound`: the primitives' bytes are the model
encoding of that value under the writer's own type `tw`, which equals the schema up to string nullability
(`unflatten_denull`).  The generated `F.legacy_eq_spec` theorems of Gen/LegacyGolden.lean instantiate this at the
golden schema of the function's API and version.
-/
import KafkaVerif.Base.LegacyWire
import KafkaVerif.Lemmas.LegacyModel
import KafkaVerif.Spec.KafkaSchemas

namespace KV.Legacy
open KV KV.Wire KV.Codec

/-- one call on the writeBuffer -/
inductive Prim where
  | i8 (i : Int) | i16 (i : Int) | i32 (i : Int) | i64 (i : Int)
  | bool (b : Bool)
  | str (s : Bytes)                 -- writeString
  | nstr (s : Option Bytes)         -- writeNullableString
  | bytes (b : Bytes)               -- writeBytes
  | alen (n : Int)                  -- writeArrayLen
  | blob (rb : RecordBatchBlob)     -- recordBatch.writeTo: int32 size, then the batch
  deriving Inhabited

def Prim.out : Prim → Bytes
  | .i8 i => writeInt8 i | .i16 i => writeInt16 i | .i32 i => writeInt32 i | .i64 i => writeInt64 i
  | .bool b => writeBool b
  | .str s => writeString s
  | .nstr s => writeNullableString s
  | .bytes b => writeBytes b
  | .alen n => writeArrayLen n
  | .blob rb => writeInt32 rb.size ++ rb.body

def flat : List Prim → Bytes
  | [] => []
  | p :: ps => p.out ++ flat ps

/-- `n` elements read by `f` -/
def unflattenN (f : List Prim → Option (Ty × Val × List Prim)) : Nat → List Prim → Option (List Val × List Prim)
  | 0, ps => some ([], ps)
  | n + 1, ps =>
    match f ps with
    | some (_, v, r) => (match unflattenN f n r with | some (vs, r') => some (v :: vs, r') | none => none)
    | none => none

/-- the element reader restricted to results of the expected writer type -/
def elemOf (f : List Prim → Option (Ty × Val × List Prim)) (te : Ty) (ps : List Prim) : Option (Ty × Val × List Prim) :=
  match f ps with
  | some (tw, v, r) => if Ty.beq tw te then some (tw, v, r) else none
  | none => none

mutual
/-- read a value of the (non-flexible) type from the primitive sequence; returns the writer's own type -/
def unflatten : Ty → List Prim → Option (Ty × Val × List Prim)
  | .int8, .i8 i :: r => some (.int8, .int i, r)
  | .int16, .i16 i :: r => some (.int16, .int i, r)
  | .int32, .i32 i :: r => some (.int32, .int i, r)
  | .int64, .i64 i :: r => some (.int64, .int i, r)
  | .bool, .bool b :: r => some (.bool, .bool b, r)
  | .string false _, .str s :: r => some (.string false false, .str s, r)
  | .string false true, .nstr none :: r => some (.string false true, .str [], r)
  | .string false _, .nstr (some (b :: s)) :: r => some (.string false false, .str (b :: s), r)
  | .bytes false n, .bytes b :: r => some (.bytes false n, .bytes (some b), r)
  | .array false n t, .alen k :: r =>
    if k < 0 then (if n && k == -1 then some (.array false true (Spec.denull t), .arr none, r) else none)
    else match unflattenN (elemOf (unflatten t) (Spec.denull t)) k.toNat r with
      | some (vs, r') => some (.array false n (Spec.denull t), .arr (some vs), r')
      | none => none
  | .struct false fs [] [], ps =>
    match unflattenFields fs ps with
    | some (tws, vs, r) => some (.struct false tws [] [], .struct vs [], r)
    | none => none
  | .records, .blob rb :: r => some (.records, .records (some rb.body), r)
  | _, _ => none
def unflattenFields : List Ty → List Prim → Option (List Ty × List Val × List Prim)
  | [], ps => some ([], [], ps)
  | t :: ts, ps =>
    match unflatten t ps with
    | some (tw, v, r) =>
      (match unflattenFields ts r with | some (tws, vs, r') => some (tw :: tws, v :: vs, r') | none => none)
    | none => none
end

/-! ### soundness -/

mutual
theorem denull_idem : ∀ t : Ty, Spec.denull (Spec.denull t) = Spec.denull t
  | .bool | .int8 | .int16 | .int32 | .int64 | .float64 | .records => by simp [Spec.denull]
  | .unit _ | .bytes _ _ => by simp [Spec.denull]
  | .string _ _ => by simp [Spec.denull]
  | .array c n e => by simp [Spec.denull, denull_idem e]
  | .struct f fs ids ts => by simp [Spec.denull, denullList_idem fs, denullList_idem ts]
theorem denullList_idem : ∀ ts : List Ty, Spec.denullList (Spec.denullList ts) = Spec.denullList ts
  | [] => by simp [Spec.denullList]
  | t :: ts => by simp [Spec.denullList, denull_idem t, denullList_idem ts]
end

/-- what `unflatten t` promises about a successful result -/
def PU (t : Ty) : Prop := ∀ ps tw v r, unflatten t ps = some (tw, v, r) →
  flat ps = encode tw v ++ flat r ∧ Spec.denull tw = Spec.denull t

theorem unflattenN_sound (f : List Prim → Option (Ty × Val × List Prim)) (te : Ty)
    (hf : ∀ ps tw v r, f ps = some (tw, v, r) → flat ps = encode tw v ++ flat r) :
    ∀ (n : Nat) (ps : List Prim) (vs : List Val) (r : List Prim),
      unflattenN (elemOf f te) n ps = some (vs, r) → flat ps = encodeElems te vs ++ flat r ∧ vs.length = n
  | 0, ps, vs, r, h => by
    simp only [unflattenN, Option.some.injEq, Prod.mk.injEq] at h
    obtain ⟨rfl, rfl⟩ := h
    simp [encodeElems]
  | n + 1, ps, vs, r, h => by
    simp only [unflattenN] at h
    split at h
    · rename_i tw v r1 heq
      split at h
      · rename_i vs' r' heq'
        simp only [Option.some.injEq, Prod.mk.injEq] at h
        obtain ⟨rfl, rfl⟩ := h
        obtain ⟨ih, hl⟩ := unflattenN_sound f te hf n r1 vs' r' heq'
        -- the element has the expected writer type
        unfold elemOf at heq
        split at heq
        · rename_i tw' v' r'' hfe
          split at heq
          · rename_i hb
            simp only [Option.some.injEq, Prod.mk.injEq] at heq
            obtain ⟨rfl, rfl, rfl⟩ := heq
            have := Ty.eq_of_beq _ _ hb
            subst this
            rw [hf _ _ _ _ hfe, ih]
            simp [encodeElems, hl]
          · simp at heq
        · simp at heq
      · simp at h
    · simp at h

theorem pu_prim (t : Ty) (h : ∀ ps tw v r, unflatten t ps = some (tw, v, r) →
    ∃ p, ps = p :: r ∧ p.out = encode tw v ∧ Spec.denull tw = Spec.denull t) : PU t := by
  intro ps tw v r hu
  obtain ⟨p, rfl, hp, hd⟩ := h ps tw v r hu
  exact ⟨by simp [flat, hp], hd⟩

theorem pu_int8 : PU .int8 := pu_prim _ fun ps tw v r h => by
  cases ps with
  | nil => simp [unflatten] at h
  | cons p r' => cases p <;> simp [unflatten] at h; obtain ⟨rfl, rfl, rfl⟩ := h; exact ⟨_, rfl, by simp [Prim.out, enc_int8], rfl⟩
theorem pu_int16 : PU .int16 := pu_prim _ fun ps tw v r h => by
  cases ps with
  | nil => simp [unflatten] at h
  | cons p r' => cases p <;> simp [unflatten] at h; obtain ⟨rfl, rfl, rfl⟩ := h; exact ⟨_, rfl, by simp [Prim.out, enc_int16], rfl⟩
theorem pu_int32 : PU .int32 := pu_prim _ fun ps tw v r h => by
  cases ps with
  | nil => simp [unflatten] at h
  | cons p r' => cases p <;> simp [unflatten] at h; obtain ⟨rfl, rfl, rfl⟩ := h; exact ⟨_, rfl, by simp [Prim.out, enc_int32], rfl⟩
theorem pu_int64 : PU .int64 := pu_prim _ fun ps tw v r h => by
  cases ps with
  | nil => simp [unflatten] at h
  | cons p r' => cases p <;> simp [unflatten] at h; obtain ⟨rfl, rfl, rfl⟩ := h; exact ⟨_, rfl, by simp [Prim.out, enc_int64], rfl⟩
theorem pu_bool : PU .bool := pu_prim _ fun ps tw v r h => by
  cases ps with
  | nil => simp [unflatten] at h
  | cons p r' => cases p <;> simp [unflatten] at h; obtain ⟨rfl, rfl, rfl⟩ := h; exact ⟨_, rfl, by simp [Prim.out, enc_bool], rfl⟩

theorem pu_none (t : Ty) (h : ∀ ps, unflatten t ps = none) : PU t := by
  intro ps tw v r hu; rw [h ps] at hu; simp at hu

theorem pu_string (c n : Bool) : PU (.string c n) := by
  cases c
  · refine pu_prim _ fun ps tw v r h => ?_
    cases ps with
    | nil => simp [unflatten] at h
    | cons p r' =>
      cases p with
      | str s =>
        simp [unflatten] at h; obtain ⟨rfl, rfl, rfl⟩ := h
        exact ⟨_, rfl, by simp [Prim.out, enc_string], by simp [Spec.denull]⟩
      | nstr o =>
        cases o with
        | none =>
          cases n
          · simp [unflatten] at h
          · simp [unflatten] at h; obtain ⟨rfl, rfl, rfl⟩ := h
            exact ⟨_, rfl, by simp [Prim.out, writeNullableString, encode, encString], by simp [Spec.denull]⟩
        | some s =>
          cases s with
          | nil => cases n <;> simp [unflatten] at h
          | cons b s' =>
            simp [unflatten] at h; obtain ⟨rfl, rfl, rfl⟩ := h
            exact ⟨_, rfl, by simp [Prim.out, writeNullableString, enc_string], by simp [Spec.denull]⟩
      | _ => cases n <;> simp [unflatten] at h
  · exact pu_none _ fun ps => by cases ps <;> simp [unflatten]

theorem pu_bytes (c n : Bool) : PU (.bytes c n) := by
  cases c
  · refine pu_prim _ fun ps tw v r h => ?_
    cases ps with
    | nil => simp [unflatten] at h
    | cons p r' =>
      cases p <;> simp [unflatten] at h
      obtain ⟨rfl, rfl, rfl⟩ := h
      exact ⟨_, rfl, by cases n <;> simp [Prim.out, encode, encBytes, writeBytes], rfl⟩
  · exact pu_none _ fun ps => by cases ps <;> simp [unflatten]

theorem pu_records : PU .records := pu_prim _ fun ps tw v r h => by
  cases ps with
  | nil => simp [unflatten] at h
  | cons p r' =>
    cases p <;> simp [unflatten] at h
    rename_i rb
    obtain ⟨rfl, rfl, rfl⟩ := h
    refine ⟨_, rfl, ?_, rfl⟩
    have := rb.ok
    simp only [Prim.out, encode, writeInt32]
    rw [← this]

theorem pu_array (c n : Bool) (t : Ty) (ht : PU t) : PU (.array c n t) := by
  cases c
  · intro ps tw v r h
    cases ps with
    | nil => simp [unflatten] at h
    | cons p r' =>
      cases p with
      | alen k =>
        simp only [unflatten] at h
        split at h
        · split at h
          · rename_i hk hn
            simp only [Option.some.injEq, Prod.mk.injEq] at h
            obtain ⟨rfl, rfl, rfl⟩ := h
            simp only [Bool.and_eq_true, beq_iff_eq] at hn
            obtain ⟨rfl, rfl⟩ := hn
            refine ⟨by simp [flat, Prim.out, enc_array_null], by simp [Spec.denull, denull_idem]⟩
          · simp at h
        · rename_i hk
          split at h
          · rename_i vs r'' heq
            simp only [Option.some.injEq, Prod.mk.injEq] at h
            obtain ⟨rfl, rfl, rfl⟩ := h
            obtain ⟨hs, hl⟩ := unflattenN_sound (unflatten t) (Spec.denull t)
              (fun ps tw v r hh => (ht ps tw v r hh).1) k.toNat r' vs _ heq
            refine ⟨?_, by simp [Spec.denull, denull_idem]⟩
            have hkk : ((vs.length : Nat) : Int) = k := by rw [hl]; omega
            simp only [flat, Prim.out, hs, encode, Option.getD_some, List.append_assoc]
            congr 1
            cases n <;> simp [encArrayLen, writeArrayLen, hkk]
          · simp at h
      | _ => simp [unflatten] at h
  · exact pu_none _ fun ps => by cases ps <;> simp [unflatten]

theorem unflatten_nz (t : Ty) (ps : List Prim) (tw : Ty) (v : Val) (r : List Prim)
    (h : unflatten t ps = some (tw, v, r)) : tw.zeroSize = false := by
  unfold unflatten at h
  repeat' split at h
  all_goals first
    | (simp only [Option.some.injEq, Prod.mk.injEq] at h; obtain ⟨rfl, _⟩ := h; rfl)
    | simp at h

theorem pu_fields : ∀ (fs : List Ty), (∀ t ∈ fs, PU t) → ∀ ps tws vs r,
    unflattenFields fs ps = some (tws, vs, r) →
      flat ps = encodeFields tws vs ++ flat r ∧ Spec.denullList tws = Spec.denullList fs ∧
        (∀ tw ∈ tws, tw.zeroSize = false)
  | [], _, ps, tws, vs, r, h => by
    simp only [unflattenFields, Option.some.injEq, Prod.mk.injEq] at h
    obtain ⟨rfl, rfl, rfl⟩ := h
    simp [encodeFields, Spec.denullList]
  | t :: ts, ht, ps, tws, vs, r, h => by
    simp only [unflattenFields] at h
    split at h
    · rename_i tw v r1 heq
      split at h
      · rename_i tws' vs' r' heq'
        simp only [Option.some.injEq, Prod.mk.injEq] at h
        obtain ⟨rfl, rfl, rfl⟩ := h
        obtain ⟨h1, d1⟩ := ht t (by simp) ps tw v r1 heq
        obtain ⟨h2, d2, z2⟩ := pu_fields ts (fun t' h' => ht t' (by simp [h'])) r1 tws' vs' _ heq'
        have hz : tw.zeroSize = false := unflatten_nz t ps tw v r1 heq
        refine ⟨?_, by simp [Spec.denullList, d1, d2], ?_⟩
        · rw [h1, h2]; simp [encodeFields, hz]
        · intro x hx
          rcases List.mem_cons.1 hx with rfl | hx
          · exact hz
          · exact z2 x hx
      · simp at h
    · simp at h

theorem pu_struct (flex : Bool) (fs : List Ty) (ids : List Int) (ts : List Ty) (hfs : ∀ t ∈ fs, PU t) :
    PU (.struct flex fs ids ts) := by
  intro ps tw v r h
  cases flex
  · cases ids with
    | nil =>
      cases ts with
      | nil =>
        simp only [unflatten] at h
        split at h
        · rename_i tws vs r' heq
          simp only [Option.some.injEq, Prod.mk.injEq] at h
          obtain ⟨rfl, rfl, rfl⟩ := h
          obtain ⟨h1, d1, _⟩ := pu_fields fs hfs ps tws vs _ heq
          exact ⟨by rw [h1]; simp [encode], by simp [Spec.denull, d1, Spec.denullList]⟩
        · simp at h
      | cons _ _ => simp [unflatten] at h
    | cons _ _ => simp [unflatten] at h
  · simp [unflatten] at h

mutual
theorem pu_all (t : Ty) : PU t :=
  match t with
  | .bool => pu_bool | .int8 => pu_int8 | .int16 => pu_int16 | .int32 => pu_int32 | .int64 => pu_int64
  | .float64 => pu_none _ fun ps => by cases ps <;> simp [unflatten]
  | .string c n => pu_string c n
  | .bytes c n => pu_bytes c n
  | .array c n t => pu_array c n t (pu_all t)
  | .struct flex fs ids ts => pu_struct flex fs ids ts (pu_list fs)
  | .unit _ => pu_none _ fun ps => by cases ps <;> simp [unflatten]
  | .records => pu_records
termination_by structural t
theorem pu_list (ts : List Ty) : ∀ t ∈ ts, PU t :=
  match ts with
  | [] => fun _ h => by simp at h
  | t :: ts => fun t' h => by
    rcases List.mem_cons.1 h with h | h
    · exact h ▸ pu_all t
    · exact pu_list ts t' h
termination_by structural ts
end

/-- **A flat primitive sequence that reads as a value of schema `g` IS the model encoding of that value** under a
writer type that equals `g` up to string nullability. -/
theorem unflatten_sound (g : Ty) (ps : List Prim) (tw : Ty) (v : Val) (h : unflatten g ps = some (tw, v, [])) :
    flat ps = encode tw v ∧ Spec.denull tw = Spec.denull g := by
  obtain ⟨h1, h2⟩ := pu_all g ps tw v [] h
  exact ⟨by simpa [flat] using h1, h2⟩

end KV.Legacy
