/-
Lemmas/ReaderClose.lean — the inductive invariant of Model/ReaderClose.lean.
-/
import KafkaVerif.Model.ReaderClose
namespace KV.ReaderClose

structure Inv (s : State) : Prop where
  done : s.close = 3 → s.fetchers = 0 ∧ s.loop = 0 ∧ s.conns = 0 ∧ s.msgsClosed = true
  loop0 : s.loop = 0 → (s.member = none ∨ s.leaveFail = true) ∧ s.gen = false ∧ s.lconns = 0
  marked : 2 ≤ s.close → s.closed = true
  msgs : s.msgsClosed = true → s.fetchers = 0 ∧ s.loop = 0 ∧ s.closed = true
  plain : s.group = false → s.loop = 0
  cl : s.close ≤ 3
  lp : s.loop ≤ 1

theorem inv_init (g : Bool) : Inv (State.init g) := by
  constructor <;> simp [State.init]
  split <;> omega

theorem inv_step (s s' : State) (e : Event) (hi : Inv s) (hs : step s e = some s') : Inv s' := by
  obtain ⟨h1, h2, h3, h4, h5, h6, h7⟩ := hi
  cases e <;> simp only [step, Option.ite_none_right_eq_some, Option.some.injEq] at hs <;>
    obtain ⟨hg, rfl⟩ := hs <;>
    (try simp only [Bool.and_eq_true, decide_eq_true_eq, Bool.not_eq_true', Bool.or_eq_true] at hg)
  all_goals (constructor <;> simp_all <;> try omega)

theorem run_inv (es : List Event) : ∀ s0 s, Inv s0 → run s0 es = some s → Inv s := by
  induction es with
  | nil => intro s0 s h hr; simp only [run, Option.some.injEq] at hr; subst hr; exact h
  | cons e es ih =>
    intro s0 s h hr
    simp only [run] at hr
    cases hs : step s0 e with
    | none => simp [hs] at hr
    | some s1 => simp only [hs] at hr; exact ih s1 s (inv_step s0 s1 e h hs) hr

theorem reachable_inv (g : Bool) (s : State) (h : Reachable g s) : Inv s := by
  obtain ⟨es, hr⟩ := h
  exact run_inv es _ s (inv_init g) hr

theorem reachable_loop_le (g : Bool) (s : State) (h : Reachable g s) : s.loop ≤ 1 := (reachable_inv g s h).lp

end KV.ReaderClose
