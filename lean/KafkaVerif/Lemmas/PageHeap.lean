/-
Lemmas/PageHeap.lean — bytes handed out stay intact: a page on which some holder keeps a count and which has no
writer (its buffer is gone: the decode finished) keeps its content over EVERY run of the heap, whatever other buffers
allocate, recycle, write, reference and release meanwhile.
-/
import KafkaVerif.Model.PageHeap
import KafkaVerif.Lemmas.Pages

namespace KV.Model.Pages
open KV

/-- every heap step is a step of the count-level system (or leaves it alone) -/
theorem hstep_base (s s' : HState) (e : HEvent) (h : hstep s e = some s') :
    (e.base = none ∧ s'.ps = s.ps) ∨ (∃ b, e.base = some b ∧ step s.ps b = some s'.ps) := by
  cases e with
  | allocPage =>
    simp only [hstep] at h
    cases hs : step s.ps .allocPage with
    | none => simp [hs] at h
    | some ps' => simp only [hs, Option.some.injEq] at h; subst h; exact .inr ⟨_, rfl, hs⟩
  | reusePage i =>
    simp only [hstep] at h
    cases hg : s.ps.pool[i]? with
    | none => simp [hg] at h
    | some p =>
      simp only [hg] at h
      cases hs : step s.ps (.reusePage i) with
      | none => simp [hs] at h
      | some ps' => simp only [hs, Option.some.injEq] at h; subst h; exact .inr ⟨_, rfl, hs⟩
  | write p bs =>
    simp only [hstep] at h
    split at h
    · simp only [Option.some.injEq] at h; subst h; exact .inl ⟨rfl, rfl⟩
    · simp at h
  | append p bs =>
    simp only [hstep] at h
    split at h
    · simp only [Option.some.injEq] at h; subst h; exact .inl ⟨rfl, rfl⟩
    · simp at h
  | refTo p =>
    simp only [hstep] at h
    cases hs : step s.ps (.ref p) with
    | none => simp [hs] at h
    | some ps' => simp only [hs, Option.some.injEq] at h; subst h; exact .inr ⟨_, rfl, hs⟩
  | unrefRef p =>
    simp only [hstep] at h
    by_cases hc : (if s.writer p then 2 else 1) ≤ s.ps.held.count p
    · rw [if_pos hc] at h
      cases hs : step s.ps (.unref p) with
      | none => simp [hs] at h
      | some ps' => simp only [hs, Option.some.injEq] at h; subst h; exact .inr ⟨_, rfl, hs⟩
    · rw [if_neg hc] at h; simp at h
  | unrefBuf p =>
    simp only [hstep] at h
    split at h
    · cases hs : step s.ps (.unref p) with
      | none => simp [hs] at h
      | some ps' => simp only [hs, Option.some.injEq] at h; subst h; exact .inr ⟨_, rfl, hs⟩
    · simp at h
  | poolDrop i =>
    simp only [hstep] at h
    cases hs : step s.ps (.poolDrop i) with
    | none => simp [hs] at h
    | some ps' => simp only [hs, Option.some.injEq] at h; subst h; exact .inr ⟨_, rfl, hs⟩

theorem hinv_step (s s' : HState) (e : HEvent) (hi : Inv s.ps) (h : hstep s e = some s') : Inv s'.ps := by
  rcases hstep_base s s' e h with ⟨_, he⟩ | ⟨b, _, hb⟩
  · rw [he]; exact hi
  · exact inv_step s.ps s'.ps b hi hb

theorem hinv_run (es : List HEvent) (s s' : HState) (hi : Inv s.ps) (h : hrun s es = some s') : Inv s'.ps := by
  induction es generalizing s with
  | nil => simp [hrun] at h; subst h; exact hi
  | cons e es ih =>
    simp only [hrun] at h
    cases hs : hstep s e with
    | none => simp [hs] at h
    | some s1 => simp only [hs] at h; exact ih s1 (hinv_step s s1 e hi hs) h

/-- one step: a held page without a writer keeps its bytes and gets no writer -/
theorem heap_stable_step (s s' : HState) (e : HEvent) (hi : Inv s.ps) (p : Nat) (hp : p ∈ s.ps.held)
    (hw : s.writer p = false) (h : hstep s e = some s') : s'.content p = s.content p ∧ s'.writer p = false := by
  have hnot : p ∉ s.ps.pool := by
    intro hm
    have h0 := hi.poolFree p hm
    rw [hi.counts p] at h0
    exact (List.count_eq_zero.mp h0) hp
  have hlt : p < s.ps.fresh := hi.bound p (.inr hp)
  cases e with
  | allocPage =>
    simp only [hstep] at h
    cases hs : step s.ps .allocPage with
    | none => simp [hs] at h
    | some ps' =>
      simp only [hs, Option.some.injEq] at h; subst h
      have : p ≠ s.ps.fresh := by omega
      simp [upd, this, hw]
  | reusePage i =>
    simp only [hstep] at h
    cases hg : s.ps.pool[i]? with
    | none => simp [hg] at h
    | some q =>
      simp only [hg] at h
      cases hs : step s.ps (.reusePage i) with
      | none => simp [hs] at h
      | some ps' =>
        simp only [hs, Option.some.injEq] at h; subst h
        have : p ≠ q := fun e => hnot (e ▸ mem_of_getElem? hg)
        simp [upd, this, hw]
  | write q bs =>
    simp only [hstep] at h
    split at h
    · rename_i hq
      simp only [Option.some.injEq] at h; subst h
      have : p ≠ q := by intro e; subst e; rw [hw] at hq; exact Bool.false_ne_true hq
      simp [upd, this, hw]
    · simp at h
  | append q bs =>
    simp only [hstep] at h
    split at h
    · rename_i hq
      simp only [Option.some.injEq] at h; subst h
      have : p ≠ q := by intro e; subst e; rw [hw] at hq; exact Bool.false_ne_true hq
      simp [upd, this, hw]
    · simp at h
  | refTo q =>
    simp only [hstep] at h
    cases hs : step s.ps (.ref q) with
    | none => simp [hs] at h
    | some ps' => simp only [hs, Option.some.injEq] at h; subst h; exact ⟨rfl, hw⟩
  | unrefRef q =>
    simp only [hstep] at h
    by_cases hc : (if s.writer q then 2 else 1) ≤ s.ps.held.count q
    · rw [if_pos hc] at h
      cases hs : step s.ps (.unref q) with
      | none => simp [hs] at h
      | some ps' => simp only [hs, Option.some.injEq] at h; subst h; exact ⟨rfl, hw⟩
    · rw [if_neg hc] at h; simp at h
  | unrefBuf q =>
    simp only [hstep] at h
    split at h
    · cases hs : step s.ps (.unref q) with
      | none => simp [hs] at h
      | some ps' =>
        simp only [hs, Option.some.injEq] at h; subst h
        refine ⟨rfl, ?_⟩
        by_cases hpq : p = q
        · simp [upd, hpq]
        · simp [upd, hpq, hw]
    · simp at h
  | poolDrop i =>
    simp only [hstep] at h
    cases hs : step s.ps (.poolDrop i) with
    | none => simp [hs] at h
    | some ps' => simp only [hs, Option.some.injEq] at h; subst h; exact ⟨rfl, hw⟩

theorem heap_stable_aux (es : List HEvent) (s : HState) (hi : Inv s.ps) (p : Nat) (hp : p ∈ s.ps.held)
    (hw : s.writer p = false) :
    ∀ s', hrun s es = some s' → (∀ k, k ≤ es.length → ∀ sk, hrun s (es.take k) = some sk → p ∈ sk.ps.held) →
      s'.content p = s.content p ∧ s'.writer p = false := by
  induction es generalizing s with
  | nil => intro s' hr _; simp [hrun] at hr; subst hr; exact ⟨rfl, hw⟩
  | cons e es ih =>
    intro s' hr hk
    simp only [hrun] at hr
    cases hs : hstep s e with
    | none => simp [hs] at hr
    | some s1 =>
      simp only [hs] at hr
      have h1 := heap_stable_step s s1 e hi p hp hw hs
      have hp1 : p ∈ s1.ps.held := hk 1 (by simp) s1 (by simp [hrun, hs])
      have := ih s1 (hinv_step s s1 e hi hs) hp1 h1.2 s' hr (fun k hkl sk hrun' =>
        hk (k + 1) (by simp; omega) sk (by simp [hrun, hs, hrun']))
      exact ⟨by rw [this.1, h1.1], this.2⟩

/-- one step, for a held page that MAY still have its writer: unless the step is an overwrite of `p`, its bytes only grow -/
theorem heap_grow_step (s s' : HState) (e : HEvent) (hi : Inv s.ps) (p : Nat) (hp : p ∈ s.ps.held)
    (hno : noOverwrite p [e] = true) (h : hstep s e = some s') : s.content p <+: s'.content p := by
  have hnot : p ∉ s.ps.pool := by
    intro hm
    have h0 := hi.poolFree p hm
    rw [hi.counts p] at h0
    exact (List.count_eq_zero.mp h0) hp
  have hlt : p < s.ps.fresh := hi.bound p (.inr hp)
  cases e with
  | allocPage =>
    simp only [hstep] at h
    cases hs : step s.ps .allocPage with
    | none => simp [hs] at h
    | some ps' =>
      simp only [hs, Option.some.injEq] at h; subst h
      have : p ≠ s.ps.fresh := by omega
      simp [upd, this]
  | reusePage i =>
    simp only [hstep] at h
    cases hg : s.ps.pool[i]? with
    | none => simp [hg] at h
    | some q =>
      simp only [hg] at h
      cases hs : step s.ps (.reusePage i) with
      | none => simp [hs] at h
      | some ps' =>
        simp only [hs, Option.some.injEq] at h; subst h
        have : p ≠ q := fun e => hnot (e ▸ mem_of_getElem? hg)
        simp [upd, this]
  | write q bs =>
    simp only [noOverwrite, Bool.and_true, decide_eq_true_eq] at hno
    simp only [hstep] at h
    split at h
    · simp only [Option.some.injEq] at h; subst h
      have : p ≠ q := fun e => hno e.symm
      simp [upd, this]
    · simp at h
  | append q bs =>
    simp only [hstep] at h
    split at h
    · simp only [Option.some.injEq] at h; subst h
      by_cases hpq : p = q
      · subst hpq; simp [upd]
      · simp [upd, hpq]
    · simp at h
  | refTo q =>
    simp only [hstep] at h
    cases hs : step s.ps (.ref q) with
    | none => simp [hs] at h
    | some ps' => simp only [hs, Option.some.injEq] at h; subst h; exact List.prefix_refl _
  | unrefRef q =>
    simp only [hstep] at h
    by_cases hc : (if s.writer q then 2 else 1) ≤ s.ps.held.count q
    · rw [if_pos hc] at h
      cases hs : step s.ps (.unref q) with
      | none => simp [hs] at h
      | some ps' => simp only [hs, Option.some.injEq] at h; subst h; exact List.prefix_refl _
    · rw [if_neg hc] at h; simp at h
  | unrefBuf q =>
    simp only [hstep] at h
    split at h
    · cases hs : step s.ps (.unref q) with
      | none => simp [hs] at h
      | some ps' => simp only [hs, Option.some.injEq] at h; subst h; exact List.prefix_refl _
    · simp at h
  | poolDrop i =>
    simp only [hstep] at h
    cases hs : step s.ps (.poolDrop i) with
    | none => simp [hs] at h
    | some ps' => simp only [hs, Option.some.injEq] at h; subst h; exact List.prefix_refl _

theorem noOverwrite_cons (p : Nat) (e : HEvent) (es : List HEvent) (h : noOverwrite p (e :: es) = true) :
    noOverwrite p [e] = true ∧ noOverwrite p es = true := by
  cases e <;> simp_all [noOverwrite]

theorem heap_grow_aux (es : List HEvent) (s : HState) (hi : Inv s.ps) (p : Nat) (hp : p ∈ s.ps.held)
    (hno : noOverwrite p es = true) :
    ∀ s', hrun s es = some s' → (∀ k, k ≤ es.length → ∀ sk, hrun s (es.take k) = some sk → p ∈ sk.ps.held) →
      s.content p <+: s'.content p := by
  induction es generalizing s with
  | nil => intro s' hr _; simp [hrun] at hr; subst hr; exact List.prefix_refl _
  | cons e es ih =>
    intro s' hr hk
    simp only [hrun] at hr
    cases hs : hstep s e with
    | none => simp [hs] at hr
    | some s1 =>
      simp only [hs] at hr
      obtain ⟨h1e, h1r⟩ := noOverwrite_cons p e es hno
      have h1 := heap_grow_step s s1 e hi p hp h1e hs
      have hp1 : p ∈ s1.ps.held := hk 1 (by simp) s1 (by simp [hrun, hs])
      have := ih s1 (hinv_step s s1 e hi hs) hp1 h1r s' hr (fun k hkl sk hrun' =>
        hk (k + 1) (by simp; omega) sk (by simp [hrun, hs, hrun']))
      exact List.IsPrefix.trans h1 this

end KV.Model.Pages

