/-
Lemmas/WriterInv.lean — invariants of the Writer LTS (Model/Writer.lean), each proved by induction over
arbitrary event sequences via `invariant_of_step`.
-/
import KafkaVerif.Model.Writer

namespace KV.Writer

theorem forall_upd {β : Type} {P : β → Prop} (f : Nat → Option β) (b0 : Nat) (B0 : β)
    (h : ∀ b B, f b = some B → P B) (h0 : P B0) : ∀ b B, upd f b0 (some B0) b = some B → P B := by
  intro b B hb
  by_cases hbb : b = b0
  · subst hbb; simp at hb; exact hb ▸ h0
  · rw [upd_other _ _ _ _ hbb] at hb; exact h b B hb

theorem msgAt_elim {msgs : List MsgSpec} {i : Nat} {p : MsgSpec → Bool} (h : msgAt msgs i p = true) :
    ∃ m, msgs[i]? = some m ∧ p m = true := by
  unfold msgAt at h
  split at h
  · exact ⟨_, by assumption, h⟩
  · cases h

theorem allFit_elim {cfg : Cfg} {msgs : List MsgSpec} {i : Nat} {m : MsgSpec} (h : allFit cfg msgs = true)
    (hm : msgs[i]? = some m) : m.size ≤ cfg.batchBytes := by
  unfold allFit at h
  rw [List.all_eq_true] at h
  have := h m (List.mem_of_getElem? hm)
  simpa using this

/-! ## C08: size limits of every batch -/

/-- a batch never exceeds BatchSize messages / BatchBytes bytes, and `bytes` is the sum of the message sizes -/
def BatchOK (cfg : Cfg) (B : Batch) : Prop :=
  B.msgs.length ≤ cfg.batchSize ∧ B.bytes ≤ cfg.batchBytes ∧ B.bytes = (B.msgs.map (·.size)).sum

/-- a call that reached batchMessages passed the up-front size validation -/
def CallOK (cfg : Cfg) (C : Call) : Prop := C.phase = .batching → allFit cfg C.msgs = true

def Inv08 (cfg : Cfg) (s : State) : Prop :=
  (∀ b B, s.batches b = some B → BatchOK cfg B) ∧ (∀ c C, s.calls c = some C → CallOK cfg C)

theorem batchOK_new (cfg : Cfg) (pw : Nat) (tp : TP) (ord : Nat) : BatchOK cfg (Batch.new pw tp ord) := by
  simp [BatchOK, Batch.new]

theorem batchOK_push (cfg : Cfg) (B : Batch) (m : BMsg) (h : BatchOK cfg B) (hfull : B.full cfg = false)
    (hfit : B.nofit cfg m.size = false) (hsize : m.size ≤ cfg.batchBytes) : BatchOK cfg (B.push m) := by
  obtain ⟨h1, h2, h3⟩ := h
  simp only [Batch.full, Bool.or_eq_false_iff, decide_eq_false_iff_not, Nat.not_le] at hfull
  simp only [Batch.nofit, Bool.and_eq_false_iff, decide_eq_false_iff_not, Nat.not_lt] at hfit
  refine ⟨?_, ?_, ?_⟩
  · simp only [Batch.push, List.length_append, List.length_cons, List.length_nil]; omega
  · simp only [Batch.push]
    rcases hfit with h0 | h0
    · have : B.msgs = [] := by
        cases hm : B.msgs with
        | nil => rfl
        | cons a l => rw [hm] at h0; simp at h0
      rw [this] at h3; simp at h3; omega
    · exact h0
  · simp only [Batch.push, List.map_append, List.map_cons, List.map_nil, List.sum_append, List.sum_cons, List.sum_nil]
    omega

theorem inv08_init (cfg : Cfg) : Inv08 cfg State.init := by
  constructor <;> intro _ _ h <;> simp [State.init] at h

theorem inv08_step (cfg : Cfg) (s : State) (e : Event) (s' : State) (hI : Inv08 cfg s) (hs : step cfg s e = some s') :
    Inv08 cfg s' := by
  obtain ⟨hB, hC⟩ := hI
  cases e with
  | add pw b c i size =>
    simp only [step, stepAdd] at hs
    repeat' split at hs
    all_goals (first | (cases hs; done) | skip)
    rename_i _ P hP _ B hBq _ C hCq hg
    obtain ⟨-, -, -, -, -, -, hfull, hnofit, hphase, -, -, hsize, -⟩ := hg
    cases hs
    refine ⟨?_, ?_⟩ <;> dsimp only
    · apply forall_upd _ _ _ hB
      have hfit := hC _ _ hCq hphase
      cases hm : C.msgs[i]? with
      | none => rw [hm] at hsize; simp at hsize
      | some m =>
        rw [hm] at hsize; simp only [Option.map_some, Option.some.injEq] at hsize
        have := allFit_elim hfit hm
        exact batchOK_push cfg B _ (hB _ _ hBq) hfull hnofit (by simpa [hsize] using this)
    · apply forall_upd _ _ _ hC
      exact hC _ C hCq
  | newBatch pw b =>
    simp only [step] at hs
    repeat' split at hs
    all_goals (first | (cases hs; done) | skip)
    cases hs
    refine ⟨?_, hC⟩; dsimp only
    exact forall_upd _ _ _ hB (batchOK_new ..)
  | batch c =>
    simp only [step] at hs
    repeat' split at hs
    all_goals (first | (cases hs; done) | skip)
    rename_i _ C hCq hg
    cases hs
    refine ⟨hB, ?_⟩; dsimp only
    apply forall_upd _ _ _ hC
    intro _; exact hg.2.2.2.2
  | _ =>
    simp only [step, stepReject, stepDetach, stepProduce, stepRet] at hs
    repeat' split at hs
    all_goals (first | (cases hs; done) | skip)
    all_goals (cases hs)
    all_goals (refine ⟨?_, ?_⟩)
    all_goals (try dsimp only [produced])
    all_goals (first | exact hB | exact hC | skip)
    all_goals (first
      | (have hB' := hB _ _ (by assumption); apply forall_upd _ _ _ hB; exact hB')
      | (have hC' := hC _ _ (by assumption); apply forall_upd _ _ _ hC; intro hp; first | cases hp | exact hC' hp)
      | (apply forall_upd _ _ _ hC; intro hp; cases hp))

theorem inv08 (cfg : Cfg) : ∀ s, Reachable cfg s → Inv08 cfg s :=
  invariant_of_step cfg (Inv08 cfg) (inv08_init cfg) (fun s e s' => inv08_step cfg s e s')

end KV.Writer
