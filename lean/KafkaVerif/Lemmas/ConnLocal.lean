/-
Lemmas/ConnLocal.lean — locality: when the rest of the current frame is on the stream, what a parser does and returns
depends on those bytes only; whatever follows the frame is left exactly where it was.  (With byte conservation this is
"in no case are bytes of one response interpreted as part of another".)
-/
import KafkaVerif.Lemmas.ConnOps

namespace KV.ConnOps
open KV KV.Reader

/-- the rest of the frame is on the stream -/
def Enough (s : RS) : Prop := s.sz ≤ s.inp.length

/-- the same state with `rest` following on the stream -/
def ext (rest : Bytes) (s : RS) : RS := ⟨s.inp ++ rest, s.sz⟩

theorem ext_enough {rest : Bytes} {s : RS} (h : Enough s) : Enough (ext rest s) := by
  simp only [Enough, ext, List.length_append] at *; omega

def RLocal {α : Type} (m : R α) : Prop := ∀ rest s, Enough s → m (ext rest s) = ((m s).1, ext rest (m s).2)
def PLocal (f : P) : Prop := ∀ rest c s, Enough s → f c (ext rest s) = ((f c s).1, ext rest (f c s).2)

theorem take_app_le (n : Nat) (a b : Bytes) (h : n ≤ a.length) : (a ++ b).take n = a.take n := by
  rw [List.take_append_of_le_length h]

theorem drop_app_le (n : Nat) (a b : Bytes) (h : n ≤ a.length) : (a ++ b).drop n = a.drop n ++ b := by
  rw [List.drop_append_of_le_length h]

theorem rlocal_peekRead (n : Nat) : RLocal (peekRead n) := by
  intro rest s he
  simp only [Enough] at he
  unfold peekRead ext
  simp only [List.length_append]
  by_cases h1 : n > s.sz
  · simp [h1]
  · have h2 : ¬ s.inp.length < n := by omega
    have h3 : ¬ s.inp.length + rest.length < n := by omega
    simp only [h1, h2, h3, ↓reduceIte]
    rw [take_app_le n _ _ (by omega), drop_app_le n _ _ (by omega)]

theorem rlocal_readInt (n : Nat) : RLocal (readInt n) := by
  intro rest s he
  have h := rlocal_peekRead n rest s he
  unfold readInt
  rw [h]
  cases hp : peekRead n s with
  | mk r s' => cases r <;> rfl

theorem rlocal_discardN (n : Int) : RLocal (discardN n) := by
  intro rest s he
  simp only [Enough] at he
  unfold discardN ext
  simp only [List.length_append]
  by_cases h1 : n ≤ s.sz
  · simp only [h1, ↓reduceIte]
    by_cases h2 : n < 0
    · simp [h2]
    · have h3 : ¬ s.inp.length < n.toNat := by omega
      have h4 : ¬ s.inp.length + rest.length < n.toNat := by omega
      simp only [h2, h3, h4, ↓reduceIte]
      rw [drop_app_le n.toNat _ _ (by omega)]
  · have h3 : ¬ s.inp.length < s.sz := by omega
    have h4 : ¬ s.inp.length + rest.length < s.sz := by omega
    simp only [h1, h3, h4, ↓reduceIte]
    rw [drop_app_le s.sz _ _ (by omega)]

theorem rlocal_readNewBytes (n : Int) : RLocal (readNewBytes n) := by
  intro rest s he
  simp only [Enough] at he
  unfold readNewBytes ext
  simp only [List.length_append]
  by_cases h1 : n ≤ 0
  · simp [h1]
  · have hm : min n.toNat s.sz ≤ s.inp.length := by omega
    have h3 : ¬ s.inp.length < min n.toNat s.sz := by omega
    have h4 : ¬ s.inp.length + rest.length < min n.toNat s.sz := by omega
    simp only [h1, h3, h4, ↓reduceIte]
    rw [take_app_le _ _ _ hm, drop_app_le _ _ _ hm]
    split <;> rfl

theorem rlocal_pure {α : Type} (a : α) : RLocal (rpure a) := by intro rest s _; rfl

theorem rlocal_readLenWith {α : Type} (k : Nat) {cb : Int → R α} (h : ∀ n, RLocal (cb n)) : RLocal (readLenWith k cb) := by
  intro rest s he
  have hi := rlocal_readInt k rest s he
  have ha := Adv_enough (conserves_readInt k s) he
  unfold readLenWith
  rw [hi]
  cases hp : readInt k s with
  | mk r s' =>
    rw [hp] at ha
    cases r with
    | error e => rfl
    | ok n =>
      have hcb := h n rest s' ha
      simp only [ext] at hcb ⊢
      by_cases hc : n > ↑s'.sz
      · simp only [hc, ↓reduceIte]
      · simp only [hc, ↓reduceIte]
        exact hcb

theorem rlocal_discardLen (k : Nat) : RLocal (discardLen k) := by
  apply rlocal_readLenWith
  intro n
  split
  · exact rlocal_pure ()
  · exact rlocal_discardN n

theorem lift_local {α : Type} {m : R α} (hm : RLocal m) (f : Ctx → α → Ctx) : PLocal (lift m f) := by
  intro rest c s he
  unfold lift
  rw [hm rest s he]
  cases hp : m s with
  | mk r s' => cases r <;> rfl

theorem iter_local {f : P} (hf : PLocal f) (ha : PAdv f) : ∀ n, PLocal (iter n f) := by
  intro n
  induction n with
  | zero => intro rest c s _; rfl
  | succ n ih =>
    intro rest c s he
    have h1 := hf rest c s he
    have h2 := Adv_enough (ha c s) he
    unfold iter
    rw [h1]
    cases hp : f c s with
    | mk r s' =>
      rw [hp] at h2
      cases r with
      | error e => rfl
      | ok c' => exact ih rest c' s' h2

theorem readInt_then_local (k : Nat) {g : Int → RS → Except Err Ctx × RS}
    (hg : ∀ n rest s, Enough s → g n (ext rest s) = ((g n s).1, ext rest (g n s).2)) (rest : Bytes) (s : RS) (he : Enough s) :
    (match readInt k (ext rest s) with
     | (.error e, s') => ((.error e : Except Err Ctx), s')
     | (.ok n, s') => g n s') =
    ((match readInt k s with
      | (.error e, s') => ((.error e : Except Err Ctx), s')
      | (.ok n, s') => g n s').1,
     ext rest (match readInt k s with
      | (.error e, s') => ((.error e : Except Err Ctx), s')
      | (.ok n, s') => g n s').2) := by
  rw [rlocal_readInt k rest s he]
  have ha := Adv_enough (conserves_readInt k s) he
  cases hp : readInt k s with
  | mk r s' =>
    rw [hp] at ha
    cases r with
    | error e => rfl
    | ok n => exact hg n rest s' ha

mutual
theorem runStep_local : ∀ st : Step, PLocal (runStep st)
  | .int n => by unfold runStep; exact lift_local (rlocal_readInt n) _
  | .err => by unfold runStep; exact lift_local (rlocal_readInt 2) _
  | .str => by unfold runStep; exact lift_local (rlocal_readLenWith 2 rlocal_readNewBytes) _
  | .bytes => by unfold runStep; exact lift_local (rlocal_readLenWith 4 rlocal_readNewBytes) _
  | .discStr => by unfold runStep; exact lift_local (rlocal_discardLen 2) _
  | .discBytes => by unfold runStep; exact lift_local (rlocal_discardLen 4) _
  | .disc n => by unfold runStep; exact lift_local (rlocal_discardN n) _
  | .arr body => by
    intro rest c s he
    unfold runStep
    exact readInt_then_local 4 (fun n rest s' he' => iter_local (runSteps_local body) (runSteps_adv body) n.toNat rest c s' he') rest s he
  | .arrB elem body => by
    intro rest c s he
    unfold runStep
    refine readInt_then_local 4 (fun n rest s' he' => ?_) rest s he
    by_cases hc : n < 0 ∨ n > (s'.sz / elem : Nat)
    · have hc' : n < 0 ∨ n > ((ext rest s').sz / elem : Nat) := hc
      rw [if_pos hc', if_pos hc]
    · have hc' : ¬ (n < 0 ∨ n > ((ext rest s').sz / elem : Nat)) := hc
      rw [if_neg hc', if_neg hc]
      exact iter_local (runSteps_local body) (runSteps_adv body) n.toNat rest c s' he'
  | .ifGe v body => by
    intro rest c s he
    unfold runStep
    split
    · exact runSteps_local body rest c s he
    · rfl
  | .failIfErr => by
    intro rest c s _
    unfold runStep
    split <;> rfl
  | .expect1 => by
    intro rest c s he
    unfold runStep
    exact readInt_then_local 4 (fun n rest s' _ => by split <;> rfl) rest s he
  | .hwm => by unfold runStep; exact lift_local (rlocal_readInt 8) _
  | .setSizeRead => by unfold runStep; exact lift_local (rlocal_readInt 4) _
  | .setSizeCheck => by
    intro rest c s _
    unfold runStep
    by_cases hc : (s.sz : Int) = c.setSize
    · simp [ext, hc]
    · simp [ext, hc]
  | .abortedTxs => by
    intro rest c s he
    unfold runStep
    refine readInt_then_local 4 (fun n rest s' he' => ?_) rest s he
    split
    · rfl
    · split
      · rfl
      · refine iter_local (fun rest c s he => ?_) (fun c s => ?_) n.toNat rest c s' he'
        · exact readInt_then_local 8 (fun _ rest s'' he'' => lift_local (rlocal_readInt 8) _ rest c s'' he'') rest s he
        · exact readInt_then_adv 8 (fun _ s'' => lift_adv (conserves_readInt 8) _ c s'') s
theorem runSteps_local : ∀ ps : List Step, PLocal (runSteps ps)
  | [] => by intro rest c s _; unfold runSteps; rfl
  | st :: rest' => by
    intro rest c s he
    have h1 := runStep_local st rest c s he
    have h2 := Adv_enough (runStep_adv st c s) he
    unfold runSteps
    rw [h1]
    cases hp : runStep st c s with
    | mk r s' =>
      rw [hp] at h2
      cases r with
      | error e => rfl
      | ok c' => exact runSteps_local rest' rest c' s' h2
end

/-- one exchange: the outcome and the bytes consumed depend on the frame only -/
theorem opRead_local (o : OpSpec) (v : Nat) (topic : Bytes) (rest : Bytes) (s : RS) (he : Enough s) :
    opRead o v topic (ext rest s) = ((opRead o v topic s).1, ext rest (opRead o v topic s).2) := by
  have h1 := runSteps_local (o.parse v) rest { ver := v } s he
  have h2 := Adv_enough (runSteps_adv (o.parse v) { ver := v } s) he
  unfold opRead
  rw [h1]
  cases hp : runSteps (o.parse v) { ver := v } s with
  | mk r s1 =>
    rw [hp] at h2
    cases r with
    | ok c =>
      by_cases hz : s1.sz = 0
      · cases hpost : o.post.eval topic c <;> simp [ext, hz, hpost]
      · cases hez : o.expectZero <;> cases hpost : o.post.eval topic c <;> simp [ext, hz, hez, hpost]
    | error e =>
      cases e with
      | kafka k =>
        have hd := rlocal_discardN (↑s1.sz) rest s1 h2
        by_cases hz : s1.sz = 0
        · simp [ext, hz]
        · have hpos : 0 < s1.sz := by omega
          cases hdr : o.drain
          · simp [ext, hdr]
          · simp only [ext, Bool.true_and, gt_iff_lt, hpos, decide_true, ↓reduceIte] at hd ⊢
            rw [hd]
            cases hq : discardN (↑s1.sz) s1 with
            | mk r2 s2 => cases r2 <;> rfl
      | _ => rfl

/-! ### fetch: locality for every message-set reader that is itself local -/

/-- the message-set reader looks at the bytes of its own frame only -/
def Body.Local (b : Body) : Prop :=
  (∀ rest s, Enough s → b.first (ext rest s) = ((b.first s).1, ext rest (b.first s).2)) ∧
  (∀ rest s, Enough s → b.rest (ext rest s) = ((b.rest s).1, ext rest (b.rest s).2))

theorem drainKafka_local (fixed : Bool) (k : Int) (rest : Bytes) (s : RS) (he : Enough s) :
    drainKafka fixed k (ext rest s) = ((drainKafka fixed k s).1, ext rest (drainKafka fixed k s).2) := by
  have hd := rlocal_discardN (↑s.sz) rest s he
  unfold drainKafka
  by_cases hc : (fixed && decide (s.sz > 0)) = true
  · have hc' : (fixed && decide ((ext rest s).sz > 0)) = true := hc
    rw [if_pos hc', if_pos hc]
    have : ((ext rest s).sz : Int) = (s.sz : Int) := rfl
    rw [this, hd]
    cases hq : discardN (↑s.sz) s with
    | mk r2 s2 => cases r2 <;> rfl
  · have hc' : ¬ (fixed && decide ((ext rest s).sz > 0)) = true := hc
    rw [if_neg hc', if_neg hc]

/-- discard-the-rest, as used at the end of a batch -/
theorem discardRest_local (rest : Bytes) (s : RS) (he : Enough s) :
    discardN (↑(ext rest s).sz) (ext rest s) = ((discardN (↑s.sz) s).1, ext rest (discardN (↑s.sz) s).2) :=
  rlocal_discardN (↑s.sz) rest s he

theorem fetchRead_local (fixed : Bool) (v : Nat) (offset : Int) (b : Body) (hc : b.Conserves) (hl : b.Local)
    (rest : Bytes) (s : RS) (he : Enough s) :
    fetchRead fixed v offset b (ext rest s) = ((fetchRead fixed v offset b s).1, ext rest (fetchRead fixed v offset b s).2) := by
  have h1 := runSteps_local (fetchHeader v) rest { ver := v } s he
  have h2 := Adv_enough (runSteps_adv (fetchHeader v) { ver := v } s) he
  unfold fetchRead
  rw [h1]
  cases hp : runSteps (fetchHeader v) { ver := v } s with
  | mk r s1 =>
    rw [hp] at h2
    cases r with
    | error e =>
      cases e with
      | kafka k => exact drainKafka_local fixed k rest s1 h2
      | _ => rfl
    | ok c =>
      simp only []
      by_cases hw : c.hwm = offset
      · rw [if_pos hw, if_pos hw]; exact drainKafka_local fixed 7 rest s1 h2
      · rw [if_neg hw, if_neg hw]
        have hf := hl.1 rest s1 h2
        have h3 := Adv_enough (hc.1 s1) h2
        rw [hf]
        cases hq : b.first s1 with
        | mk r1 s2 =>
          rw [hq] at h3
          cases r1 with
          | error e => cases e <;> rfl
          | ok u =>
            simp only []
            have hr := hl.2 rest s2 h3
            have h4 := Adv_enough (hc.2 s2) h3
            rw [hr]
            cases hq2 : b.rest s2 with
            | mk e3 s3 =>
              rw [hq2] at h4
              have hd := discardRest_local rest s3 h4
              cases e3 with
              | shortRead =>
                simp only []
                rw [hd]
                cases hq3 : discardN (↑s3.sz) s3 with
                | mk r4 s4 => cases r4 <;> rfl
              | kafka k =>
                simp only []
                rw [hd]
                cases hq3 : discardN (↑s3.sz) s3 with
                | mk r4 s4 => cases r4 <;> cases fixed <;> rfl
              | _ => rfl

end KV.ConnOps
