/-
Lemmas/Lockset.lean — helper lemmas for Props/C10.lean: the lock state machine of Model/Lockset.lean.
-/
import KafkaVerif.Model.Lockset

namespace KV.Lockset

/-- RWMutex invariant: a writer excludes readers -/
def Inv (s : LState) : Prop := ∀ m, (s m).writer ≠ none → (s m).readers = []

theorem inv_init : Inv LState.init := by
  intro m h; simp [LState.init] at h

theorem set_same (s : LState) (m : Mutex) (v : MState) : (s.set m v) m = v := by simp [LState.set]

theorem set_other (s : LState) {m x : Mutex} (v : MState) (h : x ≠ m) : (s.set m v) x = s x := by
  simp [LState.set, h]

theorem inv_set {s : LState} (hi : Inv s) (m : Mutex) (v : MState) (hv : v.writer ≠ none → v.readers = []) :
    Inv (s.set m v) := by
  intro x hx
  by_cases hxm : x = m
  · subst hxm; rw [set_same] at hx ⊢; exact hv hx
  · rw [set_other _ _ hxm] at hx ⊢; exact hi x hx

theorem inv_step {s s' : LState} {e : Ev} (hi : Inv s) (h : stepL s e = some s') : Inv s' := by
  cases e with
  | acq t m mode =>
    cases mode with
    | excl =>
      simp only [stepL] at h
      split at h
      · cases h; exact inv_set hi m _ (fun _ => rfl)
      · cases h
    | shared =>
      simp only [stepL] at h
      split at h
      · rename_i hw
        cases h; exact inv_set hi m _ (fun hx => absurd hw hx)
      · cases h
  | rel t m mode =>
    cases mode with
    | excl =>
      simp only [stepL] at h
      split at h
      · cases h; exact inv_set hi m _ (fun hx => absurd rfl hx)
      · cases h
    | shared =>
      simp only [stepL] at h
      split at h
      · rename_i hm
        cases h
        refine inv_set hi m _ (fun hx => ?_)
        have := hi m hx
        rw [this] at hm; cases hm
      · cases h
  | acc t a => simp only [stepL] at h; cases h; exact hi
  | spawn t c => simp only [stepL] at h; cases h; exact hi
  | signal t c => simp only [stepL] at h; cases h; exact hi
  | wait t c => simp only [stepL] at h; cases h; exact hi
  | assume t m md => simp only [stepL] at h; cases h; exact hi

theorem inv_run {es : List Ev} {s s' : LState} (hi : Inv s) (h : runL s es = some s') : Inv s' := by
  induction es generalizing s with
  | nil => simp only [runL] at h; cases h; exact hi
  | cons e es ih =>
    simp only [runL] at h
    cases hs : stepL s e with
    | none => rw [hs] at h; cases h
    | some s₁ => rw [hs] at h; exact ih (inv_step hi hs) h

theorem runL_append (s : LState) (xs ys : List Ev) :
    runL s (xs ++ ys) = (runL s xs).bind fun s' => runL s' ys := by
  induction xs generalizing s with
  | nil => simp [runL]
  | cons e es ih =>
    simp only [List.cons_append, runL]
    cases stepL s e with
    | none => rfl
    | some s₁ => simp only [Option.bind]; exact ih s₁

/-- `holdsIn` unfolded per mode -/
theorem holdsIn_excl (s : LState) (t : Tid) (m : Mutex) : holdsIn s t ⟨m, .excl⟩ ↔ (s m).writer = some t := Iff.rfl
theorem holdsIn_shared (s : LState) (t : Tid) (m : Mutex) : holdsIn s t ⟨m, .shared⟩ ↔ t ∈ (s m).readers := Iff.rfl

/-- a hold is only lost by the holder's own release in that mode -/
theorem hold_kept {s s' : LState} {e : Ev} {t : Tid} {m : Mutex} {mode : Mode}
    (h : stepL s e = some s') (hh : holdsIn s t ⟨m, mode⟩) (hne : e ≠ .rel t m mode) :
    holdsIn s' t ⟨m, mode⟩ := by
  cases e with
  | acc t' a => simp only [stepL] at h; cases h; exact hh
  | spawn t' c => simp only [stepL] at h; cases h; exact hh
  | signal t' c => simp only [stepL] at h; cases h; exact hh
  | wait t' c => simp only [stepL] at h; cases h; exact hh
  | assume t' m' md => simp only [stepL] at h; cases h; exact hh
  | acq t' m' mode' =>
    by_cases hm : m = m'
    · subst hm
      cases mode' with
      | excl =>
        simp only [stepL] at h
        split at h
        · rename_i hc
          cases h
          cases mode with
          | excl => rw [holdsIn_excl] at hh; rw [hc.1] at hh; cases hh
          | shared => rw [holdsIn_shared] at hh; rw [hc.2] at hh; cases hh
        · cases h
      | shared =>
        simp only [stepL] at h
        split at h
        · rename_i hc
          cases h
          cases mode with
          | excl => rw [holdsIn_excl] at hh; rw [hc] at hh; cases hh
          | shared =>
            rw [holdsIn_shared] at hh ⊢; rw [set_same]; exact List.mem_cons_of_mem _ hh
        · cases h
    · have hs : s' m = s m := by
        cases mode' <;> simp only [stepL] at h <;> split at h <;> first | (cases h; exact set_other _ _ hm) | cases h
      cases mode with
      | excl => rw [holdsIn_excl] at hh ⊢; rw [hs]; exact hh
      | shared => rw [holdsIn_shared] at hh ⊢; rw [hs]; exact hh
  | rel t' m' mode' =>
    by_cases hm : m = m'
    · subst hm
      cases mode' with
      | excl =>
        simp only [stepL] at h
        split at h
        · rename_i hc
          cases h
          cases mode with
          | excl =>
            rw [holdsIn_excl] at hh; rw [hc] at hh
            have : t' = t := by cases hh; rfl
            subst this; exact absurd rfl hne
          | shared => rw [holdsIn_shared] at hh ⊢; rw [set_same]; exact hh
        · cases h
      | shared =>
        simp only [stepL] at h
        split at h
        · cases h
          cases mode with
          | excl => rw [holdsIn_excl] at hh ⊢; rw [set_same]; exact hh
          | shared =>
            rw [holdsIn_shared] at hh ⊢; rw [set_same]
            have hne' : t ≠ t' := by
              intro heq; subst heq; exact hne rfl
            exact (List.mem_erase_of_ne hne').2 hh
        · cases h
    · have hs : s' m = s m := by
        cases mode' <;> simp only [stepL] at h <;> split at h <;> first | (cases h; exact set_other _ _ hm) | cases h
      cases mode with
      | excl => rw [holdsIn_excl] at hh ⊢; rw [hs]; exact hh
      | shared => rw [holdsIn_shared] at hh ⊢; rw [hs]; exact hh

/-- a hold is only gained by the holder's own acquire in that mode -/
theorem hold_gained {s s' : LState} {e : Ev} {u : Tid} {m : Mutex} {mode : Mode}
    (h : stepL s e = some s') (hn : ¬ holdsIn s u ⟨m, mode⟩) (hh : holdsIn s' u ⟨m, mode⟩) :
    e = .acq u m mode := by
  cases e with
  | acc t' a => simp only [stepL] at h; cases h; exact absurd hh hn
  | spawn t' c => simp only [stepL] at h; cases h; exact absurd hh hn
  | signal t' c => simp only [stepL] at h; cases h; exact absurd hh hn
  | wait t' c => simp only [stepL] at h; cases h; exact absurd hh hn
  | assume t' m' md => simp only [stepL] at h; cases h; exact absurd hh hn
  | acq t' m' mode' =>
    by_cases hm : m = m'
    · subst hm
      cases mode' with
      | excl =>
        simp only [stepL] at h
        split at h
        · cases h
          cases mode with
          | excl =>
            rw [holdsIn_excl, set_same] at hh
            have : t' = u := by cases hh; rfl
            subst this; rfl
          | shared => rw [holdsIn_shared, set_same] at hh; cases hh
        · cases h
      | shared =>
        simp only [stepL] at h
        split at h
        · cases h
          cases mode with
          | excl => rw [holdsIn_excl] at hn; rw [holdsIn_excl, set_same] at hh; exact absurd hh hn
          | shared =>
            rw [holdsIn_shared] at hn; rw [holdsIn_shared, set_same] at hh
            rcases List.mem_cons.1 hh with heq | hmem
            · subst heq; rfl
            · exact absurd hmem hn
        · cases h
    · have hs : s' m = s m := by
        cases mode' <;> simp only [stepL] at h <;> split at h <;> first | (cases h; exact set_other _ _ hm) | cases h
      exfalso; apply hn
      cases mode with
      | excl => rw [holdsIn_excl] at hh ⊢; rw [← hs]; exact hh
      | shared => rw [holdsIn_shared] at hh ⊢; rw [← hs]; exact hh
  | rel t' m' mode' =>
    exfalso; apply hn
    by_cases hm : m = m'
    · subst hm
      cases mode' with
      | excl =>
        simp only [stepL] at h
        split at h
        · cases h
          cases mode with
          | excl => rw [holdsIn_excl, set_same] at hh; cases hh
          | shared => rw [holdsIn_shared, set_same] at hh; rw [holdsIn_shared]; exact hh
        · cases h
      | shared =>
        simp only [stepL] at h
        split at h
        · cases h
          cases mode with
          | excl => rw [holdsIn_excl, set_same] at hh; rw [holdsIn_excl]; exact hh
          | shared => rw [holdsIn_shared, set_same] at hh; rw [holdsIn_shared]; exact List.mem_of_mem_erase hh
        · cases h
    · have hs : s' m = s m := by
        cases mode' <;> simp only [stepL] at h <;> split at h <;> first | (cases h; exact set_other _ _ hm) | cases h
      cases mode with
      | excl => rw [holdsIn_excl] at hh ⊢; rw [← hs]; exact hh
      | shared => rw [holdsIn_shared] at hh ⊢; rw [← hs]; exact hh

/-- two different threads cannot hold the same mutex at once if one of them holds it exclusively -/
theorem exclusive {s : LState} (hi : Inv s) {t u : Tid} {m : Mutex} {m₁ m₂ : Mode}
    (h₁ : holdsIn s t ⟨m, m₁⟩) (h₂ : holdsIn s u ⟨m, m₂⟩) (hx : m₁ = .excl ∨ m₂ = .excl) : t = u := by
  cases m₁ <;> cases m₂
  · rw [holdsIn_excl] at h₁ h₂; rw [h₁] at h₂; cases h₂; rfl
  · rw [holdsIn_excl] at h₁; rw [holdsIn_shared] at h₂
    have := hi m (by rw [h₁]; exact fun h => nomatch h)
    rw [this] at h₂; cases h₂
  · rw [holdsIn_shared] at h₁; rw [holdsIn_excl] at h₂
    have := hi m (by rw [h₂]; exact fun h => nomatch h)
    rw [this] at h₁; cases h₁
  · rcases hx with h | h <;> cases h

/-- if `u` holds at the end of a run what it did not hold at the start, the run contains its acquire -/
theorem acquire_in_run {es : List Ev} {s s' : LState} {u : Tid} {m : Mutex} {mode : Mode}
    (h : runL s es = some s') (hn : ¬ holdsIn s u ⟨m, mode⟩) (hh : holdsIn s' u ⟨m, mode⟩) :
    ∃ l : Nat, es[l]? = some (Ev.acq u m mode) := by
  induction es generalizing s with
  | nil => simp only [runL] at h; cases h; exact absurd hh hn
  | cons e es ih =>
    simp only [runL] at h
    cases hs : stepL s e with
    | none => rw [hs] at h; cases h
    | some s₁ =>
      rw [hs] at h
      by_cases hg : holdsIn s₁ u ⟨m, mode⟩
      · exact ⟨0, by rw [hold_gained hs hn hg]; rfl⟩
      · obtain ⟨l, hl⟩ := ih h hg
        exact ⟨l + 1, by simpa using hl⟩

/-- The core of the lockset argument: `t` holds `m` at the start of a run, a different thread `u`
    holds it at the end, one of the two exclusively: then the run contains `t`'s release followed by
    `u`'s acquire, one of the two in exclusive mode (so the pair is a synchronisation edge). -/
theorem release_then_acquire {es : List Ev} {s s' : LState} {t u : Tid} {m : Mutex} {m₁ m₂ : Mode}
    (hi : Inv s) (h : runL s es = some s') (h₁ : holdsIn s t ⟨m, m₁⟩) (h₂ : holdsIn s' u ⟨m, m₂⟩)
    (hne : t ≠ u) (hx : m₁ = .excl ∨ m₂ = .excl) :
    ∃ k l : Nat, k < l ∧ es[k]? = some (Ev.rel t m m₁) ∧ es[l]? = some (Ev.acq u m m₂) := by
  induction es generalizing s with
  | nil => simp only [runL] at h; cases h; exact absurd (exclusive hi h₁ h₂ hx) hne
  | cons e es ih =>
    simp only [runL] at h
    cases hs : stepL s e with
    | none => rw [hs] at h; cases h
    | some s₁ =>
      rw [hs] at h
      by_cases he : e = .rel t m m₁
      · -- the release is here; `u` does not hold `m` now, so its acquire is later
        have hnu : ¬ holdsIn s u ⟨m, m₂⟩ := fun hu => hne (exclusive hi h₁ hu hx)
        have hnu₁ : ¬ holdsIn s₁ u ⟨m, m₂⟩ := by
          intro hu
          have := hold_gained hs hnu hu
          rw [he] at this; cases this
        obtain ⟨l, hl⟩ := acquire_in_run h hnu₁ h₂
        exact ⟨0, l + 1, Nat.succ_pos _, by rw [he]; rfl, by simpa using hl⟩
      · obtain ⟨k, l, hkl, hk, hl⟩ := ih (inv_step hi hs) h (hold_kept hs h₁ he)
        exact ⟨k + 1, l + 1, Nat.succ_lt_succ hkl, by simpa using hk, by simpa using hl⟩

theorem holdsB_sound {s : LState} {t : Tid} {h : Hold} (hb : holdsB s t h = true) : holdsIn s t h := by
  unfold holdsB at hb
  unfold holdsIn
  cases hm : h.mode <;> rw [hm] at hb <;> simp only at hb ⊢
  · exact eq_of_beq hb
  · exact List.contains_iff_mem.1 hb

theorem respectsB_sound {tbl : List Access} {tr : List Ev} (h : respectsB tbl tr = true) : Respects tbl tr := by
  intro i t a hi
  have hlt : i < tr.length := (List.getElem?_eq_some_iff.1 hi).1
  unfold respectsB at h
  rw [List.all_eq_true] at h
  have := h i (List.mem_range.2 hlt)
  rw [hi] at this
  simp only [Bool.and_eq_true, List.all_eq_true] at this
  refine ⟨List.contains_iff_mem.1 this.1, fun hh hmem => ?_⟩
  have h2 := this.2 hh hmem
  cases hr : runL LState.init (tr.take i) with
  | none => rw [hr] at h2; cases h2
  | some s => rw [hr] at h2; exact Or.inl ⟨s, hr, holdsB_sound h2⟩

/-- an execution without release / go / signal events: no synchronisation at all -/
def Quiet (tr : List Ev) : Prop :=
  ∀ (i : Nat) e, tr[i]? = some e → (∀ t m md, e ≠ .rel t m md) ∧ (∀ t c, e ≠ .spawn t c) ∧ (∀ t c, e ≠ .signal t c)

/-- in such an execution happens-before never relates events of different goroutines -/
theorem hb_same_tid_of_quiet {tr : List Ev} (hq : Quiet tr) {i j : Nat} (h : HB tr i j) :
    ∃ a b, tr[i]? = some a ∧ tr[j]? = some b ∧ a.tid = b.tid := by
  induction h with
  | po _ hi hj ht => exact ⟨_, _, hi, hj, ht⟩
  | sync _ hi _ _ => exact absurd rfl ((hq _ _ hi).1 _ _ _)
  | go _ hi _ _ => exact absurd rfl ((hq _ _ hi).2.1 _ _)
  | chan _ hi _ => exact absurd rfl ((hq _ _ hi).2.2 _ _)
  | trans _ _ ih₁ ih₂ =>
    obtain ⟨a, b, ha, hb, hab⟩ := ih₁
    obtain ⟨b', c, hb', hc, hbc⟩ := ih₂
    rw [hb] at hb'; cases hb'
    exact ⟨a, c, ha, hc, hab.trans hbc⟩

/-! ### the grouped table -/

theorem keysInc_head_lt {g : Group} {gs : List Group} (h : keysInc (g :: gs) = true) :
    ∀ g' ∈ gs, g.field < g'.field := by
  induction gs generalizing g with
  | nil => intro g' hg'; cases hg'
  | cons g₂ rest ih =>
    simp only [keysInc, Bool.and_eq_true, decide_eq_true_eq] at h
    intro g' hg'
    rcases List.mem_cons.1 hg' with rfl | hr
    · exact h.1
    · exact Nat.lt_trans h.1 (ih h.2 g' hr)

theorem keysInc_tail {g : Group} {gs : List Group} (h : keysInc (g :: gs) = true) : keysInc gs = true := by
  cases gs with
  | nil => rfl
  | cons g₂ rest =>
    simp only [keysInc, Bool.and_eq_true] at h
    exact h.2

theorem pairOk_of_field_ne {a b : Access} (h : a.field ≠ b.field) : pairOk a b = true := by
  have : (a.field == b.field) = false := by simpa using h
  simp [pairOk, conflict, this]

theorem raceFree_mem {tbl : List Access} (h : raceFree tbl = true) {a b : Access} (ha : a ∈ tbl) (hb : b ∈ tbl) :
    pairOk a b = true := by
  unfold raceFree at h
  rw [List.all_eq_true] at h
  have := h a ha
  rw [List.all_eq_true] at this
  exact this b hb

theorem groupsOk_pair {gs : List Group} (h : groupsOk gs = true) :
    ∀ a ∈ flatten gs, ∀ b ∈ flatten gs, pairOk a b = true := by
  induction gs with
  | nil => intro a ha; simp [flatten] at ha
  | cons g rest ih =>
    have hsplit : groupsOk rest = true ∧ raceFree g.rows = true ∧ (∀ a ∈ g.rows, a.field = g.field) ∧
        (∀ g' ∈ rest, (∀ a ∈ g'.rows, a.field = g'.field) ∧ g.field < g'.field) := by
      unfold groupsOk at h
      simp only [List.all_cons, Bool.and_eq_true, List.all_eq_true, beq_iff_eq] at h
      obtain ⟨⟨⟨hf, hr⟩, hrest⟩, hk⟩ := h
      refine ⟨?_, hr, hf, ?_⟩
      · unfold groupsOk
        simp only [Bool.and_eq_true, List.all_eq_true, beq_iff_eq]
        exact ⟨hrest, keysInc_tail hk⟩
      · intro g' hg'
        exact ⟨(hrest g' hg').1, keysInc_head_lt hk g' hg'⟩
    obtain ⟨hrest, hrf, hgf, hlt⟩ := hsplit
    have cross : ∀ a ∈ g.rows, ∀ b ∈ flatten rest, a.field ≠ b.field := by
      intro a ha b hb
      simp only [flatten, List.mem_flatMap] at hb
      obtain ⟨g', hg', hbg'⟩ := hb
      have h1 := hgf a ha
      have h2 := (hlt g' hg').1 b hbg'
      have h3 : g.field < g'.field := (hlt g' hg').2
      intro heq
      rw [h1, h2] at heq
      exact absurd heq (Nat.ne_of_lt h3)
    intro a ha b hb
    have ha' : a ∈ g.rows ∨ a ∈ flatten rest := by
      simpa [flatten, List.flatMap_cons] using ha
    have hb' : b ∈ g.rows ∨ b ∈ flatten rest := by
      simpa [flatten, List.flatMap_cons] using hb
    rcases ha' with ha' | ha' <;> rcases hb' with hb' | hb'
    · exact raceFree_mem hrf ha' hb'
    · exact pairOk_of_field_ne (cross a ha' b hb')
    · exact pairOk_of_field_ne (fun h => cross b hb' a ha' h.symm)
    · exact ih hrest a ha' b hb'

/-- the grouped check implies the flat lockset discipline -/
theorem groupsOk_raceFree {gs : List Group} (h : groupsOk gs = true) : raceFree (flatten gs) = true := by
  unfold raceFree
  rw [List.all_eq_true]
  intro a ha
  rw [List.all_eq_true]
  intro b hb
  exact groupsOk_pair h a ha b hb

end KV.Lockset
