/-
Lemmas/ReaderCloseSystem.lean — Reader.Close over its components (Model/ReaderCloseSystem.lean): measure, invariant, progress.
-/
import KafkaVerif.Model.ReaderCloseSystem
import KafkaVerif.Lemmas.FetcherLife
import KafkaVerif.Lemmas.GroupRunStruct
namespace KV.ReaderCloseSystem
open KV

/-- work left after the mark -/
def mu (c : Group.Cfg) (s : State) : Nat :=
  (s.fetchers.map FetcherLife.rank).sum + (match s.group with | some g => Group.runMu c g | none => 0) +
  (if s.msgsClosed then 0 else 1) + (3 - s.close)

def internal : Event → Bool
  | .closeMsgs | .closeReturn => true
  | .fetcher _ e => e.control
  | .group e => e.runLoop
  | _ => false

theorem sum_set_lt (l : List FetcherLife.State) (i : Nat) (f f' : FetcherLife.State) (hi : l[i]? = some f)
    (h : FetcherLife.rank f' < FetcherLife.rank f) :
    ((l.set i f').map FetcherLife.rank).sum < (l.map FetcherLife.rank).sum := by
  induction l generalizing i with
  | nil => simp at hi
  | cons x xs ih =>
    cases i with
    | zero => simp at hi; subst hi; simp; omega
    | succ j =>
      simp only [List.getElem?_cons_succ] at hi
      have := ih j hi
      simp only [List.set_cons_succ, List.map_cons, List.sum_cons]
      omega

theorem sum_set_eq (l : List FetcherLife.State) (i : Nat) (f : FetcherLife.State) (hi : l[i]? = some f) :
    l.set i f = l := by
  induction l generalizing i with
  | nil => simp
  | cons x xs ih =>
    cases i with
    | zero => simp at hi; subst hi; simp
    | succ j => simp only [List.getElem?_cons_succ] at hi; simp [ih j hi]

/-- a fetcher step never un-cancels -/
theorem fetcher_keeps_cancelled (f f' : FetcherLife.State) (e : FetcherLife.Event) (hc : f.cancelled = true)
    (h : FetcherLife.step f e = some f') : f'.cancelled = true := by
  obtain ⟨pc, co, ca, sa⟩ := f
  simp only at hc; subst hc
  cases e <;> simp only [FetcherLife.step] at h
  case ctxCancel => injection h with h; subst h; rfl
  case init ok => split at h <;> simp at h; subst h; cases ok <;> rfl
  case read c => split at h <;> simp at h; subst h; cases c <;> rfl
  case offsets ok => split at h <;> simp at h; subst h; cases ok <;> rfl
  all_goals (split at h <;> simp at h; subst h; rfl)

/-- invariant: after the mark every fetcher's context is done, the group is closed, and the group component is a
reachable state of Model/GroupRun -/
structure Inv (c : Group.Cfg) (s : State) : Prop where
  canc : s.closed = true → ∀ f ∈ s.fetchers, f.cancelled = true
  grp : ∀ g, s.group = some g → Group.Reachable c g ∧ (s.closed = true → g.closedCG = true)
  mark : 2 ≤ s.close → s.closed = true
  le3 : s.close ≤ 3
  msgs : s.msgsClosed = true → 2 ≤ s.close

theorem afterLeave_closedCG (s : Group.St) (a : Group.After) : (Group.afterLeave s a).closedCG = s.closedCG := by
  cases a <;> rfl

theorem coordFail_closedCG (s : Group.St) (lv : Option Group.After) (e : Group.Err) :
    (Group.coordFail s lv e).closedCG = s.closedCG := by
  cases lv with
  | none => rfl
  | some a => exact afterLeave_closedCG _ a

theorem closedCG_mono (c : Group.Cfg) (g g' : Group.St) (e : Group.Ev) (h : Group.step c g e = some g')
    (hc : g.closedCG = true) : g'.closedCG = true := by
  have keep : ∀ gi f, Group.onCur g gi f = some g' → g'.closedCG = true := by
    intro gi f hf
    obtain ⟨cg, rfl⟩ := Group.onCur_eq g g' gi f hf
    exact hc
  cases e <;> simp only [Group.step] at h
  case hbCall gi gid m => exact keep _ _ h
  case hbRet gi e => exact keep _ _ h
  case hbExit gi => exact keep _ _ h
  case watchCall gi t => exact keep _ _ h
  case watchParts gi t n => exact keep _ _ h
  case watchErr gi t e => exact keep _ _ h
  case watchExit gi t => exact keep _ _ h
  case fnExit gi cbm l => exact keep _ _ h
  case uRet gi acc =>
    split at h
    · exact keep _ _ h
    · split at h <;> simp at h; subst h; exact hc
  case uCtx gi =>
    split at h
    · exact keep _ _ h
    · split at h <;> simp at h; subst h; exact hc
  case gStart gi acc =>
    split at h
    · split at h <;> (simp only [Option.map_eq_some_iff] at h; obtain ⟨cg, _, rfl⟩ := h; exact hc)
    · split at h <;> simp at h; subst h; exact hc
  all_goals (repeat' split at h)
  all_goals (first | (simp at h; done) | skip)
  all_goals (try (simp only [Option.some.injEq] at h))
  all_goals (try subst h)
  all_goals (try (exact hc))
  all_goals (try (rw [coordFail_closedCG]; exact hc))
  all_goals (try (rw [afterLeave_closedCG]; exact hc))
  all_goals (try (cases ‹Option Group.After› <;> simp_all [Group.coordFail, Group.afterLeave]; done))
  all_goals (try (simp_all [Group.coordFail, Group.afterLeave]; done))

theorem inv_init (c : Group.Cfg) (grp : Bool) : Inv c { group := if grp then some {} else none } := by
  refine ⟨by intro h; simp at h, ?_, by intro h; simp at h, by simp, by intro h; simp at h⟩
  intro g hg
  cases grp <;> simp at hg
  subst hg
  exact ⟨.init, by intro h; simp at h⟩

theorem inv_step (c : Group.Cfg) (s s' : State) (e : Event) (hi : Inv c s) (h : step c s e = some s') : Inv c s' := by
  obtain ⟨h1, h2, h3, h4, h5⟩ := hi
  cases e <;> simp only [step] at h
  case closeBegin =>
    simp only [Option.ite_none_right_eq_some, Option.some.injEq] at h
    obtain ⟨hc, rfl⟩ := h
    exact ⟨h1, h2, by simp, by simp, by intro hm; have := h5 hm; omega⟩
  case closeMark =>
    simp only [Option.ite_none_right_eq_some, Option.some.injEq] at h
    obtain ⟨hc, rfl⟩ := h
    refine ⟨?_, ?_, by simp, by simp, by simp⟩
    · intro _ f hf
      simp only [List.mem_map] at hf
      obtain ⟨f0, _, rfl⟩ := hf
      rfl
    · intro g hg
      simp only [Option.map_eq_some_iff] at hg
      obtain ⟨g0, hg0, rfl⟩ := hg
      exact ⟨.step .closeCall (h2 g0 hg0).1 (by simp [Group.step]), fun _ => rfl⟩
  case closeMsgs =>
    simp only [Option.ite_none_right_eq_some, Option.some.injEq, Bool.and_eq_true, decide_eq_true_eq] at h
    obtain ⟨hc, rfl⟩ := h
    exact ⟨h1, h2, h3, h4, fun _ => by simp; omega⟩
  case closeReturn =>
    simp only [Option.ite_none_right_eq_some, Option.some.injEq, Bool.and_eq_true, decide_eq_true_eq] at h
    obtain ⟨hc, rfl⟩ := h
    exact ⟨fun hcl => h1 hcl, h2, fun _ => h3 (by omega), by simp, fun _ => by simp⟩
  case fetcherStart =>
    simp only [Option.ite_none_right_eq_some, Option.some.injEq, Bool.not_eq_true'] at h
    obtain ⟨hc, rfl⟩ := h
    exact ⟨fun hcl => by simp [hc] at hcl, h2, h3, h4, h5⟩
  case fetcher i e =>
    cases hf : s.fetchers[i]? with
    | none => simp [hf] at h
    | some f =>
      simp only [hf] at h
      split at h
      · simp at h
      · simp only [Option.map_eq_some_iff] at h
        obtain ⟨f', hs, rfl⟩ := h
        refine ⟨?_, h2, h3, h4, h5⟩
        intro hcl x hx
        rcases List.mem_or_eq_of_mem_set hx with hx | hx
        · exact h1 hcl x hx
        · subst hx
          have hfm : f ∈ s.fetchers := List.mem_of_getElem? hf
          exact fetcher_keeps_cancelled f x e (h1 hcl f hfm) hs
  case group e =>
    cases hg : s.group with
    | none => simp [hg] at h
    | some g =>
      simp only [hg] at h
      split at h
      · simp at h
      · simp only [Option.map_eq_some_iff] at h
        obtain ⟨g', hs, rfl⟩ := h
        refine ⟨h1, ?_, h3, h4, h5⟩
        intro g2 hg2
        simp only [Option.some.injEq] at hg2
        subst hg2
        have := h2 g hg
        exact ⟨.step e this.1 hs, fun hcl => closedCG_mono c g _ e hs (this.2 hcl)⟩

/-- every internal step after the mark lowers `mu` -/
theorem mu_decreases (c : Group.Cfg) (s s' : State) (e : Event) (hi : Inv c s) (hm : s.close = 2)
    (he : internal e = true) (h : step c s e = some s') : mu c s' < mu c s := by
  have hcl := hi.mark (by omega)
  cases e <;> simp only [internal] at he <;> try contradiction
  case closeMsgs =>
    simp only [step, Option.ite_none_right_eq_some, Option.some.injEq, Bool.and_eq_true, decide_eq_true_eq,
      Bool.not_eq_true'] at h
    obtain ⟨⟨_, hmc⟩, rfl⟩ := h
    simp [mu, hmc]
  case closeReturn =>
    simp only [step, Option.ite_none_right_eq_some, Option.some.injEq, Bool.and_eq_true, decide_eq_true_eq] at h
    obtain ⟨⟨hc2, _⟩, rfl⟩ := h
    simp only [mu, hc2]; omega
  case fetcher i fe =>
    simp only [step] at h
    cases hf : s.fetchers[i]? with
    | none => simp [hf] at h
    | some f =>
      simp only [hf] at h
      split at h
      · simp at h
      · simp only [Option.map_eq_some_iff] at h
        obtain ⟨f', hs, rfl⟩ := h
        have hfm : f ∈ s.fetchers := List.mem_of_getElem? hf
        have hr := (FetcherLife.terminates_after_cancel f f' fe (hi.canc hcl f hfm) he hs).1
        have := sum_set_lt s.fetchers i f f' hf hr
        simp only [mu]; omega
  case group ge =>
    simp only [step] at h
    cases hg : s.group with
    | none => simp [hg] at h
    | some g =>
      simp only [hg] at h
      split at h
      · simp at h
      · simp only [Option.map_eq_some_iff] at h
        obtain ⟨g', hs, rfl⟩ := h
        have := Group.runMu_decreases c g g' ge he hs
        simp only [mu, hg]; omega

/-- while Close waits after the mark, a step of a component (a fetcher's control step, a step of the group's `run`
goroutine, the start of a generation's internal function) or closeMsgs / closeReturn is enabled — except while `run`
is inside `gen.close()` (C15) -/
theorem system_progress (c : Group.Cfg) (s : State) (hi : Inv c s) (hm : s.close = 2)
    (hw : ∀ g, s.group = some g → ∀ ret r, g.pc ≠ .waiting ret r) :
    ∃ e, (internal e = true ∨ ∃ gi acc, e = .group (.gStart gi acc)) ∧ (step c s e).isSome := by
  have hcl := hi.mark (by omega)
  by_cases hf : fetchersExited s = true
  · by_cases hg : groupExited s = true
    · by_cases hmc : s.msgsClosed = true
      · exact ⟨.closeReturn, Or.inl rfl, by simp [step, hm, hmc]⟩
      · exact ⟨.closeMsgs, Or.inl rfl, by simp [step, hm, hf, hg, hmc]⟩
    · -- the group's run goroutine has not exited
      cases hgs : s.group with
      | none => simp [groupExited, hgs] at hg
      | some g =>
        have hpc : g.pc ≠ .exited := by
          intro h; simp [groupExited, hgs, h] at hg
        obtain ⟨hr, hcc⟩ := hi.grp g hgs
        obtain ⟨e, he, hen⟩ := Group.run_progress_reachable c g hr (hcc hcl) hpc (hw g hgs)
        refine ⟨.group e, ?_, ?_⟩
        · rcases he with he | ⟨gi, acc, rfl⟩
          · exact Or.inl he
          · exact Or.inr ⟨gi, acc, rfl⟩
        · have hne : (e == .nextCall || e == .closeCall) = false := by
            rcases he with he | ⟨gi, acc, rfl⟩
            · cases e <;> simp [Group.Ev.runLoop] at he ⊢
            · rfl
          cases hse : Group.step c g e with
          | none => simp [hse] at hen
          | some g' => simp [step, hgs, hne, hse]
  · -- some fetcher has not returned
    have hex : ∃ f ∈ s.fetchers, f.pc ≠ .exited := by
      apply Classical.byContradiction
      intro hno
      apply hf
      simp only [fetchersExited, List.all_eq_true, beq_iff_eq]
      intro x hx
      apply Classical.byContradiction
      intro hne
      exact hno ⟨x, hx, hne⟩
    obtain ⟨f, hfm, hne⟩ := hex
    obtain ⟨i, hi', hget⟩ := List.getElem_of_mem hfm
    have hget? : s.fetchers[i]? = some f := by rw [List.getElem?_eq_getElem hi', hget]
    obtain ⟨e, hec, hen⟩ := FetcherLife.progress_after_cancel f (hi.canc hcl f hfm) hne
    refine ⟨.fetcher i e, Or.inl hec, ?_⟩
    have hnc : e ≠ .ctxCancel := by intro h; subst h; simp [FetcherLife.Event.control] at hec
    cases hse : FetcherLife.step f e with
    | none => simp [hse] at hen
    | some f' => simp [step, hget?, hnc, hse]

end KV.ReaderCloseSystem
