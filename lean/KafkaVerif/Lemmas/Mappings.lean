/-
Lemmas/Mappings.lean — Go-map lemmas for the field mappings (Props/C19.lean).
-/
import KafkaVerif.Model.Mappings
import KafkaVerif.Lemmas.Routing

namespace KV.Lemmas.Mappings
open KV.Routing (ainsert)
open KV.Lemmas.Routing

section
variable {κ ν : Type} [BEq κ] [LawfulBEq κ]

theorem foldl_ainsert_other (l : List (κ × ν)) (acc : List (κ × ν)) (k : κ) (h : ∀ e ∈ l, e.1 ≠ k) :
    (l.foldl (fun m e => ainsert m e.1 e.2) acc).lookup k = acc.lookup k := by
  induction l generalizing acc with
  | nil => rfl
  | cons e es ih =>
    simp only [List.foldl_cons]
    rw [ih _ (fun x hx => h x (List.mem_cons_of_mem _ hx))]
    exact lookup_ainsert_other acc e.1 k e.2 (fun hk => h e List.mem_cons_self hk.symm)

/-- building a Go map from a list with pairwise distinct keys: every listed pair can be read back -/
theorem lookup_foldl_ainsert (l : List (κ × ν)) (acc : List (κ × ν)) (k : κ) (v : ν)
    (hmem : (k, v) ∈ l) (hnd : (l.map (·.1)).Nodup) :
    (l.foldl (fun m e => ainsert m e.1 e.2) acc).lookup k = some v := by
  induction l generalizing acc with
  | nil => cases hmem
  | cons e es ih =>
    simp only [List.map_cons, List.nodup_cons] at hnd
    simp only [List.foldl_cons]
    rcases List.mem_cons.mp hmem with heq | hin
    · subst heq
      rw [foldl_ainsert_other es _ k (fun x hx hk => hnd.1 (List.mem_map.mpr ⟨x, hx, hk⟩))]
      exact lookup_ainsert_self acc k v
    · exact ih _ hin hnd.2

/-- a key that was never inserted reads as absent -/
theorem lookup_foldl_ainsert_none (l : List (κ × ν)) (k : κ) (h : ∀ e ∈ l, e.1 ≠ k) :
    (l.foldl (fun m e => ainsert m e.1 e.2) []).lookup k = none := by
  rw [foldl_ainsert_other l [] k h]; rfl

end

end KV.Lemmas.Mappings
