/-
C09 over the detailed Writer LTS, liveness half: `Close` cannot get stuck.

`close_progress`: in every reachable state with `closed = true` in which `closeReturn` is not enabled, some *driven*
event is enabled — a step of Close, of a partition writer's goroutine, of a call already inside WriteMessages, or an
answer of the broker; never a new caller (`enter`), the end of a caller's context (`ret _ ctx`) — and no batch timer
is needed either (Close detaches the open batches itself).

Built on the writer builder's `internal_enabled` (a partition writer with a non-empty pipeline can take an internal
step), `InvSched`, `InvProg`, `InvPlace`, and on `DI` / `CI` / `AI` of `Lemmas/WriterCloseDetail.lean`; new here:
* `step_pws_shape`, `step_lock_shape`  what one step can do to the partition-writer table, the mutex and the flag;
* `PI`   every listed partition writer exists;
* `QI`   closed ∧ mutex not held by Close ⇒ every batch queue is closed (so an idle sender with an empty queue exits);
* `CS`   shape of call records: messages non-empty; `begun` ⇒ nothing balanced yet; `assigning` ⇒ all messages fit and
         at most `len msgs` are balanced; `batching` ⇒ that call holds the mutex.

What is *not* proved here: a termination measure on this model (every driven event lowers it).  The per-partition-writer
measure is the writer builder's `pwCost` (`internal_decreases`); the global measure is proved on `Model/WriterClose.lean`
(`close_terminates`).
-/
import KafkaVerif.Lemmas.WriterCloseDetail
import KafkaVerif.Lemmas.WriterProgress
namespace KV.WriterCloseDetail
open KV.Writer

/-- how one step changes the table of partition writers -/
theorem step_pws_shape (cfg : Cfg) (s s' : State) (e : Event) (hs : step cfg s e = some s') :
    (s'.pws = s.pws ∧ s'.pwIds = s.pwIds) ∨
    (∃ pw P P', s.pws pw = some P ∧ s'.pws = upd s.pws pw (some P') ∧ s'.pwIds = s.pwIds ∧
      (P.qclosed = true → P'.qclosed = true)) ∨
    (∃ pw q tp, s.closed = false ∧ s'.closed = false ∧ s.pws pw = none ∧ s'.pws = upd s.pws pw (some (PW.new tp q)) ∧
      s'.pwIds = s.pwIds ++ [pw]) := by
  cases e <;> simp only [step, stepReject, stepAdd, stepDetach, stepProduce, produced, stepRet] at hs
  case newPW pw q tp =>
    split at hs
    · rename_i hg
      injection hs with hs; subst hs
      exact Or.inr (Or.inr ⟨pw, q, tp, hg.2.1, hg.2.1, by simpa using hg.2.2.2.1, rfl, rfl⟩)
    · simp at hs
  all_goals
    ((repeat' split at hs) <;>
      first
      | (simp at hs; done)
      | (injection hs with hs; subst hs; exact Or.inl ⟨rfl, rfl⟩)
      | (injection hs with hs; subst hs
         exact Or.inr (Or.inl ⟨_, _, _, by assumption, rfl, rfl, by first | (intro h; exact h) | (intro _; rfl)⟩)))


/-- how one step changes the writer mutex and the closed flag -/
theorem step_lock_shape (cfg : Cfg) (s s' : State) (e : Event) (hs : step cfg s e = some s') :
    (s'.wlock = s.wlock ∧ s'.closed = s.closed) ∨
    (s.closed = false ∧ s'.closed = false) ∨
    (s.wlock.isCall = true ∧ s'.closed = s.closed) ∨
    (s'.wlock = .closer) ∨
    (s.wlock = .closer ∧ s'.wlock = .free ∧ s'.closed = s.closed ∧ s'.pws = s.pws ∧
      s.pwIds.all (fun pw => match s.pws pw with | some P => P.qclosed | none => false) = true) := by
  cases e <;> simp only [step, stepReject, stepAdd, stepDetach, stepProduce, produced, stepRet] at hs
  case batch c =>
    split at hs
    · simp at hs
    · split at hs
      · rename_i hg; injection hs with hs; subst hs
        exact Or.inr (Or.inl ⟨hg.2.1, hg.2.1⟩)
      · simp at hs
  case batched c =>
    split at hs
    · simp at hs
    · split at hs
      · rename_i hg; injection hs with hs; subst hs
        exact Or.inr (Or.inr (Or.inl ⟨by rw [hg.1]; rfl, rfl⟩))
      · simp at hs
  case closeBegin =>
    split at hs
    · injection hs with hs; subst hs
      exact Or.inr (Or.inr (Or.inr (Or.inl rfl)))
    · simp at hs
  case closeMarked n =>
    split at hs
    · rename_i hg; injection hs with hs; subst hs
      exact Or.inr (Or.inr (Or.inr (Or.inr ⟨hg.1, rfl, rfl, rfl, hg.2⟩)))
    · simp at hs
  all_goals
    ((repeat' split at hs) <;>
      first
      | (simp at hs; done)
      | (injection hs with hs; subst hs; exact Or.inl ⟨rfl, rfl⟩))

/-- every listed partition writer exists -/
def PI (s : State) : Prop := ∀ pw ∈ s.pwIds, (s.pws pw).isSome = true

theorem pi_init : PI State.init := by intro pw h; simp [State.init] at h

theorem pi_step (cfg : Cfg) (s s' : State) (e : Event) (h : PI s) (hs : step cfg s e = some s') : PI s' := by
  rcases step_pws_shape cfg s s' e hs with ⟨e1, e2⟩ | ⟨pw0, P, P', hP, e1, e2, -⟩ | ⟨pw0, q, tp, -, -, hn, e1, e2⟩
  · intro pw hpw; rw [e1]; rw [e2] at hpw; exact h pw hpw
  · intro pw hpw; rw [e1]; rw [e2] at hpw
    by_cases hx : pw = pw0
    · subst hx; simp
    · rw [upd_other _ _ _ _ hx]; exact h pw hpw
  · intro pw hpw; rw [e1]; rw [e2] at hpw
    by_cases hx : pw = pw0
    · subst hx; simp
    · rw [upd_other _ _ _ _ hx]
      rcases List.mem_append.mp hpw with h1 | h1
      · exact h pw h1
      · simp at h1; exact absurd h1 hx

theorem pi_reachable (cfg : Cfg) : ∀ s, Reachable cfg s → PI s :=
  invariant_of_step cfg PI pi_init (fun s e s' h hs => pi_step cfg s s' e h hs)

/-- once Close has released the writer mutex every batch queue is closed -/
def QI (s : State) : Prop :=
  s.closed = true → s.wlock ≠ .closer → ∀ pw P, s.pws pw = some P → P.qclosed = true

theorem qi_init : QI State.init := by intro h; simp [State.init] at h

theorem qi_step (cfg : Cfg) (s s' : State) (e : Event) (hd : DI s) (h : QI s) (hs : step cfg s e = some s') : QI s' := by
  intro hc hl pw P' hP'
  rcases step_lock_shape cfg s s' e hs with ⟨l1, l2⟩ | ⟨-, l2⟩ | ⟨l1, l2⟩ | l1 | ⟨l1, -, l2, l3, l4⟩
  · -- lock and flag unchanged
    rw [l2] at hc; rw [l1] at hl
    rcases step_pws_shape cfg s s' e hs with ⟨e1, -⟩ | ⟨pw0, P, P1, hP, e1, -, hq⟩ | ⟨pw0, q, tp, hcl, -, -, -, -⟩
    · rw [e1] at hP'; exact h hc hl pw P' hP'
    · rw [e1] at hP'
      by_cases hx : pw = pw0
      · subst hx; simp at hP'; subst hP'; exact hq (h hc hl pw P hP)
      · rw [upd_other _ _ _ _ hx] at hP'; exact h hc hl pw P' hP'
    · rw [hcl] at hc; cases hc
  · rw [l2] at hc; cases hc
  · rw [l2] at hc
    have := hd.lockClosed hc
    rw [l1] at this; cases this
  · exact absurd l1 hl
  · rw [l3] at hP'
    have hid := hd.ids pw P' hP'
    have := List.all_eq_true.mp l4 pw hid
    rw [hP'] at this; exact this



structure CallShape (cfg : Cfg) (s : State) (c : Nat) (C : Call) : Prop where
  msgsNe : C.msgs ≠ []
  begun : C.phase = .begun → C.assign = []
  assigning : C.phase = .assigning → allFit cfg C.msgs = true ∧ C.assign.length ≤ C.msgs.length
  batching : C.phase = .batching → s.wlock = .call c

def CS (cfg : Cfg) (s : State) : Prop := ∀ c C, s.calls c = some C → CallShape cfg s c C

theorem cs_init (cfg : Cfg) : CS cfg State.init := by
  intro c C hC; simp [State.init] at hC

theorem cs_frame (cfg : Cfg) (s s' : State) (h : CS cfg s) (e1 : s'.calls = s.calls) (e2 : s'.wlock = s.wlock) : CS cfg s' := by
  intro c C hC; rw [e1] at hC
  have := h c C hC
  exact ⟨this.msgsNe, this.begun, this.assigning, fun hp => by rw [e2]; exact this.batching hp⟩

theorem cs_upd (cfg : Cfg) (s s' : State) (h : CS cfg s) (c : Nat) (C' : Call)
    (e1 : s'.calls = upd s.calls c (some C')) (hnew : CallShape cfg s' c C')
    (hother : ∀ x X, x ≠ c → s.calls x = some X → X.phase = .batching → s'.wlock = .call x) : CS cfg s' := by
  intro x X hX; rw [e1] at hX
  by_cases hx : x = c
  · subst hx; simp at hX; subst hX; exact hnew
  · rw [upd_other _ _ _ _ hx] at hX
    have := h x X hX
    exact ⟨this.msgsNe, this.begun, this.assigning, fun hp => hother x X hx hX hp⟩

theorem cs_lock (cfg : Cfg) (s s' : State) (h : CS cfg s) (e1 : s'.calls = s.calls)
    (hno : ∀ x X, s.calls x = some X → X.phase = .batching → s'.wlock = .call x) : CS cfg s' := by
  intro x X hX; rw [e1] at hX
  have := h x X hX
  exact ⟨this.msgsNe, this.begun, this.assigning, fun hp => hno x X hX hp⟩

theorem cs_step (cfg : Cfg) (s s' : State) (e : Event) (h : CS cfg s) (hs : step cfg s e = some s') : CS cfg s' := by
  cases e <;> simp only [step, stepReject, stepAdd, stepDetach, stepProduce, produced, stepRet] at hs
  case begin_ c msgs =>
    split at hs
    · rename_i hg
      injection hs with hs; subst hs
      refine cs_upd cfg s _ h c _ rfl ⟨hg.2.2, fun _ => rfl, (fun hp => nomatch hp), (fun hp => nomatch hp)⟩ ?_
      intro x X _ hX hp; exact (h x X hX).batching hp
    · simp at hs
  case reject c why i =>
    split at hs
    · simp at hs
    · rename_i C hC
      have hc := h c C hC
      split at hs <;> split at hs <;> first | (simp at hs; done) | skip
      all_goals (rename_i hg; injection hs with hs; subst hs)
      all_goals
        refine cs_upd cfg s _ h c _ rfl ⟨hc.msgsNe, (fun hp => nomatch hp), (fun hp => nomatch hp), (fun hp => nomatch hp)⟩ ?_
      all_goals (intro x X _ hX hp; exact (h x X hX).batching hp)
  case assign c i tp =>
    split at hs
    · simp at hs
    · rename_i C hC
      have hc := h c C hC
      split at hs
      · rename_i hg; injection hs with hs; subst hs
        refine cs_upd cfg s _ h c _ rfl ⟨hc.msgsNe, (fun hp => nomatch hp), fun _ => ⟨hg.2.2.1, ?_⟩, (fun hp => nomatch hp)⟩ ?_
        · obtain ⟨m, hm, -⟩ := msgAt_elim hg.2.2.2
          have : i < C.msgs.length := by
            rcases Nat.lt_or_ge i C.msgs.length with h1 | h1
            · exact h1
            · rw [List.getElem?_eq_none h1] at hm; cases hm
          simp only [List.length_append, List.length_singleton]; omega
        · intro x X _ hX hp; exact (h x X hX).batching hp
      · simp at hs
  case batch c =>
    split at hs
    · simp at hs
    · rename_i C hC
      have hc := h c C hC
      split at hs
      · rename_i hg; injection hs with hs; subst hs
        refine cs_upd cfg s _ h c _ rfl ⟨hc.msgsNe, (fun hp => nomatch hp), (fun hp => nomatch hp), fun _ => rfl⟩ ?_
        intro x X _ hX hp
        have := (h x X hX).batching hp
        rw [hg.1] at this; cases this
      · simp at hs
  case batched c =>
    split at hs
    · simp at hs
    · rename_i C hC
      have hc := h c C hC
      split at hs
      · rename_i hg; injection hs with hs; subst hs
        refine cs_upd cfg s _ h c _ rfl ⟨hc.msgsNe, (fun hp => nomatch hp), (fun hp => nomatch hp), (fun hp => nomatch hp)⟩ ?_
        intro x X hx hX hp
        have := (h x X hX).batching hp
        rw [hg.1] at this; injection this with this; exact absurd this.symm hx
      · simp at hs
  case add pw b c i size =>
    split at hs
    · simp at hs
    · split at hs
      · simp at hs
      · split at hs
        · simp at hs
        · rename_i C hC
          have hc := h c C hC
          split at hs
          · rename_i hg; injection hs with hs; subst hs
            refine cs_upd cfg s _ h c _ rfl ⟨hc.msgsNe, hc.begun, hc.assigning, hc.batching⟩ ?_
            intro x X _ hX hp; exact (h x X hX).batching hp
          · simp at hs
  case ret c r =>
    split at hs
    · simp at hs
    · rename_i C hC
      have hc := h c C hC
      split at hs <;> first | (simp at hs; done) | (split at hs <;> first | (simp at hs; done) | skip)
      all_goals (rename_i hg; injection hs with hs; subst hs)
      all_goals
        refine cs_upd cfg s _ h c _ rfl ⟨hc.msgsNe, (fun hp => nomatch hp), (fun hp => nomatch hp), (fun hp => nomatch hp)⟩ ?_
      all_goals (intro x X _ hX hp; exact (h x X hX).batching hp)
  case closeBegin =>
    split at hs
    · rename_i hg; injection hs with hs; subst hs
      refine cs_lock cfg s _ h rfl ?_
      intro x X hX hp
      have := (h x X hX).batching hp
      rw [hg] at this; cases this
    · simp at hs
  case closeMarked n =>
    split at hs
    · rename_i hg; injection hs with hs; subst hs
      refine cs_lock cfg s _ h rfl ?_
      intro x X hX hp
      have := (h x X hX).batching hp
      rw [hg.1] at this; cases this
    · simp at hs
  all_goals
    ((repeat' split at hs) <;>
      first
      | (simp at hs; done)
      | (injection hs with hs; subst hs; exact cs_frame cfg s _ h rfl rfl))


theorem cs_reachable (cfg : Cfg) : ∀ s, Reachable cfg s → CS cfg s :=
  invariant_of_step cfg (CS cfg) (cs_init cfg) (fun s e s' h hs => cs_step cfg s s' e h hs)

theorem qi_reachable (cfg : Cfg) : ∀ s, Reachable cfg s → QI s := by
  have : ∀ s, Reachable cfg s → DI s ∧ QI s :=
    invariant_of_step cfg (fun s => DI s ∧ QI s) ⟨di_init, qi_init⟩
      (fun s e s' h hs => ⟨di_step cfg s s' e h.1 hs, qi_step cfg s s' e h.1 h.2 hs⟩)
  exact fun s hr => (this s hr).2

/-! ## Close makes progress on the detailed model -/

/-- events that need neither a new caller nor the end of a caller's context: steps of calls already inside
WriteMessages, of Close, of the partition writers' goroutines, timers, and the broker's answers -/
def driven : Event → Bool
  | .enter _ => false
  | .ret _ .ctx => false
  | _ => true

theorem internalFor_driven (s : State) (pw : Nat) (e : Event) (h : internalFor s pw e = true) : driven e = true := by
  cases e <;> simp [internalFor] at h <;> rfl

theorem first_fail {α : Type} (p : α → Bool) : ∀ (l : List α), l.all p = false →
    ∃ i m, (l.take i).all p = true ∧ l[i]? = some m ∧ p m = false := by
  intro l
  induction l with
  | nil => intro h; simp at h
  | cons a t ih =>
    intro h
    cases hpa : p a
    · exact ⟨0, a, by simp, by simp, hpa⟩
    · have ht : t.all p = false := by
        cases hta : t.all p
        · rfl
        · simp only [List.all_cons, hpa, hta] at h; cases h
      obtain ⟨i, m, h1, h2, h3⟩ := ih ht
      exact ⟨i + 1, m, by simp [hpa, h1], by simpa using h2, h3⟩


/-- the events Close waits for: steps of Close after its begin, of the partition writers' goroutines, of the broker, and
of calls already inside WriteMessages (including a call that passed `enter()` and now identifies itself: `begin_` /
`empty`).  Not in the set: new callers (`enter`), a new Close
(`closeBegin`) or its return, timers, closing a queue that is closed already, and the events that need an open writer. -/
def closing (s : State) : Event → Bool
  | .closeMarked _ => true
  | .detach _ _ _ _ => true
  | .qput _ _ _ => true
  | .qget _ _ => true
  | .qclose q =>
    match s.qOf q with
    | some pw => (match s.pws pw with | some P => !P.qclosed | none => false)
    | none => false
  | .attempt _ _ _ => true
  | .produce _ _ _ _ => true
  | .attemptDone _ _ _ _ => true
  | .completion _ _ _ => true
  | .complete _ _ _ => true
  | .assign _ _ _ => true
  | .reject _ _ _ => true
  | .ret _ _ => true
  | .empty => true
  | .begin_ _ _ => true
  | _ => false

/-- an internal event of a partition writer without an open batch is one of them (its timers have nothing to do) -/
theorem internalFor_closing (cfg : Cfg) (s : State) (pw : Nat) (P : PW) (hP : s.pws pw = some P) (hcurr : P.curr = none)
    (e : Event) (hint : internalFor s pw e = true) (hen : (step cfg s e).isSome = true) : closing s e = true := by
  cases e
  case timerFire pw' b att =>
    exfalso
    cases att
    · simp [internalFor] at hint
    · simp only [internalFor, Bool.and_eq_true, beq_iff_eq] at hint
      obtain ⟨h1, -⟩ := hint
      subst h1
      simp only [step, hP] at hen
      split at hen
      · simp at hen
      · split at hen
        · rename_i hg
          have := hg.2.2
          simp [hcurr] at this
        · simp at hen
  all_goals first | rfl | (simp [internalFor] at hint)

/-- while Close holds the writer mutex one of its own steps is enabled -/
theorem closer_progress (cfg : Cfg) (hmax : 1 ≤ cfg.maxAttempts) (s : State) (hr : Reachable cfg s) (hc : s.closed = true) (hw : s.wlock = .closer) :
    ∃ e, driven e = true ∧ closing s e = true ∧ (step cfg s e).isSome = true := by
  have hS := invSched cfg s hr
  have hP := pi_reachable cfg s hr
  -- no call holds the mutex, so no batch is waiting for its first message
  have hfr : s.fresh = none := by
    cases hf : s.fresh with
    | none => rfl
    | some b =>
      have := (invFresh cfg s hr).freshLock (by simp [hf])
      rw [hw] at this; cases this
  by_cases hall : s.pwIds.all (fun pw => match s.pws pw with | some P => P.qclosed | none => false) = true
  · exact ⟨.closeMarked 0, rfl, rfl, by simp only [step]; rw [if_pos ⟨hw, hall⟩]; rfl⟩
  · have : ∃ pw ∈ s.pwIds, (match s.pws pw with | some P => P.qclosed | none => false) = false := by
      simpa [List.all_eq_true] using hall
    obtain ⟨pw, hmem, hnot⟩ := this
    have hsome := hP pw hmem
    cases hPw : s.pws pw with
    | none => rw [hPw] at hsome; cases hsome
    | some P =>
      rw [hPw] at hnot
      have hq : P.qclosed = false := hnot
      have hqof := hS.qOfInv pw P hPw
      cases hcurr : P.curr with
      | some b =>
        obtain ⟨B, hB, -, hdet⟩ := hS.currOpen pw P hPw b hcurr
        have hpend : P.pending = none := by
          cases hp : P.pending with
          | none => rfl
          | some x =>
            have := (invProg cfg hmax s hr).pw pw P hPw
            exact absurd (this.pendingCurr (by simp [hp])) (by simp [hcurr])
        exact ⟨.detach pw b .close 0, rfl, rfl, by simp [step, stepDetach, hPw, hB, hcurr, hpend, hdet, whyOk, hc, hw, hfr]⟩
      | none =>
        cases hpend : P.pending with
        | some b => exact ⟨.qput P.q b true, rfl, rfl, by simp [step, hqof, hPw, hpend, hcurr, hq]⟩
        | none => exact ⟨.qclose P.q, rfl, by simp [closing, hqof, hPw, hq], by simp [step, hqof, hPw, hc, hw, hcurr, hpend]⟩


/-- after Close released the mutex, a partition writer whose goroutine has not exited can take a step -/
theorem sender_progress (cfg : Cfg) (hmax : 1 ≤ cfg.maxAttempts) (s : State) (hr : Reachable cfg s) (hc : s.closed = true)
    (hw : s.wlock = .free) (pw : Nat) (P : PW) (hPw : s.pws pw = some P) (hne : P.sender ≠ .exited) :
    ∃ e, driven e = true ∧ closing s e = true ∧ (step cfg s e).isSome = true := by
  have hq0 := qi_reachable cfg s hr hc (by rw [hw]; exact fun h => nomatch h) pw P hPw
  have hcurr : P.curr = none := ((di_reachable cfg s hr).qcl pw P hPw hq0).2.1
  by_cases hpipe : P.pipe = []
  · have hqof := (invSched cfg s hr).qOfInv pw P hPw
    have hq := qi_reachable cfg s hr hc (by rw [hw]; exact fun h => nomatch h) pw P hPw
    have hqu : P.queue = [] := by
      cases hl : P.queue with
      | nil => rfl
      | cons a t =>
        have : a ∈ P.pipe := by rw [mem_pipe]; exact Or.inr (Or.inl (by simp [hl]))
        rw [hpipe] at this; cases this
    have hidle : P.sender = .idle := by
      cases hs : P.sender with
      | idle => rfl
      | exited => exact absurd hs hne
      | ready b k => have : b ∈ P.pipe := sender_mem_pipe (by simp [hs, Sender.batch?]); rw [hpipe] at this; cases this
      | attempting b k br => have : b ∈ P.pipe := sender_mem_pipe (by simp [hs, Sender.batch?]); rw [hpipe] at this; cases this
      | finishing b c cb => have : b ∈ P.pipe := sender_mem_pipe (by simp [hs, Sender.batch?]); rw [hpipe] at this; cases this
    exact ⟨.qget P.q none, rfl, rfl, by simp [step, hqof, hPw, hidle, hqu, hq]⟩
  · have hfr : s.fresh = none := by
      cases hf : s.fresh with
      | none => rfl
      | some b =>
        have := (invFresh cfg s hr).freshLock (by simp [hf])
        rw [hw] at this; cases this
    obtain ⟨e, hint, hen⟩ := internal_enabled cfg hmax s hr hfr pw P hPw hpipe
    exact ⟨e, internalFor_driven s pw e hint, internalFor_closing cfg s pw P hPw hcurr e hint hen, hen⟩


theorem all_done_of_exited (s : State) (h : DI s) (hall : ∀ pw P, s.pws pw = some P → P.sender = .exited) :
    ∀ b B, s.batches b = some B → ∃ code, B.done = some code := by
  intro b B hB
  cases hd : B.done with
  | some code => exact ⟨code, rfl⟩
  | none =>
    obtain ⟨P, hP, hb⟩ := h.live b B hB hd
    rw [exited_pipe_empty s h _ P hP (hall _ P hP)] at hb
    cases hb

/-- with the mutex free, the writer closed and every partition writer's goroutine gone, a call that has begun and not
returned can take its next step (towards ErrClosedPipe, or its return) -/
theorem call_progress (cfg : Cfg) (s : State) (hr : Reachable cfg s) (hc : s.closed = true) (hw : s.wlock = .free)
    (hall : ∀ pw P, s.pws pw = some P → P.sender = .exited) (c : Nat) (C : Call) (hC : s.calls c = some C)
    (hph : C.phase ≠ .returned) : ∃ e, driven e = true ∧ closing s e = true ∧ (step cfg s e).isSome = true := by
  have hS := cs_reachable cfg s hr c C hC
  -- the next index to balance, when the messages all fit
  have next : allFit cfg C.msgs = true → (C.phase = .begun ∨ C.phase = .assigning) → C.assign.length < C.msgs.length →
      ∃ e, driven e = true ∧ closing s e = true ∧ (step cfg s e).isSome = true := by
    intro hfit hp hlt
    obtain ⟨m, hm⟩ : ∃ m, C.msgs[C.assign.length]? = some m := ⟨C.msgs[C.assign.length], by simp [hlt]⟩
    cases hct : chooseTopic cfg m with
    | some t =>
      refine ⟨.assign c C.assign.length (t, 0), rfl, rfl, ?_⟩
      simp only [step, hC]
      rw [if_pos ⟨hp, trivial, hfit, by simp [msgAt, hm, hct]⟩]; rfl
    | none =>
      refine ⟨.reject c .topic C.assign.length, rfl, rfl, ?_⟩
      simp only [step, stepReject, hC]
      rw [if_pos ⟨hp, trivial, hfit, by simp [msgAt, hm, hct]⟩]; rfl
  cases hp : C.phase with
  | returned => exact absurd hp hph
  | rejectedClosed =>
    exact ⟨.ret c .closed, rfl, rfl, by simp [step, stepRet, hC, hp]⟩
  | batching =>
    have := hS.batching hp
    rw [hw] at this; cases this
  | begun =>
    have ha := hS.begun hp
    have hlen : C.assign.length < C.msgs.length := by
      rw [ha]; cases hm : C.msgs with
      | nil => exact absurd hm hS.msgsNe
      | cons a t => simp
    cases hfit : allFit cfg C.msgs with
    | true => exact next hfit (Or.inl hp) hlen
    | false =>
      obtain ⟨i, m, h1, h2, h3⟩ := first_fail _ C.msgs hfit
      refine ⟨.reject c .toolarge i, rfl, rfl, ?_⟩
      simp only [step, stepReject, hC]
      rw [if_pos ⟨hp, h1, by simp [msgAt, h2]; simpa using h3⟩]; rfl
  | assigning =>
    obtain ⟨hfit, hle⟩ := hS.assigning hp
    rcases Nat.lt_or_ge C.assign.length C.msgs.length with hlt | hge
    · exact next hfit (Or.inr hp) hlt
    · refine ⟨.reject c .closed 0, rfl, rfl, ?_⟩
      simp only [step, stepReject, hC]
      rw [if_pos ⟨hw, hc, hp, by omega⟩]; rfl
  | batched =>
    cases hasync : cfg.async with
    | true => exact ⟨.ret c .async, rfl, rfl, by simp [step, stepRet, hC, hp, hasync]⟩
    | false =>
      have hpl := ai_reachable cfg s hr c C hC (by simp [accepted, hp])
      simp only [Call.placedAll, List.all_eq_true, List.mem_range] at hpl
      have hdone := all_done_of_exited s (di_reachable cfg s hr) hall
      let codes : List Code := (List.range C.msgs.length).map (fun i => (batchDone s (C.place i)).getD 0)
      have hlen : codes.length = C.msgs.length := by simp [codes]
      have hF : ∀ i, i < C.msgs.length → batchDone s (C.place i) = codes[i]? := by
        intro i hi
        have h1 := hpl i hi
        cases hpi : C.place i with
        | none => rw [hpi] at h1; cases h1
        | some b =>
          obtain ⟨B, hB, -, -⟩ := (invPlace cfg s hr).placed c C hC i b hpi
          obtain ⟨code, hcode⟩ := hdone b B hB
          simp [codes, hi, hpi, batchDone, hB, hcode]
      by_cases hz : codes.any (· != 0) = true
      · refine ⟨.ret c (.werr codes), rfl, rfl, ?_⟩
        simp only [step, stepRet, hC]
        rw [if_pos ⟨hasync, hp, hlen, by
          rw [List.all_eq_true]; intro i hi; rw [List.mem_range] at hi; simp [hF i hi], hz⟩]; rfl
      · refine ⟨.ret c .ok, rfl, rfl, ?_⟩
        simp only [step, stepRet, hC]
        rw [if_pos ⟨hasync, hp, by
          rw [List.all_eq_true]; intro i hi; rw [List.mem_range] at hi
          rw [hF i hi]
          have hi' : i < codes.length := by rw [hlen]; exact hi
          have : codes[i] = 0 := by
            have := hz
            simp only [List.any_eq_true, not_exists, not_and] at this
            have := this codes[i] (List.getElem_mem hi')
            simpa using this
          simp [List.getElem?_eq_getElem hi', this]⟩]; rfl


/-- **Close cannot get stuck on the detailed model.**  In every reachable state in which the writer is closed and
`Close` may not return yet, some driven event is enabled: a step of Close itself (detach / queue / close a queue /
release the mutex), of a partition writer's goroutine (take a batch, attempt, the broker's decision, Completion,
complete, exit), or of a call already inside WriteMessages (its next balancing step, ErrClosedPipe, its return) —
no new caller, no context cancellation and no batch timer is needed. -/
theorem close_progress' (cfg : Cfg) (hmax : 1 ≤ cfg.maxAttempts) (s : State) (hr : Reachable cfg s)
    (hc : s.closed = true) (hn : step cfg s .closeReturn = none) :
    ∃ e, driven e = true ∧ closing s e = true ∧ (step cfg s e).isSome = true := by
  have hD := di_reachable cfg s hr
  cases hw : s.wlock with
  | call c0 =>
    have := hD.lockClosed hc
    rw [hw] at this; cases this
  | closer =>
    obtain ⟨e, h1, h2, h3⟩ := closer_progress cfg hmax s hr hc hw
    exact ⟨e, h1, h2, h3⟩
  | free =>
    by_cases hent : 0 < s.entered
    · exact ⟨.empty, rfl, rfl, by simp [step, hent]⟩
    · have hent0 : s.entered = 0 := by omega
      by_cases hex : s.pwIds.all (fun pw => match s.pws pw with | some P => P.sender == .exited | none => false) = true
      · -- every goroutine is gone: an open call remains
        have hall : ∀ pw P, s.pws pw = some P → P.sender = .exited := by
          intro pw P hP
          have := List.all_eq_true.mp hex pw (hD.ids pw P hP)
          rw [hP] at this; simpa using this
        have hinf : s.inflight ≠ 0 := by
          intro h0
          simp only [step] at hn
          rw [if_pos ⟨hc, h0, hent0, hex⟩] at hn; cases hn
        have hC := ci_reachable cfg s hr
        have hopen : nOpen s ≠ 0 := by have := hC.cnt; omega
        unfold nOpen at hopen
        have : ∃ c ∈ s.callIds, openCall s c = true := by
          by_cases h : ∃ c ∈ s.callIds, openCall s c = true
          · exact h
          · exfalso; apply hopen; rw [List.countP_eq_zero]
            intro c hcin hco; exact h ⟨c, hcin, hco⟩
        obtain ⟨c, -, hoc⟩ := this
        cases hCc : s.calls c with
        | none => simp [openCall, hCc] at hoc
        | some C =>
          have hph : C.phase ≠ .returned := by simpa [openCall, hCc] using hoc
          obtain ⟨e, h1, h2, h3⟩ := call_progress cfg s hr hc hw hall c C hCc hph
          exact ⟨e, h1, h2, h3⟩
      · have : ∃ pw ∈ s.pwIds, (match s.pws pw with | some P => P.sender == .exited | none => false) = false := by
          simpa [List.all_eq_true] using hex
        obtain ⟨pw, hmem, hnot⟩ := this
        have hsome := pi_reachable cfg s hr pw hmem
        cases hPw : s.pws pw with
        | none => rw [hPw] at hsome; cases hsome
        | some P =>
          rw [hPw] at hnot
          have hne : P.sender ≠ .exited := by
            intro h; simp [h] at hnot
          obtain ⟨e, h1, h2, h3⟩ := sender_progress cfg hmax s hr hc hw pw P hPw hne
          exact ⟨e, h1, h2, h3⟩

theorem close_progress (cfg : Cfg) (hmax : 1 ≤ cfg.maxAttempts) (s : State) (hr : Reachable cfg s)
    (hc : s.closed = true) (hn : step cfg s .closeReturn = none) :
    ∃ e, driven e = true ∧ (step cfg s e).isSome = true := by
  obtain ⟨e, h1, -, h3⟩ := close_progress' cfg hmax s hr hc hn
  exact ⟨e, h1, h3⟩

/-- the same with the enabled event taken from the set `closing` the termination measure is about -/
theorem close_progress_closing (cfg : Cfg) (hmax : 1 ≤ cfg.maxAttempts) (s : State) (hr : Reachable cfg s)
    (hc : s.closed = true) (hn : step cfg s .closeReturn = none) :
    ∃ e, closing s e = true ∧ (step cfg s e).isSome = true := by
  obtain ⟨e, -, h2, h3⟩ := close_progress' cfg hmax s hr hc hn
  exact ⟨e, h2, h3⟩

end KV.WriterCloseDetail
