/-
Lemmas/GroupHb.lean — the heartbeat function is started before the generation waits for hand-off (invariant `Inv3`).
-/
import KafkaVerif.Lemmas.GroupInv
namespace KV.Group

/-- program points at which the generation exists and its heartbeat function must have been started -/
def PC.hbLive : PC → Bool
  | .starting k => k != 0
  | .handing | .running | .closing _ | .waiting _ _ => true
  | _ => false

theorem bodyReturned_hb (g : Gen) (a : Bool) : (g.bodyReturned a).hb = g.hb := by
  unfold Gen.bodyReturned; split <;> rfl

theorem start_hb (g : Gen) : g.start.1.hb = g.hb := by
  unfold Gen.start; split <;> rfl

theorem fnExit_hb (g g' : Gen) (h : g.fnExit = some g') : g'.hb = g.hb := by
  unfold Gen.fnExit at h
  split at h
  · cases h
  · split at h
    · cases h
    · cases h; rfl

/-- every generation-function step keeps a started heartbeat function started -/
def KeepsHb (f : Gen → Option Gen) : Prop := ∀ g g', f g = some g' → g.hb.isSome = true → g'.hb.isSome = true

theorem keeps_userStart (a : Bool) : KeepsHb (gUserStart a) := by
  intro g g' h hs
  unfold gUserStart at h
  simp only at h
  split at h
  · cases h; split <;> simpa [start_hb] using hs
  · cases h

theorem keeps_watchStart (a : Bool) : KeepsHb (gWatchStart a) := by
  intro g g' h hs
  unfold gWatchStart at h
  simp only at h
  split at h
  · cases h; simpa [start_hb] using hs
  · cases h

theorem keeps_hbCall (gid : Int) (m : String) : KeepsHb (gHbCall gid m) := by
  intro g g' h _; unfold gHbCall at h; split at h <;> (cases h; try rfl)
theorem keeps_hbRet (e : Option Err) : KeepsHb (gHbRet e) := by
  intro g g' h _; unfold gHbRet at h; split at h <;> (cases h; try rfl)
theorem keeps_hbExit : KeepsHb gHbExit := by
  intro g g' h _; unfold gHbExit at h; split at h <;> (cases h; try rfl)
theorem keeps_watchCall (t : Nat) : KeepsHb (gWatchCall t) := by
  intro g g' h hs; unfold gWatchCall at h
  split at h <;> first | (cases h; exact hs) | cases h
theorem keeps_watchParts (t n : Nat) : KeepsHb (gWatchParts t n) := by
  intro g g' h hs; unfold gWatchParts at h
  split at h <;> first | (cases h; exact hs) | cases h
theorem keeps_watchErr (t : Nat) (e : Err) : KeepsHb (gWatchErr t e) := by
  intro g g' h hs; unfold gWatchErr at h
  split at h
  · cases h; exact hs
  · split at h
    · cases h; exact hs
    · split at h <;> (cases h; exact hs)
  · cases h
theorem keeps_watchExit (t : Nat) : KeepsHb (gWatchExit t) := by
  intro g g' h hs; unfold gWatchExit at h
  split at h
  · cases h; simpa [setW, bodyReturned_hb] using hs
  · split at h
    · cases h; simpa [setW, bodyReturned_hb] using hs
    · cases h
  · cases h
theorem keeps_fnExit (c : Bool) (l : Nat) : KeepsHb (gFnExit c l) := by
  intro g g' h hs; unfold gFnExit at h
  split at h
  · rw [fnExit_hb g g' h]; exact hs
  · cases h
theorem keeps_uRet (a : Bool) : KeepsHb (gURet a) := by
  intro g g' h hs; unfold gURet at h
  split at h
  · split at h
    · cases h; simpa [bodyReturned_hb] using hs
    · cases h
  · split at h
    · cases h; exact hs
    · cases h
theorem keeps_uCtx : KeepsHb gUCtx := by
  intro g g' h hs; unfold gUCtx at h; split at h <;> (cases h; try exact hs)

def Inv3 (s : St) : Prop := s.pc.hbLive = true → s.cur.hb.isSome = true

theorem inv3_onCur (s s' : St) (g : Nat) (f : Gen → Option Gen) (hf : KeepsHb f) (hi : Inv3 s)
    (h : onCur s g f = some s') : Inv3 s' := by
  unfold onCur at h
  split at h
  · simp only [Option.map_eq_some_iff] at h
    obtain ⟨cg, hcg, rfl⟩ := h
    intro hp
    exact hf _ _ hcg (hi hp)
  · cases h

theorem inv3_step (c : Cfg) (s s' : St) (e : Ev) (hi : Inv3 s) (h : step c s e = some s') : Inv3 s' := by
  cases e <;> simp only [step] at h
  case nextGenRet m e =>
    split at h
    · split at h <;> (cases h; intro hp; simp [PC.hbLive] at hp)
    · cases h
  case hbCall g gid m => exact inv3_onCur _ _ _ _ (keeps_hbCall gid m) hi h
  case hbRet g e => exact inv3_onCur _ _ _ _ (keeps_hbRet e) hi h
  case hbExit g => exact inv3_onCur _ _ _ _ keeps_hbExit hi h
  case watchCall g t => exact inv3_onCur _ _ _ _ (keeps_watchCall t) hi h
  case watchParts g t n => exact inv3_onCur _ _ _ _ (keeps_watchParts t n) hi h
  case watchErr g t e => exact inv3_onCur _ _ _ _ (keeps_watchErr t e) hi h
  case watchExit g t => exact inv3_onCur _ _ _ _ (keeps_watchExit t) hi h
  case fnExit g cbm l => exact inv3_onCur _ _ _ _ (keeps_fnExit cbm l) hi h
  case uRet g acc =>
    split at h
    · exact inv3_onCur _ _ _ _ (keeps_uRet acc) hi h
    · split at h
      · cases h; exact hi
      · cases h
  case uCtx g =>
    split at h
    · exact inv3_onCur _ _ _ _ keeps_uCtx hi h
    · split at h
      · cases h; exact hi
      · cases h
  case gStart g acc =>
    split at h
    · split at h
      · rename_i k hpc
        simp only [Option.map_eq_some_iff] at h
        obtain ⟨cg, hcg, rfl⟩ := h
        intro _
        show cg.hb.isSome = true
        split at hcg
        · unfold gHbStart at hcg
          simp only at hcg
          split at hcg
          · cases hcg; rfl
          · cases hcg
        · rename_i hk
          have hl : s.pc.hbLive = true := by rw [hpc]; simpa [PC.hbLive] using hk
          exact keeps_watchStart acc _ _ hcg (hi hl)
      · simp only [Option.map_eq_some_iff] at h
        obtain ⟨cg, hcg, rfl⟩ := h
        intro hp
        exact keeps_userStart acc _ _ hcg (hi hp)
    · split at h
      · cases h; exact hi
      · cases h
  case gClose g was r =>
    split at h
    · split at h
      · rename_i hpc _
        cases h
        intro _
        have hl : s.pc.hbLive = true := by rw [hpc]; rfl
        exact hi hl
      · cases h
    · cases h
  all_goals (repeat' split at h)
  all_goals (first | cases h | skip)
  all_goals (try (exact hi))
  all_goals (try (intro hp; simp_all [Inv3, PC.hbLive, afterLeave, coordFail]; done))
  all_goals (try (unfold coordFail afterLeave; (repeat' split) <;> (intro hp; simp_all [Inv3, PC.hbLive]); done))
  all_goals (try (unfold afterLeave; (repeat' split) <;> (intro hp; simp_all [Inv3, PC.hbLive]); done))

theorem inv3_reachable (c : Cfg) (s : St) (h : Reachable c s) : Inv3 s := by
  induction h with
  | init => intro hp; simp [PC.hbLive] at hp
  | step e _ hs ih => exact inv3_step c _ _ e ih hs

end KV.Group
