/-
Lemmas/PullReader.lean — the pull parser of Model/PullReader.lean (message_reader.go / batch.go as written) computes
what the token machine of Model/MessageSetReader.lean computes, whenever the latter does not report a
desynchronisation.  
-/
import KafkaVerif.Model.PullReader
import KafkaVerif.Spec.Layout
import KafkaVerif.Lemmas.FetchDecoder

namespace KV.C02
open Pull

/-- a v0/v1 header token carries magic 0 or 1 (that is what makes it a v0/v1 header) -/
def Tok.wf : Tok → Bool
  | .h1 m _ _ => decide (m ≤ 1)
  | _ => true

/-- the token machine's view of a pull state: where it stands in the stream -/
inductive Cfg
  /-- one reader on the stack -/
  | flat (s : St) (ts : List Tok)
  /-- a decompressed v2 payload with records `rs` still to be read, above the connection's reader -/
  | v2c (s : St) (rs : List (Int × Nat × Nat)) (ts : List Tok)
  /-- the inner messages `ms` of a v0/v1 wrapper still to be read, above the connection's reader -/
  | v1c (s : St) (base : Int) (ms : List (Int × Nat)) (ts : List Tok)

/-- what the token machine makes of the rest -/
def Cfg.res (e : Bool) (o : Int) : Cfg → St × Outcome
  | .flat s ts => run .fixed e o s ts
  | .v2c s rs ts => run .fixed e o (recordsV2 .fixed o s rs) ts
  | .v1c s base ms ts => run .fixed e o (messagesV1 .fixed o base s ms) ts

def Cfg.measure : Cfg → Nat
  | .flat _ ts => 2 * Pull.size ts + 4
  | .v2c _ rs ts => rs.length + 2 * Pull.size ts + 4
  | .v1c _ _ ms ts => 2 * ms.length + 2 * Pull.size ts + 5

/-- the reader part of a token-machine state agrees with a level of the pull reader -/
structure MRel (s : St) (l : Lvl) (m : MSR) : Prop where
  started : s.started = true
  count : s.count = l.count
  magic : s.magic = l.magic
  first : s.first = l.first
  lastD : s.lastD = l.lastD
  hcount : s.hcount = l.hcount
  codec : s.codec = l.codec
  lenRem : s.lenRem = m.lengthRemain
  batchEnd : s.batchEnd = m.batchEnd

/-- the Batch part -/
structure BRel (s : St) (b : Batch) (acc : List Rec) : Prop where
  off : s.off = b.offset
  lastOff : s.lastOff = b.lastOffset
  out : s.out = acc

def SRel (s : St) (l : Lvl) (b : Batch) (acc : List Rec) : Prop := MRel s l b.msgs ∧ BRel s b acc

/-- a pull state and a position of the token machine that describe the same situation -/
inductive Rel : Batch → List Rec → Cfg → Prop
  | flat {b acc s ts l} (hst : b.msgs.stack = [l]) (ht : l.toks = ts) (hb0 : l.base = 0) (hs : SRel s l b acc) (hi : s.inV1 = false)
      (he : b.err = none) (hem : b.msgs.empty = false)
      (hk : l.count > 0 → (l.magic = 2 ∧ (l.codec = true → l.count = l.hcount)) ∨ (l.magic ≤ 1 ∧ l.count = 1 ∧ b.msgs.lengthRemain = 1)) :
      Rel b acc (.flat s ts)
  | v2c {b acc s rs ts c p} (hst : b.msgs.stack = [c, p]) (hct : c.toks = rs.map (fun (d, t, z) => Tok.r2 d t z))
      (hpt : p.toks = ts) (hpb : p.base = 0) (hs : SRel s c b acc) (hi : s.inV1 = false) (he : b.err = none) (hem : b.msgs.empty = false)
      (hcm : c.magic = 2) (hcc : c.count = rs.length) (hne : rs ≠ []) (hlt : c.count < c.hcount)
      (hp : p.count = 0 ∧ p.magic = 2 ∧ p.first = c.first ∧ p.lastD = c.lastD ∧ p.hcount = c.hcount ∧ p.codec = c.codec) :
      Rel b acc (.v2c s rs ts)
  | v1c {b acc s base ms ts c p} (hst : b.msgs.stack = [c, p]) (hct : c.toks = innerToks p.magic ms) (hcb : c.base = base)
      (hc0 : c.count = 0) (hpt : p.toks = ts) (hp0 : p.count = 0) (hpb : p.base = 0) (hpm : p.magic ≤ 1) (hs : SRel s p b acc)
      (hi : s.inV1 = false) (he : b.err = none) (hem : b.msgs.empty = false) (hne : ms ≠ []) (hl1 : b.msgs.lengthRemain = 1) :
      Rel b acc (.v1c s base ms ts)

/-- the end of a batch: `(*Batch).readMessage`'s errShortRead branch is `finish` -/
theorem eof_match (e : Bool) (s : St) (b : Batch) (m : MSR) (acc : List Rec) (h1 : s.started = true)
    (h2 : s.lenRem = m.lengthRemain) (h3 : s.batchEnd = m.batchEnd) (h4 : s.off = b.offset) (h5 : s.lastOff = b.lastOffset)
    (h6 : s.out = acc) :
    let f := finish .fixed e s
    (f.1.out, f.1.off, f.2) =
      (acc,
       (if e then (if m.batchEnd > b.offset then m.batchEnd else b.offset)
        else (if m.batchEnd > (if m.lengthRemain = 0 ∧ b.lastOffset ≥ b.offset then b.lastOffset + 1 else b.offset) then m.batchEnd
              else (if m.lengthRemain = 0 ∧ b.lastOffset ≥ b.offset then b.lastOffset + 1 else b.offset))),
       (if e then Outcome.timedOut else Outcome.eof)) := by
  cases e <;> simp [finish, h1, h2, h3, h4, h5, h6]

end KV.C02

namespace KV.C02
open Pull

def allWF (ts : List Tok) : Prop := ∀ t ∈ ts, t.wf = true

def stH2 (s : St) (b ld : Int) (c : Nat) (z : Bool) (pl : Nat) : St :=
  { s with started := true, count := c, magic := 2, first := b, lastD := ld, hcount := c, codec := z, lenRem := pl,
           batchEnd := if Variant.fixed = Variant.fixed ∧ c = 0 then b + ld + 1 else s.batchEnd, hr := s.hr - 1 }

def lvH2 (l : Lvl) (ts : List Tok) (b ld : Int) (c : Nat) (z : Bool) : Lvl :=
  { l with toks := ts, count := c, magic := 2, first := b, lastD := ld, hcount := c, codec := z }

def msrH2 (m : MSR) (l : Lvl) (ls : List Lvl) (ts : List Tok) (b ld : Int) (c : Nat) (z : Bool) (pl : Nat) : MSR :=
  { m with stack := lvH2 l ts b ld c z :: ls, lengthRemain := pl, batchEnd := if c = 0 then b + ld + 1 else m.batchEnd }

/-- reading one v2 batch header in the pull reader is the token machine's `h2` step -/
theorem readHeader_h2 {e : Bool} {o : Int} {s : St} {l : Lvl} {ls : List Lvl} {m : MSR} (hst : m.stack = l :: ls)
    (hr : MRel s l m) (hi : s.inV1 = false) (hc : l.count = 0) (b ld : Int) (c : Nat) (z : Bool) (pl : Nat) (ts : List Tok)
    (ht : l.toks = Tok.h2 b ld c z pl :: ts) :
    readHeader m = .ok (msrH2 m l ls ts b ld c z pl) ∧
    step .fixed e o s (Tok.h2 b ld c z pl) = .cont (stH2 s b ld c z pl) ∧
    MRel (stH2 s b ld c z pl) (lvH2 l ts b ld c z) (msrH2 m l ls ts b ld c z pl) ∧ (stH2 s b ld c z pl).inV1 = false := by
  have hc0 : s.count = 0 := by rw [hr.count, hc]
  refine ⟨?_, ?_, ?_, hi⟩
  · simp [readHeader, hst, hc, ht, msrH2, lvH2]
  · simp [step, hc0, hi, stH2]
  · exact ⟨rfl, rfl, rfl, rfl, rfl, rfl, rfl, rfl, by simp [stH2, msrH2, hr.batchEnd]⟩

end KV.C02

namespace KV.C02
open Pull

theorem run_cons_cont {e : Bool} {o : Int} {s s' : St} {t : Tok} {ts : List Tok} (h : step .fixed e o s t = .cont s') :
    run .fixed e o s (t :: ts) = run .fixed e o s' ts := by simp [run, h]

theorem run_cons_stop {e : Bool} {o : Int} {s s' : St} {t : Tok} {ts : List Tok} {r : Outcome}
    (h : step .fixed e o s t = .stop s' r) : run .fixed e o s (t :: ts) = (s', r) := by simp [run, h]

theorem size_pos_cons (t : Tok) (ts : List Tok) : Pull.size ts < Pull.size (t :: ts) := by
  cases t <;> simp [Pull.size] <;> omega

def stH1 (s : St) (mg : Nat) (f : Int) (z : Bool) : St :=
  { s with started := true, count := 1, magic := mg, first := f, codec := z, lenRem := 1 }

def lvH1 (l : Lvl) (ts : List Tok) (mg : Nat) (f : Int) (z : Bool) : Lvl :=
  { l with toks := ts, count := 1, magic := mg, first := f, codec := z }

def msrH1 (m : MSR) (l : Lvl) (ls : List Lvl) (ts : List Tok) (mg : Nat) (f : Int) (z : Bool) : MSR :=
  { m with stack := lvH1 l ts mg f z :: ls, lengthRemain := 1 }

/-- reading a v0/v1 message header in the pull reader is the token machine's `h1` step -/
theorem readHeader_h1 {e : Bool} {o : Int} {s : St} {l : Lvl} {ls : List Lvl} {m : MSR} (hst : m.stack = l :: ls)
    (hr : MRel s l m) (hc : l.count = 0) (mg : Nat) (f : Int) (z : Bool) (ts : List Tok) (ht : l.toks = Tok.h1 mg f z :: ts) :
    readHeader m = .ok (msrH1 m l ls ts mg f z) ∧
    step .fixed e o s (Tok.h1 mg f z) = .cont (stH1 s mg f z) ∧
    MRel (stH1 s mg f z) (lvH1 l ts mg f z) (msrH1 m l ls ts mg f z) ∧ (stH1 s mg f z).inV1 = s.inV1 := by
  have hc0 : s.count = 0 := by rw [hr.count, hc]
  refine ⟨?_, ?_, ?_, rfl⟩
  · simp [readHeader, hst, hc, ht, msrH1, lvH1]
  · simp [step, hc0, stH1]
  · exact ⟨rfl, rfl, rfl, rfl, hr.lastD, hr.hcount, rfl, rfl, hr.batchEnd⟩

/-- the loop over empty batches at the head of `readMessage`, one reader on the stack, no batch in progress: it ends at a
v2 batch with records, at a v0/v1 message header, or at the end of the bytes -/
theorem headerLoop_flat (e : Bool) (o : Int) : ∀ (ts : List Tok), allWF ts → ∀ (fuel : Nat), ts.length < fuel →
    ∀ (s : St) (l : Lvl) (m : MSR), m.stack = [l] → l.toks = ts → l.count = 0 → MRel s l m → s.inV1 = false →
    (run .fixed e o s ts).2 ≠ .desync →
    (∃ m' l' s' ts', headerLoop fuel m = .ok m' ∧ m'.stack = [l'] ∧ l'.toks = ts' ∧ l'.base = l.base ∧ m'.empty = m.empty ∧
        MRel s' l' m' ∧ s'.inV1 = false ∧ l'.count > 0 ∧
        ((l'.magic = 2 ∧ l'.count = l'.hcount) ∨ (l'.magic ≤ 1 ∧ l'.count = 1 ∧ m'.lengthRemain = 1)) ∧
        run .fixed e o s ts = run .fixed e o s' ts' ∧ s'.off = s.off ∧ s'.lastOff = s.lastOff ∧ s'.out = s.out ∧
        Pull.size ts' < Pull.size ts ∧ allWF ts') ∨
    (∃ m' s', headerLoop fuel m = .error (.shortRead, m') ∧ run .fixed e o s ts = finish .fixed e s' ∧
        s'.started = true ∧ s'.lenRem = m'.lengthRemain ∧ s'.batchEnd = m'.batchEnd ∧
        s'.off = s.off ∧ s'.lastOff = s.lastOff ∧ s'.out = s.out) := by
  intro ts
  induction ts with
  | nil =>
    intro _ fuel hf s l m hst ht _ hr _ _
    cases fuel with
    | zero => omega
    | succ fuel =>
      right
      exact ⟨m, s, by simp [headerLoop, readHeader, hst, ht, ‹l.count = 0›, bind, Except.bind], by simp [run], hr.started, hr.lenRem, hr.batchEnd, rfl, rfl, rfl⟩
  | cons t ts ih =>
    intro hv fuel hf s l m hst ht hc hr hi hnd
    cases fuel with
    | zero => omega
    | succ fuel =>
      have hvts : allWF ts := fun x hx => hv x (by simp [hx])
      have hc0' : s.count = 0 := by rw [hr.count, hc]
      cases t with
      | cut =>
        right
        refine ⟨m, s, by simp [headerLoop, readHeader, hst, ht, hc, bind, Except.bind], ?_, hr.started, hr.lenRem, hr.batchEnd, rfl, rfl, rfl⟩
        simp [run, step]
      | h2 b ld c z pl =>
        obtain ⟨h1, h2, h3, h4⟩ := readHeader_h2 (e := e) (o := o) hst hr hi hc b ld c z pl ts ht
        have hrun := run_cons_cont (ts := ts) h2
        by_cases hc0 : c = 0
        · -- an empty batch: the loop goes on
          have hl : headerLoop (fuel + 1) m = headerLoop fuel (msrH2 m l [] ts b ld c z pl) := by
            simp [headerLoop, h1, top?, msrH2, lvH2, hc0, bind, Except.bind]
          rw [hrun] at hnd
          have := ih hvts fuel (by simp at hf; omega) (stH2 s b ld c z pl) (lvH2 l ts b ld c z) (msrH2 m l [] ts b ld c z pl)
            rfl rfl (by simp [lvH2, hc0]) h3 h4 hnd
          rcases this with ⟨m', l', s', ts', a1, a2, a3, a4, a4', a5, a5', a6, a7, a9, a10, a11, a12, a13, a14⟩ | ⟨m', s', a1, a2, a3, a4, a5, a6, a7, a8⟩
          · left
            refine ⟨m', l', s', ts', by rw [hl]; exact a1, a2, a3, a4, a4', a5, a5', a6, a7, by rw [hrun]; exact a9, a10, a11, a12, ?_, a14⟩
            have := size_pos_cons (Tok.h2 b ld c z pl) ts; omega
          · right
            exact ⟨m', s', by rw [hl]; exact a1, by rw [hrun]; exact a2, a3, a4, a5, a6, a7, a8⟩
        · left
          refine ⟨msrH2 m l [] ts b ld c z pl, lvH2 l ts b ld c z, stH2 s b ld c z pl, ts, ?_, rfl, rfl, rfl, rfl, h3, h4, ?_,
            Or.inl ⟨rfl, rfl⟩, hrun, rfl, rfl, rfl, size_pos_cons _ _, hvts⟩
          · simp [headerLoop, h1, top?, msrH2, lvH2, hc0, bind, Except.bind, pure, Except.pure]
          · simp [lvH2]; omega
      | h1 mg f z =>
        obtain ⟨h1, h2, h3, h4⟩ := readHeader_h1 (e := e) (o := o) hst hr hc mg f z ts ht
        have hmg : mg ≤ 1 := by have := hv (Tok.h1 mg f z) (by simp); simpa [Tok.wf] using this
        have hne2 : mg ≠ 2 := by omega
        left
        refine ⟨msrH1 m l [] ts mg f z, lvH1 l ts mg f z, stH1 s mg f z, ts, ?_, rfl, rfl, rfl, rfl, h3, by rw [h4]; exact hi, by simp [lvH1],
          Or.inr ⟨hmg, rfl, rfl⟩, run_cons_cont h2, rfl, rfl, rfl, size_pos_cons _ _, hvts⟩
        simp [headerLoop, h1, top?, msrH1, lvH1, hne2, bind, Except.bind, pure, Except.pure]
      | r2 d t z => exfalso; apply hnd; simp [run, step, hc0']
      | z2 p rs => exfalso; apply hnd; simp [run, step, hc0']
      | kv a b => exfalso; apply hnd; simp [run, step, hc0']
      | zv a b => exfalso; apply hnd; simp [run, step, hc0']

end KV.C02

namespace KV.C02
open Pull

def r2s (rs : List (Int × Nat × Nat)) : List Tok := rs.map (fun (d, t, z) => Tok.r2 d t z)

/-- `readMessageV2` reading a record from the level on top (no payload to push) -/
theorem readMessageV2_rec {m : MSR} {c : Lvl} {rest : List Lvl} (hst : m.stack = c :: rest) (hc : c.count > 0)
    (hnp : ¬ (c.count = c.hcount ∧ c.codec = true)) (d : Int) (t z : Nat) (ts : List Tok) (ht : c.toks = Tok.r2 d t z :: ts) :
    readMessageV2 m = .ok ({ m with stack := unwind ({ c with toks := ts, count := c.count - 1 } :: rest),
                                     lengthRemain := m.lengthRemain - z,
                                     batchEnd := if c.count = 1 then c.first + c.lastD + 1 else m.batchEnd },
                           (c.first + d, c.first + c.lastD, t)) := by
  have hc0 : ¬ c.count = 0 := by omega
  simp [readMessageV2, readHeader, hst, hc, hnp, ht, markRead, hc0, bind, Except.bind, pure, Except.pure]

/-- `readMessageV2` at the first record of a compressed batch: decompress, push, read the first record -/
theorem readMessageV2_push {m : MSR} {l : Lvl} (hst : m.stack = [l]) (hc : l.count > 0) (hfirst : l.count = l.hcount)
    (hcodec : l.codec = true) (p : Nat) (d : Int) (t z : Nat) (rs : List (Int × Nat × Nat)) (ts : List Tok)
    (ht : l.toks = Tok.z2 p ((d, t, z) :: rs) :: ts) :
    readMessageV2 m = .ok ({ m with stack := unwind ({ toks := r2s rs, base := -1, count := l.count - 1, magic := l.magic, first := l.first,
                                                        lastD := l.lastD, hcount := l.hcount, codec := l.codec } ::
                                                      [{ l with toks := ts, count := 0 }]),
                                     lengthRemain := m.lengthRemain - z,
                                     batchEnd := if l.count = 1 then l.first + l.lastD + 1 else m.batchEnd },
                           (l.first + d, l.first + l.lastD, t)) := by
  obtain ⟨toks, base, count, magic, first, lastD, hcount, codec⟩ := l
  simp only at hc hfirst hcodec ht
  subst hfirst hcodec ht
  have hc0 : ¬ count = 0 := by omega
  simp [readMessageV2, readHeader, hst, hc, markRead, hc0, r2s, bind, Except.bind, pure, Except.pure]

end KV.C02

namespace KV.C02
open Pull

/-- every field of the token machine's state after one v2 record -/
theorem recordV2_fields (o : Int) (s : St) (d : Int) (t z : Nat) :
    let s' := recordV2 .fixed o s d t z
    let be := if s.count = 1 then s.first + s.lastD + 1 else s.batchEnd
    s'.started = s.started ∧ s'.count = s.count - 1 ∧ s'.magic = s.magic ∧ s'.first = s.first ∧ s'.lastD = s.lastD ∧
    s'.hcount = s.hcount ∧ s'.codec = s.codec ∧ s'.lenRem = s.lenRem - z ∧ s'.batchEnd = be ∧ s'.inV1 = false ∧
    s'.off = (if be > s.first + d + 1 then be else s.first + d + 1) ∧ s'.lastOff = s.first + s.lastD ∧
    s'.out = s.out ++ (if s.first + d < o then [] else [(s.first + d, t)]) := by
  simp only [recordV2, onRecord, true_and]
  split <;> simp

/-- the pull Batch after `readMessage` returned a record, against the token machine after that record -/
theorem after_record {o : Int} {s : St} {c : Lvl} {b : Batch} {acc : List Rec} (hm : MRel s c b.msgs) (hb : BRel s b acc)
    (d : Int) (t z : Nat) (c' : Lvl) (m2 : MSR)
    (hc' : c'.count = c.count - 1 ∧ c'.magic = c.magic ∧ c'.first = c.first ∧ c'.lastD = c.lastD ∧ c'.hcount = c.hcount ∧ c'.codec = c.codec)
    (hl : m2.lengthRemain = b.msgs.lengthRemain - z)
    (hbe : m2.batchEnd = if c.count = 1 then c.first + c.lastD + 1 else b.msgs.batchEnd) :
    let off1 := c.first + d + 1
    let b' : Batch := { b with msgs := m2, offset := if m2.batchEnd > off1 then m2.batchEnd else off1, lastOffset := c.first + c.lastD }
    MRel (recordV2 .fixed o s d t z) c' m2 ∧
    BRel (recordV2 .fixed o s d t z) b' (acc ++ (if c.first + d < o then [] else [(c.first + d, t)])) ∧
    (recordV2 .fixed o s d t z).inV1 = false := by
  obtain ⟨f1, f2, f3, f4, f5, f6, f7, f8, f9, f10, f11, f12, f13⟩ := recordV2_fields o s d t z
  obtain ⟨h1, h2, h3, h4, h5, h6⟩ := hc'
  have hbe' : m2.batchEnd = if s.count = 1 then s.first + s.lastD + 1 else s.batchEnd := by
    rw [hbe, hm.count, hm.first, hm.lastD, hm.batchEnd]
  refine ⟨⟨by rw [f1]; exact hm.started, by rw [f2, h1, hm.count], by rw [f3, h2, hm.magic], by rw [f4, h3, hm.first],
    by rw [f5, h4, hm.lastD], by rw [f6, h5, hm.hcount], by rw [f7, h6, hm.codec], by rw [f8, hl, hm.lenRem], by rw [f9, hbe']⟩,
    ⟨?_, by rw [f12, hm.first, hm.lastD], by rw [f13, hb.out, hm.first]⟩, f10⟩
  rw [f11]
  simp only
  rw [hbe', hm.first]

end KV.C02

namespace KV.C02
open Pull

def cfgWF : Cfg → Prop
  | .flat _ ts => allWF ts
  | .v2c _ _ ts => allWF ts
  | .v1c _ _ _ ts => allWF ts

/-- what one `(*Batch).readMessage` call does, seen from the token machine: a message and a related state further
down the same computation, or the end with the token machine's result -/
def Step (e : Bool) (o : Int) (acc : List Rec) (cfg : Cfg) (res : Batch × Option Msg) : Prop :=
  (∃ b' offset lo tag cfg', res = (b', some (offset, lo, tag)) ∧
      Rel b' (acc ++ (if offset < o then [] else [(offset, tag)])) cfg' ∧ cfg'.res e o = cfg.res e o ∧
      cfg'.measure < cfg.measure ∧ cfgWF cfg') ∨
  (∃ b', res = (b', none) ∧ ((cfg.res e o).1.out, (cfg.res e o).1.off, (cfg.res e o).2) = (acc, b'.offset, b'.err.getD .desync))

theorem unwind_pop (c p : Lvl) (h0 : c.count = 0) (he : c.toks = []) : unwind [c, p] = [p] := by
  simp [unwind, h0, he]

theorem unwind_keep (c p : Lvl) (h0 : c.count ≠ 0) : unwind [c, p] = [c, p] := by
  simp [unwind, h0]

theorem headerLoop_noop (fuel : Nat) (m : MSR) (c : Lvl) (rest : List Lvl) (hst : m.stack = c :: rest) (hc : c.count > 0) :
    headerLoop (fuel + 1) m = .ok m := by
  have : c.count ≠ 0 := by omega
  simp [headerLoop, readHeader, hst, hc, top?, this, bind, Except.bind, pure, Except.pure]

/-- the record that ends up on top after a push or inside a child level: common part of the two cases -/
theorem step_after_read {e : Bool} {o : Int} {b : Batch} {acc : List Rec} {s : St} {c p : Lvl} {d : Int} {t z : Nat}
    {rs : List (Int × Nat × Nat)} {ts : List Tok} (m2 : MSR)
    (hm : MRel s c b.msgs) (hb : BRel s b acc) (hcm : c.magic = 2) (hcc : c.count = rs.length + 1) (hlt : c.count ≤ c.hcount)
    (hp : p.toks = ts ∧ p.count = 0 ∧ p.magic = 2 ∧ p.first = c.first ∧ p.lastD = c.lastD ∧ p.hcount = c.hcount ∧ p.codec = c.codec)
    (hpb : p.base = 0)
    (hst2 : m2.stack = unwind [{ c with toks := r2s rs, count := c.count - 1 }, p]) (hem : m2.empty = false)
    (hl : m2.lengthRemain = b.msgs.lengthRemain - z)
    (hbe : m2.batchEnd = if c.count = 1 then c.first + c.lastD + 1 else b.msgs.batchEnd) (he : b.err = none)
    (hv : allWF ts) :
    let off1 := c.first + d + 1
    let b' : Batch := { b with msgs := m2, offset := if m2.batchEnd > off1 then m2.batchEnd else off1, lastOffset := c.first + c.lastD }
    ∃ cfg', Rel b' (acc ++ (if c.first + d < o then [] else [(c.first + d, t)])) cfg' ∧
      cfg'.res e o = run .fixed e o (recordsV2 .fixed o s ((d, t, z) :: rs)) ts ∧
      cfg'.measure < rs.length + 1 + 2 * Pull.size ts + 4 ∧ cfgWF cfg' := by
  intro off1 b'
  obtain ⟨hpt, hp0, hpm, hpf, hpl, hph, hpc⟩ := hp
  by_cases hrs : rs = []
  · subst hrs
    have hc1 : c.count = 1 := by simpa using hcc
    have hstk : m2.stack = [p] := by
      rw [hst2]; exact unwind_pop _ _ (by simp [hc1]) (by simp [r2s])
    obtain ⟨a1, a2, a3⟩ := after_record (o := o) hm hb d t z p m2
      ⟨by rw [hp0, hc1], by rw [hpm, hcm], hpf, hpl, hph, hpc⟩ hl hbe
    refine ⟨.flat (recordV2 .fixed o s d t z) ts, ?_, by simp [Cfg.res, recordsV2], by simp [Cfg.measure], hv⟩
    exact Rel.flat (l := p) hstk hpt hpb ⟨a1, a2⟩ a3 he hem (by intro h; omega)
  · have hc2 : c.count - 1 ≠ 0 := by
      have : rs.length ≠ 0 := by simpa using hrs
      omega
    have hstk : m2.stack = [{ c with toks := r2s rs, count := c.count - 1 }, p] := by
      rw [hst2]; exact unwind_keep _ _ (by simpa using hc2)
    obtain ⟨a1, a2, a3⟩ := after_record (o := o) hm hb d t z { c with toks := r2s rs, count := c.count - 1 } m2
      ⟨rfl, rfl, rfl, rfl, rfl, rfl⟩ hl hbe
    refine ⟨.v2c (recordV2 .fixed o s d t z) rs ts, ?_, by simp [Cfg.res, recordsV2], by simp [Cfg.measure], hv⟩
    exact Rel.v2c (c := { c with toks := r2s rs, count := c.count - 1 }) (p := p) hstk rfl hpt hpb ⟨a1, a2⟩ a3 he hem hcm
      (by simp only; omega) hrs (by simp only; omega) ⟨hp0, hpm, hpf, hpl, hph, hpc⟩

end KV.C02

namespace KV.C02
open Pull

/-- `(*Batch).readMessage` when `readMessage` returns a message -/
theorem brm_ok {fuel : Nat} {e : Bool} {b : Batch} (he : b.err = none) {m : MSR} {offset lo : Int} {tag : Nat}
    (h : readMessage fuel b.msgs b.offset = .ok (m, (offset, lo, tag))) :
    batchReadMessage fuel e b =
      ({ b with msgs := m, offset := if m.batchEnd > offset + 1 then m.batchEnd else offset + 1, lastOffset := lo },
       some (offset, lo, tag)) := by
  simp [batchReadMessage, he, h]

/-- … when it fails with errShortRead -/
theorem brm_short {fuel : Nat} {e : Bool} {b : Batch} (he : b.err = none) {m : MSR}
    (h : readMessage fuel b.msgs b.offset = .error (.shortRead, m)) :
    batchReadMessage fuel e b =
      (if e then ({ b with msgs := m, offset := if m.batchEnd > b.offset then m.batchEnd else b.offset, err := some .timedOut }, none)
       else ({ b with msgs := m,
                      offset := if m.batchEnd > (if m.lengthRemain = 0 ∧ b.lastOffset ≥ b.offset then b.lastOffset + 1 else b.offset)
                                then m.batchEnd
                                else (if m.lengthRemain = 0 ∧ b.lastOffset ≥ b.offset then b.lastOffset + 1 else b.offset),
                      err := some .eof }, none)) := by
  cases e <;> simp [batchReadMessage, he, h]

/-- the end of the stream, seen from both sides -/
theorem step_eof {e : Bool} {o : Int} {b : Batch} {acc : List Rec} {cfg : Cfg} {fuel : Nat} {m : MSR} {s' : St} (he : b.err = none)
    (h : readMessage fuel b.msgs b.offset = .error (.shortRead, m)) (hres : cfg.res e o = finish .fixed e s')
    (h1 : s'.started = true) (h2 : s'.lenRem = m.lengthRemain) (h3 : s'.batchEnd = m.batchEnd)
    (h4 : s'.off = b.offset) (h5 : s'.lastOff = b.lastOffset) (h6 : s'.out = acc) :
    Step e o acc cfg (batchReadMessage fuel e b) := by
  right
  rw [brm_short he h, hres]
  have := eof_match e s' b m acc h1 h2 h3 h4 h5 h6
  cases e <;> simp_all

/-- a record is read from the decompressed level on top -/
theorem call_child (e : Bool) (o : Int) (fuel : Nat) {b : Batch} {acc : List Rec} {s : St} {rs : List (Int × Nat × Nat)}
    {ts : List Tok} (hrel : Rel b acc (.v2c s rs ts)) (hv : allWF ts) :
    Step e o acc (.v2c s rs ts) (batchReadMessage (fuel + 1) e b) := by
  cases hrel with
  | v2c hst hct hpt hpb hs hi he hem hcm hcc hne hlt hp =>
    rename_i c p
    cases rs with
    | nil => exact absurd rfl hne
    | cons x rs' =>
      obtain ⟨d, t, z⟩ := x
      have hcpos : c.count > 0 := by simp at hcc; omega
      have hct' : c.toks = Tok.r2 d t z :: r2s rs' := by simpa [r2s] using hct
      have hrm : readMessage (fuel + 1) b.msgs b.offset =
          .ok ({ b.msgs with stack := unwind ({ c with toks := r2s rs', count := c.count - 1 } :: [p]),
                             lengthRemain := b.msgs.lengthRemain - z,
                             batchEnd := if c.count = 1 then c.first + c.lastD + 1 else b.msgs.batchEnd },
               (c.first + d, c.first + c.lastD, t)) := by
        have h0 : readMessage (fuel + 1) b.msgs b.offset = readMessageV2 b.msgs := by
          simp [readMessage, hem, headerLoop_noop fuel b.msgs c [p] hst hcpos, bind, Except.bind, top?, hst, hcm]
        rw [h0]
        exact readMessageV2_rec hst hcpos (by omega) d t z (r2s rs') hct'
      left
      rw [brm_ok he hrm]
      obtain ⟨cfg', r1, r2, r3, r4⟩ := step_after_read (e := e) (o := o) (d := d) (t := t) (z := z) (rs := rs') (ts := ts)
        { b.msgs with stack := unwind ({ c with toks := r2s rs', count := c.count - 1 } :: [p]),
                      lengthRemain := b.msgs.lengthRemain - z,
                      batchEnd := if c.count = 1 then c.first + c.lastD + 1 else b.msgs.batchEnd }
        hs.1 hs.2 hcm (by simpa using hcc) (by omega) ⟨hpt, hp⟩ hpb rfl hem rfl rfl he hv
      exact ⟨_, _, _, _, cfg', rfl, r1, by rw [r2]; rfl, by simp only [Cfg.measure, List.length_cons] at r3 ⊢; omega, r4⟩

end KV.C02

namespace KV.C02
open Pull

def isEnd (ts : List Tok) : Prop := ts = [] ∨ ∃ r, ts = Tok.cut :: r

theorem readMessageV2_short {m : MSR} {c : Lvl} {rest : List Lvl} (hst : m.stack = c :: rest) (hc : c.count > 0)
    (hend : isEnd c.toks) : readMessageV2 m = .error (.shortRead, m) := by
  have h1 : readHeader m = .ok m := by simp [readHeader, hst, hc]
  rcases hend with h | ⟨r, h⟩ <;>
    by_cases hp : c.count = c.hcount ∧ c.codec = true <;>
    simp [readMessageV2, h1, hst, h, hp, bind, Except.bind]

theorem run_end {e : Bool} {o : Int} {s : St} {ts : List Tok} (h : isEnd ts) : run .fixed e o s ts = finish .fixed e s := by
  rcases h with h | ⟨r, h⟩ <;> subst h <;> simp [run, step]

theorem unwind_single (l : Lvl) : unwind [l] = [l] := rfl

/-! ### `readMessageV1`: the `for r.readerStack != nil` loop -/

/-- where the loop of `readMessageV1` stands -/
inductive LCfg
  /-- one reader; its v0/v1 header is read (`count = 1`) or the loop is between two messages -/
  | top (s : St) (ts : List Tok)
  /-- the inner messages `ms` of a wrapper on top of the connection's reader -/
  | child (s : St) (base : Int) (ms : List (Int × Nat)) (ts : List Tok)

def LCfg.res (e : Bool) (o : Int) : LCfg → St × Outcome
  | .top s ts => run .fixed e o s ts
  | .child s base ms ts => run .fixed e o (messagesV1 .fixed o base s ms) ts

def LCfg.st : LCfg → St
  | .top s _ => s
  | .child s _ _ _ => s

def LCfg.ts : LCfg → List Tok
  | .top _ ts => ts
  | .child _ _ _ ts => ts

def LCfg.measure : LCfg → Nat
  | .top _ ts => 2 * Pull.size ts + 4
  | .child _ _ ms ts => 2 * ms.length + 2 * Pull.size ts + 5

inductive LRel (m : MSR) : LCfg → Prop
  | top {s ts l} (hst : m.stack = [l]) (ht : l.toks = ts) (hb0 : l.base = 0) (hr : MRel s l m)
      (hk : (l.count = 0 ∧ s.inV1 = true) ∨ (l.count = 1 ∧ l.magic ≤ 1 ∧ m.lengthRemain = 1)) : LRel m (.top s ts)
  | child {s base ms ts c p} (hst : m.stack = [c, p]) (hct : c.toks = innerToks p.magic ms) (hcb : c.base = base)
      (hc0 : c.count = 0) (hpt : p.toks = ts) (hp0 : p.count = 0) (hpb : p.base = 0) (hpm : p.magic ≤ 1) (hr : MRel s p m)
      (hk : ms = [] → s.inV1 = true) (hl1 : m.lengthRemain = 1) : LRel m (.child s base ms ts)

/-- the call returns a message and leaves a related state further down the same computation -/
def Ret (e : Bool) (o : Int) (b : Batch) (acc : List Rec) (R : St × Outcome) (bound : Nat) (res : Except Fail (MSR × Msg)) : Prop :=
  ∃ m2 offset tag cfg', res = .ok (m2, (offset, -1, tag)) ∧
    Rel { b with msgs := m2, offset := if m2.batchEnd > offset + 1 then m2.batchEnd else offset + 1, lastOffset := -1 }
        (acc ++ (if offset < o then [] else [(offset, tag)])) cfg' ∧
    cfg'.res e o = R ∧ cfg'.measure < bound ∧ cfgWF cfg'

/-- the call fails with errShortRead where the token machine finishes -/
def Eof (e : Bool) (b : Batch) (acc : List Rec) (R : St × Outcome) (res : Except Fail (MSR × Msg)) : Prop :=
  ∃ m' s', res = .error (.shortRead, m') ∧ R = finish .fixed e s' ∧ s'.started = true ∧ s'.lenRem = m'.lengthRemain ∧
    s'.batchEnd = m'.batchEnd ∧ s'.off = b.offset ∧ s'.lastOff = b.lastOffset ∧ s'.out = acc

theorem Ret.mono {e : Bool} {o : Int} {b : Batch} {acc : List Rec} {R R' : St × Outcome} {n n' : Nat} {res : Except Fail (MSR × Msg)}
    (h : Ret e o b acc R n res) (hR : R = R') (hn : n ≤ n') : Ret e o b acc R' n' res := by
  obtain ⟨m2, off, tag, cfg', r1, r2, r3, r4, r5⟩ := h
  exact ⟨m2, off, tag, cfg', r1, r2, by rw [r3, hR], by omega, r5⟩

theorem Eof.mono {e : Bool} {b : Batch} {acc : List Rec} {R R' : St × Outcome} {res : Except Fail (MSR × Msg)}
    (h : Eof e b acc R res) (hR : R = R') : Eof e b acc R' res := by
  subst hR; exact h

theorem readMessageV1_body {min : Int} {fuel : Nat} {m m1 : MSR} {l : Lvl} {ls : List Lvl} {x : Tok} {xs : List Tok}
    (hst : m.stack = l :: ls) (ht : l.toks = x :: xs) (hrh : readHeader m = .ok m1) :
    readMessageV1 min (fuel + 1) m = v1Body min (readMessageV1 min fuel) m1 := by
  simp [readMessageV1, hst, ht, hrh, bind, Except.bind]

theorem readMessageV1_herr {min : Int} {fuel : Nat} {m : MSR} {l : Lvl} {ls : List Lvl} {x : Tok} {xs : List Tok} {err : Fail}
    (hst : m.stack = l :: ls) (ht : l.toks = x :: xs) (hrh : readHeader m = .error err) :
    readMessageV1 min (fuel + 1) m = .error err := by
  simp [readMessageV1, hst, ht, hrh, bind, Except.bind]

theorem readMessageV1_pop {min : Int} {fuel : Nat} {m : MSR} {l : Lvl} {ls : List Lvl} (hst : m.stack = l :: ls) (ht : l.toks = []) :
    readMessageV1 min (fuel + 1) m = readMessageV1 min fuel { m with stack := ls } := by
  simp [readMessageV1, hst, ht]

theorem readMessageV1_nil {min : Int} {fuel : Nat} {m : MSR} (hst : m.stack = []) :
    readMessageV1 min (fuel + 1) m = .error (.shortRead, m) := by
  simp [readMessageV1, hst]

theorem readHeader_noop {m : MSR} {l : Lvl} {ls : List Lvl} (hst : m.stack = l :: ls) (hc : l.count > 0) : readHeader m = .ok m := by
  simp [readHeader, hst, hc]

/-- the state after a returned v0/v1 message -/
theorem onRecord_rel {o : Int} {s : St} {l : Lvl} {m2 : MSR} {b : Batch} {acc : List Rec} (hr : MRel s l m2) (hb : BRel s b acc)
    (offset : Int) (tag : Nat) :
    SRel (onRecord .fixed o s offset (-1) tag) l
      { b with msgs := m2, offset := if m2.batchEnd > offset + 1 then m2.batchEnd else offset + 1, lastOffset := -1 }
      (acc ++ (if offset < o then [] else [(offset, tag)])) ∧ (onRecord .fixed o s offset (-1) tag).inV1 = false := by
  refine ⟨⟨⟨hr.started, hr.count, hr.magic, hr.first, hr.lastD, hr.hcount, hr.codec, hr.lenRem, hr.batchEnd⟩, ⟨?_, rfl, ?_⟩⟩, rfl⟩
  · simp [onRecord, hr.batchEnd]
  · by_cases h : offset < o <;> simp [onRecord, h, hb.out]

/-- the body of the loop on the only reader, its v0/v1 header read -/
theorem v1Body_top (e : Bool) (o : Int) (k : MSR → Except Fail (MSR × Msg)) {b : Batch} {acc : List Rec} {s : St} {l : Lvl} {m : MSR}
    {ts : List Tok} (hst : m.stack = [l]) (ht : l.toks = ts) (hb0 : l.base = 0) (hr : MRel s l m) (hc1 : l.count = 1)
    (hmg : l.magic ≤ 1) (hl1 : m.lengthRemain = 1) (hem : m.empty = false) (hb : BRel s b acc) (he : b.err = none) (hv : allWF ts)
    (hnd : (run .fixed e o s ts).2 ≠ .desync) :
    (v1Body b.offset k m = .error (.shortRead, m) ∧ run .fixed e o s ts = finish .fixed e s) ∨
    (∃ m2 lc2, v1Body b.offset k m = k m2 ∧ LRel m2 lc2 ∧ m2.empty = false ∧ BRel lc2.st b acc ∧
        lc2.res e o = run .fixed e o s ts ∧ lc2.measure < 2 * Pull.size ts + 4 ∧ allWF lc2.ts) ∨
    Ret e o b acc (run .fixed e o s ts) (2 * Pull.size ts + 4) (v1Body b.offset k m) := by
  have hs1 : s.count = 1 := by rw [hr.count, hc1]
  have hsm : s.magic = 0 ∨ s.magic = 1 := by rw [hr.magic]; omega
  have hsc0 : ¬ s.count = 0 := by omega
  cases hcd : l.codec with
  | false =>
    have hscd : s.codec = false := by rw [hr.codec, hcd]
    cases ts with
    | nil => left; exact ⟨by simp [v1Body, hst, hcd, ht], by simp [run]⟩
    | cons tk ts' =>
      have hvts : allWF ts' := fun x hx => hv x (by simp [hx])
      cases tk with
      | cut => left; exact ⟨by simp [v1Body, hst, hcd, ht], by simp [run, step]⟩
      | kv t z =>
        have hstep : step .fixed e o s (.kv t z) = .cont (messageV1 .fixed o { s with count := 0 } s.first t) := by
          rcases hsm with h | h <;> simp [step, h, hs1, hscd]
        have hrun := run_cons_cont (ts := ts') hstep
        have hmr : markRead { m with stack := [{ l with toks := ts' }] } = .ok { m with stack := [{ l with toks := ts', count := 0 }] } := by
          simp [markRead, hc1, unwind]
        have hr0 : MRel { s with count := 0 } { l with toks := ts', count := 0 } { m with stack := [{ l with toks := ts', count := 0 }] } :=
          ⟨hr.started, rfl, hr.magic, hr.first, hr.lastD, hr.hcount, hr.codec, hr.lenRem, hr.batchEnd⟩
        by_cases hlt : l.first + l.base < b.offset
        · right; left
          have hlt' : s.first < s.off := by rw [hr.first, hb.off]; rw [hb0] at hlt; omega
          refine ⟨{ m with stack := [{ l with toks := ts', count := 0 }] }, .top { s with count := 0, inV1 := true } ts', ?_, ?_, hem,
            ⟨hb.off, hb.lastOff, hb.out⟩, ?_, ?_, hvts⟩
          · simp [v1Body, hst, hcd, ht, hlt, markRead, hc1, unwind, bind, Except.bind]
          · exact LRel.top (l := { l with toks := ts', count := 0 }) rfl rfl hb0
              ⟨hr.started, rfl, hr.magic, hr.first, hr.lastD, hr.hcount, hr.codec, hr.lenRem, hr.batchEnd⟩ (Or.inl ⟨rfl, rfl⟩)
          · rw [hrun]; simp [LCfg.res, messageV1, hlt']
          · simp only [LCfg.measure, Pull.size]; omega
        · right; right
          have hlt' : ¬ s.first < s.off := by rw [hr.first, hb.off]; rw [hb0] at hlt; omega
          have hoff : l.first + l.base = s.first := by rw [hr.first, hb0]; omega
          obtain ⟨q1, q2⟩ := onRecord_rel (o := o) hr0 ⟨hb.off, hb.lastOff, hb.out⟩ s.first t
          refine ⟨{ m with stack := [{ l with toks := ts', count := 0 }] }, s.first, t,
            .flat (onRecord .fixed o { s with count := 0 } s.first (-1) t) ts', ?_, ?_, ?_, ?_, hvts⟩
          · have hlt2 : ¬ s.first < b.offset := by rw [← hoff]; exact hlt
            simp [v1Body, hst, hcd, ht, hlt2, markRead, hc1, unwind, hoff, bind, Except.bind, pure, Except.pure]
          · exact Rel.flat (l := { l with toks := ts', count := 0 }) rfl rfl hb0 q1 q2 he hem (by intro h; simp at h)
          · rw [hrun]; simp [Cfg.res, messageV1, hlt']
          · simp only [Cfg.measure, Pull.size]; omega
      | h2 a1 a2 a3 a4 a5 => exfalso; apply hnd; simp [run, step, hs1]
      | h1 a1 a2 a3 => exfalso; apply hnd; simp [run, step, hs1]
      | r2 a1 a2 a3 => exfalso; apply hnd; rcases hsm with h | h <;> simp [run, step, h]
      | z2 a1 a2 => exfalso; apply hnd; rcases hsm with h | h <;> simp [run, step, h]
      | zv a1 a2 => exfalso; apply hnd; simp [run, step, hscd]
  | true =>
    have hscd : s.codec = true := by rw [hr.codec, hcd]
    cases ts with
    | nil => left; exact ⟨by simp [v1Body, hst, hcd, ht], by simp [run]⟩
    | cons tk ts' =>
      have hvts : allWF ts' := fun x hx => hv x (by simp [hx])
      cases tk with
      | cut => left; exact ⟨by simp [v1Body, hst, hcd, ht], by simp [run, step]⟩
      | zv z inner =>
        have hstep : step .fixed e o s (.zv z inner) =
            .cont (messagesV1 .fixed o (wrapperBase s.first inner) { s with count := 0, inV1 := true } inner) := by
          rcases hsm with h | h <;> simp [step, h, hs1, hscd]
        have hrun := run_cons_cont (ts := ts') hstep
        have hmr : markRead { m with stack := [{ l with toks := ts' }] } = .ok { m with stack := [{ l with toks := ts', count := 0 }] } := by
          simp [markRead, hc1, unwind]
        right; left
        refine ⟨{ m with stack := [{ toks := innerToks l.magic inner, base := wrapperBase l.first inner }, { l with toks := ts', count := 0 }] },
          .child { s with count := 0, inV1 := true } (wrapperBase s.first inner) inner ts', ?_, ?_, hem,
          ⟨hb.off, hb.lastOff, hb.out⟩, ?_, ?_, hvts⟩
        · simp [v1Body, hst, hcd, ht, markRead, hc1, unwind, bind, Except.bind]
        · refine LRel.child (c := { toks := innerToks l.magic inner, base := wrapperBase l.first inner }) (p := { l with toks := ts', count := 0 })
            rfl rfl (by simp [hr.first]) rfl rfl rfl hb0 hmg
            ⟨hr.started, rfl, hr.magic, hr.first, hr.lastD, hr.hcount, hr.codec, hr.lenRem, hr.batchEnd⟩ (fun _ => rfl) hl1
        · rw [hrun]; simp [LCfg.res]
        · simp only [LCfg.measure, Pull.size]; omega
      | h2 a1 a2 a3 a4 a5 => exfalso; apply hnd; simp [run, step, hs1]
      | h1 a1 a2 a3 => exfalso; apply hnd; simp [run, step, hs1]
      | r2 a1 a2 a3 => exfalso; apply hnd; rcases hsm with h | h <;> simp [run, step, h]
      | z2 a1 a2 => exfalso; apply hnd; rcases hsm with h | h <;> simp [run, step, h]
      | kv a1 a2 => exfalso; apply hnd; simp [run, step, hscd]


theorem unwind_keep_toks (c p : Lvl) (x : Tok) (xs : List Tok) (h : c.toks = x :: xs) : unwind [c, p] = [c, p] := by
  simp [unwind, h]

/-- one round of the loop on an inner message of a wrapper -/
theorem v1_child_iter (min : Int) (fuel : Nat) {m : MSR} {c p : Lvl} (hst : m.stack = [c, p]) (hc0 : c.count = 0) (mg : Nat) (f : Int)
    (t : Nat) (rest : List Tok) (ht : c.toks = Tok.h1 mg f false :: Tok.kv t 0 :: rest) :
    readMessageV1 min (fuel + 1) m =
      if f + c.base < min then
        readMessageV1 min fuel
          { m with stack := unwind [{ c with toks := rest, count := 0, magic := mg, first := f, codec := false }, p], lengthRemain := 1 }
      else .ok ({ m with stack := unwind [{ c with toks := rest, count := 0, magic := mg, first := f, codec := false }, p],
                         lengthRemain := 1 }, (f + c.base, -1, t)) := by
  simp [readMessageV1, v1Body, readHeader, markRead, hst, hc0, ht, bind, Except.bind, pure, Except.pure]

theorem v1_after_body (e : Bool) (o : Int) {b : Batch} {acc : List Rec} (he : b.err = none) (fuel : Nat)
    (IH : ∀ (lc : LCfg) (m : MSR), lc.measure ≤ fuel → LRel m lc → m.empty = false → BRel lc.st b acc → allWF lc.ts →
      (lc.res e o).2 ≠ .desync →
      Ret e o b acc (lc.res e o) lc.measure (readMessageV1 b.offset fuel m) ∨ Eof e b acc (lc.res e o) (readMessageV1 b.offset fuel m))
    {s : St} {l : Lvl} {m : MSR} {ts : List Tok} (hst : m.stack = [l]) (ht : l.toks = ts) (hb0 : l.base = 0) (hr : MRel s l m)
    (hc1 : l.count = 1) (hmg : l.magic ≤ 1) (hl1 : m.lengthRemain = 1) (hem : m.empty = false) (hb : BRel s b acc) (hv : allWF ts)
    (hnd : (run .fixed e o s ts).2 ≠ .desync) (hf : 2 * Pull.size ts + 4 ≤ fuel + 1) :
    Ret e o b acc (run .fixed e o s ts) (2 * Pull.size ts + 4) (v1Body b.offset (readMessageV1 b.offset fuel) m) ∨
    Eof e b acc (run .fixed e o s ts) (v1Body b.offset (readMessageV1 b.offset fuel) m) := by
  rcases v1Body_top e o (readMessageV1 b.offset fuel) hst ht hb0 hr hc1 hmg hl1 hem hb he hv hnd with
    ⟨a1, a2⟩ | ⟨m2, lc2, a1, a2, a3, a4, a5, a6, a7⟩ | h
  · right; exact ⟨m, s, a1, a2, hr.started, hr.lenRem, hr.batchEnd, hb.off, hb.lastOff, hb.out⟩
  · rw [a1]
    rcases IH lc2 m2 (by omega) a2 a3 a4 a7 (by rw [a5]; exact hnd) with h | h
    · left; exact h.mono a5 (by omega)
    · right; exact h.mono a5
  · left; exact h

/-- **the loop of `readMessageV1`**: from any state of the loop it returns the message the token machine delivers next
(skipping what lies below `min`, descending into wrappers, popping exhausted readers) or fails with errShortRead where
the token machine finishes -/
theorem v1_loop (e : Bool) (o : Int) {b : Batch} {acc : List Rec} (he : b.err = none) :
    ∀ (fuel : Nat) (lc : LCfg) (m : MSR), lc.measure ≤ fuel → LRel m lc → m.empty = false → BRel lc.st b acc → allWF lc.ts →
      (lc.res e o).2 ≠ .desync →
      Ret e o b acc (lc.res e o) lc.measure (readMessageV1 b.offset fuel m) ∨ Eof e b acc (lc.res e o) (readMessageV1 b.offset fuel m) := by
  intro fuel
  induction fuel with
  | zero => intro lc m hm; cases lc <;> simp [LCfg.measure] at hm
  | succ fuel ih =>
    intro lc m hm hrel hem hb hv hnd
    cases hrel with
    | top hst ht hb0 hr hk =>
      rename_i s ts l
      simp only [LCfg.st] at hb
      simp only [LCfg.ts] at hv
      simp only [LCfg.res] at hnd ⊢
      simp only [LCfg.measure] at hm ⊢
      cases ts with
      | nil =>
        right
        cases fuel with
        | zero => omega
        | succ fuel' =>
          rw [readMessageV1_pop hst ht, readMessageV1_nil rfl]
          exact ⟨_, s, rfl, by simp [run], hr.started, hr.lenRem, hr.batchEnd, hb.off, hb.lastOff, hb.out⟩
      | cons tk ts' =>
        have hvts : allWF ts' := fun x hx => hv x (by simp [hx])
        rcases hk with ⟨hc0, hin⟩ | ⟨hc1, hmg, hl1⟩
        · have hs0 : s.count = 0 := by rw [hr.count, hc0]
          cases tk with
          | cut =>
            right
            have : readHeader m = .error (.shortRead, m) := by simp [readHeader, hst, hc0, ht]
            rw [readMessageV1_herr hst ht this]
            exact ⟨m, s, rfl, by simp [run, step], hr.started, hr.lenRem, hr.batchEnd, hb.off, hb.lastOff, hb.out⟩
          | h1 mg f z =>
            obtain ⟨h1, h2, h3, h4⟩ := readHeader_h1 (e := e) (o := o) hst hr hc0 mg f z ts' ht
            have hmg : mg ≤ 1 := by have := hv (Tok.h1 mg f z) (by simp); simpa [Tok.wf] using this
            have hrun := run_cons_cont (ts := ts') h2
            rw [readMessageV1_body hst ht h1, hrun]
            rw [hrun] at hnd
            have hsz : Pull.size (Tok.h1 mg f z :: ts') = 1 + Pull.size ts' := by simp [Pull.size]
            rcases v1_after_body e o he fuel ih (s := stH1 s mg f z) (l := lvH1 l ts' mg f z) (m := msrH1 m l [] ts' mg f z) (ts := ts')
              rfl rfl hb0 h3 rfl hmg rfl hem ⟨hb.off, hb.lastOff, hb.out⟩ hvts hnd (by omega) with h | h
            · left; exact h.mono rfl (by omega)
            · right; exact h
          | h2 a1 a2 a3 a4 a5 => exfalso; apply hnd; simp [run, step, hin]
          | r2 a1 a2 a3 => exfalso; apply hnd; simp [run, step, hs0]
          | z2 a1 a2 => exfalso; apply hnd; simp [run, step, hs0]
          | kv a1 a2 => exfalso; apply hnd; simp [run, step, hs0]
          | zv a1 a2 => exfalso; apply hnd; simp [run, step, hs0]
        · rw [readMessageV1_body hst ht (readHeader_noop hst (by omega))]
          exact v1_after_body e o he fuel ih hst ht hb0 hr hc1 hmg hl1 hem hb hv hnd hm
    | child hst hct hcb hc0 hpt hp0 hpb hpm hr hk hl1 =>
      rename_i s base ms ts c p
      subst hcb
      simp only [LCfg.st] at hb
      simp only [LCfg.ts] at hv
      simp only [LCfg.res] at hnd ⊢
      simp only [LCfg.measure] at hm ⊢
      have hlen1 : s.lenRem = 1 := by rw [hr.lenRem, hl1]
      cases ms with
      | nil =>
        have hct' : c.toks = [] := by simpa [innerToks] using hct
        rw [readMessageV1_pop hst hct']
        simp only [messagesV1] at hnd ⊢
        rcases ih (.top s ts) { m with stack := [p] } (by simp only [LCfg.measure, List.length_nil] at hm ⊢; omega)
          (LRel.top (l := p) rfl hpt hpb ⟨hr.started, hr.count, hr.magic, hr.first, hr.lastD, hr.hcount, hr.codec, hr.lenRem, hr.batchEnd⟩
            (Or.inl ⟨hp0, hk rfl⟩)) hem hb hv hnd with h | h
        · left; exact h.mono rfl (by simp only [LCfg.measure, List.length_nil]; omega)
        · right; exact h
      | cons x ms' =>
        obtain ⟨f, t⟩ := x
        have hct' : c.toks = Tok.h1 p.magic f false :: Tok.kv t 0 :: innerToks p.magic ms' := by simpa [innerToks] using hct
        rw [v1_child_iter b.offset fuel hst hc0 p.magic f t _ hct']
        simp only [messagesV1] at hnd ⊢
        simp only [List.length_cons] at hm ⊢
        by_cases hlt : f + c.base < b.offset
        · simp only [hlt, if_true]
          have hlt' : f + c.base < s.off := by rw [hb.off]; exact hlt
          have hms : messageV1 .fixed o s (f + c.base) t = { s with inV1 := true } := by simp [messageV1, hlt']
          rw [hms] at hnd ⊢
          cases ms' with
          | nil =>
            rw [unwind_pop _ p rfl (by simp [innerToks])]
            simp only [messagesV1] at hnd ⊢
            rcases ih (.top { s with inV1 := true } ts) { m with stack := [p], lengthRemain := 1 }
              (by simp only [LCfg.measure]; omega)
              (LRel.top (l := p) rfl hpt hpb ⟨hr.started, hr.count, hr.magic, hr.first, hr.lastD, hr.hcount, hr.codec, hlen1, hr.batchEnd⟩
                (Or.inl ⟨hp0, rfl⟩)) hem ⟨hb.off, hb.lastOff, hb.out⟩ hv hnd with h | h
            · left; exact h.mono rfl (by simp only [LCfg.measure]; omega)
            · right; exact h
          | cons y ms'' =>
            obtain ⟨f2, t2⟩ := y
            rw [unwind_keep_toks _ p (Tok.h1 p.magic f2 false) (Tok.kv t2 0 :: innerToks p.magic ms'') (by simp [innerToks])]
            rcases ih (.child { s with inV1 := true } c.base ((f2, t2) :: ms'') ts)
              { m with stack := [{ c with toks := innerToks p.magic ((f2, t2) :: ms''), count := 0, magic := p.magic, first := f, codec := false }, p],
                       lengthRemain := 1 }
              (by simp only [LCfg.measure, List.length_cons] at hm ⊢; omega)
              (LRel.child (c := { c with toks := innerToks p.magic ((f2, t2) :: ms''), count := 0, magic := p.magic, first := f, codec := false })
                (p := p) rfl rfl rfl rfl hpt hp0 hpb hpm
                ⟨hr.started, hr.count, hr.magic, hr.first, hr.lastD, hr.hcount, hr.codec, hlen1, hr.batchEnd⟩ (fun h => by simp at h) rfl)
              hem ⟨hb.off, hb.lastOff, hb.out⟩ hv hnd with h | h
            · left; exact h.mono rfl (by simp only [LCfg.measure, List.length_cons]; omega)
            · right; exact h
        · simp only [hlt, if_false]
          left
          have hlt' : ¬ f + c.base < s.off := by rw [hb.off]; exact hlt
          have hms : messageV1 .fixed o s (f + c.base) t = onRecord .fixed o s (f + c.base) (-1) t := by simp [messageV1, hlt']
          rw [hms]
          cases ms' with
          | nil =>
            rw [unwind_pop _ p rfl (by simp [innerToks])]
            obtain ⟨q1, q2⟩ := onRecord_rel (o := o) (s := s) (l := p) (m2 := { m with stack := [p], lengthRemain := 1 }) (b := b) (acc := acc)
              ⟨hr.started, hr.count, hr.magic, hr.first, hr.lastD, hr.hcount, hr.codec, hlen1, hr.batchEnd⟩ hb (f + c.base) t
            refine ⟨_, _, _, .flat (onRecord .fixed o s (f + c.base) (-1) t) ts, rfl, ?_, by simp [Cfg.res, messagesV1],
              by simp only [Cfg.measure]; omega, hv⟩
            exact Rel.flat (l := p) rfl hpt hpb q1 q2 he hem (by intro h; omega)
          | cons y ms'' =>
            obtain ⟨f2, t2⟩ := y
            rw [unwind_keep_toks _ p (Tok.h1 p.magic f2 false) (Tok.kv t2 0 :: innerToks p.magic ms'') (by simp [innerToks])]
            obtain ⟨q1, q2⟩ := onRecord_rel (o := o) (s := s) (l := p)
              (m2 := { m with stack := [{ c with toks := innerToks p.magic ((f2, t2) :: ms''), count := 0, magic := p.magic, first := f, codec := false }, p],
                              lengthRemain := 1 }) (b := b) (acc := acc)
              ⟨hr.started, hr.count, hr.magic, hr.first, hr.lastD, hr.hcount, hr.codec, hlen1, hr.batchEnd⟩ hb (f + c.base) t
            refine ⟨_, _, _, .v1c (onRecord .fixed o s (f + c.base) (-1) t) c.base ((f2, t2) :: ms'') ts, rfl, ?_, by simp [Cfg.res],
              by simp only [Cfg.measure, List.length_cons]; omega, hv⟩
            exact Rel.v1c (c := { c with toks := innerToks p.magic ((f2, t2) :: ms''), count := 0, magic := p.magic, first := f, codec := false })
              (p := p) rfl rfl rfl rfl hpt hp0 hpb hpm q1 q2 he hem (by simp) rfl


theorem step_of_v1 {e : Bool} {o : Int} {b : Batch} {acc : List Rec} {cfg : Cfg} {fuel : Nat} {R : Except Fail (MSR × Msg)}
    (he : b.err = none) (hrm : readMessage fuel b.msgs b.offset = R)
    (h : Ret e o b acc (cfg.res e o) cfg.measure R ∨ Eof e b acc (cfg.res e o) R) : Step e o acc cfg (batchReadMessage fuel e b) := by
  rcases h with ⟨m2, off, tag, cfg', r1, r2, r3, r4, r5⟩ | ⟨m', s', r1, r2, r3, r4, r5, r6, r7, r8⟩
  · left
    rw [brm_ok he (by rw [hrm, r1])]
    exact ⟨_, _, _, _, cfg', rfl, r2, r3, r4, r5⟩
  · exact step_eof he (by rw [hrm, r1]) r2 r3 r4 r5 r6 r7 r8

/-- inside a wrapper the loop at the head of `readMessage` reads the inner message's header; `readMessageV1` goes on from there -/
theorem readMessage_inner (min : Int) (fuel : Nat) {m : MSR} {c p : Lvl} (hst : m.stack = [c, p]) (hem : m.empty = false)
    (hc0 : c.count = 0) (mg : Nat) (f : Int) (t : Nat) (rest : List Tok) (hmg : mg ≠ 2)
    (ht : c.toks = Tok.h1 mg f false :: Tok.kv t 0 :: rest) :
    readMessage (fuel + 1) m min = readMessageV1 min (fuel + 1) m := by
  simp [readMessage, hem, headerLoop, readHeader, hst, hc0, ht, top?, hmg, readMessageV1, v1Body, bind, Except.bind, pure, Except.pure]

/-- a batch is in progress on the only reader -/
theorem call_flat_pos (e : Bool) (o : Int) (fuel : Nat) {b : Batch} {acc : List Rec} {s : St} {ts : List Tok}
    (hrel : Rel b acc (.flat s ts)) (hv : allWF ts) (hpos : s.count > 0) (hnd : (run .fixed e o s ts).2 ≠ .desync)
    (hf : 2 * Pull.size ts + 4 ≤ fuel + 1) :
    Step e o acc (.flat s ts) (batchReadMessage (fuel + 1) e b) := by
  cases hrel with
  | flat hst ht hb0 hs hi he hem hk =>
    rename_i l
    have hlpos : l.count > 0 := by rw [← hs.1.count]; exact hpos
    rcases hk hlpos with ⟨hmag, hc⟩ | ⟨hmag, hc1, hl1⟩
    case inr =>
      have h0 : readMessage (fuel + 1) b.msgs b.offset = readMessageV1 b.offset (fuel + 1) b.msgs := by
        have : l.magic ≠ 2 := by omega
        simp [readMessage, hem, headerLoop_noop fuel b.msgs l [] hst hlpos, bind, Except.bind, top?, hst, this]
      exact step_of_v1 he h0 (v1_loop e o he (fuel + 1) (.top s ts) b.msgs hf
        (LRel.top hst ht hb0 hs.1 (Or.inr ⟨hc1, hmag, hl1⟩)) hem hs.2 hv hnd)
    have hs2 : s.magic = 2 := by rw [hs.1.magic, hmag]
    have hsc0 : ¬ s.count = 0 := by omega
    have h0 : readMessage (fuel + 1) b.msgs b.offset = readMessageV2 b.msgs := by
      simp [readMessage, hem, headerLoop_noop fuel b.msgs l [] hst hlpos, bind, Except.bind, top?, hst, hmag]
    cases hcd : l.codec with
    | true =>
      have hfirst := hc hcd
      have hscd : s.codec = true := by rw [hs.1.codec, hcd]
      cases ts with
      | nil =>
        exact step_eof he (by rw [h0]; exact readMessageV2_short hst hlpos (Or.inl ht)) (by simp [Cfg.res, run]) hs.1.started
          hs.1.lenRem hs.1.batchEnd hs.2.off hs.2.lastOff hs.2.out
      | cons tk ts' =>
        have hvts : allWF ts' := fun x hx => hv x (by simp [hx])
        cases tk with
        | cut =>
          exact step_eof he (by rw [h0]; exact readMessageV2_short hst hlpos (Or.inr ⟨ts', ht⟩)) (by simp [Cfg.res, run, step])
            hs.1.started hs.1.lenRem hs.1.batchEnd hs.2.off hs.2.lastOff hs.2.out
        | z2 p recs =>
          have hlen : recs.length = s.count := by
            by_cases hne : recs.length = s.count
            · exact hne
            · exfalso
              apply hnd
              have hch : s.count = s.hcount := by rw [hs.1.count, hs.1.hcount]; exact hfirst
              have hne' : ¬ recs.length = s.hcount := by rw [← hch]; exact hne
              simp [run, step, hs2, hscd, hch, hne']
          cases recs with
          | nil => simp at hlen; omega
          | cons x rs' =>
            obtain ⟨d, t, z⟩ := x
            have hstep : step .fixed e o s (.z2 p ((d, t, z) :: rs')) = .cont (recordsV2 .fixed o s ((d, t, z) :: rs')) := by
              have hch : s.count = s.hcount := by rw [hs.1.count, hs.1.hcount]; exact hfirst
              have hh0 : ¬ s.hcount = 0 := by rw [← hch]; exact hsc0
              have hlen' : ((d, t, z) :: rs').length = s.hcount := by rw [← hch]; exact hlen
              simp only [List.length_cons] at hlen'
              simp [step, hs2, hscd, hch, hh0, hlen']
            left
            rw [brm_ok he (by rw [h0]; exact readMessageV2_push hst hlpos hfirst hcd p d t z rs' ts' ht)]
            obtain ⟨cfg', r1, r2, r3, r4⟩ := step_after_read (e := e) (o := o) (d := d) (t := t) (z := z) (rs := rs') (ts := ts')
              (c := { toks := r2s ((d, t, z) :: rs'), base := -1, count := l.count, magic := l.magic, first := l.first, lastD := l.lastD,
                      hcount := l.hcount, codec := l.codec })
              (p := { l with toks := ts', count := 0 })
              { b.msgs with stack := unwind ({ toks := r2s rs', base := -1, count := l.count - 1, magic := l.magic, first := l.first,
                                                lastD := l.lastD, hcount := l.hcount, codec := l.codec } ::
                                              [{ l with toks := ts', count := 0 }]),
                            lengthRemain := b.msgs.lengthRemain - z,
                            batchEnd := if l.count = 1 then l.first + l.lastD + 1 else b.msgs.batchEnd }
              ⟨hs.1.started, hs.1.count, hs.1.magic, hs.1.first, hs.1.lastD, hs.1.hcount, hs.1.codec, hs.1.lenRem, hs.1.batchEnd⟩
              hs.2 hmag (by simp only; rw [← hs.1.count, ← hlen]; simp) (by simp only; omega)
              ⟨rfl, rfl, hmag, rfl, rfl, rfl, rfl⟩ hb0 rfl hem rfl rfl he hvts
            refine ⟨_, _, _, _, cfg', rfl, r1, ?_, ?_, r4⟩
            · rw [r2]; simp [Cfg.res, run, hstep]
            · simp only [Cfg.measure, Pull.size, List.length_cons] at r3 ⊢; omega
        | h2 a1 a2 a3 a4 a5 => exfalso; apply hnd; simp [run, step, hpos]
        | r2 a1 a2 a3 => exfalso; apply hnd; simp [run, step, hscd]
        | h1 a1 a2 a3 => exfalso; apply hnd; simp [run, step, hpos]
        | kv a1 a2 => exfalso; apply hnd; simp [run, step, hs2]
        | zv a1 a2 => exfalso; apply hnd; simp [run, step, hs2]
    | false =>
      have hscd : s.codec = false := by rw [hs.1.codec, hcd]
      cases ts with
      | nil =>
        exact step_eof he (by rw [h0]; exact readMessageV2_short hst hlpos (Or.inl ht)) (by simp [Cfg.res, run]) hs.1.started
          hs.1.lenRem hs.1.batchEnd hs.2.off hs.2.lastOff hs.2.out
      | cons tk ts' =>
        have hvts : allWF ts' := fun x hx => hv x (by simp [hx])
        cases tk with
        | cut =>
          exact step_eof he (by rw [h0]; exact readMessageV2_short hst hlpos (Or.inr ⟨ts', ht⟩)) (by simp [Cfg.res, run, step])
            hs.1.started hs.1.lenRem hs.1.batchEnd hs.2.off hs.2.lastOff hs.2.out
        | r2 d t z =>
          have hstep : step .fixed e o s (.r2 d t z) = .cont (recordV2 .fixed o s d t z) := by simp [step, hs2, hsc0, hscd]
          left
          rw [brm_ok he (by rw [h0]; exact readMessageV2_rec hst hlpos (by simp [hcd]) d t z ts' ht)]
          obtain ⟨a1, a2, a3⟩ := after_record (o := o) hs.1 hs.2 d t z { l with toks := ts', count := l.count - 1 }
            { b.msgs with stack := unwind ({ l with toks := ts', count := l.count - 1 } :: []),
                          lengthRemain := b.msgs.lengthRemain - z,
                          batchEnd := if l.count = 1 then l.first + l.lastD + 1 else b.msgs.batchEnd }
            ⟨rfl, rfl, rfl, rfl, rfl, rfl⟩ rfl rfl
          refine ⟨_, _, _, _, .flat (recordV2 .fixed o s d t z) ts', rfl, ?_, by simp [Cfg.res, run, hstep],
            by simp only [Cfg.measure]; have := size_pos_cons (Tok.r2 d t z) ts'; omega, hvts⟩
          exact Rel.flat (l := { l with toks := ts', count := l.count - 1 }) (by simp [unwind_single]) rfl hb0 ⟨a1, a2⟩ a3 he hem
            (fun _ => Or.inl ⟨hmag, by intro h; simp [hcd] at h⟩)
        | h2 a1 a2 a3 a4 a5 => exfalso; apply hnd; simp [run, step, hpos]
        | z2 a1 a2 => exfalso; apply hnd; simp [run, step, hscd]
        | h1 a1 a2 a3 => exfalso; apply hnd; simp [run, step, hpos]
        | kv a1 a2 => exfalso; apply hnd; simp [run, step, hs2]
        | zv a1 a2 => exfalso; apply hnd; simp [run, step, hs2]

end KV.C02

namespace KV.C02
open Pull

theorem step_mono {e : Bool} {o : Int} {acc : List Rec} {cfg cfg2 : Cfg} {res : Batch × Option Msg}
    (h : Step e o acc cfg2 res) (hres : cfg2.res e o = cfg.res e o) (hm : cfg2.measure ≤ cfg.measure) : Step e o acc cfg res := by
  rcases h with ⟨b', off, lo, tag, cfg', r1, r2, r3, r4, r5⟩ | ⟨b', r1, r2⟩
  · left; exact ⟨b', off, lo, tag, cfg', r1, r2, by rw [r3, hres], by omega, r5⟩
  · right; exact ⟨b', r1, by rw [← hres]; exact r2⟩

/-- no batch in progress on the only reader: the loop over empty batches, then as above -/
theorem call_flat_zero (e : Bool) (o : Int) (fuel : Nat) {b : Batch} {acc : List Rec} {s : St} {ts : List Tok}
    (hrel : Rel b acc (.flat s ts)) (hv : allWF ts) (hzero : s.count = 0) (hnd : (run .fixed e o s ts).2 ≠ .desync)
    (hf : ts.length < fuel + 1) (hf2 : 2 * Pull.size ts + 4 ≤ fuel + 1) :
    Step e o acc (.flat s ts) (batchReadMessage (fuel + 1) e b) := by
  cases hrel with
  | flat hst ht hb0 hs hi he hem hk =>
    rename_i l
    have hl0 : l.count = 0 := by rw [← hs.1.count]; exact hzero
    rcases headerLoop_flat e o ts hv (fuel + 1) hf s l b.msgs hst ht hl0 hs.1 hi hnd with
      ⟨m', l', s', ts', a1, a2, a3, a4, a4', a5, a5', a6, a7, a9, a10, a11, a12, a13, a14⟩ | ⟨m', s', a1, a2, a3, a4, a5, a6, a7, a8⟩
    · -- a batch with records, or a v0/v1 message, was found
      have hrel1 : Rel { b with msgs := m' } acc (.flat s' ts') :=
        Rel.flat (l := l') a2 a3 (by rw [a4]; exact hb0)
          ⟨a5, ⟨by rw [a10]; exact hs.2.off, by rw [a11]; exact hs.2.lastOff, by rw [a12]; exact hs.2.out⟩⟩ a5' he
          (by simp only; rw [a4']; exact hem) (fun _ => a7.imp (fun h => ⟨h.1, fun _ => h.2⟩) id)
      have hpos : s'.count > 0 := by rw [a5.count]; exact a6
      have hsame : batchReadMessage (fuel + 1) e b = batchReadMessage (fuel + 1) e { b with msgs := m' } := by
        have hrm : readMessage (fuel + 1) b.msgs b.offset = readMessage (fuel + 1) m' b.offset := by
          simp [readMessage, hem, a4', a1, headerLoop_noop fuel m' l' [] a2 a6, bind, Except.bind]
        simp only [batchReadMessage, he, hrm]
      rw [hsame]
      refine step_mono (call_flat_pos e o fuel hrel1 a14 hpos (by rw [← a9]; exact hnd) (by omega)) (by simp [Cfg.res, a9]) ?_
      simp only [Cfg.measure]; omega
    · exact step_eof he (by simp [readMessage, hem, a1, bind, Except.bind]) (by simp [Cfg.res, a2]) a3 a4 a5
        (by rw [a6]; exact hs.2.off) (by rw [a7]; exact hs.2.lastOff) (by rw [a8]; exact hs.2.out)

/-- one `(*Batch).readMessage` call, any related state -/
theorem call_any (e : Bool) (o : Int) (fuel : Nat) {b : Batch} {acc : List Rec} {cfg : Cfg} (hrel : Rel b acc cfg) (hv : cfgWF cfg)
    (hnd : (cfg.res e o).2 ≠ .desync) (hf : cfg.measure < fuel + 1) :
    Step e o acc cfg (batchReadMessage (fuel + 1) e b) := by
  cases cfg with
  | v2c s rs ts => exact call_child e o fuel hrel hv
  | flat s ts =>
    have hlen : ts.length ≤ Pull.size ts := by
      clear hrel hv hnd hf
      induction ts with
      | nil => simp [Pull.size]
      | cons t ts ih => cases t <;> simp [Pull.size] <;> omega
    by_cases h0 : s.count = 0
    · exact call_flat_zero e o fuel hrel hv h0 hnd (by simp only [Cfg.measure] at hf; omega) (by simp only [Cfg.measure] at hf; omega)
    · exact call_flat_pos e o fuel hrel hv (by omega) hnd (by simp only [Cfg.measure] at hf; omega)
  | v1c s base ms ts =>
    cases hrel with
    | v1c hst hct hcb hc0 hpt hp0 hpb hpm hs hi he hem hne hl1 =>
      rename_i c p
      have h0 : readMessage (fuel + 1) b.msgs b.offset = readMessageV1 b.offset (fuel + 1) b.msgs := by
        cases ms with
        | nil => exact absurd rfl hne
        | cons x ms' =>
          obtain ⟨f, t⟩ := x
          exact readMessage_inner b.offset fuel hst hem hc0 p.magic f t (innerToks p.magic ms') (by omega) (by simpa [innerToks] using hct)
      exact step_of_v1 he h0 (v1_loop e o he (fuel + 1) (.child s base ms ts) b.msgs (by simp only [Cfg.measure, LCfg.measure] at hf ⊢; omega)
        (LRel.child hst hct hcb hc0 hpt hp0 hpb hpm hs.1 (fun h => absurd h hne) hl1) hem hs.2 hv hnd)

end KV.C02

namespace KV.C02
open Pull

/-- `(*Batch).ReadMessage`: messages below the conn offset are skipped -/
theorem skip_eq (e : Bool) (o : Int) : ∀ (n : Nat) (fuel : Nat) (b : Batch) (acc : List Rec) (cfg : Cfg), cfg.measure ≤ n → n < fuel →
    Rel b acc cfg → cfgWF cfg → (cfg.res e o).2 ≠ .desync →
    (∃ b' offset lo tag cfg', batchReadMessageSkip o e fuel b = (b', some (offset, lo, tag)) ∧
        Rel b' (acc ++ [(offset, tag)]) cfg' ∧ cfg'.res e o = cfg.res e o ∧ cfg'.measure < cfg.measure ∧ cfgWF cfg') ∨
    (∃ b', batchReadMessageSkip o e fuel b = (b', none) ∧
        ((cfg.res e o).1.out, (cfg.res e o).1.off, (cfg.res e o).2) = (acc, b'.offset, b'.err.getD .desync)) := by
  intro n
  induction n with
  | zero =>
    intro fuel b acc cfg hm hf hrel hv hnd
    cases fuel with
    | zero => omega
    | succ fuel =>
      rcases call_any e o fuel hrel hv hnd (by omega) with ⟨b', off, lo, tag, cfg', r1, r2, r3, r4, r5⟩ | ⟨b', r1, r2⟩
      · omega
      · right; exact ⟨b', by simp [batchReadMessageSkip, r1], r2⟩
  | succ n ih =>
    intro fuel b acc cfg hm hf hrel hv hnd
    cases fuel with
    | zero => omega
    | succ fuel =>
      rcases call_any e o fuel hrel hv hnd (by omega) with ⟨b', off, lo, tag, cfg', r1, r2, r3, r4, r5⟩ | ⟨b', r1, r2⟩
      · by_cases hlt : off < o
        · -- skipped: the same question for the state after it
          simp only [hlt, if_true, List.append_nil] at r2
          have := ih fuel b' acc cfg' (by omega) (by omega) r2 r5 (by rw [r3]; exact hnd)
          have hsk : batchReadMessageSkip o e (fuel + 1) b = batchReadMessageSkip o e fuel b' := by
            simp [batchReadMessageSkip, r1, hlt]
          rcases this with ⟨b2, off2, lo2, tag2, cfg2, s1, s2, s3, s4, s5⟩ | ⟨b2, s1, s2⟩
          · left; exact ⟨b2, off2, lo2, tag2, cfg2, by rw [hsk]; exact s1, s2, by rw [s3, r3], by omega, s5⟩
          · right; exact ⟨b2, by rw [hsk]; exact s1, by rw [← r3]; exact s2⟩
        · left
          simp only [hlt, if_false] at r2
          exact ⟨b', off, lo, tag, cfg', by simp [batchReadMessageSkip, r1, hlt], r2, r3, r4, r5⟩
      · right; exact ⟨b', by simp [batchReadMessageSkip, r1], r2⟩

/-- reading a Batch to its end gives what the token machine computes for the rest of the stream -/
theorem drain_eq (e : Bool) (o : Int) : ∀ (n : Nat) (fuel : Nat) (b : Batch) (acc : List Rec) (cfg : Cfg), cfg.measure ≤ n → n < fuel →
    Rel b acc cfg → cfgWF cfg → (cfg.res e o).2 ≠ .desync →
    ((drain o e fuel b acc).2, (drain o e fuel b acc).1.offset, (drain o e fuel b acc).1.err.getD .desync)
      = ((cfg.res e o).1.out, (cfg.res e o).1.off, (cfg.res e o).2) := by
  intro n
  induction n with
  | zero =>
    intro fuel b acc cfg hm hf hrel hv hnd
    cases fuel with
    | zero => omega
    | succ fuel =>
      rcases skip_eq e o 0 (fuel + 1) b acc cfg hm (by omega) hrel hv hnd with ⟨b', off, lo, tag, cfg', r1, r2, r3, r4, r5⟩ | ⟨b', r1, r2⟩
      · omega
      · simp [drain, r1, r2]
  | succ n ih =>
    intro fuel b acc cfg hm hf hrel hv hnd
    cases fuel with
    | zero => omega
    | succ fuel =>
      rcases skip_eq e o (n + 1) (fuel + 1) b acc cfg hm (by omega) hrel hv hnd with ⟨b', off, lo, tag, cfg', r1, r2, r3, r4, r5⟩ | ⟨b', r1, r2⟩
      · have := ih fuel b' (acc ++ [(off, tag)]) cfg' (by omega) (by omega) r2 r5 (by rw [r3]; exact hnd)
        simp only [drain, r1]
        rw [this, r3]
      · simp [drain, r1, r2]

end KV.C02

namespace KV.C02
open Pull

/-- **the pull parser is the token machine**: whenever the token machine does not report a
desynchronisation, `Conn.ReadBatch` + `ReadMessage`* + `Close` as written in Go (Model/PullReader.lean) deliver the
same messages, leave the same conn offset and end the same way. -/
theorem pull_eq_run_all (e : Bool) (o hwm : Int) (toks : List Tok) (hv : allWF toks)
    (hnd : (readAll .fixed e o hwm toks).2.2 ≠ .desync) :
    Pull.readAll e o hwm toks = readAll .fixed e o hwm toks := by
  unfold Pull.readAll readAll at *
  by_cases hh : hwm = o
  · simp [hh]
  · simp only [hh, if_false] at hnd ⊢
    cases toks with
    | nil => simp [readHeader, run, finish]
    | cons tk ts =>
      have hvts : allWF ts := fun x hx => hv x (by simp [hx])
      cases tk with
      | cut => simp [readHeader, run, step, finish]
      | h2 b ld c z pl =>
        have hstep : step .fixed e o { off := o } (Tok.h2 b ld c z pl) = .cont (stH2 { off := o } b ld c z pl) := by
          simp [step, stH2]
        have hrh : readHeader { stack := [{ toks := Tok.h2 b ld c z pl :: ts }] }
            = .ok (msrH2 { stack := [{ toks := Tok.h2 b ld c z pl :: ts }] } { toks := Tok.h2 b ld c z pl :: ts } [] ts b ld c z pl) := by
          simp [readHeader, msrH2, lvH2]
        have hrun : run .fixed e o { off := o } (Tok.h2 b ld c z pl :: ts) = run .fixed e o (stH2 { off := o } b ld c z pl) ts :=
          run_cons_cont hstep
        rw [hrun] at hnd ⊢
        simp only [hrh]
        have hrel : Rel { msgs := msrH2 { stack := [{ toks := Tok.h2 b ld c z pl :: ts }] } { toks := Tok.h2 b ld c z pl :: ts } [] ts b ld c z pl,
                          offset := o, started := true } [] (.flat (stH2 { off := o } b ld c z pl) ts) := by
          refine Rel.flat (l := lvH2 { toks := Tok.h2 b ld c z pl :: ts } ts b ld c z) rfl rfl rfl ?_ rfl rfl rfl
            (fun _ => Or.inl ⟨rfl, fun _ => rfl⟩)
          exact ⟨⟨rfl, rfl, rfl, rfl, rfl, rfl, rfl, rfl, by simp [stH2, msrH2]⟩, ⟨rfl, rfl, rfl⟩⟩
        have hd := drain_eq e o (2 * Pull.size ts + 4) (2 * Pull.size (Tok.h2 b ld c z pl :: ts) + 8) _ [] _ (Nat.le_refl _)
          (by simp [Pull.size]; omega) hrel hvts (by simpa [Cfg.res] using hnd)
        simp only [Cfg.res] at hd
        have h1 := congrArg Prod.fst hd
        have h2 := congrArg (fun x => x.2.1) hd
        have h3 := congrArg (fun x => x.2.2) hd
        simp only at h1 h2 h3
        simp only [h1, h2, h3]
      | r2 a1 a2 a3 => exfalso; apply hnd; simp [run, step]
      | z2 a1 a2 => exfalso; apply hnd; simp [run, step]
      | kv a1 a2 => exfalso; apply hnd; simp [run, step]
      | zv a1 a2 => exfalso; apply hnd; simp [run, step]
      | h1 mg f z =>
        have hmg : mg ≤ 1 := by have := hv (Tok.h1 mg f z) (by simp); simpa [Tok.wf] using this
        have hstep : step .fixed e o { off := o } (Tok.h1 mg f z) = .cont (stH1 { off := o } mg f z) := by
          simp [step, stH1]
        have hrh : readHeader { stack := [{ toks := Tok.h1 mg f z :: ts }] }
            = .ok (msrH1 { stack := [{ toks := Tok.h1 mg f z :: ts }] } { toks := Tok.h1 mg f z :: ts } [] ts mg f z) := by
          simp [readHeader, msrH1, lvH1]
        have hrun : run .fixed e o { off := o } (Tok.h1 mg f z :: ts) = run .fixed e o (stH1 { off := o } mg f z) ts :=
          run_cons_cont hstep
        rw [hrun] at hnd ⊢
        simp only [hrh]
        have hrel : Rel { msgs := msrH1 { stack := [{ toks := Tok.h1 mg f z :: ts }] } { toks := Tok.h1 mg f z :: ts } [] ts mg f z,
                          offset := o, started := true } [] (.flat (stH1 { off := o } mg f z) ts) := by
          refine Rel.flat (l := lvH1 { toks := Tok.h1 mg f z :: ts } ts mg f z) rfl rfl rfl ?_ rfl rfl rfl
            (fun _ => Or.inr ⟨hmg, rfl, rfl⟩)
          exact ⟨⟨rfl, rfl, rfl, rfl, rfl, rfl, rfl, rfl, rfl⟩, ⟨rfl, rfl, rfl⟩⟩
        have hd := drain_eq e o (2 * Pull.size ts + 4) (2 * Pull.size (Tok.h1 mg f z :: ts) + 8) _ [] _ (Nat.le_refl _)
          (by simp [Pull.size]; omega) hrel hvts (by simpa [Cfg.res] using hnd)
        simp only [Cfg.res] at hd
        have h1 := congrArg Prod.fst hd
        have h2 := congrArg (fun x => x.2.1) hd
        have h3 := congrArg (fun x => x.2.2) hd
        simp only at h1 h2 h3
        simp only [h1, h2, h3]

end KV.C02

namespace KV.C02

theorem allWF_truncate : ∀ (ts : List Tok) (n : Nat), allWF ts → allWF (truncate ts n) := by
  intro ts
  induction ts with
  | nil => intro n _; simp [truncate, allWF]
  | cons t ts ih =>
    intro n h
    have ht : t.wf = true := h t (by simp)
    have hts : allWF ts := fun x hx => h x (by simp [hx])
    unfold truncate
    split
    · intro x hx
      simp only [List.mem_cons] at hx
      rcases hx with rfl | hx
      · exact ht
      · exact ih _ hts x hx
    · split
      · simp [allWF]
      · intro x hx; simp only [List.mem_singleton] at hx; subst hx; rfl

theorem allWF_tokens : ∀ (items : List Item) (nb : Int), LWF nb items → allWF (allTokens items) := by
  intro items
  induction items with
  | nil => intro _ _ x hx; simp [allTokens] at hx
  | cons it rest ih =>
    intro nb h x hx
    simp only [allTokens, List.flatMap_cons, List.mem_append] at hx
    cases it with
    | b2 base last codec plen recs =>
      simp only [LWF] at h
      rcases hx with hx | hx
      · cases codec
        · simp only [tokensOf, Bool.false_eq_true, if_false, List.mem_cons, List.mem_map] at hx
          rcases hx with hx | ⟨y, _, hx⟩
          · rw [hx]; rfl
          · rw [← hx]; rfl
        · simp only [tokensOf, if_true, List.mem_cons, List.not_mem_nil, or_false] at hx
          rcases hx with hx | hx <;> (rw [hx]; rfl)
      · exact ih _ h.2.2.2.2.2 x (by simpa [allTokens] using hx)
    | m magic off tag size =>
      simp only [LWF] at h
      rcases hx with hx | hx
      · simp only [tokensOf, List.mem_cons, List.not_mem_nil, or_false] at hx
        rcases hx with hx | hx
        · rw [hx]; simp only [Tok.wf, decide_eq_true_eq]; omega
        · rw [hx]; rfl
      · exact ih _ h.2.2.2 x (by simpa [allTokens] using hx)
    | w magic woff size inner =>
      simp only [LWF] at h
      rcases hx with hx | hx
      · simp only [tokensOf, List.mem_cons, List.not_mem_nil, or_false] at hx
        rcases hx with hx | hx
        · rw [hx]; simp only [Tok.wf, decide_eq_true_eq]; omega
        · rw [hx]; rfl
      · exact ih _ h.2.2.2.2 x (by simpa [allTokens] using hx)

end KV.C02
