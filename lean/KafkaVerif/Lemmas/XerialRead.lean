/-
Lemmas/XerialRead.lean — the io.Reader contract of `xerialReader.Read` for buffers with len < cap: with the comparison
found in the source (`n <= len(dst)`) every Read hands out at most len(p) bytes; with `cap(dst)` it would not.
-/
import KafkaVerif.Lemmas.XerialReader

namespace KV.Model.Xerial
open KV KV.RW KV.Spec.Xerial

/-- the block codec reports decoded lengths truthfully (snappy.DecodedLen is the length snappy.Decode produces) -/
def Truthful (c : Codec) : Prop := ∀ input n b, c.decodedLen input = some n → c.dec input = some b → b.length = n

theorem decodeInto_direct_le (c : Codec) (ht : Truthful c) (r : Reader) (input : Bytes) (k : Nat) (b : Bytes)
    (h : (decodeInto c r input k).2 = .direct b) : b.length ≤ k := by
  unfold decodeInto at h
  cases hl : c.decodedLen input with
  | none => rw [hl] at h; cases hd : c.dec input <;> simp [hd] at h
  | some n =>
    rw [hl] at h
    cases hd : c.dec input with
    | none => simp [hd] at h
    | some b' =>
      simp only [hd] at h
      by_cases hn : n ≤ k
      · simp only [hn, if_true, Chunk.direct.injEq] at h
        subst h
        rw [ht input n b' hl hd]; exact hn
      · simp [hn] at h

theorem framedBody_direct_le (c : Codec) (ht : Truthful c) (r : Reader) (k : Nat) (b : Bytes)
    (h : (framedBody c r k).2 = .direct b) : b.length ≤ k := by
  simp only [framedBody] at h
  split at h
  · simp at h
  · split at h
    · simp at h
    · split at h
      · split at h <;> simp at h
      · exact decodeInto_direct_le c ht _ _ k b h

theorem unframedBody_direct_le (c : Codec) (ht : Truthful c) (r : Reader) (pre k : Nat) (b : Bytes)
    (h : (unframedBody c r pre k).2 = .direct b) : b.length ≤ k := by
  simp only [unframedBody] at h
  split at h
  · simp at h
  · exact decodeInto_direct_le c ht _ _ k b h

theorem readChunk_direct_le (c : Codec) (ht : Truthful c) (r : Reader) (k : Nat) (b : Bytes)
    (h : (readChunk c r k).2 = .direct b) : b.length ≤ k := by
  rw [readChunk_eq] at h
  cases hh : headerPhase (clearOut r) with
  | none => rw [hh] at h; simp at h
  | some x =>
    obtain ⟨r', pre⟩ := x
    rw [hh] at h
    simp only at h
    split at h
    · exact framedBody_direct_le c ht _ k b h
    · exact unframedBody_direct_le c ht _ _ k b h

/-- every data answer of `Read` with copy bound `len` and direct-decode bound `bound`: at most `max len bound` bytes, and
at most `len` when the bound is `len` -/
theorem readB_le (c : Codec) (ht : Truthful c) : ∀ (fuel : Nat) (r r' : Reader) (len bound : Nat) (d : Bytes),
    readB c fuel r len bound = (r', .data d) → d.length ≤ len ∨ d.length ≤ bound
  | 0, _, _, _, _, _, h => by simp [readB] at h
  | fuel + 1, r, r', len, bound, d, h => by
    simp only [readB] at h
    by_cases ho : r.offset < r.output.length
    · rw [if_pos ho] at h
      simp only [Prod.mk.injEq, ReadRes.data.injEq] at h
      obtain ⟨_, h2⟩ := h
      subst h2
      left; simp only [List.length_take]; omega
    · rw [if_neg ho] at h
      cases hrc : readChunk c r bound with
      | mk r2 ch =>
        rw [hrc] at h
        cases ch with
        | eof => simp at h
        | err => simp at h
        | buffered => exact readB_le c ht fuel r2 r' len bound d h
        | direct b =>
          simp only at h
          by_cases hb : b.length > 0
          · rw [if_pos hb] at h
            simp only [Prod.mk.injEq, ReadRes.data.injEq] at h
            obtain ⟨_, h2⟩ := h
            subst h2
            right
            exact readChunk_direct_le c ht r bound _ (by rw [hrc])
          · rw [if_neg hb] at h
            exact readB_le c ht fuel r2 r' len bound d h

/-- with both bounds equal `readB` is `read` -/
theorem readB_eq_read (c : Codec) : ∀ (fuel : Nat) (r : Reader) (k : Nat), readB c fuel r k k = read c fuel r k
  | 0, _, _ => rfl
  | fuel + 1, r, k => by
    simp only [readB, read]
    split
    · rfl
    · cases readChunk c r k with
      | mk r2 ch =>
        cases ch <;> simp only [readB_eq_read c fuel]

/-- the comparison in the source is with `len(dst)` (breaks when it becomes `cap(dst)`) -/
theorem directBound_len (len cap : Nat) : directBound len cap = len := by
  simp [directBound, Gen.XerialFacts.directDecodeBound]

end KV.Model.Xerial
