/-
Lemmas/WriterFirstCopy.lean — what a reader of the partition log sees (C07 across retries): `InvFirst`:
every log entry is a message of its batch, and an entry x of a batch is preceded, in the log, by an entry for every
message of that batch that was submitted before x — copies are whole batches in batch order, so the FIRST copy of a
batch already is in submission order.  With `InvOrd.logOrd` this gives: whenever y stands after x in the log although
y was submitted earlier, y is a repeated copy — the same message already stands before x.
-/
import KafkaVerif.Lemmas.WriterProgress

namespace KV.Writer

structure InvFirst (s : State) : Prop where
  entryIn : ∀ tp, ∀ x ∈ s.log tp, ∃ B, s.batches x.batch = some B ∧ ∃ m ∈ B.msgs, m.seq = x.seq ∧ m.msg = x.msg
  prefixCopy : ∀ tp l1 x l2, s.log tp = l1 ++ x :: l2 → ∀ B, s.batches x.batch = some B →
    ∀ m ∈ B.msgs, m.seq < x.seq → ∃ y ∈ l1, y.seq = m.seq ∧ y.msg = m.msg

theorem invFirst_init : InvFirst State.init := by
  constructor
  · intro tp x hx; simp [State.init] at hx
  · intro tp l1 x l2 h; simp [State.init] at h

/-- frame: logs unchanged; every batch keeps its messages or (not being in any log's reach: the new message carries
the current stamp) gets one appended; new batches are not referred to by any log entry -/
theorem InvFirst.of_frame {s s' : State} (hO : InvOrd s) (h : InvFirst s) (hlog : s'.log = s.log)
    (hbat : ∀ b B, s.batches b = some B → ∃ B', s'.batches b = some B' ∧
      (B'.msgs = B.msgs ∨ ∃ m, B'.msgs = B.msgs ++ [m] ∧ m.seq = s.seq)) : InvFirst s' := by
  constructor
  · intro tp x hx
    rw [hlog] at hx
    obtain ⟨B, hB, m, hm, e1, e2⟩ := h.entryIn tp x hx
    obtain ⟨B', hB', hm'⟩ := hbat _ B hB
    refine ⟨B', hB', m, ?_, e1, e2⟩
    rcases hm' with e | ⟨m0, e, -⟩
    · rw [e]; exact hm
    · rw [e]; exact List.mem_append_left _ hm
  · intro tp l1 x l2 hl B' hB' m hm hlt
    rw [hlog] at hl
    have hx : x ∈ s.log tp := by rw [hl]; simp
    obtain ⟨B, hB, -⟩ := h.entryIn tp x hx
    obtain ⟨B'', hB'', hm'⟩ := hbat _ B hB
    rw [hB'] at hB''; cases hB''
    rcases hm' with e | ⟨m0, e, es⟩
    · exact h.prefixCopy tp l1 x l2 hl B hB m (e ▸ hm) hlt
    · rw [e] at hm
      rcases List.mem_append.mp hm with hm | hm
      · exact h.prefixCopy tp l1 x l2 hl B hB m hm hlt
      · simp at hm; subst hm
        have := hO.counterL tp x hx
        rw [es] at hlt
        exact absurd hlt (Nat.lt_asymm this)

theorem fcframe_bat_id {s s' : State} (e : s'.batches = s.batches) :
    ∀ b B, s.batches b = some B → ∃ B', s'.batches b = some B' ∧
      (B'.msgs = B.msgs ∨ ∃ m, B'.msgs = B.msgs ++ [m] ∧ m.seq = s.seq) :=
  fun b B h => ⟨B, by rw [e]; exact h, Or.inl rfl⟩

theorem fcframe_bat_upd {s s' : State} {b : Nat} {B0 B0' : Batch} (hB : s.batches b = some B0)
    (e : s'.batches = upd s.batches b (some B0'))
    (h1 : B0'.msgs = B0.msgs ∨ ∃ m, B0'.msgs = B0.msgs ++ [m] ∧ m.seq = s.seq) :
    ∀ x X, s.batches x = some X → ∃ X', s'.batches x = some X' ∧
      (X'.msgs = X.msgs ∨ ∃ m, X'.msgs = X.msgs ++ [m] ∧ m.seq = s.seq) := by
  intro x X hx
  by_cases hxb : x = b
  · subst hxb; rw [hB] at hx; cases hx
    exact ⟨B0', by rw [e]; simp, h1⟩
  · exact ⟨X, by rw [e, upd_other _ _ _ _ hxb]; exact hx, Or.inl rfl⟩

/-- a new batch is added under an unused id -/
theorem fcframe_bat_new {s s' : State} {b : Nat} {B0' : Batch} (hnone : s.batches b = none)
    (e : s'.batches = upd s.batches b (some B0')) :
    ∀ x X, s.batches x = some X → ∃ X', s'.batches x = some X' ∧
      (X'.msgs = X.msgs ∨ ∃ m, X'.msgs = X.msgs ++ [m] ∧ m.seq = s.seq) := by
  intro x X hx
  have hxb : x ≠ b := by rintro rfl; rw [hnone] at hx; cases hx
  exact ⟨X, by rw [e, upd_other _ _ _ _ hxb]; exact hx, Or.inl rfl⟩

/-- the applied produce: the whole batch, in batch order, is appended to the log of its partition -/
theorem invFirst_produce {s s' : State} (hO : InvOrd s) (h : InvFirst s) {pw b : Nat} {B : Batch} {tp : TP} {out : BrOut}
    (hB : s.batches b = some B)
    (ebat : s'.batches = upd s.batches b (some (B.noteProduce out)))
    (elog : s'.log = upd s.log tp (s.log tp ++ mkEntries pw b B)) : InvFirst s' := by
  have hlogtp : s'.log tp = s.log tp ++ mkEntries pw b B := by rw [elog]; simp
  have hlogne : ∀ t, t ≠ tp → s'.log t = s.log t := fun t ht => by rw [elog]; exact upd_other _ _ _ _ ht
  -- batches keep their messages
  have hbat : ∀ x X', s'.batches x = some X' → ∃ X, s.batches x = some X ∧ X'.msgs = X.msgs := by
    intro x X' hx
    rw [ebat] at hx
    rcases upd_some_elim hx with ⟨rfl, rfl⟩ | ⟨-, hx⟩
    · exact ⟨B, hB, rfl⟩
    · exact ⟨X', hx, rfl⟩
  have hbat' : ∀ x X, s.batches x = some X → ∃ X', s'.batches x = some X' ∧ X'.msgs = X.msgs := by
    intro x X hx
    by_cases hxb : x = b
    · subst hxb; rw [hB] at hx; cases hx
      exact ⟨B.noteProduce out, by rw [ebat]; simp, rfl⟩
    · exact ⟨X, by rw [ebat, upd_other _ _ _ _ hxb]; exact hx, rfl⟩
  have hsorted := hO.sorted b B hB
  constructor
  · intro t x hx
    by_cases ht : t = tp
    · subst ht; rw [hlogtp] at hx
      rcases List.mem_append.mp hx with hx | hx
      · obtain ⟨X, hX, m, hm, e1, e2⟩ := h.entryIn t x hx
        obtain ⟨X', hX', em⟩ := hbat' _ X hX
        exact ⟨X', hX', m, em ▸ hm, e1, e2⟩
      · obtain ⟨m, hm, rfl⟩ := List.mem_map.mp hx
        obtain ⟨X', hX', em⟩ := hbat' _ B hB
        exact ⟨X', hX', m, em ▸ hm, rfl, rfl⟩
    · rw [hlogne t ht] at hx
      obtain ⟨X, hX, m, hm, e1, e2⟩ := h.entryIn t x hx
      obtain ⟨X', hX', em⟩ := hbat' _ X hX
      exact ⟨X', hX', m, em ▸ hm, e1, e2⟩
  · intro t l1 x l2 hl X' hX' m hm hlt
    obtain ⟨X, hX, em⟩ := hbat _ X' hX'
    rw [em] at hm
    by_cases ht : t = tp
    · subst ht; rw [hlogtp] at hl
      rcases List.append_eq_append_iff.mp hl with ⟨a', e1, e2⟩ | ⟨c', e1, e2⟩
      · -- x lies in the appended copy: l1 = old log ++ a', mkEntries = a' ++ x :: l2
        -- e1 : l1 = s.log t ++ a', e2 : mkEntries pw b B = a' ++ x :: l2
        obtain ⟨p, q', hpq, hp, hq'⟩ := List.map_eq_append_iff.mp e2
        obtain ⟨mx, q, hq, hfx, -⟩ := List.map_eq_cons_iff.mp hq'
        subst hfx
        -- x.batch = b, so X = B
        have hXB : X = B := by
          have : s.batches b = some X := hX
          rw [hB] at this; cases this; rfl
        subst hXB
        have hsplit : X.msgs = p ++ mx :: q := by rw [hpq, hq]
        rw [hsplit] at hsorted hm
        have hmp : m ∈ p := by
          rcases List.mem_append.mp hm with hm | hm
          · exact hm
          · exfalso
            rcases List.mem_cons.mp hm with rfl | hmq
            · exact Nat.lt_irrefl _ hlt
            · have hs2 := (List.pairwise_append.mp hsorted).2.1
              have := (List.pairwise_cons.mp hs2).1 m hmq
              exact Nat.lt_asymm this hlt
        refine ⟨{ msg := m.msg, seq := m.seq, batch := b, ord := X.ord, pw := pw }, ?_, rfl, rfl⟩
        rw [e1]
        apply List.mem_append_right
        rw [← hp]
        exact List.mem_map.mpr ⟨m, hmp, rfl⟩
      · -- x lies in the old log
        -- e1 : s.log t = l1 ++ c', e2 : x :: l2 = c' ++ mkEntries
        cases c' with
        | nil =>
          -- x is the first appended entry: l1 = old log
          simp only [List.nil_append] at e2
          simp only [List.append_nil] at e1
          obtain ⟨mx, q, hq, hfx, -⟩ := List.map_eq_cons_iff.mp e2.symm
          subst hfx
          have hXB : X = B := by
            have : s.batches b = some X := hX
            rw [hB] at this; cases this; rfl
          subst hXB
          rw [hq] at hsorted hm
          exfalso
          rcases List.mem_cons.mp hm with rfl | hmq
          · exact Nat.lt_irrefl _ hlt
          · have := (List.pairwise_cons.mp hsorted).1 m hmq
            exact Nat.lt_asymm this hlt
        | cons c cs =>
          simp only [List.cons_append, List.cons.injEq] at e2
          obtain ⟨rfl, -⟩ := e2
          exact h.prefixCopy t l1 x cs e1 X hX m hm hlt
    · rw [hlogne t ht] at hl
      exact h.prefixCopy t l1 x l2 hl X hX m hm hlt

theorem invFirst_step (cfg : Cfg) (s : State) (e : Event) (s' : State) (hO : InvOrd s) (hI : InvFirst s)
    (hs : step cfg s e = some s') : InvFirst s' := by
  cases e with
  | newBatch pw b =>
    simp only [step] at hs
    repeat' split at hs
    all_goals (first | (cases hs; done) | skip)
    rename_i _ P hP hg
    cases hs
    have hnone : s.batches b = none := by
      have := hg.2.2.2.1
      cases hp : s.batches b with
      | none => rfl
      | some X => rw [hp] at this; cases this
    exact hI.of_frame hO rfl (fcframe_bat_new hnone rfl)
  | add pw b c i size =>
    simp only [step, stepAdd] at hs
    repeat' split at hs
    all_goals (first | (cases hs; done) | skip)
    rename_i _ P hPq _ B hB _ C hC hg
    cases hs
    exact hI.of_frame hO rfl (fcframe_bat_upd hB rfl (Or.inr ⟨_, rfl, rfl⟩))
  | detach pw b why size =>
    simp only [step, stepDetach] at hs
    repeat' split at hs
    all_goals (first | (cases hs; done) | skip)
    rename_i _ P hP _ B hB hg
    cases hs
    exact hI.of_frame hO rfl (fcframe_bat_upd (B0' := { B with detached := some why }) hB rfl (Or.inl rfl))
  | timerFire pw b att =>
    simp only [step] at hs
    repeat' split at hs
    all_goals (first | (cases hs; done) | skip)
    rename_i _ P hP _ B hB hg
    cases hs
    exact hI.of_frame hO rfl (fcframe_bat_upd (B0' := { B with timerFired := true }) hB rfl (Or.inl rfl))
  | completion pw b code =>
    simp only [step] at hs
    repeat' split at hs
    all_goals (first | (cases hs; done) | skip)
    rename_i _ P hP _ B hB hg
    cases hs
    exact hI.of_frame hO rfl
      (fcframe_bat_upd (B0' := { B with ncompl := B.ncompl + 1, cbCode := some code }) hB rfl (Or.inl rfl))
  | complete pw b code =>
    simp only [step] at hs
    repeat' split at hs
    all_goals (first | (cases hs; done) | skip)
    rename_i _ P hP _ B hB hg
    cases hs
    exact hI.of_frame hO rfl (fcframe_bat_upd (B0' := { B with done := some code }) hB rfl (Or.inl rfl))
  | produce pw tp msgs out =>
    simp only [step, stepProduce] at hs
    repeat' split at hs
    all_goals (first | (cases hs; done) | skip)
    rename_i _ P hP _ b k hsend _ B hB hg
    cases hs
    by_cases happ : out.applied = true
    · exact invFirst_produce (pw := pw) (tp := tp) hO hI hB rfl (by rw [produced_log]; simp [happ])
    · exact hI.of_frame hO (by rw [produced_log]; simp [happ])
        (fcframe_bat_upd (B0' := B.noteProduce out) hB rfl (Or.inl rfl))
  | reject c why i =>
    cases why <;> simp only [step, stepReject] at hs <;> repeat' split at hs
    all_goals (first | (cases hs; done) | skip)
    all_goals (cases hs)
    all_goals exact hI.of_frame hO rfl (fcframe_bat_id rfl)
  | ret c r =>
    cases r <;> simp only [step, stepRet] at hs <;> repeat' split at hs
    all_goals (first | (cases hs; done) | skip)
    all_goals (cases hs)
    all_goals exact hI.of_frame hO rfl (fcframe_bat_id rfl)
  | _ =>
    simp only [step] at hs
    repeat' split at hs
    all_goals (first | (cases hs; done) | skip)
    all_goals (cases hs)
    all_goals exact hI.of_frame hO rfl (fcframe_bat_id rfl)

theorem invFirst (cfg : Cfg) (s : State) (hr : Reachable cfg s) : InvFirst s :=
  (invariant_of_step cfg (fun s => InvOrd s ∧ InvFirst s) ⟨invOrd_init, invFirst_init⟩
    (fun s e s' h hs => ⟨invOrd_step cfg s e s' h.1 hs, invFirst_step cfg s e s' h.1 h.2 hs⟩) s hr).2

end KV.Writer
