/-
Lemmas/WriterLogJournal.lean — the broker side of the model in one equation: the log of every topic-partition is the
concatenation, in journal order, of the messages of the produce attempts the broker applied to it (`InvLogJ`).
This is the semantics the journal-based monitors (`Spec/WriterMonitors.lean`) assume of the fake broker.
-/
import KafkaVerif.Lemmas.WriterCompl

namespace KV.Writer

/-! ## The partition logs are exactly the applied produce requests of the journal, in order -/

def batchMsgs (bt : Nat → Option Batch) (b : Nat) : List Msg :=
  match bt b with
  | some B => B.msgs.map (·.msg)
  | none => []

def appliedTo (tp : TP) (j : JEntry) : Bool := j.out.applied && (j.tp == tp)

/-- what the journal says the log of tp must contain -/
def journalLog (bt : Nat → Option Batch) (journal : List JEntry) (tp : TP) : List Msg :=
  (journal.filter (appliedTo tp)).flatMap (fun j => batchMsgs bt j.batch)

structure InvLogJ (s : State) : Prop where
  journalDet : ∀ j ∈ s.journal, ∃ B, s.batches j.batch = some B ∧ B.detached.isSome = true
  logJournal : ∀ tp, (s.log tp).map (·.msg) = journalLog s.batches s.journal tp

theorem invLogJ_init : InvLogJ State.init := by
  constructor <;> simp [State.init, journalLog]

theorem journalLog_congr {bt bt' : Nat → Option Batch} {journal : List JEntry} (tp : TP)
    (h : ∀ j ∈ journal, batchMsgs bt' j.batch = batchMsgs bt j.batch) : journalLog bt' journal tp = journalLog bt journal tp := by
  unfold journalLog
  induction journal with
  | nil => rfl
  | cons a t ih =>
    have ht : ∀ j ∈ t, batchMsgs bt' j.batch = batchMsgs bt j.batch := fun j hj => h j (List.mem_cons_of_mem _ hj)
    simp only [List.filter_cons]
    split
    · simp only [List.flatMap_cons]; rw [h a (List.mem_cons_self ..)]; congr 1; exact ih ht
    · exact ih ht

/-- frame: journal and logs unchanged; batches keep their messages unless they are not detached (hence in no journal
entry); `detached` only gets set -/
theorem InvLogJ.of_frame {s s' : State} (h : InvLogJ s) (hj : s'.journal = s.journal) (hl : s'.log = s.log)
    (hbat : ∀ b B, s.batches b = some B → ∃ B', s'.batches b = some B' ∧
      (B.detached.isSome = true → B'.detached.isSome = true ∧ B'.msgs = B.msgs)) : InvLogJ s' := by
  have hm : ∀ j ∈ s.journal, batchMsgs s'.batches j.batch = batchMsgs s.batches j.batch := by
    intro j hjm
    obtain ⟨B, hB, hd⟩ := h.journalDet j hjm
    obtain ⟨B', hB', hk⟩ := hbat _ B hB
    simp [batchMsgs, hB, hB', (hk hd).2]
  constructor
  · intro j hjm
    rw [hj] at hjm
    obtain ⟨B, hB, hd⟩ := h.journalDet j hjm
    obtain ⟨B', hB', hk⟩ := hbat _ B hB
    exact ⟨B', hB', (hk hd).1⟩
  · intro tp
    rw [hl, hj, journalLog_congr tp hm]
    exact h.logJournal tp

theorem lframe_bat_id {s s' : State} (e : s'.batches = s.batches) :
    ∀ b B, s.batches b = some B → ∃ B', s'.batches b = some B' ∧
      (B.detached.isSome = true → B'.detached.isSome = true ∧ B'.msgs = B.msgs) :=
  fun _ B h => ⟨B, e ▸ h, fun hd => ⟨hd, rfl⟩⟩

theorem lframe_bat_upd {s s' : State} {b : Nat} {B0 B0' : Batch} (hB0 : s.batches b = some B0)
    (e : s'.batches = upd s.batches b (some B0'))
    (hk : B0.detached.isSome = true → B0'.detached.isSome = true ∧ B0'.msgs = B0.msgs) :
    ∀ x X, s.batches x = some X → ∃ X', s'.batches x = some X' ∧
      (X.detached.isSome = true → X'.detached.isSome = true ∧ X'.msgs = X.msgs) := by
  intro x X hx
  by_cases hxb : x = b
  · subst hxb; rw [hB0] at hx; cases hx
    exact ⟨B0', by rw [e]; simp, hk⟩
  · exact ⟨X, by rw [e, upd_other _ _ _ _ hxb]; exact hx, fun hd => ⟨hd, rfl⟩⟩

theorem filter_append_singleton {α : Type} (p : α → Bool) (l : List α) (a : α) :
    (l ++ [a]).filter p = l.filter p ++ (if p a then [a] else []) := by
  simp [List.filter_append, List.filter_cons]

theorem invLogJ_produce {s s' : State} (hA : InvAck s) (h : InvLogJ s) {pw b k : Nat} {P : PW} {B : Batch} {tp : TP} {out : BrOut}
    (hP : s.pws pw = some P) (hB : s.batches b = some B) (hsend : P.sender = .attempting b k none)
    (ebat : s'.batches = upd s.batches b (some (B.noteProduce out)))
    (elog : s'.log = if out.applied then upd s.log tp (s.log tp ++ mkEntries pw b B) else s.log)
    (ej : s'.journal = s.journal ++ [{ tp := tp, pw := pw, batch := b, attempt := k, out := out }]) : InvLogJ s' := by
  have hdet : B.detached.isSome = true := hA.sentDet pw P hP b (sender_mem_sent (by rw [hsend]; rfl)) B hB
  have hbm : ∀ x, batchMsgs s'.batches x = batchMsgs s.batches x := by
    intro x
    unfold batchMsgs
    rw [ebat]
    by_cases hx : x = b
    · subst hx; simp [hB, Batch.noteProduce]
    · rw [upd_other _ _ _ _ hx]
  constructor
  · intro j hjm
    rw [ej] at hjm
    rcases List.mem_append.mp hjm with hjm | hjm
    · obtain ⟨B0, hB0, hd⟩ := h.journalDet j hjm
      by_cases hx : j.batch = b
      · rw [hx] at hB0 ⊢; rw [hB] at hB0; cases hB0
        exact ⟨B.noteProduce out, by rw [ebat]; simp, hd⟩
      · exact ⟨B0, by rw [ebat, upd_other _ _ _ _ hx]; exact hB0, hd⟩
    · simp at hjm; subst hjm
      exact ⟨B.noteProduce out, by rw [ebat]; simp, hdet⟩
  · intro t
    have hcong : journalLog s'.batches s'.journal t = journalLog s.batches s'.journal t :=
      journalLog_congr t (fun j _ => hbm j.batch)
    rw [hcong, ej]
    unfold journalLog
    rw [filter_append_singleton, List.flatMap_append]
    have hold := h.logJournal t
    unfold journalLog at hold
    rw [elog]
    cases happ : out.applied
    · simp [appliedTo, happ, hold]
    · simp only [if_true]
      by_cases ht : t = tp
      · subst ht
        simp [appliedTo, happ, hold, batchMsgs, hB, mkEntries]
      · have : (tp == t) = false := by simp; exact fun e => ht e.symm
        rw [upd_other _ _ _ _ ht]
        simp [appliedTo, happ, this, hold]

end KV.Writer

namespace KV.Writer

theorem invLogJ_step (cfg : Cfg) (s : State) (e : Event) (s' : State) (hA : InvAck s) (hI : InvLogJ s)
    (hs : step cfg s e = some s') : InvLogJ s' := by
  cases e with
  | produce pw tp msgs out =>
    simp only [step, stepProduce] at hs
    repeat' split at hs
    all_goals (first | (cases hs; done) | skip)
    rename_i _ P hP _ b k hsend _ B hB hg
    cases hs
    exact invLogJ_produce hA hI hP hB hsend rfl (produced_log ..) rfl
  | newBatch pw b =>
    simp only [step] at hs
    repeat' split at hs
    all_goals (first | (cases hs; done) | skip)
    rename_i _ P hP hg
    have hnone : s.batches b = none := by simpa using hg.2.2.2.1
    cases hs
    refine hI.of_frame rfl rfl ?_
    intro x X hx
    have hne : x ≠ b := by intro e; rw [e, hnone] at hx; cases hx
    exact ⟨X, by show upd s.batches b _ x = _; rw [upd_other _ _ _ _ hne]; exact hx, fun hd => ⟨hd, rfl⟩⟩
  | add pw b c i size =>
    simp only [step, stepAdd] at hs
    repeat' split at hs
    all_goals (first | (cases hs; done) | skip)
    rename_i _ P hP _ B hB _ C hC hg
    obtain ⟨-, -, -, -, -, hdet, -⟩ := hg
    cases hs
    exact hI.of_frame rfl rfl (lframe_bat_upd (B0' := B.push { msg := (c, i), size := size, seq := s.seq }) hB rfl
      (fun hd => by rw [hdet] at hd; cases hd))
  | detach pw b why size =>
    simp only [step, stepDetach] at hs
    repeat' split at hs
    all_goals (first | (cases hs; done) | skip)
    rename_i _ P hP _ B hB hg
    cases hs
    exact hI.of_frame rfl rfl (lframe_bat_upd (B0' := { B with detached := some why }) hB rfl (fun _ => ⟨rfl, rfl⟩))
  | timerFire pw b att =>
    simp only [step] at hs
    repeat' split at hs
    all_goals (first | (cases hs; done) | skip)
    rename_i _ P hP _ B hB hg
    cases hs
    exact hI.of_frame rfl rfl (lframe_bat_upd (B0' := { B with timerFired := true }) hB rfl (fun hd => ⟨hd, rfl⟩))
  | completion pw b code =>
    simp only [step] at hs
    repeat' split at hs
    all_goals (first | (cases hs; done) | skip)
    rename_i _ P hP _ B hB hg
    cases hs
    exact hI.of_frame rfl rfl (lframe_bat_upd (B0' := { B with ncompl := B.ncompl + 1, cbCode := some code }) hB rfl (fun hd => ⟨hd, rfl⟩))
  | complete pw b code =>
    simp only [step] at hs
    repeat' split at hs
    all_goals (first | (cases hs; done) | skip)
    rename_i _ P hP _ B hB hg
    cases hs
    exact hI.of_frame rfl rfl (lframe_bat_upd (B0' := { B with done := some code }) hB rfl (fun hd => ⟨hd, rfl⟩))
  | _ =>
    simp only [step, stepReject, stepRet] at hs
    repeat' split at hs
    all_goals (first | (cases hs; done) | skip)
    all_goals (cases hs)
    all_goals exact hI.of_frame rfl rfl (lframe_bat_id rfl)

theorem invLogJAll (cfg : Cfg) : ∀ s, Reachable cfg s → (InvOrd s ∧ InvAck s) ∧ InvLogJ s :=
  invariant_of_step cfg (fun s => (InvOrd s ∧ InvAck s) ∧ InvLogJ s) ⟨⟨invOrd_init, invAck_init⟩, invLogJ_init⟩
    (fun s e s' h hs => ⟨⟨invOrd_step cfg s e s' h.1.1 hs, invAck_step cfg s e s' h.1.1 h.1.2 hs⟩,
      invLogJ_step cfg s e s' h.1.2 h.2 hs⟩)

theorem invLogJ (cfg : Cfg) (s : State) (hr : Reachable cfg s) : InvLogJ s := (invLogJAll cfg s hr).2

end KV.Writer
