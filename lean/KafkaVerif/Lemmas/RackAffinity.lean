/-
Lemmas/RackAffinity.lean — helper lemmas for the RackAffinity part of Props/C14.lean (core Lean only).
-/
import KafkaVerif.Lemmas.GroupBalancer

namespace KV.GroupBalancer
open KV.Spec.GroupAssign

/-! ## the two inner loops of the zone loop -/

theorem giveEach_spec (ppm : Nat) : ∀ (C : List Nat) (L : List Int), ppm * C.length ≤ L.length →
    ∃ es, giveEach ppm C L = some (es, L.drop (ppm * C.length)) ∧ es.map (·.1) = C ∧
      (∀ e ∈ es, e.2.length = ppm) ∧ es.flatMap (·.2) = L.take (ppm * C.length)
  | [], L, _ => ⟨[], by simp [giveEach]⟩
  | c :: cs, L, h => by
    have hlen : ppm * (c :: cs).length = ppm + ppm * cs.length := by
      simp [Nat.mul_succ]; omega
    rw [hlen] at h ⊢
    have h1 : ppm ≤ L.length := by omega
    obtain ⟨es, he, hm, hl, hf⟩ := giveEach_spec ppm cs (L.drop ppm) (by simp; omega)
    refine ⟨(c, L.take ppm) :: es, ?_, ?_, ?_, ?_⟩
    · unfold giveEach
      simp [h1, he, List.drop_drop]
    · simp [hm]
    · intro e he'
      rcases List.mem_cons.mp he' with rfl | he'
      · simp; omega
      · exact hl e he'
    · simp [hf, List.take_add]

theorem giveOne_spec (C : List Nat) (L : List Int) : ∀ (n i : Nat), i + n ≤ C.length → i + n ≤ L.length →
    ∃ es, giveOne C L n i = some es ∧ es.map (·.1) = (C.drop i).take n ∧
      (∀ e ∈ es, e.2.length = 1) ∧ es.flatMap (·.2) = (L.drop i).take n
  | 0, i, _, _ => ⟨[], by simp [giveOne]⟩
  | n + 1, i, h1, h2 => by
    obtain ⟨es, he, hm, hl, hf⟩ := giveOne_spec C L n (i + 1) (by omega) (by omega)
    have hc : i < C.length := by omega
    have hp : i < L.length := by omega
    refine ⟨(C[i], [L[i]]) :: es, ?_, ?_, ?_, ?_⟩
    · unfold giveOne
      simp [List.getElem?_eq_getElem hc, List.getElem?_eq_getElem hp, he]
    · rw [List.map_cons, hm, List.drop_eq_getElem_cons hc, List.take_succ_cons]
    · intro e he'
      rcases List.mem_cons.mp he' with rfl | he'
      · rfl
      · exact hl e he'
    · rw [List.flatMap_cons, hf, List.drop_eq_getElem_cons hp, List.take_succ_cons]; rfl

/-- entries with pairwise different ids and uniform length -/
theorem collect_uniform (n : Nat) : ∀ (es : List (Nat × List Int)), (es.map (·.1)).Nodup → (∀ e ∈ es, e.2.length = n) →
    ∀ c, (collect c es).length = if c ∈ es.map (·.1) then n else 0
  | [], _, _, c => by simp [collect]
  | (c', x) :: es, hn, hl, c => by
    have hn' := List.nodup_cons.mp hn
    have ih := collect_uniform n es hn'.2 (fun e he => hl e (List.mem_cons_of_mem _ he)) c
    have hx : x.length = n := hl (c', x) List.mem_cons_self
    by_cases h : c' = c
    · subst h
      have : ¬ c' ∈ es.map (·.1) := hn'.1
      rw [collect_cons_same, List.length_append, ih]
      simp [this, hx]
    · rw [collect_cons_other _ _ _ _ h, ih]
      have : ¬ c = c' := fun e => h e.symm
      simp only [List.map_cons, List.mem_cons, this, false_or]

theorem collect_append (c : Nat) (e₁ e₂ : List (Nat × List Int)) : collect c (e₁ ++ e₂) = collect c e₁ ++ collect c e₂ := by
  simp [collect]

theorem collect_absent (c : Nat) : ∀ (es : List (Nat × List Int)), ¬ c ∈ es.map (·.1) → collect c es = []
  | [], _ => rfl
  | (c', x) :: es, h => by
    have h1 : c' ≠ c := fun e => h (by simp [e])
    rw [collect_cons_other _ _ _ _ h1]
    exact collect_absent c es (fun hm => h (by simp at hm ⊢; exact Or.inr hm))


/-! ## one iteration of the zone loop -/

theorem filter_mem_take (C : List Nat) (hn : C.Nodup) (lo : Nat) (h : lo ≤ C.length) :
    (C.filter (fun c => decide (c ∈ C.take lo))).length = lo := by
  have hsplit : C = C.take lo ++ C.drop lo := (List.take_append_drop lo C).symm
  have hdis : ∀ c ∈ C.drop lo, ¬ c ∈ C.take lo := by
    rw [hsplit] at hn
    have := List.nodup_append.mp hn
    intro c hc ht
    exact this.2.2 c ht c hc rfl
  conv => lhs; arg 1; arg 2; rw [hsplit]
  rw [List.filter_append]
  have h1 : (C.take lo).filter (fun c => decide (c ∈ C.take lo)) = C.take lo := by
    rw [List.filter_eq_self]; intro a ha; simpa using ha
  have h2 : (C.drop lo).filter (fun c => decide (c ∈ C.take lo)) = [] := by
    rw [List.filter_eq_nil_iff]; intro a ha; simpa using hdis a ha
  rw [h1, h2]; simp; omega

theorem zoneAlloc_spec (T rem : Nat) (C : List Nat) (L : List Int) (hC : 0 < C.length) (hn : C.Nodup) :
    ∃ es left rem', zoneAlloc T rem C L = some (es, left, rem') ∧
      es.flatMap (·.2) ++ left = L ∧
      (∀ e ∈ es, e.1 ∈ C) ∧
      (∀ c, (collect c es).length ≤ T + 1) ∧
      ((C.filter (fun c => (collect c es).length == T + 1)).length + rem' = rem) ∧
      min L.length (C.length * T) ≤ (es.flatMap (·.2)).length := by
  unfold zoneAlloc
  have hdm := Nat.div_add_mod L.length C.length
  have hml := Nat.mod_lt L.length hC
  generalize L.length / C.length = q at *
  generalize L.length % C.length = r at *
  have hcomm := Nat.mul_comm q C.length
  generalize hppm : (if q > T then T else q) = ppm
  have hp1 : ppm ≤ q := by rw [← hppm]; split <;> omega
  have hpT : ppm ≤ T := by rw [← hppm]; split <;> omega
  have hpq : ppm ≠ T → ppm = q := by intro hT; split at hppm <;> omega
  have hpk : ppm * C.length ≤ L.length := by
    have := Nat.mul_le_mul_right C.length hp1
    omega
  obtain ⟨es1, he1, hm1, hl1, hf1⟩ := giveEach_spec ppm C L hpk
  simp only [he1]
  generalize hlo : (if ppm = T then
      if (if (L.drop (ppm * C.length)).length > rem then rem else (L.drop (ppm * C.length)).length) > C.length then C.length
      else (if (L.drop (ppm * C.length)).length > rem then rem else (L.drop (ppm * C.length)).length)
    else (L.drop (ppm * C.length)).length) = lo
  have hp1len : (L.drop (ppm * C.length)).length = L.length - ppm * C.length := by simp
  have hlo1 : lo ≤ (L.drop (ppm * C.length)).length := by rw [← hlo]; split <;> (try split) <;> (try split) <;> omega
  have hlo2 : lo ≤ C.length := by
    rw [← hlo]
    by_cases hT : ppm = T
    · simp only [hT, if_true]; split <;> (try split) <;> omega
    · simp only [hT, if_false]
      have hqT := hpq hT
      rw [hp1len, hqT]; omega
  have hlo3 : ppm = T → lo ≤ rem := by
    intro hT; rw [← hlo]; simp only [hT, if_true]; split <;> (try split) <;> omega
  have hlo4 : ppm ≠ T → lo = L.length - ppm * C.length := by
    intro hT
    rw [← hlo]; simp only [hT, if_false]; exact hp1len
  obtain ⟨es2, he2, hm2, hl2, hf2⟩ := giveOne_spec C (L.drop (ppm * C.length)) lo 0 (by omega) (by omega)
  simp only [he2, hlo1, if_true]
  refine ⟨_, _, _, rfl, ?_, ?_, ?_, ?_, ?_⟩
  · rw [List.flatMap_append, hf1, hf2, List.drop_zero, List.append_assoc, List.take_append_drop, List.take_append_drop]
  · intro e he
    rcases List.mem_append.mp he with h | h
    · rw [← hm1]; exact List.mem_map_of_mem h
    · have : e.1 ∈ (C.drop 0).take lo := by rw [← hm2]; exact List.mem_map_of_mem h
      exact List.mem_of_mem_take (by simpa using this)
  all_goals
    have hn2 : (es2.map (·.1)).Nodup := by rw [hm2]; exact (List.take_sublist _ _).nodup (by simpa using hn)
    have hload : ∀ c, (collect c (es1 ++ es2)).length = (if c ∈ C then ppm else 0) + (if c ∈ C.take lo then 1 else 0) := by
      intro c
      rw [collect_append, List.length_append, collect_uniform ppm es1 (by rw [hm1]; exact hn) hl1 c,
        collect_uniform 1 es2 hn2 hl2 c, hm1, hm2, List.drop_zero]
  · intro c; rw [hload c]; split <;> split <;> omega
  · by_cases hT : ppm = T
    · have : (C.filter (fun c => (collect c (es1 ++ es2)).length == T + 1)) = C.filter (fun c => decide (c ∈ C.take lo)) := by
        apply List.filter_congr
        intro c hc
        rw [hload c]
        by_cases hm : c ∈ C.take lo <;> simp [hc, hm, hT]
      rw [this, filter_mem_take C hn lo hlo2]
      have := hlo3 hT
      simp only [hT, if_true]; omega
    · have : (C.filter (fun c => (collect c (es1 ++ es2)).length == T + 1)) = [] := by
        rw [List.filter_eq_nil_iff]
        intro c _
        rw [hload c]
        have : ppm < T := by omega
        simp; split <;> split <;> omega
      rw [this]; simp only [hT, if_false]; simp
  · rw [List.flatMap_append, List.length_append, hf1, hf2]
    simp only [List.length_take, List.drop_zero, hp1len]
    by_cases hT : ppm = T
    · subst hT
      have : C.length * ppm = ppm * C.length := Nat.mul_comm _ _
      omega
    · have h1 := hlo4 hT
      have h2 := hpq hT
      subst h2
      omega

/-! ## the last loop -/

/-- what the last loop still has to hand out to reach the target -/
def need (T : Nat) (acc : List (Nat × List Int)) (rest : List Member) : Nat :=
  (rest.map (fun m => T - (collect m.id acc).length)).sum

/-- members that can still take a remainder partition -/
def low (T : Nat) (acc : List (Nat × List Int)) (rest : List Member) : Nat :=
  (rest.filter (fun m => decide ((collect m.id acc).length ≤ T))).length

theorem need_congr (T : Nat) (acc acc' : List (Nat × List Int)) (rest : List Member)
    (h : ∀ m ∈ rest, collect m.id acc' = collect m.id acc) : need T acc' rest = need T acc rest := by
  unfold need; congr 1; apply List.map_congr_left; intro m hm; rw [h m hm]

theorem low_congr (T : Nat) (acc acc' : List (Nat × List Int)) (rest : List Member)
    (h : ∀ m ∈ rest, collect m.id acc' = collect m.id acc) : low T acc' rest = low T acc rest := by
  unfold low; congr 1; apply List.filter_congr; intro m hm; rw [h m hm]

theorem collect_snoc_other (id id' : Nat) (x : List Int) (es : List (Nat × List Int)) (h : id' ≠ id) :
    collect id (es ++ [(id', x)]) = collect id es := by
  rw [collect_append, collect_cons_other _ _ _ _ h]; simp [collect]

theorem collect_snoc_same (id : Nat) (x : List Int) (es : List (Nat × List Int)) :
    collect id (es ++ [(id, x)]) = collect id es ++ x := by
  rw [collect_append, collect_cons_same]; simp [collect]

theorem finalLoop_spec (T : Nat) : ∀ (rest : List Member) (acc : List (Nat × List Int)) (rem : Nat) (remaining : List Int),
    IdsDistinct rest → (∀ m ∈ rest, (collect m.id acc).length ≤ T + 1) →
    remaining.length = need T acc rest + rem → rem ≤ low T acc rest →
    ∃ acc', finalLoop T rest acc rem remaining = some acc' ∧
      acc'.flatMap (·.2) = acc.flatMap (·.2) ++ remaining ∧
      (∀ m ∈ rest, T ≤ (collect m.id acc').length ∧ (collect m.id acc').length ≤ T + 1) ∧
      (∀ id, (∀ m ∈ rest, m.id ≠ id) → collect id acc' = collect id acc) ∧
      (∀ id, ∃ suf, collect id acc' = collect id acc ++ suf) ∧
      (∀ e ∈ acc', e ∈ acc ∨ ∃ m ∈ rest, e.1 = m.id)
  | [], acc, rem, remaining, _, _, hlen, hrem => by
    have : remaining = [] := by
      apply List.eq_nil_of_length_eq_zero
      simp [need, low] at hlen hrem; omega
    subst this
    exact ⟨acc, rfl, by simp, by simp, fun _ _ => rfl, fun _ => ⟨[], by simp⟩, fun e he => Or.inl he⟩
  | m :: rest, acc, rem, remaining, hd, hb, hlen, hrem => by
    have hd' := List.pairwise_cons.mp hd
    have hbm := hb m List.mem_cons_self
    have hneed : need T acc (m :: rest) = (T - (collect m.id acc).length) + need T acc rest := by simp [need]
    have hlow : low T acc (m :: rest) = (if (collect m.id acc).length ≤ T then 1 else 0) + low T acc rest := by
      unfold low; rw [List.filter_cons]; split <;> simp_all <;> omega
    rw [hneed] at hlen; rw [hlow] at hrem
    unfold finalLoop
    dsimp only
    generalize hl : (collect m.id acc).length = l at *
    -- the step that does not touch `acc`
    have skip : ∀ rem', l + 0 = l → (T ≤ l ∧ l ≤ T + 1) → remaining.length = need T acc rest + rem' → rem' ≤ low T acc rest →
        ∃ acc', finalLoop T rest acc rem' remaining = some acc' ∧
          acc'.flatMap (·.2) = acc.flatMap (·.2) ++ remaining ∧
          (∀ m' ∈ m :: rest, T ≤ (collect m'.id acc').length ∧ (collect m'.id acc').length ≤ T + 1) ∧
          (∀ id, (∀ m' ∈ m :: rest, m'.id ≠ id) → collect id acc' = collect id acc) ∧
          (∀ id, ∃ suf, collect id acc' = collect id acc ++ suf) ∧
          (∀ e ∈ acc', e ∈ acc ∨ ∃ m' ∈ m :: rest, e.1 = m'.id) := by
      intro rem' _ hTl h1 h2
      obtain ⟨acc', h, hf, hr, ho, hs, hi⟩ := finalLoop_spec T rest acc rem' remaining hd'.2
        (fun x hx => hb x (List.mem_cons_of_mem _ hx)) h1 h2
      refine ⟨acc', h, hf, ?_, ?_, hs, ?_⟩
      · intro m' hm'
        rcases List.mem_cons.mp hm' with rfl | hm'
        · rw [ho _ (fun x hx e => hd'.1 x hx e.symm), hl]; exact hTl
        · exact hr m' hm'
      · intro id hid
        exact ho id (fun x hx => hid x (List.mem_cons_of_mem _ hx))
      · intro e he
        rcases hi e he with h | ⟨x, hx, hxe⟩
        · exact Or.inl h
        · exact Or.inr ⟨x, List.mem_cons_of_mem _ hx, hxe⟩
    by_cases hlT : l ≤ T
    · by_cases hr0 : rem > 0
      · -- takes target - l + 1
        have hdpos : T - l + 1 > 0 := by omega
        simp only [hlT, hr0, decide_true, Bool.and_self, if_true, hdpos]
        have hle : T - l + 1 ≤ remaining.length := by omega
        simp only [hle, if_true]
        have hsame : ∀ x ∈ rest, collect x.id (acc ++ [(m.id, remaining.take (T - l + 1))]) = collect x.id acc :=
          fun x hx => collect_snoc_other _ _ _ _ (hd'.1 x hx)
        obtain ⟨acc', h, hf, hr, ho, hs, hi⟩ := finalLoop_spec T rest (acc ++ [(m.id, remaining.take (T - l + 1))]) (rem - 1)
          (remaining.drop (T - l + 1)) hd'.2
          (fun x hx => by rw [hsame x hx]; exact hb x (List.mem_cons_of_mem _ hx))
          (by rw [need_congr T _ _ rest hsame]; simp; omega)
          (by rw [low_congr T _ _ rest hsame]; simp only [hlT, if_true] at hrem; omega)
        refine ⟨acc', h, ?_, ?_, ?_, ?_, ?_⟩
        · rw [hf]; simp
        · intro m' hm'
          rcases List.mem_cons.mp hm' with rfl | hm'
          · rw [ho _ (fun x hx e => hd'.1 x hx e.symm), collect_snoc_same, List.length_append, hl]
            simp; omega
          · exact hr m' hm'
        · intro id hid
          rw [ho id (fun x hx => hid x (List.mem_cons_of_mem _ hx)),
            collect_snoc_other _ _ _ _ (hid m List.mem_cons_self)]
        · intro id
          obtain ⟨suf, hsuf⟩ := hs id
          rw [hsuf, collect_append]
          exact ⟨_, List.append_assoc _ _ _⟩
        · intro e he
          rcases hi e he with h | ⟨x, hx, hxe⟩
          · rcases List.mem_append.mp h with h | h
            · exact Or.inl h
            · simp at h; exact Or.inr ⟨m, List.mem_cons_self, by rw [h]⟩
          · exact Or.inr ⟨x, List.mem_cons_of_mem _ hx, hxe⟩
      · have hr0' : rem = 0 := by omega
        subst hr0'
        by_cases hlt : l < T
        · -- takes target - l
          have hdpos : T - l + 0 > 0 := by omega
          simp only [hlT, decide_true, Nat.lt_irrefl, decide_false, Bool.and_false, if_true, hdpos]
          have hle : T - l + 0 ≤ remaining.length := by omega
          simp only [hle, if_true, Bool.false_eq_true, if_false]
          rw [if_pos hdpos]
          have hsame : ∀ x ∈ rest, collect x.id (acc ++ [(m.id, remaining.take (T - l + 0))]) = collect x.id acc :=
            fun x hx => collect_snoc_other _ _ _ _ (hd'.1 x hx)
          obtain ⟨acc', h, hf, hr, ho, hs, hi⟩ := finalLoop_spec T rest (acc ++ [(m.id, remaining.take (T - l + 0))]) 0
            (remaining.drop (T - l + 0)) hd'.2
            (fun x hx => by rw [hsame x hx]; exact hb x (List.mem_cons_of_mem _ hx))
            (by rw [need_congr T _ _ rest hsame]; simp; omega)
            (by omega)
          refine ⟨acc', h, ?_, ?_, ?_, ?_, ?_⟩
          · rw [hf]; simp
          · intro m' hm'
            rcases List.mem_cons.mp hm' with rfl | hm'
            · rw [ho _ (fun x hx e => hd'.1 x hx e.symm), collect_snoc_same, List.length_append, hl]
              simp; omega
            · exact hr m' hm'
          · intro id hid
            rw [ho id (fun x hx => hid x (List.mem_cons_of_mem _ hx)),
              collect_snoc_other _ _ _ _ (hid m List.mem_cons_self)]
          · intro id
            obtain ⟨suf, hsuf⟩ := hs id
            rw [hsuf, collect_append]
            exact ⟨_, List.append_assoc _ _ _⟩
          · intro e he
            rcases hi e he with h | ⟨x, hx, hxe⟩
            · rcases List.mem_append.mp h with h | h
              · exact Or.inl h
              · simp at h; exact Or.inr ⟨m, List.mem_cons_self, by rw [h]⟩
            · exact Or.inr ⟨x, List.mem_cons_of_mem _ hx, hxe⟩
        · have hz : ¬ (T - l + 0 > 0) := by omega
          simp only [hlT, decide_true, Nat.lt_irrefl, decide_false, Bool.and_false, if_true, hz, if_false, Bool.false_eq_true]
          exact skip 0 rfl ⟨by omega, by omega⟩ (by omega) (by omega)
    · have hz : ¬ (0 > 0) := by omega
      simp only [hlT, decide_false, Bool.false_and, if_false, hz, Bool.false_eq_true]
      simp only [hlT, if_false] at hrem
      exact skip rem rfl ⟨by omega, by omega⟩ (by omega) (by omega)

/-! ## the zone loop: invariant -/

theorem sum_map_update (f g : Nat → Nat) (z : Nat) (h : ∀ x, x ≠ z → f x = g x) : ∀ (l : List Nat), l.Nodup →
    (l.map f).sum + (if z ∈ l then g z else 0) = (l.map g).sum + (if z ∈ l then f z else 0)
  | [], _ => by simp
  | x :: xs, hn => by
    have hn' := List.nodup_cons.mp hn
    have ih := sum_map_update f g z h xs hn'.2
    by_cases hx : x = z
    · subst hx
      simp only [hn'.1, if_false] at ih
      simp [List.mem_cons] at ih ⊢; omega
    · have := h x hx
      have hz : ¬ z = x := fun e => hx e.symm
      simp only [List.map_cons, List.sum_cons, List.mem_cons, hz, false_or, this] at ih ⊢
      omega

theorem filter_length_split {α : Type} (p q : α → Bool) : ∀ (l : List α),
    (l.filter p).length = ((l.filter q).filter p).length + ((l.filter (fun x => !q x)).filter p).length
  | [] => rfl
  | x :: xs => by
    have ih := filter_length_split p q xs
    by_cases hq : q x <;> by_cases hp : p x <;> simp [List.filter_cons, hq, hp, ih] <;> omega

theorem zoneLeft_snoc_other (parts : List Part) (left : List (Nat × List Int)) (z x : Nat) (v : List Int) (h : x ≠ z) :
    zoneLeft parts (left ++ [(z, v)]) x = zoneLeft parts left x := by
  unfold zoneLeft
  rw [List.find?_append]
  have : (z == x) = false := by simpa using (fun e => h e.symm)
  cases hf : left.find? (fun e => e.1 == x) <;> simp [List.find?_cons, this]

theorem zoneLeft_absent (parts : List Part) (left : List (Nat × List Int)) (z : Nat) (h : ∀ e ∈ left, e.1 ≠ z) :
    zoneLeft parts left z = zoneParts parts z := by
  unfold zoneLeft
  have : left.find? (fun e => e.1 == z) = none := by
    rw [List.find?_eq_none]; intro e he; simpa using h e he
  rw [this]

theorem zoneLeft_snoc_same (parts : List Part) (left : List (Nat × List Int)) (z : Nat) (v : List Int) (h : ∀ e ∈ left, e.1 ≠ z) :
    zoneLeft parts (left ++ [(z, v)]) z = v := by
  unfold zoneLeft
  have : left.find? (fun e => e.1 == z) = none := by
    rw [List.find?_eq_none]; intro e he; simpa using h e he
  rw [List.find?_append, this]; simp

/-- the number of members holding target+1 -/
def hi (T : Nat) (sub : List Member) (E : List (Nat × List Int)) : Nat :=
  (sub.filter (fun m => (collect m.id E).length == T + 1)).length

/-- occurrences of `a` among everything handed out or still pooled -/
def poolCount (parts : List Part) (σ₂ : List Nat) (a : Int) (E left : List (Nat × List Int)) : Nat :=
  (E.flatMap (·.2)).count a + (σ₂.map (fun z => (zoneLeft parts left z).count a)).sum

structure ZInv (sub : List Member) (parts : List Part) (T R : Nat) (σ₂ : List Nat) (zs : List Nat) (st : ZoneState) : Prop where
  fresh : ∀ m ∈ sub, m.zone ∈ zs → collect m.id st.entries = []
  ids : ∀ e ∈ st.entries, ∃ m ∈ sub, m.id = e.1
  bound : ∀ m ∈ sub, (collect m.id st.entries).length ≤ T + 1
  count : hi T sub st.entries + st.rem = R
  keys : ∀ e ∈ st.left, e.1 ∉ zs
  pool : ∀ a, poolCount parts σ₂ a st.entries st.left = (parts.map (·.id)).count a

theorem zoneConsumers_nodup (sub : List Member) (hd : IdsDistinct sub) (z : Nat) : (zoneConsumers sub z).Nodup := by
  have : IdsDistinct (sub.filter (fun m => m.zone == z)) := hd.sublist List.filter_sublist
  exact (idsDistinct_iff _).mp this

theorem eq_of_id_eq : ∀ (l : List Member), IdsDistinct l → ∀ a ∈ l, ∀ b ∈ l, a.id = b.id → a = b
  | [], _, a, ha, _, _, _ => by simp at ha
  | x :: xs, hd, a, ha, b, hb, he => by
    have hd' := List.pairwise_cons.mp hd
    rcases List.mem_cons.mp ha with h1 | h1 <;> rcases List.mem_cons.mp hb with h2 | h2
    · rw [h1, h2]
    · subst h1; exact absurd he (hd'.1 b h2)
    · subst h2; exact absurd he.symm (hd'.1 a h1)
    · exact eq_of_id_eq xs hd'.2 a h1 b h2 he

theorem not_mem_zoneConsumers (sub : List Member) (hd : IdsDistinct sub) (z : Nat) (m : Member) (hm : m ∈ sub)
    (hz : m.zone ≠ z) : ¬ m.id ∈ zoneConsumers sub z := by
  intro h
  unfold zoneConsumers at h
  obtain ⟨m', hm', he⟩ := List.mem_map.mp h
  have hm'' := List.mem_filter.mp hm'
  have hz' : m'.zone = z := by simpa using hm''.2
  -- two members with the same id are the same member
  have : m' = m := eq_of_id_eq sub hd m' hm''.1 m hm he
  rw [this] at hz'; exact hz hz'



theorem zoneParts_nil_of_not_mem (parts : List Part) (σ₂ : List Nat) (hcov : ∀ p ∈ parts, p.zone ∈ σ₂) (z : Nat)
    (hz : ¬ z ∈ σ₂) : zoneParts parts z = [] := by
  unfold zoneParts
  rw [List.map_eq_nil_iff, List.filter_eq_nil_iff]
  intro p hp
  have := hcov p hp
  simp; intro e; rw [e] at this; exact hz this

theorem zinv_step (sub : List Member) (parts : List Part) (T R : Nat) (σ₂ : List Nat) (hd : IdsDistinct sub)
    (hσ₂ : σ₂.Nodup) (hcov : ∀ p ∈ parts, p.zone ∈ σ₂) (z : Nat) (zs : List Nat) (hzs : (z :: zs).Nodup)
    (st : ZoneState) (inv : ZInv sub parts T R σ₂ (z :: zs) st)
    (es : List (Nat × List Int)) (lf : List Int) (rem' : Nat)
    (hcat : es.flatMap (·.2) ++ lf = zoneParts parts z)
    (hids : ∀ e ∈ es, e.1 ∈ zoneConsumers sub z)
    (hbound : ∀ c, (collect c es).length ≤ T + 1)
    (hcount : ((zoneConsumers sub z).filter (fun c => (collect c es).length == T + 1)).length + rem' = st.rem) :
    ZInv sub parts T R σ₂ zs ⟨st.entries ++ es, st.left ++ [(z, lf)], rem'⟩ := by
  have hz : ¬ z ∈ zs := (List.nodup_cons.mp hzs).1
  have hother : ∀ m ∈ sub, m.zone ≠ z → collect m.id es = [] := by
    intro m hm hmz
    apply collect_absent
    intro hmem
    obtain ⟨e, he, hee⟩ := List.mem_map.mp hmem
    have := hids e he
    rw [hee] at this
    exact not_mem_zoneConsumers sub hd z m hm hmz this
  have hfreshz : ∀ m ∈ sub, m.zone = z → collect m.id st.entries = [] :=
    fun m hm hmz => inv.fresh m hm (by rw [hmz]; exact List.mem_cons_self)
  refine ⟨?_, ?_, ?_, ?_, ?_, ?_⟩
  · intro m hm hmz
    have hne : m.zone ≠ z := fun e => hz (e ▸ hmz)
    simp only [collect_append, inv.fresh m hm (List.mem_cons_of_mem _ hmz), hother m hm hne, List.append_nil]
  · intro e he
    rcases List.mem_append.mp he with h | h
    · exact inv.ids e h
    · have := hids e h
      unfold zoneConsumers at this
      obtain ⟨m, hm, hme⟩ := List.mem_map.mp this
      exact ⟨m, (List.mem_filter.mp hm).1, hme⟩
  · intro m hm
    simp only [collect_append, List.length_append]
    by_cases hmz : m.zone = z
    · rw [hfreshz m hm hmz]; simpa using hbound m.id
    · rw [hother m hm hmz]; simpa using inv.bound m hm
  · -- count of members at target+1
    have hc := inv.count
    simp only [hi] at hc ⊢
    rw [filter_length_split _ (fun m => m.zone == z)] at hc ⊢
    have h1 : ((sub.filter (fun m => m.zone == z)).filter (fun m => (collect m.id st.entries).length == T + 1)).length = 0 := by
      rw [List.length_eq_zero_iff, List.filter_eq_nil_iff]
      intro m hm
      have hm' := List.mem_filter.mp hm
      rw [hfreshz m hm'.1 (by simpa using hm'.2)]; simp
    have h2 : ((sub.filter (fun m => m.zone == z)).filter (fun m => (collect m.id (st.entries ++ es)).length == T + 1)).length
        = ((zoneConsumers sub z).filter (fun c => (collect c es).length == T + 1)).length := by
      unfold zoneConsumers
      rw [List.filter_map, List.length_map]
      congr 1
      apply List.filter_congr
      intro m hm
      have hm' := List.mem_filter.mp hm
      simp only [collect_append, hfreshz m hm'.1 (by simpa using hm'.2), List.nil_append, Function.comp]
    have h3 : ((sub.filter (fun m => !(m.zone == z))).filter (fun m => (collect m.id (st.entries ++ es)).length == T + 1))
        = ((sub.filter (fun m => !(m.zone == z))).filter (fun m => (collect m.id st.entries).length == T + 1)) := by
      apply List.filter_congr
      intro m hm
      have hm' := List.mem_filter.mp hm
      simp only [collect_append, hother m hm'.1 (by simpa using hm'.2), List.append_nil]
    rw [h2, h3]
    rw [h1] at hc
    show _ + rem' = R
    omega
  · intro e he
    rcases List.mem_append.mp he with h | h
    · exact fun hmem => inv.keys e h (List.mem_cons_of_mem _ hmem)
    · simp at h; rw [h]; exact hz
  · intro a
    rw [← inv.pool a]
    unfold poolCount
    dsimp only
    have hkeys : ∀ e ∈ st.left, e.1 ≠ z := fun e he h => inv.keys e he (h ▸ List.mem_cons_self)
    have hupd := sum_map_update (fun x => (zoneLeft parts st.left x).count a)
      (fun x => (zoneLeft parts (st.left ++ [(z, lf)]) x).count a) z
      (fun x hx => by simp only [zoneLeft_snoc_other parts st.left z x lf hx]) σ₂ hσ₂
    simp only [zoneLeft_absent parts st.left z hkeys, zoneLeft_snoc_same parts st.left z lf hkeys] at hupd
    have hsplit : (zoneParts parts z).count a = (es.flatMap (·.2)).count a + lf.count a := by
      rw [← hcat, List.count_append]
    rw [List.flatMap_append, List.count_append]
    by_cases hzσ : z ∈ σ₂
    · simp only [hzσ, if_true] at hupd; omega
    · simp only [hzσ, if_false] at hupd
      have := zoneParts_nil_of_not_mem parts σ₂ hcov z hzσ
      rw [this] at hsplit; simp at hsplit; omega

theorem zinv_weaken (sub : List Member) (parts : List Part) (T R : Nat) (σ₂ : List Nat) (z : Nat) (zs : List Nat)
    (st : ZoneState) (inv : ZInv sub parts T R σ₂ (z :: zs) st) : ZInv sub parts T R σ₂ zs st :=
  ⟨fun m hm hz => inv.fresh m hm (List.mem_cons_of_mem _ hz), inv.ids, inv.bound, inv.count,
   fun e he hmem => inv.keys e he (List.mem_cons_of_mem _ hmem), inv.pool⟩

theorem zoneLoop_spec (sub : List Member) (parts : List Part) (T R : Nat) (σ₂ : List Nat) (hd : IdsDistinct sub)
    (hσ₂ : σ₂.Nodup) (hcov : ∀ p ∈ parts, p.zone ∈ σ₂) : ∀ (zs : List Nat) (st : ZoneState), zs.Nodup →
    ZInv sub parts T R σ₂ zs st →
    ∃ st', zoneLoop sub parts T zs st = some st' ∧ ZInv sub parts T R σ₂ [] st' ∧ ∃ es, st'.entries = st.entries ++ es
  | [], st, _, inv => ⟨st, rfl, inv, [], by simp⟩
  | z :: zs, st, hzs, inv => by
    unfold zoneLoop
    by_cases hC : (zoneConsumers sub z).length = 0
    · simp only [hC, if_true]
      exact zoneLoop_spec sub parts T R σ₂ hd hσ₂ hcov zs st (List.nodup_cons.mp hzs).2 (zinv_weaken sub parts T R σ₂ z zs st inv)
    · simp only [hC, if_false]
      obtain ⟨es, lf, rem', he, hcat, hids, hbound, hcount, _⟩ :=
        zoneAlloc_spec T st.rem (zoneConsumers sub z) (zoneParts parts z) (by omega) (zoneConsumers_nodup sub hd z)
      simp only [he]
      obtain ⟨st', h, inv', es', hes'⟩ := zoneLoop_spec sub parts T R σ₂ hd hσ₂ hcov zs
        ⟨st.entries ++ es, st.left ++ [(z, lf)], rem'⟩ (List.nodup_cons.mp hzs).2
        (zinv_step sub parts T R σ₂ hd hσ₂ hcov z zs hzs st inv es lf rem' hcat hids hbound hcount)
      exact ⟨st', h, inv', es ++ es', by rw [hes']; simp⟩

/-! ## bookkeeping: reading entries back, load arithmetic, the initial pool -/

theorem flatMap_append_perm {α : Type} (f g : α → List Int) : ∀ (l : List α),
    (l.flatMap (fun a => f a ++ g a)).Perm (l.flatMap f ++ l.flatMap g)
  | [] => by simp
  | x :: xs => by
    have ih := flatMap_append_perm f g xs
    rw [List.perm_iff_count] at ih ⊢
    intro a
    have := ih a
    simp [List.count_append] at this ⊢; omega

theorem flatMap_single (x : List Int) : ∀ (sub : List Member) (m₀ : Member), IdsDistinct sub → m₀ ∈ sub →
    sub.flatMap (fun m => if m₀.id = m.id then x else []) = x
  | [], _, _, h => by simp at h
  | y :: ys, m₀, hd, hm => by
    have hd' := List.pairwise_cons.mp hd
    rw [List.flatMap_cons]
    rcases List.mem_cons.mp hm with h | h
    · subst h
      have : ys.flatMap (fun m => if m₀.id = m.id then x else []) = [] := by
        rw [List.flatMap_eq_nil_iff]; intro m hm'; simp [hd'.1 m hm']
      simp [this]
    · have : ¬ m₀.id = y.id := fun e => hd'.1 m₀ h e.symm
      simp only [this, if_false, List.nil_append]
      exact flatMap_single x ys m₀ hd'.2 h

/-- with distinct ids, reading every member's entry back gives everything that was appended -/
theorem collect_perm (sub : List Member) (hd : IdsDistinct sub) : ∀ (E : List (Nat × List Int)),
    (∀ e ∈ E, ∃ m ∈ sub, m.id = e.1) → (sub.flatMap (fun m => collect m.id E)).Perm (E.flatMap (·.2))
  | [], _ => by
    have : sub.flatMap (fun m => collect m.id []) = [] := by
      rw [List.flatMap_eq_nil_iff]; intro m _; rfl
    rw [this]; exact List.Perm.refl _
  | (c, x) :: E, h => by
    have ih := collect_perm sub hd E (fun e he => h e (List.mem_cons_of_mem _ he))
    obtain ⟨m₀, hm₀, hc⟩ := h (c, x) List.mem_cons_self
    simp only at hc
    have hfun : (fun m : Member => collect m.id ((c, x) :: E)) = (fun m => (if m₀.id = m.id then x else []) ++ collect m.id E) := by
      funext m
      by_cases hm : m₀.id = m.id
      · rw [← hc, hm, collect_cons_same]; simp
      · rw [collect_cons_other _ _ _ _ (by rw [← hc]; exact hm)]; simp [hm]
    rw [hfun, List.flatMap_cons]
    refine (flatMap_append_perm _ _ sub).trans ?_
    rw [flatMap_single x sub m₀ hd hm₀]
    exact List.Perm.append_left x ih

theorem loads_arith (T : Nat) (ℓ : Member → Nat) : ∀ (sub : List Member), (∀ m ∈ sub, ℓ m ≤ T + 1) →
    (sub.map (fun m => T - ℓ m)).sum + (sub.map ℓ).sum = T * sub.length + (sub.filter (fun m => ℓ m == T + 1)).length ∧
    (sub.filter (fun m => decide (ℓ m ≤ T))).length + (sub.filter (fun m => ℓ m == T + 1)).length = sub.length
  | [], _ => by simp
  | x :: xs, h => by
    obtain ⟨ih1, ih2⟩ := loads_arith T ℓ xs (fun m hm => h m (List.mem_cons_of_mem _ hm))
    have hx := h x List.mem_cons_self
    simp only [List.map_cons, List.sum_cons, List.length_cons, Nat.mul_succ, List.filter_cons]
    by_cases h1 : ℓ x = T + 1
    · have h' : ¬ (T + 1 ≤ T) := by omega
      simp [h1, h']; omega
    · have : ℓ x ≤ T := by omega
      simp [h1, this]; omega

theorem sum_map_add (f g : Nat → Nat) : ∀ (l : List Nat), (l.map (fun z => f z + g z)).sum = (l.map f).sum + (l.map g).sum
  | [] => rfl
  | x :: xs => by simp [sum_map_add f g xs]; omega

theorem sum_map_zero : ∀ (l : List Nat), (l.map (fun _ => 0)).sum = 0
  | [] => rfl
  | _ :: xs => by simp [sum_map_zero xs]

theorem pool_init (σ₂ : List Nat) (hσ₂ : σ₂.Nodup) (a : Int) : ∀ (parts : List Part), (∀ p ∈ parts, p.zone ∈ σ₂) →
    (σ₂.map (fun z => (zoneParts parts z).count a)).sum = (parts.map (·.id)).count a
  | [], _ => by simp [zoneParts, sum_map_zero]
  | p :: ps, h => by
    have ih := pool_init σ₂ hσ₂ a ps (fun q hq => h q (List.mem_cons_of_mem _ hq))
    have hp := h p List.mem_cons_self
    have hfun : (fun z => (zoneParts (p :: ps) z).count a) =
        (fun z => (if z = p.zone ∧ p.id = a then 1 else 0) + (zoneParts ps z).count a) := by
      funext z
      unfold zoneParts
      by_cases hz : z = p.zone
      · by_cases ha : p.id = a <;> simp [List.filter_cons, hz, ha, List.count_cons] <;> omega
      · have : ¬ p.zone = z := fun e => hz e.symm
        simp [List.filter_cons, hz, this]
    rw [hfun, sum_map_add, ih]
    have hupd := sum_map_update (fun z => if z = p.zone ∧ p.id = a then 1 else 0) (fun _ => 0) p.zone
      (fun x hx => by show (if x = p.zone ∧ p.id = a then 1 else 0) = 0; rw [if_neg]; intro h; exact hx h.1) σ₂ hσ₂
    simp only [hp, if_true, true_and] at hupd
    rw [sum_map_zero] at hupd
    simp [List.count_cons]
    omega

/-! ## assignTopic as a whole -/

/-- `assignTopic` never panics, hands out every partition exactly once, only to the given members, and every
member ends with ⌊P/M⌋ or ⌊P/M⌋+1 partitions — for every pair of map iteration orders -/
theorem rackTopic_spec (sub : List Member) (parts : List Part) (σ₁ σ₂ : List Nat)
    (hne : sub ≠ []) (hd : IdsDistinct sub) (hσ₁ : σ₁.Nodup) (hσ₂ : σ₂.Nodup) (hcov : ∀ p ∈ parts, p.zone ∈ σ₂) :
    ∃ es, rackAssignTopic sub parts σ₁ σ₂ = some es ∧
      (sub.flatMap (fun m => collect m.id es)).Perm (parts.map (·.id)) ∧
      (∀ m ∈ sub, parts.length / sub.length ≤ (collect m.id es).length ∧
        (collect m.id es).length ≤ parts.length / sub.length + 1) ∧
      (∀ id, (∀ m ∈ sub, m.id ≠ id) → collect id es = []) := by
  have hM : 0 < sub.length := List.length_pos_iff.mpr hne
  unfold rackAssignTopic
  simp only [Nat.ne_of_gt hM, if_false]
  generalize hT : parts.length / sub.length = T
  generalize hR : parts.length % sub.length = R
  have hdm : sub.length * T + R = parts.length := by rw [← hT, ← hR]; exact Nat.div_add_mod _ _
  have hRlt : R < sub.length := by rw [← hR]; exact Nat.mod_lt _ hM
  -- the zone loop
  have inv0 : ZInv sub parts T R σ₂ σ₁ ⟨[], [], R⟩ := by
    refine ⟨fun _ _ _ => rfl, fun e he => by simp at he, fun m _ => by simp [collect], ?_, fun e he => by simp at he, ?_⟩
    · have : hi T sub [] = 0 := by
        unfold hi; rw [List.length_eq_zero_iff, List.filter_eq_nil_iff]; intro m _; simp [collect]
      rw [this]; simp
    · intro a
      unfold poolCount
      have : (fun z => (zoneLeft parts [] z).count a) = (fun z => (zoneParts parts z).count a) := by
        funext z; rw [zoneLeft_absent parts [] z (fun e he => by simp at he)]
      simp only [List.flatMap_nil, List.count_nil, Nat.zero_add]
      rw [this]
      exact pool_init σ₂ hσ₂ a parts hcov
  obtain ⟨st, hz, inv, _⟩ := zoneLoop_spec sub parts T R σ₂ hd hσ₂ hcov σ₁ ⟨[], [], R⟩ hσ₁ inv0
  simp only [hz]
  -- everything handed out so far plus the pooled rest is the partition list
  have hpool : (st.entries.flatMap (·.2) ++ σ₂.flatMap (zoneLeft parts st.left)).Perm (parts.map (·.id)) := by
    rw [List.perm_iff_count]
    intro a
    rw [List.count_append, ← inv.pool a]
    unfold poolCount
    congr 1
    rw [List.count_flatMap]; rfl
  have hback := collect_perm sub hd st.entries inv.ids
  have hlen : (sub.map (fun m => (collect m.id st.entries).length)).sum + (σ₂.flatMap (zoneLeft parts st.left)).length
      = parts.length := by
    have h1 := hpool.length_eq
    have h2 := hback.length_eq
    rw [List.length_append, List.length_map] at h1
    rw [List.length_flatMap] at h2
    omega
  obtain ⟨ha1, ha2⟩ := loads_arith T (fun m => (collect m.id st.entries).length) sub inv.bound
  have hcnt := inv.count
  unfold hi at hcnt
  have hcomm := Nat.mul_comm T sub.length
  obtain ⟨acc', hf, hflat, hload, hother, _, hids⟩ := finalLoop_spec T sub st.entries st.rem
    (σ₂.flatMap (zoneLeft parts st.left)) hd inv.bound
    (by unfold need; omega) (by unfold low; omega)
  refine ⟨acc', hf, ?_, hload, ?_⟩
  · have hids' : ∀ e ∈ acc', ∃ m ∈ sub, m.id = e.1 := by
      intro e he
      rcases hids e he with h | ⟨m, hm, hme⟩
      · exact inv.ids e h
      · exact ⟨m, hm, hme.symm⟩
    refine (collect_perm sub hd acc' hids').trans ?_
    rw [hflat]; exact hpool
  · intro id hid
    apply collect_absent
    intro hmem
    obtain ⟨e, he, hee⟩ := List.mem_map.mp hmem
    rcases hids e he with h | ⟨m, hm, hme⟩
    · obtain ⟨m, hm, hme⟩ := inv.ids e h
      exact hid m hm (by rw [hme, hee])
    · exact hid m hm (by rw [← hme, hee])

/-! ## rack affinity -/

/-- partitions led in rack `z` that the appends `E` place on members of rack `z` -/
def placedIn (sub : List Member) (parts : List Part) (z : Nat) (E : List (Nat × List Int)) : Nat :=
  (((sub.filter (fun m => m.zone == z)).flatMap (fun m => collect m.id E)).filter
    (fun x => (zoneParts parts z).contains x)).length

theorem placedIn_append (sub : List Member) (parts : List Part) (z : Nat) (E E' : List (Nat × List Int)) :
    placedIn sub parts z (E ++ E') = placedIn sub parts z E + placedIn sub parts z E' := by
  unfold placedIn
  have hfun : (fun m : Member => collect m.id (E ++ E')) = (fun m => collect m.id E ++ collect m.id E') := by
    funext m; exact collect_append _ _ _
  rw [hfun, ((flatMap_append_perm _ _ _).filter _).length_eq, List.filter_append, List.length_append]

theorem zoneLoop_extends (sub : List Member) (parts : List Part) (T : Nat) : ∀ (zs : List Nat) (st st' : ZoneState),
    zoneLoop sub parts T zs st = some st' → ∃ es, st'.entries = st.entries ++ es
  | [], st, st', h => by simp [zoneLoop] at h; subst h; exact ⟨[], by simp⟩
  | z :: zs, st, st', h => by
    unfold zoneLoop at h
    by_cases hC : (zoneConsumers sub z).length = 0
    · simp only [hC, if_true] at h
      exact zoneLoop_extends sub parts T zs st st' h
    · simp only [hC, if_false] at h
      cases hza : zoneAlloc T st.rem (zoneConsumers sub z) (zoneParts parts z) with
      | none => simp [hza] at h
      | some r =>
        obtain ⟨es, lf, rem'⟩ := r
        simp only [hza] at h
        obtain ⟨es', hes'⟩ := zoneLoop_extends sub parts T zs _ st' h
        exact ⟨es ++ es', by rw [hes']; simp⟩

theorem finalLoop_extends (T : Nat) : ∀ (rest : List Member) (acc : List (Nat × List Int)) (rem : Nat) (remaining : List Int)
    (acc' : List (Nat × List Int)), finalLoop T rest acc rem remaining = some acc' → ∃ new, acc' = acc ++ new
  | [], acc, _, _, acc', h => by simp [finalLoop] at h; subst h; exact ⟨[], by simp⟩
  | m :: rest, acc, rem, remaining, acc', h => by
    unfold finalLoop at h
    extract_lets assigned bump delta rem' at h
    by_cases h1 : delta > 0
    · by_cases h2 : delta ≤ remaining.length
      · simp only [h1, h2, if_true] at h
        obtain ⟨new, hn⟩ := finalLoop_extends T rest _ _ _ acc' h
        exact ⟨(m.id, List.take delta remaining) :: new, by rw [hn]; simp⟩
      · simp [h1, h2] at h
    · simp only [h1, if_false] at h
      exact finalLoop_extends T rest _ _ _ acc' h

theorem zoneLoop_affinity (sub : List Member) (parts : List Part) (T : Nat) (hd : IdsDistinct sub) :
    ∀ (zs : List Nat) (st st' : ZoneState), zoneLoop sub parts T zs st = some st' →
    ∀ z ∈ zs, min (zoneParts parts z).length ((zoneConsumers sub z).length * T) ≤ placedIn sub parts z st'.entries
  | [], _, _, _, z, hz => by simp at hz
  | z :: zs, st, st', h, z', hz' => by
    unfold zoneLoop at h
    by_cases hC : (zoneConsumers sub z).length = 0
    · simp only [hC, if_true] at h
      rcases List.mem_cons.mp hz' with rfl | hz'
      · rw [hC]; simp
      · exact zoneLoop_affinity sub parts T hd zs st st' h z' hz'
    · simp only [hC, if_false] at h
      obtain ⟨es, lf, rem', he, hcat, hids, _, _, haff⟩ :=
        zoneAlloc_spec T st.rem (zoneConsumers sub z) (zoneParts parts z) (by omega) (zoneConsumers_nodup sub hd z)
      simp only [he] at h
      rcases List.mem_cons.mp hz' with rfl | hz'
      · obtain ⟨es', hes'⟩ := zoneLoop_extends sub parts T zs _ st' h
        rw [hes']
        simp only [placedIn_append]
        -- everything the zone step appended is placed in the rack
        have hsub : IdsDistinct (sub.filter (fun m => m.zone == z')) := hd.sublist List.filter_sublist
        have hids' : ∀ e ∈ es, ∃ m ∈ sub.filter (fun m => m.zone == z'), m.id = e.1 := by
          intro e he'
          have := hids e he'
          unfold zoneConsumers at this
          obtain ⟨m, hm, hme⟩ := List.mem_map.mp this
          exact ⟨m, hm, hme⟩
        have hperm := collect_perm _ hsub es hids'
        have hall : (es.flatMap (·.2)).filter (fun x => (zoneParts parts z').contains x) = es.flatMap (·.2) := by
          rw [List.filter_eq_self]
          intro a ha
          rw [← hcat]; simp; exact Or.inl (by simpa using ha)
        have : placedIn sub parts z' es = (es.flatMap (·.2)).length := by
          unfold placedIn
          rw [(hperm.filter _).length_eq, hall]
        omega
      · exact zoneLoop_affinity sub parts T hd zs _ st' h z' hz'

theorem rackTopic_affinity (sub : List Member) (parts : List Part) (σ₁ σ₂ : List Nat) (hd : IdsDistinct sub)
    (hcov₁ : ∀ p ∈ parts, p.zone ∈ σ₁) (es : List (Nat × List Int)) (h : rackAssignTopic sub parts σ₁ σ₂ = some es) (z : Nat) :
    min (zoneParts parts z).length ((zoneConsumers sub z).length * (parts.length / sub.length)) ≤ placedIn sub parts z es := by
  unfold rackAssignTopic at h
  by_cases hM : sub.length = 0
  · simp [hM] at h
  · simp only [hM, if_false] at h
    cases hz : zoneLoop sub parts (parts.length / sub.length) σ₁ ⟨[], [], parts.length % sub.length⟩ with
    | none => simp [hz] at h
    | some st =>
      simp only [hz] at h
      obtain ⟨new, hnew⟩ := finalLoop_extends _ _ _ _ _ _ h
      rw [hnew, placedIn_append]
      by_cases hzσ : z ∈ σ₁
      · have := zoneLoop_affinity sub parts _ hd σ₁ _ st hz z hzσ
        omega
      · have : zoneParts parts z = [] := zoneParts_nil_of_not_mem parts σ₁ hcov₁ z hzσ
        rw [this]; simp

theorem ledIn_eq (ps : List Part) (t z : Nat) : ledIn ps t z = zoneParts (partsOfTopic t ps) z := by
  unfold ledIn zoneParts partsOfTopic
  rw [List.filter_filter]
  congr 1
  apply List.filter_congr
  intro p _
  exact Bool.and_comm _ _


end KV.GroupBalancer
