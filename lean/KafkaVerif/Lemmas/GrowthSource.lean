/-
Lemmas/GrowthSource.lean — the allocation policies of the CURRENT source tree (Gen/DecoderCfg.lean: `decodeElems` and
`(*decoder).read` of protocol/decode.go, symbolically executed by go/extract/decodercfg) satisfy `Growth.Policy.Ok`.
-/
import KafkaVerif.Model.Growth
import KafkaVerif.Gen.DecoderCfg

namespace KV.GrowthSource
open KV.Growth

def arrayPolicy : Policy := ⟨KV.Gen.arrayInit, KV.Gen.arrayGrow⟩
def readPolicy : Policy := ⟨KV.Gen.readInit, KV.Gen.readGrow⟩

theorem arrayPolicy_ok : arrayPolicy.Ok KV.Gen.arrayChunk := by
  constructor <;> intros <;> simp only [arrayPolicy, KV.Gen.arrayInit, KV.Gen.arrayGrow, KV.Gen.arrayChunk] <;>
    (repeat' split) <;> omega

theorem readPolicy_ok : readPolicy.Ok KV.Gen.readChunk := by
  constructor <;> intros <;> simp only [readPolicy, KV.Gen.readInit, KV.Gen.readGrow, KV.Gen.readChunk] <;>
    (repeat' split) <;> omega

end KV.GrowthSource
