import KafkaVerif.Gen.Legacy
import KafkaVerif.Base.LegacyRead
namespace KV.Gen.Legacy
open KV KV.Legacy

def createTopicsResponseTopicError.zero (v : Int) : createTopicsResponseTopicError := { v := v, Topic := [], ErrorCode := 0, ErrorMessage := [] }
def createTopicsResponseTopicError.readFrom : createTopicsResponseTopicError → Rd createTopicsResponseTopicError :=
  rdSeq (rdField (fun _ => readString) (fun t x => { t with Topic := x }))
  (rdSeq (rdField (fun _ => readInt16) (fun t x => { t with ErrorCode := x }))
  (rdSeq (rdIf (fun t => decide (t.v ≥ (1 : Int))) (rdField (fun _ => readString) (fun t x => { t with ErrorMessage := x })))
  rdDone))
structure createTopicsResponseTopicError.Ok (t : createTopicsResponseTopicError) : Prop where
  Topic_ok : t.Topic.length < 2 ^ 15
  ErrorCode_ok : inRng 16 t.ErrorCode
  ErrorMessage_ok : t.ErrorMessage.length < 2 ^ 15
  ErrorMessage_off : ¬ (t.v ≥ (1 : Int)) → t.ErrorMessage = []

theorem createTopicsResponseTopicError.read_write (t : createTopicsResponseTopicError) (h : createTopicsResponseTopicError.Ok t) (rest : Bytes) :
    createTopicsResponseTopicError.readFrom (createTopicsResponseTopicError.zero t.v) (createTopicsResponseTopicError.writeTo t ++ rest) = some (t, rest) := by
  obtain ⟨h1, h2, h3, h4⟩ := h
  by_cases c1 : t.v ≥ (1 : Int) <;>
  · cases t
    simp_all [createTopicsResponseTopicError.readFrom, createTopicsResponseTopicError.writeTo, createTopicsResponseTopicError.zero, rdSeq, rdField, rdIf, rdDone]

def createTopicsResponse.zero (v : Int) : createTopicsResponse := { v := v, ThrottleTime := 0, TopicErrors := [] }
def createTopicsResponse.readFrom : createTopicsResponse → Rd createTopicsResponse :=
  rdSeq (rdIf (fun t => decide (t.v ≥ (2 : Int))) (rdField (fun _ => readInt32) (fun t x => { t with ThrottleTime := x })))
  (rdSeq (rdField (fun t => readArrayWith (createTopicsResponseTopicError.readFrom (createTopicsResponseTopicError.zero t.v))) (fun t x => { t with TopicErrors := t.TopicErrors ++ x }))
  rdDone)
structure createTopicsResponse.Ok (t : createTopicsResponse) : Prop where
  ThrottleTime_ok : inRng 32 t.ThrottleTime
  ThrottleTime_off : ¬ (t.v ≥ (2 : Int)) → t.ThrottleTime = 0
  TopicErrors_len : t.TopicErrors.length < 2 ^ 31
  TopicErrors_ok : ∀ x ∈ t.TopicErrors, createTopicsResponseTopicError.Ok x
  TopicErrors_v : ∀ x ∈ t.TopicErrors, x.v = t.v

theorem createTopicsResponse.read_write (t : createTopicsResponse) (h : createTopicsResponse.Ok t) (rest : Bytes) :
    createTopicsResponse.readFrom (createTopicsResponse.zero t.v) (createTopicsResponse.writeTo t ++ rest) = some (t, rest) := by
  have aTopicErrors := fun r => readArrayWith_writeArray (createTopicsResponseTopicError.readFrom (createTopicsResponseTopicError.zero t.v))
    createTopicsResponseTopicError.writeTo t.TopicErrors r
    (fun x hx r => by have := createTopicsResponseTopicError.read_write x (h.TopicErrors_ok x hx) r; rwa [h.TopicErrors_v x hx] at this) h.TopicErrors_len
  obtain ⟨h1, h2, h3, h4, h5⟩ := h
  by_cases c1 : t.v ≥ (2 : Int) <;>
  · cases t
    simp_all [createTopicsResponse.readFrom, createTopicsResponse.writeTo, createTopicsResponse.zero, rdSeq, rdField, rdIf, rdDone]
end KV.Gen.Legacy
