/-
Oracle/C17.lean — line-protocol oracle for property C17 (core only; compiled to `oracle_c17`).
Requests:
  `c17 <topic hex> <op>:<ver>:<off>:<hwm> <body hex> <k> <next body hex> => <res> <next> <deliver>`
      model: the operation of Model/ConnOps.lean on the stream `(frame 1 body).take k` (then EOF); for k = frame length the
      stream continues with the follow-up list-offsets frame.  `next` = outcome of a list-offsets operation afterwards.
  `rr <api key> <ver> <frame len> <k> <reader> => <ok <consumed>|err|panic>`
      model: protocol.ReadResponse under its contract (Props/C17 `Decoder`): error on every strict prefix, on the full
      frame ok having consumed exactly the frame.
Answer: `model=<…> holds=<0|1>`; `holds` is the property monitor on the IMPLEMENTATION's output: a cut response gives
an error (never ok, never panic, never hang), the Conn then fails the next operation, records handed out are a prefix
of the records sent.
-/
import Oracle.ConnCommon

namespace KV.OracleC17
open KV KV.Reader KV.ConnOps KV.OracleConn

def monitorConn (a : OpInst) (cut : Bool) (impl : String) : Option Bool :=
  match words impl with
  | [res, next, deliver] =>
    let base := (deliver == "-" || deliver == "prefix") && res != "panic" && res != "hang"
    if cut then some (base && (isFailStr res || res.startsWith "kafka:") && isFailStr next)
    else (specJudge a res).map (fun okA => base && okA && isDone res)     -- full frame: judged as in C11
  | _ => some false

def modelConn (topic : Bytes) (a : OpInst) (k : Nat) (nextBody : Bytes) : Option String :=
  let fa := frame 1 a.body
  let stream := if k ≥ fa.length then fa ++ frame 2 nextBody else fa.take k
  match runInst topic a ⟨stream, 1, false⟩ with
  | none => none
  | some (ra, c1) =>
    match runInst topic ⟨"listOffsets", 1, 0, 0, nextBody⟩ c1 with
    | some (rn, _) => some s!"{showOutcome ra} {showOutcome rn} {if a.name == "fetch" then "prefix" else "-"}"
    | none => none

def step (line : String) : String :=
  match line.splitOn " => " with
  | [req, impl] =>
    match words req with
    | ["c17", t, sa, ha, ks, hn] =>
      match ofHex t, parseInst sa ha, ks.toNat?, ofHex hn with
      | some topic, some a, some k, some nb =>
        match modelConn topic a k nb, monitorConn a (k < a.body.length + 8) impl with
        | some m, some h => s!"model={m} holds={if h then 1 else 0}"
        | none, _ => "bad-op"
        | _, none => "bad-frame: body is not an encoding of the Spec layout"
      | _, _, _, _ => "bad-args"
    | ["rr", _, _, ls, ks, _] =>
      match ls.toNat?, ks.toNat? with
      | some len, some k =>
        let m := if k < len then "err" else s!"ok {len}"
        let h := if k < len then impl == "err" else impl != "panic"
        s!"model={m} holds={if h then 1 else 0}"
      | _, _ => "bad-args"
    | _ => "bad-request"
  | _ => "bad-line"

end KV.OracleC17

def main : IO Unit := KV.runOracle () (fun _ l => ((), KV.OracleC17.step l))
