/-
Oracle/C17.lean — line-protocol oracle for property C17 (core only; compiled to `oracle_c17`).
Requests:
  `c17 <topic hex> <op>:<ver>:<off>:<hwm> <body hex> <k> <next body hex> => <res> <next> <deliver>`
      model: the operation of Model/ConnOps.lean on the stream `(frame 1 body).take k` (then EOF); for k = frame length the
      stream continues with the follow-up list-offsets frame.  `next` = outcome of a list-offsets operation afterwards.
  `c17raw <answer hex> <k> <next body hex> => <res> <next>`   the un-framed sasl token answer ([int32 len][bytes]) cut at k.
  `c2 <topic hex> <A>:<ver>:<off>:<hwm> <bodyA hex> <B>:… <bodyB hex> <k> => <resA> <resB>`   two callers with both requests
      in flight on ONE Conn, the response stream lost after k bytes: nobody may hang (read lock released on every exit).
  `lo <cut timestamp|none> <true first> <true last> <frame len> <k> => <call> <first> <last> <error code>`   one
      Client.ListOffsets call split into three sub-requests, one sub-response cut: expected value from C19's
      Split/Merge/Client model; monitor: error, or true values.
  `rr <api key> <ver> <frame len> <k> <reader> => <ok <consumed>|err|panic>`
      model: protocol.ReadResponse under its contract (Props/C17 `Decoder`): error on every strict prefix, on the full
      frame ok having consumed exactly the frame.
  `tp <scenario> <frame len> <k> => <first> <next> <conn> <data>`   Transport/Writer end to end: the call hitting the cut
      fails (the Writer's succeeds by retrying), the follow-up calls succeed, on a connection other than the cut one,
      the records in the broker's log are intact.
  `tt <scenario> <k> <T.* events> => accept`   trace acceptance by the TransportConn LTS (Model/TransportConn.lean);
      `holds` = no event uses a connection after its exchange failed (checked directly on the trace).
Answer: `model=<…> holds=<0|1>`; `holds` is the property monitor on the IMPLEMENTATION's output: a cut response gives
an error (never ok, never panic, never hang), the Conn then fails the next operation, records handed out are a prefix
of the records sent.
-/
import Oracle.ConnCommon
import KafkaVerif.Model.TransportConnC17
import KafkaVerif.Gen.ConnLegacy
import KafkaVerif.Model.ListOffsets
import KafkaVerif.Model.SplitMerge

namespace KV.OracleC17
open KV KV.Reader KV.ConnOps KV.OracleConn

def monitorConn (a : OpInst) (cut : Bool) (impl : String) : Option Bool :=
  match words impl with
  | [res, next, deliver] =>
    let base := (deliver == "-" || deliver == "prefix") && res != "panic" && res != "hang"
    -- a cut response is a non-kafka error — also when the error code had arrived before the cut: what is left of the
    -- frame cannot be skipped (cut_is_error, fetch_cut_is_error: fail ∧ closed)
    if cut then some (base && isFailStr res && isFailStr next)
    else (specJudge a res).map (fun okA => base && okA && isDone res)     -- full frame: judged as in C11
  | _ => some false

def modelConn (topic : Bytes) (a : OpInst) (k : Nat) (nextBody : Bytes) : Option String :=
  let fa := frame 1 a.body
  let stream := if k ≥ fa.length then fa ++ frame 2 nextBody else fa.take k
  match runInstL false topic a (⟨stream, 1, false⟩, false) with
  | none => none
  | some (ra, c1) =>
    match runInstL false topic ⟨"listOffsets", 1, 0, 0, nextBody⟩ c1 with
    | some (rn, _) => some s!"{showOutcome ra} {showOutcome rn} {if a.name == "fetch" then "prefix" else "-"}"
    | none => none

/-- two callers on one Conn, both requests written before any response: responses arrive in request order, the stream
is lost after k bytes (k ≥ both frames: not at all) -/
def modelTwo (topic : Bytes) (a b : OpInst) (k : Nat) : Option String :=
  let stream := (frame 1 a.body ++ frame 2 b.body).take k
  match runInstL true topic a (⟨stream, 1, false⟩, false) with
  | none => none
  | some (ra, c1) =>
    match runInstL true topic b c1 with
    | some (rb, _) => some s!"{showOutcome ra} {showOutcome rb}"
    | none => none

/-- monitor for two callers (implementation's output only): nobody hangs or panics; a caller whose response was not
fully delivered gets an error; a caller whose response was fully delivered before the loss gets a result. -/
def monitorTwo (a b : OpInst) (k : Nat) (impl : String) : Bool :=
  match words impl with
  | [ra, rb] =>
    let la := a.body.length + 8
    let lb := b.body.length + 8
    isDone ra && isDone rb &&
    (if k < la then isFailStr ra else !isFailStr ra || (specJudge a ra).isNone) &&
    (if k < la + lb then isFailStr rb else true)
  | _ => false

/-! Transport path -/

def parseId (s : String) : Option Nat := (s.drop 1).toString.toNat?     -- "#12"

def parseTEv (s : String) : Option (Option TransportConn.Ev) :=
  match s.splitOn ":" with
  | ["T.New", c, g, _] => (parseId c).bind fun c => (parseId g).map fun g => some (.new c g)
  | ["T.Grab", c] => (parseId c).map fun c => some (.grab c)
  | ["T.Recv", c] => (parseId c).map fun c => some (.recv c)
  | ["T.Done", c, ok, nr] => (parseId c).map fun c => some (.done c (ok == "true") (nr == "true"))
  | ["T.Release", c, k] => (parseId c).map fun c => some (.release c (k == "true"))
  | ["T.Remove", c] => (parseId c).map fun c => some (.remove c)
  | ["T.CloseIdle", g, _] => (parseId g).map fun g => some (.closeIdle g)
  | ["T.Exit", c] => (parseId c).map fun c => some (.exit c)
  | "T.New" :: c :: g :: _ => (parseId c).bind fun c => (parseId g).map fun g => some (.new c g)
  | _ => none

def parseTrace (s : String) : Option (List TransportConn.Ev) :=
  if s == "-" then some [] else ((s.splitOn ",").mapM parseTEv).map (·.filterMap id)

/-- property monitor on a recorded trace, written directly (no LTS): once an exchange on c failed with anything but
ErrNoRecord, no later event grabs / receives on / completes on / releases / removes c. -/
def noReuse : List TransportConn.Ev → Bool
  | [] => true
  | .done c false false :: rest => rest.all (fun e => !TransportConn.uses c e) && noReuse rest
  | _ :: rest => noReuse rest

/-- expected outcome of the call that hits the cut -/
def firstExpected (scenario : String) : String :=
  -- client.Metadata is answered from the pool's cached state: the request whose response is cut is the pool's own
  -- refresh, and whether the caller sees its error or already the next (successful) refresh is a matter of timing
  if scenario.startsWith "writer.WriteMessages/metadata" || scenario.startsWith "reader." || scenario.startsWith "client.Metadata" then "returned"
  else if scenario.startsWith "writer.WriteMessages" then "ok"     -- the Writer retries on a new connection
  else "err"

/-! split ListOffsets with one sub-response lost: expected result from the C19 builder's model of
(*Request).Split / (*Response).Merge / Client.ListOffsets (Model/ListOffsets.lean; Props/C19 `entries_exact`,
`failure_isolated`): the lost part contributes the UNKNOWN placeholder (error −1), the others their values. -/
def modelSplitListOffsets (cutTs : Option Int) (first last : Int) : String :=
  let req : List (String × List (Int × Int)) := [("t", [(0, -2), (0, -1), (0, 1234)])]
  let answer (ts off : Int) : ListOffsets.Result :=
    if cutTs == some ts then .err "unexpected EOF" else .ok ⟨0, [("t", [⟨0, 0, -1, off, 0⟩])]⟩
  let r := ListOffsets.clientRequest 0 req
  match ListOffsets.merge (ListOffsets.split r) [answer (-2) first, answer (-1) last, answer 1234 3] with
  | .error _ => "err - - -"
  | .ok resp =>
    match ListOffsets.clientApply (ListOffsets.clientInit req) resp with
    | some m => match m.lookup ("t", 0) with
      | some p => s!"ok {p.first} {p.last} {p.error}"
      | none => "ok - - missing"
    | none => "panic"

/-- strict merges: `parts` parts with `per` entries each, the part whose response was lost fails -/
def modelStrict (parts per : Nat) (cut : Bool) : String :=
  let rs : List (Except String (List Nat)) :=
    (List.range parts).map fun i => if cut && i == 0 then .error "unexpected EOF" else .ok (List.replicate per i)
  match SplitMerge.mergeStrict rs with
  | .ok out => s!"ok {out.length}"
  | .error _ => "err 0"

/-- ListOffsets over partitions 0,1,2 (last offsets 6,7,8), the part of partition `cutP` lost: C19's model -/
def modelListOffsets3 (cutP : Option Int) : String :=
  let req : List (String × List (Int × Int)) := [("t", [(0, -1), (1, -1), (2, -1)])]
  let answer (p : Int) : ListOffsets.Result :=
    if cutP == some p then .err "unexpected EOF" else .ok ⟨0, [("t", [⟨p, 0, -1, 6 + p, 0⟩])]⟩
  let r := ListOffsets.clientRequest 0 req
  match ListOffsets.merge (ListOffsets.split r) [answer 0, answer 1, answer 2] with
  | .error _ => "err - - -"
  | .ok resp =>
    match ListOffsets.clientApply (ListOffsets.clientInit req) resp with
    | some m =>
      let show1 (p : Int) := match m.lookup ("t", p) with | some x => s!"{x.last}:{x.error}" | none => "missing"
      s!"ok {show1 0} {show1 1} {show1 2}"
    | none => "panic"

def step (line : String) : String :=
  match line.splitOn " => " with
  | [req, impl] =>
    match words req with
    | ["c17", t, sa, ha, ks, hn] =>
      match ofHex t, parseInst sa ha, ks.toNat?, ofHex hn with
      | some topic, some a, some k, some nb =>
        match modelConn topic a k nb, monitorConn a (k < a.body.length + 8) impl with
        | some m, some h => s!"model={m} holds={if h then 1 else 0}"
        | none, _ => "bad-op"
        | _, none => "bad-frame: body is not an encoding of the Spec layout"
      | _, _, _, _ => "bad-args"
    | ["c17s", t, sa, ha, ks, hn] =>
      -- the broker goes silent after k bytes (no FIN); the Conn's deadline expires: for the model a stream that ends —
      -- same prediction as a cut; the monitor also refuses `late` (came back long after the deadline) and `hang`
      match ofHex t, parseInst sa ha, ks.toNat?, ofHex hn with
      | some topic, some a, some k, some nb =>
        match modelConn topic a k nb, monitorConn a true impl with
        | some m, some h => s!"model={m} holds={if h then 1 else 0}"
        | none, _ => "bad-op"
        | _, none => "bad-frame: body is not an encoding of the Spec layout"
      | _, _, _, _ => "bad-args"
    | ["c17v", t, hav, ks, sa, ha] =>
      -- the ApiVersions response of the first negotiating operation's loadVersions cut after k bytes, the call repeated
      match ofHex t, ofHex hav, ks.toNat?, parseInst sa ha, specOf "apiVersions" with
      | some topic, some av, some k, some a, some avSpec =>
        match specOf a.name, ConnVersions.negotiating a.name with
        | some o, some (key, cands) =>
          let stream := (frame 1 av).take k
          let strict := Gen.ConnLegacy.loadVersionsStrict
          let r1 := ConnVersions.vDo strict avSpec key cands o topic (ConnVersions.VConn.fresh stream 1)
          let r2 := ConnVersions.vDo strict avSpec key cands o topic r1.2
          let h := match words impl with
            | [x, y] => isFailStr x && isFailStr y
            | _ => false
          s!"model={showOutcome r1.1} {showOutcome r2.1} holds={if h then 1 else 0}"
        | _, _ => "bad-op"
      | _, _, _, _, _ => "bad-args"
    | ["c17rawt", hr, ks] =>
      -- Transport path (saslauthenticate RawExchange): the same un-framed answer, model `rawToken`
      match ofHex hr, ks.toNat? with
      | some resp, some k =>
        let (ra, _) := rawToken (resp.take k)
        let m := if showOutcome ra == "ok" then s!"ok {resp.length - 4}" else "err"
        let h := if k < resp.length then impl == "err" else impl == s!"ok {resp.length - 4}"
        s!"model={m} holds={if h then 1 else 0}"
      | _, _ => "bad-args"
    | ["c17raw", hr, ks, hn] =>
      match ofHex hr, ks.toNat?, ofHex hn with
      | some resp, some k, some nb =>
        -- the un-framed token answer cut after k bytes; then a framed list-offsets exchange (id 1: the raw exchange
        -- has no correlation id; ApiVersions was the Conn's request 1, so the follow-up is request 2)
        let (ra, left) := rawToken (resp.take k)
        let stream := if k ≥ resp.length then left ++ frame 2 nb else left
        match runInstL false [116] ⟨"listOffsets", 1, 0, 0, nb⟩ (⟨stream, 2, false⟩, false) with
        | some (rn, _) =>
          let cut := k < resp.length
          let h := match words impl with
            | [res, next] => res != "panic" && res != "hang" && (if cut then isFailStr res && isFailStr next else res == "ok")
            | _ => false
          s!"model={showOutcome ra} {showOutcome rn} holds={if h then 1 else 0}"
        | none => "bad-op"
      | _, _, _ => "bad-args"
    | ["c2x", t, sa, ha, sb, hb, ds] =>
      -- two in flight, one response for neither: the model's waiter finds a foreign id at the head of the stream and
      -- gives the Conn up (the code does so when its deadline expires); the second caller finds it closed
      match ofHex t, parseInst sa ha, parseInst sb hb, ds.toNat? with
      | some topic, some a, some b, some d =>
        let stream := frame (1 + d) a.body
        match runInstL true topic a (⟨stream, 1, false⟩, false) with
        | some (ra, c1) =>
          match runInstL true topic b c1 with
          | some (rb, _) =>
            let norm (s : String) := if s == "fail:noprogress" then "fail" else s
            let h := match words impl with
              | [x, y] => isFailStr x && isFailStr y
              | _ => false
            s!"model={norm (showOutcome ra)} {norm (showOutcome rb)} holds={if h then 1 else 0}"
          | none => "bad-op"
        | none => "bad-op"
      | _, _, _, _ => "bad-args"
    | ["c2", t, sa, ha, sb, hb, ks] =>
      match ofHex t, parseInst sa ha, parseInst sb hb, ks.toNat? with
      | some topic, some a, some b, some k =>
        match modelTwo topic a b k with
        | some m => s!"model={m} holds={if monitorTwo a b k impl then 1 else 0}"
        | none => "bad-op"
      | _, _, _, _ => "bad-args"
    | ["lo", cts, fs, ls, _, _] =>
      match fs.toInt?, ls.toInt? with
      | some first, some last =>
        let m := modelSplitListOffsets cts.toInt? first last
        -- monitor: the call failed, or the partition carries an error, or both values are the true ones
        let h := match words impl with
          | ["err", _, _, _] => true
          | ["ok", f, l, e] => e != "0" && e != "missing" || (f.toInt? == some first && l.toInt? == some last && e == "0")
          | _ => false
        s!"model={m} holds={if h then 1 else 0}"
      | _, _ => "bad-args"
    | ["sm", api, _, ps, ls, ks] =>
      match ps.toNat?, ls.toNat?, ks.toNat? with
      | some parts, some len, some k =>
        let per := if api == "listGroups" then 2 else 1
        let m := modelStrict parts per (k < len)
        -- monitor: the call fails, or it returns ALL entries with their true content
        let h := match words impl with
          | ["err", _] => true
          | ["ok", n] => n.toNat? == some (parts * per)
          | _ => false
        s!"model={m} holds={if h then 1 else 0}"
      | _, _, _ => "bad-args"
    | ["lo3", cp, _, _] =>
      let m := modelListOffsets3 cp.toInt?
      let okPart (p : Nat) (s : String) : Bool :=
        match s.splitOn ":" with
        | [v, e] => e != "0" || v.toNat? == some (6 + p)
        | _ => false
      let h := match words impl with
        | ["err", _, _, _] => true
        | ["ok", a, b, c] => okPart 0 a && okPart 1 b && okPart 2 c
        | _ => false
      s!"model={m} holds={if h then 1 else 0}"
    | ["tp", sc, ls, ks] =>
      match ls.toNat?, ks.toNat? with
      | some len, some k =>
        let cut := k < len
        let m := if cut then s!"{firstExpected sc} ok new intact" else s!"{if firstExpected sc == "returned" then "returned" else "ok"} ok - intact"
        let h := match words impl with
          | [first, next, conn, data] =>
            first != "hang" && next == "ok" && data == "intact" && (if cut then conn == "new" && first == firstExpected sc else conn == "-")
          | _ => false
        s!"model={m} holds={if h then 1 else 0}"
      | _, _ => "bad-args"
    | ["tt", _, _, tr] =>
      match parseTrace tr with
      | some evs =>
        let m := match TransportConn.firstRejected Gen.ConnLegacy.transportFacts [] evs 0 with
          | none => "accept"
          | some i => s!"reject@{i}"
        s!"model={m} holds={if noReuse evs then 1 else 0}"
      | none => "bad-trace"
    | ["rr", _, _, ls, ks, _] =>
      match ls.toNat?, ks.toNat? with
      | some len, some k =>
        let m := if k < len then "err" else s!"ok {len}"
        let h := if k < len then impl == "err" else impl != "panic"
        s!"model={m} holds={if h then 1 else 0}"
      | _, _ => "bad-args"
    | _ => "bad-request"
  | _ => "bad-line"

end KV.OracleC17

def main : IO Unit := KV.runOracle () (fun _ l => ((), KV.OracleC17.step l))
