/-
Oracle/C15.lean — line-protocol oracle for property C15 (core only; compiled to `oracle_c15`).
Request:  `trace <nWatch> <ev>;<ev>;… => <driver status>`   (events as written by go/cmd/c15, see `parseEv`)
Answer:   `model=<ok | reject@i:<event>:<pc>>[ mon=<failed monitor>…] holds=<0|1>`
`model` is trace acceptance by Model/GroupRun.lean (`step`, D9-repaired code: `fixD9 = true`);
`holds` is the conjunction of the property monitors below, which are evaluated on the raw event list only
(counting Start/exit events, member ids, back-off markers) — they do not use the model.
-/
import KafkaVerif.Model.GroupDeadlines
import KafkaVerif.Base.Proto
import KafkaVerif.Model.GroupRun
import Oracle.GroupWireOps

namespace KV.OracleC15
open KV KV.Group

def parseErr? : String → Option (Option Err)
  | "-" => some none
  | "cl" => some (some .closed)
  | "rb" => some (some .rebalance)
  | "ut" => some (some .unknownTopic)
  | "k" => some (some .kafka)
  | "net" => some (some .net)
  | _ => none

def parseErr1 (s : String) : Option Err := (parseErr? s).bind id

def parseBool? : String → Option Bool
  | "1" => some true | "0" => some false | "true" => some true | "false" => some false | _ => none

def mem (s : String) : String := if s == "_" then "" else s

def parseEv (tok : String) : Option Ev :=
  match tok.splitOn ":" with
  | ["connectRes", e] => (parseErr? e).map .connectRes
  | ["findRes", e] => (parseErr? e).map .findRes
  | ["joinOk", mi, m, gid, l] => do some (.joinOk (mem mi) (mem m) (← gid.toInt?) (← parseBool? l))
  | ["joinErr", mi, e] => do some (.joinErr (mem mi) (← parseErr1 e))
  | ["partsRes", e] => (parseErr? e).map .partsRes
  | ["syncRes", mi, gi, e] => do some (.syncRes (mem mi) (← gi.toInt?) (← parseErr? e))
  | ["fetchRes", e] => (parseErr? e).map .fetchRes
  | ["gNew", g, gid, m] => do some (.gNew (← g.toNat?) (← gid.toInt?) (mem m))
  | ["gStart", g, a] => do some (.gStart (← g.toNat?) (← parseBool? a))
  | ["sawClose", g, r] => do some (.sawClose (← g.toNat?) (← parseBool? r))
  | ["handed", g] => do some (.handed (← g.toNat?))
  | ["sawGenDone", g] => do some (.sawGenDone (← g.toNat?))
  | ["gClose", g, w, r] => do some (.gClose (← g.toNat?) (← parseBool? w) (← r.toNat?))
  | ["gClosed", g] => do some (.gClosed (← g.toNat?))
  | ["nextGenRet", m, e] => do some (.nextGenRet (mem m) (← parseErr? e))
  | ["leave", m] => some (.leave (mem m))
  | ["leaveRes", mi, ok] => do some (.leaveRes (mem mi) (← parseBool? ok))
  | ["errDeliver", e, d] => do some (.errDeliver (← parseErr1 e) (← parseBool? d))
  | ["backoff", w] => do some (.backoff (← w.toNat?))
  | ["runExit"] => some .runExit
  | ["hbCall", g, gid, m] => do some (.hbCall (← g.toNat?) (← gid.toInt?) (mem m))
  | ["hbRet", g, e] => do some (.hbRet (← g.toNat?) (← parseErr? e))
  | ["hbExit", g] => do some (.hbExit (← g.toNat?))
  | ["watchCall", g, t] => do some (.watchCall (← g.toNat?) (← t.toNat?))
  | ["watchParts", g, t, n] => do some (.watchParts (← g.toNat?) (← t.toNat?) (← n.toNat?))
  | ["watchErr", g, t, e] => do some (.watchErr (← g.toNat?) (← t.toNat?) (← parseErr1 e))
  | ["watchExit", g, t] => do some (.watchExit (← g.toNat?) (← t.toNat?))
  | ["fnExit", g, c, l] => do some (.fnExit (← g.toNat?) (← parseBool? c) (← l.toNat?))
  | ["uRet", g, a] => do some (.uRet (← g.toNat?) (← parseBool? a))
  | ["uCtx", g] => do some (.uCtx (← g.toNat?))
  | ["closeCall"] => some .closeCall
  | ["closeRet"] => some .closeRet
  | ["nextCall"] => some .nextCall
  | ["nextRetGen", g] => do some (.nextRet (.gen (← g.toNat?)))
  | ["nextRetErr", e] => do some (.nextRet (.err (← parseErr1 e)))
  | _ => none

/-! ### monitors (Spec side: raw event list only) -/

def count (p : Ev → Bool) (es : List Ev) : Nat := (es.filter p).length

/-- accounted starts of generation g so far = exit sections of g so far -/
def settled (g : Nat) (past : List Ev) : Bool :=
  count (fun e => match e with | .gStart g' true => g' == g | _ => false) past ==
  count (fun e => match e with | .fnExit g' _ _ => g' == g | _ => false) past

/-- late (unaccounted) functions of g so far have all returned -/
def lateSettled (g : Nat) (past : List Ev) : Bool :=
  count (fun e => match e with | .gStart g' false => g' == g | _ => false) past ==
  count (fun e => match e with | .uRet g' false => g' == g | _ => false) past

/-- walk the trace with the reversed prefix; `f past e` returns a failure description -/
def scan (f : List Ev → Ev → Option String) : List Ev → List Ev → Nat → Option String
  | _, [], _ => none
  | past, e :: es, i =>
    match f past e with
    | some msg => some s!"{msg}@{i}"
    | none => scan f (e :: past) es (i + 1)

/-- one live generation: no generation is created / handed out / returned by Next before every accounted function of
every earlier generation ran its exit section -/
def monOneLive (es : List Ev) : Option String :=
  scan (fun past e =>
    let newer : Option Nat := match e with
      | .gNew g _ _ => some g | .handed g => some g | .nextRet (.gen g) => some g | _ => none
    match newer with
    | some g => if (List.range g).all (fun g' => settled g' past) then none else some s!"one-live-generation:g{g}"
    | none => none) [] es 0

/-- strict reading (D8): Next does not return generation g while a function started in an earlier generation —
accounted or not — is still running -/
def monLateStart (es : List Ev) : Option String :=
  scan (fun past e =>
    match e with
    | .nextRet (.gen g) =>
      if (List.range g).all (fun g' => lateSettled g' past) then none else some s!"late-start:g{g}"
    | _ => none) [] es 0

/-- a context is only seen cancelled after the generation ended, and exit sections end it -/
def monCtx (es : List Ev) : Option String :=
  scan (fun past e =>
    match e with
    | .uCtx g =>
      if past.any (fun p => match p with | .fnExit g' _ _ => g' == g | .gClose g' _ _ => g' == g | _ => false) then none
      else some s!"ctx-before-end:g{g}"
    | .fnExit g cbm _ =>
      -- closedByMe must be false once the generation was ended by anyone before
      let endedBefore := past.any (fun p => match p with | .fnExit g' _ _ => g' == g | .gClose g' _ _ => g' == g | _ => false)
      if cbm == !endedBefore then none else some s!"end-flag:g{g}"
    | .gStart g acc =>
      let endedBefore := past.any (fun p => match p with | .fnExit g' _ _ => g' == g | .gClose g' _ _ => g' == g | _ => false)
      if acc == !endedBefore then none else some s!"start-accounting:g{g}"
    | _ => none) [] es 0

def isDefaultErr : Option Err → Bool
  | some .closed => false | some .rebalance => false | none => false | _ => true

/-- member id `run` holds after the events so far (last nextGenRet; cleared by the default error case) -/
def currentMember (past : List Ev) : String :=
  match past.find? (fun e => match e with | .nextGenRet _ _ => true | _ => false) with
  | some (.nextGenRet m e) => if isDefaultErr e then "" else m
  | _ => ""

/-- LeaveGroup on close: when `run` exits holding a member id, its last action was leaveGroup(member); and every
leaveGroup(m) whose coordinator lookup succeeds sends the request with m -/
def monLeave (es : List Ev) : Option String :=
  scan (fun past e =>
    match e with
    | .runExit =>
      let m := currentMember past
      if m == "" then none
      else
        -- events since the last nextGenRet
        let since := past.takeWhile (fun p => match p with | .nextGenRet _ _ => false | _ => true)
        if since.any (fun p => p == .leave m) then none else some s!"exit-without-leave:{m}"
    | .leaveRes mi _ =>
      match past.find? (fun p => match p with | .leave _ => true | _ => false) with
      | some (.leave m) => if m == mi then none else some s!"leave-wrong-member:{mi}"
      | _ => some "leave-request-without-leave"
    | _ => none) [] es 0

/-- back-off: after a failed attempt (default error class) the next JoinGroup comes after the back-off timer fired -/
def monBackoff (es : List Ev) : Option String :=
  scan (fun past e =>
    match e with
    | .joinOk _ _ _ _ | .joinErr _ _ =>
      let since := past.takeWhile (fun p => match p with | .nextGenRet _ _ => false | _ => true)
      match past.find? (fun p => match p with | .nextGenRet _ _ => true | _ => false) with
      | some (.nextGenRet _ er) =>
        if isDefaultErr er && !(since.any (· == .backoff 1)) then some "join-without-backoff" else none
      | _ => none
    | _ => none) [] es 0

/-- heartbeats carry the generation's ids; none after a failed heartbeat or after the function left -/
def monHeartbeat (es : List Ev) : Option String :=
  scan (fun past e =>
    match e with
    | .hbCall g gid m =>
      let okIds := past.any (fun p => p == .gNew g gid m)
      let dead := past.any (fun p => match p with
        | .hbRet g' (some _) => g' == g | .hbExit g' => g' == g | _ => false)
      if !okIds then some s!"heartbeat-ids:g{g}" else if dead then some s!"heartbeat-after-end:g{g}" else none
    | _ => none) [] es 0

/-- partition watcher: once a poll showed a different partition count than the watcher's first answer — a different
number, the topic vanished (UnknownTopicOrPartition with a non-zero first count), the connection was lost, or the
start-up lookup failed — the watcher ends the generation: it does not poll again -/
def monWatch (es : List Ev) : Option String :=
  scan (fun past e =>
    match e with
    | .watchCall g t =>
      -- answers to this watcher so far, oldest first
      let hist := (past.filter (fun p => match p with
        | .watchParts g' t' _ => g' == g && t' == t | .watchErr g' t' _ => g' == g && t' == t | _ => false)).reverse
      match hist with
      | [] => none
      | .watchErr _ _ _ :: _ => some s!"watch-after-failed-start:g{g}:t{t}"
      | .watchParts _ _ n0 :: rest =>
        if rest.any (fun p => match p with
            | .watchParts _ _ n => n != n0
            | .watchErr _ _ .unknownTopic => n0 != 0
            | .watchErr _ _ er => !er.isKafka
            | _ => false)
        then some s!"watch-after-change:g{g}:t{t}" else none
      | _ => none
    | _ => none) [] es 0

/-- with WatchPartitionChanges a generation watches EVERY configured topic (also those it was assigned nothing of): each
watcher's start-up lookup shows up as a `watchCall g t` -/
def monWatchAll (nWatch : Nat) (es : List Ev) : Option String :=
  if nWatch == 0 then none else
  es.findSome? fun e =>
    match e with
    | .handed g =>
      match (List.range nWatch).find? (fun t => !(es.any fun p => p == .watchCall g t)) with
      | some t => some s!"no-watcher-for-configured-topic:g{g}:t{t}"
      | none => none
    | _ => none

/-- A member id the coordinator has just assigned (JoinGroup answered successfully) IS the group's current member id:
the next JoinGroup carries it, unless a LeaveGroup for it was attempted in between (`leave m` = `leaveGroup(m)` entered).
Otherwise the coordinator is left with a member — possibly the elected leader — that nobody will ever sync, heartbeat or
leave for, and the retry joins as a second membership ("closing the group sends LeaveGroup for the current member id").
The obligation ends at the next JoinGroup request (what the code does with an id after a REJECTED join is not judged). -/
def monMemberKept (es : List Ev) : Option String :=
  let check (cur : Option String) (mi : String) : Option String :=
    match cur with
    | some m => if mi != m then some s!"member-id-dropped:{if m == "" then "_" else m}" else none
    | none => none
  let rec go (cur : Option String) : List Ev → Option String
    | [] => none
    | .joinOk mi m _ _ :: r => match check cur mi with | some v => some v | none => go (some m) r
    | .joinErr mi _ :: r => match check cur mi with | some v => some v | none => go none r
    | .leave m :: r => go (if cur == some m then none else cur) r
    | _ :: r => go cur r
  go none es

/-- "the generation ends when the group is closed": when `run` exits, every generation it created has been closed
(`gen.close()`: done closed, started functions waited for) — also one that was still waiting to be handed to `Next`;
and no heartbeat / watcher poll is issued after `run` exited -/
def monClosedAtExit (es : List Ev) : Option String :=
  scan (fun past e =>
    match e with
    | .runExit =>
      let made := past.filterMap (fun p => match p with | .gNew g _ _ => some g | _ => none)
      match made.find? (fun g => !(past.any fun p => match p with | .gClose g' _ _ => g' == g | _ => false)) with
      | some g => some s!"run-exit-with-live-generation:g{g}"
      | none => none
    | .hbCall g _ _ => if past.any (· == .runExit) then some s!"heartbeat-after-run-exit:g{g}" else none
    | .watchCall g _ => if past.any (· == .runExit) then some s!"watch-after-run-exit:g{g}" else none
    | _ => none) [] es 0

def monitors (nWatch : Nat) (es : List Ev) : List String :=
  [monOneLive es, monCtx es, monLeave es, monBackoff es, monHeartbeat es, monWatch es, monWatchAll nWatch es,
   monLateStart es, monMemberKept es, monClosedAtExit es].filterMap id

def showPC (p : PC) : String := (toString (repr p)).replace "\n" " "

def answer (line : String) : String :=
  match line.splitOn " => " with
  | [req, _impl] =>
    match words req with
    | ["trace", nw, evs] =>
      match nw.toNat?, (evs.splitOn ";").mapM parseEv with
      | some nWatch, some es =>
        let c : Cfg := { nWatch := nWatch, fixD9 := true }
        let acc := match firstReject c {} es 0 with
          | none => "ok"
          | some (i, s) => s!"reject@{i}:{(evs.splitOn ";").getD i "?"}:{showPC s.pc}"
        let ms := monitors nWatch es
        let m := if ms.isEmpty then acc else acc ++ " mon=" ++ ",".intercalate ms
        s!"model={m} holds={if ms.isEmpty then 1 else 0}"
      | _, _ =>
        let bad := (evs.splitOn ";").find? (fun t => (parseEv t).isNone)
        s!"bad-op {bad.getD "?"}"
    | "options" :: cfg =>
      -- configured values (request side) and observed values: identity for the request fields, tolerances for rates
      let kv (l : List String) (k : String) : Option String :=
        (l.find? (fun x => x.startsWith (k ++ "="))).map (fun x => (x.drop (k.length + 1)).toString)
      let obs := words _impl
      let exact := ["gid", "topics", "protocols", "session", "rebalance", "retention", "start"]
      let badExact := exact.filter (fun k => kv cfg k != kv obs k || (kv cfg k).isNone)
      let nat (l : List String) (k : String) : Nat := ((kv l k).bind (·.toNat?)).getD 0
      let el := nat cfg "el"
      let hbIdeal := el / (max (nat cfg "hbiv") 1)
      let wIdeal := el / (max (nat cfg "wiv") 1)
      let bo := ((kv obs "backoff").bind (·.toInt?)).getD (-1)
      let bad := badExact ++
        (if decide (hbIdeal / 4 ≤ nat obs "hb" ∧ nat obs "hb" ≤ hbIdeal + 2) then [] else ["hb"]) ++
        (if decide (wIdeal / 4 ≤ nat obs "watch" ∧ nat obs "watch" ≤ wIdeal + 3) && decide (0 < nat obs "watch") then [] else ["watch"]) ++
        (if decide ((nat cfg "backoff" : Int) ≤ bo + 1 ∧ bo ≤ (nat cfg "backoff" : Int) + 300) then [] else ["backoff"])
      if bad.isEmpty && el > 0 then s!"model={_impl} holds=1"
      else s!"model=options-not-passed-through:{",".intercalate bad} holds=0"
    | ["wirereq", method, desc] => KV.OracleGW.opWireReq method desc _impl
    | "deadlines" :: cfg =>
      -- the library's own connection path against a wire-level coordinator that holds answers (go/cmd/c15/deadlines.go)
      let kv (l : List String) (k : String) : Option Nat :=
        ((l.find? (fun x => x.startsWith (k ++ "="))).map (fun x => (x.drop (k.length + 1)).toString)).bind (·.toNat?)
      match kv cfg "timeout", kv cfg "rebalance", kv cfg "session", kv cfg "joinheld", kv cfg "syncheld" with
      | some to, some rb, some se, some jh, some sh =>
        let t : KV.Group.Timeouts := ⟨to, rb, se⟩
        let near (h d : Nat) : Bool := decide (h + 30 > d ∧ h < d + 30)   -- too close to the deadline to call
        if near jh (KV.Group.callDeadline t .joinGroup) || near sh (KV.Group.callDeadline t .syncGroup) then "bad-op"
        else
          let (j, s) := KV.Group.requestsForFirstGeneration t jh sh
          let obs := words _impl
          let hb := ((obs.find? (fun x => x.startsWith "hbend=")).map (fun x => (x.drop 6).toString)).bind (·.toInt?)
          let hbTxt := match hb with
            -- measured from the request's ARRIVAL at the coordinator (the deadline was set before it was written): a
            -- loaded machine shortens the lower end, wake-ups lengthen the upper (a whole second of slack: the scenario that
            -- matters configures session / rebalance time-outs of 3 s, so a deadline that includes one of them, or no
            -- deadline at all, shows as -2 = "still alive after 2 s")
            | some h => if decide ((to : Int) ≤ 4 * h ∧ h ≤ (to : Int) + 1000) then toString h
                        else s!"{h}(expected-{to / 4}..{to + 1000})"
            | none => "?"
          let m := s!"joins={j} syncs={s} gen=ok hbend={hbTxt} leave=m1"
          s!"model={m} holds={if m == _impl then 1 else 0}"
      | _, _, _, _, _ => "bad-op"
    | ["defaults"] =>
      let m := KV.Group.expectedDefaultsObservation
      s!"model={m} holds={if m == _impl then 1 else 0}"
    | ["coordaddr", host, port] =>
      -- FindCoordinator answered (host, port): the next connect dials exactly that address
      match port.toInt? with
      | some p =>
        let m := KV.Group.coordinatorAddress host p
        s!"model={m} holds={if m == _impl then 1 else 0}"
      | none => "bad-op"
    | ["hbwait", iv, el] =>
      -- the same observation while the generation waits to be picked up by Next
      match iv.toNat?, el.toNat?, _impl.toNat? with
      | some iv, some el, some n =>
        let ideal := el / (max iv 1)
        let okc := decide (ideal / 4 ≤ n ∧ n ≤ ideal + 2) && decide (0 < el)
        s!"model={if okc then toString n else s!"expected {ideal / 4}..{ideal + 2} heartbeats before hand-off"} holds={if okc then 1 else 0}"
      | _, _, _ => s!"model=no-observation holds=0"
    | ["hbrate", iv, el] =>
      -- observation with tolerance: heartbeats in `el` ms at interval `iv` ms: between a quarter of the ideal count and ideal + 2
      match iv.toNat?, el.toNat?, _impl.toNat? with
      | some iv, some el, some n =>
        let ideal := el / (max iv 1)
        let okc := decide (ideal / 4 ≤ n ∧ n ≤ ideal + 2) && decide (0 < el)
        s!"model={if okc then toString n else s!"expected {ideal / 4}..{ideal + 2}"} holds={if okc then 1 else 0}"
      | _, _, _ => s!"model=no-observation holds=0"
    | ["backoff", cfg] =>
      match cfg.toInt?, _impl.toInt? with
      | some cfg, some obs =>
        let okc := decide (cfg ≤ obs + 1)    -- ms rounding
        s!"model={if okc then toString obs else s!"expected >= {cfg}"} holds={if okc then 1 else 0}"
      | _, _ => "bad-op"
    | _ => "bad-op"
  | _ => "bad-op"

end KV.OracleC15

def main : IO Unit := KV.runOracle () (fun _ l => ((), KV.OracleC15.answer l))
