/-
Oracle/C05.lean — line-protocol oracle for property C05 (core only; compiled to `oracle_c05`).

Checking requests (`<op> <args…> => <implementation output>`, answered `model=<…> holds=<0|1>`):
  wire <tag> <hex> [z<start>:<len>:<plainhex> …] => <records>
      `hex` = the bytes of a record set (no int32 size prefix).  The reference decoder `Spec/RecordBatch`
      decodes it (CRCs from `Spec/Crc`); compressed payloads are looked up in the `z` arguments
      (`start,len` = where the compressed bytes sit in `hex`, `plainhex` = what the harness' decompressor
      returned for them).  model = the decoded logical records in canonical text; holds = decoding succeeded
      ∧ structural checks (count = lastOffsetDelta+1 for produced batches, …) ∧ model = implementation output.
      Tag flags (joined by `,`): `hidectl` drop control batches, `loose` print null as empty (Conn read path),
      `produced` additionally require producer-side batch invariants, `reject` the bytes are corrupt: the
      implementation must have surfaced no record of the corrupt batch (model = records of the entries
      before the first undecodable one).
  crc <ieee|c> <hex> => <decimal>          validation of Spec/Crc against hash/crc32
  varint <int> => <hex>                    validation of Base/RecWire.varint against the library writers
  wmodel2 <attrs> <now> <recs> => <hex>    Model/RecordWriter.writeV2 ≡ protocol writeToVersion2 (uncompressed)
  lmodel2 <recs-with-ns-times> => <hex>    Model/RecordWriter.legacyBatch ≡ write.go writeRecordBatch
  wmodel1 / lmodel1                        the v1 writers (protocol writeToVersion1, Conn produce v2), byte-exact
  wmodel2c / lmodel2c / wmodel1c / lmodel1c <…> <plainhex> => <hex>   the COMPRESSED writers: byte-exact with the
                                           compressor's output taken from the implementation's bytes, and the
                                           harness-decompressed payload = the model's uncompressed payload
  pwset2 <pre> <attrs> <now> <recs> => <hex>  RecordSet.WriteTo on the REAL page buffer already holding <pre> bytes (so that
                                           placeholders and WriteAt back-patches straddle the 64 KiB page boundary) ≡
                                           Model/RecordWriterPaged.writeSetV2Paged with the extracted pageSize; also
                                           checks the statement of Props/C05 recordset_write_paged_spec on the instance
  pwset2c <pre> <codec> <now> <recs> <plainhex> => <hex>   the same with a compressor installed (writeSetV2PagedC; the
                                           compressor's bytes are taken from the implementation, as for wmodel2c)
  pwset1 <pre> <attrs> <recs> <plainhex|-> => <hex>   RecordSet.WriteTo, Version 1, on the real page buffer ≡
                                           writeV1Paged / writeV1PagedC (render in place, scan, compress, Truncate, wrapper)
  v1hdr <path> => refused                  records WITH headers on a path that emits message format 1 must be refused (C05-D32)
  pbuf <ops,…> => <digests,…>              sequences of Write / WriteAt / ReadAt / scan / Truncate / ref+ReadAt on the real
                                           pageBuffer (export hook) against Model/PageBuffer with the extracted pageSize
  ptrace <a|r<id>|f<id>|u<id>,…> => ok <n>   the page-event trace recorded by the hooks in protocol/buffer.go during a
                                           sequential decode/hold/release/encode scenario is accepted by the LTS of
                                           Model/Pages (trace acceptance): no page is handed out again while a count is held
  pages <holders> <churners> <rounds> => ok   observational page-safety test (held key/value bytes intact while
                                           other decodes recycle pooled pages); Lean side: Props/C05 pages_safe
Encoding requests (no ` => `; answered with hex or `error`):
  encrecs <rec>;<rec>…                     → Spec.encRecs
  encset <entry> <entry> …                 → Spec.encSet
-/
import KafkaVerif.Base.Proto
import KafkaVerif.Spec.Crc
import KafkaVerif.Spec.RecordBatch
import KafkaVerif.Model.RecordWriter
import KafkaVerif.Model.RecordReader
import KafkaVerif.Model.Pages
import KafkaVerif.Model.ConnReader
import KafkaVerif.Model.PageBuffer
import KafkaVerif.Model.RecordWriterPaged

namespace KV.OracleC05
open KV KV.RW KV.Spec.RB

def crcs : Crcs := ⟨Crc.crc32 Crc.polyIEEE, Crc.crc32 Crc.polyCastagnoli⟩

/-! ### text forms -/

def hex8 (n : Nat) : String := toHex (beN 4 n)

def showBytes (loose : Bool) : Option Bytes → String
  | none => if loose then "-" else "nil"
  | some b =>
    if b.isEmpty then "-"
    else if b.length ≤ 24 then toHex b
    else s!"#{b.length}:{hex8 (crcs.ieee b)}"

def showHdr (loose : Bool) (h : Hdr) : String := s!"{showBytes false (some h.key)}={showBytes loose h.value}"

def showRec (loose : Bool) (r : Rec) : String :=
  let hs := if r.headers.isEmpty then "-" else ";".intercalate (r.headers.map (showHdr loose))
  -- a negative timestamp is NO_TIMESTAMP (-1: written by pre-0.10 producers, kept by up-conversion): the harness prints the
  -- zero time.Time as 0, and that is what "no timestamp" must be delivered as
  s!"o{r.offset},t{if r.ts < 0 then 0 else r.ts},k{showBytes loose r.key},v{showBytes loose r.value},h{hs}"

def showRecs (loose : Bool) (rs : List Rec) : String :=
  if rs.isEmpty then "none" else "|".intercalate (rs.map (showRec loose))

/-- `p<len>.<seed>` pattern bytes: byte i = (seed + i*131 + i/251) % 256 -/
def pattern (len seed : Nat) : Bytes := (List.range len).map (fun i => UInt8.ofNat ((seed + i * 131 + i / 251) % 256))

def parseBytes (s : String) : Option (Option Bytes) :=
  if s == "nil" then some none
  else if s == "-" then some (some [])
  else if s.startsWith "p" then
    match (s.drop 1).toString.splitOn "." with
    | [l, sd] => match l.toNat?, sd.toNat? with
      | some l, some sd => some (some (pattern l sd))
      | _, _ => none
    | _ => none
  else (ofHexChars s.toList).map some

def parseHdrs (s : String) : Option (List Hdr) :=
  if s == "-" then some []
  else (s.splitOn "+").mapM fun kv =>
    match kv.splitOn "=" with
    | [k, v] => match parseBytes k, parseBytes v with
      | some (some k), some v => some ⟨k, v⟩
      | _, _ => none
    | _ => none

/-- `<tsDelta>,<offDelta>,<key>,<value>,<hdrs>` -/
def parseRecV2 (s : String) : Option RecV2 :=
  match s.splitOn "," with
  | [ts, od, k, v, hs] =>
    match ts.toInt?, od.toInt?, parseBytes k, parseBytes v, parseHdrs hs with
    | some ts, some od, some k, some v, some hs => some ⟨0, ts, od, k, v, hs⟩
    | _, _, _, _, _ => none
  | _ => none

def parseEntry (s : String) : Option Entry :=
  match s.splitOn ":" with
  | ["m", magic, off, attrs, ts, k, v] =>
    match magic.toInt?, off.toInt?, attrs.toInt?, ts.toInt?, parseBytes k, parseBytes v with
    | some magic, some off, some attrs, some ts, some k, some v => some (.msg ⟨off, magic, attrs, ts, k, v⟩)
    | _, _, _, _, _, _ => none
  | ["b", base, epoch, attrs, lod, fts, mts, pid, pe, bseq, cnt, payload] =>
    match base.toInt?, epoch.toInt?, attrs.toInt?, lod.toInt?, fts.toInt?, mts.toInt?, pid.toInt?, pe.toInt?,
      bseq.toInt?, cnt.toInt?, parseBytes payload with
    | some base, some epoch, some attrs, some lod, some fts, some mts, some pid, some pe, some bseq, some cnt,
      some (some payload) => some (.batch ⟨base, epoch, attrs, lod, fts, mts, pid, pe, bseq, cnt, payload⟩)
    | _, _, _, _, _, _, _, _, _, _, _ => none
  | _ => none

/-! ### decoding with supplied decompressed payloads -/

structure Z where
  comp : Bytes
  plain : Bytes

def parseZ (whole : Bytes) (s : String) : Option Z :=
  match (s.drop 1).toString.splitOn ":" with
  | [st, ln, ph] =>
    match st.toNat?, ln.toNat?, parseBytes ph with
    | some st, some ln, some (some p) => some ⟨(whole.drop st).take ln, p⟩
    | _, _, _ => none
  | _ => none

def decWith (zs : List Z) (_codec : Int) (b : Bytes) : Option Bytes :=
  (zs.find? (fun z => z.comp == b)).map (·.plain)

/-- decode as many entries as possible: returns the decoded prefix and whether everything was consumed -/
def readPrefix (c : Crcs) : Nat → Bytes → List Entry × Bool
  | _, [] => ([], true)
  | 0, _ :: _ => ([], false)
  | fuel + 1, bs =>
    match readEntry c bs with
    | none => ([], false)
    | some (e, rest) => let (es, ok) := readPrefix c fuel rest; (e :: es, ok)

/-- producer-side invariants of one entry with `n` logical records: a v2 batch has baseOffset 0,
count = n and lastOffsetDelta = n-1; a v1 wrapper (its own offset is assigned by the broker) holds
inner messages with relative offsets 0..n-1 -/
def producedOk (e : Entry) (recs : List Rec) (wrapperOffset : Int) : Bool :=
  let n := recs.length
  match e with
  | .batch f => f.count == (n : Int) && f.lastOffsetDelta == (n : Int) - 1 && f.baseOffset == 0 &&
      (recs.zipIdx.all fun (r, i) => r.offset == (i : Int))
  | .msg m =>
    if codecOf m.attributes = 0 then true
    else recs.zipIdx.all fun (r, i) => r.offset - (wrapperOffset - ((n : Int) - 1)) == (i : Int)

/-- in a produce request the wrapper's own offset is a placeholder: report the inner relative offsets -/
def unwrapProduced (e : Entry) (g : Bool × List Rec) : Bool × List Rec :=
  match e with
  | .msg m =>
    if codecOf m.attributes = 0 then g
    else (g.1, g.2.map fun r => { r with offset := r.offset - (m.offset - ((g.2.length : Int) - 1)) })
  | .batch _ => g

def hasFlag (tag : String) (f : String) : Bool := ((tag.splitOn "/").getLast?.getD "").splitOn "," |>.contains f

def checkWire (tag : String) (bytes : Bytes) (zs : List Z) (impl : String) : String :=
  let loose := hasFlag tag "loose"
  let hide := hasFlag tag "hidectl"
  let reject := hasFlag tag "reject"
  let (es, complete) := readPrefix crcs bytes.length bytes
  if !complete && !reject then s!"model=undecodable-after-{es.length}-entries holds=0"
  else
    match flattenAll crcs (decWith zs) es with
    | none => "model=undecodable-inner holds=0"
    | some groups =>
      let produced := hasFlag tag "produced"
      let prodOk := !produced || (es.zip groups).all (fun (e, g) =>
        producedOk e g.2 (match e with | .msg m => m.offset | .batch _ => 0))
      let oneBatch := !produced || es.length == 1 || es.all (fun e => match e with
        | .msg m => codecOf m.attributes = 0 | .batch _ => false)
      let groups := if produced then (es.zip groups).map (fun (e, g) => unwrapProduced e g) else groups
      let visible := groups.filter (fun g => !(hide && g.1))
      let recs := (visible.map (·.2)).flatten
      let spec := showRecs loose recs
      -- Conn path: `model` = the byte-level Conn reader model (Model/ConnReader);
      -- Client.Fetch path: `model` is what the DECODER MODEL (Model/RecordReader) returns for these bytes, the
      -- monitor stays the reference decoder
      let model := if tag.startsWith "fetch/recordset" || tag.startsWith "fetch/client"
        then showRecs loose (Model.RecordReader.clientFetch crcs (decWith zs) bytes)
        else if tag.startsWith "fetch/conn"
        then (match Model.ConnReader.connReadSet (decWith zs) bytes.length bytes with
              | some rs => showRecs loose rs
              | none => "conn-model-failed")
        else spec
      s!"model={model} holds={if spec == impl && prodOk && oneBatch && (!reject || !complete) then 1 else 0}"

/-! ### page traces (hooks in protocol/buffer.go) replayed through Model/Pages -/

/-- replay `a` (alloc), `r<id>` (reuse from the pool), `f<id>` (ref), `u<id>` (unref); real page ids are mapped to
the model's ids in order of allocation.  Returns the number of accepted events or the index of the rejected one. -/
def replayPages : List String → Nat → Model.Pages.PState → List (Nat × Nat) → Except Nat (Model.Pages.PState)
  | [], _, s, _ => .ok s
  | e :: es, k, s, ids =>
    let arg := (e.drop 1).toString.toNat?
    let lookup (p : Nat) : Option Nat := (ids.find? (·.1 == p)).map (·.2)
    let ev : Option (Model.Pages.PEvent × List (Nat × Nat)) :=
      if e == "a" then some (.allocPage, ids ++ [(ids.length, s.fresh)])
      else match arg with
        | none => none
        | some p =>
          match lookup p with
          | none => none
          | some m =>
            if e.startsWith "r" then (s.pool.idxOf? m).map (fun i => (.reusePage i, ids))
            else if e.startsWith "f" then some (.ref m, ids)
            else if e.startsWith "u" then some (.unref m, ids)
            else none
    match ev with
    | none => .error k
    | some (pe, ids') =>
      match Model.Pages.step s pe with
      | none => .error k
      | some s' => replayPages es (k + 1) s' ids'

/-! ### page buffer operations (export hook protocol/verif_export_pages.go) against Model/PageBuffer -/

def digest (b : Bytes) : String := s!"{b.length}:{hex8 (crcs.ieee b)}"

/-- ops: `w<len>.<seed>` Write, `a<off>.<len>.<seed>` WriteAt, `r<off>.<len>` ReadAt, `s<b>.<e>` scan, `t<n>` Truncate,
`f<b>.<e>.<off>.<n>` ref [b,e) then ReadAt(n bytes at off); read-type ops contribute a digest -/
def runPbuf (P : Nat) : List String → Model.PageBuffer.PB → List String → Option (List String)
  | [], _, acc => some acc.reverse
  | op :: ops, pb, acc =>
    let args := ((op.drop 1).toString.splitOn ".").mapM (·.toNat?)
    match op.take 1 |>.toString, args with
    | "w", some [l, sd] => runPbuf P ops (Model.PageBuffer.write P pb (pattern l sd)) acc
    | "a", some [off, l, sd] => runPbuf P ops (Model.PageBuffer.writeAt P pb (pattern l sd) off) acc
    | "r", some [off, n] => runPbuf P ops pb (digest (Model.PageBuffer.readAt P pb off n) :: acc)
    | "s", some [b, e] => runPbuf P ops pb (digest (Model.PageBuffer.scan P pb b e) :: acc)
    | "t", some [n] => runPbuf P ops (Model.PageBuffer.truncate pb n) acc
    | "f", some [b, e, off, n] =>
      runPbuf P ops pb (digest (Model.PageBuffer.refReadAt P (Model.PageBuffer.refTo P pb b e) b (e - b) off n) :: acc)
    | _, _ => none

/-! ### requests -/

def parseRecsV2 (s : String) : Option (List RecV2) :=
  if s == "-" then some [] else (s.splitOn ";").mapM parseRecV2

def parseProd (s : String) : Option Model.RecordWriter.PRec :=
  match s.splitOn "," with
  | [t, k, v, hs] =>
    match t.toInt?, parseBytes k, parseBytes v, parseHdrs hs with
    | some t, some k, some v, some hs => some ⟨t, k, v, hs⟩
    | _, _, _, _ => none
  | _ => none

def step (line : String) : String :=
  match line.splitOn " => " with
  | [req, impl] =>
    match words req with
    | "wire" :: tag :: hx :: zargs =>
      match ofHex hx with
      | none => "bad-op"
      | some bytes =>
        match zargs.mapM (parseZ bytes) with
        | none => "bad-op"
        | some zs => checkWire tag bytes zs impl
    | ["pwset2", pre, attrs, now, recs] =>
      match pre.toNat?, attrs.toInt?, now.toInt?, (recs.splitOn ";").mapM parseProd with
      | some pre, some attrs, some now, some rs =>
        let P := Gen.RecordConsts.pageSize
        let prefix_ : Bytes := (List.range pre).map (fun i => (i % 251).toUInt8)
        let pb := Model.RecordWriter.pagesOf P prefix_
        match Model.RecordWriter.writeSetV2Paged P crcs.castagnoli attrs now rs pb,
              Model.RecordWriter.writeV2 crcs.castagnoli attrs now rs with
        | some pb', some bytes =>
          let fl := Model.PageBuffer.flat pb'
          let h := toHex (fl.drop (pre - 16))
          let thm := fl == prefix_ ++ (RW.u32 bytes.length ++ bytes)
          s!"model={h} holds={if h == impl && thm then 1 else 0}"
        | _, _ => s!"model=error holds={if impl == "error" then 1 else 0}"
      | _, _, _, _ => "bad-op"
    | ["pwset2c", pre, attrs, now, recs, plain] =>
      -- compressed: the compressor's output is read off the implementation's bytes (after the 16 bytes of old content,
      -- the 4-byte size and the 61-byte header), written into the model's buffer as ONE chunk; the harness-decompressed
      -- payload must be the model's uncompressed records
      match pre.toNat?, attrs.toInt?, now.toInt?, (recs.splitOn ";").mapM parseProd, ofHex plain, ofHex impl with
      | some pre, some attrs, some now, some rs, some plain, some ib =>
        let P := Gen.RecordConsts.pageSize
        let prefix_ : Bytes := (List.range pre).map (fun i => (i % 251).toUInt8)
        let pb := Model.RecordWriter.pagesOf P prefix_
        let comp := ib.drop ((min pre 16) + 4 + 61)
        let first := match rs with | [] => 0 | r0 :: _ => Model.RecordWriter.effTime now r0
        let inner := Model.RecordWriter.recordsV2 now first 0 rs == plain
        match Model.RecordWriter.writeSetV2PagedC P crcs.castagnoli [comp] attrs now rs pb,
              Model.RecordWriter.writeV2C crcs.castagnoli (fun _ => comp) attrs now rs with
        | some pb', some bytes =>
          let fl := Model.PageBuffer.flat pb'
          let h := toHex (fl.drop (pre - 16))
          let thm := fl == prefix_ ++ (RW.u32 bytes.length ++ bytes)
          s!"model={h} holds={if h == impl && thm && inner then 1 else 0}"
        | _, _ => s!"model=error holds={if impl == "error" then 1 else 0}"
      | _, _, _, _, _, _ => "bad-op"
    | ["pwset1", pre, attrs, recs, plain] =>
      -- RecordSet.WriteTo, Version 1, on the real page buffer: uncompressed (attrs % 8 = 0, plain = "-") or with a codec
      -- (wrapper timestamp = time.Now() and the compressor's output read off the implementation's bytes)
      match pre.toNat?, attrs.toInt?, (recs.splitOn ";").mapM parseProd, ofHex impl with
      | some pre, some attrs, some rs, some ib =>
        let P := Gen.RecordConsts.pageSize
        let prefix_ : Bytes := (List.range pre).map (fun i => (i % 251).toUInt8)
        let pb := Model.RecordWriter.pagesOf P prefix_
        let skip := (min pre 16) + 4
        let res :=
          if attrs % 8 = 0 then
            (Model.RecordWriter.writeSetPagedWith P (fun b => some (Model.RecordWriter.writeV1Paged P crcs.ieee attrs 0 0 rs b)) pb,
             Model.RecordWriter.writeV1 crcs.ieee attrs 0 0 rs, true)
          else
            let comp := ib.drop (skip + 34)
            let now : Int := match readI64 (ib.drop (skip + 18)) with | some (t, _) => t | none => 0
            let inner := match ofHex plain with
              | some pl => Model.RecordWriter.writeV1 crcs.ieee (attrs - attrs % 8) now 0 rs == pl
              | none => false
            (Model.RecordWriter.writeSetPagedWith P (fun b => some (Model.RecordWriter.writeV1PagedC P crcs.ieee (fun _ => comp) attrs now rs b)) pb,
             Model.RecordWriter.writeV1C crcs.ieee (fun _ => comp) attrs now rs, inner)
        match res with
        | (some pb', bytes, inner) =>
          let fl := Model.PageBuffer.flat pb'
          let h := toHex (fl.drop (pre - 16))
          let thm := fl == prefix_ ++ (RW.u32 bytes.length ++ bytes)
          s!"model={h} holds={if h == impl && thm && inner then 1 else 0}"
        | (none, _, _) => "model=error holds=0"
      | _, _, _, _ => "bad-op"
    | ["v1hdr", _path] =>
      -- records with headers handed to a writer that can only emit message format 1: the format has no place for them,
      -- the only outcome that loses nothing silently is a refusal (finding C05-D32)
      s!"model=refused holds={if impl == "refused" then 1 else 0}"
    | ["pbuf", opsText] =>
      let model := match runPbuf Gen.RecordConsts.pageSize (opsText.splitOn ",") ⟨0, []⟩ [] with
        | some ds => if ds.isEmpty then "-" else ",".intercalate ds
        | none => "bad-ops"
      s!"model={model} holds={if model == impl then 1 else 0}"
    | ["ptrace", evs] =>
      let es := if evs == "-" then [] else evs.splitOn ","
      let model := match replayPages es 0 Model.Pages.init [] with
        | .ok _ => s!"ok {es.length}"   -- counts never released only keep pages out of the pool (GC frees them)
        | .error k => s!"rejected-at-{k}"
      s!"model={model} holds={if model == impl then 1 else 0}"
    | ["pages", _, _, _] => s!"model=ok holds={if impl == "ok" then 1 else 0}"
    | ["crc", kind, hx] =>
      match ofHex hx with
      | some b =>
        let v := if kind == "c" then crcs.castagnoli b else crcs.ieee b
        s!"model={v} holds={if toString v == impl then 1 else 0}"
      | none => "bad-op"
    | ["varint", x] =>
      match x.toInt? with
      | some x =>
        let h := toHex (varint x)
        let back := (readVarint (varint x)).map (·.1) == some x
        s!"model={h} holds={if h == impl && back && (varint x).length == varintLen x then 1 else 0}"
      | none => "bad-op"
    | ["wmodel2", attrs, now, recs] =>
      match attrs.toInt?, now.toInt?, (recs.splitOn ";").mapM parseProd with
      | some attrs, some now, some rs =>
        let h := match Model.RecordWriter.writeV2 crcs.castagnoli attrs now rs with
          | some b => toHex b
          | none => "error"
        s!"model={h} holds={if h == impl then 1 else 0}"
      | _, _, _ => "bad-op"
    | ["wmodel2c", attrs, now, recs, plain] =>
      match attrs.toInt?, now.toInt?, (recs.splitOn ";").mapM parseProd, ofHex plain, ofHex impl with
      | some attrs, some now, some rs, some plain, some ib =>
        let comp := ib.drop 61
        let first := match rs with | [] => 0 | r0 :: _ => Model.RecordWriter.effTime now r0
        let h := match Model.RecordWriter.writeV2C crcs.castagnoli (fun _ => comp) attrs now rs with
          | some b => toHex b
          | none => "error"
        let inner := Model.RecordWriter.recordsV2 now first 0 rs == plain
        s!"model={h} holds={if h == impl && inner then 1 else 0}"
      | _, _, _, _, _ => "bad-op"
    | ["lmodel2c", code, recs, plain] =>
      match code.toInt?, (recs.splitOn ";").mapM parseProd, ofHex plain, ofHex impl with
      | some code, some rs, some plain, some ib =>
        let comp := ib.drop 61
        let base := match rs with | [] => 0 | r0 :: _ => r0.time
        let h := toHex (Model.RecordWriter.legacyBatchC crcs.castagnoli (fun _ => comp) code rs)
        let inner := Model.RecordWriter.legacyRecordsWith Model.RecordWriter.tsDelta base 0 rs == plain
        s!"model={h} holds={if h == impl && inner then 1 else 0}"
      | _, _, _, _ => "bad-op"
    | ["wmodel1c", attrs, recs, plain] =>
      match attrs.toInt?, (recs.splitOn ";").mapM parseProd, ofHex plain, ofHex impl with
      | some attrs, some rs, some plain, some ib =>
        let comp := ib.drop 34
        -- the wrapper's timestamp is `time.Now()` at encoding time: read it off the bytes (offset 18)
        let now : Int := match readI64 (ib.drop 18) with | some (t, _) => t | none => 0
        let h := toHex (Model.RecordWriter.writeV1C crcs.ieee (fun _ => comp) attrs now rs)
        let inner := Model.RecordWriter.writeV1 crcs.ieee (attrs - attrs % 8) now 0 rs == plain
        s!"model={h} holds={if h == impl && inner then 1 else 0}"
      | _, _, _, _ => "bad-op"
    | ["wmodel1", attrs, recs] =>
      match attrs.toInt?, (recs.splitOn ";").mapM parseProd with
      | some attrs, some rs =>
        let h := toHex (Model.RecordWriter.writeV1 crcs.ieee attrs 0 0 rs)
        s!"model={h} holds={if h == impl then 1 else 0}"
      | _, _ => "bad-op"
    | ["lmodel1", recs] =>
      match (recs.splitOn ";").mapM parseProd with
      | some rs =>
        let h := toHex (Model.RecordWriter.legacyMessageSet crcs.ieee rs)
        s!"model={h} holds={if h == impl then 1 else 0}"
      | none => "bad-op"
    | ["lmodel1c", code, recs, plain] =>
      match code.toInt?, (recs.splitOn ";").mapM parseProd, ofHex plain, ofHex impl with
      | some code, some rs, some plain, some ib =>
        let comp := ib.drop 34
        let h := toHex (Model.RecordWriter.legacyWrapper crcs.ieee (fun _ => comp) code rs)
        let inner := Model.RecordWriter.legacyInner crcs.ieee 0 rs == plain
        s!"model={h} holds={if h == impl && inner then 1 else 0}"
      | _, _, _, _ => "bad-op"
    | ["lmodel2", recs] =>
      match (recs.splitOn ";").mapM parseProd with
      | some rs =>
        let h := toHex (Model.RecordWriter.legacyBatch crcs.castagnoli rs)
        s!"model={h} holds={if h == impl then 1 else 0}"
      | none => "bad-op"
    | _ => "bad-op"
  | [req] =>
    match words req with
    | ["encrecs", rs] =>
      match parseRecsV2 rs with
      | some rs => toHex (encRecs rs)
      | none => "error"
    | "encset" :: es =>
      match es.mapM parseEntry with
      | some es => toHex (encSet crcs es)
      | none => "error"
    | _ => "error"
  | _ => "bad-request"

partial def loop (i o : IO.FS.Stream) : IO Unit := do
  let line ← i.getLine
  if line.isEmpty then
    o.flush
    return ()
  o.putStrLn (step line.trimAscii.toString)
  o.flush
  loop i o

end KV.OracleC05

def main : IO Unit := do
  let i ← IO.getStdin
  let o ← IO.getStdout
  KV.OracleC05.loop i o
