/-
Oracle/C02.lean — line-protocol oracle for property C02 (core only; compiled to `oracle_c02`).
Request:  `<op> <args…> => <implementation output>`
Answer:   `model=<model output> holds=<0|1>`
`model` comes from Model/MessageSetReader.lean + Model/Batch.lean (+ ReaderLoop for `reader`) in the variant
selected by the op prefix (the current code = `fixed`); `holds` is the property monitor evaluated on the
*implementation's* output from Spec/Layout.lean only: the delivered sequence is exactly the stored records at
or above the start offset that the response(s) contain completely, in order, each once, fields (digest) equal.
-/
import KafkaVerif.Base.Proto
import KafkaVerif.Model.Batch
import KafkaVerif.Spec.Layout

namespace KV.OracleC02
open KV KV.C02

def field (ws : List String) (k : String) : Option String :=
  (ws.find? (·.startsWith (k ++ "="))).map (fun w => (w.drop (k.length + 1)).toString)

def fieldInt (ws : List String) (k : String) : Option Int := (field ws k).bind (·.toInt?)

def splitList (s : String) (sep : String) : List String := if s == "-" then [] else s.splitOn sep

def parseRec3 (s : String) : Option (Int × Nat × Nat) :=
  match s.splitOn "~" with
  | [d, t, z] => do pure ((← d.toInt?), (← t.toNat?), (← z.toNat?))
  | _ => none

def parseRec2 (s : String) : Option (Int × Nat) :=
  match s.splitOn "~" with
  | [d, t] => do pure ((← d.toInt?), (← t.toNat?))
  | _ => none

def parseItem (s : String) : Option Item :=
  match s.splitOn ":" with
  | ["b", base, last, codec, plen, recs] => do
    pure (.b2 (← base.toInt?) (← last.toInt?) (codec != "0") (← plen.toNat?) (← (splitList recs ",").mapM parseRec3))
  | ["m", magic, off, tag, size] => do
    pure (.m (← magic.toNat?) (← off.toInt?) (← tag.toNat?) (← size.toNat?))
  | ["w", magic, woff, _codec, size, inner] => do
    pure (.w (← magic.toNat?) (← woff.toInt?) (← size.toNat?) (← (splitList inner ",").mapM parseRec2))
  | _ => none

def parseLayout (s : String) : Option (List Item) := (splitList s "/").mapM parseItem

def parseDelivered (s : String) : Option (List Rec) :=
  (splitList s ",").mapM fun e =>
    match e.splitOn ":" with
    | [o, t] => do pure ((← o.toInt?), (← t.toNat?))
    | _ => none

def showDelivered (d : List Rec) : String :=
  if d.isEmpty then "-" else ",".intercalate (d.map fun (o, t) => s!"{o}:{t}")

def showResult (d : List Rec) (off : Int) (out : String) : String := s!"d={showDelivered d} off={off} out={out}"

structure Impl where
  d : List Rec
  off : Int
  out : String

def parseImpl (s : String) : Option Impl := do
  let ws := words s
  pure { d := (← parseDelivered (← field ws "d")), off := (← fieldInt ws "off"), out := (← field ws "out") }

def answer (model : String) (holds : Bool) : String :=
  s!"model={model} holds={if holds then 1 else 0}"

/-- monitor of one fetch round -/
def fetchHolds (items : List Item) (cut o hwm : Int) (i : Impl) : Bool :=
  if hwm = o then i.d.isEmpty && i.off == o && i.out == "kafka7"
  else
    let expected := (containedRecords items cut).filter (fun r => o ≤ r.1)
    i.d == expected
    && (i.out == "eof" || i.out == "unexpectedEOF")
    -- nothing stored at or above the start offset is jumped over
    && (allRecords items).all (fun r => !(o ≤ r.1 && r.1 < i.off) || i.d.contains r)
    -- under the fetch contract (the response starts with the batch containing the offset, sent whole) the
    -- position never moves backwards
    && (match items with
        | it :: _ => !(o ≤ it.last && (cut < 0 || it.size ≤ cut.toNat)) || o ≤ i.off
        | [] => true)

def variantOf (op : String) : Variant := if op.startsWith "legacy-" then .legacy else .fixed

def step (line : String) : String :=
  match line.splitOn " => " with
  | [req, impl] =>
    let ws := words req
    match ws.head?, parseImpl impl with
    | some op, some i =>
      let v := variantOf op
      if op == "fetch" || op == "legacy-fetch" then
        match fieldInt ws "o", fieldInt ws "hwm", fieldInt ws "cut", (field ws "L").bind parseLayout with
        | some o, some hwm, some cut, some items =>
          let (d, off, r) := readAll v false o hwm (responseTokens items cut)
          answer (showResult d off r.show) (fetchHolds items cut o hwm i)
        | _, _, _, _ => "bad-op"
      else if op == "iter" || op == "legacy-iter" then
        match fieldInt ws "o", fieldInt ws "hwm", (field ws "budgets").bind (fun s => (s.splitOn ",").mapM (·.toNat?)),
              (field ws "L").bind parseLayout with
        | some o, some hwm, some budgets, some items =>
          let fuel := 4 * ((hwm - o).toNat + 2) + 10
          let (d, off, out) := iterate v items hwm budgets fuel 0 0 o []
          let expected := (allRecords items).filter (fun r => o ≤ r.1)
          answer (showResult d off out) (i.d == expected && i.out == "done" && i.off == hwm)
        | _, _, _, _ => "bad-op"
      else "bad-op"
    | _, _ => "bad-op"
  | _ => "bad-op"

end KV.OracleC02

def main : IO Unit := KV.runOracle () (fun _ l => ((), KV.OracleC02.step l))
