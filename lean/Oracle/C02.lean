/-
Oracle/C02.lean — line-protocol oracle for property C02 (core only; compiled to `oracle_c02`).
Request:  `<op> <args…> => <implementation output>`
Answer:   `model=<model output> holds=<0|1>`
`model` comes from Model/MessageSetReader.lean + Model/Batch.lean (+ ReaderLoop for `reader`) in the variant
selected by the op prefix (the current code = `fixed`); `holds` is the property monitor evaluated on the
*implementation's* output from Spec/Layout.lean only: the delivered sequence is exactly the stored records at
or above the start offset that the response(s) contain completely, in order, each once, fields (digest) equal.
-/
import KafkaVerif.Base.Proto
import KafkaVerif.Model.Batch
import KafkaVerif.Model.ReaderLoop
import KafkaVerif.Model.ReaderFront
import KafkaVerif.Spec.Layout
import KafkaVerif.Spec.ByteLayout
import KafkaVerif.Spec.Crc
import KafkaVerif.Model.ReaderLoopLTS
import KafkaVerif.Model.PullReader
import KafkaVerif.Model.ReaderWorld
import KafkaVerif.Model.ByteReader
import KafkaVerif.Model.ByteHeader
import KafkaVerif.Model.ByteWalk

namespace KV.OracleC02
open KV KV.C02

def field (ws : List String) (k : String) : Option String :=
  (ws.find? (·.startsWith (k ++ "="))).map (fun w => (w.drop (k.length + 1)).toString)

def fieldInt (ws : List String) (k : String) : Option Int := (field ws k).bind (·.toInt?)

def splitList (s : String) (sep : String) : List String := if s == "-" then [] else s.splitOn sep

def parseRec3 (s : String) : Option (Int × Nat × Nat) :=
  match s.splitOn "~" with
  | [d, t, z] => do pure ((← d.toInt?), (← t.toNat?), (← z.toNat?))
  | _ => none

def parseRec2 (s : String) : Option (Int × Nat) :=
  match s.splitOn "~" with
  | [d, t] => do pure ((← d.toInt?), (← t.toNat?))
  | _ => none

def parseItem (s : String) : Option Item :=
  match s.splitOn ":" with
  | ["b", base, last, codec, plen, recs] => do
    pure (.b2 (← base.toInt?) (← last.toInt?) (codec != "0") (← plen.toNat?) (← (splitList recs ",").mapM parseRec3))
  | ["m", magic, off, tag, size] => do
    pure (.m (← magic.toNat?) (← off.toInt?) (← tag.toNat?) (← size.toNat?))
  | ["w", magic, woff, _codec, size, inner] => do
    pure (.w (← magic.toNat?) (← woff.toInt?) (← size.toNat?) (← (splitList inner ",").mapM parseRec2))
  | _ => none

def parseLayout (s : String) : Option (List Item) := (splitList s "/").mapM parseItem

def parseDelivered (s : String) : Option (List Rec) :=
  (splitList s ",").mapM fun e =>
    match e.splitOn ":" with
    | [o, t] => do pure ((← o.toInt?), (← t.toNat?))
    | _ => none

def showDelivered (d : List Rec) : String :=
  if d.isEmpty then "-" else ",".intercalate (d.map fun (o, t) => s!"{o}:{t}")

def showResult (d : List Rec) (off : Int) (out : String) : String := s!"d={showDelivered d} off={off} out={out}"

structure Impl where
  d : List Rec
  off : Int
  out : String

def parseImpl (s : String) : Option Impl := do
  let ws := words s
  pure { d := (← parseDelivered (← field ws "d")), off := (← fieldInt ws "off"), out := (← field ws "out") }

def answer (model : String) (holds : Bool) : String :=
  s!"model={model} holds={if holds then 1 else 0}"

/-- monitor of one fetch round -/
def fetchHolds (items : List Item) (cut o hwm : Int) (i : Impl) : Bool :=
  if hwm = o then i.d.isEmpty && i.off == o && i.out == "kafka7"
  else
    let expected := (containedRecords items cut).filter (fun r => o ≤ r.1)
    i.d == expected
    && (i.out == "eof" || i.out == "unexpectedEOF")
    -- nothing stored at or above the start offset is jumped over
    && (allRecords items).all (fun r => !(o ≤ r.1 && r.1 < i.off) || i.d.contains r)
    -- v0/v1 items are read whole or not at all: with the contract's first item the position never moves backwards
    -- wherever the response is cut
    && (match items with
        | it :: _ => !(o ≤ it.last && items.all (fun x => match x with | .b2 .. => false | _ => true)) || o ≤ i.off
        | [] => true)
    -- under the fetch contract (the response starts with the batch containing the offset, sent whole) the
    -- position never moves backwards
    && (match items with
        | it :: _ => !(o ≤ it.last && (cut < 0 || it.size ≤ cut.toNat)) || o ≤ i.off
        | [] => true)

/-! ### op `reader` -/

def parseFault (s : String) : Option (Nat × Fault) :=
  match s.splitOn ":" with
  | [i, k] => do
    let idx ← i.toNat?
    if k.startsWith "cut" then pure (idx, .cut (← (k.drop 3).toString.toNat?))
    -- the frame stops at the same byte but the connection stays open: the read deadline ends the round instead of EOF —
    -- the complete records are delivered, the Conn is closed, `run` reconnects
    else if k.startsWith "stall" then pure (idx, .cut (← (k.drop 5).toString.toNat?))
    -- OffsetOutOfRange followed by an unanswered ListOffsets: readOffsets fails at its deadline → conn.Close(); break readLoop
    else if k == "err1h" then pure (idx, .hang)
    else if k.startsWith "err" then pure (idx, .err (← (k.drop 3).toString.toNat?))
    else if k == "hang" then pure (idx, .hang)
    else if k == "move" then pure (idx, .move)
    else none
  | _ => none

def parsePair (sep : String) (s : String) : Option (Nat × Int) :=
  match s.splitOn sep with
  | [a, b] => do pure ((← a.toNat?), (← b.toInt?))
  | _ => none

def showJournal (j : List (Nat × Int)) : String :=
  if j.isEmpty then "-" else ",".intercalate (j.map fun (c, o) => s!"{c}:{o}")

/-- the delivered stream as text: entries `offset:digest`, `|` at each SetOffset -/
def showStream (segs : List (List Rec)) : String :=
  let parts := segs.map fun d => d.map fun (o, t) => s!"{o}:{t}"
  let flat := (parts.intersperse ["|"]).flatten
  if flat.isEmpty then "-" else ",".intercalate flat

def parseStream (s : String) : Option (List (List Rec)) :=
  if s == "-" then some [[]] else
  let rec go (es : List String) (cur : List Rec) (acc : List (List Rec)) : Option (List (List Rec)) :=
    match es with
    | [] => some (acc ++ [cur])
    | e :: rest =>
      if e == "|" then go rest [] (acc ++ [cur])
      else if e.startsWith "E" then go rest cur acc      -- an error handed to the application: see `streamHasError`
      else match e.splitOn ":" with
        | [o, t] => do go rest (cur ++ [((← o.toInt?), (← t.toNat?))]) acc
        | _ => none
  go (s.splitOn ",") [] []

/-- FetchMessage returned an error (`E<class>` in the stream): none of the scripted faults may reach the application -/
def streamHasError (s : String) : Bool := (s.splitOn ",").any (·.startsWith "E")

def strictlyIncreasing : List Rec → Bool
  | a :: b :: rest => a.1 < b.1 && strictlyIncreasing (b :: rest)
  | _ => true

/-- monitor of a Reader run: segment i (between SetOffset calls) must be, in order and without repetition, stored
records at or above its position `p_i`, starting with the first stored one at or above `p_i`, gap-free with respect
to the records that are still stored at the end (log-start truncation may delete records before they are read);
non-final segments have exactly the scripted length, the final one reaches the log end -/
def readerHolds (all final : List Rec) (positions : List Int) (lens : List Nat) (segs : List (List Rec)) (out : String) : Bool :=
  out == "done" && segs.length == positions.length &&
  (List.range segs.length).all fun i =>
    let seg := segs.getD i []
    let p := positions.getD i 0
    let isLast := i + 1 == segs.length
    let stored := all.filter (fun r => p ≤ r.1)
    strictlyIncreasing seg && seg.all (fun r => stored.contains r) &&
    -- no surviving record is skipped: up to the last delivered offset (all of them for the final segment)
    (final.filter (fun r => p ≤ r.1 && (isLast || (match seg.getLast? with | some l => r.1 ≤ l.1 | none => false)))).all (fun r => seg.contains r) &&
    (isLast || seg.length == lens.getD i 0)

/-! ### op `tok`: bytes → tokens -/

def lenPrefixed (b : Bytes) : Bytes := RW.beN 4 b.length ++ b

/-- a nullable byte string: null has the length prefix 0xffffffff -/
def optPrefixed : Option Bytes → Bytes
  | none => RW.beN 4 0xffffffff
  | some b => lenPrefixed b

/-- the driver's `Digest`: crc32 of key, value, 8-byte timestamp, headers (null ≠ empty) -/
def digestOf (key value : Option Bytes) (ts : Int) (hs : List Spec.RB.Hdr) : Nat :=
  Crc.crc32 Crc.polyIEEE
    (optPrefixed key ++ optPrefixed value ++ RW.beN 8 (RW.toU RW.M64 ts) ++
      hs.flatMap (fun h => lenPrefixed h.key ++ optPrefixed h.value))

def tokCfg : TokCfg :=
  { crcs := { ieee := Crc.crc32 Crc.polyIEEE, castagnoli := Crc.crc32 Crc.polyCastagnoli },
    dec := fun _ _ => none,
    dg2 := fun fts r => digestOf r.key r.value (fts + r.tsDelta) r.headers,
    dg1 := fun m => digestOf m.key m.value (if m.magic = 0 then -1 else m.ts) [] }

/-- the byte-level Go reads (Model/ByteReader.lean: readVarInt / readInt8 / runFunc / readMessageHeader with the
`remain` accounting) walking a message set of uncompressed v2 batches and v0/v1 messages: the header (`BR.readHeaderB`), then `count` records, each
with `remain` = what is left of the whole set; errShortRead ends the walk like it ends the batch -/
def brWalk : Nat → Option (H2 × Nat) → Bytes → List Tok
  | 0, _, _ => []
  | fuel + 1, st, bs =>
    if bs.isEmpty then []
    else match st with
      | none =>
        -- message_reader.go readHeader field by field (Model/ByteHeader.lean), `remain` = what is left of the set
        match BR.readHeaderB ⟨bs, bs.length⟩ with
        | .error _ => [.cut]
        | .ok (.bad _, _) => [.cut]
        | .ok (.v2 h, r') =>
          Tok.h2 h.base h.lod h.count.toNat (h.attrs % 8 != 0) h.plen ::
            brWalk fuel (if h.count.toNat = 0 then none else some (h, h.count.toNat)) r'.bs
        | .ok (.v1 h hts, r') =>
          -- a v0/v1 message: the fixed header, then readMessageV1's `readBytesWith(key)`, `readBytesWith(val)`
          let rest := r'.bs
          let ts : Int := if h.magic = 1 then hts else -1
          Tok.h1 h.magic.toNat h.off (h.attrs % 8 != 0) ::
            if rest.isEmpty then [] else      -- nothing left: the stream ends, no `cut` token
            match BR.readBodyV1 ⟨rest, rest.length⟩ with
            | .error _ => [.cut]
            | .ok ((k, v), r'') =>
              Tok.kv (digestOf k v ts []) (rest.length - r''.bs.length) :: brWalk fuel none r''.bs
      | some (h, k) =>
        match BR.readRecordV2 ⟨bs, bs.length⟩ with
        | .error _ => [.cut]
        | .ok (v, r') =>
          Tok.r2 v.offDelta (digestOf v.key v.value (h.firstTs + v.tsDelta) (v.headers.map fun x => ⟨x.1, x.2⟩))
              v.consumed.toNat ::
            brWalk fuel (if k ≤ 1 then none else some (h, k - 1)) r'.bs

/-! ### op `rtrace`: replay of the RL.* hook events of one fetcher through the loop LTS (Model/ReaderLoopLTS.lean) -/

inductive TEv
  | top (a : Nat) (o : Int) | cancel | init (cls : String) (start : Int) | offs (cls : String) (f l : Int)
  | iter (e : Nat) (o : Int) | read (cls : String) (o c : Int) | msg (o : Int) | serr (cls : String)

def parseTEv (s : String) : Option TEv :=
  match s.splitOn ":" with
  | ["Top", a, o] => do pure (.top (← a.toNat?) (← o.toInt?))
  | ["Cancel", _] => some .cancel
  | ["Cancel"] => some .cancel
  | ["Init", c, st] => do pure (.init c (← st.toInt?))
  | ["Offsets", c, f, l] => do pure (.offs c (← f.toInt?) (← l.toInt?))
  | ["Iter", e, o] => do pure (.iter (← e.toNat?) (← o.toInt?))
  | ["Read", c, o, co] => do pure (.read c (← o.toInt?) (← co.toInt?))
  | ["Msg", o] => do pure (.msg (← o.toInt?))
  | ["SendErr", c] => some (.serr c)
  | _ => none

structure Rep where
  s : RR
  pendOffs : Option (Int × Int) := none
  d : List Rec := []
  pendOOR : Bool := false
  nerr : Nat := 0
  bad : Option String := none
  prop : Bool := false   -- the rejection is a failure of the property itself (wrong deliveries), not of the tie

def sortedRecs : List Rec → Bool
  | a :: b :: rest => a.1 < b.1 && sortedRecs (b :: rest)
  | _ => true

/-- the `Good` hypotheses of the loop theorems, evaluated on a recorded fetch round (`all`: every record the log ever
held, `final`: what is left after log-start truncation) -/
def goodDataB (all final : List Rec) (q : Int) (d : List Rec) (off' : Int) : Bool :=
  sortedRecs d && d.all (fun r => all.contains r && q ≤ r.1 && r.1 < off') &&
  final.all (fun r => !(q ≤ r.1 && r.1 < off') || d.contains r) && q ≤ off'

def goodCutB (all final : List Rec) (q : Int) (d : List Rec) : Bool :=
  sortedRecs d && d.all (fun r => all.contains r && q ≤ r.1) &&
  final.all (fun r => !(q ≤ r.1 && d.any (fun x => r.1 ≤ x.1)) || d.contains r)

def sleepIfDue (cfg : RCfg) (s : RR) : RR :=
  if (s.phase == .top && s.attempt != 0 && !s.slept) || (s.phase == .reading && !s.slept) then rstep cfg s .sleepOk else s

def fail (r : Rep) (why : String) : Rep := if r.bad.isSome then r else { r with bad := some why }
def failProp (r : Rep) (why : String) : Rep := if r.bad.isSome then r else { r with bad := some why, prop := true }

def kcode (cls : String) : Option Nat := if cls.startsWith "kafka" then (cls.drop 5).toString.toNat? else none

/-- the scenario as the world model (Model/ReaderWorld.lean) needs it: the stored layout (and the one left after the
scripted log-start truncation), the broker's byte budgets, the high watermark -/
structure WCtx where
  layouts : List (List Item)
  budgets : List Nat
  hwm : Int

def sizeOfItems (items : List Item) : Nat := (items.map Item.size).foldl (· + ·) 0

/-- the recorded fetch round is what `worldEvent` computes (broker serving under the fetch contract + the decoder as
written) for one of the scripted budgets -/
def worldFetchMatches (w : WCtx) (s : RR) (e : Bool) (d : List Rec) (c : Int) (oc : Outcome) : Bool :=
  w.layouts.any fun items => w.budgets.any fun b =>
    match worldEvent items s (.fetch b w.hwm e) with
    | .data d' c' oc' => d' == d && c' == c && oc' == oc
    | _ => false

/-- the recorded deliveries of a round whose connection was lost are what `worldEvent` computes for some byte count -/
def worldLostMatches (w : WCtx) (s : RR) (d : List Rec) : Bool :=
  w.layouts.any fun items => (List.range (sizeOfItems (dropBefore s.connOff items) + 2)).any fun n =>
    match worldEvent items s (.lost n w.hwm false) with
    | .cutAfter d' => d' == d
    | _ => false

def replayStep (cfg : RCfg) (w : WCtx) (all final : List Rec) (r : Rep) (e : TEv) : Rep :=
  if r.bad.isSome then r else
  match e with
  | .top a o =>
    if r.s.phase == .top && r.s.attempt == a && r.s.offset == o then r
    else fail r s!"top: recorded attempt={a} offset={o}, model attempt={r.s.attempt} offset={r.s.offset}"
  | .cancel =>
    let s' := rstep cfg r.s .sleepCancel
    if s'.phase == .stopped then { r with s := s' } else fail r "cancel: the model is not in a backoff sleep"
  | .offs cls f l =>
    if r.s.phase == .top then (if cls == "nil" then { r with pendOffs := some (f, l) } else r)
    else if r.pendOOR then
      let ev : REv := if cls == "nil" then .kerr 1 (some (f, l)) else .kerr 1 none
      if cls == "nil" && !(final.all (fun x => f ≤ x.1)) then fail r s!"OffsetOutOfRange: first offset {f} is above a stored record"
      else { r with s := rstep cfg r.s ev, pendOOR := false }
    else fail r "offsets: unexpected"
  | .init cls start =>
    let s0 := sleepIfDue cfg r.s
    if cls == "nil" then
      match r.pendOffs with
      | none => fail r "init ok without offsets"
      | some (f, l) =>
        let s' := rstep cfg s0 (.initOk f l)
        if !(0 ≤ f && f ≤ l && final.all (fun x => f ≤ x.1)) then fail r s!"initialize: first={f} last={l} not a valid range below the stored records"
        else if s'.phase == .reading && s'.offset == start && s'.connOff == start then { r with s := s', pendOffs := none }
        else fail r s!"initialize: recorded start={start}, model phase/offset/conn={repr s'.phase}/{s'.offset}/{s'.connOff}"
    else { r with s := rstep cfg s0 (.initFail (cls == "kafka1")), pendOffs := none }
  | .iter e o =>
    if r.s.phase == .reading && r.s.errcount == e && r.s.offset == o then r
    else fail r s!"iter: recorded errcount={e} offset={o}, model phase={repr r.s.phase} errcount={r.s.errcount} offset={r.s.offset}"
  | .msg o =>
    match all.find? (fun x => x.1 == o) with
    | some x => { r with d := r.d ++ [x] }
    | none => failProp r s!"message {o} is not a stored record"
  | .read cls o c =>
    let s0 := sleepIfDue cfg r.s
    let q := s0.connOff
    let r0 := { r with d := [] }
    if cls == "nil" || cls == "eof" || cls == "kafka7" then
      if !(goodDataB all final q r.d c) then failProp r s!"fetch round at {q}: delivered {r.d.map (·.1)} conn offset after {c}: not the stored records of [{q},{c})"
      else if !w.budgets.isEmpty && !(cls == "kafka7" && r.d.isEmpty && c == q)       -- an error answer RequestTimedOut looks the same
          && !(worldFetchMatches w s0 (cls == "kafka7") r.d c (if cls == "kafka7" then .timedOut else .eof))
          && !(worldLostMatches w s0 r.d) then                                        -- the scripted `cut` fault truncates anywhere
        fail r s!"fetch round at {q}: delivered {r.d.map (·.1)}, conn offset after {c}, {cls}: not what the world model (serve + decoder as written) computes for any scripted budget"
      else
        let s' := rstep cfg s0 (.data r.d c (if cls == "kafka7" then .timedOut else .eof))
        if s'.offset == o && s'.connOff == c then { r0 with s := s' }
        else fail r s!"read: recorded offset={o} conn={c}, model offset={s'.offset} conn={s'.connOff}"
    else if cls == "kafka1" then
      if r.d.isEmpty then { r0 with s := s0, pendOOR := true } else fail r "OffsetOutOfRange after messages"
    else if cls == "canceled" then
      -- the messages of the round that were handed on before the context was cancelled
      if !(goodCutB all final q r.d) then failProp r s!"cancelled round at {q}: delivered {r.d.map (·.1)}: not an initial segment of the stored records"
      else { r0 with s := rstep cfg s0 (.ctxCanceled r.d) }
    else if cls == "unknowncodec" then { r0 with s := rstep cfg s0 .unknownCodec }
    else match kcode cls with
      | some code => { r0 with s := rstep cfg s0 (.kerr code none) }
      | none =>
        if r.d.isEmpty then { r0 with s := rstep cfg s0 .ioErr }
        else if !(goodCutB all final q r.d) then failProp r s!"lost connection at {q}: delivered {r.d.map (·.1)}: not an initial segment of the stored records"
        else if !w.budgets.isEmpty && !(worldLostMatches w s0 r.d) then
          fail r s!"lost connection at {q}: delivered {r.d.map (·.1)}: not what the world model computes for any number of bytes"
        else
          let s' := rstep cfg s0 (.cutAfter r.d)
          if s'.offset == o then { r0 with s := s' } else fail r s!"read(cut): recorded offset={o}, model offset={s'.offset}"
  | .serr _ => { r with nerr := r.nerr + 1 }

/-! ### op `ftrace`: the Reader front (version tags) -/

inductive FTEv
  | start (v : Nat) (o : Int) | enq (v : Nat) (off : Int) | accept (ver mver : Nat) (off : Int) (isErr : Bool)
  | drop (ver mver : Nat) | setOffset (o roff : Int) (v : Nat) (closed : Bool)

def parseFTEv (s : String) : Option FTEv :=
  match s.splitOn ":" with
  | ["Start", v, o] => do pure (.start (← v.toNat?) (← o.toInt?))
  | ["Enq", v, off] => do pure (.enq (← v.toNat?) (← off.toInt?))
  | ["Accept", a, b, off, e] => do pure (.accept (← a.toNat?) (← b.toNat?) (← off.toInt?) (e == "true"))
  | ["Drop", a, b] => do pure (.drop (← a.toNat?) (← b.toNat?))
  | ["SetOffset", o, ro, v, c] => do pure (.setOffset (← o.toInt?) (← ro.toInt?) (← v.toNat?) (c == "true"))
  | _ => none

structure FRep where
  version : Nat := 0                      -- r.version as far as the trace tells
  starts : List (Nat × Int) := []          -- fetchers: tag, start offset (resolved)
  enqs : List (Nat × Int) := []            -- (tag, offset) in recorded order
  accepts : List (Nat × Int) := []         -- accepted messages (tag, offset) in order
  pendSet : Option Int := none             -- a SetOffset that must be followed by a start at this offset
  pos : Option Int := none                 -- r.offset (`Reader.Offset()`) as the API model `astep` tracks it
  bad : Option String := none
  prop : Bool := false

def ffail (r : FRep) (p : Bool) (why : String) : FRep := if r.bad.isSome then r else { r with bad := some why, prop := p }

/-- the offset of the first stored record at or above `pos` (`ASpec`, `reader_api`) -/
def firstAtOrAbove (l : List Rec) (pos : Int) : Option Int := (l.find? (fun x => pos ≤ x.1)).map (·.1)

def fReplay (first hwm : Int) (all final : List Rec) (r : FRep) (e : FTEv) : FRep :=
  if r.bad.isSome then r else
  match e with
  | .start v o =>
    let o' := if o = -2 then first else if o = -1 then hwm else o
    let r1 := match r.pendSet with
      | some p => if p = o then { r with pendSet := none } else ffail r false s!"start at {o} after SetOffset({p})"
      | none => r
    let r1 := if r1.pos.isNone then { r1 with pos := some o } else r1          -- the lazy start is at r.offset
    if v = r.version + 1 then { r1 with version := v, starts := r1.starts ++ [(v, o')] }
    else ffail r1 false s!"fetcher started with tag {v}, previous version {r.version}"
  | .enq v off =>
    if r.starts.any (·.1 == v) then { r with enqs := r.enqs ++ [(v, off)] } else ffail r false s!"message {off} enqueued with unknown tag {v}"
  | .accept ver mver off isErr =>
    if isErr then r
    else if mver < ver then ffail r true s!"FetchMessage returned message {off} with stale tag {mver} < {ver}"
    else if mver != r.version then ffail r true s!"FetchMessage returned message {off} of fetcher {mver}, current version {r.version}"
    else
      -- `reader_api`: FetchMessage returns the first stored record at or above Offset(), Offset() becomes its offset + 1
      let r := match r.pos with
        | some p =>
          if p != -1 && firstAtOrAbove all p != some off && firstAtOrAbove final p != some off then
            ffail r true s!"FetchMessage returned {off}; Offset() was {p}, the first stored record at or above it is {firstAtOrAbove final p}"
          else r
        | none => r
      { r with accepts := r.accepts ++ [(mver, off)], pos := some (off + 1) }
  | .drop ver mver => if mver < ver then r else ffail r false s!"message with tag {mver} dropped by a call that captured version {ver}"
  | .setOffset o roff v closed =>
    if closed then r
    else
      -- Offset() as the model tracks it is what the code holds in r.offset
      let r := match r.pos with
        | some p => if p != roff then ffail r false s!"SetOffset({o}): r.offset is {roff}, the API model's Offset() is {p}" else r
        | none => r
      let r := { r with pos := some (if o = roff then roff else o) }
      if o = roff || v = 0 then r               -- no-op / lazy start
      else { r with pendSet := some o }

/-- every fetcher enqueues, in order, the stored records at or above its start offset; what FetchMessage accepted from
a fetcher is a prefix of what that fetcher enqueued -/
def fCheck (all final : List Rec) (r : FRep) : FRep :=
  r.starts.foldl (fun (r : FRep) (st : Nat × Int) =>
    let enq := (r.enqs.filter (·.1 == st.1)).map (·.2)
    let acc := (r.accepts.filter (·.1 == st.1)).map (·.2)
    let storedAll := (all.map (·.1)).filter (fun x => st.2 ≤ x)
    let last := enq.getLast?.getD (st.2 - 1)
    let mustHave := (final.map (·.1)).filter (fun x => st.2 ≤ x && x ≤ last)
    if !(enq.all (fun x => storedAll.contains x)) then ffail r true s!"fetcher {st.1} (start {st.2}) enqueued {enq}: not stored records at or above its start"
    else if !(sortedRecs (enq.map (fun x => (x, 0)))) then ffail r true s!"fetcher {st.1} enqueued {enq}: not in increasing order"
    else if !(mustHave.all (fun x => enq.contains x)) then ffail r true s!"fetcher {st.1} (start {st.2}) enqueued {enq}: skipped a stored record"
    else if acc != enq.take acc.length then ffail r true s!"accepted from fetcher {st.1}: {acc}, enqueued: {enq}"
    else r) r

/-! ### op `pullfuzz`: the pull model against the token machine on arbitrary (mostly malformed) token streams -/

def lcg (s : Nat) : Nat := (s * 6364136223846793005 + 1442695040888963407) % 18446744073709551616

def fuzzTok (s : Nat) : Tok × Nat :=
  let s1 := lcg s; let s2 := lcg s1; let s3 := lcg s2; let s4 := lcg s3
  let k := (s1 / 65536) % 9
  let a : Int := Int.ofNat ((s2 / 65536) % 12)
  let b : Int := Int.ofNat ((s3 / 65536) % 4)
  let c := (s4 / 65536) % 3
  let t : Tok := match k with
    | 0 => .h2 a b c false (c * 5)
    | 1 => .h2 a b (c + 1) true 7
    | 2 => .r2 b 1 5
    | 3 => .z2 7 ((List.range (c + 1)).map fun (i : Nat) => (Int.ofNat i, i, 5))
    | 4 => .h1 (c % 2) a false
    | 5 => .h1 1 a true
    | 6 => .kv 3 4
    | 7 => .zv 9 ((List.range (c + 1)).map fun (i : Nat) => (Int.ofNat i, i))
    | _ => .cut
  (t, s4)

def fuzzToks : Nat → Nat → List Tok × Nat
  | 0, s => ([], s)
  | n + 1, s => let (t, s') := fuzzTok s; let (ts, s'') := fuzzToks n s'; (t :: ts, s'')

/-- number of (stream, start offset, expired) triples on which the token machine does not desynchronise and the pull
model gives another result (must be 0), and the number of such triples examined -/
def pullFuzz : Nat → Nat → Nat → Nat → Nat × Nat
  | 0, _, bad, seen => (bad, seen)
  | n + 1, s, bad, seen =>
    let (toks, s') := fuzzToks (lcg s % 8) (lcg s)
    let (bad, seen) := [(0, false), (3, false), (6, true)].foldl (fun (acc : Nat × Nat) (p : Nat × Bool) =>
      let a := readAll .fixed p.2 (Int.ofNat p.1) 100 toks
      let b := Pull.readAll p.2 (Int.ofNat p.1) 100 toks
      if a.2.2 == .desync then acc
      else if a.1 == b.1 && a.2.1 == b.2.1 && a.2.2 == b.2.2 then (acc.1, acc.2 + 1) else (acc.1 + 1, acc.2 + 1)) (bad, seen)
    pullFuzz n s' bad seen

def variantOf (op : String) : Variant := if op.startsWith "legacy-" then .legacy else .fixed

def step (line : String) : String :=
  match line.splitOn " => " with
  | [req, impl] =>
    let ws := words req
    match ws.head?, parseImpl impl with
    | some op, some i =>
      let v := variantOf op
      if op == "fetch" || op == "fetchts" || op == "legacy-fetch" || op == "fetchx" || op == "legacy-fetchx" then
        -- `fetchx`: the same round read after the batch's adjusted deadline has passed (`expired = true`): the round
        -- must end with RequestTimedOut instead of io.EOF, everything else as for `fetch`
        let expired := op.endsWith "fetchx"
        match fieldInt ws "o", fieldInt ws "hwm", fieldInt ws "cut", (field ws "L").bind parseLayout with
        | some o, some hwm, some cut, some items =>
          let (d, off, r) := readAll v expired o hwm (responseTokens items cut)
          -- the statement-by-statement pull model (Model/PullReader.lean) must agree with the token machine
          let (pd, poff, pr) := Pull.readAll expired o hwm (responseTokens items cut)
          if v == .fixed && !(pd == d && poff == off && pr == r) then
            answer s!"pull-model-differs: {showResult pd poff pr.show} vs {showResult d off r.show}" false else
          let i' := if expired && i.out == "kafka7" then { i with out := "eof" } else i
          answer (showResult d off r.show) (fetchHolds items cut o hwm i' && (!expired || i.out == "kafka7" || i.out == "unexpectedEOF"))
        | _, _, _, _ => "bad-op"
      else if op == "iter" || op == "legacy-iter" then
        match fieldInt ws "o", fieldInt ws "hwm", (field ws "budgets").bind (fun s => (s.splitOn ",").mapM (·.toNat?)),
              (field ws "L").bind parseLayout with
        | some o, some hwm, some budgets, some items =>
          let fuel := 4 * ((hwm - o).toNat + 2) + 10
          let (d, off, out) := iterate v items hwm budgets fuel 0 0 o []
          let expected := (allRecords items).filter (fun r => o ≤ r.1)
          answer (showResult d off out) (i.d == expected && i.out == "done" && i.off == hwm)
        | _, _, _, _ => "bad-op"
      else "bad-op"
    | some op, none =>
      if op == "pullfuzz" then
        match fieldInt ws "seed", fieldInt ws "n" with
        | some seed, some n =>
          let (bad, seen) := pullFuzz n.toNat (seed.toNat * 7919 + 12345) 0 0
          if seen == 0 then answer "nothing-examined" false else answer s!"mismatches={bad}" (bad == 0)
        | _, _ => "bad-op"
      else if op == "grow" then
        -- a partition that is being written to: every round through the world model's `fetchSnap`
        match fieldInt ws "o", (field ws "snaps").bind (fun s => (s.splitOn ",").mapM (·.toNat?)),
              (field ws "budgets").bind (fun s => (s.splitOn ",").mapM (·.toNat?)), (field ws "L").bind parseLayout with
        | some o, some snaps, some budgets, some items =>
          let rec go (rounds : List (Nat × Nat)) (st : RR) (acc : List String) : List String :=
            match rounds with
            | [] => acc
            | (m, b) :: rest =>
              let hwm : Int := match (items.take m).getLast? with | some it => it.last + 1 | none => 0
              match worldEvent items st (.fetchSnap m b hwm false) with
              | .data d off' oc =>
                let acc := acc ++ [s!"{showDelivered d}@{off'}@{oc.show}"]
                if oc == .eof || oc == .timedOut then
                  go rest { rstep {} st (.data d off' oc) with slept := true } acc
                else acc
              | _ => acc
          let model := "r=" ++ ";".intercalate
            (go (snaps.zip budgets) { phase := .reading, offset := o, connOff := o, slept := true, start := some o } [])
          answer model (model == impl)
        | _, _, _, _ => "bad-op"
      else if op == "readvs" then
        -- Batch.Read and Batch.ReadMessage hand out the values of the same messages
        let iw := words impl
        match field iw "msg", field iw "read" with
        | some a, some b => if a == b then answer impl true else answer s!"msg={a} read={a}" false
        | _, _ => "bad-op"
      else if op == "unkcodec" then
        -- a batch with an unknown compression codec: the loop LTS says `read` → errUnknownCodec is "sendError; break
        -- readLoop" (back to the top of the outer loop, no connection, one more error for the application, nothing
        -- delivered); the driver reports what the real loop did with its connections meanwhile
        let s0 : RR := { offset := -2 }
        let s1 := rrun {} s0 [.initOk 100 102, .sleepOk, .unknownCodec, .sleepOk, .initOk 100 102, .sleepOk, .unknownCodec]
        let model := s!"errs=4 msgs={s1.msgs.length} leak=no afterclose=all"
        answer model (s1.phase == .top && s1.errors == [0, 0] && s1.msgs.isEmpty && impl == model)
      else if op == "oore" then
        -- ReaderConfig.OffsetOutOfRangeError, a fetcher started beyond the log end, through the loop LTS: `initialize`'s
        -- Seek refuses (resolved offset > last) — with the option the error goes to the application and `run` returns,
        -- without it `run` retries for ever; a fetcher started at a stored offset afterwards is reading there
        match fieldInt ws "option", fieldInt ws "start", fieldInt ws "first", fieldInt ws "last" with
        | some opt, some start, some first, some last =>
          let cfg : RCfg := { offsetOutOfRangeError := opt == 1 }
          let s1 := rrun cfg { offset := start } [.initOk first last]
          let s2 := rrun cfg s1 [.sleepOk, .initOk first last, .sleepOk, .initOk first last, .sleepOk, .initFail true]
          let s3 := rrun cfg { offset := 102 } [.initOk first last]
          let show1 (before after : RR) : String :=
            match after.errors.drop before.errors.length with
            | [] => "nothing"
            | c :: _ => s!"kafka{c}"
          let third := if s3.phase == .reading then s!"{s3.connOff}" else "nothing"
          let model := s!"fetch1={show1 { offset := start } s1} fetch2={show1 s1 s2} after-setoffset-102={third}"
          answer model (impl == model && (opt == 1) == (s1.phase == .stopped) && s2.msgs.isEmpty)
        | _, _, _, _ => "bad-op"
      else if op == "earlyclose" then
        -- Batch.Close before the end of the batch: Close returned nil ⇒ the Conn is at a response boundary (the next call works)
        let iw := words impl
        match field iw "first", field iw "close", field iw "next" with
        | some f, some c, some n =>
          if f != "nil" then answer "first=nil" false
          else if c == "nil" && n != "ok" then answer s!"first=nil close=<error> (or next=ok): Close returned nil but the next call on the Conn gave {n}" false
          else answer impl true
        | _, _, _ => "bad-op"
      else if op == "ftrace" then
        match (field ws "L").bind parseLayout, fieldInt ws "first", fieldInt ws "hwm",
              (field ws "T").map (fun t => (t.splitOn ";").map parseFTEv) with
        | some items, some first, some hwm, some evs =>
          if evs.any (·.isNone) then "bad-op" else
          let all := allRecords items
          let final := match (field ws "truncn").bind (·.toNat?) with
            | some tn => allRecords (items.drop tn)
            | none => all
          let r := fCheck all final ((evs.filterMap id).foldl (fReplay first hwm all final) {})
          match r.bad with
          | none => answer "ok" true
          | some why => answer s!"rejected: {why}" (!r.prop)
        | _, _, _, _ => "bad-op"
      else if op == "rtrace" then
        match (field ws "L").bind parseLayout, (field ws "T").map (fun t => (t.splitOn ";").map parseTEv) with
        | some items, some evs =>
          if evs.any (·.isNone) then "bad-op" else
          let evs := evs.filterMap id
          let all := allRecords items
          let final := match (field ws "truncn").bind (·.toNat?) with
            | some tn => allRecords (items.drop tn)
            | none => all
          let budgets := ((field ws "budgets").bind (fun s => (s.splitOn ",").mapM (·.toNat?))).getD []
          let w : WCtx := { layouts := match (field ws "truncn").bind (·.toNat?) with
                                       | some tn => [items, items.drop tn]
                                       | none => [items],
                            budgets := budgets, hwm := (fieldInt ws "hwm").getD 0 }
          match evs with
          | .top _ o :: _ =>
            let r := evs.foldl (replayStep {} w all final) { s := { offset := o } }
            let r := if r.bad.isNone && r.nerr != r.s.errors.length then fail r s!"errors sent: recorded {r.nerr}, model {r.s.errors.length}" else r
            match r.bad with
            | none => answer "ok" true
            | some why => answer s!"rejected: {why}" (!r.prop)
          | _ => answer "rejected: trace does not start at the head of the loop" false
        | _, _ => "bad-op"
      else if op == "tok" then
        match (field ws "hex").bind ofHex, (field ws "L").bind parseLayout with
        | some bytes, some items =>
          let expected := truncate (allTokens items) bytes.length
          let actual := tokenize tokCfg (bytes.length + 1) .hdr bytes
          let plainV2 := items.all fun it => match it with | .b2 _ _ false _ _ => true | .m .. => true | _ => false
          let go := brWalk (bytes.length + 1) none bytes
          -- the walk `walk_bytes` is about (Model/ByteWalk.lean): uncompressed v2 batches and v0/v1 messages
          let wk := BR.walk (fun fts v => digestOf v.key v.value (fts + v.tsDelta) (v.headers.map fun x => ⟨x.1, x.2⟩))
            (fun h ts k v => digestOf k v (if h.magic = 1 then ts else -1) [])
            (bytes.length + 1) .hdr bytes
          if plainV2 && wk != expected then
            answer s!"walk-bytes-diff:{repr (wk.zip expected |>.find? (fun p => p.1 != p.2))}" false
          else if plainV2 && go != expected then
            answer s!"go-bytes-diff:{repr (go.zip expected |>.find? (fun p => p.1 != p.2))}" false
          else if actual == expected then answer "same" true
          else answer s!"diff:{repr (actual.zip expected |>.find? (fun p => p.1 != p.2))}" false
        | _, _ => "bad-op"
      else if op == "reader" || op == "legacy-reader" then
        let v := variantOf op
        let iw := words impl
        match fieldInt ws "v", field ws "start", fieldInt ws "hwm", (field ws "L").bind parseLayout,
              (field ws "budgets").bind (fun s => (s.splitOn ",").mapM (·.toNat?)),
              (field ws "faults").bind (fun s => (splitList s ";").mapM parseFault),
              (field ws "firsts").bind (fun s => (splitList s ",").mapM (·.toInt?)),
              (field ws "sets").bind (fun s => (splitList s ";").mapM (parsePair "@")),
              (field iw "d").bind parseStream, field iw "j", field iw "out", field iw "close" with
        | some ver, some start, some hwm, some items, some budgets, some faults, some firsts, some sets,
          some segs, some ij, some iout, some iclose =>
          let trunc := match field ws "trunc" with
            | some t => (parsePair ":" t).map fun (a, b) => (a, b.toNat)
            | none => none
          let withFirst := items.zip firsts
          let logFirst := (firsts.head?).getD hwm
          let startOff : Int := if start == "first" then -2 else if start == "last" then -1 else (start.toInt?).getD 0
          let all := allRecords items
          let final := match trunc with
            | some (_, tn) => allRecords (items.drop tn)
            | none => all
          let startPos : Int := if start == "first" then logFirst else if start == "last" then hwm
            else if startOff < logFirst then logFirst else startOff
          let positions := startPos :: sets.map (·.2)
          let lens := (sets.zip (0 :: sets.map (·.1))).map fun (a, b) => a.1 - b
          let holds := readerHolds all final positions lens segs iout && iclose == "ok" &&
            !streamHasError ((field iw "d").getD "")
          if sets.isEmpty then
            let br : RBroker := { ver := ver.toNat, items := withFirst, hwm := hwm, budgets := budgets, faults := faults,
                                  trunc := trunc, orig := withFirst }
            let fuel := 40 * (all.length + 5) + 200
            let (s, out) := simulate v fuel { rl := { offset := startOff }, br := br }
            answer s!"d={showStream [s.rl.out]} j={showJournal s.journal} out={out} close=ok" holds
          else
            -- SetOffset scripts: the delivered stream follows from the front model (`setoffset_delivers`: the messages
            -- accepted after SetOffset(o) are the stored records at or above o, in order); the journal from the loop
            -- model: a superseded fetcher has fetched exactly as far as the message it blocks on in sendMessage
            -- (taken by the application + queue capacity + one in hand) or idles at the high watermark
            let segsM := (List.range positions.length).map fun i =>
              let stored := all.filter (fun r => positions.getD i 0 ≤ r.1)
              if i + 1 == positions.length then stored else stored.take (lens.getD i 0)
            let q := ((fieldInt ws "q").getD 1).toNat
            let br : RBroker := { ver := ver.toNat, items := withFirst, hwm := hwm, budgets := budgets, faults := faults,
                                  trunc := trunc, orig := withFirst }
            let fuel := 40 * (all.length + 5) + 200
            let startRL : Int := startOff
            let sim0 : Sim := { rl := { offset := startRL }, br := br }
            -- `Reader.SetOffset(o)` is a no-op when `o` equals r.offset (= last message handed out + 1): no new fetcher
            let runs : List (Int × Nat) × (Int × Nat) :=
              (List.range sets.length).foldl (fun (acc : List (Int × Nat) × (Int × Nat)) i =>
                let (done, (st, consumed)) := acc
                let consumed := consumed + lens.getD i 0
                let roff : Int := match (segsM.getD i []).getLast? with
                  | some r => r.1 + 1
                  | none => positions.getD i 0
                let o := (sets.getD i (0, 0)).2
                if o = roff then (done, (st, consumed)) else (done ++ [(st, consumed)], (o, 0))) ([], (startRL, 0))
            let simN := runs.1.foldl (fun (sim : Sim) (run : Int × Nat) =>
              let sim' := simulateN v fuel (run.2 + q + 1) { sim with rl := { offset := run.1 }, fetched := false }
              sim') sim0
            let simN := { simN with rl := { offset := runs.2.1 }, fetched := false }
            let (sF, _) := simulate v fuel simN
            let j := sF.journal
            let jr := j.reverse.dropWhile (fun e => e.2 == hwm)
            let j' := if jr.isEmpty then j.take 1 else jr.reverse
            answer s!"d={showStream segsM} j={showJournal j'} out=done close=ok" holds
        | _, _, _, _, _, _, _, _, _, _, _, _ => "bad-op"
      else "bad-op"
    | _, _ => "bad-op"
  | _ => "bad-op"

end KV.OracleC02

def main : IO Unit := KV.runOracle () (fun _ l => ((), KV.OracleC02.step l))
