/-
Oracle/C18.lean — line-protocol oracle for property C18 (core only; compiled to `oracle_c18`).

  auth <path> <sasl> <env items> <expect ok|err|any> => <journal>;<result>;<closed>
      model  = Model/Auth.lean replaying the recorded environment events (trace acceptance: `reject@i`
               names the first event the model cannot take), printed in the implementation's format
      holds  = Spec.Sasl.orderHolds on the IMPLEMENTATION's journal  ∧  (a failure event in the script ⇒
               the dial returned an error and the connection was closed)  ∧  (dial ok ⇒ no failure event)
  plain <user hex> <pass hex> => <token hex>
      model  = Model.plainStartGen (format string re-extracted from plain.go), holds = token is Spec's RFC 4616 message (and parses back when NUL-free)
  creds <mech> <path> <hsmax> <refsrv> <user> <pass> <right 0|1> => ok|err
      model  = holds = "completes exactly when the credentials are right" (the judge is the reference
               server inside the harness; Lean only states the expected verdict)
  usable … => use-failed…    a connection that authenticated but could not be used: never holds
-/
import KafkaVerif.Base.Proto
import KafkaVerif.Model.Auth
import KafkaVerif.Model.AuthPlainGen
import KafkaVerif.Spec.SaslPlain

namespace KV.OracleC18
open KV KV.Auth KV.Spec.Sasl

/-- `none` or `min_max` -/
def parseRange (s : String) : Option (Option (Int × Int)) :=
  if s == "none" then some none else
  match s.splitOn "_" with
  | [a, b] => do let a ← a.toInt?; let b ← b.toInt?; pure (some (a, b))
  | _ => none

def parseEnv (s : String) : Option Env :=
  match s.splitOn ":" with
  | ["V", err, hs, au] => do
    let e ← err.toInt?; let h ← parseRange hs; let a ← parseRange au
    pure (.versions e h a)
  | ["R", err, d, f] => do
    let e ← err.toInt?; let b ← ofHex d
    pure (.reply e b (f == "1"))
  | ["EOF"] => some .eof
  | ["IDLE"] => some .eof
  | ["IOERR"] => some .ioerr
  | ["MS", "fail"] => some (.mechStart none)
  | ["MS", t] => do let b ← ofHex t; pure (.mechStart (some b))
  | ["MN", "fail"] => some (.mechNext none)
  | ["MN", c, t] => do let b ← ofHex t; pure (.mechNext (some (c == "1", b)))
  | ["U", k] => do let n ← k.toNat?; pure (.use n)
  | _ => none

def hexOrDash (b : Bytes) : String := if b.isEmpty then "-" else toHex b

def showItem : Item → String
  | .wrote .apiVersions => "av"
  | .wrote (.saslHandshake v) => s!"hs:{v}"
  | .wrote (.saslAuthenticate v t) => s!"auth:{v}:{hexOrDash t}"
  | .wrote (.rawToken t) => s!"raw:{hexOrDash t}"
  | .wrote (.other k) => s!"other:{k}"
  | .verdict => "A"

def showResult (s : State) : String :=
  match s.phase, s.result with
  | .ready, _ => "ok"
  | .failed, some (.kafka c) => s!"err:kafka:{c}"
  | .failed, _ => "err:other"
  | _, _ => "pending"

def showState (s : State) : String :=
  let j := if s.log.isEmpty then "-" else ",".intercalate (s.log.map showItem)
  s!"{j};{showResult s};{if s.closed then 1 else 0}"

def showSock : SockItem → String
  | .hello => "S"
  | .inner i => showItem i

/-- what the broker's socket sees, the result, whether the client closed -/
def showSocket (tls : Bool) (s : State) : String :=
  let v := socketView tls s
  let j := if v.isEmpty then "-" else ",".intercalate (v.map showSock)
  s!"{j};{showResult s};{if s.closed then 1 else 0}"

def parseSeen (s : String) : Option Seen :=
  match s.splitOn ":" with
  | ["av"] => some .apiVersions
  | ["hs", _] => some .saslHandshake
  | ["auth", _, _] => some .saslAuthenticate
  | ["raw", _] => some .rawToken
  | ["other", k] => k.toNat?.map .other
  | ["A"] => some .verdict
  | _ => none

/-- failure events, as Spec sees them (independent of Props) -/
def isFailure : Env → Bool
  | .versions err _ _ => err != 0
  | .reply err _ _ => err != 0
  | .eof => true
  | .ioerr => true
  | .mechStart none => true
  | .mechNext none => true
  | _ => false

def commaList (s : String) : List String := if s == "-" then [] else s.splitOn ","

def answer (model : String) (holds : Bool) : String :=
  s!"model={model} holds={if holds then 1 else 0}"

def step (line : String) : String :=
  match line.splitOn " => " with
  | [req, impl] =>
    match words req with
    | ["auth", path, sasl, envs, expect] =>
      let addrOk := !(path.endsWith "!addr")
      let path := if addrOk then path else (path.dropEnd 5).toString
      let hsOk := !(path.endsWith "+nohs")
      let path := if hsOk then path else (path.dropEnd 5).toString
      let tls := path.endsWith "+tls"
      let path := if tls then (path.dropEnd 4).toString else path
      let limit := !(path.endsWith "~nolimit")
      let path := if limit then path else (path.dropEnd 8).toString
      let p? : Option Path := if path == "dialer" then some .dialer else if path == "transport" then some .transport else none
      match p?, (commaList envs).mapM parseEnv with
      | some p, some es =>
        let c : Cfg := { path := p, sasl := sasl == "1", addrOk := addrOk, limit := limit }
        let model := match runTls c tls hsOk es with
          | some s => showSocket tls s
          | none => match firstRejected c (startTls c tls hsOk) es 0 with
            | some i => s!"reject@{i}"
            | none => "reject"
        let holds := match impl.splitOn ";" with
          | [journal, result, closed] =>
            -- `idle`: the fake broker closed a connection that stayed silent for 1.5 s; then nothing is expected of the
            -- outcome beyond the other clauses (a slow machine must not look like wrong credentials)
            let idle := (commaList envs).contains "IDLE"
            let expect := if idle then "any" else expect
            -- behind TLS the first thing on the broker's socket must be the ClientHello (`S`); anything in clear (`C:…`)
            -- does not parse as a journal item and fails the line
            let (tlsOk, inner) := if tls then (match commaList journal with | "S" :: rest => (true, rest) | _ => (false, []))
                                  else (true, commaList journal)
            match inner.mapM parseSeen with
            | some seen =>
              tlsOk &&
              let failed := es.any isFailure || (tls && !hsOk)
              -- with SASL configured the order monitor applies; without it nothing is demanded of the order
              (c.sasl == false || orderHolds seen) &&
              (!failed || (result.startsWith "err" && closed == "1")) &&
              -- "dialling fails with an error and the connection is closed", whatever made it fail
              (!result.startsWith "err" || closed == "1") &&
              (result != "ok" || (!failed && closed == "0")) &&
              (result == "ok" || result.startsWith "err") &&
              -- right credentials and no failure placed anywhere ⇒ the exchange completes
              (expect != "ok" || result == "ok") &&
              -- a broker that forged the SCRAM server signature ⇒ the dial fails (mutual authentication)
              (expect != "err" || result.startsWith "err")
            | none => false
          | _ => false
        answer model holds
      | _, _ => "bad-op"
    | ["nw", _, _, journal] =>
      -- a connection opened by the Transport that kafka.NewWriter built from a Dialer WITH a SASL mechanism: it is the
      -- Transport path of Model/Auth with `sasl = true` — the write that follows ApiVersions is the SaslHandshake; the
      -- reference monitor is the same ordering monitor as everywhere
      let c : Cfg := { path := .transport, sasl := true }
      let model := match run c [.versions 0 (some (0, 1)) (some (0, 1))] with
        | some s => if s.log.any (fun i => match i with | .wrote (.saslHandshake _) => true | _ => false) then "authenticated" else "unauthenticated"
        | none => "reject"
      let holds := match (commaList journal).mapM parseSeen with
        | some seen => orderHolds seen && impl != "unauthenticated"
        | none => false
      answer model holds
    | ["plain", u, p] =>
      match ofHex u, ofHex p with
      | some u, some p =>
        let spec := plainMessage [] u p
        let nulFree := !(u.contains 0) && !(p.contains 0)
        answer (match plainStartGen u p with | some b => hexOrDash b | none => "untranslated")
          (impl == hexOrDash spec && (!nulFree || parsePlain spec == some ([], u, p)))
      | _, _ => "bad-op"
    | ["creds", _, _, _, _, _, _, right] =>
      let want := if right == "1" then "ok" else "err"
      answer want (impl == want)
    | "usable" :: _ => answer "usable" false
    | _ => "bad-op"
  | _ => "bad-op"

end KV.OracleC18

def main : IO Unit := KV.runOracle () (fun _ l => ((), KV.OracleC18.step l))
