/-
Oracle/C11.lean — line-protocol oracle for property C11 (core only; compiled to `oracle_c11`).
Request:  `c11 <topic hex> <A>:<ver>:<off>:<hwm> <bodyA hex> <B>:<ver>:<off>:<hwm> <bodyB hex> => <resA> <unread> <resB> <same|diff>`
Answer:   `model=<resA> <unread> <resB> <same|diff> holds=<0|1>`
`model`: Model/ConnOps.lean run on the stream frame(1,bodyA) ++ frame(2,bodyB); `unread` = bytes of frame A left on
the stream after A; `same` = B's outcome equals B's outcome on a fresh connection.
`holds` (the property monitor, evaluated on the IMPLEMENTATION's output, no model involved): A's frame is an encoding
of the Kafka layout (Spec/ConnFrames.lean) and A's result is acceptable for it (`specJudge`: no non-kafka failure on a
well-formed frame, a reported code is one of the frame's codes); if A ended with ok or a kafka error then nothing of
A's frame is left unread and B behaved as on a fresh connection; if A ended with another error then B failed.
-/
import Oracle.ConnCommon

namespace KV.OracleC11
open KV KV.Reader KV.ConnOps KV.OracleConn

def monitor (a : OpInst) (impl : String) : Option Bool :=
  match words impl with
  | [ra, unread, rb, same] =>
    match specJudge a ra with
    | none =>
      -- framing error (body is not an encoding of the layout): detected → A and B fail; or skipped harmlessly
      -- while reporting a broker error → nothing unread, B as fresh.  Never "ok".
      -- B failing with io.ErrNoProgress was attempted on a stream left in mid-response: after a failed A the Conn is
      -- closed and B fails before reading anything
      some ((isFailStr ra && isFailStr rb && rb != "fail:noprogress") || (ra.startsWith "kafka:" && unread == "0" && same == "same"))
    | some okA =>
      some (okA && isDone ra && isDone rb &&
        (if isFailStr ra then isFailStr rb && rb != "fail:noprogress" else unread == "0" && same == "same"))
  | _ => some false

def model (topic : Bytes) (a b : OpInst) : Option String :=
  let fa := frame 1 a.body
  let fb := frame 2 b.body
  match runInstL false topic a (⟨fa ++ fb, 1, false⟩, false) with
  | none => none
  | some (ra, c1) =>
    match runInstL false topic b c1, runInst topic b ⟨fb, 2, false⟩ with
    | some (rb, _), some (rf, _) =>
      let unread := if ra.isFail then "-" else if c1.2 then "locked" else toString ((c1.1.stream.length : Int) - fb.length)
      some s!"{showOutcome ra} {unread} {showOutcome rb} {if showOutcome rb == "hang" then "diff" else if showOutcome rb == showOutcome rf then "same" else "diff"}"
    | _, _ => none

/-- three operations, the first answered under a foreign correlation id -/
def modelChain (topic : Bytes) (delta : Nat) (a b c : OpInst) : Option String :=
  let stream := frame (1 + delta) a.body ++ frame 2 b.body ++ frame 3 c.body
  match runInstL false topic a (⟨stream, 1, false⟩, false) with
  | none => none
  | some (ra, c1) =>
    match runInstL false topic b c1 with
    | none => none
    | some (rb, c2) =>
      match runInstL false topic c c2 with
      | none => none
      | some (rc, _) =>
        -- the driver stops a chain at the first hang
        let sb := if showOutcome ra == "hang" then "hang" else showOutcome rb
        let sc := if sb == "hang" then "hang" else showOutcome rc
        some s!"{showOutcome ra} {sb} {sc}"

/-- the first operation on a fresh Conn negotiates its version; ApiVersions is answered with `av1` (an error code, some
list), then with `av2`; the operation is called twice (Model/ConnVersions.lean, `strict` regenerated) -/
def modelVersions (topic av1 av2 : Bytes) (a : OpInst) : Option String :=
  let stream := frame 1 av1 ++ frame 2 av2 ++ frame 3 a.body
  let strict := Gen.ConnLegacy.loadVersionsStrict
  match specOf "apiVersions" with
  | none => none
  | some av =>
    if a.name == "fetch" then
      let r1 := ConnVersions.vFetch strict av fetchFixed a.offset headerBody topic (ConnVersions.VConn.fresh stream 1)
      let r2 := ConnVersions.vFetch strict av fetchFixed a.offset headerBody topic r1.2
      some s!"{showOutcome r1.1} {showOutcome r2.1}"
    else match specOf a.name, ConnVersions.negotiating a.name with
      | some o, some (key, cands) =>
        let r1 := ConnVersions.vDo strict av key cands o topic (ConnVersions.VConn.fresh stream 1)
        let r2 := ConnVersions.vDo strict av key cands o topic r1.2
        some s!"{showOutcome r1.1} {showOutcome r2.1}"
      | _, _ => none

/-- the caller of the first operation gets the broker's error (the code in `av1`), the second call is served as on a
fresh connection: its own response, judged by the Spec layout -/
def monitorVersions (av1 : Bytes) (a : OpInst) (impl : String) : Bool :=
  match words impl with
  | [r1, r2] => r1 == s!"kafka:{beInt (av1.take 2)}" && (specJudge a r2 == some true) && isDone r2
  | _ => false

/-- a slow link: k bytes of A's frame, then nothing until A's deadline has passed.  The model has no time: a stream
that stalls past the deadline is a stream that ends after k bytes. -/
def modelSlow (topic : Bytes) (k : Nat) (a b : OpInst) : Option String :=
  match runInstL false topic a (⟨(frame 1 a.body).take k, 1, false⟩, false) with
  | none => none
  | some (ra, c1) =>
    match runInstL false topic b c1 with
    | some (rb, _) => some s!"{showOutcome ra} {showOutcome rb}"
    | none => none

/-- A gave up (an error) and the Conn is not used again — or A returned a result and B, whose own response reports no
error, is served exactly that response -/
def monitorSlow (impl : String) : Bool :=
  match words impl with
  | [ra, rb] =>
    -- B failing with io.ErrNoProgress means it was attempted on a stream left in mid-response: a closed Conn fails
    -- before reading anything
    (isFailStr ra && isFailStr rb && rb != "fail:noprogress") || (isDone ra && !isFailStr ra && rb == "ok")
  | _ => false

/-- n operations in a row on one Conn -/
def modelSeq (topic : Bytes) (xs : List OpInst) : Option String :=
  let stream := (xs.zipIdx.map fun (x, i) => frame (i + 1) x.body).foldl (· ++ ·) []
  let rec go (xs : List OpInst) (cl : Conn × Bool) (hung : Bool) (acc : List String) : Option (List String) :=
    match xs with
    | [] => some acc.reverse
    | x :: r =>
      if hung then go r cl true ("hang" :: acc)
      else match runInstL false topic x cl with
        | none => none
        | some (o, cl') => go r cl' (showOutcome o == "hang") (showOutcome o :: acc)
  (go xs (⟨stream, 1, false⟩, false) false []).map (" ".intercalate ·)

/-- results in order: as long as nothing failed each result is acceptable for its own frame (`specJudge`) — a frame
that is not an encoding must fail or report a broker error; once an operation failed every later one fails; nobody
hangs -/
def monitorSeq (xs : List OpInst) (impl : String) : Bool :=
  let rs := words impl
  let rec go (xs : List OpInst) (rs : List String) (dead : Bool) : Bool :=
    match xs, rs with
    | [], [] => true
    | x :: xr, r :: rr =>
      if dead then isFailStr r && r != "fail:noprogress" && go xr rr true
      else
        let okHere := match specJudge x r with
          | some ok => ok && isDone r
          | none => isFailStr r || r.startsWith "kafka:"
        okHere && go xr rr (isFailStr r)
    | _, _ => false
  go xs rs false

/-- two requests in flight (both written before any response), the two frames arrive back to back -/
def modelPipe (topic : Bytes) (idA : Nat) (a b : OpInst) : Option String :=
  match runInstL true topic a (⟨frame idA a.body ++ frame (idA + 1) b.body, idA, false⟩, false) with
  | none => none
  | some (ra, c1) =>
    match runInstL true topic b c1 with
    | some (rb, _) => some s!"{showOutcome ra} {showOutcome rb}"
    | none => none

/-- A's frame is not an encoding of the layout: A and B fail (B was already in flight — it must not be served the rest
of A's frame), or A reports a broker error, has skipped the rest, and B returns; a well-formed A: judged as usual and B
returns.  Nobody hangs. -/
def monitorPipe (a : OpInst) (impl : String) : Bool :=
  match words impl with
  | [ra, rb] =>
    match specJudge a ra with
    | none => (isFailStr ra && isFailStr rb) || (ra.startsWith "kafka:" && rb == "ok")   -- B's own response reports no error
    | some okA => okA && isDone ra && isDone rb && (!isFailStr ra || isFailStr rb)
  | _ => false

/-- A answered under the size prefix `size` (any int32) instead of the body's length + 4, then B -/
def modelSize (topic : Bytes) (size : Int) (a b : OpInst) : Option String :=
  let stream := be4 ((size % 4294967296).toNat) ++ be4 1 ++ a.body ++ frame 2 b.body
  match runInstL false topic a (⟨stream, 1, false⟩, false) with
  | none => none
  | some (ra, c1) =>
    match runInstL false topic b c1 with
    | none => none
    | some (rb, _) => some s!"{showOutcome ra} {if showOutcome ra == "hang" then "hang" else showOutcome rb}"

/-- a size prefix below 4 is a framing error: A and B fail (and return); otherwise only "both return" is demanded
(what a lying prefix does to the stream is judged by model agreement) -/
def monitorSize (size : Int) (impl : String) : Bool :=
  match words impl with
  | [ra, rb] => if size < 4 then isFailStr ra && isFailStr rb else isDone ra && isDone rb
  | _ => false

/-- after a framing error every later operation fails (and returns: `hang` is not a failure, it is a hang) -/
def monitorChain (impl : String) : Bool :=
  match words impl with
  | [ra, rb, rc] => isFailStr ra && isFailStr rb && isFailStr rc
  | _ => false

def step (line : String) : String :=
  match line.splitOn " => " with
  | [req, impl] =>
    match words req with
    | ["c11x", t, d, sa, ha, sb, hb, sc, hc] =>
      match ofHex t, d.toNat?, parseInst sa ha, parseInst sb hb, parseInst sc hc with
      | some topic, some delta, some a, some b, some c =>
        match modelChain topic delta a b c with
        | some m => s!"model={m} holds={if monitorChain impl then 1 else 0}"
        | none => "bad-op"
      | _, _, _, _, _ => "bad-args"
    | ["c11v", t, h1, h2, sa, ha] =>
      match ofHex t, ofHex h1, ofHex h2, parseInst sa ha with
      | some topic, some av1, some av2, some a =>
        match modelVersions topic av1 av2 a with
        | some m => s!"model={m} holds={if monitorVersions av1 a impl then 1 else 0}"
        | none => "bad-op"
      | _, _, _, _ => "bad-args"
    | ["c11w", t, ks, sa, ha, sb, hb] =>
      match ofHex t, ks.toNat?, parseInst sa ha, parseInst sb hb with
      | some topic, some k, some a, some b =>
        match modelSlow topic k a b with
        | some m => s!"model={m} holds={if monitorSlow impl then 1 else 0}"
        | none => "bad-op"
      | _, _, _, _ => "bad-args"
    | "c11n" :: t :: ns :: rest =>
      let rec insts (l : List String) : Option (List OpInst) :=
        match l with
        | [] => some []
        | sa :: ha :: r => match parseInst sa ha, insts r with
          | some a, some as => some (a :: as)
          | _, _ => none
        | _ => none
      match ofHex t, ns.toNat?, insts rest with
      | some topic, some n, some xs =>
        if xs.length != n then "bad-args" else
        match modelSeq topic xs with
        | some m => s!"model={m} holds={if monitorSeq xs impl then 1 else 0}"
        | none => "bad-op"
      | _, _, _ => "bad-args"
    | ["c11p", t, ia, sa, ha, sb, hb] =>
      match ofHex t, ia.toNat?, parseInst sa ha, parseInst sb hb with
      | some topic, some idA, some a, some b =>
        match modelPipe topic idA a b with
        | some m => s!"model={m} holds={if monitorPipe a impl then 1 else 0}"
        | none => "bad-op"
      | _, _, _, _ => "bad-args"
    | ["c11z", t, z, sa, ha, sb, hb] =>
      match ofHex t, z.toInt?, parseInst sa ha, parseInst sb hb with
      | some topic, some size, some a, some b =>
        match modelSize topic size a b with
        | some m => s!"model={m} holds={if monitorSize size impl then 1 else 0}"
        | none => "bad-op"
      | _, _, _, _ => "bad-args"
    | ["c11k", t, _k, sa, ha, sb, hb] =>
      -- A's response delivered in two pieces (split after _k bytes): the stream is the same, so are model and monitor
      match ofHex t, parseInst sa ha, parseInst sb hb with
      | some topic, some a, some b =>
        match model topic a b, monitor a impl with
        | some m, some h => s!"model={m} holds={if h then 1 else 0}"
        | _, _ => "bad-op"
      | _, _, _ => "bad-args"
    | ["c11", t, sa, ha, sb, hb] =>
      match ofHex t, parseInst sa ha, parseInst sb hb with
      | some topic, some a, some b =>
        match model topic a b, monitor a impl with
        | some m, some h => s!"model={m} holds={if h then 1 else 0}"
        | _, _ => "bad-op"
      | _, _, _ => "bad-args"
    | _ => "bad-request"
  | _ => "bad-line"

end KV.OracleC11

def main : IO Unit := KV.runOracle () (fun _ l => ((), KV.OracleC11.step l))
