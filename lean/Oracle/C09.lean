/-
Oracle/C09.lean — line-protocol oracle for property C09 (core only; compiled to `oracle_c09`).

Request `wclose <cfg> <tok> <tok> … => <impl summary>`:
  cfg  = `ma=<MaxAttempts>,bs=<BatchSize>,as=<0|1>,fx=<0|1>`
  toks = externally observed events of one Writer scenario, in recording order
         cb/<c>/<mayFail>/<m.k,m.k|->   WriteMessages call c invoked (message ids with their partition keys)
         cx/<c>                         the context of call c is cancelled
         xb | xr                        Close invoked | Close returned
         me/<c> | mr/<c>                a metadata lookup of call c reached the fake transport | is being answered
         pr/<ids>/<ok|temp|perm>        a produce attempt carrying exactly these messages got this answer
         co/<ids>/<ok|err>              Completion callback ran for these messages
         cr/<c>/<nil|closed|werr|ctx|other>   call c returned
         lk/<n>                         census after the scenario: goroutines started by kafka-go still alive
  impl = `close=<none|ret|stuck> pending=<call ids|-> leak=<n|->`
Answer `model=<…> holds=<0|1>`:
  model: the trace is run through Model/WriterClose.lean by *state-set simulation* (the library's internal events
  — enter, batchMessages, timer, Get, leave, closeMark — are not observed, so after every observed event the set of
  possible model states is closed under them).  `reject@k:<tok>` if no model state can take observed event k;
  otherwise the model's prediction of the final summary: Close must have returned unless some reachable quiescent
  model state still has Close waiting (`stuck`, only possible with fx=0), calls are pending only if some quiescent
  state leaves them blocked, and no goroutine is alive once Close returned.
  holds: the C09 monitor evaluated on the observed trace alone (see `WMon`).
-/
import Std.Data.HashSet
import KafkaVerif.Base.Proto
import KafkaVerif.Model.WriterClose

namespace KV.OracleC09
open KV KV.WriterClose

/-! ## parsing -/

inductive Tok
  | cb (c : Nat) (mayFail : Bool) (msgs : List (Nat × Nat))
  | cx (c : Nat)
  | xb | xr
  | me (c : Nat)
  | mr (c : Nat)
  | pr (ids : List Nat) (o : Outcome)
  | co (ids : List Nat) (ok : Bool)
  | cr (c : Nat) (r : Res)
  | lk (n : Nat)
deriving Repr, DecidableEq

def parseNats (s : String) : Option (List Nat) :=
  if s == "-" then some [] else (s.splitOn ",").mapM (·.toNat?)

def parsePair (s : String) : Option (Nat × Nat) :=
  match s.splitOn "." with
  | [a, b] => do some ((← a.toNat?), (← b.toNat?))
  | _ => none

def parsePairs (s : String) : Option (List (Nat × Nat)) :=
  if s == "-" then some [] else (s.splitOn ",").mapM parsePair

def parseRes : String → Option Res
  | "nil" => some .nil | "closed" => some .closedPipe | "werr" => some .writeErrors
  | "ctx" => some .ctxErr | "other" => some .other | _ => none

def parseTok (t : String) : Option Tok :=
  match t.splitOn "/" with
  | ["cb", c, mf, ms] => do some (.cb (← c.toNat?) (mf == "1") (← parsePairs ms))
  | ["cx", c] => do some (.cx (← c.toNat?))
  | ["xb"] => some .xb
  | ["xr"] => some .xr
  | ["me", c] => do some (.me (← c.toNat?))
  | ["mr", c] => do some (.mr (← c.toNat?))
  | ["pr", ids, o] => do
    let o ← (match o with | "ok" => some Outcome.ok | "temp" => some .temp | "perm" => some .perm | _ => none)
    some (.pr (← parseNats ids) o)
  | ["co", ids, ok] => do some (.co (← parseNats ids) (ok == "ok"))
  | ["cr", c, r] => do some (.cr (← c.toNat?) (← parseRes r))
  | ["lk", n] => do some (.lk (← n.toNat?))
  | _ => none

def parseCfg (s : String) : Option Cfg := do
  let kv := (s.splitOn ",").filterMap fun p => match p.splitOn "=" with
    | [k, v] => v.toNat?.map fun n => (k, n)
    | _ => none
  let g := fun k => (kv.find? (·.1 == k)).map (·.2)
  some { maxAttempts := (← g "ma"), batchSize := (← g "bs"), async := (← g "as") == 1, fixed := (← g "fx") == 1 }

/-! ## state-set simulation over Model/WriterClose -/

abbrev SS := Std.HashSet State

/-- unobserved events enabled in a state -/
def taus (s : State) : List Event :=
  (if s.close = 1 then [Event.closeMark] else []) ++
  (candidates s).filter fun e => match e with
    | .attempt .. | .complete _ | .ret _ => false
    | _ => true

partial def closure (cfg : Cfg) (work : List State) (seen : SS) : SS :=
  match work with
  | [] => seen
  | s :: rest =>
    let (work', seen') := (taus s).foldl (fun (acc : List State × SS) e =>
      match step cfg s e with
      | some s' => if acc.2.contains s' then acc else (s' :: acc.1, acc.2.insert s')
      | none => acc) (rest, seen)
    if seen'.size > 400000 then seen' else closure cfg work' seen'

def closeSet (cfg : Cfg) (l : List State) : SS :=
  let init : SS := l.foldl (fun h s => h.insert s) {}
  closure cfg init.toList init

/-- model events that an observed token may stand for, in state s -/
def obsEvents (s : State) : Tok → List Event
  | .cb c mf ms => [.callBegin c ms mf]
  | .cx c => [.ctxCancel c]
  | .xb => [.closeBegin]
  | .xr => [.closeReturn]
  | .me c => [.metaReq c]
  | .mr c => [.metaRel c]
  | .pr ids o => s.writers.filterMap fun p => match p.sender with
      | .sending b _ => if b.msgs = ids then some (.attempt p.pid o) else none
      | _ => none
  | .co ids ok => s.writers.filterMap fun p => match p.sender with
      | .completing b why => if b.msgs = ids && (why = .acked) = ok then some (.complete p.pid) else none
      | _ => none
  | .cr c r => if s.calls.any (fun x => x.id = c && x.phase = .left r) then [.ret c] else []
  | .lk _ => []

def stepObs (cfg : Cfg) (ss : SS) (t : Tok) : SS :=
  match t with
  | .lk _ => ss
  | _ =>
    let next := ss.fold (fun acc s => (obsEvents s t).foldl (fun acc e =>
      match step cfg s e with | some s' => s' :: acc | none => acc) acc) []
    closeSet cfg next

/-- a state in which the library can do nothing more and owes no observable event -/
def terminal (cfg : Cfg) (s : State) : Bool :=
  (taus s).all (fun e => (step cfg s e).isNone) &&
  (step cfg s .closeReturn).isNone &&
  s.writers.all (fun p => match p.sender with | .sending .. | .completing .. => false | _ => true) &&
  s.calls.all (fun c => match c.phase with | .left _ => false | _ => true)

def showIds (l : List Nat) : String := if l.isEmpty then "-" else ",".intercalate (l.map toString)

def dedupSort (l : List Nat) : List Nat := (l.toArray.qsort (· < ·)).toList.eraseDups

def simulate (cfg : Cfg) (toks : List (String × Tok)) : String := Id.run do
  let mut ss : SS := closeSet cfg [State.init]
  let mut k := 0
  for (raw, t) in toks do
    let ss' := stepObs cfg ss t
    if ss'.isEmpty then return s!"reject@{k}:{raw}"
    if ss'.size > 400000 then return s!"overflow@{k}"
    ss := ss'
    k := k + 1
  let sawXb := toks.any (·.2 == .xb)
  let sawXr := toks.any (·.2 == .xr)
  let terms := ss.toList.filter (terminal cfg)
  let close := if sawXr then "ret" else if !sawXb then "none"
    else if terms.any (·.close = 2) then "stuck" else "ret"
  let pend := dedupSort (terms.flatMap fun s => (s.calls.filter fun c => match c.phase with | .returned _ => false | _ => true).map (·.id))
  let leak := if close == "ret" then "0" else "-"
  return s!"close={close} pending={showIds pend} leak={leak}"

/-! ## the monitor (on the observation alone) -/

namespace WMon

def idx (toks : List Tok) (p : Tok → Bool) : Option Nat := toks.findIdx? p

/-- positions of tokens satisfying p -/
def positions (toks : List Tok) (p : Tok → Bool) : List Nat :=
  (toks.zipIdx.filter fun x => p x.1).map (·.2)

def before (a : Option Nat) (b : Option Nat) : Bool :=
  match a, b with
  | some i, some j => i < j
  | some _, none => true
  | none, _ => false

/-- the C09 monitor for one Writer scenario -/
def holds (cfg : Cfg) (toks : List Tok) : Bool :=
  let z := toks.zipIdx
  let xb := idx toks (· == .xb)
  let xr := idx toks (· == .xr)
  -- H1 Close returns
  let h1 := xb.isNone || xr.isSome
  -- accepted messages: carried by a produce attempt / Completion, or of a call that returned nil / WriteErrors
  let callMsgs := fun c => (toks.filterMap fun t => match t with | .cb c' _ ms => if c' = c then some (ms.map (·.1)) else none | _ => none).flatten
  let accepted := (toks.flatMap fun t => match t with
    | .pr ids _ => ids | .co ids _ => ids
    | .cr c r => if r = .nil || r = .writeErrors then (if cfg.async then [] else callMsgs c) else []
    | _ => []).eraseDups
  -- H2 every accepted message got its Completion before Close returned, with a justified outcome
  let h2 := accepted.all fun m =>
    match z.find? (fun x => match x.1 with | .co ids _ => ids.contains m | _ => false) with
    | some (.co _ ok, i) =>
      let inTime := before (some i) xr
      let prs := z.filter fun x => x.2 < i && (match x.1 with | .pr ids _ => ids.contains m | _ => false)
      let nOk := (prs.filter fun x => match x.1 with | .pr _ .ok => true | _ => false).length
      let nPerm := (prs.filter fun x => match x.1 with | .pr _ .perm => true | _ => false).length
      let nTemp := (prs.filter fun x => match x.1 with | .pr _ .temp => true | _ => false).length
      inTime && (if ok then nOk ≥ 1 else nOk = 0 && (nPerm ≥ 1 || nTemp ≥ cfg.maxAttempts)) &&
      prs.length ≤ cfg.maxAttempts
    | _ => xb.isNone   -- no Completion at all: only tolerable while the writer was never closed
  -- H3 silence after Close returned
  let h3 := z.all fun x => match x.1 with
    | .pr .. | .co .. | .me _ | .mr _ => before (some x.2) xr || xr.isNone
    | _ => true
  -- H4 use after close
  let h4 := z.all fun x => match x.1 with
    | .cb c _ _ => if before xr (some x.2) && xr.isSome then
        toks.any (fun t => t == .cr c .closedPipe) else true
    | .cr _ .closedPipe => before xb (some x.2) && xb.isSome
    | _ => true
  -- H5 every call returns; a nil result means all its messages were acked before; a cancelled call returns
  let h5 := z.all fun x => match x.1 with
    | .cb c _ _ => toks.any fun t => match t with | .cr c' _ => c' = c | _ => false
    | .cr c .nil => cfg.async || (callMsgs c).all fun m =>
        z.any fun y => y.2 < x.2 && (match y.1 with | .co ids true => ids.contains m | _ => false)
    | _ => true
  -- H6 census
  let h6 := toks.all fun t => match t with | .lk n => n = 0 | _ => true
  h1 && h2 && h3 && h4 && h5 && h6

end WMon

def answer (model : String) (holds : Bool) : String :=
  s!"model={model} holds={if holds then 1 else 0}"

def step (line : String) : String :=
  match line.splitOn " => " with
  | [req, _impl] =>
    match words req with
    | "wclose" :: cfgs :: toks =>
      match parseCfg cfgs, toks.mapM (fun t => (parseTok t).map fun x => (t, x)) with
      | some cfg, some ts => answer (simulate cfg ts) (WMon.holds cfg (ts.map (·.2)))
      | _, _ => "bad-op"
    | _ => "bad-op"
  | _ => "bad-line"

end KV.OracleC09

def main : IO Unit := KV.runOracle () (fun _ l => ((), KV.OracleC09.step l))
