/-
Oracle/C09.lean — line-protocol oracle for property C09 (core only; compiled to `oracle_c09`).

Request `wclose <cfg> <tok> <tok> … => <impl summary>`:
  cfg  = `ma=<MaxAttempts>,bs=<BatchSize>,as=<0|1>,fx=<0|1>`
  toks = externally observed events of one Writer scenario, in recording order
         cb/<c>/<mayFail>/<m.k,m.k|->   WriteMessages call c invoked (message ids with their partition keys)
         cx/<c>                         the context of call c is cancelled
         xb | xr                        Close invoked | Close returned
         me/<c> | mr/<c>                a metadata lookup of call c reached the fake transport | is being answered
         pr/<ids>/<ok|temp|perm>        a produce attempt carrying exactly these messages got this answer
         co/<ids>/<ok|err>              Completion callback ran for these messages
         cr/<c>/<nil|closed|werr|ctx|other>   call c returned
         lk/<n>                         census after the scenario: goroutines started by kafka-go still alive
  impl = `close=<none|ret|stuck> pending=<call ids|-> leak=<n|->`
Answer `model=<…> holds=<0|1>`:
  model: the trace is run through Model/WriterClose.lean by *state-set simulation* (the library's internal events
  — enter, batchMessages, timer, Get, leave, closeMark — are not observed, so after every observed event the set of
  possible model states is closed under them).  `reject@k:<tok>` if no model state can take observed event k;
  otherwise the model's prediction of the final summary: Close must have returned unless some reachable quiescent
  model state still has Close waiting (`stuck`, only possible with fx=0), calls are pending only if some quiescent
  state leaves them blocked, and no goroutine is alive once Close returned.
  holds: the C09 monitor evaluated on the observed trace alone (see `WMon`).
-/
import Std.Data.HashSet
import KafkaVerif.Base.Proto
import KafkaVerif.Model.WriterClose
import KafkaVerif.Model.ReaderClose
import KafkaVerif.Model.GroupRun
import KafkaVerif.Model.GroupConns
import KafkaVerif.Model.TransportConnC17
import KafkaVerif.Model.FetcherLife

namespace KV.OracleC09
open KV KV.WriterClose

/-! ## parsing -/

inductive Tok
  | cb (c : Nat) (mayFail : Bool) (msgs : List (Nat × Nat))
  | cx (c : Nat)
  | xb | xr
  | me (c : Nat)
  | mr (c : Nat)
  | pr (ids : List Nat) (o : Outcome)
  | co (ids : List Nat) (ok : Bool)
  | cr (c : Nat) (r : Res)
  | lk (n : Nat)
  | to (c : Nat)   -- a cancelled call was still blocked when the watchdog expired
  | conn (opened : Bool) (n : Nat)   -- broker-side census: connection n accepted / closed by the client
  | oc (n : Nat)   -- connections still open after the scenario's timeouts
deriving Repr, DecidableEq

def parseNats (s : String) : Option (List Nat) :=
  if s == "-" then some [] else (s.splitOn ",").mapM (·.toNat?)

def parsePair (s : String) : Option (Nat × Nat) :=
  match s.splitOn "." with
  | [a, b] => do some ((← a.toNat?), (← b.toNat?))
  | _ => none

def parsePairs (s : String) : Option (List (Nat × Nat)) :=
  if s == "-" then some [] else (s.splitOn ",").mapM parsePair

def parseRes : String → Option Res
  | "nil" => some .nil | "closed" => some .closedPipe | "werr" => some .writeErrors
  | "ctx" => some .ctxErr | "other" => some .other | _ => none

def parseTok (t : String) : Option Tok :=
  match t.splitOn "/" with
  | ["cb", c, mf, ms] => do some (.cb (← c.toNat?) (mf == "1") (← parsePairs ms))
  | ["cx", c] => do some (.cx (← c.toNat?))
  | ["xb"] => some .xb
  | ["xr"] => some .xr
  | ["me", c] => do some (.me (← c.toNat?))
  | ["mr", c] => do some (.mr (← c.toNat?))
  | ["pr", ids, o] => do
    let o ← (match o with | "ok" => some Outcome.ok | "temp" => some .temp | "perm" => some .perm | _ => none)
    some (.pr (← parseNats ids) o)
  | ["co", ids, ok] => do some (.co (← parseNats ids) (ok == "ok"))
  | ["cr", c, r] => do some (.cr (← c.toNat?) (← parseRes r))
  | ["lk", n] => do some (.lk (← n.toNat?))
  | ["to", c] => do some (.to (← c.toNat?))
  | ["bo", n] => do some (.conn true (← n.toNat?))
  | ["bc", n] => do some (.conn false (← n.toNat?))
  | ["oc", n] => do some (.oc (← n.toNat?))
  | _ => none

def parseCfg (s : String) : Option Cfg := do
  let kv := (s.splitOn ",").filterMap fun p => match p.splitOn "=" with
    | [k, v] => v.toNat?.map fun n => (k, n)
    | _ => none
  let g := fun k => (kv.find? (·.1 == k)).map (·.2)
  some { maxAttempts := (← g "ma"), batchSize := (← g "bs"), async := (← g "as") == 1, fixed := (← g "fx") == 1 }

/-! ## state-set simulation over Model/WriterClose -/

abbrev SS := Std.HashSet State

/-- unobserved events enabled in a state -/
def taus (s : State) : List Event :=
  (if s.close = 1 then [Event.closeMark] else []) ++
  (candidates s).filter fun e => match e with
    | .attempt .. | .complete _ | .ret _ => false
    | _ => true

partial def closure (cfg : Cfg) (work : List State) (seen : SS) : SS :=
  match work with
  | [] => seen
  | s :: rest =>
    let (work', seen') := (taus s).foldl (fun (acc : List State × SS) e =>
      match step cfg s e with
      | some s' => if acc.2.contains s' then acc else (s' :: acc.1, acc.2.insert s')
      | none => acc) (rest, seen)
    if seen'.size > 400000 then seen' else closure cfg work' seen'

def closeSet (cfg : Cfg) (l : List State) : SS :=
  let init : SS := l.foldl (fun h s => h.insert s) {}
  closure cfg init.toList init

/-- model events that an observed token may stand for, in state s -/
def obsEvents (s : State) : Tok → List Event
  | .cb c mf ms => [.callBegin c ms mf]
  | .cx c => [.ctxCancel c]
  | .xb => [.closeBegin]
  | .xr => [.closeReturn]
  | .me c => [.metaReq c]
  | .mr c => [.metaRel c]
  | .pr ids o => s.writers.filterMap fun p => match p.sender with
      | .sending b _ => if b.msgs = ids then some (.attempt p.pid o) else none
      | _ => none
  | .co ids ok => s.writers.filterMap fun p => match p.sender with
      | .completing b why => if b.msgs = ids && (why = .acked) = ok then some (.complete p.pid) else none
      | _ => none
  | .cr c r => if s.calls.any (fun x => x.id = c && x.phase = .left r) then [.ret c] else []
  | .lk _ => []
  | .to _ => []
  | .conn _ _ => []
  | .oc _ => []

def stepObs (cfg : Cfg) (ss : SS) (t : Tok) : SS :=
  match t with
  | .lk _ => ss
  | .to _ => ss
  | .conn _ _ => ss
  | .oc _ => ss
  | _ =>
    let next := ss.fold (fun acc s => (obsEvents s t).foldl (fun acc e =>
      match step cfg s e with | some s' => s' :: acc | none => acc) acc) []
    closeSet cfg next

/-- a state in which the library can do nothing more and owes no observable event -/
def terminal (cfg : Cfg) (s : State) : Bool :=
  (taus s).all (fun e => (step cfg s e).isNone) &&
  (step cfg s .closeReturn).isNone &&
  s.writers.all (fun p => match p.sender with | .sending .. | .completing .. => false | _ => true) &&
  s.calls.all (fun c => match c.phase with | .left _ => false | _ => true)

def showIds (l : List Nat) : String := if l.isEmpty then "-" else ",".intercalate (l.map toString)

def dedupSort (l : List Nat) : List Nat := (l.toArray.qsort (· < ·)).toList.eraseDups

def simulate (cfg : Cfg) (toks : List (String × Tok)) : String := Id.run do
  let mut ss : SS := closeSet cfg [State.init]
  let mut k := 0
  for (raw, t) in toks do
    let ss' := stepObs cfg ss t
    if ss'.isEmpty then return s!"reject@{k}:{raw}"
    if ss'.size > 400000 then return s!"overflow@{k}"
    ss := ss'
    k := k + 1
  let sawXb := toks.any (·.2 == .xb)
  let sawXr := toks.any (·.2 == .xr)
  let terms := ss.toList.filter (terminal cfg)
  let close := if sawXr then "ret" else if !sawXb then "none"
    else if terms.any (·.close = 2) then "stuck" else "ret"
  let pend := dedupSort (terms.flatMap fun s => (s.calls.filter fun c => match c.phase with | .returned _ => false | _ => true).map (·.id))
  let leak := if close == "ret" then "0" else "-"
  return s!"close={close} pending={showIds pend} leak={leak}"

/-! ## the monitor (on the observation alone) -/

namespace WMon

def idx (toks : List Tok) (p : Tok → Bool) : Option Nat := toks.findIdx? p

/-- positions of tokens satisfying p -/
def positions (toks : List Tok) (p : Tok → Bool) : List Nat :=
  (toks.zipIdx.filter fun x => p x.1).map (·.2)

def before (a : Option Nat) (b : Option Nat) : Bool :=
  match a, b with
  | some i, some j => i < j
  | some _, none => true
  | none, _ => false

/-- the C09 monitor for one Writer scenario -/
def holds (cfg : Cfg) (toks : List Tok) : Bool :=
  let z := toks.zipIdx
  let xb := idx toks (· == .xb)
  let xr := idx toks (· == .xr)
  -- H1 Close returns
  let h1 := xb.isNone || xr.isSome
  -- accepted messages: carried by a produce attempt / Completion, or of a call that returned nil / WriteErrors
  let callMsgs := fun c => (toks.filterMap fun t => match t with | .cb c' _ ms => if c' = c then some (ms.map (·.1)) else none | _ => none).flatten
  let accepted := (toks.flatMap fun t => match t with
    | .pr ids _ => ids | .co ids _ => ids
    | .cr c r => if r = .nil || r = .writeErrors then (if cfg.async then [] else callMsgs c) else []
    | _ => []).eraseDups
  -- H2 every accepted message got its Completion before Close returned, with a justified outcome
  let h2 := accepted.all fun m =>
    match z.find? (fun x => match x.1 with | .co ids _ => ids.contains m | _ => false) with
    | some (.co _ ok, i) =>
      let inTime := before (some i) xr
      let prs := z.filter fun x => x.2 < i && (match x.1 with | .pr ids _ => ids.contains m | _ => false)
      let nOk := (prs.filter fun x => match x.1 with | .pr _ .ok => true | _ => false).length
      let nPerm := (prs.filter fun x => match x.1 with | .pr _ .perm => true | _ => false).length
      let nTemp := (prs.filter fun x => match x.1 with | .pr _ .temp => true | _ => false).length
      inTime && (if ok then nOk ≥ 1 else nOk = 0 && (nPerm ≥ 1 || nTemp ≥ cfg.maxAttempts)) &&
      prs.length ≤ cfg.maxAttempts
    | _ => xb.isNone   -- no Completion at all: only tolerable while the writer was never closed
  -- H3 silence after Close returned
  let h3 := z.all fun x => match x.1 with
    | .pr .. | .co .. | .me _ | .mr _ => before (some x.2) xr || xr.isNone
    | _ => true
  -- H4 use after close
  let h4 := z.all fun x => match x.1 with
    | .cb c _ _ => if before xr (some x.2) && xr.isSome then
        toks.any (fun t => t == .cr c .closedPipe) else true
    | .cr _ .closedPipe => before xb (some x.2) && xb.isSome
    | _ => true
  -- H5 every call returns; a nil result means all its messages were acked before; a cancelled call returns
  let h5 := z.all fun x => match x.1 with
    | .cb c _ _ => toks.any fun t => match t with | .cr c' _ => c' = c | _ => false
    | .cr c .nil => cfg.async || (callMsgs c).all fun m =>
        z.any fun y => y.2 < x.2 && (match y.1 with | .co ids true => ids.contains m | _ => false)
    | _ => true
  -- H6 census
  let h6 := toks.all fun t => match t with | .lk n => n = 0 | .oc n => n = 0 | .to _ => false | _ => true
  h1 && h2 && h3 && h4 && h5 && h6

end WMon

/-! ## Reader / ConsumerGroup / Transport: simulation over Model/ReaderClose and monitor -/

namespace R
open KV.ReaderClose

abbrev RS := Std.HashSet ReaderClose.State

def parseMember (s : String) : Option (Option Nat) :=
  if s == "_" then some none else (s.drop 1).toString.toNat?.map some

def parseKind : String → Option Kind
  | "fetch" => some .fetch | "read" => some .read | "commit" => some .commit | "next" => some .next
  | "rt" => some .roundTrip | _ => none

def parseRes : String → Option ReaderClose.Res
  | "msg" => some .msg | "eof" => some .eof | "ctx" => some .ctx | "closed" => some .closedPipe
  | "gclosed" => some .groupClosed | "gen" => some .gen | "ok" => some .ok | "err" => some .err
  | "tmo" => some .err | _ => none

/-- model events an observed token may stand for (`none` = unparsable, `[]` + true = ignore) -/
def tokEvents (t : String) : Option (List ReaderClose.Event) :=
  match t.splitOn "/" with
  | ["rb", c, k] => do some [.callBegin (← c.toNat?) (← parseKind k)]
  | ["cx", c] => do some [.ctxCancel (← c.toNat?)]
  | ["rr", c, r] => do some [.callRet (← c.toNat?) (← parseRes r)]
  | ["xb"] => some [.closeBegin]
  | ["xr"] => some [.closeReturn]
  | ["gj", m] => do some [.join (← parseMember m)]
  | ["gJ", m] => do match (← parseMember m) with | some n => some [.joinOk n] | none => none
  | ["gE"] => some [.joinErr, .coordErr]
  | ["gF"] => some [.lookupFail]
  | ["gs"] => some [.sync]
  | ["go"] => some [.offsetFetch]
  | ["gh", m] => do match (← parseMember m) with | some n => some [.heartbeat n] | none => none
  | ["gc"] => some [.commit]
  | ["gl", m] => do match (← parseMember m) with | some n => some [.leave n] | none => none
  | ["co", _] => some [.coordOpen]
  | ["cc", _] => some [.coordClose]
  | ["bo", _] => some [.dial, .coordOpen]      -- a real connection: a fetcher's or the group loop's
  | ["bc", _] => some [.connClose, .coordClose]
  | ["fq"] => some [.fetchReq]
  | ["lk", _] => some []
  | ["mq"] => some []                           -- a background metadata refresh reached the broker (never answered)
  | ["lq"] => some []                           -- the ListOffsets after an out-of-range Fetch arrived (never answered)
  | ["to", _] => some []                        -- a call the driver waited for during the whole watchdog bound (monitor)
  | ["lo", _] => some []                        -- connections of the Reader's lag monitor: censused (`oc`), not ordered
  | ["lc", _] => some []
  | ["oc", _] => some []
  | ["ci"] => some []
  | ["rl"] => some []
  | _ => none

partial def closure (work : List ReaderClose.State) (seen : RS) : RS :=
  match work with
  | [] => seen
  | s :: rest =>
    let (work', seen') := ReaderClose.taus.foldl (fun (acc : List ReaderClose.State × RS) e =>
      if e == .fetcherStart && s.fetchers ≥ 2 then acc else
      match ReaderClose.step s e with
      | some s' => if acc.2.contains s' then acc else (s' :: acc.1, acc.2.insert s')
      | none => acc) (rest, seen)
    closure work' seen'

def closeSet (l : List ReaderClose.State) : RS :=
  let init : RS := l.foldl (fun h s => h.insert s) {}
  closure init.toList init

/-- cancelling the context of a call that has already returned is a no-op: such `cx` tokens are dropped -/
def dropLateCancels (toks : List String) : List String :=
  (toks.zipIdx.filter fun (t, i) =>
    match t.splitOn "/" with
    | ["cx", c] => !((toks.take i).any fun (u : String) => u.startsWith s!"rr/{c}/")
    | _ => true).map (·.1)

def simulate (group : Bool) (toks0 : List String) : String := Id.run do
  let toks := dropLateCancels toks0
  let mut ss : RS := closeSet [ReaderClose.State.init group]
  let mut k := 0
  for t in toks do
    match tokEvents t with
    | none => return s!"bad-token:{t}"
    | some [] => pure ()
    | some evs =>
      let next := ss.fold (fun acc s => evs.foldl (fun acc e =>
        match ReaderClose.step s e with | some s' => s' :: acc | none => acc) acc) []
      let ss' := closeSet next
      if ss'.isEmpty then return s!"reject@{k}:{t}"
      ss := ss'
    k := k + 1
  let sawXb := toks.contains "xb"
  let sawXr := toks.contains "xr"
  -- prediction (resources_released / reader_close_progress): Close returns, every call returns, nothing is left
  let close := if sawXr then "ret" else if sawXb then "ret" else "none"
  let pend := dedupSort (ss.toList.flatMap fun s => if s.close = 3 || !sawXb then s.calls.map (·.id) else [])
  return s!"close={close} pending={showIds pend} leak=0 conns=0"

/-- monitor on the observed tokens alone -/
def holds (toks : List String) : Bool :=
  let z := toks.zipIdx
  let pos := fun (p : String → Bool) => (z.find? fun x => p x.1).map (·.2)
  let xb := pos (· == "xb")
  let xr := pos (· == "xr")
  let isSend := fun (t : String) => ["fq", "gs", "go", "gc"].contains t ||
    ["gj/", "gh/", "gl/", "co/", "bo/"].any (fun p => t.startsWith p)
  -- M1 Close returns
  let m1 := xb.isNone || xr.isSome
  -- M2 nothing sent after Close returned
  let m2 := match xr with
    | some i => z.all fun x => !(x.2 > i && isSend x.1)
    | none => true
  -- M3 the group was left: the member id held at Close was sent in a LeaveGroup before Close returned
  let held := (match xr with | some i => toks.take i | none => toks).foldl (fun (acc : Option String × Bool) (t : String) =>
      if t.startsWith "gj/" then (acc.1, true)
      else if t.startsWith "gJ/" then (some (t.drop 3).toString, false)
      else if t == "gE" then (if acc.2 then (none, false) else acc)
      else if t.startsWith "gl/" then (if acc.1 == some (t.drop 3).toString then (none, acc.2) else acc)
      else acc) (none, false)
  -- … unless the coordinator could not be reached after Close began (the lookup `leaveGroup` needs failed):
  -- then no LeaveGroup can be sent and the property cannot ask for one
  let lookupFailed := match xb with
    | some i => z.any fun x => x.2 > i && x.1 == "gF"
    | none => false
  let m3 := xr.isNone || held.1.isNone || lookupFailed
  -- M4/M5/M6 every call returns; results after Close; cancelled calls
  let calls := toks.filterMap fun t => match t.splitOn "/" with | ["rb", c, k] => some (c, k) | _ => none
  let m456 := calls.all fun (c, k) =>
    let b := pos (· == s!"rb/{c}/{k}")
    let r := z.find? fun x => x.1.startsWith s!"rr/{c}/"
    let cancelled := toks.contains s!"cx/{c}"
    match r with
    | none => false
    | some (rt, _) =>
      let res : String := (rt.drop (s!"rr/{c}/".length)).toString
      let afterClose : Bool := match xr, b with | some i, some j => decide (j > i) | _, _ => false
      if afterClose then
        (match k with
         | "fetch" | "read" => res == "eof" || (cancelled && res == "ctx")
         | "commit" => res == "closed" || res == "ok" || (cancelled && res == "ctx")
         | "next" => res == "gclosed" || (cancelled && res == "ctx")
         | _ => true)
      else (res != "ctx" || cancelled) && (res != "eof" || xb.isSome) && (res != "closed" || xb.isSome) && (res != "gclosed" || xb.isSome)
  -- M7 census
  let m7 := toks.all fun (t : String) => !(t.startsWith "lk/" || t.startsWith "oc/" || t.startsWith "to/") || t == "lk/0" || t == "oc/0"
  -- M8 each connection the Reader / ConsumerGroup opened (fetcher `bo/n`, coordinator `co/n`) is closed, once,
  -- before Close returns
  let m8 := xr.isNone || toks.all fun (t : String) =>
    if t.startsWith "co/" || t.startsWith "bo/" then
      let c := (if t.startsWith "co/" then "cc/" else "bc/") ++ (t.drop 3).toString
      (z.filter fun x => x.1 == c && (match xr with | some i => decide (x.2 < i) | none => true)).length == 1
    else true
  m1 && m2 && m3 && m456 && m7 && m8

/-- Transport round trips: each call is `roundTrip`; cancelled calls must have returned the context's error -/
def holdsT (toks : List String) : Bool :=
  let calls := toks.filterMap fun t => match t.splitOn "/" with | ["rb", c, _] => some c | _ => none
  calls.all (fun c => toks.contains s!"rr/{c}/ctx" || (toks.contains s!"rr/{c}/err" || toks.contains s!"rr/{c}/ok") && !toks.contains s!"cx/{c}"
    -- a call whose answer arrived before its context ended may return it
    || toks.contains s!"rr/{c}/ok") &&
  toks.all fun (t : String) => !(t.startsWith "lk/" || t.startsWith "oc/" || t.startsWith "to/") || t == "lk/0" || t == "oc/0"

def simulateT (toks : List String) : String :=
  match simulate false toks with
  | r => if r.startsWith "close=" then (r.drop ("close=none ".length)).toString else r

end R

/-! ## ConsumerGroup.Close: deterministic replay of the hook trace through Model/GroupRun (op `grun`) -/

namespace G
open KV.Group

-- event syntax of go/cmd/c15 (`canon`); parser copied from Oracle/C15.lean
def parseErr? : String → Option (Option Err)
  | "-" => some none
  | "cl" => some (some .closed)
  | "rb" => some (some .rebalance)
  | "ut" => some (some .unknownTopic)
  | "k" => some (some .kafka)
  | "net" => some (some .net)
  | _ => none

def parseErr1 (s : String) : Option Err := (parseErr? s).bind id

def parseBool? : String → Option Bool
  | "1" => some true | "0" => some false | "true" => some true | "false" => some false | _ => none

def mem (s : String) : String := if s == "_" then "" else s

def parseEv (tok : String) : Option Ev :=
  match tok.splitOn ":" with
  | ["connectRes", e] => (parseErr? e).map .connectRes
  | ["findRes", e] => (parseErr? e).map .findRes
  | ["joinOk", mi, m, gid, l] => do some (.joinOk (mem mi) (mem m) (← gid.toInt?) (← parseBool? l))
  | ["joinErr", mi, e] => do some (.joinErr (mem mi) (← parseErr1 e))
  | ["partsRes", e] => (parseErr? e).map .partsRes
  | ["syncRes", mi, gi, e] => do some (.syncRes (mem mi) (← gi.toInt?) (← parseErr? e))
  | ["fetchRes", e] => (parseErr? e).map .fetchRes
  | ["gNew", g, gid, m] => do some (.gNew (← g.toNat?) (← gid.toInt?) (mem m))
  | ["gStart", g, a] => do some (.gStart (← g.toNat?) (← parseBool? a))
  | ["sawClose", g, r] => do some (.sawClose (← g.toNat?) (← parseBool? r))
  | ["handed", g] => do some (.handed (← g.toNat?))
  | ["sawGenDone", g] => do some (.sawGenDone (← g.toNat?))
  | ["gClose", g, w, r] => do some (.gClose (← g.toNat?) (← parseBool? w) (← r.toNat?))
  | ["gClosed", g] => do some (.gClosed (← g.toNat?))
  | ["nextGenRet", m, e] => do some (.nextGenRet (mem m) (← parseErr? e))
  | ["leave", m] => some (.leave (mem m))
  | ["leaveRes", mi, ok] => do some (.leaveRes (mem mi) (← parseBool? ok))
  | ["errDeliver", e, d] => do some (.errDeliver (← parseErr1 e) (← parseBool? d))
  | ["backoff", w] => do some (.backoff (← w.toNat?))
  | ["runExit"] => some .runExit
  | ["hbCall", g, gid, m] => do some (.hbCall (← g.toNat?) (← gid.toInt?) (mem m))
  | ["hbRet", g, e] => do some (.hbRet (← g.toNat?) (← parseErr? e))
  | ["hbExit", g] => do some (.hbExit (← g.toNat?))
  | ["watchCall", g, t] => do some (.watchCall (← g.toNat?) (← t.toNat?))
  | ["watchParts", g, t, n] => do some (.watchParts (← g.toNat?) (← t.toNat?) (← n.toNat?))
  | ["watchErr", g, t, e] => do some (.watchErr (← g.toNat?) (← t.toNat?) (← parseErr1 e))
  | ["watchExit", g, t] => do some (.watchExit (← g.toNat?) (← t.toNat?))
  | ["fnExit", g, c, l] => do some (.fnExit (← g.toNat?) (← parseBool? c) (← l.toNat?))
  | ["uRet", g, a] => do some (.uRet (← g.toNat?) (← parseBool? a))
  | ["uCtx", g] => do some (.uCtx (← g.toNat?))
  | ["closeCall"] => some .closeCall
  | ["closeRet"] => some .closeRet
  | ["nextCall"] => some .nextCall
  | ["nextRetGen", g] => do some (.nextRet (.gen (← g.toNat?)))
  | ["nextRetErr", e] => do some (.nextRet (.err (← parseErr1 e)))
  | _ => none


/-- one line of the ordered log: a GroupRun event, or a coordinator connection being opened / closed -/
inductive Item | ev (e : Ev) | copen (n : Nat) | cclose (n : Nat)

def parseItem (t : String) : Option Item :=
  match t.splitOn ":" with
  | ["cOpen", n] => n.toNat?.map .copen
  | ["cClose", n] => n.toNat?.map .cclose
  | _ => (parseEv t).map .ev

/-- deterministic acceptance: fold `GroupConns.stepC` (GroupRun's `step`, D9-repaired code, extended with what the
code does to its coordinator connections at each step) over the ordered log of hook events and dialer journal lines;
a connection that is not closed before `run` starts the next lookup, ends a back-off or returns is a rejected event -/
def replay (nw : Nat) (items : List (String × Item)) : String × Option St := Id.run do
  let cfg : Group.Cfg := ⟨nw, true⟩
  let mut s : GroupConns.CS := {}
  let mut i := 0
  for (raw, it) in items do
    let e : GroupConns.CEv := match it with | .copen _ => .copen | .cclose _ => .cclose | .ev e => .ev e
    match GroupConns.stepC cfg s e with
    | some s' => s := s'
    | none =>
      let why := if (Group.step cfg s.g (match it with | .ev e => e | _ => .runExit)).isSome then "conns-owed" else "reject"
      return (s!"{why}@{i}:{raw}:open={s.owedOpen},close={s.owedClose}", none)
    i := i + 1
  if s.g.pc == .exited && (s.opened != s.closed) then
    return ("exited-with-connections", none)
  return ("ok", some s.g)

/-- C09 monitor on the raw event list: Close returns after `run` exited; the member id held last was sent in a
LeaveGroup before; nothing but refused `Next` calls after Close returned -/
def holds (items : List Item) : Bool :=
  let evs := items.filterMap fun it => match it with | .ev e => some e | _ => none
  -- "the connections a … ConsumerGroup opened are closed": none open when Close returns
  let uptoRet := items.takeWhile fun it => match it with | .ev .closeRet => false | _ => true
  let stillOpen := uptoRet.foldl (fun (acc : List Nat) it => match it with
    | .copen n => n :: acc | .cclose n => acc.erase n | _ => acc) []
  let m0 := !(evs.contains .closeRet) || stillOpen.isEmpty
  let z := evs.zipIdx
  let pos := fun (p : Ev → Bool) => (z.find? fun x => p x.1).map (·.2)
  let cc := pos (· == .closeCall)
  let cr := pos (· == .closeRet)
  let rx := pos (· == .runExit)
  let m1 := cc.isNone || (cr.isSome && rx.isSome && (match rx, cr with | some a, some b => a < b | _, _ => false))
  let upto := match rx with | some i => evs.take i | none => evs
  -- (held member id, member id for which `leaveGroup` is running)
  let hp := upto.foldl (fun (acc : Option String × Option String) e => match e with
    | .joinOk _ m _ _ => (some m, none)
    | .joinErr _ _ => (none, none)
    | .leave m => (acc.1, if m == "" then none else some m)
    | .leaveRes mi _ => (if acc.1 == some mi then none else acc.1, none)
    -- the coordinator lookup of `leaveGroup` failed: the request cannot be sent; the property cannot ask for it
    | .connectRes (some _) | .findRes (some _) => if acc.2.isSome && acc.2 == acc.1 then (none, none) else acc
    | _ => acc) (none, none)
  let held := hp.1
  let m2 := cc.isNone || held.isNone
  let m3 := match cr with
    | some i => z.all fun x => x.2 ≤ i || (match x.1 with | .nextCall | .nextRet (.err .closed) => true | _ => false)
    | none => true
  m0 && m1 && m2 && m3

def run (cfgs : String) (trace : String) : String × Bool :=
  let nw := ((cfgs.splitOn ",").filterMap fun p => match p.splitOn "=" with | ["nw", v] => v.toNat? | _ => none).headD 0
  let toks := (trace.splitOn ";").filter (· ≠ "")
  match toks.mapM (fun t => (parseItem t).map fun e => (t, e)) with
  | none => ("bad-trace", false)
  | some evs =>
    let (m, st) := replay nw evs
    let evl := evs.filterMap fun x => match x.2 with | .ev e => some e | _ => none
    -- after an accepted trace that contains closeRet the model must be in `exited` with the group closed
    let fin : Bool := match st with
      | some s => !(evl.contains .closeRet) || (s.pc == .exited && s.closedCG)
      | none => true
    (if fin then m else "final-state-not-exited", holds (evs.map (·.2)))

end G

/-! ## Transport connection life cycles: deterministic replay of the T.* hook events (op `ttrace`) -/

namespace T
open KV.TransportConn

def parseEv (t : String) : Option Ev :=
  let body := (t.drop 1).toString
  match t.take 1 |>.toString, body.splitOn ":" with
  | "N", [c, g] => do some (.new (← c.toNat?) (← g.toNat?))
  | "G", [c] => c.toNat?.map .grab
  | "R", [c] => c.toNat?.map .recv
  | "D", [c, o] => do some (.done (← c.toNat?) (o == "ok") (o == "keep"))
  | "L", [c, a] => do some (.release (← c.toNat?) (a == "1"))
  | "M", [c] => c.toNat?.map .remove
  | "C", [g] => g.toNat?.map .closeIdle
  | "X", [c] => c.toNat?.map .exit
  | _, _ => none

/-- `model`: the trace is accepted step by step; after the scenario's deadlines and CloseIdleConnections the model
predicts that no connection is alive (`closing_only_exits`, `released_refused_exits`: a closing connection can only
exit; idle ones were closed by their group) -/
def run (trace : String) : String × Bool :=
  let toks := if trace == "-" then [] else (trace.splitOn ";").filter (· ≠ "")
  match toks.mapM parseEv with
  | none => ("bad-trace", false)
  | some evs =>
    let news := evs.filterMap fun e => match e with | .new c _ => some c | _ => none
    let exits := evs.filterMap fun e => match e with | .exit c => some c | _ => none
    let holds := news.all fun c => exits.contains c
    match firstRejected ⟨true⟩ [] evs 0 with
    | some i => (s!"reject@{i}:{toks.getD i "?"}", holds)
    | none => ("live=0", holds)

end T

/-! ## Partition fetchers: deterministic replay of the RL.* hook events through Model/FetcherLife (op `ftrace`) -/

namespace F
open KV.FetcherLife

def parseEv (t : String) : Option (Nat × FetcherLife.Event) :=
  let body := (t.drop 1).toString
  match t.take 1 |>.toString, body.splitOn ":" with
  | "T", [f, a] => do some ((← f.toNat?), .top (← a.toNat?))
  | "C", [f] => do some ((← f.toNat?), .cancel)
  | "I", [f, ok] => do some ((← f.toNat?), .init (ok == "1"))
  | "J", [f] => do some ((← f.toNat?), .iter)
  | "R", [f, c] => do
    let cls ← (match c with
      | "cont" => some ReadClass.cont | "close" => some .closeBreak | "codec" => some .codecBreak
      | "oor" => some .outOfRange | "canceled" => some .canceled | _ => none)
    some ((← f.toNat?), .read cls)
  | "O", [f, ok] => do some ((← f.toNat?), .offsets (ok == "1"))
  | "M", [f] => do some ((← f.toNat?), .msg)
  | "E", [f] => do some ((← f.toNat?), .sendErr)
  | _, _ => none

/-- every fetcher's events are replayed through `step`; after Close returned (`r.join.Wait()`) the model predicts that
every fetcher has exited (`fetcher_terminates_after_cancel`) with its connection closed (`fetcher_exit_closes_conn`) -/
def run (trace : String) : String × Bool := Id.run do
  let toks := if trace == "-" then [] else (trace.splitOn ";").filter (· ≠ "")
  match toks.mapM parseEv with
  | none => return ("bad-trace", false)
  | some evs =>
    let mut states : List (Nat × FetcherLife.State) := []
    let mut i := 0
    for (f, e) in evs do
      let s := ((states.find? (·.1 == f)).map (·.2)).getD {}
      match FetcherLife.step s e with
      | none => return (s!"reject@{i}:{toks.getD i "?"}", false)
      | some s' => states := (f, s') :: states.filter (·.1 != f)
      i := i + 1
    let live := (states.filter fun x => x.2.pc != .exited).length
    let connOpen := states.any fun x => x.2.pc == .exited && x.2.connOpen
    -- monitor (raw events): each fetcher's last control event is an exit (a cancelled sleep or a cancelled read)
    return (if connOpen then "exited-with-conn" else "live=0", live == 0)

end F

/-! ## Writer.Close on the hook events of writer.go (op `wtrace`): the WaitGroup of Model/WriterClose evaluated
deterministically, and the trace-level counterpart of `all_completed_before_close_return` -/

namespace WH

inductive Ev
  | enter (ok : Bool) | left | newPW (p q : Nat) | newBatch (b : Nat) | attempt (b : Nat) | completion (b : Nat)
  | complete (b : Nat) | senderExit (q : Nat) | closeBegin | closeMarked | closeReturn
deriving DecidableEq

def parseEv (t : String) : Option Ev :=
  if t == "E1" then some (.enter true) else if t == "E0" then some (.enter false)
  else if t == "L" then some .left else if t == "XB" then some .closeBegin
  else if t == "XM" then some .closeMarked else if t == "XR" then some .closeReturn
  else
    let body := (t.drop 1).toString
    match t.take 1 |>.toString, body.splitOn ":" with
    | "P", [p, q] => do some (.newPW (← p.toNat?) (← q.toNat?))
    | "N", [b] => b.toNat?.map .newBatch
    | "A", [b] => b.toNat?.map .attempt
    | "K", [b] => b.toNat?.map .completion
    | "C", [b] => b.toNat?.map .complete
    | "G", [q, "nil"] => q.toNat?.map .senderExit
    | _, _ => none

/-- the WaitGroup as Model/WriterClose derives it (`State.wg`): calls between enter and leave + live sender goroutines
(awaitBatch goroutines have no exit hook and are left out); `enter` is refused iff the writer is marked closed;
CloseReturn needs the count to be 0 -/
def replay (evs : List Ev) : String := Id.run do
  let mut calls := 0
  let mut senders := 0
  let mut closed := false
  let mut i := 0
  for e in evs do
    match e with
    | .enter ok =>
      if ok == closed then return s!"reject@{i}:enter-{ok}-while-closed={closed}"
      if ok then calls := calls + 1
    | .left => if calls == 0 then return s!"reject@{i}:leave-without-enter" else calls := calls - 1
    | .newPW _ _ => senders := senders + 1
    | .senderExit _ => if senders == 0 then return s!"reject@{i}:sender-exit" else senders := senders - 1
    | .closeBegin => closed := true
    | .closeReturn => if calls != 0 || senders != 0 then return s!"reject@{i}:CloseReturn-with-wg={calls + senders}"
    | _ => pure ()
    i := i + 1
  return "ok"

/-- monitor on the raw events: at CloseReturn every batch created has been completed (after exactly one Completion
callback when any is configured), every partition writer's sender has exited, and nothing happens afterwards but refused calls and repeated Closes -/
def holds (evs : List Ev) : Bool :=
  let z := evs.zipIdx
  match (z.find? fun x => x.1 == .closeReturn).map (·.2) with
  | none => true
  | some r =>
    let before := (z.filter fun x => x.2 < r).map (·.1)
    let after := (z.filter fun x => x.2 > r).map (·.1)
    let anyCompletion := evs.any fun e => match e with | .completion _ => true | _ => false
    let batches := evs.filterMap fun e => match e with | .newBatch b => some b | _ => none
    let queues := evs.filterMap fun e => match e with | .newPW _ q => some q | _ => none
    batches.all (fun b => before.contains (.complete b) &&
      (!anyCompletion || (before.filter (· == .completion b)).length == 1)) &&
    queues.all (fun q => before.contains (.senderExit q)) &&
    -- afterwards: refused calls, and further (no-op) Closes
    after.all (fun e => match e with | .enter false => true | .closeBegin | .closeMarked | .closeReturn => true | _ => false)

def run (trace : String) : String × Bool :=
  let toks := if trace == "-" then [] else (trace.splitOn ";").filter (· ≠ "")
  match toks.mapM parseEv with
  | none => ("bad-trace", false)
  | some evs => (replay evs, holds evs)

end WH

def answer (model : String) (holds : Bool) : String :=
  s!"model={model} holds={if holds then 1 else 0}"

def step (line : String) : String :=
  match line.splitOn " => " with
  | [req, _impl] =>
    match words req with
    | "wclose" :: cfgs :: toks =>
      match parseCfg cfgs, toks.mapM (fun t => (parseTok t).map fun x => (t, x)) with
      | some cfg, some ts => answer (simulate cfg ts) (WMon.holds cfg (ts.map (·.2)))
      | _, _ => "bad-op"
    | "rclose" :: cfgs :: toks =>
      answer (R.simulate (cfgs.startsWith "grp=1") toks) (R.holds toks)
    | "tclose" :: _ :: toks => answer (R.simulateT toks) (R.holdsT toks)
    | ["grun", cfgs, trace] => let (m, h) := G.run cfgs trace; answer m h
    | ["ttrace", _, trace] => let (m, h) := T.run trace; answer m h
    | ["ftrace", _, trace] => let (m, h) := F.run trace; answer m h
    | ["wtrace", _, trace] => let (m, h) := WH.run trace; answer m h
    | _ => "bad-op"
  | _ => "bad-line"

end KV.OracleC09

def main : IO Unit := KV.runOracle () (fun _ l => ((), KV.OracleC09.step l))
