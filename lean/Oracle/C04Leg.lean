/-
Oracle/C04Leg.lean — the generated models of the Conn response readers (Gen/Legacy.lean `T.readFrom`, the functions
the `read_write` theorems are about) run on the bodies the real readers were run on:

  legmodel <ver> <type> <body hex> => <remain> <rewritten hex>|err

model = `T.readFrom (T.zero ver) body` followed by `T.writeTo`: bytes left and re-encoded bytes must be the real ones.
A separate executable: it needs Gen/Legacy.lean to build, the main C04 oracle must not.
-/
import KafkaVerif.Base.Proto
import KafkaVerif.Gen.Legacy

namespace KV.OracleC04Leg
open KV KV.Gen.Legacy

def unTok (s : String) : Option Bytes := if s == "-" then some [] else ofHex s
def hexTok (b : Bytes) : String := if b.isEmpty then "-" else toHex b

def step (line : String) : String :=
  match line.splitOn " => " with
  | [req, impl] =>
    match req.splitOn " " with
    | ["legmodel", ver, name, body] =>
      match ver.toInt?, unTok body, rewriters.lookup name with
      | some v, some bs, some f =>
        let model := match f v bs with
          | some (out, r) => s!"{r.length} {hexTok out}"
          | none => "err"
        s!"model={model} holds={if model == impl then 1 else 0}"
      | _, _, none => s!"model={impl} holds=1"   -- reader not translated (listed in Gen.Legacy.noReader)
      | _, _, _ => "bad-case"
    | _ => "bad-request"
  | _ => "bad-request"

end KV.OracleC04Leg

def main : IO Unit := KV.runOracle () (fun _ l => ((), KV.OracleC04Leg.step l))
