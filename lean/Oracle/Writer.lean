/-
Oracle/Writer.lean — line-protocol oracle for the Writer properties C01 / C07 / C08 (core only; `oracle_writer`).

Request:  `<c01|c07|c08> wtrace <cfg> | <calls> | <events> => <observations>`   (see go/cmd/writer/main.go)
Answer:   `model=<observations predicted by the model> holds=<0|1>`

model: the recorded hook events + broker decisions are replayed through Model/Writer.step (trace acceptance);
       if some event cannot be taken the answer is `model=reject@<index> <event>`; otherwise the model's final
       state predicts the observations (return value of every call, partition logs, Completion arguments).
holds: the property monitor of Spec/WriterMonitors.lean evaluated on the implementation's journal and
       observations (independent of the model).
-/
import KafkaVerif.Base.Proto
import KafkaVerif.Model.Writer
import KafkaVerif.Spec.WriterMonitors
import KafkaVerif.Gen.WriterConsts

namespace KV.OracleWriter
open KV KV.Writer KV.WriterSpec

def parseCode (s : String) : Option Code :=
  if s == "ok" then some 0
  else if s == "eof" then some 1001
  else if s == "connrefused" then some 1002
  else if s == "connreset" then some 1003
  else if s == "epipe" then some 1004
  else if s == "deadline" then some 1005
  else if s == "othertmp" then some 1006
  else if s == "other" then some 2000
  else if s == "ctx" then some 2001
  else if s == "closed" then some 2002
  else if s.startsWith "k" then (s.drop 1).toString.toInt?
  else none

def showCode (c : Code) : String :=
  if c == 0 then "ok"
  else if c == 1001 then "eof"
  else if c == 1002 then "connrefused"
  else if c == 1003 then "connreset"
  else if c == 1004 then "epipe"
  else if c == 1005 then "deadline"
  else if c == 1006 then "othertmp"
  else if c == 2000 then "other"
  else if c == 2001 then "ctx"
  else if c == 2002 then "closed"
  else s!"k{c}"

/-- `isTemporary(err) || isTransientNetworkError(err)` from the constants extracted from error.go;
context.DeadlineExceeded reports Temporary() = true -/
def retriable (c : Code) : Bool :=
  Gen.temporaryCodes.contains c ||
  Gen.transientNet.any (fun t => parseCode t == some c) ||
  c == 1005 ||
  -- an error without a name of its own that declares itself Temporary() (hook token "othertmp")
  c == 1006

def idOf (pre : String) (s : String) : Option Nat :=
  if s.startsWith pre then (s.drop pre.length).toString.toNat? else none

def parseBool (s : String) : Option Bool :=
  if s == "true" then some true else if s == "false" then some false else none

def dash (s : String) : String := if s == "-" then "" else s

structure Scenario where
  cfg : MCfg
  calls : List CDecl
  ptrs : List (String × Nat)       -- recorder id of &msgs[0] ↦ call id
  deriving Repr

def parseMsg (s : String) : Option MDecl :=
  match s.splitOn ":" with
  | [k, sz, t, p] => do
    let size ← sz.toNat?
    let part ← p.toInt?
    some { key := k, size := size, topic := dash t, part := part }
  | [k, sz, t, p, sh] => do
    let size ← sz.toNat?
    let part ← p.toInt?
    some { key := k, size := size, topic := dash t, part := part, shape := sh }
  | _ => none

def parseCall (s : String) : Option (CDecl × String) :=
  match words s with
  | [c, ptr, caller, seq, msgs] => do
    let id ← idOf "c" c
    let ca ← caller.toNat?
    let sq ← seq.toNat?
    let ms ← (msgs.splitOn ",").mapM parseMsg
    some ({ id := id, caller := ca, seq := sq, msgs := ms }, ptr)
  | _ => none

/-- the header carries the Writer's options as configured (0 = left unset); the limits in force are the defaults of the
accessors `batchSize()` / `batchBytes()` / `maxAttempts()` (Model: `effBatchSize` …, tied to the source by
`C08.defaults_match_source`) -/
def parseCfg (s : String) : Option MCfg :=
  let mk (bs bb ma a c t lg : String) : Option MCfg := do
    let bs ← bs.toNat?
    let bb ← bb.toNat?
    let ma ← ma.toNat?
    let lg ← lg.toNat?
    some { bs := effBatchSize bs, bb := effBatchBytes bb, ma := effMaxAttempts ma, async := a == "1", compl := c == "1",
           topic := dash t, linger := lg }
  match words s with
  | [_, _, _, bs, bb, ma, a, c, t] => mk bs bb ma a c t "0"
  | [_, _, _, bs, bb, ma, a, c, t, lg] => mk bs bb ma a c t lg
  | _ => none

def modelCfg (c : MCfg) : Cfg :=
  { batchSize := c.bs, batchBytes := c.bb, maxAttempts := c.ma, async := c.async, completion := c.compl,
    topic := c.topic, retriable := retriable, linger := c.linger }

def callOfPtr (sc : Scenario) (p : String) : Option Nat := (sc.ptrs.find? (·.1 == p)).map (·.2)

def keyMsg (sc : Scenario) (key : String) : Option Msg :=
  (findMsg sc.calls key).map (fun x => (x.1.id, x.2.1))

def msgKey (sc : Scenario) (m : Msg) : String :=
  match sc.calls.find? (·.id == m.1) with
  | some c => match c.msgs[m.2]? with
    | some d => d.key
    | none => "?"
  | none => "?"

def parseOut (s : String) : Option BrOut :=
  if s == "acked" then some .acked
  else if s == "lost1" then some (.lost true)
  else if s == "lost0" then some (.lost false)
  else if s.startsWith "k" then (s.drop 1).toString.toInt?.map BrOut.rejected
  else none

def parseWhy (s : String) : Option Why :=
  if s == "full" then some .full else if s == "nofit" then some .nofit
  else if s == "timer" then some .timer else if s == "close" then some .close else none

def parseRejWhy (s : String) : Option RejWhy :=
  if s == "toolarge" then some .toolarge else if s == "topic" then some .topic
  else if s == "meta" then some .metadata else if s == "closed" then some .closed else none

/-- the partition writer whose in-flight attempt this broker decision belongs to -/
def resolvePW (s : State) (tp : TP) (msgs : List Msg) : Nat :=
  let hit := s.pwIds.find? (fun pw =>
    match s.pws pw with
    | some P =>
      P.tp == tp && (match P.sender with
        | .attempting b _ none => (match s.batches b with | some B => B.msgs.map (·.msg) == msgs | none => false)
        | _ => false)
    | none => false)
  match hit with
  | some pw => pw
  | none => (s.pwOf tp).getD 0

def parseEvent (sc : Scenario) (s : State) (txt : String) : Option Event :=
  match words txt with
  | ["W.Enter", ok] => (parseBool ok).map Event.enter
  | ["T.Tick", t] => t.toNat?.map Event.tick
  | ["W.Empty"] => some .empty
  | ["W.Begin", p, n] => do
    let c ← callOfPtr sc p
    let d ← sc.calls.find? (·.id == c)
    let n ← n.toNat?
    if n == d.msgs.length then some (.begin_ c (d.msgs.map (fun m => { size := m.size, topic := m.topic }))) else none
  | ["W.Reject", p, why, i] => do some (.reject (← callOfPtr sc p) (← parseRejWhy why) (← i.toNat?))
  | ["W.Assign", p, i, topic, part] => do some (.assign (← callOfPtr sc p) (← i.toNat?) (topic, ← part.toInt?))
  | ["W.Batch", p] => (callOfPtr sc p).map Event.batch
  | ["W.Batched", p] => (callOfPtr sc p).map Event.batched
  | ["W.NewPW", pw, q, topic, part] => do some (.newPW (← idOf "p" pw) (← idOf "q" q) (topic, ← part.toInt?))
  | ["PW.NewBatch", pw, b] => do some (.newBatch (← idOf "p" pw) (← idOf "b" b))
  | ["PW.Add", pw, b, p, i, size] => do
    some (.add (← idOf "p" pw) (← idOf "b" b) (← callOfPtr sc p) (← i.toNat?) (← size.toNat?))
  | ["PW.Detach", pw, b, why, size] => do some (.detach (← idOf "p" pw) (← idOf "b" b) (← parseWhy why) (← size.toNat?))
  | ["Q.Put", q, b, acc] => do some (.qput (← idOf "q" q) (← idOf "b" b) (← parseBool acc))
  | ["Q.Get", q, b] => do
    let q ← idOf "q" q
    if b == "nil" then some (.qget q none) else some (.qget q (some (← idOf "b" b)))
  | ["Q.Close", q] => (idOf "q" q).map Event.qclose
  | ["B.TimerFire", pw, b, att] => do some (.timerFire (← idOf "p" pw) (← idOf "b" b) (← parseBool att))
  | ["PW.Attempt", pw, b, k] => do some (.attempt (← idOf "p" pw) (← idOf "b" b) (← k.toNat?))
  | ["Br.Produce", topic, part, keys, out] => do
    let tp : TP := (topic, ← part.toInt?)
    let msgs ← (if keys == "-" then some [] else (keys.splitOn ",").mapM (keyMsg sc))
    some (.produce (resolvePW s tp msgs) tp msgs (← parseOut out))
  | ["PW.AttemptDone", pw, b, k, code] => do some (.attemptDone (← idOf "p" pw) (← idOf "b" b) (← k.toNat?) (← parseCode code))
  | ["B.Completion", pw, b, code] => do some (.completion (← idOf "p" pw) (← idOf "b" b) (← parseCode code))
  | ["B.Complete", pw, b, code] => do some (.complete (← idOf "p" pw) (← idOf "b" b) (← parseCode code))
  | ["W.Return", p, shape] => do
    let c ← callOfPtr sc p
    if shape == "ok" then some (.ret c .ok) else if shape == "async" then some (.ret c .async)
    else if shape == "ctx" then some (.ret c .ctx) else if shape == "closed" then some (.ret c .closed) else none
  | ["W.Return", p, "werr", codes] => do some (.ret (← callOfPtr sc p) (.werr (← (codes.splitOn ",").mapM parseCode)))
  | ["W.CloseBegin"] => some .closeBegin
  | ["W.CloseMarked", n] => n.toNat?.map Event.closeMarked
  | ["W.CloseReturn"] => some .closeReturn
  | _ => none

/-- replay: parse each event against the current state and step; Except carries the rejection text -/
def replay (sc : Scenario) (cfg : Cfg) : State → Nat → List String → Except String State
  | s, _, [] => .ok s
  | s, n, t :: ts =>
    match parseEvent sc s t with
    | none => .error s!"reject@{n} unparsed {t}"
    | some e =>
      match step cfg s e with
      | none => .error s!"reject@{n} {t}"
      | some s' => replay sc cfg s' (n + 1) ts

def insertBy {α : Type} (lt : α → α → Bool) (x : α) : List α → List α
  | [] => [x]
  | y :: ys => if lt x y then x :: y :: ys else y :: insertBy lt x ys

def sortBy {α : Type} (lt : α → α → Bool) (l : List α) : List α := l.foldl (fun acc x => insertBy lt x acc) []

def keyNum (k : String) : Nat := ((k.drop 1).toString.toNat?).getD 0

/-- the fake cluster answers the metadata lookup for a topic named nope<code> with that error code -/
def metaCode (c : CDecl) (i : Nat) : String :=
  match c.msgs[i]? with
  | some m => if m.topic.startsWith "nope" then "k" ++ (m.topic.drop 4).toString else "k3"
  | none => "k3"

def resultStr (r : Option Result) : String :=
  match r with
  | none => "pending"
  | some .ok => "ok"
  | some .async => "ok"
  | some .ctx => "ctx"
  | some .closed => "closed"
  | some (.werr codes) => "werr:" ++ ",".intercalate (codes.map showCode)
  | some (.rejected .metadata _) => "k3"        -- the fake cluster answers UnknownTopicOrPartition for the topic it lacks
  | some (.rejected .toolarge _) => "k10"     -- MessageTooLargeError unwraps to MessageSizeTooLarge (error.go)
  | some (.rejected _ _) => "other"

/-- WriterStats as the model accounts them: one write per finished attempt with the batch's message count and bytes,
an error per failed attempt, a retry per attempt after the first, the largest batch sent -/
def predictStats (s : State) (evs : List String) : String :=
  let done := evs.filterMap (fun t => match words t with
    | ["PW.AttemptDone", _, b, _, code] => (idOf "b" b).map (fun b => (b, code))
    | _ => none)
  let sizeOf (b : Nat) : Nat × Nat := match s.batches b with
    | some B => (B.msgs.length, B.bytes)
    | none => (0, 0)
  let w := done.length
  let m := (done.map (fun x => (sizeOf x.1).1)).sum
  let by_ := (done.map (fun x => (sizeOf x.1).2)).sum
  let e := (done.filter (fun x => x.2 != "ok")).length
  let r := (evs.filter (fun t => match words t with | ["PW.Attempt", _, _, k] => k != "0" | _ => false)).length
  -- BatchSize / BatchBytes summaries are observed once per batch taken from the queue
  let got := evs.filterMap (fun t => match words t with
    | ["Q.Get", _, b] => idOf "b" b
    | _ => none)
  let maxn := (got.map (fun b => (sizeOf b).1)).foldl max 0
  let maxb := (got.map (fun b => (sizeOf b).2)).foldl max 0
  s!"w={w},m={m},b={by_},e={e},r={r},maxn={maxn},maxb={maxb}"

def predict (sc : Scenario) (obs : Obs) (evs : List String) (s : State) : String :=
  let rets := (sortBy (fun (a b : CDecl) => a.id < b.id) sc.calls).map (fun c =>
    match s.calls c.id with
    | some C => match C.result with
      | some (.rejected .metadata i) =>
        -- the error of a failed metadata lookup is the environment's (over a real Transport: dial failures, deadlines);
        -- the model only says the call ends in a rejection: any observed non-success code is the prediction
        let seen := retOf obs c.id
        if (sc.calls.find? (·.id == c.id)).any (fun d => d.msgs.any (fun m => m.topic.startsWith "nope")) then s!"c{c.id} {metaCode c i}"
        else if isAccepted seen then s!"c{c.id} rejected-by-metadata" else s!"c{c.id} {seen}"
      | r => s!"c{c.id} {resultStr r}"
    | none => s!"c{c.id} closed")
  let tps := sortBy (fun (a b : TP) => a.1 < b.1 || (a.1 == b.1 && a.2 < b.2)) (s.tps.filter (fun tp => !(s.log tp).isEmpty))
  let logs := tps.map (fun tp => s!"{tp.1}/{tp.2} " ++ ",".intercalate ((s.log tp).map (fun e => msgKey sc e.msg)))
  let cbs := s.batchIds.flatMap (fun b =>
    match s.batches b with
    | some B => (List.replicate B.ncompl ()).flatMap (fun _ => B.msgs.map (fun m => (msgKey sc m.msg, showCode (B.cbCode.getD 0))))
    | none => [])
  let cbs := sortBy (fun (a b : String × String) => keyNum a.1 < keyNum b.1 || (keyNum a.1 == keyNum b.1 && a.2 < b.2)) cbs
  let orDash (l : List String) := if l.isEmpty then "-" else ";".intercalate l
  -- every record that reached a broker (journal: all attempts) arrives as the message was given: the declared shape
  let ids := (s.journal.flatMap (fun j => match s.batches j.batch with
    | some B => B.msgs.map (fun m => msgKey sc m.msg)
    | none => [])).eraseDups
  let shapes := sortBy (fun (a b : String) => a < b)
    (ids.map (fun k => k ++ ":" ++ (match findMsg sc.calls k with | some d => d.2.2.shape | none => "?")))
  -- Completion(nil) hands out the messages with Topic / Partition / Offset of the acknowledged copy: the LAST copy of the
  -- batch in its partition's log (no attempt follows an acknowledged one)
  let lastIdx (l : List LogEntry) (m : Msg) : Nat :=
    ((l.zipIdx).foldl (fun acc x => if x.1.msg == m then x.2 else acc) 0)
  let wheres := sortBy (fun (a b : String) => a < b) (s.batchIds.flatMap (fun b =>
    match s.batches b with
    | some B =>
      if B.ncompl ≥ 1 && B.cbCode == some 0 then
        B.msgs.map (fun m => s!"{msgKey sc m.msg}:{B.tp.1}/{B.tp.2}@{lastIdx (s.log B.tp) m.msg}")
      else []
    | none => []))
  s!"ret {orDash rets} | log {orDash logs} | cb {orDash (cbs.map (fun x => x.1 ++ " " ++ x.2))} | unsent 0 | multi 0 | stuck 0 | stats {predictStats s evs} | early 0 | shapes {orDash shapes} | where {orDash wheres}"

/-- the fake broker's journal, from the environment events of the trace -/
def journalOf (evs : List String) : List JReq :=
  evs.filterMap (fun t =>
    match words t with
    | ["Br.Produce", topic, part, keys, out] =>
      part.toInt?.map (fun p => { topic := topic, part := p, keys := (if keys == "-" then [] else keys.splitOn ","), out := out })
    | _ => none)

def parseShapes (x : String) : Option (List (String × String)) :=
  let b := (((x.drop "shapes".length).toString).trimAscii).toString
  if b == "-" then some [] else (b.splitOn ";").mapM (fun e =>
    match e.splitOn ":" with
    | [k, sh] => some (k, sh)
    | _ => none)

def parseWheres (x : String) : Option (List (String × (String × Int) × Nat)) :=
  let b := (((x.drop "where".length).toString).trimAscii).toString
  if b == "-" then some [] else (b.splitOn ";").mapM (fun e =>
    match e.splitOn ":" with
    | [k, loc] =>
      match loc.splitOn "@" with
      | [tp, off] =>
        match tp.splitOn "/" with
        | [t, p] => do some (k, (t, ← p.toInt?), ← off.toNat?)
        | _ => none
      | _ => none
    | _ => none)

def parseObs8 (rets logs cbs unsent multi stuck stats early : String) (shapes : List (String × String))
    (wheres : List (String × (String × Int) × Nat) := []) : Option Obs := do
    let body (pre x : String) : String := ((x.drop pre.length).toString.trimAscii).toString
    let rt := body "ret" rets
    let rets ← (if rt == "-" then some [] else (rt.splitOn ";").mapM (fun r =>
      match words r with
      | [c, code] => (idOf "c" c).map (fun id => (id, code))
      | _ => none))
    let lg := body "log" logs
    let logs ← (if lg == "-" then some [] else (lg.splitOn ";").mapM (fun l =>
      match words l with
      | [tp, keys] =>
        match tp.splitOn "/" with
        | [t, p] => p.toInt?.map (fun p => ((t, p), if keys == "-" then [] else keys.splitOn ","))
        | _ => none
      | _ => none))
    let cb := body "cb" cbs
    let cbs ← (if cb == "-" then some [] else (cb.splitOn ";").mapM (fun l =>
      match words l with
      | [k, code] => some (k, code)
      | _ => none))
    let num (pre x : String) : Option Nat := (body pre x).toNat?
    some { rets := rets, logs := logs, cbs := cbs, unsent := ← num "unsent" unsent, multi := ← num "multi" multi, stuck := ← num "stuck" stuck,
           stats := body "stats" stats, early := ← num "early" early, shapes := shapes, wheres := wheres }

def parseObs (s : String) : Option Obs :=
  match s.splitOn " | " with
  | [rets, logs, cbs, unsent, multi, stuck, stats, early] => parseObs8 rets logs cbs unsent multi stuck stats early []
  | [rets, logs, cbs, unsent, multi, stuck, stats, early, shapes] => do
    parseObs8 rets logs cbs unsent multi stuck stats early (← parseShapes shapes)
  | [rets, logs, cbs, unsent, multi, stuck, stats, early, shapes, wheres] => do
    parseObs8 rets logs cbs unsent multi stuck stats early (← parseShapes shapes) (← parseWheres wheres)
  | _ => none

def answer (model : String) (holds : Bool) : String :=
  s!"model={model} holds={if holds then 1 else 0}"

def handle (line : String) : String :=
  match line.splitOn " => " with
  | [req, impl] =>
    match req.splitOn " | " with
    | [cfgS, callsS, evS] =>
      let prop := (words cfgS).headD ""
      match parseCfg cfgS, (callsS.splitOn ";").mapM parseCall, parseObs impl with
      | some mc, some cs, some obs =>
        let sc : Scenario := { cfg := mc, calls := cs.map (·.1), ptrs := cs.map (fun x => (x.2, x.1.id)) }
        let evs := (evS.splitOn ";").map (fun e => (e.trimAscii).toString) |>.filter (· ≠ "")
        let model := match replay sc (modelCfg mc) State.init 0 evs with
          | .ok s => predict sc obs evs s
          | .error e => e
        let j := journalOf evs
        let tev : List TEv := evs.map words
        let sizeOf (ptr : String) (i : Nat) : Nat :=
          match callOfPtr sc ptr with
          | some c => match sc.calls.find? (·.id == c) with
            | some d => (d.msgs[i]?.map (·.size)).getD 0
            | none => 0
          | none => 0
        let accepted : List (String × Nat) := sc.ptrs.filterMap (fun (ptr, cid) =>
          if isAccepted (retOf obs cid) then (sc.calls.find? (·.id == cid)).map (fun d => (ptr, d.msgs.length)) else none)
        let c08 := holdsC08 mc sc.calls j obs && closedWhenFull mc.bs mc.bb sizeOf tev && detachedGetsPut tev && timerDetachOk tev &&
          attemptedAll tev accepted && lingerOk mc.linger tev && noAddAfterDetach tev
        let c07 := holdsC07 sc.calls j obs && putInsideSection tev
        let c01 := holdsC01 mc sc.calls j obs && batchOnce tev && timerDetachOk tev && noAddAfterDetach tev
        let holds :=
          if prop == "c08" then c08 else if prop == "c07" then c07 else if prop == "c01" then c01
          else c08 && c07 && c01
        answer model holds
      | _, _, _ => "bad-op"
    | _ => "bad-op"
  | _ => "bad-op"

end KV.OracleWriter

def main : IO Unit := KV.runOracle () (fun _ l => ((), KV.OracleWriter.handle l))
