/-
Oracle/C10.lean — line-protocol oracle for property C10 (core only; compiled to `oracle_c10`).
Request:  `<op> <args…> => <implementation output>`
Answer:   `model=<model output> holds=<0|1>`

  round <scenario> <i> ops=<methods> => ran        a generated concurrent program was run        → model=ran    holds=1
  scen <scenario> seed=<s> rounds=<n> => clean     the race detector reported nothing            → model=clean  holds=1
  race <file:line> <file:line> => reported         one detector report (the two access sites)    → holds=0 and
        model=unprotected:<field>   the regenerated table has a conflicting, lock-disjoint pair of rows at these two sites
                                    (only possible for rows under a finding exclusion: `Gen.excluded`)
        model=protected:<field>     the table has rows of one field at both sites but claims a common lock: table wrong
        model=unmapped              no field of the table is accessed at both sites: table incomplete
        (model=unprotected:<field> also when one of the two sites holds a row that is unprotected against itself)
The reference side is the table the theorems of Props/C10.lean are about (`Gen.groups`, `Gen.excluded`)
and `Lockset.pairOk`; the monitor is "no data race reported".
-/
import KafkaVerif.Base.Proto
import KafkaVerif.Model.Lockset
import KafkaVerif.Gen.Accesses
import KafkaVerif.Gen.Skeletons

namespace KV.OracleC10
open KV KV.Lockset

def allRows : List Access := Gen.accesses ++ Gen.excluded

def siteName (a : Access) : String := Gen.siteNames.getD a.site ""

/-- rows whose site is `file:line …` -/
def rowsAt (loc : String) : List Access :=
  allRows.filter fun a => (siteName a).startsWith (loc ++ " ")

def fieldName (f : Field) : String := Gen.fieldNames.getD f s!"field#{f}"

def classify (l1 l2 : String) : String :=
  let r1 := rowsAt l1
  let r2 := rowsAt l2
  let pairs := r1.flatMap fun a => (r2.filter fun b => a.field == b.field && (a.write || b.write)).map fun b => (a, b)
  match pairs.find? (fun p => !pairOk p.1 p.2) with
  | some p => s!"unprotected:{fieldName p.1.field}"
  | none =>
    match pairs.head? with
    | some p => s!"protected:{fieldName p.1.field}"
    | none =>
      -- same field at both sites but read/read in the table (e.g. the detector saw a write the table calls a read)
      match (r1.flatMap fun a => (r2.filter fun b => a.field == b.field).map fun b => (a, b)).head? with
      | some p => s!"protected:{fieldName p.1.field}"
      | none =>
        -- one-sided: a row at one of the sites that is unprotected even against itself (e.g. a write to the
        -- pointee of a published slice) races with whatever reads that memory, tabulated or not
        match (r1 ++ r2).find? (fun a => !pairOk a a) with
        | some a => s!"unprotected:{fieldName a.field}"
        | none => "unmapped"

def step (line : String) : String :=
  match line.splitOn " => " with
  | [req, impl] =>
    match words req with
    | "round" :: _ => s!"model=ran holds={if impl == "ran" then 1 else 0}"
    | "scen" :: _ => s!"model=clean holds={if impl == "clean" then 1 else 0}"
    | ["race", l1, l2] => s!"model={classify l1 l2} holds=0"
    | _ => "model=? holds=0"
  | _ => "model=? holds=0"

/-! ## lock facts: entry-lockset fixpoint and the table rows the verified analysis does not justify

`oracle_c10 lockfacts` prints `Gen/LockFacts.lean`.  Nothing here is trusted: the kernel re-checks the printed
entry locksets with `entryOkB` and the justification of every table row outside the printed list. -/

open KV.LockProg in
/-- one refinement round: every entry lockset is intersected with the locksets found at its call sites -/
def refineOnce (entry : List LS) : List LS × Bool :=
  let get (i : Nat) : LS := entry.getD i []
  let sites : List (Nat × LS) := Gen.skeletons.flatMap fun p => (an (getL Gen.skRel) p.2 (get p.1)).calls
  let next := (List.range entry.length).map fun f =>
    sites.foldl (fun acc c => if c.1 == f then meet acc c.2 else acc) (get f)
  (next, next.zip entry |>.all fun p => p.1.length == p.2.length)

open KV.LockProg in
partial def refineEntry (entry : List LS) (fuel : Nat) : List LS :=
  match fuel with
  | 0 => entry.map fun _ => []
  | fuel + 1 =>
    let (next, stable) := refineOnce entry
    if stable then next else refineEntry next fuel

def showHold (h : Hold) : String := s!"⟨{h.m}, {if h.mode == .excl then ".excl" else ".shared"}⟩"
def showLS (l : List Hold) : String := "[" ++ ", ".intercalate (l.map showHold) ++ "]"

/-- the heap-indexed trie literal (same layout as the extractor's) -/
partial def showTrie (n mul add : Nat) (val : Nat → String) : String :=
  if add ≥ n then ".nil"
  else s!"(.node (some {val add}) {showTrie n (2 * mul) (mul + add) val} {showTrie n (2 * mul) (2 * mul + add) val})"

/-- mark every interface-call site with a pseudo access `1000000 + f` so that the analysis reports its lockset -/
def markIcalls : KV.LockProg.Cmd → KV.LockProg.Cmd
  | .icall f => .seq (.acc (1000000 + f)) (.icall f)
  | .seq a b => .seq (markIcalls a) (markIcalls b)
  | .alt a b => .alt (markIcalls a) (markIcalls b)
  | .loop a => .loop (markIcalls a)
  | .block a => .block (markIcalls a)
  | .spawn a => .spawn (markIcalls a)
  | c => c

/-- trie literal with holes -/
partial def showTrieOpt (n mul add : Nat) (val : Nat → Option String) : String :=
  if add ≥ n then ".nil"
  else
    let v := match val add with | some s => s!"(some {s})" | none => "none"
    s!"(.node {v} {showTrieOpt n (2 * mul) (mul + add) val} {showTrieOpt n (2 * mul) (2 * mul + add) val})"

open KV.LockProg in
def lockFacts : String :=
  let n := Gen.skeletons.length
  let entry0 := (List.range n).map fun i => getLS Gen.skEntry i
  let entry := refineEntry entry0 (n + 5)
  let getE (i : Nat) : LS := entry.getD i []
  let rows : List (Nat × LS) := Gen.skeletons.flatMap fun p => (an (getL Gen.skRel) p.2 (getE p.1)).rows
  let arr := rows.toArray
  -- rows come out in ascending occurrence order (the extractor numbers them in analysis order)
  let lookup (k : Nat) : List LS := (rows.filter fun r => r.1 == k).map (·.2)
  let _ := arr
  let unj := Gen.accesses.filter fun a =>
    let real := realLocks Gen.tokenIds a
    !(real.isEmpty || Gen.exemptOcc.contains a.site ||
      (let ls := lookup a.site; !ls.isEmpty && ls.all fun L => subB real L))
  let unjOcc := (unj.map (·.site)).eraseDups
  let maxOcc := rows.foldl (fun m r => max m r.1) 0
  -- interface-call sites at which the `icall` restriction matters: the candidate may release a mutex held there
  let marked : List (Nat × LS) := Gen.skeletons.flatMap fun p => (an (getL Gen.skRel) (markIcalls p.2) (getE p.1)).rows
  let isites := marked.filter fun r => r.1 ≥ 1000000
  let idep := isites.filter fun r => (getL Gen.skRel (r.1 - 1000000)).any fun m => r.2.any fun x => x.m == m
  let lowered := (List.range n).filter fun i => (getE i).length != (getLS Gen.skEntry i).length
  "/-\nGen/LockFacts.lean — GENERATED by `oracle_c10 lockfacts` (compiled Lean) from Gen/Skeletons.lean and Gen/Accesses.lean. DO NOT EDIT.\n" ++
  "Untrusted hints: the kernel re-checks `skEntryR` with entryOkB and justifies every table row not listed here.\n-/\n" ++
  "import KafkaVerif.Model.LockProg\n\nnamespace KV.Gen\nopen KV.Lockset KV.LockProg\n\n" ++
  "/-- entry locksets after the fixpoint `entry f ⊆ lockset at every call site of f` (starting from the extractor's) -/\n" ++
  s!"def skEntryR : Trie LS :=\n  {showTrie n 1 0 (fun i => showLS (getE i))}\n\n" ++
  "/-- skeletons whose entry lockset the fixpoint lowered below the extractor's claim -/\n" ++
  s!"def loweredEntries : List Nat := {lowered}\n\n" ++
  "/-- table rows (by site) whose locks the verified analysis does NOT re-derive: they stay on the extractor's dataflow -/\n" ++
  s!"def unjustifiedOcc : List Nat := {unjOcc}\n\n" ++
  "/-- interface-call candidate sites, and those where the candidate may release a mutex (type) held at the site, i.e. where the `icall` restriction is actually used -/\n" ++
  s!"def icallSites : Nat := {isites.length}\ndef icallSitesUsingRestriction : Nat := {idep.length}\n\n" ++
  "/-- the rows of the analysis, indexed by site (checked against `allRows` by the kernel) -/\n" ++
  s!"def skRowsT : Trie LS :=\n  {showTrieOpt (maxOcc + 1) 1 0 (fun i => (rows.find? fun r => r.1 == i).map fun r => showLS r.2)}\n\nend KV.Gen\n"

end KV.OracleC10

def main (args : List String) : IO Unit :=
  if args == ["lockfacts"] then IO.print KV.OracleC10.lockFacts
  else KV.runOracle () (fun _ l => ((), KV.OracleC10.step l))
