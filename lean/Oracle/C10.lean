/-
Oracle/C10.lean — line-protocol oracle for property C10 (core only; compiled to `oracle_c10`).
Request:  `<op> <args…> => <implementation output>`
Answer:   `model=<model output> holds=<0|1>`

  round <scenario> <i> ops=<methods> => ran        a generated concurrent program was run        → model=ran    holds=1
  scen <scenario> seed=<s> rounds=<n> => clean     the race detector reported nothing            → model=clean  holds=1
  race <file:line> <file:line> => reported         one detector report (the two access sites)    → holds=0 and
        model=unprotected:<field>   the regenerated table has a conflicting, lock-disjoint pair of rows at these two sites
                                    (only possible for rows under a finding exclusion: `Gen.excluded`)
        model=protected:<field>     the table has rows of one field at both sites but claims a common lock: table wrong
        model=unmapped              no field of the table is accessed at both sites: table incomplete
        (model=unprotected:<field> also when one of the two sites holds a row that is unprotected against itself)
The reference side is the table the theorems of Props/C10.lean are about (`Gen.groups`, `Gen.excluded`)
and `Lockset.pairOk`; the monitor is "no data race reported".
-/
import KafkaVerif.Base.Proto
import KafkaVerif.Model.Lockset
import KafkaVerif.Gen.Accesses

namespace KV.OracleC10
open KV KV.Lockset

def allRows : List Access := Gen.accesses ++ Gen.excluded

def siteName (a : Access) : String := Gen.siteNames.getD a.site ""

/-- rows whose site is `file:line …` -/
def rowsAt (loc : String) : List Access :=
  allRows.filter fun a => (siteName a).startsWith (loc ++ " ")

def fieldName (f : Field) : String := Gen.fieldNames.getD f s!"field#{f}"

def classify (l1 l2 : String) : String :=
  let r1 := rowsAt l1
  let r2 := rowsAt l2
  let pairs := r1.flatMap fun a => (r2.filter fun b => a.field == b.field && (a.write || b.write)).map fun b => (a, b)
  match pairs.find? (fun p => !pairOk p.1 p.2) with
  | some p => s!"unprotected:{fieldName p.1.field}"
  | none =>
    match pairs.head? with
    | some p => s!"protected:{fieldName p.1.field}"
    | none =>
      -- same field at both sites but read/read in the table (e.g. the detector saw a write the table calls a read)
      match (r1.flatMap fun a => (r2.filter fun b => a.field == b.field).map fun b => (a, b)).head? with
      | some p => s!"protected:{fieldName p.1.field}"
      | none =>
        -- one-sided: a row at one of the sites that is unprotected even against itself (e.g. a write to the
        -- pointee of a published slice) races with whatever reads that memory, tabulated or not
        match (r1 ++ r2).find? (fun a => !pairOk a a) with
        | some a => s!"unprotected:{fieldName a.field}"
        | none => "unmapped"

def step (line : String) : String :=
  match line.splitOn " => " with
  | [req, impl] =>
    match words req with
    | "round" :: _ => s!"model=ran holds={if impl == "ran" then 1 else 0}"
    | "scen" :: _ => s!"model=clean holds={if impl == "clean" then 1 else 0}"
    | ["race", l1, l2] => s!"model={classify l1 l2} holds=0"
    | _ => "model=? holds=0"
  | _ => "model=? holds=0"

end KV.OracleC10

def main : IO Unit := KV.runOracle () (fun _ l => ((), KV.OracleC10.step l))
