/-
Oracle/C04.lean — line-protocol oracle for C04 / C20 (core only; compiled to `oracle_c04`).

Request:  `<op> <args…> => <implementation output>`      Answer: `model=<model output> holds=<0|1>`

  enc <i> <ver> <corr> <clientid> <value…>   => <frame hex> | err      real WriteRequest / WriteResponse
  dec <i> <ver> <frame hex>                  => <corr> [<clientid>] <value…> | err   real ReadRequest / ReadResponse
  mal <i> <ver> <frame hex>                  => ok | error | panic | oom | timeout   (C20: child process outcome)
  spec <i> <ver> <corr> <clientid> <value…>  => -        model answers with the REFERENCE frame (Spec encoder over
                                                          the golden schema when the API is audited, else the tree's)

`i` indexes `Gen.schemas` (the driver's type list is generated in the same order; the name is checked).
`model` comes from Model/Codec over `Gen.schemas` resolved by Model/Resolve; `holds` is the monitor on the
implementation's output computed from Spec/KafkaWire + Spec/KafkaSchemas (reference side).
-/
import KafkaVerif.Base.Proto
import KafkaVerif.Model.Codec
import KafkaVerif.Model.CodecWF
import KafkaVerif.Model.Resolve
import KafkaVerif.Model.GoVal
import KafkaVerif.Gen.Schemas
import KafkaVerif.Gen.DecoderCfg
import KafkaVerif.Spec.KafkaWire
import KafkaVerif.Spec.KafkaSchemas
import KafkaVerif.Spec.KafkaParse

namespace KV.OracleC04
open KV KV.Codec

def answer (model : String) (holds : Bool) : String :=
  s!"model={model} holds={if holds then 1 else 0}"

def cfg : Cfg := Gen.decoderCfg

mutual
/-- `WriteTo` of a RecordSet without records fails with ErrNoRecord: the frame cannot be produced -/
partial def encodable : Ty → Val → Bool
  | .records, .records none => false
  | .array _ _ t, .arr (some l) => l.all (encodable t)
  | .struct _ fs _ ts, .struct vs tvs => encodableL fs vs && encodableL ts tvs
  | _, _ => true
partial def encodableL : List Ty → List Val → Bool
  | t :: ts, v :: vs => encodable t v && encodableL ts vs
  | _, _ => true
end

mutual
partial def hasRecords : Ty → Bool
  | .records => true
  | .array _ _ t => hasRecords t
  | .struct _ fs _ ts => fs.any hasRecords || ts.any hasRecords
  | _ => false
end

structure Case where
  m : RawMsg
  r : Resolved
  ver : Int

def getCase (i ver : String) : Option Case := do
  let idx ← i.toNat?
  let v ← ver.toInt?
  let m ← Gen.schemas[idx]?
  let r ← resolveMsg m v
  pure ⟨m, r, v⟩

def showRes {α} (f : α → String) : Res α → String
  | .ok a _ => f a
  | .error => "err"
  | .panic => "panic"
  | .balloon => "balloon"

/-- model of ReadRequest: header, then the body of the type selected by (key, version) — here the case's -/
def readRequest (c : Case) (stream : Bytes) : Res (Int × Bytes × Val) :=
  (readInt 4 ⟨stream, 4⟩).bind fun size d =>
    if size < 0 then (if cfg.bounded then .error else .panic)
    else
      let d : Dec := ⟨d.inp, size.toNat⟩
      (readInt 2 d).bind fun _key d =>
      (readInt 2 d).bind fun _ver d =>
      (readInt 4 d).bind fun corr d =>
      (decode cfg (.string false true) d).bind fun cid d =>
      (readRequestBody cfg c.r.flexible c.r.ty d).bind fun v d =>
        .ok (corr, (match cid with | .str s => s | _ => []), v) d

/-- the reference resolved type: golden table when audited and certain, else the tree's -/
def refTy (c : Case) : Ty × Bool :=
  match Spec.goldenTy c.m.apiKey c.m.isRequest c.ver (Spec.strip c.r.ty) with
  | some t => (t, true)
  | none => (c.r.ty, false)

def step (line : String) : String :=
  match line.splitOn " => " with
  | [req, impl] =>
    match words req with
    | op :: i :: ver :: rest =>
      match getCase i ver with
      | none => "bad-case"
      | some c =>
        let root : GoTy := .named c.m.root
        if op == "enc" || op == "spec" then
          match rest with
          | corr :: cid :: toks =>
            match corr.toInt?, ofHex cid, parseMsgText c.m toks with
            | some corr, some cid, some g =>
              match project c.m.structs c.ver root g with
              | none => "bad-project"
              | some v =>
                let (rt, audited) := refTy c
                let frameOf (t : Ty) (enc : Ty → Val → Bytes) : Bytes :=
                  if c.m.isRequest then
                    Spec.frameRequest c.r.flexible c.m.apiKey c.ver corr cid (enc t v)
                  else Spec.frameResponse c.r.flexible corr (enc t v)
                if op == "spec" then
                  answer ((if audited then "A" else "U") ++ toHex (frameOf rt Spec.encode)) true
                else
                  let bytes := if c.m.isRequest then frameRequest c.r.flexible c.m.apiKey c.ver corr cid c.r.ty v
                               else frameResponse c.r.flexible corr c.r.ty v
                  let model := if encodable c.r.ty v then toHex bytes else "err"
                  -- monitor: the implementation's bytes are the reference encoding of the value under the
                  -- reference schema (size prefix included), or the value cannot be encoded at all
                  -- the theorems of Props/C04 apply to this schema only if it is well-formed (`Ty.wf`, evaluated here)
                  let holds := c.r.ty.wf && (if encodable c.r.ty v then impl == toHex (frameOf rt Spec.encode) else impl == "err")
                  answer model holds
            | _, _, _ => "bad-args"
          | _ => "bad-args"
        else if op == "dec" then
          match rest with
          | [hex] =>
            match ofHex hex with
            | none => "bad-hex"
            | some bs =>
              let (rt, _) := refTy c
              if c.m.isRequest then
                let model := showRes (fun (x : Int × Bytes × Val) =>
                  s!"{x.1} {hexTok x.2.1} {(embed c.m.structs c.ver root x.2.2).text}") (readRequest c bs)
                let ref := match Spec.parseRequest c.r.flexible rt bs with
                  | some (corr, cid, v) => s!"{corr} {hexTok cid} {(embed c.m.structs c.ver root v).text}"
                  | none => "err"
                answer model (impl == ref)
              else
                let model := showRes (fun (x : Int × Val) =>
                  s!"{x.1} {(embed c.m.structs c.ver root x.2).text}") (readResponse cfg c.r.flexible c.r.ty bs)
                let ref := match Spec.parseResponse c.r.flexible rt bs with
                  | some (corr, v) => s!"{corr} {(embed c.m.structs c.ver root v).text}"
                  | none => "err"
                answer model (impl == ref)
          | _ => "bad-args"
        else if op == "mal" then
          match rest with
          | [hex] =>
            match ofHex hex with
            | none => "bad-hex"
            | some bs =>
              let out0 : String :=
                if c.m.isRequest then showRes (fun _ => "ok") (readRequest c bs)
                else showRes (fun _ => "ok") (readResponse cfg c.r.flexible c.r.ty bs)
              let out1 := if out0 == "balloon" then "oom" else out0
              -- the inside of a RecordSet payload is opaque to this model (C05): the real decoder may reject it
              let out := if out1 == "ok" && impl == "err" && hasRecords c.r.ty then "err" else out1
              -- monitor (C20): an error or a message, nothing else
              answer out (impl == "ok" || impl == "err")
          | _ => "bad-args"
        else "bad-op"
    | _ => "bad-op"
  | _ => "bad-line"

end KV.OracleC04

def main : IO Unit := KV.runOracle () (fun _ l => ((), KV.OracleC04.step l))
