/-
Oracle/C04.lean — line-protocol oracle for C04 / C20 (core only; compiled to `oracle_c04`).

Request:  `<op> <args…> => <implementation output>`      Answer: `model=<model output> holds=<0|1>`

  enc <i> <ver> <corr> <clientid> <value…>   => <frame hex> | err      real WriteRequest / WriteResponse
  dec <i> <ver> <frame hex>                  => <corr> [<clientid>] <value…> | err   real ReadRequest / ReadResponse
  mal <i> <ver> <frame hex>                  => ok | error | panic | oom | timeout   (C20: child process outcome)
  spec <i> <ver> <corr> <clientid> <value…>  => -        model answers with the REFERENCE frame (Spec encoder over
                                                          the golden schema when the API is audited, else the tree's)

`i` indexes `Gen.schemas` (the driver's type list is generated in the same order; the name is checked).
`model` comes from Model/Codec over `Gen.schemas` resolved by Model/Resolve; `holds` is the monitor on the
implementation's output computed from Spec/KafkaWire + Spec/KafkaSchemas (reference side).
-/
import KafkaVerif.Base.Proto
import KafkaVerif.Model.Codec
import KafkaVerif.Model.CodecWF
import KafkaVerif.Model.Resolve
import KafkaVerif.Model.GoVal
import KafkaVerif.Gen.Schemas
import KafkaVerif.Gen.DecoderCfg
import KafkaVerif.Gen.RecordCfg
import KafkaVerif.Model.CodecRecords
import KafkaVerif.Spec.Crc
import KafkaVerif.Spec.KafkaWire
import KafkaVerif.Spec.KafkaSchemas
import KafkaVerif.Spec.KafkaParse
import KafkaVerif.Gen.Routing

namespace KV.OracleC04
open KV KV.Codec

def answer (model : String) (holds : Bool) : String :=
  s!"model={model} holds={if holds then 1 else 0}"

def cfg : Cfg := Gen.decoderCfg

/-- the frame decoder with the detailed record-set reader (C20 outcome classes); compressed batches are not
generated: decompression fails -/
def cfgR : Cfg :=
  withRecords Gen.decoderCfg Gen.recordCfg (Crc.crc32 Crc.polyIEEE) (Crc.crc32 Crc.polyCastagnoli) (fun _ _ => none)

mutual
/-- `WriteTo` of a RecordSet without records fails with ErrNoRecord: the frame cannot be produced -/
partial def encodable : Ty → Val → Bool
  | .records, .records none => false
  | .array _ _ t, .arr (some l) => l.all (encodable t)
  | .struct _ fs _ ts, .struct vs tvs => encodableL fs vs && encodableL ts tvs
  | _, _ => true
partial def encodableL : List Ty → List Val → Bool
  | t :: ts, v :: vs => encodable t v && encodableL ts vs
  | _, _ => true
end

mutual
partial def hasRecords : Ty → Bool
  | .records => true
  | .array _ _ t => hasRecords t
  | .struct _ fs _ ts => fs.any hasRecords || ts.any hasRecords
  | _ => false
end


/-! ### `lens`: positions of every length / count field of a well-formed frame (for the C20 generator) -/

/-- one length or count field: offset in the frame, kind (`i32`, `i16`, `uv` unsigned varint, `zv` zig-zag
varint), width in bytes, offsets of the enclosing int32 size fields (to keep them consistent when the width
changes) and, when the field is covered by a checksum, `(kind, offset of the crc field, region start, region end)` -/
structure LF where
  off : Nat
  kind : String
  width : Nat
  encl : List Nat
  crc : Option (String × Nat × Nat × Nat) := none

def LF.show (f : LF) : String :=
  let e := if f.encl.isEmpty then "-" else "+".intercalate (f.encl.map toString)
  let c := match f.crc with
    | some (k, o, a, b) => s!"{k}/{o}/{a}/{b}"
    | none => "-"
  s!"{f.off}:{f.kind}:{f.width}:{e}:{c}"

def zvRead (bs : Bytes) : Option (Int × Nat) :=
  match Spec.pUvar bs with
  | some (u, r) => some ((if u % 2 == 0 then (u / 2 : Int) else -((u / 2 : Int)) - 1), bs.length - r.length)
  | none => none

/-- v2 record fields inside `[off, end_)` -/
partial def walkRecordsV2 (all : Bytes) (encl : List Nat) (crc : Option (String × Nat × Nat × Nat)) (n : Nat) (off end_ : Nat) : List LF :=
  if n == 0 || off ≥ end_ then [] else
  let zv (o : Nat) := zvRead (all.drop o)
  match zv off with
  | none => []
  | some (_, w0) =>
    let f0 : LF := ⟨off, "zv", w0, encl, crc⟩
    let o1 := off + w0 + 1
    match zv o1 with
    | none => [f0]
    | some (_, w1) => match zv (o1 + w1) with
      | none => [f0]
      | some (_, w2) =>
        let ok := o1 + w1 + w2
        match zv ok with
        | none => [f0]
        | some (kl, wk) =>
          let fk : LF := ⟨ok, "zv", wk, encl, crc⟩
          let ov := ok + wk + (if kl > 0 then kl.toNat else 0)
          match zv ov with
          | none => [f0, fk]
          | some (vl, wv) =>
            let fv : LF := ⟨ov, "zv", wv, encl, crc⟩
            let oh := ov + wv + (if vl > 0 then vl.toNat else 0)
            match zv oh with
            | none => [f0, fk, fv]
            | some (nh, wh) =>
              let fh : LF := ⟨oh, "zv", wh, encl, crc⟩
              let rec hdrs (k : Nat) (o : Nat) (acc : List LF) : List LF × Nat :=
                if k == 0 then (acc, o) else
                match zv o with
                | none => (acc, o)
                | some (l1, a) =>
                  let o2 := o + a + (if l1 > 0 then l1.toNat else 0)
                  match zv o2 with
                  | none => (acc ++ [⟨o, "zv", a, encl, crc⟩], o2)
                  | some (l2, b) =>
                    hdrs (k - 1) (o2 + b + (if l2 > 0 then l2.toNat else 0)) (acc ++ [⟨o, "zv", a, encl, crc⟩, ⟨o2, "zv", b, encl, crc⟩])
              let (hs, onext) := hdrs (if nh > 0 then nh.toNat else 0) (oh + wh) []
              [f0, fk, fv, fh] ++ hs ++ walkRecordsV2 all encl crc (n - 1) onext end_

def i32AtOff (all : Bytes) (o : Nat) : Int := match Spec.pInt 4 (all.drop o) with | some (v, _) => v | none => 0

/-- the length fields inside a record-set payload occupying `[off, end_)` of the frame -/
partial def walkRecordSet (all : Bytes) (encl : List Nat) (off end_ : Nat) : List LF :=
  if off + 17 > end_ then [] else
  let magic := (all.getD (off + 16) 0).toNat
  let size : Int := i32AtOff all (off + 8)
  if size < 0 then [] else
  let stop := off + 12 + size.toNat
  if stop > end_ then [] else
  let fsize : LF := ⟨off + 8, "i32", 4, encl, none⟩
  let encl' := encl ++ [off + 8]
  if magic == 2 then
    let crc := some ("c", off + 17, off + 21, stop)
    let attrs := (all.getD (off + 22) 0).toNat
    let fnum : LF := ⟨off + 57, "i32", 4, encl', crc⟩
    let n : Int := i32AtOff all (off + 57)
    let recs := if attrs % 8 == 0 && n.toNat != 0 then walkRecordsV2 all encl' crc n.toNat (off + 61) stop else []
    [fsize, fnum] ++ recs ++ walkRecordSet all encl stop end_
  else
    let crc := some ("i", off + 12, off + 16, stop)
    let ok := off + 18 + (if magic == 1 then 8 else 0)
    let kl : Int := i32AtOff all ok
    let ov := ok + 4 + (if kl > 0 then kl.toNat else 0)
    let fk : LF := ⟨ok, "i32", 4, encl', crc⟩
    let fv : LF := ⟨ov, "i32", 4, encl', crc⟩
    (if ov + 4 ≤ stop then [fsize, fk, fv] else [fsize, fk]) ++ walkRecordSet all encl stop end_

mutual
/-- walk a value of type `t` starting at `off`; returns the fields and the offset after the value -/
partial def walkTy (all : Bytes) : Ty → Nat → Option (List LF × Nat)
  | .bool, o | .int8, o => some ([], o + 1)
  | .int16, o => some ([], o + 2)
  | .int32, o => some ([], o + 4)
  | .int64, o | .float64, o => some ([], o + 8)
  | .string c _, o =>
    if c then match Spec.pUvar (all.drop o) with
      | some (n, r) => let w := (all.drop o).length - r.length
        some ([⟨o, "uv", w, [0], none⟩], o + w + (n - 1))
      | none => none
    else match Spec.pInt 2 (all.drop o) with
      | some (n, _) => some ([⟨o, "i16", 2, [0], none⟩], o + 2 + (if n > 0 then n.toNat else 0))
      | none => none
  | .bytes c _, o =>
    if c then match Spec.pUvar (all.drop o) with
      | some (n, r) => let w := (all.drop o).length - r.length
        some ([⟨o, "uv", w, [0], none⟩], o + w + (n - 1))
      | none => none
    else match Spec.pInt 4 (all.drop o) with
      | some (n, _) => some ([⟨o, "i32", 4, [0], none⟩], o + 4 + (if n > 0 then n.toNat else 0))
      | none => none
  | .array c _ t, o =>
    if c then match Spec.pUvar (all.drop o) with
      | some (n, r) => let w := (all.drop o).length - r.length
        (walkElems all t (n - 1) (o + w)).map fun (fs, o') => (⟨o, "uv", w, [0], none⟩ :: fs, o')
      | none => none
    else match Spec.pInt 4 (all.drop o) with
      | some (n, _) => (walkElems all t (if n > 0 then n.toNat else 0) (o + 4)).map fun (fs, o') => (⟨o, "i32", 4, [0], none⟩ :: fs, o')
      | none => none
  | .struct flex fs _ _, o =>
    match walkFields all fs o with
    | none => none
    | some (lfs, o') =>
      if flex then match Spec.pUvar (all.drop o') with
        | some (n, r) => let w := (all.drop o').length - r.length
          -- the tag buffer: count, then per field tag id, size (a length field) and size bytes
          let rec tags (k : Nat) (o : Nat) (acc : List LF) : List LF × Nat :=
            if k == 0 then (acc, o) else
            match Spec.pUvar (all.drop o) with
            | none => (acc, o)
            | some (_, r1) =>
              let o1 := o + ((all.drop o).length - r1.length)
              match Spec.pUvar r1 with
              | none => (acc, o1)
              | some (sz, r2) =>
                let w2 := r1.length - r2.length
                tags (k - 1) (o1 + w2 + sz) (acc ++ [⟨o1, "uv", w2, [0], none⟩])
          let (tfs, oEnd) := tags n (o' + w) []
          some (lfs ++ [⟨o', "uv", w, [0], none⟩] ++ tfs, oEnd)
        | none => none
      else some (lfs, o')
  | .unit _, o => some ([], o)
  | .records, o =>
    match Spec.pInt 4 (all.drop o) with
    | some (n, _) =>
      let len := if n > 0 then n.toNat else 0
      some (⟨o, "i32", 4, [0], none⟩ :: walkRecordSet all [0, o] (o + 4) (o + 4 + len), o + 4 + len)
    | none => none
partial def walkElems (all : Bytes) (t : Ty) : Nat → Nat → Option (List LF × Nat)
  | 0, o => some ([], o)
  | n + 1, o => match walkTy all t o with
    | some (fs, o') => (walkElems all t n o').map fun (gs, o'') => (fs ++ gs, o'')
    | none => none
partial def walkFields (all : Bytes) : List Ty → Nat → Option (List LF × Nat)
  | [], o => some ([], o)
  | t :: ts, o =>
    if t.zeroSize then walkFields all ts o else
    match walkTy all t o with
    | some (fs, o') => (walkFields all ts o').map fun (gs, o'') => (fs ++ gs, o'')
    | none => none
end

/-- the Conn codec writes an empty (non-null) string where the reflection codec writes null for `""`: both are
canonical encodings (of the empty resp. the null string) — strings made non-nullable for the second comparison -/
partial def denullStr : Ty → Ty
  | .string c _ => .string c false
  | .array c n t => .array c n (denullStr t)
  | .struct f fs ids ts => .struct f (fs.map denullStr) ids (ts.map denullStr)
  | t => t

mutual
/-- the schemas the theorems of Props/C04 speak about: `Ty.wf` (decode_encode), or flexible structs whose tagged
fields are real well-formed types with distinct ids in [0, 2^63) next to the markers (decode_encode_tagged) -/
partial def wfT : Ty → Bool
  | .array _ _ t => posWidth t && !t.zeroSize && wfT t
  | .struct flex fs ids ts =>
    fs.all wfT && fs.all regularOk && ids.length == ts.length && ids.eraseDups.length == ids.length &&
      ((ids.zip ts).all fun (i, t) => isMarker t || (flex && !t.zeroSize && wfT t && decide (0 ≤ i) && decide (i < 2 ^ 63)))
  | _ => true
end

structure Case where
  m : RawMsg
  r : Resolved
  ver : Int

def getCase (i ver : String) : Option Case := do
  let idx ← i.toNat?
  let v ← ver.toInt?
  let m ← Gen.schemas[idx]?
  let r ← resolveMsg m v
  pure ⟨m, r, v⟩

def showRes {α} (f : α → String) : Res α → String
  | .ok a _ => f a
  | .error => "err"
  | .panic => "panic"
  | .balloon => "balloon"

/-- model of ReadRequest (`Model.readRequest`, the function `frame_request_decode` is about) at the case's type -/
def readRequest (c : Case) (stream : Bytes) : Res (Int × Bytes × Val) :=
  (KV.Codec.readRequest cfg c.r.flexible c.r.ty stream).bind fun x d => .ok (x.2.2.1, x.2.2.2.1, x.2.2.2.2) d

/-- the reference resolved type: golden table when audited and certain, else the tree's -/
def refTy (c : Case) : Ty × Bool :=
  match Spec.goldenTy c.m.apiKey c.m.isRequest c.ver (Spec.strip c.r.ty) with
  | some t => (t, true)
  | none => (c.r.ty, false)


mutual
/-- the reference schema is FLAT where the tree nests a struct in a (non-array) field: the nested struct's fields are the
reference's fields at that position (DescribeAcls request `Filter ACLFilter`) -/
partial def spliceTo : Ty → Val → Val
  | .struct _ gfs _ _, .struct vs tvs => .struct (spliceFields gfs vs) tvs
  | .array _ _ t, .arr (some xs) => .arr (some (xs.map (spliceTo t)))
  | _, v => v
partial def spliceFields : List Ty → List Val → List Val
  | g :: gs, (.struct ivs itv) :: vs =>
    match g with
    | .struct _ _ _ _ => spliceTo g (.struct ivs itv) :: spliceFields gs vs
    | _ => spliceFields (g :: gs) (ivs ++ vs)
  | g :: gs, v :: vs => spliceTo g v :: spliceFields gs vs
  | _, vs => vs
end

/-- does the value nest a struct where the reference schema has a scalar / array field? -/
partial def nestsWhereFlat : Ty → Val → Bool
  | .struct _ gfs _ _, .struct vs _ =>
    (gfs.zip vs).any fun (g, v) => match g, v with
      | .struct _ _ _ _, _ => nestsWhereFlat g v
      | _, .struct _ _ => true
      | _, _ => nestsWhereFlat g v
  | .array _ _ t, .arr (some xs) => xs.any (nestsWhereFlat t)
  | _, _ => false


/-- two tagged fields no schema of the tree knows (a newer broker's): tag 1000 with three bytes, tag 70000 empty -/
def unkTags : Bytes := Spec.uvar 1000 ++ Spec.uvar 3 ++ [1, 2, 3] ++ Spec.uvar 70000 ++ Spec.uvar 0

mutual
/-- the reference encoder, with `unkTags` added to the tagged-field buffer of EVERY flexible struct -/
partial def encodeUnk : Ty → Val → Bytes
  | .array c n t, .arr a =>
    match a, n with
    | none, true => if c then Spec.uvar 0 else Spec.sint 4 (-1)
    | a, _ => let l := a.getD []
      (if c then Spec.uvar (l.length + 1) else Spec.sint 4 l.length) ++ (l.map (encodeUnk t)).flatten
  | .struct flex fs ids ts, .struct vs tvs =>
    encodeUnkFields fs vs ++
      (if flex then Spec.uvar (Spec.numTagged ts + 2) ++ Spec.encodeTagged ids ts tvs ++ unkTags else [])
  | .unit flex, _ => if flex then Spec.uvar 2 ++ unkTags else []
  | t, v => Spec.encode t v
partial def encodeUnkFields : List Ty → List Val → Bytes
  | t :: ts, v :: vs => (if t.zeroSize then [] else encodeUnk t v) ++ encodeUnkFields ts vs
  | _, _ => []
end

/-- frames whose header tag buffer carries an unknown field as well -/
def frameRequestUnk (apiKey version corr : Int) (clientID body : Bytes) : Bytes :=
  Spec.frame (Spec.sint 2 apiKey ++ Spec.sint 2 version ++ Spec.sint 4 corr ++
    (Spec.kString false true clientID ++ Spec.uvar 1 ++ Spec.uvar 900 ++ Spec.uvar 2 ++ [9, 9]) ++ body)
def frameResponseUnk (corr : Int) (body : Bytes) : Bytes :=
  Spec.frame (Spec.sint 4 corr ++ (Spec.uvar 1 ++ Spec.uvar 900 ++ Spec.uvar 2 ++ [9, 9]) ++ body)

def stepMain (line : String) : String :=
  match line.splitOn " => " with
  | [req, impl] =>
    match words req with
    | ["mal", "sasl", _, hex] =>
      -- the un-framed SASL exchange (saslauthenticate.readResp): INT32 length, then that many bytes
      match ofHex hex with
      | none => "bad-hex"
      | some bs =>
        let out : String := match saslReadResp Gen.saslCfg bs with
          | .ok _ _ => "ok"
          | .error => "err"
          | .panic => "panic"
          | .balloon => "balloon"
        answer out (impl == "ok" || impl == "err")
    | ["connresp", _op, _ver, _k, _len, digest] =>
      -- a well-formed response delivered in two pieces cut at k: decoded without error, exactly the frame
      -- consumed (0 bytes left in the Conn's buffer), same values as encoded
      answer s!"ok 0 {digest}" (impl == s!"ok 0 {digest}")
    | op :: i :: ver :: rest =>
      match getCase i ver with
      | none => "bad-case"
      | some c =>
        let root : GoTy := .named c.m.root
        if op == "enc" || op == "spec" || op == "specx" then
          match rest with
          | corr :: cid :: toks =>
            match corr.toInt?, ofHex cid, parseMsgText c.m toks with
            | some corr, some cid, some g =>
              match project c.m.structs c.ver root g with
              | none => "bad-project"
              | some v =>
                let (rt, audited) := refTy c
                let frameOf (t : Ty) (enc : Ty → Val → Bytes) : Bytes :=
                  let v := if audited then spliceTo t v else v
                  if c.m.isRequest then
                    Spec.frameRequest c.r.flexible c.m.apiKey c.ver corr cid (enc t v)
                  else Spec.frameResponse c.r.flexible corr (enc t v)
                if op == "spec" then
                  answer ((if audited then "A" else "U") ++ toHex (frameOf rt Spec.encode)) true
                else if op == "specx" then
                  -- the same value as a NEWER peer would send it: unknown tagged fields in the header and in every struct
                  if c.r.flexible then
                    let v' := if audited then spliceTo rt v else v
                    let fr := if c.m.isRequest then frameRequestUnk c.m.apiKey c.ver corr cid (encodeUnk rt v')
                              else frameResponseUnk corr (encodeUnk rt v')
                    answer ((if audited then "A" else "U") ++ toHex fr) true
                  else answer "U" true
                else
                  let bytes := if c.m.isRequest then frameRequest c.r.flexible c.m.apiKey c.ver corr cid c.r.ty v
                               else frameResponse c.r.flexible corr c.r.ty v
                  let model := if encodable c.r.ty v then toHex bytes else "err"
                  -- monitor: the implementation's bytes are the reference encoding of the value under the
                  -- reference schema (size prefix included), or the value cannot be encoded at all
                  -- the theorems of Props/C04 apply to this schema only if it is well-formed (`Ty.wf`, evaluated here)
                  let holds := wfT c.r.ty && (if encodable c.r.ty v then impl == toHex (frameOf rt Spec.encode) else impl == "err")
                  answer model holds
            | _, _, _ => "bad-args"
          | _ => "bad-args"
        else if op == "dec" then
          match rest with
          | [hex] =>
            match ofHex hex with
            | none => "bad-hex"
            | some bs =>
              let (rt, _) := refTy c
              if c.m.isRequest then
                let model := showRes (fun (x : Int × Bytes × Val) =>
                  s!"{x.1} {hexTok x.2.1} {(embed c.m.structs c.ver root x.2.2).text}") (readRequest c bs)
                let ref := match Spec.parseRequest c.r.flexible rt bs with
                  | some (corr, cid, v) => s!"{corr} {hexTok cid} {(embed c.m.structs c.ver root v).text}"
                  | none => "err"
                -- a schema the tree nests where the reference is flat: the flat reference value has no tree shape; the
                -- wire-relevant direction (enc) carries the comparison for such messages
                let nested := match readRequest c bs with
                  | .ok x _ => nestsWhereFlat rt x.2.2
                  | _ => false
                answer model (nested || impl == ref)
              else
                let model := showRes (fun (x : Int × Val) =>
                  s!"{x.1} {(embed c.m.structs c.ver root x.2).text}") (readResponse cfg c.r.flexible c.r.ty bs)
                let ref := match Spec.parseResponse c.r.flexible rt bs with
                  | some (corr, v) => s!"{corr} {(embed c.m.structs c.ver root v).text}"
                  | none => "err"
                answer model (impl == ref)
          | _ => "bad-args"
        else if op == "connreq" || op == "connreqv" then
          -- a request captured from a real Conn method by the strictly framing fake broker
          -- (connreqv: first argument = the maximum version the broker advertised for this API)
          let adv : Option Int := if op == "connreqv" then (rest.head?.bind (·.toInt?)) else none
          let rest := if op == "connreqv" then rest.drop 1 else rest
          let verOk : Bool := match adv with | some a => decide (c.ver ≤ a) | none => true
          match rest with
          | cid :: pattern =>
            match ofHex cid, ofHex impl with
            | some cidB, some raw =>
              let (rt, _) := refTy c
              match Spec.parseRequest c.r.flexible rt raw with
              | none => answer "unparsable-under-the-announced-size" false
              | some (corr, cid', v) =>
                -- canonical + exact framing: re-encoding what was parsed must give back every captured byte
                let reenc1 := Spec.frameRequest c.r.flexible c.m.apiKey c.ver corr cid' (Spec.encode rt v)
                let reenc2 := Spec.frameRequest c.r.flexible c.m.apiKey c.ver corr cid' (Spec.encode (denullStr rt) v)
                let reenc := if reenc1 == raw then reenc1 else reenc2
                let toks := (embed c.m.structs c.ver root v).toTokens
                let okPat := toks.length == pattern.length &&
                  (toks.zip pattern).all fun (a, b) => b == "*" || a == b
                answer (toHex reenc) (reenc == raw && okPat && cid' == cidB && verOk)
            | _, _ => "bad-hex"
          | _ => "bad-args"
        else if op == "lens" then
          match rest with
          | [hex] =>
            match ofHex hex with
            | none => "bad-hex"
            | some bs =>
              -- response frame: size(4) corr(4) [flexible: header tag buffer] body
              let start := 8
              let hdr : Option (List LF × Nat) :=
                if c.m.isRequest then none
                else if c.r.flexible then
                  match Spec.pUvar (bs.drop start) with
                  | some (_, r) => let w := (bs.drop start).length - r.length
                    some ([⟨start, "uv", w, [0], none⟩], start + w)
                  | none => none
                else some ([], start)
              match hdr with
              | none => answer "-" true
              | some (hf, o) =>
                match walkTy bs c.r.ty o with
                | some (fs, _) =>
                  let all : List LF := ⟨0, "i32", 4, [], none⟩ :: (hf ++ fs)
                  answer (",".intercalate (all.map LF.show)) true
                | none => answer "-" true
          | _ => "bad-args"
        else if op == "mal" then
          match rest with
          | [hex] =>
            match ofHex hex with
            | none => "bad-hex"
            | some bs =>
              let out0 : String :=
                if c.m.isRequest then showRes (fun _ => "ok") (readRequest c bs)
                else showRes (fun _ => "ok") (readResponse cfgR c.r.flexible c.r.ty bs)
              let out1 := if out0 == "balloon" then "oom" else out0
              -- record sets are read by the detailed reader of Model/RecordScan.lean (`cfgR`): exact outcome class
              let out := out1
              -- monitor (C20): an error or a message, nothing else
              answer out (impl == "ok" || impl == "err")
          | _ => "bad-args"
        else "bad-op"
    | _ => "bad-op"
  | _ => "bad-line"

/-- `protocol.Marshal(version, value)` / `Unmarshal`: `encodeFuncOf(typ, version, flexible = false, …)` on a struct
type, i.e. the fields live in `version`, never flexible.  Marshal is a pure function of (type, version, value). -/
def marshalTy (j ver : String) : Option (RawMsg × Int × Ty) := do
  let idx ← j.toNat?
  let v ← ver.toInt?
  let m ← Gen.marshaled[idx]?
  let root ← findStruct m.structs m.root
  let ty ← resolveFields m.structs v false resolveFuel root.fields [] [] []
  pure (m, v, ty)

def stepMarshal (op j ver : String) (rest : List String) (impl : String) : String :=
  match marshalTy j ver with
  | none => "bad-case"
  | some (m, v, ty) =>
    let root : GoTy := .named m.root
    if op == "marshal" then
      match parseMsgText m rest with
      | none => "bad-args"
      | some g => match project m.structs v root g with
        | none => "bad-project"
        | some val => answer (hexTok (encode ty val)) (impl == hexTok (Spec.encode ty val))
    else
      match rest with
      | [hex] => match ofHex hex with
        | none => "bad-hex"
        | some bs =>
          -- Unmarshal: d.remain = len(data); dontExpectEOF(d.err); trailing bytes are left unread
          let model := showRes (fun (x : Val) => (embed m.structs v root x).text) (decode cfg ty ⟨bs, bs.length⟩)
          let ref := match Spec.parse ty bs with
            | some (x, _) => (embed m.structs v root x).text
            | none => "err"
          answer model (impl == ref)
      | _ => "bad-args"

/-- two response frames back to back on one connection: the first decode must consume exactly one frame -/
def stepPipe (pi ver hexes impl : String) : String :=
  match getCase (dropFirst pi) ver, hexes.splitOn "." with
  | some c, [h1, h2] =>
    match ofHex h1, ofHex h2 with
    | some b1, some b2 =>
      let r1 := readResponse cfgR c.r.flexible c.r.ty (b1 ++ b2)
      let model : String := match r1 with
        | .ok _ d =>
          (match readResponse cfgR c.r.flexible c.r.ty d.inp with
           | .ok (corr, _) _ =>
             let want : Int := match Spec.pInt 4 (b2.drop 4) with | some (v, _) => v | none => -1
             if corr == want then "ok,ok" else "ok,err"
           | .panic => "ok,panic" | _ => "ok,err")
        | .panic => "panic,-" | .balloon => "oom,-" | .error => "err,-"
      let model' := model
      answer model' (impl == "err,-" || impl == "ok,ok")
    | _, _ => "bad-hex"
  | _, _ => "bad-case"

/-- the Conn codec does not distinguish null from empty -/
partial def denullVal : Val → Val
  | .bytes none => .bytes (some [])
  | .arr none => .arr (some [])
  | .arr (some xs) => .arr (some (xs.map denullVal))
  | .struct vs tvs => .struct (vs.map denullVal) (tvs.map denullVal)
  | v => v

def unTok (s : String) : Option Bytes := if s == "-" then some [] else ofHex s

/-- `legread <i> <ver> <type> <body>	<remain> <rewritten>`: the hand-written response reader followed by the same
type's writer.  Model: decode the body under the GOLDEN response schema; the reader must leave 0 bytes and the
rewritten bytes must decode (entirely) to the same value up to null ~ empty. -/
def stepLegRead (i ver body impl : String) : String :=
  match getCase i ver, unTok body with
  | some c, some bs =>
    let g := (refTy c).1
    match decode cfg g ⟨bs, bs.length⟩ with
    | .ok v d =>
      if d.remain != 0 then answer "golden-decode-leaves-bytes" false else
      let want := encode (denullStr g) (denullVal v)
      let ok := match words impl with
        | [rem, out] =>
          rem == "0" &&
            (match unTok out with
             | some os =>
               (match decode cfg g ⟨os, os.length⟩ with
                | .ok v' d' => d'.remain == 0 && Val.beq (denullVal v) (denullVal v')
                | _ => false)
             | none => false)
        | _ => false
      answer (if ok then impl else s!"0 {hexTok want}") ok
    | _ => answer "golden-decode-fails" false
  | _, _ => "bad-case"


/-- the library's version range of an API: the range of its registered REQUEST type (protocol.go apiType.minVersion / maxVersion) -/
def libRange (m : RawMsg) : Option (Int × Int) :=
  match findStruct m.structs m.root >>= versionRange with
  | some (mn, mx, _) => some (mn, mx)
  | none => none

def libRangeOfKey (k : Nat) : Option (Int × Int) :=
  (Gen.schemas.find? fun m => m.apiKey == k && m.isRequest && !m.override).bind libRange

/-- monitor of the header-version clause: with a common version, the chosen one is inside both ranges (in particular not above
what the broker advertised) -/
def versionOk (cmin cmax bmin bmax r : Int) : Bool :=
  if cmin ≤ bmax ∧ bmin ≤ cmax then decide (bmin ≤ r ∧ r ≤ bmax ∧ cmin ≤ r ∧ r ≤ cmax) else true

/-- `selver <i> <bmin> <bmax> => <v>`: protocol.ApiKey(k).SelectVersion(bmin, bmax) vs Gen.Routing.selectVersionSrc -/
def stepSelVer (i bmin bmax impl : String) : String :=
  match i.toNat?, bmin.toInt?, bmax.toInt? with
  | some idx, some b0, some b1 =>
    match Gen.schemas[idx]? >>= libRange with
    | some (c0, c1) =>
      let r := KV.Gen.Routing.selectVersionSrc c0 c1 b0 b1
      answer (toString r) (impl == toString r && versionOk c0 c1 b0 b1 r)
    | none => "bad-case"
  | _, _, _ => "bad-args"

/-- `tver <api key> <advertised max> => <v,v,…>`: versions seen in request headers on the Transport path against a broker that
advertised [0, max] for the API -/
def stepTVer (key adv impl : String) : String :=
  match key.toNat?, adv.toInt? with
  | some k, some a =>
    match libRangeOfKey k with
    | some (c0, c1) =>
      let r := KV.Gen.Routing.selectVersionSrc c0 c1 0 a
      answer (toString r) (impl == toString r && versionOk c0 c1 0 a r)
    | none => "bad-case"
  | _, _ => "bad-args"


/-- struct fields whose tag says `compact` for versions at which the MESSAGE is not flexible (no tagged-field marker in its root
struct yet).  The codec never reads the `compact` option (compactness follows the message's flexibility), so such a tag has no
effect on the wire — it is misleading metadata; listed for the audit. -/
def flexFromOf (m : RawMsg) : Int :=
  match findStruct m.structs m.root >>= versionRange with
  | some (_, _, fl) => fl
  | none => -1

def compactOffenders (m : RawMsg) (s : RawStruct) (f : RawField) : List String :=
  let ff : Int := flexFromOf m
  match fieldAlts f with
  | some alts => alts.filterMap fun (a : STag) =>
      if a.compact && (decide (ff < 0) || decide (a.minV < ff)) then
        some s!"{m.pkg}.{s.name}.{f.name}:v{a.minV}-v{a.maxV}(flexible-from:{ff})" else none
  | none => []

def compactLint : List String :=
  Gen.schemas.flatMap fun m => m.structs.flatMap fun s => s.fields.flatMap fun f => compactOffenders m s f


/-- the payloads of the record sets of a value, in order -/
partial def recordPayloads : Val → List Bytes
  | .records (some p) => [p]
  | .arr (some xs) => xs.flatMap recordPayloads
  | .struct vs tvs => vs.flatMap recordPayloads ++ tvs.flatMap recordPayloads
  | _ => []

/-- `prodfmt <i> <ver> => <frame>`: a Produce request with RecordSet.Version left 0, as protocol.Conn.RoundTrip wrote it at
version `ver`.  The frame is parsed under the golden schema of that version; every record set in it must be in the format Kafka's
Produce request of that version carries (magic byte at offset 16: 0 or 1 below v3, 2 from v3 on); model = the magic that
`Prepare` picks according to the regenerated `Gen.Routing.produceRecordVersion`. -/
def stepProdFmt (i ver impl : String) : String :=
  match getCase i ver, ofHex impl with
  | some c, some raw =>
    let (rt, _) := refTy c
    match Spec.parseRequest c.r.flexible rt raw with
    | none => answer "unparsable-under-the-golden-schema" false
    | some (_, _, v) =>
      let magics := (recordPayloads v).map fun p => (p.getD 16 255).toNat
      let want : Nat := (KV.Gen.Routing.produceRecordVersion c.ver).toNat
      let kafkaOk := !magics.isEmpty && magics.all fun m => if c.ver < 3 then m == 0 || m == 1 else m == 2
      answer (if magics.all (· == want) && kafkaOk then impl else s!"record sets of magic {want}") (magics.all (· == want) && kafkaOk)
  | _, _ => "bad-case"

def step (line : String) : String :=
  match line.splitOn " => " with
  | [req, impl] =>
    match words req with
    | ["mal", pi, ver, hexes] => if pi.startsWith "P" then stepPipe pi ver hexes impl else stepMain line
    | ["legread", i, ver, _name, body] => stepLegRead i ver body impl
    | ["lint", "compact"] => answer (",".intercalate compactLint) true
    | ["selver", i, b0, b1] => stepSelVer i b0 b1 impl
    | ["prodfmt", i, ver] => stepProdFmt i ver impl
    | ["tver", k, a] => stepTVer k a impl
    | "marshal" :: j :: ver :: rest => stepMarshal "marshal" j ver rest impl
    | "unmarshal" :: j :: ver :: rest => stepMarshal "unmarshal" j ver rest impl
    | _ => stepMain line
  | _ => stepMain line

end KV.OracleC04

def main : IO Unit := KV.runOracle () (fun _ l => ((), KV.OracleC04.step l))
