/-
Oracle/ConnCommon.lean — shared by the C11 and C17 oracles: request parsing, frames, running one operation of the
model (Model/ConnOps.lean over the regenerated programs of Gen/ConnLegacy.lean).
-/
import KafkaVerif.Base.Proto
import KafkaVerif.Model.ConnSpecs

namespace KV.OracleConn
open KV KV.Reader KV.ConnOps

def be4 (n : Nat) : Bytes :=
  [UInt8.ofNat (n / 16777216 % 256), UInt8.ofNat (n / 65536 % 256), UInt8.ofNat (n / 256 % 256), UInt8.ofNat (n % 256)]

/-- size prefix + correlation id + body -/
def frame (id : Nat) (body : Bytes) : Bytes := be4 (body.length + 4) ++ be4 id ++ body

structure OpInst where
  name : String
  ver : Nat
  offset : Int
  hwm : Int
  body : Bytes

/-- `<name>:<ver>:<offset>:<hwm>` and the hex body -/
def parseInst (spec hex : String) : Option OpInst :=
  match spec.splitOn ":", ofHex hex with
  | [n, v, o, h], some b =>
    match v.toNat?, o.toInt?, h.toInt? with
    | some v, some o, some h => some ⟨n, v, o, h, b⟩
    | _, _, _ => none
  | _, _ => none

def showOutcome : Outcome → String
  | .ok => "ok"
  | .kafka c => s!"kafka:{c}"
  | .fail (.other "io.ErrNoProgress") => "fail:noprogress"
  | .fail _ => "fail"

/-- run one operation of the model on a connection -/
def runInst (topic : Bytes) (i : OpInst) (c : Conn) : Option (Outcome × Conn) :=
  if i.name == "fetch" then some (connFetch fetchFixed i.ver i.offset idealBody c)
  else (specOf i.name).map fun o => connDo o i.ver topic c

def isFailStr (s : String) : Bool := s.startsWith "fail"
def isDone (s : String) : Bool := s == "ok" || s.startsWith "kafka:" || s.startsWith "fail"

end KV.OracleConn
