/-
Oracle/ConnCommon.lean — shared by the C11 and C17 oracles: request parsing, frames, running one operation of the
model (Model/ConnOps.lean over the regenerated programs of Gen/ConnLegacy.lean).
-/
import KafkaVerif.Base.Proto
import KafkaVerif.Model.ConnSpecs
import KafkaVerif.Model.ConnVersions
import KafkaVerif.Spec.ConnFrames

namespace KV.OracleConn
open KV KV.Reader KV.ConnOps

def be4 (n : Nat) : Bytes :=
  [UInt8.ofNat (n / 16777216 % 256), UInt8.ofNat (n / 65536 % 256), UInt8.ofNat (n / 256 % 256), UInt8.ofNat (n % 256)]

/-- size prefix + correlation id + body -/
def frame (id : Nat) (body : Bytes) : Bytes := be4 (body.length + 4) ++ be4 id ++ body

structure OpInst where
  name : String
  ver : Nat
  offset : Int
  hwm : Int
  body : Bytes

/-- `<name>:<ver>:<offset>:<hwm>` and the hex body -/
def parseInst (spec hex : String) : Option OpInst :=
  match spec.splitOn ":", ofHex hex with
  | [n, v, o, h], some b =>
    match v.toNat?, o.toInt?, h.toInt? with
    | some v, some o, some h => some ⟨n, v, o, h, b⟩
    | _, _, _ => none
  | [n, v, o, h, _readN], some b =>     -- fetch read only in part, then closed: same exchange for the model (any conserving reader)
    match v.toNat?, o.toInt?, h.toInt? with
    | some v, some o, some h => some ⟨n, v, o, h, b⟩
    | _, _, _ => none
  | _, _ => none

def showOutcome : Outcome → String
  | .fail (.other "blocked forever in rlock.Lock()") => "hang"
  | .ok => "ok"
  | .kafka c => s!"kafka:{c}"
  | .fail (.other "io.ErrNoProgress") => "fail:noprogress"
  | .fail _ => "fail"

/-- run one operation of the model on a connection with its read lock (lock discipline = regenerated facts);
`inflight`: the request was written before an earlier caller's failure closed the Conn -/
def runInstL (inflight : Bool) (topic : Bytes) (i : OpInst) (cl : Conn × Bool) : Option (Outcome × (Conn × Bool)) :=
  if i.name == "fetch" then some (connFetchL Gen.ConnLegacy.lockFacts fetchFixed i.ver i.offset headerBody cl)
  else (specOf i.name).map fun o => connDoL Gen.ConnLegacy.lockFacts inflight o i.ver topic cl

def runInst (topic : Bytes) (i : OpInst) (c : Conn) : Option (Outcome × Conn) :=
  (runInstL false topic i (c, false)).map fun r => (r.1, r.2.1)

/-- REFERENCE-side judgement of one result on a fully delivered frame (Spec/ConnFrames.lean only, no model):
`none` = the body is not an encoding of the Kafka layout (a harness error, not a property failure);
`some b` = the frame is well-formed and the result `res` is / is not acceptable for it:
  * a well-formed frame never yields a non-kafka failure — except the fetch corner "no error code, record set empty or
    shorter than one message / batch header, high watermark ≠ fetch offset", which the Conn answers with
    io.ErrUnexpectedEOF (documented, not part of C11);
  * a reported kafka error code is one of the codes present in the frame's error fields (fetch at the watermark
    without records: RequestTimedOut = 7);
  * a frame whose error fields are all 0 never yields a kafka error (same fetch exception). -/
def specJudge (i : OpInst) (res : String) : Option Bool :=
  match Spec.ConnFrames.parse i.name i.ver i.body with
  | none => none
  | some c =>
    let errs := c.errs
    let isFetch := i.name == "fetch"
    let setLen : Int := match c.evs with | .int n :: _ => n | _ => 0
    let noErr := errs.all (· == 0)
    -- "empty" includes a set too short for one message / batch header (message_reader.go readHeader: errShortRead)
    let setBytes := i.body.drop (i.body.length - setLen.toNat)
    let need : Int := if setLen < 17 then 17 else headerNeed (setBytes.getD 16 0)
    let emptyBelow := isFetch && noErr && setLen < need && c.hwm != i.offset
    -- a set whose first entry carries an unknown magic byte is not an encoding of anything
    if isFetch && setLen ≥ 17 && setBytes.getD 16 0 > 2 then none else
    let atWatermark := isFetch && noErr && c.hwm == i.offset
    if res.startsWith "fail" then some emptyBelow
    else if res == "ok" then some (!emptyBelow)
    else if res.startsWith "kafka:" then
      match (res.drop 6).toString.toInt? with
      | some k => some ((k != 0 && errs.contains k) || (atWatermark && k == 7))
      | none => some false
    else some false

def isFailStr (s : String) : Bool := s.startsWith "fail"
def isDone (s : String) : Bool := s == "ok" || s.startsWith "kafka:" || s.startsWith "fail"

end KV.OracleConn
