/-
Oracle/C13.lean — line-protocol oracle for property C13 (core only; compiled to `oracle_c13`).
Request:  `<op> <args…> => <implementation output>`
Answer:   `model=<model output> holds=<0|1>`
`model` is computed by Model/Balancer.lean with the constants extracted from balancer.go;
`holds` is the property monitor evaluated on the *implementation's* output, computed from
Spec/Partitioners.lean only (independent of the model).
-/
import KafkaVerif.Base.Proto
import KafkaVerif.Model.Balancer
import KafkaVerif.Spec.Partitioners
import KafkaVerif.Gen.BalancerConsts

namespace KV.OracleC13
open KV KV.Balancer

def parseKey (s : String) : Option (Option Bytes) :=
  if s == "nil" then some none else (ofHex s).map some

def parseInts (s : String) : Option (List Int) :=
  if s == "-" then some [] else (s.splitOn ",").mapM (·.toInt?)

def parseNats (s : String) : Option (List Nat) :=
  if s == "-" then some [] else (s.splitOn ",").mapM (·.toNat?)

def showOpt : Option Int → String
  | none => "panic"
  | some i => toString i

def showList (l : List (Option Int)) : String :=
  if l.isEmpty then "-" else ",".intercalate (l.map showOpt)

def iota (n : Nat) : List Int := (List.range n).map Int.ofNat

def allIn (xs : List Int) (parts : List Int) : Bool := xs.all (fun x => parts.contains x)

/-- counts of each partition of `parts` in `xs` -/
def countsOf (parts : List Int) (xs : List (Option Int)) : String :=
  ",".intercalate (parts.map (fun p => toString ((xs.filter (· == some p)).length)))

def lbRun (lb : LeastBytes) (parts : List Int) : List Nat → List (Option Int)
  | [] => []
  | s :: ss => let (lb', r) := lb.balance s parts; r :: lbRun lb' parts ss

/-- monitor for LeastBytes: replay the implementation's answers, each must be an offered partition with
minimal routed bytes so far -/
def lbHolds (parts : List Int) : List Nat → List Int → List (Int × Nat) → Bool
  | [], [], _ => true
  | s :: ss, r :: rs, routed =>
    let tot (p : Int) : Nat := (routed.filter (·.1 == p)).foldl (fun a x => a + x.2) 0
    parts.contains r && parts.all (fun q => tot r ≤ tot q) && lbHolds parts ss rs ((r, s) :: routed)
  | _, _, _ => false

/-- monitor for RoundRobin on a fresh balancer: runs of `chunk` equal answers cycling through parts in order -/
def rrHolds (chunk : Nat) (parts : List Int) (rs : List Int) : Bool :=
  parts.length > 0 && chunk > 0 &&
  (rs.zipIdx.all fun (r, j) => parts[(j / chunk) % parts.length]? == some r)

def answer (model : String) (holds : Bool) : String :=
  s!"model={model} holds={if holds then 1 else 0}"

def step (line : String) : String :=
  match line.splitOn " => " with
  | [req, impl] =>
    let c := Gen.balancerConsts
    match words req with
    | ["murmur2", k] =>
      match ofHex k with
      | some b => answer (toString (murmur2Go c b).toNat) (impl == toString (Spec.murmur2 b).toNat)
      | none => "bad-op"
    | ["fnv1a", k] =>
      match ofHex k with
      | some b => answer (toString (fnv1a32 b).toNat) (impl == toString (fnv1a32 b).toNat)
      | none => "bad-op"
    | ["crc32", k] =>
      match ofHex k with
      | some b => answer (toString (crc32IEEE b).toNat) (impl == toString (crc32IEEE b).toNat)
      | none => "bad-op"
    | ["hash", k, n, calls] =>
      match parseKey k, n.toNat?, calls.toNat? with
      | some key, some n, some calls =>
        let parts := iota n
        match key with
        | none =>
          let rs := (RoundRobin.run (RoundRobin.fresh 0) parts calls).2
          answer (showList rs) (match parseInts impl with | some xs => rrHolds 1 parts xs | none => false)
        | some kb =>
          let r := (hashBalance (RoundRobin.fresh 0) key parts).2
          let want := Spec.saramaHash (fnv1a32 kb).toNat n
          answer (showList (List.replicate calls r))
            (match parseInts impl with | some xs => xs.all (· == want) && allIn xs parts | none => false)
      | _, _, _ => "bad-op"
    | ["refhash", k, n, calls] =>
      match parseKey k, n.toNat?, calls.toNat? with
      | some key, some n, some calls =>
        let parts := iota n
        match key with
        | none =>
          if n ≥ 2 then answer "random" (impl == "random")
          else answer (showList (List.replicate calls (randomBalance 0 parts))) (impl == showList (List.replicate calls (some 0)))
        | some kb =>
          let r := refHashBalance Gen.refHashMask 0 key parts
          let want : Int := Int.ofNat (Spec.saramaRefHash (fnv1a32 kb).toNat n)
          answer (showList (List.replicate calls r))
            (match parseInts impl with | some xs => xs.all (· == want) && allIn xs parts | none => false)
      | _, _, _ => "bad-op"
    | ["hashseq", n, ks] =>
      -- one Hash{Hasher: fnv.New32a()} value, successive calls with the listed keys (state carried by the Go object)
      match n.toNat?, (ks.splitOn ",").mapM ofHex with
      | some n, some keys =>
        let rs := keys.map fun k => some (hashBalanceWith fnvHasher fnvOffset k n).2
        let want := keys.map fun k => some (Spec.saramaHash (fnv1a32 k).toNat n)
        answer (showList rs) (impl == showList want)
      | _, _ => "bad-op"
    | ["refhashseq", n, ks] =>
      match n.toNat?, (ks.splitOn ",").mapM ofHex with
      | some n, some keys =>
        let rs := keys.map fun k => some (refHashBalanceWith fnvHasher Gen.refHashMask fnvOffset k n).2
        let want : List (Option Int) := keys.map fun k => some (Int.ofNat (Spec.saramaRefHash (fnv1a32 k).toNat n))
        answer (showList rs) (impl == showList want)
      | _, _ => "bad-op"
    | ["hashsum", sum, n] =>
      -- stub Hasher returning a chosen Sum32: the arithmetic for every 32-bit hash code
      match sum.toNat?, n.toNat? with
      | some sum, some n =>
        let r := hashIndex (UInt32.ofNat sum) n
        let want := Spec.saramaHash sum n
        answer (toString r) (impl == toString want && 0 ≤ want && want < n)
      | _, _ => "bad-op"
    | ["refhashsum", sum, n] =>
      match sum.toNat?, n.toNat? with
      | some sum, some n =>
        let r := refHashIndex Gen.refHashMask (UInt32.ofNat sum) n
        let want : Int := Int.ofNat (Spec.saramaRefHash sum n)
        answer (toString r) (impl == toString want)
      | _, _ => "bad-op"
    | ["crc32b", cons, k, ps, calls] =>
      match parseKey k, parseInts ps, calls.toNat? with
      | some key, some parts, some calls =>
        let consistent := cons == "1"
        let isRandom := keyLen key = 0 && !consistent
        if isRandom && parts.length ≥ 2 then answer "random" (impl == "random")
        else
          let r := crc32Balance consistent 0 key parts
          let want : Option Int := parts[Spec.rdkafkaConsistent (crc32IEEE (keyBytes key)).toNat parts.length]?
          answer (showList (List.replicate calls r)) (impl == showList (List.replicate calls want))
      | _, _, _ => "bad-op"
    | ["murmur2b", cons, k, ps, calls] =>
      match parseKey k, parseInts ps, calls.toNat? with
      | some key, some parts, some calls =>
        let consistent := cons == "1"
        let isRandom := key.isNone && !consistent
        if isRandom && parts.length ≥ 2 then answer "random" (impl == "random")
        else
          let r := murmur2Balance c consistent 0 key parts
          let want : Option Int := parts[Spec.javaPartition (Spec.murmur2 (keyBytes key)).toNat parts.length]?
          answer (showList (List.replicate calls r)) (impl == showList (List.replicate calls want))
      | _, _, _ => "bad-op"
    | ["rr", chunk, start, ps, calls] =>
      match chunk.toInt?, start.toNat?, parseInts ps, calls.toNat? with
      | some chunk, some start, some parts, some calls =>
        -- the balancer was placed where `start` calls with this list leave it (test hook)
        let rs := (RoundRobin.run (RoundRobin.placed chunk start parts.length) parts calls).2
        let ch := if chunk < 1 then 1 else chunk.toNat
        -- the property: runs of ChunkSize, cycling in order, for every call number (also across 2^32, 2^63, 2^64)
        let holds := match parseInts impl with
          | some xs => xs.length == calls && parts.length > 0 &&
              (xs.zipIdx.all fun (r, j) => parts[((start + j) / ch) % parts.length]? == some r)
          | none => false
        answer (showList rs) holds
      | _, _, _, _ => "bad-op"
    | ["rrvar", chunk, ns] =>
      -- the partition list changes from call to call: call j is offered [0..n_j)
      match chunk.toInt?, parseNats ns with
      | some chunk, some ns =>
        let rs := (RoundRobin.fresh chunk).runVar (ns.map iota)
        -- the property: every answer is one of the partitions offered to THAT call (and nothing panics)
        let holds := match parseInts impl with
          | some xs => xs.length == ns.length &&
              -- one of the partitions offered to THAT call, and the one the global call number designates (a balancer
              -- shared by lists of different lengths keeps moving over all partitions of each)
              ((xs.zip ns).zipIdx.all fun ((x, n), j) => 0 ≤ x && x < (n : Int) && x == Int.ofNat ((j / (if chunk < 1 then 1 else chunk.toNat)) % n))
          | none => false
        answer (showList rs) holds
      | _, _ => "bad-op"
    | ["lb", ps, szs] =>
      match parseInts ps, parseNats szs with
      | some parts, some sizes =>
        let rs := lbRun ⟨[]⟩ parts sizes
        answer (showList rs) (match parseInts impl with | some xs => lbHolds parts sizes xs [] | none => false)
      | _, _ => "bad-op"
    | ["cached", n] =>
      match n.toNat? with
      | some n => answer (if (loadCachedPartitions none n).2 == iota n then "iota" else "other") (impl == "iota")
      | none => "bad-op"
    | ["rrconc", chunk, n, total] =>
      -- concurrent callers: the multiset of answers must be that of `total` sequential calls
      match chunk.toInt?, n.toNat?, total.toNat? with
      | some chunk, some n, some total =>
        let parts := iota n
        let m := countsOf parts (RoundRobin.run (RoundRobin.fresh chunk) parts total).2
        answer m (impl == m)
      | _, _, _ => "bad-op"
    | ["lbconc", n, total, sz] =>
      match n.toNat?, total.toNat?, sz.toNat? with
      | some n, some total, some sz =>
        let parts := iota n
        let m := countsOf parts (lbRun ⟨[]⟩ parts (List.replicate total sz))
        answer m (impl == m)
      | _, _, _ => "bad-op"
    | ["hashconc", _variant, _n, _g, _per] =>
      -- concurrent callers sharing one key-hashing balancer: the balancers are pure functions of key and count, so every
      -- answer equals the sequential one (Props/C13 §10: the hasher is used exclusively)
      answer "mismatch=0 panics=0" (impl == "mismatch=0 panics=0")
    | ["woffer", bal, k, found, code, n, decoy] =>
      match ofHex k, found.toNat?, code.toInt?, n.toNat?, decoy.toNat? with
      | some kb, some found, some code, some n, some decoy =>
        let resp : List MetaTopic := (if decoy == 1 then [⟨"decoy", 0, 7⟩] else []) ++ (if found == 1 then [⟨"t", code, n⟩] else [])
        let na := bal == "default"
        let offS (l : Option (List Int)) : String := if na then "n/a" else match l with
          | none => "-"
          | some l => if l.isEmpty then "-" else ",".intercalate (l.map toString)
        -- the model's answer
        let m : String := match writerOffer none resp "t" with
          | .error e => s!"err:{e} offered={offS none}"
          | .ok l =>
            let r : Option Int := match bal with
              | "rr" | "default" => ((RoundRobin.fresh 0).balance l).2
              | "lb" => ((⟨[]⟩ : LeastBytes).balance (kb.length + 1) l).2
              | "hash" => (hashBalance (RoundRobin.fresh 0) (some kb) l).2
              | "refhash" => refHashBalance Gen.refHashMask 0 (some kb) l
              | "crc32" => crc32Balance false 0 (some kb) l
              | "murmur2" => murmur2Balance c false 0 (some kb) l
              | _ => none
            match r with
            | some p => s!"part:{p} offered={offS (some l)}"
            | none => s!"panic offered={offS (some l)}"
        -- the property, from Spec only: an error code of the topic's entry (or 3 when it is missing) is returned and no
        -- list is offered; otherwise [0..n) is offered and the message lands on the reference partition
        let want : String :=
          if found != 1 then s!"err:3 offered={offS none}"
          else if code != 0 then s!"err:{code} offered={offS none}"
          else
            let p : Int := match bal with
              | "hash" => Spec.saramaHash (fnv1a32 kb).toNat n
              | "refhash" => Int.ofNat (Spec.saramaRefHash (fnv1a32 kb).toNat n)
              | "crc32" => Int.ofNat (Spec.rdkafkaConsistent (crc32IEEE kb).toNat n)
              | "murmur2" => Int.ofNat (Spec.javaPartition (Spec.murmur2 kb).toNat n)
              | _ => 0
            s!"part:{p} offered={offS (some (iota n))}"
        answer m (impl == want && (code != 0 || found != 1 || n > 0))
      | _, _, _, _, _ => "bad-op"
    | _ => "bad-op"
  | _ => "bad-op"

end KV.OracleC13

def main : IO Unit := KV.runOracle () (fun _ l => ((), KV.OracleC13.step l))
