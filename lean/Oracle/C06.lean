/-
Oracle/C06.lean — line-protocol oracle for property C06 (core only; compiled to `oracle_c06`).

  mux <stream> <events> <tags> <tags without payload> => <results>
      stream  = frames the fake broker sent on the Conn, in order: id:tag,…
      events  = the recorded C.* hook events: W<tag>:<ok>:<id> T<seq> Y<seq>:<seen> L<seq>:<seen> E<seq> F<seq>:<ok|kafka|io> K (Conn.Close)
      tags    = the tags of the API calls the harness made (tag 0 = internal ApiVersions exchanges)
      model   = trace acceptance through Model/ConnMux.step (`reject@i:<event>` names the first event the model
                cannot take), then for every tag the result the model's final state gives that call
      holds   = tag-equality monitor on the IMPLEMENTATION's results (every `tag:ok:x` has x = tag) ∧
                Spec.Mux.idsUnique on the recorded events (no C.Write reuses the id of a call still in flight)
  tconn <journals> <events> <tags> => <results>     the same for Model/TransportConn
-/
import KafkaVerif.Base.Proto
import KafkaVerif.Model.ConnMux
import KafkaVerif.Model.TransportConn
import KafkaVerif.Spec.MuxMonitor
import KafkaVerif.Model.BatchBytes
import KafkaVerif.Model.ConnDeadline
import KafkaVerif.Model.PoolDiscover

namespace KV.OracleC06
open KV

def commaList (s : String) : List String := if s == "-" then [] else s.splitOn ","

def answer (model : String) (holds : Bool) : String :=
  s!"model={model} holds={if holds then 1 else 0}"

/-- tag-equality monitor over `tag:ok:x | tag:kafka | tag:err` -/
def tagsHold (results : String) : Bool :=
  (commaList results).all fun r =>
    match r.splitOn ":" with
    | [_, "ok", "?"] => true     -- the call completed without a payload to compare (empty Batch)
    | [t, "ok", x] => t == x
    | [_, "kafka"] => true
    | [_, "err"] => true
    | _ => false

namespace Mux
open KV.ConnMux

def parseFrame (s : String) : Option Frame :=
  match s.splitOn ":" with
  | [i, t] => do let i ← i.toNat?; let t ← t.toNat?; pure ⟨i, t⟩
  | _ => none

def parseEvent (s : String) : Option Event :=
  let k := (s.take 1).toString
  let rest := (s.drop 1).toString.splitOn ":"
  match k, rest with
  | "W", [t, ok, id] => do let t ← t.toNat?; let id ← id.toNat?; pure (.write t (ok == "1") id)
  | "T", [q] => q.toNat?.map .take
  | "Y", [q, n] => do let q ← q.toNat?; let n ← n.toNat?; pure (.yield q n)
  | "L", [q, n] => do let q ← q.toNat?; let n ← n.toNat?; pure (.lone q n)
  | "E", [q] => q.toNat?.map .peekErr
  | "F", [q, "ok"] => q.toNat?.map (.finish · .ok)
  | "F", [q, "kafka"] => q.toNat?.map (.finish · .kafka)
  | "F", [q, "io"] => q.toNat?.map (.finish · .io)
  | "K", _ => some .close
  | _, _ => none

/-- the same events as the reference monitor reads them -/
def specEv : Event → KV.Spec.Mux.Ev
  | .write _ ok id => .wrote id ok
  | .finish seq _ => .ended (wire seq)
  | .peekErr seq => .ended (wire seq)
  | .lone seq _ => .ended (wire seq)
  | _ => .other

/-- the events as the second reference monitor reads them: who is waiting in waitResponse -/
def waitEv : Event → KV.Spec.Mux.WEv
  | .write _ ok id => .wrote id ok
  | .take seq => .left (wire seq)
  | .peekErr seq => .left (wire seq)
  | .lone seq _ => .noProgress (wire seq)
  | _ => .other

def showResult (tag : Nat) : Status → String
  | .done (.resp _ f) => s!"{tag}:ok:{f.tag}"
  | .done (.kafkaErr _ _) => s!"{tag}:kafka"
  | .done .err => s!"{tag}:err"
  | _ => s!"{tag}:pending"

def resultOf (calls : List (Nat × Call)) (noPayload : List Nat) (tag : Nat) : String :=
  match calls.find? (·.2.tag == tag) with
  | some (_, c) =>
    match c.st with
    | .done (.resp _ _) => if noPayload.contains tag then s!"{tag}:ok:?" else showResult tag c.st
    | _ => showResult tag c.st
  | none => s!"{tag}:err"      -- the call never issued its own request (its ApiVersions exchange failed first)

def handle (stream events tags noPayload impl : String) : String :=
  let op : List Nat := ((commaList noPayload).mapM (fun (x : String) => x.toNat?)).getD []
  match (commaList stream).mapM parseFrame, (commaList events).mapM parseEvent, (commaList tags).mapM (·.toNat?) with
  | some fs, some es, some ts =>
    let model := match run fs es with
      | some s => let cl := s.callList; let l := ts.map (resultOf cl op); if l.isEmpty then "-" else ",".intercalate l
      | none => match firstRejected (init fs) es 0 with
        | some i => s!"reject@{i}:{(commaList events).getD i "?"}"
        | none => "reject"
    -- monitors on what the implementation did: payload tags at the API, and no in-flight id reused on the wire
    answer model (tagsHold impl && KV.Spec.Mux.idsUnique (es.map specEv) && KV.Spec.Mux.noProgressOnlyAlone (es.map waitEv))
  | _, _, _ => "bad-op"

end Mux

namespace TConn
open KV.TransportConn

def parseFrames (s : String) : Option (List KV.ConnMux.Frame) :=
  if s == "" then some [] else (s.splitOn ";").mapM Mux.parseFrame

/-- `cid=frames|cid=frames` -/
def parseJournals (s : String) : Option (List (Nat × List KV.ConnMux.Frame)) :=
  if s == "-" then some [] else
  (s.splitOn "|").mapM fun j =>
    match j.splitOn "=" with
    | [c, fs] => do let c ← c.toNat?; let fs ← parseFrames fs; pure (c, fs)
    | _ => none

def parseEvent (js : List (Nat × List KV.ConnMux.Frame)) (s : String) : Option Event :=
  let k := (s.take 1).toString
  let rest := (s.drop 1).toString.splitOn ":"
  match k, rest with
  | "N", [c, g, n0] => do
    let c ← c.toNat?; let g ← g.toNat?; let n0 ← n0.toNat?
    pure (.new c g n0 ((js.lookup c).getD []))
  | "G", [c] => c.toNat?.map .grab
  | "R", [c, t] => do let c ← c.toNat?; let t ← t.toNat?; pure (.recv c t)
  | "D", [c, "ok"] => c.toNat?.map (.done · .ok)
  | "D", [c, "keep"] => c.toNat?.map (.done · .errKeep)
  | "D", [c, "err"] => c.toNat?.map (.done · .err)
  | "L", [c, a] => do let c ← c.toNat?; pure (.release c (a == "1"))
  | "X", [c] => c.toNat?.map .exit
  | "M", [c] => c.toNat?.map .remove
  | "C", [g] => g.toNat?.map .closeIdle
  | "A", [t] => t.toNat?.map .abandon
  | _, _ => none

def resultOf (s : State) (tag : Nat) : String :=
  if s.abandoned.contains tag then s!"{tag}:err"
  else match s.delivered.find? (·.tag == tag) with
    | some d => s!"{tag}:ok:{d.frame.tag}"
    | none => s!"{tag}:err"

def handle (journals events tags impl : String) : String :=
  match parseJournals journals with
  | none => "bad-op"
  | some js =>
    match (commaList events).mapM (parseEvent js), (commaList tags).mapM (·.toNat?) with
    | some es, some ts =>
      let model := match run es with
        | some s => let l := ts.map (resultOf s); if l.isEmpty then "-" else ",".intercalate l
        | none => match firstRejected init es 0 with
          | some i => s!"reject@{i}:{(commaList events).getD i "?"}"
          | none => "reject"
      answer model (tagsHold impl)
    | _, _ => "bad-op"

end TConn

namespace BB
open KV.Reader KV.BatchBytes

def showErr : BErr → String
  | .eof => "eof"
  | .shortBuffer => "short"
  | .unexpectedEOF => "ueof"
  | .kafka c => s!"k{c}"
  | .other => "other"

def hexOrDash (b : Bytes) : String := if b.isEmpty then "-" else toHex b

def showRes : OpRes → String
  | .msg off k v => s!"m:{off}:{hexOrDash k}:{hexOrDash v}"
  | .data n c short => s!"d:{n}:{hexOrDash c}:{if short then 1 else 0}"
  | .fail e => s!"e:{showErr e}"

def parseOp (s : String) : Option Op :=
  if s == "rm" then some .readMessage
  else if s.startsWith "rd" then (s.drop 2).toString.toNat?.map .read
  else none

/-- `bb <ver> <offset> <declared size> <stream hex> <ops> => <results>;<close>;<kept>;<consumed>`
model = Model/BatchBytes.fetchBatch on the same bytes; holds = a kept conn consumed exactly the declared frame -/
def handle (ver offset declared stream ops impl : String) : String :=
  match ver.toNat?, offset.toInt?, declared.toNat?, ofHex stream, (commaList ops).mapM parseOp with
  | some v, some off, some sz, some inp, some os =>
    let r := fetchBatch false v off 100000 os ⟨inp, sz⟩
    -- `Batch.Read` returns (0, io.ErrShortBuffer) once that error is sticky: the driver cannot tell it from a short read
    let shown := (os.zip r.results).map fun (o, x) =>
      match o, x with
      | .read _, .fail .shortBuffer => "d:0:-:1"
      | _, x => showRes x
    let res := if shown.isEmpty then "-" else ",".intercalate shown
    let ce := match r.closeErr with | none => "nil" | some e => showErr e
    let consumed : Int := if r.kept then (inp.length - r.rs.inp.length : Nat) else -1
    let model := s!"{res};{ce};{if r.kept then 1 else 0};{consumed}"
    let holds := match impl.splitOn ";" with
      | [_, _, kept, consumed] => kept != "1" || consumed == toString sz || inp.length < sz
      | _ => false
    answer model holds
  | _, _, _, _, _ => "bad-op"

end BB

namespace DL
open KV.ConnDeadline

/-- `A<o>` attach, `R` release (with the detach the discipline demands), `S<o><t>` SetRead/WriteDeadline -/
def parseEv (w : String) : Option Event :=
  let obj : Char → Option Obj := fun c => if c == 'r' then some .r else if c == 'w' then some .w else none
  match w.toList with
  | ['R'] => some (.release true)
  | 'A' :: c :: [] => (obj c).map .attach
  | 'S' :: c :: t => match obj c, (String.ofList t).toNat? with
    | some o, some n => some (.set o n)
    | _, _ => none
  | _ => none

/-- the script ends with a read in progress: what governs it, by the model, is the socket's read deadline -/
def handle (script impl : String) : String :=
  match (commaList script).mapM parseEv with
  | none => "bad-op"
  | some es =>
    match run es with
    | none => "model=reject holds=0"
    | some s =>
      let model := match s.holder with
        | some _ => if s.sock == 0 then "ok" else "timeout"
        | none => "idle"
      -- monitor: a read whose own deadline object says "none" is not ended by a deadline
      answer model (impl == "ok")
end DL

def step (line : String) : String :=
  match line.splitOn " => " with
  | [req, impl] =>
    match words req with
    | ["mux", stream, events, tags, noPayload] => Mux.handle stream events tags noPayload impl
    | ["tconn", journals, events, tags] => TConn.handle journals events tags impl
    | ["bb", ver, offset, declared, stream, ops] => BB.handle ver offset declared stream ops impl
    | ["dl", _, script] => DL.handle script impl
    | ["f0", _, tag] =>
      -- a Fetch whose record set ends with a cut-off tail, then a tagged request on the same pooled connection: the
      -- fetch frame is consumed whole (`done ok` removes a frame), so the next frame is the next request's
      match tag.toNat? with
      | none => "bad-op"
      | some t =>
        match TransportConn.run [.new 1 1 1 [⟨2, 0⟩, ⟨3, t⟩], .recv 1 0, .done 1 .ok, .release 1 true, .grab 1, .recv 1 t, .done 1 .ok] with
        | none => "model=reject holds=0"
        | some s =>
          let qres := match s.delivered.find? (·.tag == t) with
            | some d => s!"ok:{d.frame.tag}"
            | none => "err"
          -- the broker is truthful and the exchange legal: the two whole batches (2 records) are delivered and the next
          -- request gets its own answer
          answer s!"F:ok:2,Q:{qres}" (impl == s!"F:ok:2,Q:ok:{t}")
    | ["a0", kind, tag] =>
      -- a request without response (produce, RequiredAcks = 0), then a tagged request to the same broker, as
      -- Model/TransportConn sees them: written whole → `done errKeep` (nothing is due, the conn is kept and serves the next
      -- request); write failed → `done err`, the conn leaves, the next request gets a fresh one
      match tag.toNat? with
      | none => "bad-op"
      | some t =>
        let q : KV.ConnMux.Frame := ⟨2, t⟩
        let es : List TransportConn.Event :=
          if kind == "whole" then [.new 1 1 1 [⟨3, t⟩], .recv 1 0, .done 1 .errKeep, .release 1 true, .grab 1, .recv 1 t, .done 1 .ok]
          else [.new 1 1 1 [], .recv 1 0, .done 1 .err, .exit 1, .new 2 1 1 [q], .recv 2 t, .done 2 .ok]
        match TransportConn.run es with
        | none => "model=reject holds=0"
        | some s =>
          let qres := match s.delivered.find? (·.tag == t) with
            | some d => s!"ok:{d.frame.tag}"
            | none => "err"
          let model := (if kind == "whole" then "P:sent:1" else "P:err") ++ ",Q:" ++ qres
          -- monitor: a call reported as completed was received whole by the broker, and the answer is the one to the request
          let holds := match impl.splitOn "," with
            | [p, qq] => p != "P:sent:0" && (!qq.startsWith "Q:ok:" || qq == s!"Q:ok:{t}")
            | _ => false
          answer model holds
    | ["disc", _, _, script] =>
      -- the refresh loop as Model/PoolDiscover reads it: every refresh applies the outcome of its own request
      let ev : String → Option PoolDiscover.Event := fun w =>
        match w.toList with
        | ['S'] => some .start
        | ['T'] => some .take
        | ['X'] => some .timeout
        | 'C' :: rest => match (String.ofList rest).splitOn ":" with
          | [j, ok] => j.toNat?.map (fun j => .complete j (ok == "1"))
          | _ => none
        | _ => none
      match (commaList script).mapM ev with
      | none => "bad-op"
      | some es =>
        match PoolDiscover.run true es with
        | none => "model=reject holds=0"
        | some s => answer (if s.applied.all (fun (k, r) => r.req == k) then "fresh" else "stale") (impl == "fresh")
    | ["lv", _, _] =>
      -- two waiters, one frame for neither: in Model/ConnMux the only way out is `peekErr` (a deadline); with deadlines
      -- set both calls end with an error
      match ConnMux.run [⟨0x7000000, 0⟩] [.write 1 true 1, .write 2 true 2, .yield 1 0x7000000, .yield 2 0x7000000, .peekErr 1, .peekErr 2] with
      | some s => answer (if (s.callList.all fun (_, c) => c.st == .done .err) then "returned:2/2" else "model?") (impl == "returned:2/2")
      | none => "model=reject holds=0"
    | ["bbc", _, _, declared, stream, _] =>
      -- paths without a result-level model (record batches, compression): only the conclusion of
      -- `wire_discipline_consumes_frame` is applied to what was observed — a kept Conn consumed the declared frame
      match declared.toNat?, ofHex stream, impl.splitOn ";" with
      | some sz, some inp, [kept, consumed] => answer impl (kept != "1" || consumed == toString sz || inp.length < sz)
      | _, _, _ => "bad-op"
    | _ => "bad-op"
  | _ => "bad-op"

end KV.OracleC06

def main : IO Unit := KV.runOracle () (fun _ l => ((), KV.OracleC06.step l))
