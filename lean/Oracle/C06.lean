/-
Oracle/C06.lean — line-protocol oracle for property C06 (core only; compiled to `oracle_c06`).

  mux <stream> <events> <tags> => <results>
      stream  = frames the fake broker sent on the Conn, in order: id:tag,…
      events  = the recorded C.* hook events: W<tag>:<ok> T<seq> Y<seq>:<seen> L<seq>:<seen> E<seq> F<seq>:<ok|kafka|io>
      tags    = the tags of the API calls the harness made (tag 0 = internal ApiVersions exchanges)
      model   = trace acceptance through Model/ConnMux.step (`reject@i:<event>` names the first event the model
                cannot take), then for every tag the result the model's final state gives that call
      holds   = tag-equality monitor on the IMPLEMENTATION's results: every `tag:ok:x` has x = tag
  tconn <journals> <events> <tags> => <results>     the same for Model/TransportConn
-/
import KafkaVerif.Base.Proto
import KafkaVerif.Model.ConnMux
import KafkaVerif.Model.TransportConn

namespace KV.OracleC06
open KV

def commaList (s : String) : List String := if s == "-" then [] else s.splitOn ","

def answer (model : String) (holds : Bool) : String :=
  s!"model={model} holds={if holds then 1 else 0}"

/-- tag-equality monitor over `tag:ok:x | tag:kafka | tag:err` -/
def tagsHold (results : String) : Bool :=
  (commaList results).all fun r =>
    match r.splitOn ":" with
    | [t, "ok", x] => t == x
    | [_, "kafka"] => true
    | [_, "err"] => true
    | _ => false

namespace Mux
open KV.ConnMux

def parseFrame (s : String) : Option Frame :=
  match s.splitOn ":" with
  | [i, t] => do let i ← i.toNat?; let t ← t.toNat?; pure ⟨i, t⟩
  | _ => none

def parseEvent (s : String) : Option Event :=
  let k := s.take 1
  let rest := (s.drop 1).splitOn ":"
  match k.toString, rest with
  | "W", [t, ok] => do let t ← t.toNat?; pure (.write t (ok == "1"))
  | "T", [q] => q.toNat?.map .take
  | "Y", [q, n] => do let q ← q.toNat?; let n ← n.toNat?; pure (.yield q n)
  | "L", [q, n] => do let q ← q.toNat?; let n ← n.toNat?; pure (.lone q n)
  | "E", [q] => q.toNat?.map .peekErr
  | "F", [q, "ok"] => q.toNat?.map (.finish · .ok)
  | "F", [q, "kafka"] => q.toNat?.map (.finish · .kafka)
  | "F", [q, "io"] => q.toNat?.map (.finish · .io)
  | _, _ => none

def showResult (tag : Nat) : Status → String
  | .done (.resp _ f) => s!"{tag}:ok:{f.tag}"
  | .done (.kafkaErr _ _) => s!"{tag}:kafka"
  | .done .err => s!"{tag}:err"
  | _ => s!"{tag}:pending"

def resultOf (s : State) (tag : Nat) : String :=
  match s.calls.find? (·.tag == tag) with
  | some c => showResult tag c.st
  | none => s!"{tag}:err"      -- the call never issued its own request (its ApiVersions exchange failed first)

def handle (stream events tags impl : String) : String :=
  match (commaList stream).mapM parseFrame, (commaList events).mapM parseEvent, (commaList tags).mapM (·.toNat?) with
  | some fs, some es, some ts =>
    let model := match run fs es with
      | some s => let l := ts.map (resultOf s); if l.isEmpty then "-" else ",".intercalate l
      | none => match firstRejected (init fs) es 0 with
        | some i => s!"reject@{i}:{(commaList events).getD i "?"}"
        | none => "reject"
    answer model (tagsHold impl)
  | _, _, _ => "bad-op"

end Mux

def step (line : String) : String :=
  match line.splitOn " => " with
  | [req, impl] =>
    match words req with
    | ["mux", stream, events, tags] => Mux.handle stream events tags impl
    | ["tconn", journals, events, tags] => TConn.handle journals events tags impl
    | _ => "bad-op"
  | _ => "bad-op"

end KV.OracleC06

def main : IO Unit := KV.runOracle () (fun _ l => ((), KV.OracleC06.step l))
