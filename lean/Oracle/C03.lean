/-
Oracle/C03.lean — line-protocol oracle for property C03 (core only; compiled to `oracle_c03`).
  mkcommit <msgs>                      => <commits>       model: `makeCommit`; holds: offset = message offset + 1, same key, same order
  merge <stash> <commits>              => <stash>         model: `Stash.merge`; holds: per key max(old, commits), no other keys
  assign <start> <topics> <subs> <resp> => <assignments>  model: `GroupStart.makeAssignments`; holds: committed (≥ 0) or StartOffset
  ctrace <sync|interval> <ev>;…        => <status>        model: acceptance by the commit-loop LTS; holds: the monitors below
The monitors are evaluated on the raw observations only (Spec side).
-/
import KafkaVerif.Base.Proto
import KafkaVerif.Model.Commit
import KafkaVerif.Model.GroupStart
import KafkaVerif.Model.Group
import KafkaVerif.Model.GroupFront
import KafkaVerif.Spec.GroupWire
import Oracle.GroupWireOps

namespace KV.OracleC03
open KV KV.Commit

/-- "t/p@o" -/
def parseEntry (s : String) : Option (TP × Int) :=
  match s.splitOn "@" with
  | [tp, o] =>
    match tp.splitOn "/" with
    | [t, p] => do some ((t, ← p.toInt?), ← o.toInt?)
    | _ => none
  | _ => none

def parseEntries (s : String) : Option (List (TP × Int)) :=
  if s == "-" then some [] else (s.splitOn ",").mapM parseEntry

def showEntry (e : TP × Int) : String := s!"{e.1.1}/{e.1.2}@{e.2}"

def showEntries (l : List (TP × Int)) : String :=
  if l.isEmpty then "-" else ",".intercalate (l.map showEntry)

def leTP (a b : TP × Int) : Bool := showEntry a ≤ showEntry b

/-- insertion sort by the rendered string (the driver sorts renderings of Go maps the same way) -/
def sortE : List (TP × Int) → List (TP × Int)
  | [] => []
  | x :: xs => ins x (sortE xs)
where ins (x : TP × Int) : List (TP × Int) → List (TP × Int)
  | [] => [x]
  | y :: ys => if leTP x y then x :: y :: ys else y :: ins x ys

def toCommits (l : List (TP × Int)) : List Commit := l.map (fun e => ⟨e.1, e.2⟩)
def ofCommits (l : List Commit) : List (TP × Int) := l.map (fun c => (c.tp, c.offset))

def maxFor (tp : TP) (l : List (TP × Int)) : Option Int :=
  (l.filter (·.1 == tp)).foldl (fun acc e => match acc with | none => some e.2 | some a => some (max a e.2)) none

/-! ### F operations -/

def opMkcommit (msgs impl : String) : String :=
  match parseEntries msgs, parseEntries impl with
  | some ms, some is =>
    let model := ofCommits (ms.map makeCommit)
    let holds := is.length == ms.length && (List.zip ms is).all (fun (m, i) => i.1 == m.1 && i.2 == m.2 + 1)
    s!"model={showEntries model} holds={if holds then 1 else 0}"
  | _, _ => "bad-op"

def opMerge (stash commits impl : String) : String :=
  match parseEntries stash, parseEntries commits, parseEntries impl with
  | some st, some cs, some is =>
    let model := sortE (Stash.merge st (toCommits cs))
    let keys := (st ++ cs).map (·.1)
    let holds := is.all (fun e => keys.contains e.1 && maxFor e.1 (st ++ cs) == some e.2) &&
                 keys.all (fun k => is.any (·.1 == k)) &&
                 is.all (fun e => (is.filter (·.1 == e.1)).length == 1)
    s!"model={showEntries model} holds={if holds then 1 else 0}"
  | _, _, _ => "bad-op"

/-- "t=0+2,u=1" -/
def parseSubs (s : String) : Option (List (String × List Int)) :=
  if s == "-" then some [] else
  (s.splitOn ",").mapM fun e =>
    match e.splitOn "=" with
    | [t, ps] => (if ps == "" then some [] else (ps.splitOn "+").mapM (·.toInt?)).map (fun l => (t, l))
    | _ => none

/-- wire-order entries → topic responses (consecutive entries of one topic form one topic response) -/
def groupResp : List (TP × Int) → GroupStart.Resp
  | [] => []
  | e :: es =>
    match groupResp es with
    | (t, prs) :: rest => if t == e.1.1 then (t, (e.1.2, e.2) :: prs) :: rest else (e.1.1, [(e.1.2, e.2)]) :: (t, prs) :: rest
    | [] => [(e.1.1, [(e.1.2, e.2)])]

def showAssign (a : List (String × List (Int × Int))) : String :=
  ",".intercalate (a.map fun (t, ps) => t ++ "=" ++ "+".intercalate (ps.map fun (p, o) => s!"{p}@{o}"))

def parsePO (x : String) : Option (Int × Int) :=
  match x.splitOn "@" with
  | [p, o] => do some (← p.toInt?, ← o.toInt?)
  | _ => none

def parseAssign (s : String) : Option (List (String × List (Int × Int))) :=
  (s.splitOn ",").mapM fun e =>
    match e.splitOn "=" with
    | [t, ps] => (if ps == "" then some [] else (ps.splitOn "+").mapM parsePO).map (fun l => (t, l))
    | _ => none

def opAssign (start topics subs resp impl : String) : String :=
  match start.toInt?, parseSubs subs, parseEntries resp with
  | some st, some sb, some rs =>
    let tl := topics.splitOn ","
    let r := groupResp rs
    let model := GroupStart.makeAssignments st tl sb r
    -- monitor (spec): for a well-formed answer (each key at most once) the offset is the committed one if ≥ 0 else start;
    -- for any answer: every assigned partition of every configured topic appears exactly in assignment order
    let wellFormed := rs.all (fun e => (rs.filter (·.1 == e.1)).length == 1) &&
                      r.all (fun x => (r.filter (·.1 == x.1)).length == 1)
    let holds : Bool := match parseAssign impl with
      | some ia =>
        ia.map (·.1) == tl &&
        ia.all (fun (t, ps) =>
          ps.map (·.1) == (sb.lookup t).getD [] &&
          ps.all (fun (p, o) =>
            !wellFormed ||
            (match rs.find? (fun e => e.1 == (t, p)) with
             | some e => o == (if e.2 < 0 then st else e.2)
             | none => o == st)))
      | none => false
    s!"model={showAssign model} holds={if holds then 1 else 0}"
  | _, _, _ => "bad-op"

/-! ### commit-loop traces -/

inductive TEv
  | m (e : CEv)
  | l (e : CEv)      -- event of the second commit loop (a late-started loop of an ended generation)
  | ret (id : Nat) (res : String)
  | gnew (a : List (TP × Int))
  | fetch (ok : Bool)
  | ids (loop : Bool) (gid : String) (m : String)   -- ids of the generation a commit loop was started for / an OffsetCommit carried
  | ack (offs : Stash) (ok : Bool)   -- the coordinator's own decision on the OffsetCommit that follows as `.m (.attempt …)`
  | sub (a : List (TP × Int))

def parseB (s : String) : Option Bool := if s == "1" then some true else if s == "0" then some false else none

def parseTEv (tok : String) : Option TEv :=
  match tok.splitOn ":" with
  | ["call", id, ms] => do some (.m (.call (← id.toNat?) (← parseEntries ms)))
  | ["ret", id, r] => do some (.ret (← id.toNat?) r)
  | ["begin", s] => do some (.m (.begin (← parseB s)))
  | ["deq", cs, d] => do some (.m (.deq (toCommits (← parseEntries cs)) (← parseB d)))
  | ["att", offs, ok] => do some (.m (.attempt (← parseEntries offs) (← parseB ok)))
  | ["abort"] => some (.m .abort)
  | ["reply", ok] => do some (.m (.reply (← parseB ok)))
  | ["replied"] => some (.m .replied)
  | ["reset"] => some (.m .reset)
  | ["tick"] => some (.m .tick)
  | ["genEnd"] => some (.m .genEnd)
  | ["endLoop"] => some (.m .endLoop)
  | ["gnew", a] => do some (.gnew (← parseEntries a))
  | ["fetch", ok] => do some (.fetch (← parseB ok))
  | ["sub", a] => do some (.sub (← parseEntries a))
  | _ => none

/-- walk with the reversed prefix -/
def scan (f : List TEv → TEv → Option String) : List TEv → List TEv → Nat → Option String
  | _, [], _ => none
  | past, e :: es, i =>
    match f past e with
    | some msg => some s!"{msg}@{i}"
    | none => scan f (e :: past) es (i + 1)

def passedSoFar (past : List TEv) : List (TP × Int) :=
  past.foldl (fun acc e => match e with | .m (.call _ ms) => ms ++ acc | _ => acc) []

/-- commits never pass what was handed: every offset in an OffsetCommit request ≤ 1 + max offset passed for that partition -/
def monCommitLeHanded (es : List TEv) : Option String :=
  scan (fun past e =>
    match e with
    | .m (.attempt offs _) | .l (.attempt offs _) =>
      let passed := passedSoFar past
      match offs.find? (fun o => match maxFor o.1 passed with | some m => decide (o.2 > m + 1) | none => true) with
      | some o => some s!"commit-beyond-handed:{showEntry o}"
      | none => none
    | _ => none) [] es 0

/-- synchronous CommitMessages returned nil ⇒ an acknowledged OffsetCommit issued after the call began carries, for
each of its messages, an offset ≥ message offset + 1 -/
def monSyncRecorded (sync : Bool) (es : List TEv) : Option String :=
  if !sync then none else
  scan (fun past e =>
    match e with
    | .ret id "nil" =>
      let since := past.takeWhile (fun p => match p with | .m (.call id' _) => id' != id | _ => true)
      match past.find? (fun p => match p with | .m (.call id' _) => id' == id | _ => false) with
      | some (.m (.call _ ms)) =>
        match ms.find? (fun m => !(since.any fun p => match p with
            | .ack offs true => offs.any (fun o => o.1 == m.1 && o.2 ≥ m.2 + 1)
            | _ => false)) with
        | some m => some s!"sync-commit-not-recorded:{showEntry m}"
        | none => none
      | _ => some "ret-without-call"
    | _ => none) [] es 0

/-- the library never believes a commit the coordinator refused (acked means acked ON THE WIRE) -/
def monBelieved (es : List TEv) : Option String :=
  scan (fun past e =>
    match e with
    | .m (.attempt offs true) | .l (.attempt offs true) =>
      match past with
      | .ack offs' false :: _ => if offs' == offs then some s!"commit-believed-but-refused:{showEntries offs}" else none
      | _ => none
    | _ => none) [] es 0

/-- an OffsetCommit carries the generation id and member id of the generation its commit loop was started for -/
def monCommitIds (es : List TEv) : Option String :=
  scan (fun past e =>
    match e with
    | .ids false gid m =>
      -- (with two loops active — a late-started one — the request must carry the ids of one of the started loops)
      if past.any (fun p => match p with | .ids true gid' m' => gid == gid' && m == m' | _ => false) then none
      else some s!"commit-with-foreign-generation:{gid}/{m}"
    | _ => none) [] es 0

/-- the Reader subscribes with exactly the generation's assignment offsets -/
def monSubscribe (es : List TEv) : Option String :=
  scan (fun past e =>
    match e with
    | .sub a =>
      match past.find? (fun p => match p with | .gnew _ => true | _ => false) with
      | some (.gnew g) => if sortE a == sortE g then none else some "subscribe-differs-from-assignment"
      | _ => some "subscribe-without-generation"
    | _ => none) [] es 0

/-- a generation exists only after a successful OffsetFetch: the last OffsetFetch answer before a generation is created
(since the previous generation) must be a success — whatever the error class of a failed one -/
def monFetchBeforeGen (es : List TEv) : Option String :=
  scan (fun past e =>
    match e with
    | .gnew _ =>
      match past.find? (fun p => match p with | .fetch _ => true | .gnew _ => true | _ => false) with
      | some (.fetch true) => none
      | some (.fetch false) => some "generation-after-failed-offset-fetch"
      | _ => some "generation-without-offset-fetch"
    | _ => none) [] es 0

def showLPC (p : LPC) : String := (((toString (repr p)).replace "\n" " ").take 120).toString

/-- `att:<offs>:<library's conclusion>:<coordinator's decision>` becomes the coordinator's decision followed by the
attempt as the library saw it; the 3-field form means both agree -/
def parseTEvs (tok0 : String) : Option (List TEv) :=
  let late := tok0.startsWith "L!"
  let tok := if late then (tok0.drop 2).toString else tok0
  let wrap (l : Option (List TEv)) : Option (List TEv) :=
    if late then l.map (·.map fun e => match e with | .m x => .l x | y => y) else l
  wrap <| match tok.splitOn ":" with
  | ["att", offs, lib, coord, gid, m] => do
    let o ← parseEntries offs
    some [.ids false gid m, .ack o (← parseB coord), .m (.attempt o (← parseB lib))]
  | ["begin", sy, gid, m] => do some [.ids true gid m, .m (.begin (← parseB sy))]
  | ["att", offs, lib, coord] => do
    let o ← parseEntries offs
    some [.ack o (← parseB coord), .m (.attempt o (← parseB lib))]
  | ["att", offs, ok] => do
    let o ← parseEntries offs
    some [.ack o (← parseB ok), .m (.attempt o (← parseB ok))]
  | _ => (parseTEv tok).map (fun e => [e])

/-- trace acceptance by `cstep`; a `ret` (CommitMessages returned) that the model cannot take yet is retried after
every later event: in loop mode the `CL.Replied` hook sits AFTER the channel send, so the application's return can be
logged first.  A `ret` that never becomes acceptable is a reject. -/
def cAccept : CState → List CEv2 → List CEv2 → Nat → Option (Nat × CState)
  | s, pend, [], i => if pend.isEmpty then none else some (i, s)
  | s, pend, e :: es, i =>
    let flush (s : CState) (pend : List CEv2) : CState × List CEv2 :=
      pend.foldl (fun (acc : CState × List CEv2) r => match cstep2 acc.1 r with
        | some s' => (s', acc.2)
        | none => (acc.1, acc.2 ++ [r])) (s, [])
    match e with
    | .main (.ret _ _) =>
      match cstep2 s e with
      | some s' => cAccept s' pend es (i + 1)
      | none => cAccept s (pend ++ [e]) es (i + 1)
    | _ =>
      match cstep2 s e with
      | some s' => let (s'', pend') := flush s' pend; cAccept s'' pend' es (i + 1)
      | none => some (i, s)

def opTrace (mode evs : String) : String :=
  let toks := evs.splitOn ";"
  match (toks.mapM parseTEvs).map List.flatten with
  | some es =>
    let sync := mode == "sync"
    let mevs : List CEv2 := es.filterMap (fun e => match e with
      | .m x => some (.main x)
      | .l x => some (.late x)
      | .ret id "nil" => if sync then some (.main (.ret id true)) else none
      | .ret id "fail" => if sync then some (.main (.ret id false)) else none
      | _ => none)
    let acc := match cAccept {} [] mevs 0 with
      | none => "ok"
      | some (i, s) => s!"reject@{i}-of-model-events:{showLPC s.pc}"
    let ms := [monCommitLeHanded es, monSyncRecorded sync es, monBelieved es, monCommitIds es, monSubscribe es, monFetchBeforeGen es].filterMap id
    let m := if ms.isEmpty then acc else acc ++ " mon=" ++ ",".intercalate ms
    s!"model={m} holds={if ms.isEmpty then 1 else 0}"
  | none => s!"bad-op {(toks.find? (fun t => (parseTEv t).isNone)).getD "?"}"

/-! ### multi-member group histories (one partition per line) -/

inductive GTok
  | produce
  | assign (m start : Nat)
  | sub (m start : Nat)
  | deliver (m off : Nat)
  | taken (m off : Nat)     -- ReadMessage mode: the Reader took the record for the application (its commit may precede the return)
  | commit (m o : Nat) (ack : Bool)

def parseGTok (tok : String) : Option GTok :=
  match tok.splitOn ":" with
  | ["produce"] => some .produce
  | ["assign", m, st] => do some (.assign (← m.toNat?) (← st.toNat?))
  | ["sub", m, st] => do some (.sub (← m.toNat?) (← st.toNat?))
  | ["deliver", m, o] => do some (.deliver (← m.toNat?) (← o.toNat?))
  | ["taken", m, o] => do some (.taken (← m.toNat?) (← o.toNat?))
  | ["commit", m, o, a] => do some (.commit (← m.toNat?) (← o.toNat?) (← parseB a))
  | _ => none

/-- index of the latest epoch of member `m` -/
def lastReader (rs : List GroupHist.Reader) (m : Nat) : Option (Nat × GroupHist.Reader) :=
  (rs.zipIdx.filter (fun x => x.1.m == m)).getLast?.map (fun x => (x.2, x.1))

/-- acceptance by `GroupHist.gstep false`; the observed start positions and delivered offsets must be the model's.
An epoch is created when the coordinator answers the member's OffsetFetch (`assign`) and becomes the member's active
epoch when its Reader subscribes (`sub`); until then deliveries still belong to the member's previous epoch.
`act`/`pend` map a member to the index of its active / created-but-not-yet-subscribed epoch. -/
def gAccept (sl : Bool) : GroupHist.G → List (Nat × Nat) → List (Nat × Nat) → List GTok → Nat → Option (Nat × String)
  | _, _, _, [], _ => none
  | s, act, pend, t :: ts, i =>
    match t with
    | .produce => match GroupHist.gstep sl s .produce with
      | some s' => gAccept sl s' act pend ts (i + 1) | none => some (i, "produce")
    | .assign m st => match GroupHist.gstep sl s (.assign m) with
      | some s' =>
        (match s'.readers.getLast? with
         | some rd =>
           if rd.start == st then gAccept sl s' act ((m, s'.readers.length - 1) :: pend.filter (·.1 != m)) ts (i + 1)
           else some (i, s!"assign-start model={rd.start}")
         | none => some (i, "assign"))
      | none => some (i, "assign")
    | .sub m _ =>
      match pend.lookup m with
      | some idx => gAccept sl s ((m, idx) :: act.filter (·.1 != m)) (pend.filter (·.1 != m)) ts (i + 1)
      | none => gAccept sl s act pend ts (i + 1)
    | .deliver m off =>
      match act.lookup m with
      | some idx =>
        match s.readers[idx]? with
        | some rd =>
          if rd.pos == off then
            match GroupHist.gstep sl s (.deliver idx) with
            | some s' => gAccept sl s' act pend ts (i + 1)
            | none => some (i, "deliver-beyond-log")
          else some (i, s!"deliver-position model={rd.pos}")
        | none => some (i, "deliver-without-assignment")
      | none => some (i, "deliver-without-subscription")
    | .commit m o ack =>
      match GroupHist.gstep sl s (.commit m o ack) with
      | some s' => gAccept sl s' act pend ts (i + 1)
      | none => some (i, "commit-beyond-delivered-to-member")
    | .taken _ _ => gAccept sl s act pend ts (i + 1)

def gscan (f : List GTok → GTok → Option String) : List GTok → List GTok → Nat → Option String
  | _, [], _ => none
  | past, e :: es, i =>
    match f past e with
    | some msg => some s!"{msg}@{i}"
    | none => gscan f (e :: past) es (i + 1)

/-- ReadMessage mode (the trace has `taken` events): for the model the hand-over is the `taken` event -/
def forModel (es : List GTok) : List GTok :=
  if es.any (fun e => match e with | .taken _ _ => true | _ => false) then
    es.filterMap fun e => match e with
      | .taken m o => some (.deliver m o)
      | .deliver _ _ => none
      | x => some x
  else es

/-- every record below an acknowledged commit was handed to the application of some member: returned before the
acknowledgement — or, in ReadMessage mode, taken before it and returned by that ReadMessage call afterwards (ReadMessage
commits before it returns) -/
def monCovered (sl : Bool) (es : List GTok) : Option String :=
  -- with StartOffset = LastOffset the group never sees what was stored before its first start position
  let base : Nat := if sl then (match es.find? (fun e => match e with | .assign _ _ => true | _ => false) with
    | some (.assign _ st) => st | _ => 0) else 0
  let idx := es.zipIdx
  idx.findSome? fun (e, i) =>
    match e with
    | .commit _ o true =>
      let before := es.take i
      let after := es.drop (i + 1)
      let returned (l : List GTok) (r : Nat) : Bool := l.any fun p => match p with | .deliver _ r' => r' == r | _ => false
      let took (l : List GTok) (r : Nat) : Bool := l.any fun p => match p with | .taken _ r' => r' == r | _ => false
      match (List.range o).find? (fun r => decide (base ≤ r) && !(returned before r || (took before r && returned after r))) with
      | some r =>
        -- a record ReadMessage took for the application but never returned (its commit failed) is the known gap of
        -- ReadMessage (C03-D30); anything else never reached an application at all
        if took es r then some s!"readmessage-dropped-then-covered:{r}<{o}@{i}"
        else some s!"covered-undelivered:{r}<{o}@{i}"
      | none => none
    | _ => none

/-- each assignment starts at the group's committed offset, or at the log start when there is none -/
def monResume (sl : Bool) (es : List GTok) : Option String :=
  gscan (fun past e =>
    match e with
    | .assign m st =>
      let c := match past.find? (fun p => match p with | .commit _ _ true => true | _ => false) with
        | some (.commit _ o _) => o
        | _ => if sl then (past.filter (fun p => match p with | .produce => true | _ => false)).length else 0
      if st == c then none else some s!"resume-not-at-commit:m{m}:{st}!={c}"
    | .sub m st =>
      -- since this member's previous subscription there must be a (successful) OffsetFetch answer for it
      match past.find? (fun p => match p with | .assign m' _ => m' == m | .sub m' _ => m' == m | _ => false) with
      | some (.assign _ st') => if st == st' then none else some s!"subscribe-differs:m{m}"
      | _ => some s!"subscribe-without-fetch:m{m}"
    | _ => none) [] es 0

/-- within an epoch a member is handed consecutive offsets from its start -/
def monNoGap (es0 : List GTok) : Option String :=
  let es := forModel es0
  gscan (fun past e =>
    match e with
    | .deliver m off =>
      -- previous event of this member's epoch: a delivery of off-1, or the subscribe at off
      match past.find? (fun p => match p with | .deliver m' _ => m' == m | .sub m' _ => m' == m | _ => false) with
      | some (.deliver _ o') => if off == o' + 1 then none else some s!"gap:m{m}:{o'}->{off}"
      | some (.sub _ st) => if off == st then none else some s!"gap-at-start:m{m}:{st}->{off}"
      | _ => some s!"deliver-without-subscribe:m{m}"
    | _ => none) [] es 0

def opGTrace (sl : Bool) (evs : String) : String :=
  let toks := evs.splitOn ";"
  match toks.mapM parseGTok with
  | some es =>
    let acc := match gAccept sl {} [] [] (forModel es) 0 with
      | none => "ok"
      | some (i, why) => s!"reject@{i}:{why}"
    let ms := [monCovered sl es, monResume sl es, monNoGap es].filterMap id
    let m := if ms.isEmpty then acc else acc ++ " mon=" ++ ",".intercalate ms
    s!"model={m} holds={if ms.isEmpty then 1 else 0}"
  | none => s!"bad-op {(toks.find? (fun t => (parseGTok t).isNone)).getD "?"}"

/-! ### the Reader front on recorded executions (RF.* hooks): start:<tag>:<offset> | acc:<sampled>:<tag>:<offset> | drop:<sampled>:<tag> -/

inductive FTok
  | start (t o : Nat)
  | acc (v t o : Nat)
  | drop (v t : Nat)

def parseFTok (tok : String) : Option FTok :=
  match tok.splitOn ":" with
  | ["start", t, o] => do some (.start (← t.toNat?) (← o.toNat?))
  | ["acc", v, t, o] => do some (.acc (← v.toNat?) (← t.toNat?) (← o.toNat?))
  | ["drop", v, t] => do some (.drop (← v.toNat?) (← t.toNat?))
  | _ => none

/-- model side: replay as `subscribe / enqueue / recv` of Model/GroupFront.lean with the sampled version taken from the
event (the enqueue is placed right before its receive: the hook order of enqueue vs receive is not reliable);
`strictEq = false`.  Rejects when the model would drop what was accepted, accept what was dropped, or return another offset. -/
def fAccept : GroupFront.GF → List FTok → Nat → Option (Nat × String)
  | _, [], _ => none
  | s, t :: ts, i =>
    match t with
    | .start tag o =>
      if tag == s.version + 1 then
        match GroupFront.fstep false s (.subscribe o) with
        | some s' => fAccept s' ts (i + 1) | none => some (i, "subscribe")
      else if tag == s.version then fAccept s ts (i + 1)   -- further partitions of the same generation
      else some (i, s!"version-jump model={s.version}")
    | .acc v tag o =>
      match GroupFront.fstep false { s with sampled := none, queue := [] } (.enqueue tag) with
      | some s1 =>
        if v > s.version then some (i, "sampled-version-from-the-future") else
        match GroupFront.fstep false { s1 with sampled := some v } .recv with
        | some s2 =>
          if s2.out.getLast? == some (tag, o) && s2.out.length == s.out.length + 1 then fAccept s2 ts (i + 1)
          else some (i, s!"accepted-offset model-next={s.start tag + s.sent tag}")
        | none => some (i, "recv")
      | none => some (i, "enqueue-of-unknown-generation")
    | .drop v tag =>
      match GroupFront.fstep false { s with sampled := none, queue := [] } (.enqueue tag) with
      | some s1 =>
        match GroupFront.fstep false { s1 with sampled := some v } .recv with
        | some s2 => if s2.out.length == s.out.length then fAccept s2 ts (i + 1) else some (i, "dropped-but-model-accepts")
        | none => some (i, "recv")
      | none => some (i, "enqueue-of-unknown-generation")

def fscan (f : List FTok → FTok → Option String) : List FTok → List FTok → Nat → Option String
  | _, [], _ => none
  | past, e :: es, i =>
    match f past e with
    | some msg => some s!"{msg}@{i}"
    | none => fscan f (e :: past) es (i + 1)

/-- spec side: a message of generation `tag` is discarded only by a call that sampled a NEWER version; the accepted
offsets of one generation are consecutive from its start -/
def monFront (es : List FTok) : Option String :=
  fscan (fun past e =>
    match e with
    | .drop v t => if t < v then none else some s!"record-of-live-generation-discarded:tag{t}:sampled{v}"
    | .acc v t o =>
      if t < v then some s!"stale-record-accepted:tag{t}:sampled{v}" else
      match past.find? (fun p => match p with | .acc _ t' _ => t' == t | .start t' _ => t' == t | _ => false) with
      | some (.acc _ _ o') => if o == o' + 1 then none else some s!"front-gap:tag{t}:{o'}->{o}"
      | some (.start _ st) => if o == st then none else some s!"front-gap-at-start:tag{t}:{st}->{o}"
      | _ => some s!"accept-without-start:tag{t}"
    | _ => none) [] es 0

def opFTrace (evs : String) : String :=
  let toks := evs.splitOn ";"
  match toks.mapM parseFTok with
  | some es =>
    -- a group Reader starts at version 1 (NewReader), its first generation is tagged 2
    let acc := match fAccept { version := 1 } es 0 with
      | none => "ok"
      | some (i, why) => s!"reject@{i}:{why}"
    let ms := [monFront es].filterMap id
    let m := if ms.isEmpty then acc else acc ++ " mon=" ++ ",".intercalate ms
    s!"model={m} holds={if ms.isEmpty then 1 else 0}"
  | none => s!"bad-op {(toks.find? (fun t => (parseFTok t).isNone)).getD "?"}"

def answer (line : String) : String :=
  match line.splitOn " => " with
  | [req, impl] =>
    match words req with
    | ["mkcommit", ms] => opMkcommit ms impl
    | ["merge", st, cs] => opMerge st cs impl
    | ["assign", start, topics, subs, resp] => opAssign start topics subs resp impl
    | ["ctrace", mode, evs] => opTrace mode evs
    | ["gtrace", tp, evs] => opGTrace (tp.endsWith "@last") evs
    | ["ftrace", evs] => opFTrace evs
    | ["wirebody", method, desc] => KV.OracleGW.opWireBody method desc impl
    | ["wirereq", method, desc] => KV.OracleGW.opWireReq method desc impl
    | ["conncodes", _method, codes] =>
      -- Conn.offsetCommit / Conn.offsetFetch report the FIRST non-zero per-partition code of the response (nil if none)
      match (codes.splitOn ",").mapM (·.toInt?) with
      | some cs =>
        let e := KV.Spec.GroupWire.firstError cs
        let want := if e == 0 then "nil" else s!"k{e}"
        s!"model={want} holds={if impl == want then 1 else 0}"
      | none => "bad-op"
    | ["assignerr", _code] =>
      -- a failed OffsetFetch never yields assignments (hypothesis of start_at_committed)
      s!"model=err holds={if impl == "err" then 1 else 0}"
    | ["d8reader"] =>
      -- observation: after the forced late-unsubscribe schedule the next generation's fetchers are still running
      s!"model=alive holds={if impl == "alive" then 1 else 0}"
    | _ => "bad-op"
  | _ => "bad-op"

end KV.OracleC03

def main : IO Unit := KV.runOracle () (fun _ l => ((), KV.OracleC03.answer l))
