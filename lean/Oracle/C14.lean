/-
Oracle/C14.lean — line-protocol oracle for property C14 (core only; compiled to `oracle_c14`).
Request:  `<op> <members> <parts> => <implementation output>`      op ∈ range | rr | rack
  members  `;`-separated `x<hex id>/<zone>/<t,t,…|->`   (listing order; `-` = no members)
  parts    `;`-separated `<topic>/<partition id>/<leader zone>`   (listing order; `-` = none)
  output   `;`-separated `x<hex id>/<topic>/<p,p,…>` sorted by (id, topic), only non-empty lists; `-` = none
Answer:   `model=<model output> holds=<0|1>`
`model` is computed by Model/GroupBalancer.lean; `holds` is the C14 monitor (Spec/GroupAssign.lean) evaluated
on the *implementation's* output.  Go string ids are mapped to `Nat` by an order-preserving injection
(`embed`: base-257 digits byte+1, left-aligned to the longest id of the request), because the Go code compares
ids bytewise with `<`.
-/
import KafkaVerif.Base.Proto
import KafkaVerif.Base.Bytes
import KafkaVerif.Model.GroupBalancer
import KafkaVerif.Spec.GroupAssign
import KafkaVerif.Model.GroupGlue
import KafkaVerif.Model.GroupWire
import KafkaVerif.Model.GroupRound

namespace KV.OracleC14
open KV KV.GroupBalancer KV.Spec.GroupAssign

def parseNats (s : String) : Option (List Nat) :=
  if s == "-" then some [] else (s.splitOn ",").mapM (·.toNat?)

def parseInts (s : String) : Option (List Int) :=
  if s == "-" then some [] else (s.splitOn ",").mapM (·.toInt?)

/-- `x<hex>` → bytes -/
def parseId (s : String) : Option (List Nat) :=
  if s.startsWith "x" then
    let h := (s.drop 1).toString
    if h.isEmpty then some [] else (ofHex h).map (·.map (·.toNat))
  else none

def embed (w : Nat) (b : List Nat) : Nat :=
  (b.foldl (fun a x => a * 257 + x + 1) 0) * 257 ^ (w - b.length)

structure RawMember where
  idHex : String
  idBytes : List Nat
  zone : Nat
  topics : List Nat

def parseMember (s : String) : Option RawMember :=
  match s.splitOn "/" with
  | [i, z, ts] =>
    match parseId i, z.toNat?, parseNats ts with
    | some b, some z, some ts => some ⟨i, b, z, ts⟩
    | _, _, _ => none
  | _ => none

def parsePart (s : String) : Option Part :=
  match s.splitOn "/" with
  | [t, p, z] =>
    match t.toNat?, p.toInt?, z.toNat? with
    | some t, some p, some z => some ⟨t, p, z⟩
    | _, _, _ => none
  | _ => none

def parseList {α : Type} (f : String → Option α) (s : String) : Option (List α) :=
  if s == "-" then some [] else (s.splitOn ";").mapM f

/-- entry of the implementation's output: (raw id, topic, partitions) -/
def parseEntry (s : String) : Option (String × List Nat × Nat × List Int) :=
  match s.splitOn "/" with
  | [i, t, ps] =>
    match parseId i, t.toNat?, parseInts ps with
    | some b, some t, some ps => some (i, b, t, ps)
    | _, _, _ => none
  | _ => none

def showInts (l : List Int) : String := ",".intercalate (l.map toString)

def sortDedup (l : List Nat) : List Nat := (l.mergeSort (· ≤ ·)).eraseDups

/-- canonical rendering of an assignment over the given ids (ascending) and topics (ascending) -/
def render (a : Asg) (ids : List (Nat × String)) (ts : List Nat) : String :=
  let es := ids.flatMap fun (id, hex) => ts.filterMap fun t =>
    let l := a t id
    if l.isEmpty then none else some s!"{hex}/{t}/{showInts l}"
  if es.isEmpty then "-" else ";".intercalate es

def asgOf (es : List (Nat × Nat × List Int)) : Asg :=
  fun t id => (es.filter (fun e => e.1 == id && e.2.1 == t)).flatMap (·.2.2)

def perms : List Nat → List (List Nat)
  | [] => [[]]
  | x :: xs => (perms xs).flatMap fun p => (List.range (p.length + 1)).map fun i => p.take i ++ x :: p.drop i

/-- RackAffinity for one topic: look for a pair of map iteration orders under which the model reproduces the
implementation's output for this topic; fall back to the first-appearance order -/
def rackTopic (search : Bool) (ms : List Member) (ps : List Part) (a : Asg) (ids : List Nat) (t : Nat) : Option (List (Nat × List Int)) :=
  let sub := appendByTopic t ms
  if sub.isEmpty then some [] else
  let tp := partsOfTopic t ps
  let zones := (tp.map (·.zone)).eraseDups
  -- an output on which the C14 monitor already fails needs no order search (it cannot be a model output: rack_holds)
  let orders := if search then perms zones else []
  let agrees (es : List (Nat × List Int)) : Bool := ids.all fun id => collect id es == a t id
  let hit := orders.findSome? fun s1 => orders.findSome? fun s2 =>
    match rackAssignTopic sub tp s1 s2 with
    | some es => if agrees es then some es else none
    | none => none
  match hit with
  | some es => some es
  | none => rackAssignTopic sub tp zones zones

/-- every member's decoded SyncGroup answer when the leader's balancer returned `m` (as the Go map `mapOf m ids ts`):
`(id, received List.reverse (mapOf m ids ts) id)` for every id, with the leader's request computed once -/
def glueTable (m : Asg) (ids ts : List Nat) : List (Nat × KV.GroupGlue.TopicMap) :=
  let A := KV.GroupGlue.mapOf m ids ts
  let S := KV.GroupGlue.syncRequest List.reverse A
  ids.map fun id => (id, match S.find? (fun e => e.1 == id) with
    | some e => KV.GroupGlue.decodeAssignment e.2
    | none => [])

/-- `makeAssignments` applied to every member's received map with that member's own topic list -/
def viewTable (ms : List Member) (tb : List (Nat × KV.GroupGlue.TopicMap)) : List (Nat × KV.GroupGlue.TopicMap) :=
  tb.map fun e => (e.1, KV.GroupGlue.makeAssignments (((ms.find? (·.id == e.1)).map (·.topics)).getD []) e.2)

def asgOfTable (tb : List (Nat × KV.GroupGlue.TopicMap)) : Asg :=
  fun t id => match tb.find? (·.1 == id) with
    | some e => (KV.GroupGlue.mapGet t e.2).getD []
    | none => []

def answer (model : String) (holds : Bool) : String :=
  s!"model={model} holds={if holds then 1 else 0}"

def parseIdList (s : String) : Option (List (String × List Nat)) :=
  if s == "-" then some [] else (s.splitOn ",").mapM fun i => (parseId i).map fun b => (i, b)

/-- helpers of groupbalancer.go (through the verif export hook) -/
def stepHelper (op a b impl : String) : String :=
  match op with
  | "fmbt" =>
    match parseList parseMember a, b.toNat?, parseIdList impl with
    | some rms, some t, some got =>
      let w := (rms.map (·.idBytes.length) ++ got.map (·.2.length)).foldl max 0
      let ms : List Member := rms.map fun r => ⟨embed w r.idBytes, r.topics, r.zone⟩
      let hexOf (i : Nat) : String := ((rms.find? (fun r => embed w r.idBytes == i)).map (·.idHex)).getD "?"
      let model := (findMembersByTopic ms t).map (fun m => hexOf m.id)
      let gotN := got.map fun g => embed w g.2
      -- reference: a permutation of the subscribers' ids without inversions
      let holds := !decide (WellFormed ms) ||
        (decide (gotN.Perm ((subscribers ms t).map (·.id))) && decide (gotN.Pairwise (· ≤ ·)))
      answer (if model.isEmpty then "-" else ",".intercalate model) holds
    | _, _, _ => "bad-args"
  | "fparts" =>
    match a.toNat?, parseList parsePart b, parseInts impl with
    | some t, some ps, some got =>
      let model := findPartitions t ps
      answer (if model.isEmpty then "-" else showInts model) (got == partsOf t ps)
    | _, _, _ => "bad-args"
  | _ => "bad-op"

/-! ### byte level (Model/GroupWire.lean) -/

def hexOr (b : Bytes) : String := if b.isEmpty then "-" else toHex b

def parseXBytes (s : String) : Option Bytes :=
  if s.startsWith "x" then
    let h := (s.drop 1).toString
    if h.isEmpty then some [] else ofHex h
  else none

def parseWEntry (s : String) : Option (Bytes × List Int) :=
  match s.splitOn "=" with
  | [n, vs] => match parseXBytes n, parseInts vs with
    | some n, some vs => some (n, vs)
    | _, _ => none
  | _ => none

def showEntry (e : Bytes × List Int) : String :=
  s!"x{toHex e.1}={if e.2.isEmpty then "-" else showInts e.2}"

/-- Go map semantics of `content[key] = values` over the entries in wire order, rendered sorted by hex name -/
def renderEntries (es : List (Bytes × List Int)) : String :=
  let m := es.foldl (fun acc e => (acc.filter (fun x => x.1 != e.1)) ++ [e]) ([] : List (Bytes × List Int))
  let strs := (m.map showEntry).mergeSort (fun a b => decide (a ≤ b))
  if strs.isEmpty then "-" else ";".intercalate strs

def renderRead {α : Type} (res : Except KV.Reader.Err α × KV.Reader.RS) (f : α → String) : String :=
  match res.1 with
  | .ok a => s!"ok|{f a}|r{res.2.sz}"
  | .error _ => "err"

def stepWire (ws : List String) (impl : String) : String :=
  match ws with
  | ["abytes", es] =>
    match parseList parseWEntry es, ofHex impl with
    | some es, some b =>
      -- Go picks the order of the entries: decode the bytes with the reader model, the decoded entries must be a
      -- permutation of the requested ones and the writer model must produce exactly these bytes for that order
      let dec := KV.GroupWire.readAssignment ⟨b, b.length⟩
      let order := match dec.1 with
        | .ok (_, es', _) => if decide (es'.Perm es) then es' else es
        | .error _ => es
      let model := KV.GroupWire.writeAssignment ⟨1, order, none⟩
      answer (hexOr model) (model == b && dec.2.sz == 0 && dec.2.inp.isEmpty)
    | _, _ => "bad-args"
  | ["aread", hx, want] =>
    match ofHex hx with
    | some b =>
      let dec := KV.GroupWire.readAssignment ⟨b, b.length⟩
      let model := renderRead dec fun (v, es, u) => s!"v{v}|{renderEntries es}|u{hexOr u}"
      let holds := if want == "?" then impl == model
        else match parseList parseWEntry want with
          | some es => impl == s!"ok|v1|{renderEntries es}|u-|r0"
          | none => false
      answer model holds
    | none => "bad-args"
  | ["mbytes", ts, ud] =>
    match parseList parseXBytes ts, (if ud == "nil" then some none else (parseXBytes ud).map some) with
    | some ts, some u => let model := hexOr (KV.GroupWire.writeMetadata ⟨1, ts, u⟩); answer model (impl == model)
    | _, _ => "bad-args"
  | ["mread", hx, ts, ud] =>
    match ofHex hx with
    | some b =>
      let dec := KV.GroupWire.readMetadata ⟨b, b.length⟩
      let showTs (l : List Bytes) : String := if l.isEmpty then "-" else ";".intercalate (l.map fun t => "x" ++ toHex t)
      let model := renderRead dec fun (v, l, u) => s!"v{v}|{showTs l}|u{hexOr u}"
      let holds := if ts == "?" then impl == model
        else match parseList parseXBytes ts, (if ud == "nil" then some [] else parseXBytes ud) with
          | some l, some u => impl == s!"ok|v1|{showTs l}|u{hexOr u}|r0"
          | _, _ => false
      answer model holds
    | none => "bad-args"
  | _ => "bad-op"

/-! ### trace acceptance for Model/GroupRound.lean -/

/-- one recorded event, ids still as byte strings -/
inductive RawEv
  | round (leader : List Nat) (ms : List RawMember)
  | join (m : List Nat) (gid : Nat)
  | assign (m : List Nat) (got : List Part)
  | syncL (m : List Nat)
  | syncM (m : List Nat)
  | rejoin (m : List Nat)

def parseRawEv (s : String) : Option RawEv :=
  match s.splitOn ":" with
  | ["N", _, l, ms] => match parseId l, parseList parseMember ms with
    | some l, some ms => some (.round l ms)
    | _, _ => none
  | ["J", m, g] => match parseId m, g.toNat? with
    | some m, some g => some (.join m g)
    | _, _ => none
  | ["A", m, ps] => match parseId m, parseList parsePart ps with
    | some m, some ps => some (.assign m ps)
    | _, _ => none
  | ["L", m] => (parseId m).map .syncL
  | ["S", m] => (parseId m).map .syncM
  | ["R", m] => (parseId m).map .rejoin
  | _ => none

def rawIds : RawEv → List (List Nat)
  | .round l ms => l :: ms.map (·.idBytes)
  | .join m _ => [m] | .assign m _ => [m] | .syncL m => [m] | .syncM m => [m] | .rejoin m => [m]

def toEv (w : Nat) : RawEv → KV.GroupRound.Ev
  | .round l ms => .newRound (ms.map fun r => ⟨embed w r.idBytes, r.topics, r.zone⟩) (embed w l)
  | .join m g => .joinOk (embed w m) g
  | .assign m ps => .assign (embed w m) ps
  | .syncL m => .syncLeader (embed w m)
  | .syncM m => .syncMember (embed w m)
  | .rejoin m => .rejoin (embed w m)

def showTopicMap (m : KV.GroupGlue.TopicMap) : String :=
  let es := (m.filter (fun e => !e.2.isEmpty)).mergeSort (fun a b => a.1 ≤ b.1)
  if es.isEmpty then "-" else "+".intercalate (es.map fun e => s!"{e.1}/{showInts e.2}")

/-- replay with `stepB`; after every L / S step report what the member's generation holds -/
def replayTrace (P : KV.GroupRound.Params) (w : Nat) : KV.GroupRound.St → List RawEv → Nat → List String → Except Nat (List String)
  | _, [], _, acc => .ok acc.reverse
  | s, e :: es, k, acc =>
    match KV.GroupRound.stepB P s (toEv w e) with
    | none => .error k
    | some s' =>
      let acc' := match e with
        | .syncL m | .syncM m =>
          (match s'.pc (embed w m) with
           | .running gid asg => s!"x{toHex (m.map UInt8.ofNat)}@{gid}={showTopicMap asg}"
           | _ => "?") :: acc
        | _ => acc
      replayTrace P w s' es (k + 1) acc'

def stepTrace (b : List Member → List Part → Asg) (clusterS evS impl : String) : String :=
  match parseList parsePart clusterS, (evS.splitOn "|").mapM parseRawEv with
  | some cluster, some evs =>
    let w := (evs.flatMap rawIds).foldl (fun a b => max a b.length) 0
    let P : KV.GroupRound.Params := ⟨KV.GroupRound.balanceOf b, cluster, List.reverse⟩
    match replayTrace P w {} evs 0 [] with
    | .ok obs => let model := if obs.isEmpty then "-" else "|".intercalate obs; answer model (impl == model)
    | .error k => answer s!"rejected-at-event-{k}" false
  | _, _ => "bad-args"

def step (line : String) : String :=
  match line.splitOn " => " with
  | [req, impl] =>
    let ws := words req
    -- w<balancer> ops carry a 4th field: the subscribed topics the cluster does not have
    let isW := ws.length == 4 && (ws.getD 0 "").startsWith "w"
    let missS := if isW then ws.getD 3 "-" else "-"
    match (if isW then ws.take 3 else ws) with
    | ["ltrace", c, e] => stepTrace rangeAssign c e impl
    | ["ltrace2", "range", c, e] => stepTrace rangeAssign c e impl
    | ["ltrace2", "rr", c, e] => stepTrace rrAssign c e impl
    | "abytes" :: _ => stepWire (words req) impl
    | "aread" :: _ => stepWire (words req) impl
    | "mbytes" :: _ => stepWire (words req) impl
    | "mread" :: _ => stepWire (words req) impl
    | ["xtopics", a] =>
      match parseList parseMember a, parseNats impl with
      | some rms, some got =>
        let ms : List Member := rms.map fun r => ⟨0, r.topics, r.zone⟩
        let model := KV.GroupGlue.extractTopics ms
        -- reference: ascending, and exactly the topics somebody lists
        let want := sortDedup (ms.flatMap (·.topics))
        answer (if model.isEmpty then "-" else ",".intercalate (model.map toString)) (got == want)
      | _, _ => "bad-args"
    | ["fmbt", a, b] => stepHelper "fmbt" a b impl
    | ["fparts", a, b] => stepHelper "fparts" a b impl
    | [op, msS, psS] =>
      match parseList parseMember msS, parseList parsePart psS, parseList parseEntry (if impl == "panic" then "-" else impl) with
      | some rms, some ps, some res =>
        let w := (rms.map (·.idBytes.length) ++ res.map (·.2.1.length)).foldl max 0
        let ms : List Member := rms.map fun r => ⟨embed w r.idBytes, r.topics, r.zone⟩
        let es : List (Nat × Nat × List Int) := res.map fun (_, b, t, l) => (embed w b, t, l)
        let idTab : List (Nat × String) := rms.map (fun r => (embed w r.idBytes, r.idHex)) ++ res.map (fun (h, b, _, _) => (embed w b, h))
        let ids := sortDedup (idTab.map (·.1))
        let idsH := ids.map fun i => (i, ((idTab.find? (·.1 == i)).map (·.2)).getD "?")
        let ts := sortDedup (ms.flatMap (·.topics) ++ ps.map (·.topic) ++ es.map (·.2.1))
        let a := asgOf es
        -- what the leader's balancer is given: the cluster's partitions, or (w ops) what the fixed readTopicMetadata
        -- makes of a Metadata answer in which the topics `missS` carry UnknownTopicOrPartition
        let got := if op.startsWith "w" then KV.GroupGlue.leaderPartitions ps ((parseNats missS).getD []) ms else ps
        let wf := decide (WellFormed ms)
        let ok := impl != "panic"
        -- ops g<balancer>: the same group run through the real leader glue; `impl` is what the members RECEIVED;
        -- the model is the balancer model pushed through Model/GroupGlue (topics32 iterated in reverse order)
        -- ops v<balancer>: as g<balancer>, `impl` is Generation.Assignments of every member (after makeAssignments);
        -- the model applies `GroupGlue.makeAssignments` with the member's own topic list to its table entry
        let viaView := op.startsWith "v" || op.startsWith "l" || op.startsWith "w"   -- l<balancer>: the same view, observed on real concurrent ConsumerGroups
        let viaGlue := op.startsWith "g" || viaView
        let bop := if viaGlue then (op.drop 1).toString else op
        -- `thru m` = `KV.GroupGlue.delivered List.reverse m ids ts` evaluated through a table (see `glueTable`)
        -- (the table is bound as data at each use so that it is computed once, not once per lookup)
        match bop with
        | "range" =>
          let tb0 := if viaGlue then glueTable (rangeAssign ms got) ids ts else []
          let tb := if viaView then viewTable ms tb0 else tb0
          answer (render (if viaGlue then asgOfTable tb else rangeAssign ms got) idsH ts) (ok && (!wf || rangeHoldsOn ms ps a ts ids))
        | "rr" =>
          let tb0 := if viaGlue then glueTable (rrAssign ms got) ids ts else []
          let tb := if viaView then viewTable ms tb0 else tb0
          answer (render (if viaGlue then asgOfTable tb else rrAssign ms got) idsH ts) (ok && (!wf || rrHoldsOn ms ps a ts ids))
        | "rack" =>
          let zs := sortDedup (ms.map (·.zone) ++ ps.map (·.zone))
          let holds := ok && (!wf || rackHoldsOn ms ps a ts ids zs)
          let per := ts.map fun t => (t, rackTopic holds ms got a ids t)
          let m : Asg := fun t id => match per.find? (·.1 == t) with
                                     | some (_, some es) => collect id es
                                     | _ => []
          let tb0 := if viaGlue then glueTable m ids ts else []
          let tb := if viaView then viewTable ms tb0 else tb0
          let model : String :=
            if per.any (·.2.isNone) then "panic"
            else render (if viaGlue then asgOfTable tb else m) idsH ts
          answer model holds
        | _ => "bad-op"
      | _, _, _ => "bad-args"
    | _ => "bad-op"
  | _ => "bad-op"

end KV.OracleC14

def main : IO Unit := KV.runOracle () (fun _ l => ((), KV.OracleC14.step l))
